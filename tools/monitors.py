"""Executable forms of the properties, evaluated on the IMPLEMENTATION's own observations
(the trace lines written by the harness).  They are search tools: a monitor failure is a
concrete history on which the property fails on the real code.  They never look at the model.

A monitor takes a case (see vcheck.parse_trace) and returns None or (step, message)."""



def is_panic(out, snap):
    """the harness writes a panicking call as result -1000 with an empty snapshot, or (a panic inside the library in a
    run without injection) with the snapshot `-1001 (code chain_len index_len)*`: the weak audit of every internal
    list after the panic; the history ends there.  A result that happens to be the number -1000
    (SampledLFU::room_left can return it) has an ordinary snapshot"""
    return out == [-1000] and (not snap or snap[0] == -1001)


def post_panic_audit(snap):
    """codes of the weak audit taken after a panic inside the library ([] when there is none)"""
    return list(snap[1::3]) if snap and snap[0] == -1001 else []


def lru_snap(snap):
    """`cap n (k v)* wf` -> (cap, [(k, v)...], wf)"""
    if len(snap) < 2:
        return None
    cap, n = snap[0], snap[1]
    ents = [(snap[2 + 2 * i], snap[3 + 2 * i]) for i in range(n)]
    wf = snap[2 + 2 * n] if len(snap) > 2 + 2 * n else 1
    return cap, ents, wf


READ_ONLY_LRU = {3, 4, 5, 8, 9, 10, 13, 15, 19, 20, 21, 22, 24, 25, 26}


def mon_c06(case):
    """RawLRU: exact recency order (stamps = time of last use per the property's list of uses)"""
    if case["kind"] != 0:
        return None
    cap = case["cfg"][0]
    prev = (cap, [])
    stamp, clock = {}, 0
    for step, (op, out, cb, acct, snap) in enumerate(case["lines"], 1):
        if not op or op[0] in (98, 99) or is_panic(out, snap):
            continue
        s = lru_snap(snap)
        if s is None:
            return step, "unreadable snapshot"
        pcap, pents = prev
        pkeys = [k for k, _ in pents]
        c = op[0]
        oldest = min(pents, key=lambda e: stamp.get(e[0], -1)) if pents else None
        newest = max(pents, key=lambda e: stamp.get(e[0], -1)) if pents else None
        used = None
        if c == 0:
            if op[1] in pkeys or pcap != 0:
                used = op[1]
        elif c in (1, 2):
            if op[1] in pkeys:
                used = op[1]
        elif c in (12, 14):
            if pkeys:
                used = pkeys_lru(pents, stamp)
        elif c in (16, 17, 18):
            if op[1] not in pkeys and pcap != 0:
                used = op[1]
        if used is not None:
            stamp[used] = clock
        clock += 1
        ncap, nents, wf = s
        nkeys = [k for k, _ in nents]
        # order by last use
        st = [stamp.get(k, -1) for k in nkeys]
        if any(st[i] <= st[i + 1] for i in range(len(st) - 1)):
            return step, f"list is not in order of last use: keys {nkeys} last used at {st}"
        if len(set(nkeys)) != len(nkeys):
            return step, f"duplicate key in list {nkeys}"
        if len(nkeys) > ncap:
            return step, f"{len(nkeys)} entries exceed capacity {ncap}"
        if c == 0 and out and out[0] == 2 and pcap != 0:
            if oldest is None or [out[1], out[2]] != list(oldest):
                return step, f"put evicted {out[1:]} but the least recently used entry is {oldest}"
        if c in (19, 20, 23, 12, 14):
            want = [1, oldest[0], oldest[1]] if oldest else [0]
            if out != want:
                return step, f"op {c} named {out} but the least recently used entry is {oldest}"
        if c in (21, 22, 13, 15):
            want = [1, newest[0], newest[1]] if newest else [0]
            if out != want:
                return step, f"op {c} named {out} but the most recently used entry is {newest}"
        if c == 11:
            n = op[1]
            if n == pcap:
                if out != [0] or nkeys != pkeys or ncap != pcap:
                    return step, "resize to the same capacity changed something"
            else:
                gone = max(0, len(pents) - n)
                by_age = pents  # the previous list was checked to be in order of last use
                if out != [gone] or ncap != n or nkeys != [k for k, _ in by_age[:n]]:
                    return step, (f"resize({n}) returned {out}, kept {nkeys} cap {ncap}; expected {gone} discarded, "
                                  f"kept {[k for k, _ in by_age[:n]]}")
        if c in READ_ONLY_LRU and (nkeys != pkeys or ncap != pcap):
            return step, f"read-only op {c} changed the order {pkeys} -> {nkeys} or the capacity"
        prev = (ncap, nents)
    return None


def pkeys_lru(pents, stamp):
    return min(pents, key=lambda e: stamp.get(e[0], -1))[0]


# ---------------------------------------------------------------------------------------------
# generic snapshot parsing: kind -> (header length, list names, which lists are resident)
LAYOUT = {
    0: (1, ["list"], [0]),
    1: (2, ["probationary", "protected"], [0, 1]),
    2: (3, ["recent", "frequent", "ghost"], [0, 1]),
    3: (2, ["recent", "recent_evict", "frequent", "frequent_evict"], [0, 2]),
    4: (3, ["window", "probationary", "protected"], [0, 1, 2]),
}


def parse_snap(kind, snap):
    """-> (header, [entries per list], wf, rest) or None"""
    if kind not in LAYOUT or not snap:
        return None
    h, names, _ = LAYOUT[kind]
    hdr = snap[:h]
    i = h
    lists = []
    for _ in names:
        if i >= len(snap):
            return None
        n = snap[i]
        i += 1
        lists.append([(snap[i + 2 * j], snap[i + 2 * j + 1]) for j in range(n)])
        i += 2 * n
    wf = snap[i] if i < len(snap) else 1
    return hdr, lists, wf, snap[i + 1:]


def list_caps(kind, hdr):
    """capacity of each list, and the resident capacity"""
    if kind == 0:
        return [hdr[0]], hdr[0]
    if kind == 1:
        return [hdr[0], hdr[1]], hdr[0] + hdr[1]
    if kind == 2:
        return [hdr[0], hdr[0], hdr[2]], hdr[0]
    if kind == 3:
        return [hdr[0]] * 4, hdr[0]
    if kind == 4:
        return [hdr[0], hdr[1], hdr[2]], sum(hdr)
    return [], 0


def mon_c01(case):
    """capacity bounds, partition bounds, one partition per key, len/is_empty/contains accounting"""
    kind = case["kind"]
    if kind == 10:
        # RawLRU with a panic injected into one call into user code (callback, Hash, Eq, Drop): the bound holds in the
        # state the panic leaves behind and ever after (snapshot: cap n (k v node)* index.. code)
        faulted = None
        for step, (op, out, cb, acct, snap) in enumerate(case["lines"], 1):
            if op and op[0] == 97 and faulted is None:
                faulted = step
            if not op or op[0] in (98, 99) or len(snap) < 2:
                continue
            # (a node that a panic left linked without an index entry is not an entry any more: it leaks, C18)
            nidx = len(snap) - 1 - (2 + 3 * snap[1])
            if nidx > snap[0]:
                return step, (f"the cache holds {nidx} entries (len()), capacity {snap[0]}"
                              + (f" (after the panic injected into user code at step {faulted})" if faulted else ""))
        return None
    if kind not in LAYOUT:
        return None
    resident_idx = LAYOUT[kind][2]
    names = LAYOUT[kind][1]
    for step, (op, out, cb, acct, snap) in enumerate(case["lines"], 1):
        if not op or op[0] in (98, 99) or is_panic(out, snap):
            continue
        p = parse_snap(kind, snap)
        if p is None:
            return step, "unreadable snapshot"
        hdr, lists, wf, _ = p
        caps, rescap = list_caps(kind, hdr)
        # the sizes the cache works with are the configured ones (the case header carries what was asked for)
        cfg = case.get("cfg") or []
        want = {1: lambda c: [c[0], c[1]], 3: lambda c: [c[0]], 4: lambda c: [c[0], c[2], c[1]]}.get(kind)
        if want and len(cfg) >= 3 - (kind in (1, 3)) - (kind == 3):
            w = want(cfg)
            if list(hdr[:len(w)]) != w:
                return step, f"the cache works with the segment sizes {list(hdr[:len(w)])}, configured were {w} ({', '.join(names[:len(w)])})"
        for nm, l, c in zip(names, lists, caps):
            if len(l) > c:
                return step, f"partition {nm} holds {len(l)} entries, bound {c}"
        nres = sum(len(lists[i]) for i in resident_idx)
        if nres > rescap:
            return step, f"{nres} resident entries exceed cap() = {rescap}"
        if kind == 3 and not (0 <= hdr[1] <= hdr[0]):
            return step, f"ARC p = {hdr[1]} outside [0, {hdr[0]}]"
        allkeys = [k for l in lists for k, _ in l]
        if len(set(allkeys)) != len(allkeys):
            dup = [k for k in set(allkeys) if allkeys.count(k) > 1]
            return step, f"key(s) {dup} held in more than one partition / twice"
        if wf != 1:
            return step, "structural audit of the internal lists failed"
        reskeys = {k for i in resident_idx for k, _ in lists[i]}
        c = op[0]
        if c == 8 and out != [len(reskeys)]:
            return step, f"len() = {out} but {len(reskeys)} distinct keys are resident"
        if c == 10 and out != [int(not allkeys)]:
            return step, f"is_empty() = {out} with retained keys {allkeys}"
        if c == 5 and out != [int(op[1] in reskeys)]:
            return step, f"contains({op[1]}) = {out}, resident keys {sorted(reskeys)}"
        if c == 9 and out != [rescap]:
            return step, f"cap() = {out}, configured {rescap}"
    return None


def _f64(bits):
    import struct
    return struct.unpack("<d", struct.pack("<Q", bits & 0xFFFFFFFFFFFFFFFF))[0]


def _ratio_ok(bits):
    x = _f64(bits)
    return x == x and 0.0 <= x <= 1.0


def _fp_ok(bits):
    x = _f64(bits)
    return x == x and 0.0 < x < 1.0


_B025, _B05, _B001 = 4598175219545276416, 4602678819172646912, 4576918229304087675
# builder: number of new(..) arguments, setter -> field
_BUILDERS = {1: (("a",), {1: "a", 2: "r1", 3: "r2"}), 2: (("a", "b"), {1: "a", 2: "b"}), 3: (("a",), {1: "a"}),
             4: (("a", "b", "c", "d"), {1: "d", 2: "a", 3: "b", 4: "c", 5: "r1"})}


def ctor_expect(op):
    """the documented outcome of a constructor / builder / conversion call of the harness (kind 8), from the
    arguments alone: None (no rule), ("ok",) or ("err", code) or ("ok_or", code)"""
    if not op:
        return None
    if op[0] == 141 and len(op) >= 3 and op[1] in _BUILDERS:
        which, mode = op[1], op[2]
        names, setters = _BUILDERS[which]
        f = dict(a=0, b=0, c=0, d=0, r1=_B025 if which == 1 else _B001, r2=_B05)
        rest = op[3:]
        if mode != 0:
            for nme, x in zip(names, rest):
                f[nme] = x
            rest = rest[len(names):]
        for i in range(0, len(rest) - 1, 2):
            if rest[i] in setters:
                f[setters[rest[i]]] = rest[i + 1]
        op = {1: [140, 3, f["a"], f["r1"], f["r2"]], 2: [140, 2, f["a"], f["b"]], 3: [140, 5, f["a"]],
              4: [140, 66, f["a"], f["b"], f["c"], f["d"], f["r1"]]}[which]
    if op[0] != 140 or len(op) < 3:
        return None
    c, a = op[1], op[2:]
    if c in (1, 5, 12, 13, 14):
        return ("err", 1) if a[0] == 0 else ("ok",)
    if c == 2:
        return ("err", 1) if 0 in a[:2] else ("ok",)
    if c in (3, 4, 9, 10, 11):
        size = a[0]
        rr = a[1] if c in (3, 4, 10) else _B025
        gr = a[2] if c in (3, 4) else (a[1] if c == 11 else _B05)
        if size == 0:
            return ("err", 1)
        if not _ratio_ok(rr):
            return ("err", 2)
        if not _ratio_ok(gr):
            return ("err", 3)
        return ("ok_or", 1)      # a ghost quota that floors to 0 is InvalidSize
    if c in (6, 66):
        w, prot, prob, samples = a[:4]
        fp = a[4] if c == 66 else _B001
        for x, code in ((w, 4), (prot, 5), (prob, 6), (samples, 7)):
            if x == 0:
                return ("err", code)
        return ("ok",) if _fp_ok(fp) else ("err", 8)
    if c == 8:
        size, samples, fp = a[:3]
        if samples == 0:
            return ("err", 7)
        if not _fp_ok(fp):
            return ("err", 8)
        return ("err", 9) if size == 0 else ("ok",)
    return None


def mon_c05(case):
    """no operation (and no accepted constructor call) panics; constructors, builders and conversions reject exactly
    the documented arguments with the matching error, and a conversion keeps every key with its last value"""
    for step, (op, out, cb, acct, snap) in enumerate(case["lines"], 1):
        if is_panic(out, snap):
            what = "the constructor" if op and op[0] == 98 else ("drop" if op and op[0] == 99 else f"operation {op}")
            return step, f"{what} panicked"
        if case["kind"] == 8 and op:
            want = ctor_expect(op)
            if want is not None and out:
                ok = (want[0] == "ok" and out[0] == 0) or (want[0] == "err" and out[:2] == [1, want[1]]) or \
                     (want[0] == "ok_or" and (out[0] == 0 or out[:2] == [1, want[1]]))
                if not ok:
                    exp = "Ok" if want[0] == "ok" else (f"Err(code {want[1]})" if want[0] == "err" else f"Ok or Err(code {want[1]})")
                    return step, f"constructor / builder call {op[:12]} must return {exp}, returned {out[:6]} (codes: 1 InvalidSize, 2 recent ratio, 3 ghost ratio, 4-6 window/protected/probationary size, 7 samples, 8 false positive ratio, 9 sketch width)"
            if op[0] == 142 and len(out) >= 2:
                pairs = list(zip(op[2::2], op[3::2]))
                last = {}
                for k, v in pairs:
                    last[k] = v
                got = dict(zip(out[2::2], out[3::2]))
                if out[0] != max(1, len(pairs)) or out[1] != len(last) or got != last:
                    return step, (f"conversion {op[:2]} of the pairs {pairs[:8]} must give a cache of capacity {max(1, len(pairs))} "
                                  f"holding {last}, got capacity {out[0]} holding {got}")
    return None


def mon_c16(case):
    """clone: the clone (which replaces the original in the harness) has the same snapshot"""
    prev = None
    for step, (op, out, cb, acct, snap) in enumerate(case["lines"], 1):
        if op and op[0] == 25 and out == [-7]:
            return step, "the clone reports a different capacity or length (cap / len / is_empty / per-segment accessors) than the original"
        if op and op[0] == 25 and prev is not None and not is_panic(out, snap):
            if snap != prev:
                return step, f"the clone differs from the original: {prev} -> {snap}"
            if out == [-6]:
                return step, "dropping the original released the wrong number of keys/values"
            if out == [-7]:
                return step, "the clone reports a different capacity or length (cap / len / is_empty / per-segment accessors) than the original"
        if op and op[0] == 91 and out == [-6]:
            return step, "the TinyLFU clone differs from the original"
        if op and op[0] == 29 and out != [1]:
            return step, "an operation on the clone changed the original (or vice versa)"
        if not is_panic(out, snap):
            prev = snap
    # a clone is the original also in what it does next: a RawLRU built with an eviction callback keeps calling it
    # (the callback rule of C15, on the calls made after the first clone)
    if case["kind"] == 0:
        first = next((i for i, l in enumerate(case["lines"], 1) if l[0] and l[0][0] == 25), None)
        if first is not None:
            r = mon_c15(case)
            if r is not None and r[0] > first:
                return r[0], "after the clone replaced the original: " + r[1]
    return None


def sampled_snap(snap):
    if len(snap) < 4:
        return None
    mx, used, samples, n = snap[:4]
    pairs = {snap[4 + 2 * i]: snap[5 + 2 * i] for i in range(n)}
    return mx, used, samples, pairs


def _w64(z):
    """the i64 value of an integer: costs are i64, sums and differences wrap (exact whenever they fit)"""
    return (z + (1 << 63)) % (1 << 64) - (1 << 63)


def mon_c20(case):
    """SampledLFU: room_left, update/remove results and fill_sample against the tracked pairs"""
    if case["kind"] != 6:
        return None
    prev = (case["cfg"][0], 0, case["cfg"][1], {})
    for step, (op, out, cb, acct, snap) in enumerate(case["lines"], 1):
        if op and 110 <= op[0] <= 120 and is_panic(out, snap):
            what = {119: "room_left", 120: "fill_sample"}.get(op[0], f"operation {op[:3]}")
            return step, (f"{what} panicked (sample size {prev[2]}, {len(prev[3])} tracked pairs): it has a result for every "
                          f"state and argument" + (" - its input followed by tracked pairs" if op[0] == 120 else ""))
        if not op or op[0] in (98, 99) or is_panic(out, snap):
            continue
        cur = sampled_snap(snap)
        if cur is None:
            return step, "unreadable snapshot"
        mx, used, samples, pairs = prev
        c = op[0]
        if c == 119 and out != [_w64(mx - sum(pairs.values()) - op[1])]:
            return step, f"room_left({op[1]}) = {out}, max {mx}, recorded costs {pairs} (i64 arithmetic, exact modulo 2^64)"
        if c in (112, 113):
            k = op[1] if c == 112 else op[3]
            if out != [int(k in pairs)]:
                return step, f"update reported {out} for key {k}, tracked {sorted(pairs)}"
        if c in (114, 115):
            k = op[1] if c == 114 else op[2]
            want = [1, pairs[k]] if k in pairs else [0]
            if out != want:
                return step, f"remove({k}) returned {out}, recorded {pairs.get(k)}"
        if c == 120:
            nin = op[1]
            inp = op[2:2 + 2 * nin]
            napp = op[2 + 2 * nin]
            app = op[3 + 2 * nin:]
            appp = [(app[2 * i], app[2 * i + 1]) for i in range(napp)]
            want_n = 0 if nin >= samples else min(samples - nin, len(pairs))
            if out != [1]:
                return step, "fill_sample did not return its input first"
            if len(appp) != want_n or any(pairs.get(k) != v for k, v in appp) or len({k for k, _ in appp}) != len(appp):
                return step, f"fill_sample appended {appp}; tracked {pairs}, samples {samples}, input {nin}"
        # the accounting identity on the new state
        if cur[1] != _w64(sum(cur[3].values())):
            return step, f"used = {cur[1]} but the recorded costs sum to {sum(cur[3].values())} (i64 arithmetic, exact modulo 2^64)"
        prev = cur
    return None


# ---------------------------------------------------------------------------------------------
MUT_ITER_KINDS = {2, 3, 8, 9, 11}


def iter_script_writes(args):
    """args = [kind npre na nb triples...]: True when a request of pre/pa stores through a &mut"""
    if len(args) < 4:
        return False
    kind, npre, na = args[0], args[1], args[2]
    if kind not in MUT_ITER_KINDS:
        return False
    tr = args[4:]
    for i in range(npre + na):
        if 3 * i + 1 < len(tr) and tr[3 * i + 1] != 0:
            return True
    return False


def is_read_only(kind, op):
    """the property's list of read-only calls, per cache type, on the encoded operation"""
    c = op[0]
    if c in (3, 5, 8, 9, 10):
        return True
    if c == 4:
        return op[2] == 0
    if kind == 0:
        if c in (13, 19, 21, 26):
            return True
        if c in (15, 20, 22):
            return op[1] == 0
        if c == 24:
            return not iter_script_writes(op[1:])
    if kind == 1:
        if c in (31, 33, 35, 37, 41, 42, 43, 44):
            return True
        if c in (32, 34, 36, 38):
            return op[1] == 0
    if kind == 2:
        if c in (50, 51, 52, 26):
            return True
        if c == 60:
            return not iter_script_writes(op[2:])
    if kind == 3:
        if c in (70, 71, 72, 73, 74):
            return True
        if c == 60:
            return not iter_script_writes(op[2:])
    if kind == 4:
        if c in (100, 101, 102, 103):
            return True
    return False


def mon_c13(case):
    """a read-only call leaves the whole observable state (all lists in order, values, p, estimator) unchanged"""
    kind = case["kind"]
    if kind not in LAYOUT:
        return None
    prev = None
    for step, (op, out, cb, acct, snap) in enumerate(case["lines"], 1):
        if not op or op[0] in (98, 99) or is_panic(out, snap):
            prev = None if is_panic(out, snap) else prev
            continue
        if prev is not None and is_read_only(kind, op):
            if snap != prev:
                diff = next((i for i, (a, b) in enumerate(zip(prev, snap)) if a != b), min(len(prev), len(snap)))
                return step, f"read-only call {op[:6]} changed the state (snapshot field {diff}: {prev[diff:diff+6]} -> {snap[diff:diff+6]})"
            if cb and cb != [0]:
                return step, f"read-only call {op[:6]} invoked the eviction callback"
        prev = snap
    return None


def mon_c15(case):
    """RawLRU with a callback: the callback log of each call = the entries that departed, LRU first,
    with the value they had before the call; without callback: nothing"""
    if case["kind"] != 0:
        return None
    hascb = case["cfg"][1] != 0
    prev = []
    for step, (op, out, cb, acct, snap) in enumerate(case["lines"], 1):
        if not op or op[0] in (98, 99) or is_panic(out, snap):
            continue
        s = lru_snap(snap)
        if s is None:
            return step, "unreadable snapshot"
        _, ents, _ = s
        now = {k for k, _ in ents}
        departed = [e for e in reversed(prev) if e[0] not in now]
        n = cb[0] if cb else 0
        got = [(cb[1 + 2 * i], cb[2 + 2 * i]) for i in range(n)]
        want = departed if hascb else []
        if got != want:
            return step, f"callback invoked for {got} but the entries that left the cache are {want} (op {op[:4]})"
        prev = ents
    return None


def mon_c07(case):
    """SegmentedCache: the segmented-LRU policy clause by clause on the real segment lists"""
    if case["kind"] != 1:
        return None
    pc, fc = case["cfg"][0], case["cfg"][1]
    prob, prot = [], []
    for step, (op, out, cb, acct, snap) in enumerate(case["lines"], 1):
        if not op or op[0] in (98, 99) or is_panic(out, snap):
            continue
        p = parse_snap(1, snap)
        if p is None:
            return step, "unreadable snapshot"
        _, (nprob, nprot), _, _ = p
        c = op[0]
        if c in (0, 1, 2):
            k = op[1]
            pd, fd = dict(prob), dict(prot)
            isput = c == 0
            if k in fd:
                old = fd[k]
                v1 = op[2] if isput else (op[3] if (c == 2 and op[2] != 0) else old)
                want_prot = [(k, v1)] + [e for e in prot if e[0] != k]
                if nprot != want_prot or nprob != prob:
                    return step, (f"hit on protected entry {k} must only refresh it: protected {prot} -> {nprot} "
                                  f"(expected {want_prot}), probationary {prob} -> {nprob}")
                if out != [1, old]:
                    return step, f"hit on protected entry {k} returned {out}, stored value {old}"
            elif k in pd:
                old = pd[k]
                v1 = op[2] if isput else (op[3] if (c == 2 and op[2] != 0) else old)
                rest = [e for e in prob if e[0] != k]
                if len(prot) < fc:
                    want_prot, want_prob = [(k, v1)] + prot, rest
                else:
                    want_prot, want_prob = [(k, v1)] + prot[:-1], [prot[-1]] + rest
                if nprot != want_prot:
                    return step, (f"hit on probationary entry {k} must promote it to the most-recent end of protected: "
                                  f"protected {prot} -> {nprot}, expected {want_prot}")
                if nprob != want_prob:
                    return step, (f"promotion of {k}: probationary {prob} -> {nprob}, expected {want_prob} "
                                  f"(protected's least-recent entry is demoted, never evicted)")
                if out != [1, old]:
                    return step, f"hit on probationary entry {k} returned {out}, stored value {old}"
            elif isput:
                v = op[2]
                if nprot != prot:
                    return step, f"put of new key {k} changed the protected segment {prot} -> {nprot}"
                if len(prob) < pc:
                    want_prob, want_out = [(k, v)] + prob, [0]
                else:
                    want_prob, want_out = [(k, v)] + prob[:-1], [2, prob[-1][0], prob[-1][1]]
                if nprob != want_prob or out != want_out:
                    return step, (f"new key {k} must enter probationary, evicting only its least-recent entry: "
                                  f"probationary {prob} -> {nprob} (expected {want_prob}), returned {out} (expected {want_out})")
            else:
                if nprob != prob or nprot != prot or out != [0]:
                    return step, f"miss on {k} changed the cache or returned {out}"
        elif c == 30:
            k, v = op[1], op[2]
            if not nprot or nprot[0] != (k, v):
                return step, f"put_protected({k}) did not place the key at the most-recent end of protected: {nprot}"
            if any(e[0] == k for e in nprob):
                return step, f"put_protected({k}) left the key in probationary as well: {nprob}"
            if nprob != [e for e in prob if e[0] != k]:
                return step, f"put_protected({k}) changed probationary {prob} -> {nprob}"
        elif 31 <= c <= 38:
            # peek_{lru,mru}[_mut]_from_{probationary,protected}: the entry at that end of that segment, nothing moves;
            # the _mut variants may store a value through the reference (op[1] != 0: op[2])
            seg, nseg = (prob, nprob) if c <= 34 else (prot, nprot)
            other, nother = (prot, nprot) if c <= 34 else (prob, nprob)
            lru_end = c in (31, 32, 35, 36)
            name = {31: "peek_lru_from_probationary", 32: "peek_lru_mut_from_probationary", 33: "peek_mru_from_probationary",
                    34: "peek_mru_mut_from_probationary", 35: "peek_lru_from_protected", 36: "peek_lru_mut_from_protected",
                    37: "peek_mru_from_protected", 38: "peek_mru_mut_from_protected"}[c]
            if not seg:
                if out != [0] or nseg or nother != other:
                    return step, f"{name} on an empty segment returned {out} / changed the cache"
            else:
                e = seg[-1] if lru_end else seg[0]
                if out != [1, e[0], e[1]]:
                    return step, f"{name} returned {out}, the entry at that end of the segment {seg} is {e}"
                want = list(seg)
                if c % 2 == 0 and len(op) >= 3 and op[1] != 0:
                    want[-1 if lru_end else 0] = (e[0], op[2])
                if nseg != want or nother != other:
                    return step, (f"{name} must not move anything: segment {seg} -> {nseg} (expected {want}), "
                                  f"other segment {other} -> {nother}")
        elif c in (39, 40):
            seg, nseg = (prob, nprob) if c == 39 else (prot, nprot)
            other, nother = (prot, nprot) if c == 39 else (prob, nprob)
            name = "remove_lru_from_probationary" if c == 39 else "remove_lru_from_protected"
            want_out = [1, seg[-1][0], seg[-1][1]] if seg else [0]
            if out != want_out or nseg != seg[:-1] or nother != other:
                return step, f"{name}: segment {seg} -> {nseg}, other {other} -> {nother}, returned {out} (expected {want_out})"
        prob, prot = nprob, nprot
    return None


def _victim(prefer_recent, r, f):
    """2Q: least-recent entry of the preferred queue, falling back to the non-empty one"""
    if prefer_recent:
        return ("r", r[-1]) if r else (("f", f[-1]) if f else None)
    return ("f", f[-1]) if f else (("r", r[-1]) if r else None)


def _push(cap, g, e):
    return ([e] + g, None) if len(g) < cap else ([e] + g[:-1], g[-1] if g else None)


def mon_c08_ctor(case):
    """the quotas of every TwoQueueCache a constructor or builder call of the harness built (kind 8): the recent quota is
    floor(size * recent ratio) and the ghost capacity floor(size * ghost ratio), in double precision"""
    import math
    for step, (op, out, cb, acct, snap) in enumerate(case["lines"], 1):
        if op and op[0] in (140, 141) and out == [-6]:
            return step, (f"the cache built by {op[:8]} has an internal list whose capacity is not the configured one (each resident queue "
                          "of a 2Q cache must be able to hold the whole cache)")
        if not op or not out or out[0] != 0 or len(out) < 4:
            continue
        o = op
        if o[0] == 141 and len(o) >= 3 and o[1] == 1:
            names, setters = _BUILDERS[1]
            f = dict(a=0, r1=_B025, r2=_B05)
            rest = o[3:]
            if o[2] != 0:
                f["a"] = rest[0] if rest else 0
                rest = rest[1:]
            for i in range(0, len(rest) - 1, 2):
                if rest[i] in setters:
                    f[setters[rest[i]]] = rest[i + 1]
            o = [140, 3, f["a"], f["r1"], f["r2"]]
        if o[0] != 140 or len(o) < 3 or o[1] not in (3, 4, 9, 10, 11):
            continue
        c, a = o[1], o[2:]
        size = a[0]
        rr = a[1] if c in (3, 4, 10) else _B025
        gr = a[2] if c in (3, 4) else (a[1] if c == 11 else _B05)
        if size == 0 or not _ratio_ok(rr) or not _ratio_ok(gr):
            continue
        want = [size, math.floor(size * _f64(rr)), math.floor(size * _f64(gr))]
        if out[1:4] != want:
            return step, (f"TwoQueueCache built by {op[:8]}: (cap, recent quota, ghost capacity) = {out[1:4]}, the property requires "
                          f"floor(size x ratio) = {want} (ratios {_f64(rr)!r}, {_f64(gr)!r})")
    return None


def mon_c08(case):
    """TwoQueueCache: the 2Q policy clause by clause on the real recent / frequent / ghost lists"""
    if case["kind"] == 8:
        return mon_c08_ctor(case)
    if case["kind"] != 2:
        return None
    size, rs, es = case["cfg"][:3]
    r, f, g = [], [], []
    for step, (op, out, cb, acct, snap) in enumerate(case["lines"], 1):
        if not op or op[0] in (98, 99) or is_panic(out, snap):
            continue
        p = parse_snap(2, snap)
        if p is None:
            return step, "unreadable snapshot"
        hdr, (nr, nf, ng), _, _ = p
        if hdr != [size, rs, es]:
            return step, f"configuration changed: {hdr}"
        c = op[0]
        want = None
        if c in (0, 1, 2):
            k = op[1]
            rd, fd, gd = dict(r), dict(f), dict(g)
            isput = c == 0
            if k in fd:
                old = fd[k]
                v1 = op[2] if isput else (op[3] if (c == 2 and op[2] != 0) else old)
                want = (r, [(k, v1)] + [e for e in f if e[0] != k], g, [1, old], "an access to a frequent entry refreshes it")
            elif k in rd:
                old = rd[k]
                v1 = op[2] if isput else (op[3] if (c == 2 and op[2] != 0) else old)
                want = ([e for e in r if e[0] != k], [(k, v1)] + f, g, [1, old],
                        "a second access moves a recent entry to the frequent queue")
            elif not isput:
                want = (r, f, g, [0], "a miss changes nothing")
            elif k in gd:
                old = gd[k]
                v = op[2]
                if len(r) + len(f) >= size:
                    vi = _victim(len(r) > rs, r, f)
                    if vi is None:
                        return step, "full cache with both queues empty"
                    src, ve = vi
                    r1 = r[:-1] if src == "r" else r
                    f1 = f[:-1] if src == "f" else f
                    g1, dropped = _push(es, g, ve)
                    g2 = [e for e in g1 if e[0] != k]
                    if dropped is None or dropped[0] == k:
                        res = [1, old]
                    else:
                        res = [3, dropped[0], dropped[1], old]
                    want = (r1, [(k, v)] + f1, g2, res,
                            f"ghost revival on a full cache: victim {ve} from {'recent' if src == 'r' else 'frequent'} "
                            f"(recent {len(r)} entries, quota {rs}) becomes a ghost, the key goes to frequent")
                else:
                    want = (r, [(k, v)] + f, [e for e in g if e[0] != k], [1, old],
                            "a put on a ghost key revives it directly into the frequent queue")
            else:
                v = op[2]
                if len(r) + len(f) < size:
                    want = ([(k, v)] + r, f, g, [0], "a key seen once lives in the recent queue")
                else:
                    vi = _victim(len(r) >= rs, r, f)
                    if vi is None:
                        return step, "full cache with both queues empty"
                    src, ve = vi
                    r1 = r[:-1] if src == "r" else r
                    f1 = f[:-1] if src == "f" else f
                    g1, dropped = _push(es, g, ve)
                    res = [0] if dropped is None else [2, dropped[0], dropped[1]]
                    want = ([(k, v)] + r1, f1, g1, res,
                            f"new key on a full cache: victim {ve} from {'recent' if src == 'r' else 'frequent'} "
                            f"(recent {len(r)} entries, quota {rs}) becomes a ghost")
        if want is not None:
            wr, wf, wg, wout, why = want
            if (nr, nf, ng) != (wr, wf, wg) or out != wout:
                return step, (f"{why}: expected recent {wr} frequent {wf} ghost {wg} result {wout}; "
                              f"got recent {nr} frequent {nf} ghost {ng} result {out}")
        r, f, g = nr, nf, ng
    return None


def _arc_replace(size, p, t1, b1, t2, b2, b2hit):
    prefer = len(t1) > 0 and (len(t1) > p or (len(t1) == p and b2hit))
    vi = _victim(prefer, t1, t2)
    if vi is None:
        return t1, b1, t2, b2, None
    src, ve = vi
    if src == "r":
        return t1[:-1], _push(size, b1, ve)[0], t2, b2, ("recent", ve)
    return t1, b1, t2[:-1], _push(size, b2, ve)[0], ("frequent", ve)


def mon_c09(case):
    """AdaptiveCache: the ARC policy (promotion, ghosting, adaptation of p, victim choice) on the real lists"""
    if case["kind"] != 3:
        return None
    size = case["cfg"][0]
    p, t1, b1, t2, b2 = 0, [], [], [], []
    for step, (op, out, cb, acct, snap) in enumerate(case["lines"], 1):
        if not op or op[0] in (98, 99) or is_panic(out, snap):
            continue
        ps = parse_snap(3, snap)
        if ps is None:
            return step, "unreadable snapshot"
        hdr, (n1, nb1, n2, nb2), _, _ = ps
        np_ = hdr[1]
        if not (0 <= np_ <= size):
            return step, f"p = {np_} outside [0, {size}]"
        c = op[0]
        want = None
        if c in (0, 1, 2):
            k = op[1]
            d1, d2, g1, g2 = dict(t1), dict(t2), dict(b1), dict(b2)
            isput = c == 0
            if k in d1:
                old = d1[k]
                v1 = op[2] if isput else (op[3] if (c == 2 and op[2] != 0) else old)
                want = (p, [e for e in t1 if e[0] != k], b1, [(k, v1)] + t2, b2, [1, old],
                        "a second access moves a recent entry to the frequent list")
            elif k in d2:
                old = d2[k]
                v1 = op[2] if isput else (op[3] if (c == 2 and op[2] != 0) else old)
                want = (p, t1, b1, [(k, v1)] + [e for e in t2 if e[0] != k], b2, [1, old],
                        "an access to a frequent entry refreshes it")
            elif not isput:
                want = (p, t1, b1, t2, b2, [0], "a miss changes nothing")
            elif k in g1:
                old, v = g1[k], op[2]
                delta = max(1, len(b2) // len(b1))
                p1 = min(size, p + delta)
                x1, xb1, x2, xb2 = t1, [e for e in b1 if e[0] != k], t2, b2
                why = f"hit on the recent ghost list: p {p} -> {p1} (raise by max(1, {len(b2)}/{len(b1)}) capped at {size})"
                if len(t1) + len(t2) >= size:
                    x1, xb1, x2, xb2, vi = _arc_replace(size, p1, x1, xb1, x2, xb2, False)
                    why += f", victim {vi}"
                want = (p1, x1, xb1, [(k, v)] + x2, xb2, [1, old], why)
            elif k in g2:
                old, v = g2[k], op[2]
                delta = max(1, len(b1) // len(b2))
                p1 = max(0, p - delta)
                x1, xb1, x2, xb2 = t1, b1, t2, [e for e in b2 if e[0] != k]
                why = f"hit on the frequent ghost list: p {p} -> {p1} (lower by max(1, {len(b1)}/{len(b2)}) floored at 0)"
                if len(t1) + len(t2) >= size:
                    x1, xb1, x2, xb2, vi = _arc_replace(size, p1, x1, xb1, x2, xb2, True)
                    why += f", victim {vi}"
                want = (p1, x1, xb1, [(k, v)] + x2, xb2, [1, old], why)
            else:
                v = op[2]
                x1, xb1, x2, xb2 = t1, b1, t2, b2
                why = "a new key enters the recent list"
                if len(t1) + len(t2) >= size:
                    x1, xb1, x2, xb2, vi = _arc_replace(size, p, x1, xb1, x2, xb2, False)
                    why += f"; the full cache makes room first, victim {vi}"
                if len(b1) > size - p:
                    xb1 = xb1[:-1]
                if len(b2) > p:
                    xb2 = xb2[:-1]
                want = (p, [(k, v)] + x1, xb1, x2, xb2, [0], why)
        if want is not None:
            wp, w1, wb1, w2, wb2, wout, why = want
            if (np_, n1, nb1, n2, nb2) != (wp, w1, wb1, w2, wb2) or out != wout:
                return step, (f"{why}: expected p {wp} recent {w1} recent-ghosts {wb1} frequent {w2} frequent-ghosts {wb2} "
                              f"result {wout}; got p {np_} recent {n1} recent-ghosts {nb1} frequent {n2} "
                              f"frequent-ghosts {nb2} result {out}")
        p, t1, b1, t2, b2 = np_, n1, nb1, n2, nb2
    return None


# ---------------------------------------------------------------------------------------------
# W-TinyLFU: the estimator state as the snapshot carries it
M64 = (1 << 64) - 1


def parse_tiny(t):
    """[w samples size_exp bmask set_locs bshift nwords words.. smask nseeds seeds.. nrows (len bytes..)*]"""
    try:
        w, samples, exp, bmask, locs, shift, nw = t[:7]
        i = 7
        words = list(t[i:i + nw]); i += nw
        smask, ns = t[i], t[i + 1]; i += 2
        seeds = list(t[i:i + ns]); i += ns
        nr = t[i]; i += 1
        rows = []
        for _ in range(nr):
            n = t[i]; i += 1
            rows.append(list(t[i:i + n])); i += n
        return dict(w=w, samples=samples, exp=exp, bmask=bmask, locs=locs, shift=shift, words=words,
                    smask=smask, seeds=seeds, rows=rows)
    except (IndexError, ValueError):
        return None


def t_pos(t, i, h):
    if t["seeds"]:
        return (h ^ t["seeds"][i]) & t["smask"]
    return ((h + i * (h >> 32)) & M64) & t["smask"]


def t_door_idx(t, h):
    sh = t["shift"]
    hh = h >> sh
    l = ((h << sh) & M64) >> sh
    return [((hh + i * l) & t["bmask"]) for i in range(t["locs"])]


def t_contains(t, h):
    return all((t["words"][ix >> 6] >> (ix % 64)) & 1 for ix in t_door_idx(t, h))


def t_estimate(t, h):
    m = 255
    for i, row in enumerate(t["rows"]):
        p = t_pos(t, i, h)
        m = min(m, (row[p // 2] >> ((p & 1) * 4)) & 15)
    return m + (1 if t_contains(t, h) else 0)


def t_copy(t):
    c = dict(t)
    c["words"] = list(t["words"])
    c["rows"] = [list(r) for r in t["rows"]]
    return c


def t_try_reset(t):
    t = t_copy(t)
    t["w"] += 1
    if t["w"] >= t["samples"]:
        t["rows"] = [[(b >> 1) & 0x77 for b in r] for r in t["rows"]]
        t["words"] = [0] * len(t["words"])
        t["w"] = 0
    return t


def t_increment(t, h):
    t = t_copy(t)
    if t_contains(t, h):
        for i, row in enumerate(t["rows"]):
            p = t_pos(t, i, h)
            sh = (p & 1) * 4
            if (row[p // 2] >> sh) & 15 < 15:
                row[p // 2] += 1 << sh
    else:
        for ix in t_door_idx(t, h):
            t["words"][ix >> 6] |= 1 << (ix % 64)
    return t_try_reset(t)


def key_hash(mode, k):
    if mode == 0:
        return k & M64
    if mode == 1:
        return (k * 11400714819323198485) & M64
    return 0


def mon_c10(case):
    """W-TinyLFU: window -> admission filter -> main cache, with the verdicts recomputed from the real sketch"""
    if case["kind"] != 4:
        return None
    cfg = case["cfg"]
    wc, fc, pc, kh = cfg[0], cfg[1], cfg[2], cfg[4]
    win, prob, prot, tiny = [], [], [], None
    first = True
    for step, (op, out, cb, acct, snap) in enumerate(case["lines"], 1):
        if not op or op[0] in (98, 99) or is_panic(out, snap):
            continue
        ps = parse_snap(4, snap)
        if ps is None:
            return step, "unreadable snapshot"
        hdr, (nwin, nprob, nprot), _, rest = ps
        ntiny = parse_tiny(rest)
        if ntiny is None:
            return step, "unreadable estimator state"
        c = op[0]
        if tiny is None:
            # estimator state before the first call: all zero with the geometry of the first snapshot
            tiny = t_copy(ntiny)
            tiny["w"] = 0
            tiny["words"] = [0] * len(ntiny["words"])
            tiny["rows"] = [[0] * len(r) for r in ntiny["rows"]]
        want = None      # (win, prob, prot, out, why)
        want_tiny = tiny
        if c == 0:
            k, v = op[1], op[2]
            dw, dp, df = dict(win), dict(prob), dict(prot)
            if k in dw:
                rest_w = [e for e in win if e[0] != k]
                if len(prot) >= fc:
                    want = ([prot[-1]] + rest_w, prob, [(k, v)] + prot[:-1], [1, dw[k]],
                            "a put on a window-resident key moves it into protected, demoting protected's LRU into the window")
                else:
                    want = (rest_w, prob, [(k, v)] + prot, [1, dw[k]],
                            "a put on a window-resident key moves it into the protected segment")
            elif k in dp or k in df:
                pass   # a put on a key of the main cache: the segmented-LRU policy (C07) applies
            elif len(win) < wc:
                want = ([(k, v)] + win, prob, prot, [0], "a new key enters the window")
            else:
                ck, cv = win[-1]
                nw = [(k, v)] + win[:-1]
                if len(prob) + len(prot) < pc + fc:
                    if len(prob) < pc:
                        want = (nw, [(ck, cv)] + prob, prot, [0], "the main cache has room: the candidate is admitted freely")
                    else:
                        want = (nw, [(ck, cv)] + prob[:-1], prot, [2, prob[-1][0], prob[-1][1]],
                                "the main cache has room: the candidate is admitted freely (probationary evicts its own LRU)")
                else:
                    vk, vv = prob[-1]
                    ec, ev = t_estimate(tiny, key_hash(kh, ck)), t_estimate(tiny, key_hash(kh, vk))
                    if ec < ev:
                        want = (nw, prob, prot, [2, ck, cv],
                                f"main cache full: candidate {ck} (estimate {ec}) is strictly below victim {vk} (estimate {ev}) and must be rejected")
                    else:
                        want = (nw, [(ck, cv)] + prob[:-1], prot, [2, vk, vv],
                                f"main cache full: candidate {ck} (estimate {ec}) is not below victim {vk} (estimate {ev}) and must replace it")
        elif c in (1, 2):
            want_tiny = t_increment(t_try_reset(tiny), key_hash(kh, op[1]))
        elif c == 7:
            want_tiny = t_copy(tiny)
            want_tiny["w"] = 0
            want_tiny["words"] = [0] * len(tiny["words"])
            want_tiny["rows"] = [[0] * len(r) for r in tiny["rows"]]
            want = ([], [], [], [], "purge empties the cache")
        if want is not None:
            ww, wp, wf, wout, why = want
            if (nwin, nprob, nprot) != (ww, wp, wf) or out != wout:
                return step, (f"{why}: expected window {ww} probationary {wp} protected {wf} result {wout}; "
                              f"got window {nwin} probationary {nprob} protected {nprot} result {out}")
        for fld in ("w", "words", "rows"):
            if ntiny[fld] != want_tiny[fld]:
                what = {1: "get must record exactly one access (try_reset, then increment)",
                        2: "get_mut must record exactly one access (try_reset, then increment)",
                        7: "purge must clear the estimator"}.get(c, f"operation {op[:3]} must leave the estimator untouched")
                return step, f"{what}: estimator field {fld} differs from the expected state"
        win, prob, prot, tiny = nwin, nprob, nprot, ntiny
    return None


def mon_c12(case):
    """PutResult tells the truth: the result of every put-like call against the retained entries
    (all partitions, ghosts included) before and after the call, on the real lists"""
    kind = case["kind"]
    if kind == 7:
        for step, (op, out, cb, acct, snap) in enumerate(case["lines"], 1):
            if op and op[0] == 130 and not is_panic(out, snap):
                a, b = op[1:5], op[5:9]
                def norm(r):
                    return (r[0],) + tuple(r[1:1 + [0, 1, 2, 3][min(r[0], 3)]])
                eq = int(norm(a) == norm(b))
                if out != [eq, eq, 1, 1, 1, 1 - eq]:
                    return step, f"PutResult comparison of {norm(a)} and {norm(b)} gave {out}, structural equality is {eq}"
        return None
    if kind not in LAYOUT:
        return None
    resident_idx = LAYOUT[kind][2]
    prevs = None
    for step, (op, out, cb, acct, snap) in enumerate(case["lines"], 1):
        if op and is_panic(out, snap) and (op[0] == 0 or (kind == 0 and op[0] in (16, 17, 18)) or (kind == 1 and op[0] == 30)):
            return step, f"the put-like call {op[:4]} returned no PutResult at all: it panicked"
        if not op or op[0] in (98, 99) or is_panic(out, snap):
            continue
        p = parse_snap(kind, snap)
        if p is None:
            return step, "unreadable snapshot"
        hdr, lists, _, _ = p
        if prevs is None:
            prevs = (hdr, [[] for _ in lists])
        phdr, plists = prevs
        c = op[0]
        res = None
        if c == 0 or (c == 30 and kind == 1):
            k, v, res = op[1], op[2], out
        elif kind == 0 and c in (16, 17, 18):
            k, v = op[1], op[2]
            R = {e for l in plists for e in l}
            if c == 18:
                hit, rest = out[0] == 1, out[1:]
            else:
                hit, rest = out[0] == 1, (out[2:] if out[0] == 1 else out[1:])
            was = k in {e[0] for e in R}
            if hit != was:
                return step, f"op {c} on key {k}: reported {'resident' if hit else 'absent'} but the key was {'resident' if was else 'absent'}"
            if hit:
                if rest != [0]:
                    return step, f"op {c} on resident key {k} returned a put result {rest}"
            else:
                if not rest or rest[0] != 1:
                    return step, f"op {c} on absent key {k} returned no put result"
                res = rest[1:]
        if res is not None:
            R = {e for l in plists for e in l}
            R2 = {e for l in lists for e in l}
            keysR = {e[0] for e in R}
            resident2 = {e for i in resident_idx for e in lists[i]}
            cap0 = kind == 0 and phdr[0] == 0
            t = res[0]
            exp = None
            if t == 0:
                if k in keysR:
                    return step, f"put({k}) returned Put but the key was retained"
                exp = R | {(k, v)}
            elif t == 1:
                if (k, res[1]) not in R:
                    return step, f"put({k}) returned Update({res[1]}) but the retained entries were {sorted(R)}"
                exp = (R - {(k, res[1])}) | {(k, v)}
            elif t == 2:
                ek, ev = res[1], res[2]
                if cap0 and (ek, ev) == (k, v):
                    exp = R
                else:
                    if k in keysR:
                        return step, f"put({k}) returned Evicted but the key was retained (Update / EvictedAndUpdate expected)"
                    if (ek, ev) not in R:
                        return step, f"put({k}) reported Evicted({ek},{ev}) which was not a retained entry: {sorted(R)}"
                    exp = (R - {(ek, ev)}) | {(k, v)}
            else:
                ek, ev, old = res[1], res[2], res[3]
                if (k, old) not in R or (ek, ev) not in R or ek == k:
                    return step, f"put({k}) reported EvictedAndUpdate({ek},{ev},{old}) against retained {sorted(R)}"
                exp = (R - {(k, old), (ek, ev)}) | {(k, v)}
            if kind == 3:
                # ARC may discard ghost entries silently, it never invents one
                if not (R2 <= exp and (k, v) in R2):
                    return step, f"ARC put({k}): retained {sorted(R)} -> {sorted(R2)} with result {res}; expected a subset of {sorted(exp)} containing the new pair"
                if phdr[0] >= 2:
                    # with two slots or more only entries that were ghosts before the call may vanish (C12_arc_residents_kept):
                    # the victim of the replacement becomes a ghost, it is not dropped
                    was_resident = {e for i in resident_idx for e in plists[i] if e[0] != k}
                    lost = was_resident - R2
                    if lost:
                        return step, (f"ARC put({k}) returned {res} and the entries {sorted(lost)}, resident before the call, are gone from "
                                      f"every list (a resident victim becomes a ghost; only ghosts may be discarded silently)")
                if t in (2, 3):
                    return step, f"ARC put returned {res}"
            elif R2 != exp:
                return step, (f"put({k},{v}) returned {res}: retained entries {sorted(R)} -> {sorted(R2)}, "
                              f"but the result says they became {sorted(exp)}")
            if not cap0 and (k, v) not in resident2:
                return step, f"after put({k},{v}) the key is not resident with that value: {sorted(resident2)}"
        prevs = (hdr, lists)
    return None


def mon_c02(case):
    """coherence on the implementation's own observations: a shadow unbounded map is driven by the
    operations and the results the cache returned; every lookup result must be the stored value,
    a released key must never be reported, the five lookups must agree with the resident lists, and
    remove must hand back the retained value and release the key"""
    kind = case["kind"]
    if kind == 16:
        return mon_types(case, "val")
    if kind == 8:
        # a conversion stores its pairs one after the other: a lookup in the cache it built returns, for every key it
        # retains, the value of the key's LAST occurrence in the source, and it holds no other key
        for step, (op, out, cb, acct, snap) in enumerate(case["lines"], 1):
            if op and op[0] == 142 and len(out) >= 2 and out[0] >= 0:
                last = {}
                for k, v in zip(op[2::2], op[3::2]):
                    last[k] = v
                for k, v in zip(out[2::2], out[3::2]):
                    if k not in last:
                        return step, f"conversion {op[1]}: the cache holds key {k}, which the source {op[2:]} does not contain"
                    if last[k] != v:
                        return step, (f"conversion {op[1]} from {op[2:]}: key {k} is held with value {v}, the value stored last "
                                      f"for it is {last[k]}")
        return None
    if kind not in LAYOUT:
        return None
    resident_idx = LAYOUT[kind][2]
    shadow = {}
    prev_lists = None
    for step, (op, out, cb, acct, snap) in enumerate(case["lines"], 1):
        if not op or op[0] in (98, 99) or is_panic(out, snap):
            continue
        p = parse_snap(kind, snap)
        if p is None:
            return step, "unreadable snapshot"
        hdr, lists, _, _ = p
        if prev_lists is None:
            prev_lists = [[] for _ in lists]
        resident = {}
        for i in resident_idx:
            resident.update(dict(prev_lists[i]))
        retained = {}
        for l in prev_lists:
            retained.update(dict(l))
        c = op[0]
        if c in (1, 2, 3, 4):
            k = op[1]
            want = [1, resident[k]] if k in resident else [0]
            if out != want:
                return step, f"lookup op {c} of key {k} returned {out} but the resident entry is {resident.get(k)}"
            if out[0] == 1 and shadow.get(k) != out[1]:
                return step, f"lookup op {c} of key {k} returned {out[1]} but the value most recently stored is {shadow.get(k)}"
            if c in (2, 4) and op[2] != 0 and out[0] == 1:
                shadow[k] = op[3]
        elif c == 5:
            k = op[1]
            if out != [int(k in resident)]:
                return step, f"contains({k}) = {out} but resident keys are {sorted(resident)}"
            if out == [1] and k not in shadow:
                return step, f"contains({k}) is true for a key that was released (removed, purged or reported evicted) and not put since"
        elif c == 0 or (c == 30 and kind == 1):
            k, v = op[1], op[2]
            shadow[k] = v
            if out and out[0] in (2, 3):
                shadow.pop(out[1], None)      # the reported eviction releases that key (the key itself at capacity 0)
        elif c == 6:
            k = op[1]
            want = [1, retained[k]] if k in retained else [0]
            if out != want:
                return step, f"remove({k}) returned {out} but the retained entry is {retained.get(k)}"
            if any(e[0] == k for l in lists for e in l):
                return step, f"remove({k}) left the key in the cache"
            shadow.pop(k, None)
        elif c == 7:
            shadow = {}
            if any(lists):
                return step, "purge left entries behind"
        elif kind == 0 and c in (16, 17, 18):
            # peek_or_put / peek_mut_or_put / contains_or_put
            if op[1] not in dict(prev_lists[0]):
                shadow[op[1]] = op[2]
                body = out[1:]            # [1, tag, ...] = Some(put result)
                if len(body) >= 3 and body[0] == 1 and body[1] in (2, 3):
                    shadow.pop(body[2], None)
            elif c == 17 and op[3] != 0:
                shadow[op[1]] = op[4]
        elif kind == 0 and c == 23 and out and out[0] == 1:
            shadow.pop(out[1], None)
        else:
            # operations outside the property's alphabet that can store through a reference or release entries
            # (per-segment *_mut accessors, iter_mut, get_lru_mut, resize, remove_lru_from_*, clone):
            # the shadow map is resynchronised with what the cache retains
            for l in lists:
                for k2, v2 in l:
                    shadow[k2] = v2
        if c in (0, 1, 2, 3, 4, 5, 6, 7) or (c == 30 and kind == 1) or (kind == 0 and c in (16, 17, 18, 23)):
            # every retained entry must be what the shadow map holds (may forget, never wrong)
            for l in lists:
                for k2, v2 in l:
                    if shadow.get(k2) != v2:
                        return step, f"the cache retains ({k2}, {v2}) but the value most recently stored for {k2} is {shadow.get(k2)}"
        prev_lists = lists
    return None


ITER_KINDS = {0: (False, False, 0), 1: (True, False, 0), 2: (False, True, 0), 3: (True, True, 0),
              4: (False, False, 1), 5: (True, False, 1), 6: (False, False, 2), 7: (True, False, 2),
              8: (False, True, 2), 9: (True, True, 2), 10: (False, False, 0), 11: (False, True, 0)}


def _iter_expect(args, lst):
    """expected output of an iterator script on list `lst` (most-recent first), from the property alone:
    next takes from the front of the documented order, next_back from its back, every entry once,
    len exact, exhausted stays exhausted; returns (encoded yields, list after the writes)"""
    code, npre, na, nb = args[:4]
    if code not in ITER_KINDS:
        return None
    lru, mut, proj = ITER_KINDS[code]
    tr = args[4:]
    reqs = [(tr[3 * i] != 0, tr[3 * i + 1] != 0, tr[3 * i + 2]) for i in range(npre + na + nb)]
    pre, pa, pb = reqs[:npre], reqs[npre:npre + na], reqs[npre + na:]
    order = list(reversed(lst)) if lru else list(lst)     # the documented order of this iterator
    writes = {}
    out = []

    def run(rem, rs, allow_write):
        rem = list(rem)
        for back, wf, w in rs:
            if not rem:
                out.extend([0, 0])
                continue
            k, v = rem.pop() if back else rem.pop(0)
            if proj == 0:
                out.extend([1, k, v, len(rem)])
            elif proj == 1:
                out.extend([1, k, len(rem)])
            else:
                out.extend([1, v, len(rem)])
            if allow_write and mut and wf:
                writes[k] = w
        return rem
    rem0 = run(order, pre, True)
    run(rem0, pa, True)
    run(rem0, pb, False)
    after = [(k, writes.get(k, v)) for k, v in lst]
    return out, after


def mon_c14(case):
    """iterators of RawLRU and of every list of 2Q / ARC: each entry once, documented order, both ends,
    exact len, fused, independent clones, writes visible without reordering"""
    kind = case["kind"]
    if kind not in (0, 2, 3):
        return None
    prev_lists = None
    for step, (op, out, cb, acct, snap) in enumerate(case["lines"], 1):
        if not op or op[0] in (98, 99):
            continue
        if is_panic(out, snap):
            # no user code runs inside an iterator of these histories: a panic there is the iterator failing to
            # yield what it must (or to stay exhausted)
            if (kind == 0 and op[0] == 24) or (kind in (2, 3) and op[0] == 60):
                return step, f"the iterator script {op[1:]} panicked inside the library: it neither yields the entries in order nor stays exhausted"
            continue
        p = parse_snap(kind, snap)
        if p is None:
            return step, "unreadable snapshot"
        _, lists, _, _ = p
        if prev_lists is None:
            prev_lists = [[] for _ in lists]
        if (kind == 0 and op[0] == 24) or (kind in (2, 3) and op[0] == 60):
            idx, args = (0, op[1:]) if kind == 0 else (op[1], op[2:])
            if 0 <= idx < len(prev_lists):
                exp = _iter_expect(args, prev_lists[idx])
                if exp is not None:
                    want_out, want_after = exp
                    if out != want_out:
                        return step, (f"iterator kind {args[0]} on list {prev_lists[idx]} with requests {args[1:]}: "
                                      f"yielded {out}, the property requires {want_out}")
                    if lists[idx] != want_after:
                        return step, f"after the iterator script the list is {lists[idx]}, expected {want_after} (writes visible, order unchanged)"
                    for j, l in enumerate(lists):
                        if j != idx and l != prev_lists[j]:
                            return step, f"an iterator over list {idx} changed list {j}"
        prev_lists = lists
    return None


def xmon_c17(cases):
    """the same history under the five BuildHashers (cases i = 5g .. 5g+4 of an --hgroup slice): every
    result, callback log and snapshot must be identical; yields (case id, step, message, group)"""
    import re as _re
    groups = {}
    for c in cases:
        m = _re.match(r"(.*)-i(\d+)$", c["id"])
        if not m or c["kind"] == 8:      # kind 8 (constructors, conversions) is not run in hasher groups
            continue
        groups.setdefault((m.group(1), int(m.group(2)) // 5), []).append(c)
    out = []
    for key, grp in sorted(groups.items()):
        if len(grp) < 2:
            continue
        ref = grp[0]
        for other in grp[1:]:
            if other["cfg"] != ref["cfg"] and other["kind"] != 4:
                out.append((other["id"], 0, f"configuration differs between hashers: {ref['cfg']} vs {other['cfg']}", grp))
                break
            n = max(len(ref["lines"]), len(other["lines"]))
            bad = None
            for i in range(n):
                if i >= len(ref["lines"]) or i >= len(other["lines"]):
                    bad = (i + 1, f"history lengths differ between hashers ({ref['meta']} vs {other['meta']})")
                    break
                a, b = ref["lines"][i], other["lines"][i]
                for fi, name in ((0, "operation"), (1, "result"), (2, "callback log"), (4, "state")):
                    if a[fi] != b[fi]:
                        bad = (i + 1, f"{name} of call {a[0][:4]} differs between hashers [{ref['meta']}] and [{other['meta']}]: "
                                      f"{a[fi][:12]} vs {b[fi][:12]}")
                        break
                if bad:
                    break
            if bad:
                out.append((other["id"], bad[0], bad[1], grp))
                break
    return out



def mon_c17_conv(case):
    """conversions into a RawLRU (kind 8, op 142): the recency order of the result is a function of the sequence the
    source yields (most recent = last yielded; a repeated key counts at its last occurrence) - never of the hash map
    inside the cache or of the hasher"""
    if case["kind"] != 8:
        return None
    for step, (op, out, cb, acct, snap) in enumerate(case["lines"], 1):
        if not op or op[0] != 142 or is_panic(out, snap) or len(out) < 2:
            continue
        keys = list(op[2::2])
        lastpos = {}
        for i, k in enumerate(keys):
            lastpos[k] = i
        want = sorted(lastpos, key=lambda k: -lastpos[k])
        got = list(out[2::2])
        if got != want:
            return step, (f"conversion {op[:2]}: the source yields the keys {keys}; the cache must list them most recent first as "
                          f"{want}, it lists {got}")
    return None

def mon_c11(case):
    """TinyLFU against the exact aged access counts, on the real outputs: lower bound, upper bound 16,
    exactness with a single key, 0 after clear, reset schedule, no false negatives, consistent comparisons"""
    if case["kind"] != 5:
        return None
    samples = case["cfg"][1]
    cnt, door, w = {}, set(), 0
    seen = set()          # distinct hashes ever recorded (never forgotten, not even by clear: "ever")
    tiny = None

    def try_reset():
        nonlocal cnt, door, w
        w += 1
        if w >= samples:
            cnt = {h: c // 2 for h, c in cnt.items() if c // 2}
            door = set()
            w = 0

    def record(h):
        seen.add(h)
        if h in door:
            cnt[h] = min(15, cnt.get(h, 0) + 1)
        else:
            door.add(h)
        try_reset()

    def exact(h):
        return cnt.get(h, 0) + (1 if h in door else 0)
    for step, (op, out, cb, acct, snap) in enumerate(case["lines"], 1):
        if not op or op[0] in (98, 99) or is_panic(out, snap):
            continue
        ntiny = parse_tiny(snap)
        c = op[0]
        if c in (80, 81):
            record(op[-1])
        elif c == 82:
            for h in op[1:]:
                record(h)
        elif c == 83:
            for h in op[2 + op[1]:]:
                record(h)
        elif c == 86:
            try_reset()
        elif c == 87:
            cnt, door, w = {}, set(), 0
        elif c in (84, 85):
            h = op[-1]
            e = out[0]
            if e < exact(h):
                return step, f"estimate({h}) = {e} is below the exact aged access count {exact(h)} (counted {cnt.get(h, 0)}, doorkeeper {'set' if h in door else 'clear'})"
            if e > 16:
                return step, f"estimate({h}) = {e} exceeds 16"
            if seen <= {h} and e != exact(h):
                return step, f"only hash {h} was ever recorded but estimate = {e}, exact count = {exact(h)}"
            if not seen and e != 0:
                return step, f"estimate({h}) = {e} on an estimator that has recorded nothing"
            if tiny is not None and t_estimate(tiny, h) != e:
                return step, f"estimate({h}) = {e} but the sketch and doorkeeper bytes give {t_estimate(tiny, h)}"
        elif c in (88, 89):
            h = op[-1]
            if h in door and out != [1]:
                return step, f"doorkeeper forgot hash {h} recorded since the last reset (contains = {out})"
        elif c == 91 and out == [-6]:
            return step, ("the clone answers estimate / contains differently from the estimator it was cloned from for some key "
                          "0..23 although its counters and doorkeeper are the same (the keys recorded so far are looked up in "
                          "other cells: estimates below the exact count, doorkeeper false negatives)")
        elif c == 90 and tiny is not None:
            a, b = op[3], op[4]
            x, y = t_estimate(tiny, a), t_estimate(tiny, b)
            want = [int(x == y), int(x <= y), int(x < y), int(x > y), int(x >= y)]
            if out != want:
                return step, f"eq/le/lt/gt/ge of hashes {a},{b} = {out} but their estimates are {x} and {y} ({want})"
        if ntiny is not None:
            if ntiny["w"] != w:
                return step, (f"sample-window counter is {ntiny['w']} but {w} accesses/try_resets were recorded since the last reset "
                              f"(sample size {samples}): the reset schedule is off")
            if c == 87 and (any(ntiny["words"]) or any(any(r) for r in ntiny["rows"])):
                return step, "clear left counters or doorkeeper bits behind"
            tiny = ntiny
    return None



def parse_hsnap(snap):
    """kind 9 snapshot: cap n (k v name)* sorted index names ... wf -> (cap, [(k, v, name)], [index names], wf) or None"""
    if len(snap) < 3:
        return None
    cap, n = snap[0], snap[1]
    if n < 0 or len(snap) < 2 + 3 * n + 1:
        return None
    nodes = [(snap[2 + 3 * i], snap[3 + 3 * i], snap[4 + 3 * i]) for i in range(n)]
    rest = snap[2 + 3 * n:]
    return cap, nodes, rest[:-1], rest[-1]


def mon_c03(case):
    """memory safety as the implementation itself shows it: after every call every internal list is a well-formed
    chain between its sentinels that agrees with its index (audit flag of the hook walk), freed memory is never
    written (poison intact), every block is returned at drop; for the address-level subject (kind 9) also node
    identity: an update or a hit moves the same node to the front, an insertion into a full list recycles the least
    recently used node, an insertion with room links a node that was not linked before, nothing else moves"""
    kind = case["kind"]
    if kind == 16:
        return mon_types(case, "mem")
    if kind == 17:
        return mon_liar(case, "mem")
    if kind in HLAYOUT:
        return mon_c03_slru(case)
    if kind == 8:
        # conversions (FromIterator, From<..>): the list they build is audited through the hook
        for step, (op, out, cb, acct, snap) in enumerate(case["lines"], 1):
            if op and op[0] == 142 and out == [-6]:
                return step, (f"the RawLRU built by conversion {op[1]} from the pairs {op[2:]} is not a well-formed chain that agrees "
                              "with its index (walks from both ends, one index entry per node keyed by the node's own key)")
            if op and op[0] == 142 and is_panic(out, snap):
                return step, f"conversion {op[1]} from the pairs {op[2:]} panicked inside the library"
            if op and op[0] == 99 and len(out) >= 6 and out[5]:
                return step, "freed memory was written to (poison damaged)"
        return None
    if kind not in LAYOUT and kind != 9:
        return None
    prev = None
    for step, (op, out, cb, acct, snap) in enumerate(case["lines"], 1):
        if op and is_panic(out, snap) and any(post_panic_audit(snap)):
            bad = [c for c in post_panic_audit(snap) if c][0]
            return step, (f"call {op[:4]} panicked inside the library and left a list that safe calls can no longer be made on: "
                          f"{WEAK_CODES.get(bad, bad)} (weak audit per list: {post_panic_audit(snap)})")
        if not op or op[0] == 98 or is_panic(out, snap):
            prev = None if is_panic(out, snap) else prev
            continue
        if op[0] == 99:
            if len(out) >= 6:
                blocks, poison = out[4], out[5]
                if poison:
                    return step, "freed memory was written to (poison damaged)"
                if blocks:
                    return step, f"{blocks} heap blocks of the cache were not freed when it was dropped"
            continue
        if kind != 9:
            p = parse_snap(kind, snap)
            if p is None:
                return step, "unreadable snapshot"
            if p[2] != 1:
                return step, f"after call {op[:4]} an internal list is not a well-formed chain matching its index (structural audit failed)"
            continue
        p = parse_hsnap(snap)
        if p is None:
            return step, "unreadable snapshot"
        cap, nodes, idx, wf = p
        if wf != 1:
            return step, f"after call {op[:4]} the list is not a well-formed chain matching its index (structural audit failed)"
        names = [a for _, _, a in nodes]
        if len(set(names)) != len(names) or any(a < 2 for a in names):
            return step, f"after call {op[:4]} a node is linked twice or a sentinel is linked as a node: {names}"
        if sorted(names) != list(idx):
            return step, f"after call {op[:4]} the index nodes {idx} are not the linked nodes {sorted(names)}"
        keys = [k for k, _, _ in nodes]
        if len(set(keys)) != len(keys):
            return step, f"after call {op[:4]} a key is stored in two nodes: {keys}"
        if prev is not None:
            pcap, pnodes = prev
            pnames = [a for _, _, a in pnodes]
            pkeys = [k for k, _, _ in pnodes]
            byk = {k: a for k, _, a in pnodes}
            c = op[0]

            def put_rule():
                if pcap > 0 and len(pnodes) == pcap:
                    want = [pnames[-1]] + pnames[:-1]
                    if names != want:
                        return f"insertion into a full list must recycle the least recently used node: nodes {pnames} -> {names}, expected {want}"
                elif pcap > 0:
                    if len(names) != len(pnames) + 1 or names[1:] != pnames or names[0] in pnames:
                        return f"insertion with room must link one node that was not linked before, at the front: nodes {pnames} -> {names}"
                elif names != pnames:
                    return f"a put into a cache of capacity 0 must not link anything: nodes {pnames} -> {names}"
                return None

            msg = None
            if c in (0, 1, 2) and op[1] in byk:
                want = [byk[op[1]]] + [a for a in pnames if a != byk[op[1]]]
                if names != want:
                    msg = f"call {op[:4]} on a resident key must move its own node to the front: nodes {pnames} -> {names}, expected {want}"
            elif c == 0:
                msg = put_rule()
            elif c in (16, 17, 18) and op[1] not in byk:
                msg = put_rule()
            elif c in (1, 2, 3, 4, 5, 8, 9, 10, 13, 15, 16, 17, 18, 19, 20, 21, 22, 24):
                if names != pnames:
                    msg = f"call {op[:4]} must not move or relink any node: nodes {pnames} -> {names}"
            elif c in (12, 14):
                want = ([pnames[-1]] + pnames[:-1]) if pnames else []
                if names != want:
                    msg = f"get_lru must move the last node itself to the front: nodes {pnames} -> {names}, expected {want}"
            elif c == 6:
                want = [a for k, _, a in pnodes if k != op[1]]
                if names != want:
                    msg = f"remove must unlink exactly the node of the key: nodes {pnames} -> {names}, expected {want}"
            elif c == 23:
                if names != pnames[:-1]:
                    msg = f"remove_lru must unlink exactly the last node: nodes {pnames} -> {names}"
            elif c == 7:
                if names:
                    msg = f"purge left nodes linked: {names}"
            elif c == 25:
                if set(names) & set(pnames):
                    msg = f"the clone shares nodes with the original: nodes {pnames} -> {names}"
                elif keys != pkeys:
                    msg = f"the clone does not hold the keys of the original in their order: {pkeys} -> {keys}"
            elif c == 11:
                want = pnames if op[1] == pcap else pnames[:op[1]]
                if names != want:
                    msg = f"resize({op[1]}) must unlink exactly the nodes beyond the new capacity: nodes {pnames} -> {names}, expected {want}"
            if msg:
                return step, msg
        prev = (cap, nodes)
    return None


WEAK_CODES = {
    1: "a list walk reached a freed node (dangling pointer)",
    2: "a list walk does not terminate at the other sentinel / a sentinel is damaged",
    3: "the forward and backward walks of a list disagree",
    4: "a node is linked twice or a sentinel is linked as a node",
    5: "an index entry points at a node that is not linked (or freed)",
    6: "an index key does not point at the key of a linked node of its list",
    7: "a node is indexed twice",
}


def mon_c18(case):
    """panic injection runs (kind >= 100), judged on the implementation alone: after the injected panic and after every
    later call nothing has been dropped twice, no list walk meets a freed node, every list is still a chain between its
    sentinels, every index entry points at a linked node through the key stored in it; the final drop drops nothing
    twice and leaves the poison of freed memory intact"""
    if case["kind"] == 10:
        # RawLRU under injection, model-comparable lines: the weak-audit code is the last number of the snapshot
        for step, (op, out, cb, acct, snap) in enumerate(case["lines"], 1):
            if not op or op[0] == 99:
                if op and len(out) >= 6 and (out[2] or out[5]):
                    return step, "the final drop dropped an object twice or freed memory was written to"
                continue
            if len(acct) >= 3 and acct[2]:
                return step, f"call {op[:4]} dropped {acct[2]} key/value object(s) a second time"
            if snap and snap[-1] != 0:
                return step, f"after call {op[:12]}: {WEAK_CODES.get(snap[-1], snap[-1])}"
        return None
    if case["kind"] < 100:
        return None
    faulted = None
    for step, (op, out, cb, acct, snap) in enumerate(case["lines"], 1):
        if not op:
            continue
        inj = op[0] == 97
        real = op[2:] if inj else op
        if inj and out[:1] == [-1000] and len(out) > 1:
            faulted = (step, op[1], real[:4], out[1])
        where = (f"after the panic injected into call #{faulted[1]} into user code of operation {faulted[2]} (step {faulted[0]}, "
                 f"{['BuildHasher', 'Hash', 'Eq', 'Clone', 'Drop of a key', 'Drop of a value', 'the eviction callback'][faulted[3]] if 0 <= faulted[3] < 7 else '?'}) "
                 if faulted else "")
        if real[:1] == [99]:
            if len(out) >= 6:
                dk, dv, dd, live, ok, poison = out[:6]
                if dd:
                    return step, where + f"dropping the cache dropped {dd} key/value object(s) a second time"
                if poison:
                    return step, where + "freed memory was written to (poison damaged)"
            continue
        if len(acct) >= 3 and acct[2]:
            return step, where + f"call {real[:4]} dropped {acct[2]} key/value object(s) a second time"
        for li in range(0, len(snap) - 2, 3):
            code = snap[li]
            if code:
                return step, where + f"after call {real[:4]}: list #{li // 3}: {WEAK_CODES.get(code, code)}"
    return None


# node-level snapshots of the composite caches: kind -> (header numbers, number of lists, identity groups)
# identity groups: lists among which an entry moves by relinking its node (never by copying); W-TinyLFU moves
# entries between its window and its main cache by value, so those are separate groups
HLAYOUT = {
    11: (2, 2, [[0, 1]]),
    12: (3, 3, [[0, 1, 2]]),
    13: (2, 4, [[0, 1, 2, 3]]),
    14: (3, 3, [[0], [1, 2]]),
}


def parse_named(kind, snap):
    """-> ([ [(k,v,name)] per list ], [[index names] per list], wf) or None"""
    hdr, nl, _ = HLAYOUT[kind]
    if len(snap) < hdr + nl + 1:
        return None
    i = hdr
    lists, idxs = [], []
    for _ in range(nl):
        if i >= len(snap):
            return None
        n = snap[i]
        i += 1
        if n < 0 or i + 4 * n > len(snap):
            return None
        lists.append([(snap[i + 3 * j], snap[i + 3 * j + 1], snap[i + 3 * j + 2]) for j in range(n)])
        i += 3 * n
        idxs.append(list(snap[i:i + n]))
        i += n
    return lists, idxs, snap[i] if i < len(snap) else 1


def mon_c03_slru(case):
    """composite caches at node level (kinds 11-14), on the implementation alone: every list is an audited chain
    matching its index, no node is in two lists, and node identity is kept across the lists of a group: a key that
    is in the group before and after a call sits in the same node (promotion, demotion, ghosting and revival move
    nodes, they do not copy entries); a node that appears is either new or the recycled node of a key that left"""
    kind = case["kind"]
    groups = HLAYOUT[kind][2]
    prev = None
    for step, (op, out, cb, acct, snap) in enumerate(case["lines"], 1):
        if op and is_panic(out, snap) and any(post_panic_audit(snap)):
            bad = [c for c in post_panic_audit(snap) if c][0]
            return step, (f"call {op[:4]} panicked inside the library and left a list that safe calls can no longer be made on: "
                          f"{WEAK_CODES.get(bad, bad)} (weak audit per list: {post_panic_audit(snap)})")
        if not op or op[0] == 98 or is_panic(out, snap):
            prev = None if is_panic(out, snap) else prev
            continue
        if op[0] == 99:
            if len(out) >= 6 and out[5]:
                return step, "freed memory was written to (poison damaged)"
            if len(out) >= 6 and out[4]:
                return step, f"{out[4]} heap blocks of the cache were not freed when it was dropped"
            continue
        p = parse_named(kind, snap)
        if p is None:
            return step, "unreadable snapshot"
        lists, idxs, wf = p
        if wf != 1:
            return step, f"after call {op[:4]} a list is not a well-formed chain matching its index (structural audit failed)"
        names = [a for l in lists for _, _, a in l]
        if len(set(names)) != len(names):
            return step, f"after call {op[:4]} a node is linked in two lists or twice: {names}"
        for l, ix in zip(lists, idxs):
            if sorted(a for _, _, a in l) != ix:
                return step, f"after call {op[:4]} the index nodes {ix} are not the linked nodes {sorted(a for _, _, a in l)}"
        cur = [{k: a for li in g for k, _, a in lists[li]} for g in groups]
        if prev is not None and op[0] == 25:
            # x = x.clone(): every node of the clone is new, the keys are the same
            shared = {a for pc in prev for a in pc.values()} & set(names)
            if shared:
                return step, f"call {op[:4]}: the clone shares the nodes {sorted(shared)} with the original"
            if [sorted(pc) for pc in prev] != [sorted(cc) for cc in cur]:
                return step, f"call {op[:4]}: the clone does not hold the keys of the original"
        elif prev is not None:
            for gi, (pc, cc) in enumerate(zip(prev, cur)):
                for k, a in cc.items():
                    if op[0] == 30 and k == op[1]:
                        continue    # put_protected takes the entry out of one segment and puts it into the other by value
                    if k in pc and pc[k] != a:
                        return step, (f"call {op[:4]}: key {k} stayed in the cache but moved from node {pc[k]} to node {a} "
                                      "(entries are moved between the lists by relinking their node, never by copying)")
                gone = {a for k, a in pc.items() if k not in cc}
                old_names = set(pc.values())
                for k, a in cc.items():
                    if k not in pc and a in old_names and a not in gone:
                        return step, f"call {op[:4]}: the new key {k} sits in node {a}, which still belongs to another key"
        prev = cur
    return None

def mon_liar(case, what):
    """kind 17: RawLRU under a hasher whose answers change while keys are stored (what a key with interior state read by
    its Hash does).  The index may lose and duplicate keys, so results, leaks and even termination are unspecified (as for
    std's HashMap); what has to hold is the weak invariant of layer F after every call and after every panic of the
    library's own unwraps - the chain is well formed, no node is linked or indexed twice, every index entry points at a
    linked, allocated node through the key stored in a linked node - and no double drop, no write to freed memory"""
    for step, (op, out, cb, acct, snap) in enumerate(case["lines"], 1):
        if not op or op[0] == 98:
            continue
        if is_panic(out, snap):
            if what == "mem" and any(post_panic_audit(snap)):
                bad = [c for c in post_panic_audit(snap) if c][0]
                return step, (f"with a hasher that changes its answers: call {op[:4]} panicked inside the library and left "
                              f"{WEAK_CODES.get(bad, bad)} (weak audit: {post_panic_audit(snap)})")
            return None
        if op[0] == 99:
            if len(out) >= 6:
                if what == "own" and out[2]:
                    return step, f"with a hasher that changes its answers: dropping the cache dropped {out[2]} object(s) twice"
                if what == "mem" and out[5]:
                    return step, "with a hasher that changes its answers: freed memory was written to (poison damaged)"
            continue
        if what == "mem" and snap and snap[0] != 0:
            return step, (f"with a hasher that changes its answers: after call {op[:4]} the list is damaged: "
                          f"{WEAK_CODES.get(snap[0], snap[0])} (chain {snap[1] if len(snap) > 1 else '?'} nodes, index {snap[2] if len(snap) > 2 else '?'} entries)")
        if what == "own" and len(acct) >= 3 and acct[2]:
            return step, f"with a hasher that changes its answers: call {op[:4]} dropped {acct[2]} key/value object(s) twice"
        if what == "mem" and op[0] == 25 and len(snap) >= 3 and snap[1] != snap[2]:
            return step, (f"the list of the clone has {snap[1]} nodes but its index {snap[2]} entries (a clone is built under one state "
                          "of the hasher, so its nodes are exactly the entries of its index), with a key type whose Clone does not keep keys distinct")
        if what == "own" and op[0] == 25 and len(snap) >= 3 and snap[1] != snap[2]:
            return step, (f"the clone links {snap[1]} nodes but indexes {snap[2]}: a node without an index entry is never released "
                          "(its key and value leak), with a key type whose Clone does not keep keys distinct")
    return None



TY_INST = ["(TKey, u64)", "(u64, TVal)", "(String, u64)", "(u8, String)", "(TKey, Wide: 64-byte aligned Copy)", "(String, TVal)"]
TY_CACHE = ["RawLRU", "SegmentedCache", "TwoQueueCache", "AdaptiveCache", "WTinyLFUCache"]


def mon_types(case, what):
    """kind 16: the five cache types over other key / value types (harness tys.rs), judged on the implementation alone.
    `what`: "own" = ledger / blocks / purge, "mem" = poison and panics inside the library, "val" = a lookup returns
    the value stored last under the key"""
    inst, cache = case["cfg"][0], case["cfg"][1]
    who = f"{TY_CACHE[cache] if cache < len(TY_CACHE) else cache}<{TY_INST[inst] if inst < len(TY_INST) else inst}>"
    last = {}
    prev_ret = 0
    for step, (op, out, cb, acct, snap) in enumerate(case["lines"], 1):
        if not op or op[0] == 98:
            continue
        if is_panic(out, snap):
            if what in ("mem", "total"):
                return step, f"{who}: operation {op[:4]} panicked inside the library"
            return None
        if op[0] == 99:
            if len(out) >= 6:
                dk, dv, dd, live, blocks, poison = out[:6]
                if what == "own":
                    if dd:
                        return step, f"{who}: dropping the cache dropped {dd} object(s) twice"
                    if live:
                        return step, f"{who}: {live} tracked keys/values are still alive after the cache was dropped (leak)"
                    if blocks:
                        return step, f"{who}: {blocks} heap blocks allocated for the cache (nodes, index, owned keys/values) were not freed when it was dropped"
                if what == "mem" and poison:
                    return step, f"{who}: freed memory was written to (poison damaged)"
            continue
        if len(snap) < 4:
            return step, "unreadable snapshot"
        tk, tv, retained, ln = snap[:4]
        if what == "own" and len(acct) >= 4:
            dd, live = acct[2], acct[3]
            if dd:
                return step, f"{who}: call {op[:4]} dropped {dd} key/value object(s) twice"
            if live != retained * (tk + tv):
                return step, (f"{who}: after call {op[:4]} {live} tracked objects are alive but the cache retains {retained} entries "
                              f"(= {retained * (tk + tv)} tracked objects): "
                              f"{'leak' if live > retained * (tk + tv) else 'an object reachable through the cache was dropped'}")
            if op[0] == 7 and (retained or ln):
                return step, f"{who}: purge left {retained} entries retained"
        if what == "val":
            c = op[0]
            if c == 0:
                if out and out[0] in (1, 3) and op[1] in last and out[-1] != last[op[1]]:
                    return step, f"{who}: put({op[1]}) reports the old value {out[-1]}, stored last: {last[op[1]]}"
                last[op[1]] = op[2]
            elif c in (1, 2, 3, 4, 6) and out[:1] == [1]:
                if op[1] in last and out[1] != last[op[1]]:
                    return step, f"{who}: lookup {op[:2]} returned {out[1]} but the value stored last under the key is {last[op[1]]}"
                if op[1] not in last:
                    return step, f"{who}: lookup {op[:2]} returned {out[1]} for a key that was never stored"
                if c in (2, 4) and len(op) >= 4 and op[2]:
                    last[op[1]] = op[3]
                if c == 6:
                    del last[op[1]]
            elif c == 7:
                last = {}
            elif c == 25 and out == [-7]:
                return step, f"{who}: the clone reports another len / cap than the original"
    return None



def mon_c04(case):
    """ownership ledger of the harness on the implementation alone: nothing dropped twice; after every call the
    tracked keys and values still alive are exactly those of the retained entries; purge retains nothing;
    dropping the cache releases every retained key and value once, every heap block, and damages no freed memory"""
    kind = case["kind"]
    if kind == 16:
        return mon_types(case, "own")
    if kind == 17:
        return mon_liar(case, "own")
    if kind == 8:
        # constructors, builders and conversions: every cache they build is dropped inside the call; at the end of the
        # history no block allocated by them may be left and no freed memory may have been written
        for step, (op, out, cb, acct, snap) in enumerate(case["lines"], 1):
            if op and op[0] == 99 and len(out) >= 6:
                if out[4]:
                    return step, f"{out[4]} heap blocks allocated by the constructor / conversion calls of this history were never freed"
                if out[5]:
                    return step, "freed memory was written to (poison damaged)"
        return None
    if kind not in LAYOUT:
        return None
    retained = 0
    for step, (op, out, cb, acct, snap) in enumerate(case["lines"], 1):
        if not op or op[0] == 98 or is_panic(out, snap):
            continue
        if op[0] == 99:
            if len(out) >= 6:
                dk, dv, dd, live, blocks, poison = out[:6]
                if dd:
                    return step, f"dropping the cache dropped {dd} object(s) twice"
                if dk != retained or dv != retained:
                    return step, f"dropping the cache released {dk} keys and {dv} values but it retained {retained} entries"
                if live:
                    return step, f"{live} keys/values are still alive after the cache was dropped (leak)"
                if blocks:
                    return step, f"{blocks} heap blocks allocated by the cache were not freed when it was dropped"
                if poison:
                    return step, "freed memory was written to (poison damaged)"
            continue
        p = parse_snap(kind, snap)
        if p is None:
            return step, "unreadable snapshot"
        _, lists, _, _ = p
        retained = sum(len(l) for l in lists)
        if len(acct) >= 4:
            dd, live = acct[2], acct[3]
            if dd:
                return step, f"call {op[:4]} dropped {dd} key/value object(s) twice"
            if live != 2 * retained:
                return step, (f"after call {op[:4]} {live} tracked keys/values are alive but the cache retains {retained} entries "
                              f"(= {2 * retained} objects): {'leak' if live > 2 * retained else 'an object reachable through the cache was dropped'}")
        if op[0] == 7 and retained:
            return step, f"purge left {retained} entries retained"
    return None
