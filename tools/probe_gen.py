#!/usr/bin/env python3
"""probe_gen.py <sigs.json> <probe crate dir>  -> writes the crate; prints nothing
probe_gen.py --run <probe crate dir> <result.json>  -> cargo check, classify every probe

For C19: per public reference-returning method of a cache type and per unsafe Send/Sync impl, client
programs that must be REJECTED by rustc if the API is sound (hold a result across a mutation, let it
outlive the cache, take two mutable results, send a shared-reference iterator over non-Sync data to
another thread), plus positive controls that must be ACCEPTED.  A negative probe that compiles is a
concrete unsound client program (the replay)."""
import sys, os, json, re, subprocess, shutil

CTORS = {
    "RawLRU": "caches::RawLRU::<u64, u64>::new(4).unwrap()",
    "SegmentedCache": "caches::SegmentedCache::<u64, u64>::new(2, 2).unwrap()",
    "TwoQueueCache": "caches::TwoQueueCache::<u64, u64>::new(4).unwrap()",
    "AdaptiveCache": "caches::AdaptiveCache::<u64, u64>::new(4).unwrap()",
    "WTinyLFUCache": "caches::WTinyLFUCache::<u64, u64>::with_sizes(1, 2, 2, 8).unwrap()",
}
BORROW_ERRORS = {"E0499", "E0502", "E0505", "E0506", "E0597", "E0716", "E0515", "E0713", "E0503"}
TRAIT_ERRORS = {"E0277"}
CLONE_ERRORS = {"E0599"}


def arg_for(param):
    ty = param.split(":", 1)[1].strip() if ":" in param else param
    if ty.startswith("&"):
        return "&1u64"
    return "7u64"


HEAD = "#![allow(unused)]\nuse caches::{Cache, ResizableCache};\n"


HELPERS = """use std::hash::BuildHasher;
use std::collections::hash_map::DefaultHasher;
struct CellState(std::cell::Cell<u64>);                       // Send, not Sync
impl BuildHasher for CellState { type Hasher = DefaultHasher; fn build_hasher(&self) -> DefaultHasher { self.0.set(self.0.get() + 1); DefaultHasher::new() } }
struct RcState(std::rc::Rc<u64>);                             // neither
impl BuildHasher for RcState { type Hasher = DefaultHasher; fn build_hasher(&self) -> DefaultHasher { DefaultHasher::new() } }
struct GuardState(std::sync::MutexGuard<'static, u64>);       // Sync, not Send
impl BuildHasher for GuardState { type Hasher = DefaultHasher; fn build_hasher(&self) -> DefaultHasher { DefaultHasher::new() } }
struct PlainState;                                            // both
impl BuildHasher for PlainState { type Hasher = DefaultHasher; fn build_hasher(&self) -> DefaultHasher { DefaultHasher::new() } }
struct RcCb(std::rc::Rc<u64>);                                // neither
impl caches::OnEvictCallback for RcCb { fn on_evict<K, V>(&self, _: &K, _: &V) {} }
struct PlainCb;                                               // both
impl caches::OnEvictCallback for PlainCb { fn on_evict<K, V>(&self, _: &K, _: &V) {} }
"""


def method_probes(s):
    ctor = CTORS[s["ty"]]
    args = ", ".join(arg_for(p) for p in s["params"])
    call = f"c.{s['name']}({args})"
    base = f"{s['ty']}__{s['name']}"
    pre = f"    let mut c = {ctor};\n    c.put(1u64, 1u64);\n    c.put(2u64, 2u64);\n"
    out = {}
    # positive control: the call itself, result used before any mutation
    out[f"pos__{base}"] = HEAD + f"fn main() {{\n{pre}    {{ let r = {call}; let _u = &r; }}\n    c.put(3u64, 3u64);\n}}\n"
    # hold across a mutation
    out[f"neg_hold__{base}"] = HEAD + f"fn main() {{\n{pre}    let r = {call};\n    c.put(3u64, 3u64);\n    let _u = &r;\n}}\n"
    # outlive the cache
    out[f"neg_outlive__{base}"] = HEAD + f"fn main() {{\n    let r;\n    {{\n{pre}        r = {call};\n    }}\n    let _u = &r;\n}}\n"
    if any(mu for _, mu in s["outs"]) or (s["recv_mut"] and s["outs"]):
        out[f"neg_double__{base}"] = HEAD + f"fn main() {{\n{pre}    let a = {call};\n    let b = {call};\n    let _u = (&a, &b);\n}}\n"
    return out


def marker_probes(m, item):
    """cross-thread probes: instantiate K / V with a type that is Send but not Sync (Cell) or not Send (Rc)"""
    ty = m["ty"]
    path = f"caches::lru::{ty}" if item else f"caches::{ty}"
    lt = "'static, " if item else ""
    which = m["which"]
    out = {}
    tail = "" if item else ""
    def inst(k, v):
        return f"{path}<{lt}{k}, {v}>"
    fn = f"fn need<T: {which}>() {{}}\n"
    out[f"pos_marker__{ty}__{which}"] = HEAD + fn + f"fn main() {{ need::<{inst('u64', 'u64')}>(); }}\n"
    cell, rc = "std::cell::Cell<u64>", "std::rc::Rc<u64>"
    # Sync but not Send: a bound weakened from Send to Sync accepts it (Rc is neither, Cell is Send only)
    guard = "std::sync::MutexGuard<'static, u64>"
    if item:
        if item["shares_k"]:
            out[f"neg_marker__{ty}__{which}__K_not_sync"] = HEAD + fn + f"fn main() {{ need::<{inst(cell, 'u64')}>(); }}\n"
        if item["shares_v"]:
            out[f"neg_marker__{ty}__{which}__V_not_sync"] = HEAD + fn + f"fn main() {{ need::<{inst('u64', cell)}>(); }}\n"
        if item["mut_v"]:
            bad = rc if which == "Send" else cell
            out[f"neg_marker__{ty}__{which}__V_bad"] = HEAD + fn + f"fn main() {{ need::<{inst('u64', bad)}>(); }}\n"
            if which == "Send":
                # an iterator handing out &mut V moves V's across threads: V must be Send, Sync is not enough
                out[f"neg_marker__{ty}__{which}__V_sync_not_send"] = HEAD + fn + f"fn main() {{ need::<{inst('u64', guard)}>(); }}\n"
    else:
        bad = rc if which == "Send" else cell
        out[f"neg_marker__{ty}__{which}__K_bad"] = HEAD + fn + f"fn main() {{ need::<{inst(bad, 'u64')}>(); }}\n"
        out[f"neg_marker__{ty}__{which}__V_bad"] = HEAD + fn + f"fn main() {{ need::<{inst('u64', bad)}>(); }}\n"
        if which == "Send":
            out[f"neg_marker__{ty}__{which}__K_sync_not_send"] = HEAD + fn + f"fn main() {{ need::<{inst(guard, 'u64')}>(); }}\n"
            out[f"neg_marker__{ty}__{which}__V_sync_not_send"] = HEAD + fn + f"fn main() {{ need::<{inst('u64', guard)}>(); }}\n"
        # the other type parameters the cache owns: the eviction callback E and the hash builder S
        tps = m.get("tparams", [])
        if "E" in tps and "S" in tps:
            def inst4(e, sh):
                return f"{path}<u64, u64, {e}, {sh}>"
            okcb, oksh = "caches::DefaultEvictCallback", "std::collections::hash_map::RandomState"
            if which == "Sync":
                # look-ups through &self call build_hasher(&self): a hash builder that is Send but not Sync must not be shared
                out[f"neg_marker__{ty}__Sync__S_send_not_sync"] = HEAD + HELPERS + fn + f"fn main() {{ need::<{inst4(okcb, 'CellState')}>(); }}\n"
                out[f"neg_marker__{ty}__Sync__E_neither"] = HEAD + HELPERS + fn + f"fn main() {{ need::<{inst4('RcCb', oksh)}>(); }}\n"
            else:
                out[f"neg_marker__{ty}__Send__S_not_send"] = HEAD + HELPERS + fn + f"fn main() {{ need::<{inst4(okcb, 'RcState')}>(); }}\n"
                out[f"neg_marker__{ty}__Send__S_sync_not_send"] = HEAD + HELPERS + fn + f"fn main() {{ need::<{inst4(okcb, 'GuardState')}>(); }}\n"
                out[f"neg_marker__{ty}__Send__E_not_send"] = HEAD + HELPERS + fn + f"fn main() {{ need::<{inst4('RcCb', oksh)}>(); }}\n"
            out[f"pos_marker__{ty}__{which}__custom_E_S"] = HEAD + HELPERS + fn + f"fn main() {{ need::<{inst4('PlainCb', 'PlainState')}>(); }}\n"
    return out


def generate(sigs_json, d):
    data = json.load(open(sigs_json))
    items = {i["ty"]: i for i in data["items"]}
    shutil.rmtree(os.path.join(d, "src"), ignore_errors=True)
    os.makedirs(os.path.join(d, "src", "bin"), exist_ok=True)
    probes = {}
    meta = {}
    for s in data["sigs"]:
        if s["vis"] not in ("pub", "trait_impl") or s["recv"] != "ref" or s["ty"] not in CTORS:
            continue
        if s["vis"] == "trait_impl" and (s["trait"] or "").split("<")[0] not in ("Cache", "ResizableCache"):
            continue
        for k, v in method_probes(s).items():
            probes[k] = v
            meta[k] = dict(kind="method", ty=s["ty"], name=s["name"], file=s["file"])
    # a mutable iterator must not be Clone: find a method that creates each such iterator
    for it in data["items"]:
        if not it["mut_v"]:
            continue
        mk = next((s for s in data["sigs"] if s["vis"] == "pub" and s["recv"] == "ref" and s["ty"] in CTORS
                   and s["ret"].startswith(it["ty"] + "<") and not s["params"]), None)
        if mk:
            k = f"neg_clone__{it['ty']}"
            probes[k] = HEAD + (f"fn main() {{\n    let mut c = {CTORS[mk['ty']]};\n    c.put(1u64, 1u64);\n"
                                f"    let it = c.{mk['name']}();\n    let it2 = it.clone();\n    let _u = (&it, &it2);\n}}\n")
            meta[k] = dict(kind="clone", ty=it["ty"])
    for m in data["markers"]:
        for k, v in marker_probes(m, items.get(m["ty"])).items():
            probes[k] = v
            meta[k] = dict(kind="marker", ty=m["ty"], which=m["which"])
    for k, v in probes.items():
        open(os.path.join(d, "src", "bin", k + ".rs"), "w").write(v)
    open(os.path.join(d, "Cargo.toml"), "w").write(
        '[package]\nname = "vprobes"\nversion = "0.1.0"\nedition = "2021"\n\n[workspace]\n\n[dependencies]\n'
        'caches = { path = "/repo" }\n')
    if not os.path.exists(os.path.join(d, "Cargo.lock")) and os.path.exists("/repo/Cargo.lock"):
        shutil.copy("/repo/Cargo.lock", os.path.join(d, "Cargo.lock"))
    json.dump(meta, open(os.path.join(d, "probes.json"), "w"), indent=1)
    return len(probes)


def run(d, result_json):
    env = dict(os.environ, CARGO_NET_OFFLINE="true", CARGO_TARGET_DIR=os.path.join(d, "target"))
    p = subprocess.run("cargo check --offline --bins --keep-going --message-format=json", shell=True, cwd=d, env=env,
                       stdout=subprocess.PIPE, stderr=subprocess.PIPE, timeout=3000)
    meta = json.load(open(os.path.join(d, "probes.json")))
    errs = {k: [] for k in meta}
    lib_error = None
    for line in p.stdout.decode("utf-8", "replace").split("\n"):
        if not line.startswith("{"):
            continue
        try:
            msg = json.loads(line)
        except ValueError:
            continue
        if msg.get("reason") != "compiler-message":
            continue
        tgt = msg.get("target", {})
        m = msg.get("message", {})
        if m.get("level") != "error":
            continue
        code = (m.get("code") or {}).get("code") or "?"
        if "bin" in tgt.get("kind", []):
            errs.setdefault(tgt["name"], []).append(code)
        elif tgt.get("name") == "caches":
            lib_error = m.get("rendered", "")[:500]
    res = dict(lib_error=lib_error, probes={})
    for k, info in meta.items():
        codes = [c for c in errs.get(k, []) if c != "?"] or (["?"] if errs.get(k) else [])
        neg = k.startswith("neg")
        if not errs.get(k):
            verdict = "accepted"
        elif neg and set(codes) <= (BORROW_ERRORS | TRAIT_ERRORS | (CLONE_ERRORS if k.startswith("neg_clone") else set())):
            verdict = "rejected"
        else:
            verdict = "broken:" + ",".join(codes)
        res["probes"][k] = dict(info, verdict=verdict, codes=codes)
    json.dump(res, open(result_json, "w"), indent=1)
    return res


if __name__ == "__main__":
    if sys.argv[1] == "--run":
        r = run(sys.argv[2], sys.argv[3])
        from collections import Counter
        print(Counter((k.split("__")[0], v["verdict"].split(":")[0]) for k, v in r["probes"].items()), "lib_error:", r["lib_error"])
    else:
        print(generate(sys.argv[1], sys.argv[2]), "probes")
