"""Per-property configuration of vcheck: which theorem files, which harness slices, which monitors."""

FLOCQ_AXIOMS = [
    "ClassicalDedekindReals.sig_not_dec",
    "ClassicalDedekindReals.sig_forall_dec",
    "FunctionalExtensionality.functional_extensionality_dep",
    "Classical_Prop.classic",
]

TRUSTED_BASE = [
    "Coq 8.16.1 kernel (coqc, full .vo build; vm_compute used for finite sweeps and witnesses; no native_compute)",
    "no axiom, Parameter, Admitted or checker switch anywhere in /verif/coq (scanned on every run); "
    "Print Assumptions of every property theorem audited against an allow-list on every run",
    "extraction: ExtrOcamlBasic only (Extract Inductive bool/option/unit/list/prod/sumbool/sumor to OCaml "
    "built-ins, Extract Inlined Constant andb => (&&), orb => (||)); nat/positive/N/Z stay extracted inductives; "
    "OCaml 4.13.1",
    "hand-written glue: ocaml/driver.ml (parsing, list comparison), the Rust harness (generators, "
    "snapshot through the verif-hooks accessors, allocator wrapper, drop ledger), bin/vcheck, tools/monitors.py",
    "the model is hand-written; its only tie to /repo is the correspondence run of this check "
    "(differential execution on generated and exhaustively enumerated histories)",
]


def lru_slices(q_n, q_len, bfs_caps, bfs_states):
    return [
        dict(name="lru-bfs", slice="lru_bfs", args=["--n", bfs_caps, "--len", bfs_states], shards=8),
        dict(name="lru-rand", slice="lru", args=["--n", q_n, "--len", q_len], shards=8),
        dict(name="lru-big", slice="lru", args=["--n", 60 if q_n >= 10000 else 8, "--len", 6000, "--big", 1], shards=4),
        # RawLRU<TKey, ()>: a zero-sized value type, replayed in the same model (harness/src/zst.rs)
        dict(name="lru-zst", slice="lruzst", args=["--n", max(300, q_n // 4), "--len", q_len], shards=4),
    ]


def comp_slices(n, ln, lfu_n):
    return [
        dict(name="slru", slice="slru", args=["--n", n, "--len", ln], shards=4),
        dict(name="twoq", slice="twoq", args=["--n", n, "--len", ln], shards=4),
        dict(name="arc", slice="arc", args=["--n", n, "--len", ln], shards=4),
        dict(name="wtiny", slice="wtiny", args=["--n", lfu_n, "--len", ln], shards=4),
        comp_bfs(n >= 10000),
        # the same three caches over (TKey, ()): a zero-sized value type, replayed in the same models (harness/src/zst.rs)
        dict(name="comp-zst", slice="compzst", args=["--n", max(600, n // 3), "--len", ln], shards=4),
    ] + comp_big(n >= 10000)


def comp_big(thorough, which=("slru", "twoq", "arc", "wtiny")):
    """a few long histories on caches of hundreds of entries (thresholds that small configurations never reach)"""
    return [dict(name=w + "-big", slice=w, args=["--n", 40 if thorough else 4, "--len", 6000, "--big", 1], shards=4) for w in which]


def types_slice(thorough):
    """the five cache types over other key / value types (tracked key + plain value, plain key + tracked value, Strings,
    an over-aligned Copy value): code paths chosen by the types; judged on the implementation alone (kind 16)"""
    return dict(name="types", slice="types", args=["--n", 30000 if thorough else 900, "--len", 300 if thorough else 120],
                shards=8 if thorough else 4, model=False)


def liar_slice(thorough):
    """RawLRU under a hasher whose answers change while keys are stored (safe code: a key with interior state read by its
    Hash): judged on the implementation alone by the weak invariant of layer F, the ledger and the poison (kind 17)"""
    return dict(name="lruliar", slice="lruliar", args=["--n", 40000 if thorough else 1500, "--len", 200 if thorough else 120],
                shards=8 if thorough else 4, model=False)


def big_hgroups(thorough):
    """hasher groups on caches of 20 ... 513 entries (hash tables of 32 ... 1024 buckets: growth, tombstones, full groups)"""
    n = 200 if thorough else 100      # members: five per group (the traces of these caches are large: ~5 MB per member)
    return [dict(name=w + "-big-h", slice=w, args=["--n", n, "--len", 4000, "--big", 1, "--hgroup", 1], shards=8 if thorough else 4)
            for w in ("lru", "slru", "twoq", "arc")]


def comp_zst(thorough):
    """SegmentedCache / TwoQueueCache / AdaptiveCache / WTinyLFUCache over (TKey, ()): a zero-sized value type, replayed in the same models"""
    return dict(name="comp-zst", slice="compzst", args=["--n", 20000 if thorough else 900, "--len", 400 if thorough else 150], shards=8 if thorough else 4)


def comp_bfs(thorough):
    """breadth-first closure of the small SegmentedCache / TwoQueueCache / AdaptiveCache configurations"""
    return dict(name="comp-bfs", slice="comp_bfs", args=["--n", 3 if thorough else 2, "--len", 4000 if thorough else 300],
                shards=8 if thorough else 4)


ALL_CORPUS = ["lru", "slru", "twoq", "arc", "wtiny"]

PROPS = {
    "C01": dict(
        props_files=["C01", "C01F"],
        theorems={"C01": ["C01_lru", "C01_slru", "C01_twoq", "C01_arc", "C01_wtiny", "C01_wtiny_init",
                          "C01_lru_step", "C01_slru_step", "C01_twoq_step", "C01_arc_step", "C01_wtiny_step"],
                  "C01F": ["C01_bound_survives_panics", "C01_bound_reachable_with_panics"]},
        slices=dict(quick=lru_slices(1500, 150, 2, 100000) + comp_slices(1500, 150, 800) +
                          [dict(name="wtiny-nostd", slice="wtiny", args=["--n", 400, "--len", 150], shards=2, features="nostd"),
                           dict(name="twoq-nostd", slice="twoq", args=["--n", 400, "--len", 150], shards=2, features="nostd"),
                           # the bound in the states a panic in user code leaves behind (RawLRU, one injected panic per history)
                           dict(name="flru", slice="flru", args=["--n", 800, "--len", 16], shards=4)],
                    thorough=lru_slices(30000, 400, 3, 1000000) + comp_slices(30000, 400, 15000) +
                             [dict(name="wtiny-nostd", slice="wtiny", args=["--n", 8000, "--len", 400], shards=8, features="nostd"),
                              dict(name="twoq-nostd", slice="twoq", args=["--n", 8000, "--len", 400], shards=8, features="nostd"),
                              dict(name="flru", slice="flru", args=["--n", 25000, "--len", 22], shards=16)]),
        corpus=ALL_CORPUS,
        monitors=["mon_c01"],
        assumptions=["std HashMap / hashbrown behave as a finite map (the index of each list)",
                     "2Q quotas are taken as data here (C08 ties them to the ratios)",
                     "W-TinyLFU: the Bloom geometry is data validated by bloom_geometry_ok on every instance"],
    ),
    "C02": dict(
        level_text="Coq refinement theorems for all five caches against the unbounded-map specification (put stores; a write through a handed-out mutable reference stores; remove, purge and a reported eviction release): for every accepted configuration and every history over the Cache trait the run never panics and the retained entries (resident and ghost) are a sub-map of the specification map, so a lookup can only return the most recently stored value and a released key is never reported; get, get_mut, peek, peek_mut and contains are proved to agree in every state. Hasher- and Borrow-independence are carried by the correspondence run: every lookup of the harness goes through a borrowed key type, under two RandomState seeds, identity, FNV and a constant hasher, and all must equal the single hasher-free model.",
        props_files=["C02"],
        theorems={"C02": ["C02_spec_step_def", "C02_lru_history", "C02_slru_history", "C02_twoq_history", "C02_arc_history",
                          "C02_wtiny_history", "C02_slru_step", "C02_twoq_step", "C02_arc_step", "C02_wtiny_step",
                          "C02_never_wrong", "C02_released_not_reported", "C02_lookup_is_retained", "C02_lookups_agree"]},
        slices=dict(quick=lru_slices(1500, 150, 2, 100000) + comp_slices(2500, 150, 1200) +
                          [dict(name="ctor", slice="ctor", args=["--n", 60, "--len", 150], shards=2), types_slice(False)],
                    thorough=lru_slices(30000, 400, 3, 1000000) + comp_slices(40000, 400, 20000) +
                             [dict(name="ctor", slice="ctor", args=["--n", 4000, "--len", 300], shards=8), types_slice(True)]),
        corpus=ALL_CORPUS,
        monitors=["mon_c02"],
        partial="in the histories given to the model keys are drop-tracked integers looked up through a distinct borrowed type (Borrow<KQ> for TKey); other key / value types (String keys and values, plain integers, an over-aligned Copy value) are exercised on the implementation alone (types slice: a lookup returns the value stored last)",
        assumptions=["std HashMap / hashbrown implement a finite map under every BuildHasher (checked only through the five hashers of the harness)"],
    ),
    "C03": dict(
        level_text="PARTIAL. Coq theorems over a pointer-level heap model of src/lru/raw.rs (cells that are free or nodes with optional key/value, every unsafe block written in an error monad whose errors are use-after-free, uninitialised read, double free and unwrap on None): detach and attach keep a well-formed chain and touch nothing else; every public RawLRU operation started in a state where the list is a well-formed chain between the sentinels whose nodes are exactly the index entries, each index key stored in its own node, and everything else is free, returns no memory error, re-establishes that invariant, touches no cell outside the list, and produces the result and contents of the layer-L model; by induction every history from new() is safe, and Drop after any history frees every cell exactly once without reading a sentinel's key. Composite caches: a separation theorem for several lists in one heap with nodes in flight between them (fam: every list well formed, footprints and in-flight nodes pairwise disjoint, every other cell free), the crate-internal primitives at that level (remove_and_return_ent, put_or_evict_nonnull, put_nonnull, update, swap_value, alloc, free), and on top of them all four composite caches written as their source files write them - SegmentedCache (incl. put_protected and the per-segment accessors), TwoQueueCache (recent / frequent / ghost with node migration and ghost revival), AdaptiveCache (four lists, the adaptive target, replace) and WTinyLFUCache (window + segmented main cache + the estimator as a value): every operation keeps the family, makes no memory error and refines the layer-L model of that cache; every history from new() is safe and Drop frees every cell. Iterators: every script of next / next_back calls (with writes through the references of a mutable iterator, and with a clone of the iterator taken part-way) on a list of a family dereferences only linked nodes, hands out pairwise distinct nodes, yields the items of the layer-L iterator, leaves every other list untouched and stores exactly the writes; the iterators over each list are operations of the RawLRU, TwoQueueCache and AdaptiveCache step machines and part of their history theorems. Clone (RawLRU, SegmentedCache, WTinyLFUCache): the clone lives on freshly allocated nodes in the same heap, the original is only read, and x = x.clone() refines the identity of layer L; histories with clones are safe. The heap models are tied to /repo by differential execution at the level of node identity (kind 9 RawLRU, 11 SegmentedCache, 12 TwoQueueCache, 13 AdaptiveCache, 14 WTinyLFUCache; node names global across the lists of a cache: the real node addresses, renamed in allocation order, must equal the model's addresses after every call, clones included), plus on the implementation the structural audit of every list through the hook after every call, a poisoning + quarantining allocator, and every block returned at drop.",

        props_files=["C03"],
        theorems={"C03": ["C03_detach", "C03_attach", "C03_step", "C03_new", "C03_recycle", "C03_history",
                          "C03_purge_resize_drop", "C03_step_frame", "C03_fam_step", "C03_remove_ent", "C03_put_or_evict",
                          "C03_slru_step", "C03_slru_history", "C03_twoq_step", "C03_twoq_history", "C03_arc_step",
                          "C03_arc_history", "C03_wtiny_step", "C03_wtiny_history", "C03_iter", "C03_family_iter",
                          "C03_family_clone", "C03_clone", "C03_clone_history", "C03_iter_script", "C03_from_iter"]},
        slices=dict(quick=[dict(name="hlru", slice="hlru", args=["--n", 2400, "--len", 120], shards=4),
                           dict(name="hslru", slice="hslru", args=["--n", 2400, "--len", 120], shards=4),
                           dict(name="htwoq", slice="htwoq", args=["--n", 1600, "--len", 120], shards=4),
                           dict(name="harc", slice="harc", args=["--n", 1600, "--len", 120], shards=4),
                           dict(name="hwtiny", slice="hwtiny", args=["--n", 1600, "--len", 120], shards=4),
                           dict(name="ctor", slice="ctor", args=["--n", 60, "--len", 150], shards=2), types_slice(False), liar_slice(False)]
                    + lru_slices(800, 150, 2, 100000) + comp_slices(1500, 150, 800),
                    thorough=[dict(name="hlru", slice="hlru", args=["--n", 60000, "--len", 300], shards=16),
                              dict(name="hslru", slice="hslru", args=["--n", 60000, "--len", 300], shards=16),
                              dict(name="htwoq", slice="htwoq", args=["--n", 40000, "--len", 300], shards=16),
                              dict(name="harc", slice="harc", args=["--n", 40000, "--len", 300], shards=16),
                              dict(name="hwtiny", slice="hwtiny", args=["--n", 40000, "--len", 300], shards=16),
                              dict(name="ctor", slice="ctor", args=["--n", 4000, "--len", 300], shards=8), types_slice(True), liar_slice(True)]
                    + lru_slices(30000, 400, 3, 1000000) + comp_slices(30000, 400, 15000)),
        corpus=ALL_CORPUS + ["hlru", "hslru", "htwoq", "harc", "hwtiny"],
        monitors=["mon_c03"],
        partial="the theorems are about the heap models, tied to the code by the node-level correspondence (a change of the code that the model does not follow shows as a divergence, not as a broken proof); the hash index is an association list, not hashbrown; the heap-level step machines run the whole public alphabet of each cache against the code (iterators over every list, Clone, the per-list and per-segment accessors) except Debug for RawLRU; FromIterator / the From impls are an instance of the history theorem (C03_from_iter) and the list each conversion builds is audited through the hook (ctor slice); reads through lifetime-erased references after the call returned are C19's business",
        assumptions=["the panics counted in this run are the library's own unwrap()s in the lruliar slice (a hasher whose answers change while keys are stored, where std allows panics, leaks and wrong results); each is followed by the weak audit of the list", "std HashMap / hashbrown behave as a finite map from keys to node addresses (the index); the model's index is an association list searched by the key stored in the node",
                     "the allocator never hands out a live address again (fresh addresses in the model; the harness quarantines freed blocks)"],
    ),
    "C18": dict(
        level_text="PARTIAL. Coq theorems over layer F (fault/Fault.v): RawLRU on the pointer-level heap of C03 with every call into user code made an explicit tick (hashing / comparing inside the hash map incl. the BuildHasher, the eviction callback, the drops of keys and values) and a fuse that makes any one tick panic, leaving the heap as it is; unwrap() on None is such a panic. Proved for every operation (put with all its paths, get/get_mut, peek, peek_mut, contains, remove, remove_lru, purge, resize, get_lru, peek_lru, peek_mru, peek_or_put, contains_or_put), every state satisfying the weak invariant wfw (a well-formed chain of allocated, initialised nodes between the sentinels; every index entry points through the key stored in the node at a linked node; linked but unindexed nodes leak) and every fuse: the operation ends in a wfw state or panics in a wfw state and never makes a use-after-free, uninitialised read or double free; wfw survives the loss of index entries by an interrupted rehash; hence every state reachable from new() through operations and any number of injected panics is wfw, every further operation and the drop are free of memory errors (induction over the fault history); with no fuse layer F is the heap machine of C03 (erasure theorems). Layer F is tied to /repo by differential execution under injection (kind 10): for RawLRU histories with one injected panic the harness reports the kind of user call that panicked, the per-kind call counts and the surviving index; the model maps them to a tick, runs the operation with that fuse, and must agree with the implementation on the chain (keys, values, node identity), the index, the live-object count (including the objects a panic loses) and every later call and the drop. Composite caches (fault/FaultPrim.v, FaultFamily.v, FaultProg.v): every operation also has a footprint theorem (at its end or at a panic the list gained only freshly allocated nodes and no cell outside its own nodes that existed before was written; the same for Drop), so several lists can share one heap; the crate-internal primitives the composite caches are written with (remove_and_return_ent, remove_lru_in, put_or_evict_nonnull, put_nonnull, update, swap_value, Box::new / Box::from_raw of a node) are given with the same ticks, and a machine gstep runs ANY program over the public operations and these primitives on a family of lists, the nodes in flight named by position (a program cannot invent a pointer or use one twice), a panic losing the nodes in flight. Proved: every action, every program, every history of programs from nothing with any fuses and panics anywhere (drops included) keeps every list wfw, the lists and the nodes in flight pairwise disjoint, every capacity > 0, and makes no memory error - whatever the program decides, hence for the decision logic of SegmentedCache, TwoQueueCache, AdaptiveCache and WTinyLFUCache. That the four sources are such programs is re-checked on every run by tools/alphabet_audit.py (every raw-level access they make - calls of pub(crate) functions of raw.rs, a list's map / head / tail, pointer dereferences, node fields, unsafe std functions - must be one of the actions; map.remove pairs with detach); for the heap-level models of C03 (tied to the code at node identity) it is a theorem: every operation of hs_step / ht_step / ha_step / hw_step except the iterators (which call no user code), Clone included (new, then per entry Clone of the key, Clone of the value - ticks of class TClone - and a put; then the drop of the original), is the run with no fuse of a program of actions (chosen as the code chooses its branches), and that program run with any fuse ends or panics in a family without memory error; the same for RawLRU's own Clone; end to end (C18_slru_history etc.): any history from new, then one more operation with any fuse, then any programs over the primitives with any fuses, drops included, never make a memory error. 'No key or value is dropped twice' and the composite caches' own tick positions are decided on the implementation by panic injection: for generated histories of all five cache types every call into user code (Hash, Eq, Clone, Drop, BuildHasher, callback) of selected operations and of the final drop is made to panic in turn (optionally a second one later), then the weak invariant is audited through the hook with an allocator liveness oracle, the history is continued and the cache dropped, with the drop ledger and the allocator poison checked on every line.",
        props_files=["C18"],
        theorems={"C18": ["C18_step", "C18_lossy", "C18_reach", "C18_noerr", "C18_drop", "C18_wf", "C18_erase", "C18_put",
                          "C18_resize_may_spin", "C18_footprint", "C18_drop_footprint", "C18_family_step",
                          "C18_family_program", "C18_family_history", "C18_family_separation", "C18_primitives_erase",
                          "C18_family_witness", "C18_erase_all", "C18_slru_step", "C18_twoq_step", "C18_arc_step",
                          "C18_wtiny_step", "C18_rawlru_clone", "C18_ticks_anywhere",
                          "C18_slru_history", "C18_twoq_history", "C18_arc_history", "C18_wtiny_history"]},
        slices=dict(quick=[dict(name="fault", slice="fault", args=["--n", 4000, "--len", 14], shards=8, model=False),
                           dict(name="flru", slice="flru", args=["--n", 1600, "--len", 16], shards=8),
                           dict(name="hlru", slice="hlru", args=["--n", 1500, "--len", 120], shards=4)],
                    thorough=[dict(name="fault", slice="fault", args=["--n", 40000, "--len", 18, "--corpus", 8], shards=16, model=False),
                              dict(name="flru", slice="flru", args=["--n", 25000, "--len", 22, "--corpus", 6], shards=16),
                              dict(name="hlru", slice="hlru", args=["--n", 30000, "--len", 300], shards=16)]),
        corpus=["fault", "flru", "hlru"],
        monitors=["mon_c18"],
        rule="cases = faulted runs on the real code (one per history, operation and call index injected) plus the heap-model histories replayed in the extracted model; distinct_nontrivial = distinct (cache type, operation, kind of user call, per-kind call counts) sites at which an injected panic fired, plus distinct model snapshots of the replayed histories",
        partial="the absence of double drops is decided by injection on the implementation only (the drop ledger), not by a theorem; for the composite caches the theorem is about every program over the primitives, and that their code is such a program is a source audit (tools/alphabet_audit.py) plus, for the first panic of an operation, the theorems about the heap-level models - where exactly the composite caches call user code is not replayed against the implementation (injection covers it); the iterators call no user code and are not actions of the machine; a liveness gap found on the way (resize may spin after a fault, C18_resize_may_spin) is outside the property and resize is not called after an injection",
        assumptions=["hashbrown keeps its own table consistent when a user Hash/Eq panics (it may drop entries of an interrupted rehash: modelled as index loss)",
                     "nothing the library holds by raw pointer has a destructor, so unwinding changes no heap state (keys and values live in MaybeUninit)"],
    ),
    "C04": dict(
        level_text="PARTIAL. Coq theorems: for every cache and every state satisfying the C01 invariant, put conserves the retained entries (retained after + pairs handed back = retained before + 1; ARC: <=, ghosts may be discarded), derived from C12's truthful PutResult; remove hands back exactly the retained entry; purge leaves nothing. At the pointer level (the heap models of C03, where a key/value object is the content of a cell): in every state of a RawLRU, and of every family of lists of a composite cache, a cell holds a key and a value iff it is the node of exactly one retained entry of exactly one list (C04_heap_owned, C04_heap_family_owned), and C03's history theorems add that no cell is freed twice and Drop leaves every cell free. The layer-L models carry no object identity, so 'each key and value object is released exactly once' is additionally decided on the implementation: keys and values are drop-tracked objects, the global allocator of the harness counts live blocks, poisons and quarantines freed memory; after every call the number of live tracked objects must equal twice the model's retained-entry count with no double drop, and the final drop (after every history, i.e. after an arbitrary prefix) must release exactly the retained keys and values, return every heap block and leave the poison intact.",
        props_files=["C04"],
        theorems={"C04": ["C04_put_conserves", "C04_lru_put", "C04_slru_put", "C04_twoq_put", "C04_arc_put", "C04_wtiny_put",
                          "C04_remove_and_purge", "C04_heap_owned", "C04_heap_family_owned"]},
        slices=dict(quick=lru_slices(1500, 150, 2, 100000) + comp_slices(2500, 150, 1200) +
                          [dict(name="ctor", slice="ctor", args=["--n", 60, "--len", 150], shards=2), types_slice(False), liar_slice(False)],
                    thorough=lru_slices(30000, 400, 3, 1000000) + comp_slices(40000, 400, 20000) +
                             [dict(name="ctor", slice="ctor", args=["--n", 4000, "--len", 300], shards=8), types_slice(True), liar_slice(True)]),
        corpus=ALL_CORPUS,
        monitors=["mon_c04"],
        partial="object-level release-exactly-once is carried by the correspondence run (drop ledger + allocator), not by a theorem; a double free invisible to the quarantining allocator is outside both",
        assumptions=["the panics counted in this run are the library's own unwrap()s in the lruliar slice (a hasher whose answers change while keys are stored, where std allows panics, leaks and wrong results); each is followed by the weak audit of the list", "the harness drops every value the API hands back before the ledger is read, so alive = retained"],
    ),
    "C05": dict(
        level_text="Constructors: an executable binary64 model (Flocq) of the constructors (RawLRU::new / with_hasher / with_on_evict_cb / with_on_evict_cb_and_hasher, SegmentedCache::new, TwoQueueCache::new / with_recent_ratio / with_ghost_ratio / with_2q_parameters, AdaptiveCache::new, WTinyLFUCache::new / with_sizes, TinyLFU::new) and of the four builders a user can name (TwoQueueCacheBuilder, SegmentedCacheBuilder, AdaptiveCacheBuilder, WTinyLFUCacheBuilder: a record of fields, default() / new(..), every setter incl. the hasher setters, finalize and from_builder) - size checks, ratio validation incl. NaN / infinities / -0.0 / out-of-range values, the float sub-size computations of TwoQueueCache and WTinyLFUCache::new - proved total with the documented rejections (a ratio is accepted iff it is a finite number of [0,1]; a setter writes its own field and carries every other one, so finalize is the constructor function of the values set last) and replayed against the real constructors and builders on the whole argument grid, on random bit patterns and on random setter scripts. Conversions: FromIterator and the eleven From impls of RawLRU (slices, arrays, Vec, VecDeque, LinkedList, HashSet, BTreeSet, BinaryHeap, HashMap, BTreeMap) are Lru.from_iter on the pairs in the source's iteration order - total, capacity max(1, number of pairs), nothing evicted, every key retained with the value of its last occurrence (C05_conversions) - and are replayed against the real conversions (empty sources, repeated keys, every source type). Operations: Coq theorems: in the models every unwrap(), index and overflow-checked addition of the library is an explicit Panic value; for SegmentedCache, TwoQueueCache, AdaptiveCache and WTinyLFUCache every operation of every reachable state returns Ok (induction over histories with the C01 invariants), RawLRU's step is total by construction, TinyLFU's increment/estimate/contains/compare/reset/clear return Ok for every 64-bit hash on every estimator the constructor builds (both sketch variants), and the sketch/sample-size validation of the constructor is proved. The models are tied to /repo by differential execution under catch_unwind, std and no_std builds, overflow checks on.",
        props_files=["C05"],
        theorems={"C05": ["C05_slru_total", "C05_twoq_total", "C05_arc_total", "C05_wtiny_total",
                          "C05_tiny_increment", "C05_tiny_estimate", "C05_tiny_contains", "C05_tiny_compare",
                          "C05_tiny_reset_clear", "C05_tiny_ctor", "C05_tiny_ctor_rejects", "C05_ctor_total",
                          "C05_ratio_validation", "C05_nan_rejected", "C05_twoq_ctor", "C05_zero_sizes_rejected",
                          "C05_builder_total", "C05_builder_setters", "C05_builder_finalize", "C05_builder_defaults",
                          "C05_conversions", "C05_conversion_total", "C05_sampled_no_overflow"]},
        axioms_allowed=FLOCQ_AXIOMS,
        slices=dict(
            quick=lru_slices(800, 150, 1, 100000) + comp_slices(800, 150, 500)
            + [dict(name="tiny", slice="tiny", args=["--n", 600, "--len", 150], shards=2),
               dict(name="sampled", slice="sampled", args=["--n", 400, "--len", 100], shards=2),
               dict(name="sampled-huge", slice="sampled", args=["--n", 100, "--len", 100, "--big", 1], shards=2, model=False),
               dict(name="ctor", slice="ctor", args=["--n", 60, "--len", 150], shards=2),
               dict(name="lruhuge", slice="lruhuge", args=["--n", 600, "--len", 120], shards=2, model=False), types_slice(False),
               dict(name="ctor-nostd", slice="ctor", args=["--n", 20, "--len", 100], shards=1, features="nostd"),
               dict(name="tiny-nostd", slice="tiny", args=["--n", 600, "--len", 150], shards=2, features="nostd"),
               dict(name="wtiny-nostd", slice="wtiny", args=["--n", 400, "--len", 150], shards=2, features="nostd"),
               dict(name="arc-nostd", slice="arc", args=["--n", 400, "--len", 150], shards=2, features="nostd"),
               dict(name="lru-nostd", slice="lru", args=["--n", 400, "--len", 150], shards=2, features="nostd")],
            thorough=lru_slices(20000, 400, 3, 1000000) + comp_slices(20000, 400, 10000)
            + [dict(name="tiny", slice="tiny", args=["--n", 20000, "--len", 400], shards=8),
               dict(name="sampled", slice="sampled", args=["--n", 8000, "--len", 300], shards=4),
               dict(name="sampled-huge", slice="sampled", args=["--n", 2000, "--len", 300, "--big", 1], shards=4, model=False),
               dict(name="ctor", slice="ctor", args=["--n", 4000, "--len", 300], shards=8),
               dict(name="lruhuge", slice="lruhuge", args=["--n", 20000, "--len", 300], shards=8, model=False), types_slice(True),
               dict(name="ctor-nostd", slice="ctor", args=["--n", 1000, "--len", 300], shards=4, features="nostd"),
               dict(name="tiny-nostd", slice="tiny", args=["--n", 20000, "--len", 400], shards=8, features="nostd"),
               dict(name="wtiny-nostd", slice="wtiny", args=["--n", 8000, "--len", 400], shards=8, features="nostd"),
               dict(name="arc-nostd", slice="arc", args=["--n", 8000, "--len", 400], shards=8, features="nostd"),
               dict(name="twoq-nostd", slice="twoq", args=["--n", 8000, "--len", 400], shards=8, features="nostd"),
               dict(name="slru-nostd", slice="slru", args=["--n", 8000, "--len", 400], shards=8, features="nostd"),
               dict(name="lru-nostd", slice="lru", args=["--n", 8000, "--len", 400], shards=8, features="nostd")]),
        corpus=ALL_CORPUS + ["tiny", "sampled"],
        monitors=["mon_c05"],
        partial="the Bloom filter sizing (ceil / ln) is not modelled (its result is validated per instance); allocation failure "
                "(sizes that do not fit in memory) and sketches above 2^32 counters are outside the statement; resize to huge capacities is "
                "exercised on the implementation only (the layer-L model keeps capacities in unary)",
        assumptions=["Bloom geometry (size_exp, set_locs) is data validated by bloom_geometry_ok on every real instance",
                     "hashes are below 2^64 (u64)"],
    ),
    "C16": dict(
        level_text="Coq theorems: for every reachable state of RawLRU, SegmentedCache and WTinyLFUCache the clone (rebuilt by re-inserting the entries least-recent first, as the code does) is equal to the original state, hence every later operation sequence gives identical results; TinyLFU's clone is the state itself. Independence at the pointer level (layer H of C03: clone and original are lists of one heap): the clone of a RawLRU is built on fresh nodes, any history on the clone returns what the original would have returned, any history on the original afterwards returns what it would have returned had no clone existed, and after the clone's drop the original alone owns the heap (C16_heap_clone_independent); for SegmentedCache and for WTinyLFUCache (window, main cache and the estimator as a value), after any history on the clone the original is the same abstract cache on the same nodes (C16_heap_slru_clone_independent, C16_heap_wtiny_clone_independent). Tied to /repo by differential execution with clone at random points (layer L and node-level kinds), the clone step comparing every capacity / length accessor and, for the estimators, estimate / contains key by key before the original is dropped.",
        props_files=["C16"],
        theorems={"C16": ["C16_lru_clone_identical", "C16_lru_same_future", "C16_slru_clone_identical",
                          "C16_wtiny_clone_identical", "C16_tiny_clone_identical", "C16_heap_clone_independent",
                          "C16_heap_slru_clone_independent", "C16_heap_wtiny_clone_independent"]},
        slices=dict(
            quick=lru_slices(2500, 150, 2, 100000)
            + [dict(name="slru", slice="slru", args=["--n", 2500, "--len", 150], shards=4),
               dict(name="wtiny", slice="wtiny", args=["--n", 1200, "--len", 150], shards=4),
               dict(name="tiny", slice="tiny", args=["--n", 800, "--len", 150], shards=2)],
            thorough=lru_slices(40000, 400, 3, 1000000)
            + [dict(name="slru", slice="slru", args=["--n", 40000, "--len", 400], shards=8),
               dict(name="wtiny", slice="wtiny", args=["--n", 20000, "--len", 400], shards=8),
               dict(name="tiny", slice="tiny", args=["--n", 20000, "--len", 400], shards=8)]),
        corpus=["lru", "slru", "wtiny", "tiny"],
        monitors=["mon_c16"],
        partial="identity of the clone is proved for every reachable state; independence of the two heaps is carried "
                "by the correspondence run (every hasher, original dropped right after the clone), not by a theorem",
        assumptions=["the model's states are values; sharing between a clone and its original can only be observed on the "
                     "implementation (structural audit, drop ledger, allocator poison)"],
    ),
    "C17": dict(
        level_text="The models of all five caches contain no hasher, address or hash index: every result is by construction a function of configuration and history. Coq theorems add why the index cannot matter (look-up by key in a duplicate-free index is invariant under permutation of the index; Clone rebuilds from list order for every reachable state) and, at the pointer level (layer H of C03, which does have addresses and a hash index): the refinement relation holds for any placement of the nodes and any order of the index, so two heap representations of the same abstract cache - reached under different hashers, collisions, hash-map iteration orders and allocation histories - return the same results for every history (RawLRU incl. iterator scripts and clones, SegmentedCache, TwoQueueCache and AdaptiveCache incl. their per-list iterators, WTinyLFUCache given the same estimator state). The deciding part for the code is the correspondence: every generated history is executed five times, under two differently seeded RandomStates, identity, FNV and a constant-zero BuildHasher (all keys collide), on RawLRU, SegmentedCache, TwoQueueCache, AdaptiveCache (std build) and WTinyLFUCache (no_std build, whose sketch is deterministic so the verdicts coincide); all five traces must equal the single model trace and each other, call by call (results, callback log, every list); the same for the heap-level kinds (RawLRU, SegmentedCache, TwoQueueCache, AdaptiveCache), where the node names - the allocation order - must coincide too. Conversions from a collection (FromIterator, From<..>) are compared with the model on the sequence the source yields (under the default RandomState), and their recency order must be that sequence.",
        props_files=["C17"],
        theorems={"C17": ["C17_lookup_independent_of_index_order", "C17_contains_independent_of_index_order",
                          "C17_clone_uses_list_order", "C17_heap_lru", "C17_heap_lru_iter_clone", "C17_heap_slru",
                          "C17_heap_twoq", "C17_heap_arc", "C17_heap_wtiny"]},
        slices=dict(quick=[dict(name="lru-h", slice="lru", args=["--n", 5000, "--len", 120, "--hgroup", 1], shards=8),
                           dict(name="slru-h", slice="slru", args=["--n", 2500, "--len", 120, "--hgroup", 1], shards=4),
                           dict(name="twoq-h", slice="twoq", args=["--n", 2500, "--len", 120, "--hgroup", 1], shards=4),
                           dict(name="arc-h", slice="arc", args=["--n", 2500, "--len", 120, "--hgroup", 1], shards=4),
                           dict(name="wtiny-h", slice="wtiny", args=["--n", 1500, "--len", 120, "--hgroup", 1], shards=4, features="nostd"),
                           dict(name="hlru-h", slice="hlru", args=["--n", 1500, "--len", 100, "--hgroup", 1], shards=4),
                           dict(name="hslru-h", slice="hslru", args=["--n", 1000, "--len", 100, "--hgroup", 1], shards=2),
                           dict(name="htwoq-h", slice="htwoq", args=["--n", 1000, "--len", 100, "--hgroup", 1], shards=2),
                           dict(name="harc-h", slice="harc", args=["--n", 1000, "--len", 100, "--hgroup", 1], shards=2),
                           dict(name="ctor", slice="ctor", args=["--n", 60, "--len", 150], shards=2)] + big_hgroups(False),
                    thorough=big_hgroups(True) + [dict(name="ctor", slice="ctor", args=["--n", 4000, "--len", 300], shards=8),
                              dict(name="hlru-h", slice="hlru", args=["--n", 40000, "--len", 300, "--hgroup", 1], shards=16),
                              dict(name="hslru-h", slice="hslru", args=["--n", 30000, "--len", 300, "--hgroup", 1], shards=8),
                              dict(name="htwoq-h", slice="htwoq", args=["--n", 30000, "--len", 300, "--hgroup", 1], shards=8),
                              dict(name="harc-h", slice="harc", args=["--n", 30000, "--len", 300, "--hgroup", 1], shards=8),
                              dict(name="lru-h", slice="lru", args=["--n", 100000, "--len", 300, "--hgroup", 1], shards=16),
                              dict(name="slru-h", slice="slru", args=["--n", 50000, "--len", 300, "--hgroup", 1], shards=8),
                              dict(name="twoq-h", slice="twoq", args=["--n", 50000, "--len", 300, "--hgroup", 1], shards=8),
                              dict(name="arc-h", slice="arc", args=["--n", 50000, "--len", 300, "--hgroup", 1], shards=8),
                              dict(name="wtiny-h", slice="wtiny", args=["--n", 30000, "--len", 300, "--hgroup", 1], shards=8, features="nostd")]),
        corpus=["lru", "slru", "twoq", "arc"],
        monitors=["xmon_c17", "mon_c17_conv"],
        partial="the theorems are about the models: layer L has no hasher or address at all, layer H proves that any two heap representations of one abstract cache (any node addresses, any index order) answer every history identically; that the code refines these models under every BuildHasher is the correspondence run (five hashers in lock-step, node-level for the heap kinds), and the five hashers stand for all; WTinyLFU: structure given the same estimator state",
        assumptions=["the five BuildHashers of the harness stand for 'every hasher'; a hasher that panics or is not a function is C18's subject"],
    ),
    "C19": dict(
        custom="c19",
        level_text="A theorem cannot quantify over Rust client programs; what is decided is a proved sufficient condition on the signatures, over a table regenerated from the sources on every run (tools/sig_extract.py: every fn whose result mentions a reference or lifetime, every unsafe impl Send/Sync with macro expansion, every iterator's Item type). Coq theorems: every public or trait method ties each lifetime of its result to the borrow of the receiver (elision, or the receiver's own named lifetime, or a lifetime of the impl block) and hands out &mut only from &mut self; every unsafe Send/Sync impl asks Sync of what is handed out by & and Send of what is handed out by &mut, and of every other type parameter the type owns (the hash builder S, used through &self by every look-up; the eviction callback E) Send for Send and Sync for Sync - for the callback, which is reached only through &mut self, Send is enough; the boolean criterion is proved to reflect the stated relation. The tie to the compiler: per method and per impl, client probe programs (hold across mutation, outlive the cache, two mutable results, cross-thread with Cell / Rc / MutexGuard as key, value, hash builder or callback) and positive controls are compiled against /repo and rustc's verdict must agree with the criterion; a probe that compiles is the replay.",
        props_files=[],
        theorems={"C19": ["C19_signatures_sound", "C19_markers_sound", "C19_no_clone_of_mutable_iterators", "C19_table_nontrivial", "C19_criterion"]},
        slices=dict(quick=[], thorough=[]),
        monitors=[],
        technique="Coq proof of a sufficient condition over a signature table translated from the sources on every run + compile-time probe programs",
        partial="the quantifier 'all safe client programs' is reached only through the sufficient condition (sound signatures + rustc's borrow checker + bodies that justify the stated lifetimes, which is C03's subject); for RawLRU's Sync impl, E: Send of the callback is accepted (it is only reached through &mut self)",
        trusted_extra=["tools/sig_extract.py (syntactic translator: comment/test stripping, textual expansion of `$($t:ty),*` macros) and tools/probe_gen.py",
                       "rustc's borrow checker, lifetime elision and auto-trait rules"],
        assumptions=["function bodies justify the lifetimes their signatures state (the unsafe transmutes/raw-pointer reborrows inside raw.rs are C03's subject)"],
    ),
    "C20": dict(
        level_text='Coq theorems over an executable model of SampledLFU: after every sequence of increment (also on a tracked key), update, remove, clear, update_max_cost, room_left(c) = max_cost - sum of recorded costs - c in the i64 arithmetic of the code (costs are arbitrary i64 values, sums wrap: exact modulo 2^64, and the plain integer whenever that fits an i64); update/remove report exactly whether the key was tracked and its cost; fill_sample returns its input followed by distinct tracked pairs up to the sample size, for every hash-map iteration order. Tied to /repo by differential execution through all seven constructors, with costs and capacities drawn from the ends of the i64 range as well.',
        props_files=["C20"],
        theorems={"C20": ["C20_room_left_exact", "C20_room_left_exact_in_range", "C20_tracked_keys_distinct", "C20_update_reports_tracked",
                          "C20_remove_reports_cost", "C20_fill_sample", "C20_fill_sample_saturates", "C20_fill_sample_size_irrelevant",
                          "C20_sample_size_is_inert", "C20_sample_size_is_inert_history"]},
        slices=dict(quick=[dict(name="sampled", slice="sampled", args=["--n", 4000, "--len", 150], shards=8),
                           dict(name="sampled-huge", slice="sampled", args=["--n", 300, "--len", 150, "--big", 1], shards=4, model=False)],
                    thorough=[dict(name="sampled", slice="sampled", args=["--n", 80000, "--len", 400], shards=16),
                              dict(name="sampled-huge", slice="sampled", args=["--n", 6000, "--len", 400, "--big", 1], shards=8, model=False)]),
        corpus=["sampled"],
        monitors=["mon_c20"],
        assumptions=["costs and capacities are i64 values; the model computes in the same wrapping arithmetic (w64)",
                     "fill_sample: the hash map's iteration order is taken from the real output and validated"],
    ),
    "C07": dict(
        level_text="Coq theorems over the SegmentedCache model, for every reachable state (C01 invariant by induction over histories) and both capacities >= 1: a new key enters probationary and only probationary's least-recent entry can be evicted for it; get/get_mut/put on a probationary entry makes it the most-recent protected entry, and when protected is full its least-recent entry becomes the most-recent probationary entry with no key leaving the cache; a protected hit only moves the entry to the front of protected; put_protected leaves the key at the front of protected and in no other segment. Exact list equations, tied to /repo by differential execution on both segment lists. The decisions do not look at the values (props/C07Z.v: the key projection of the model is a simulation of the segmented cache written over keys alone), so SegmentedCache over a zero-sized value type is replayed in the same model.",
        props_files=["C07", "C07Z"],
        theorems={"C07": ["C07_reachable", "C07_new_key_enters_probationary", "C07_probationary_hit_promotes_get",
                          "C07_probationary_hit_promotes_put", "C07_promotion_never_evicts",
                          "C07_protected_hit_refreshes_get", "C07_protected_hit_refreshes_put",
                          "C07_miss_changes_nothing", "C07_put_protected"],
                  "C07Z": ["C07_put_is_value_blind", "C07_get_is_value_blind", "C07_promotion_is_value_blind",
                           "C07_remove_is_value_blind", "C07_put_protected_is_value_blind", "C07_lookups_are_value_blind",
                           "C07_history_is_value_blind"]},
        slices=dict(quick=[dict(name="slru", slice="slru", args=["--n", 6000, "--len", 150], shards=12), comp_bfs(False), comp_zst(False)] + comp_big(False, ("slru",)),
                    thorough=[dict(name="slru", slice="slru", args=["--n", 120000, "--len", 400], shards=16), comp_bfs(True), comp_zst(True)] + comp_big(True, ("slru",))),
        corpus=["slru"],
        monitors=["mon_c07", "mon_c01"],
        assumptions=["put_protected of a new key into a full protected segment evicts protected's own least-recent entry "
                     "(the method's documented force semantics); 'only the least-recent probationary entry is ever evicted' is read as about put"],
    ),
    "C08": dict(
        level_text="Coq theorems over the TwoQueueCache model, for every reachable state (C01 invariant by induction over histories), every size >= 1, every recent quota (0 included) and ghost bound >= 1: a new key enters the recent queue; a second access by put/get/get_mut moves it to the front of the frequent queue; get never consults the ghosts; on a full cache the victim is recent's LRU when recent is over its quota (at quota for a brand-new key) and otherwise frequent's LRU, falling back to the non-empty queue, and it becomes the most-recent ghost; the ghost list drops and reports its own LRU on overflow (including the very key being revived); a put on a ghost key revives it directly into the frequent queue. Exact list equations, tied to /repo by differential execution over all three lists and boundary ratios. The decisions do not look at the values (props/C08Z.v: key projection = 2Q over keys alone), so TwoQueueCache over a zero-sized value type is replayed in the same model.",
        props_files=["C08", "C08Z"],
        theorems={"C08": ["C08_reachable", "C08_first_access_recent", "C08_second_access_frequent_put",
                          "C08_second_access_frequent_get", "C08_frequent_hit_put", "C08_frequent_hit_get",
                          "C08_get_miss", "C08_new_key_full", "C08_ghost_revival_room", "C08_ghost_revival_full", "C08_quota"],
                  "C08Z": ["C08_put_is_value_blind", "C08_get_is_value_blind", "C08_victim_is_value_blind",
                           "C08_remove_is_value_blind", "C08_lookups_are_value_blind", "C08_history_is_value_blind"]},
        axioms_allowed=FLOCQ_AXIOMS,
        slices=dict(quick=[dict(name="twoq", slice="twoq", args=["--n", 6000, "--len", 150], shards=12),
                           dict(name="ctor", slice="ctor", args=["--n", 60, "--len", 150], shards=2),
                           dict(name="ctor-nostd", slice="ctor", args=["--n", 60, "--len", 150], shards=2, features="nostd"),
                           dict(name="twoq-nostd", slice="twoq", args=["--n", 1500, "--len", 150], shards=4, features="nostd"),
                           comp_bfs(False), comp_zst(False)] + comp_big(False, ("twoq",)),
                    thorough=[dict(name="twoq", slice="twoq", args=["--n", 120000, "--len", 400], shards=16),
                              dict(name="ctor", slice="ctor", args=["--n", 4000, "--len", 300], shards=8),
                              dict(name="ctor-nostd", slice="ctor", args=["--n", 4000, "--len", 300], shards=8, features="nostd"),
                              dict(name="twoq-nostd", slice="twoq", args=["--n", 30000, "--len", 400], shards=16, features="nostd"),
                              comp_bfs(True), comp_zst(True)] + comp_big(True, ("twoq",))),
        corpus=["twoq"],
        monitors=["mon_c08", "mon_c01"],
        assumptions=["quota and ghost capacity are read from the real cache through the verif-hooks accessor and compared with floor(size*ratio) computed by the harness"],
    ),
    "C09": dict(
        level_text="Coq theorems over the AdaptiveCache model, for every reachable state (C01 invariant, which contains 0 <= p <= size, by induction over histories) and every size >= 1: a second access moves a recent entry to the front of the frequent list; a put hitting the recent ghost list sets p to min(size, p + max(1, |B2|/|B1|)), one hitting the frequent ghost list to p - max(1, |B1|/|B2|) floored at 0, either revives the key into the frequent list; replace takes its victim from the recent list iff it is non-empty and longer than p (or equal to p on a frequent-ghost hit), else from the frequent list, falling back to the non-empty one, and moves exactly that entry to the front of the matching ghost list; a full cache always makes room before admitting; a new key enters the recent list and is reported Put. Exact list equations, tied to /repo by differential execution over all four lists and p. The decisions do not look at the values (props/C09Z.v: key projection = ARC over keys alone, incl. the movement of p and the trimming of the ghost lists), so AdaptiveCache over a zero-sized value type is replayed in the same model.",
        props_files=["C09", "C09Z"],
        theorems={"C09": ["C09_reachable", "C09_replace", "C09_promotion_put", "C09_promotion_get",
                          "C09_frequent_hit_put", "C09_frequent_hit_get", "C09_get_miss", "C09_recent_ghost_hit",
                          "C09_frequent_ghost_hit", "C09_new_key"],
                  "C09Z": ["C09_put_is_value_blind", "C09_replace_is_value_blind", "C09_get_is_value_blind",
                           "C09_remove_is_value_blind", "C09_lookups_are_value_blind", "C09_history_is_value_blind"]},
        slices=dict(quick=[dict(name="arc", slice="arc", args=["--n", 6000, "--len", 150], shards=12), comp_bfs(False), comp_zst(False)] + comp_big(False, ("arc",)),
                    thorough=[dict(name="arc", slice="arc", args=["--n", 120000, "--len", 400], shards=16), comp_bfs(True), comp_zst(True)] + comp_big(True, ("arc",))),
        corpus=["arc"],
        monitors=["mon_c09", "mon_c01"],
        assumptions=["the four lists and p are read through the verif-hooks accessor / partition()"],
    ),
    "C10": dict(
        level_text="Coq theorems over the WTinyLFUCache model (window LRU, bit-level TinyLFU, segmented main cache), for every reachable state and every estimator state (hence every sketch seed and KeyHasher): a new key enters the window and the window's LRU becomes the candidate; the candidate is admitted without consulting the estimator while the main cache has room; when it is full the candidate is handed back as Evicted iff estimate(candidate) < estimate(least-recent probationary entry), otherwise it replaces that entry which is handed back; every get/get_mut, hit or miss, performs exactly try_reset + increment of the key's hash; purge clears the estimator; a put on a window key moves it to the front of protected, demoting protected's LRU into the window when full. Tied to /repo by differential execution comparing all three lists and the full estimator state after every call.",
        props_files=["C10", "C10Z"],
        theorems={"C10": ["C10_reachable", "C10_estimate_total", "C10_new_key_enters_window", "C10_admission_free",
                          "C10_admission_filter", "C10_get_records_access", "C10_purge_clears_estimator",
                          "C10_window_hit_moves_to_protected", "C10_main_hit_put"],
                  "C10Z": ["C10_put_is_value_blind", "C10_admission_is_value_blind", "C10_get_is_value_blind",
                           "C10_remove_is_value_blind", "C10_history_is_value_blind"]},
        slices=dict(quick=[dict(name="wtiny", slice="wtiny", args=["--n", 3000, "--len", 150], shards=12),
                           dict(name="wtiny-nostd", slice="wtiny", args=["--n", 600, "--len", 150], shards=4, features="nostd"),
                           dict(name="wtiny-hot", slice="wtiny", args=["--n", 200, "--len", 1500, "--hot", 1], shards=4), comp_zst(False)] + comp_big(False, ("wtiny",)),
                    thorough=[dict(name="wtiny", slice="wtiny", args=["--n", 60000, "--len", 400], shards=16),
                              dict(name="wtiny-nostd", slice="wtiny", args=["--n", 15000, "--len", 400], shards=16, features="nostd"),
                              dict(name="wtiny-hot", slice="wtiny", args=["--n", 4000, "--len", 2500, "--hot", 1], shards=16), comp_zst(True)] + comp_big(True, ("wtiny",))),
        corpus=["wtiny"],
        monitors=["mon_c10", "mon_c01"],
        assumptions=["sketch seeds and Bloom geometry are read from the real estimator through the verif-hooks accessor and validated (bloom_geometry_ok)",
                     "the KeyHashers installed by the harness (identity, multiplicative, constant) are the ones modelled by key_hash"],
    ),
    "C11": dict(
        level_text="Coq theorems over the bit-level model of the estimator (packed 4-bit counters, std and no_std position functions, the doorkeeper's probe arithmetic with 64-bit truncation, tinylfu.rs) against an exact specification of aged access counts, for every sketch width up to 2^32 counters, every sample size >= 1, every Bloom geometry satisfying bloom_geometry_ok, every seed list, every raw 64-bit hash and every history of increment / try_reset / clear on a constructed estimator: exact count <= estimate <= 16; estimate = exact count when only one key was ever recorded; 0 after clear; the window counter equals the number of recorded accesses and try_resets since the last reset and a reset (counter 0, doorkeeper empty, every counter halved) happens exactly when it reaches the sample size; no doorkeeper false negatives; lt/le/gt/ge/eq compare the two estimates. Nibble arithmetic is proved by an exhaustive sweep of the 256 byte values lifted with forallb_forall. Tied to /repo by differential execution comparing every bitset word and row byte after every call, std build (seeds read through the hook) and no_std build.",
        props_files=["C11"],
        theorems={"C11": ["C11_spec_def", "C11_estimate_bounds", "C11_single_key_exact", "C11_clear_zero", "C11_reset_schedule",
                          "C11_reset_effect", "C11_increment_step", "C11_compare", "C11_counter_arithmetic"]},
        slices=dict(quick=[dict(name="tiny", slice="tiny", args=["--n", 2400, "--len", 150], shards=8),
                           dict(name="tiny-nostd", slice="tiny", args=["--n", 1600, "--len", 150], shards=6, features="nostd")],
                    thorough=[dict(name="tiny", slice="tiny", args=["--n", 60000, "--len", 400], shards=16),
                              dict(name="tiny-nostd", slice="tiny", args=["--n", 40000, "--len", 400], shards=16, features="nostd")]),
        corpus=["tiny"],
        monitors=["mon_c11"],
        assumptions=["the Bloom geometry (size_exp, set_locs) comes from ceil/ln computations that are not modelled: it is read from the real filter and validated by bloom_geometry_ok on every instance",
                     "KeyHasher-keyed operations are recorded with the hash the real KeyHasher produced"],
    ),
    "C12": dict(
        level_text="Coq theorems for all five caches, for every state satisfying the C01 invariant (hence every reachable state): put returns Put iff the key was not retained and the retained set (resident and ghost entries of every partition) became exactly the old set plus the new pair; Update(old) iff the key was retained with value old and only that pair was replaced; Evicted / EvictedAndUpdate iff exactly the reported (key, value) entry left; after put the key is resident with the new value; a capacity-0 RawLRU hands the pair back. Same for put_protected and the *_or_put family. For ARC the result kind is proved truthful and nothing is ever invented, silent losses being ghost entries (exactly described by C09). PutResult equality is proved structural. Tied to /repo by differential execution on every partition list, plus a slice exercising PutResult's hand-written ==, clone and copy on generated pairs.",
        props_files=["C12"],
        theorems={"C12": ["C12_put_truth_def", "C12_lru", "C12_lru_capacity_zero", "C12_slru", "C12_slru_put_protected",
                          "C12_twoq", "C12_arc", "C12_arc_residents_kept", "C12_wtiny", "C12_or_put", "C12_structural"]},
        slices=dict(quick=lru_slices(1500, 150, 2, 100000) + comp_slices(2500, 150, 1200)
                    + [dict(name="putres", slice="putres", args=["--n", 40, "--len", 200], shards=2)],
                    thorough=lru_slices(30000, 400, 3, 1000000) + comp_slices(40000, 400, 20000)
                    + [dict(name="putres", slice="putres", args=["--n", 400, "--len", 400], shards=4)]),
        corpus=ALL_CORPUS,
        monitors=["mon_c12"],
        assumptions=["retained entries are read through the verif-hooks accessors (every partition list, ghosts included)"],
    ),
    "C13": dict(
        level_text="Coq theorems: in the models of all five caches every read-only call (peek, peek_mut without write, contains, len, cap, is_empty, peek_lru/peek_mru variants, get_mru, non-writing iterator scripts, per-segment accessors, partition(), Debug) returns the identical state - every list order, value, ARC's p and the W-TinyLFU estimator - and inserting any list of such calls at any position of any history changes neither the final state nor any later result (generic insertion theorem). Tied to /repo by differential execution comparing the full snapshot (all lists, p, estimator bytes) after every call.",
        props_files=["C13"],
        theorems={"C13": ["C13_lru_state_unchanged", "C13_slru_state_unchanged", "C13_twoq_state_unchanged",
                          "C13_arc_state_unchanged", "C13_wtiny_state_unchanged", "C13_lru_insertion",
                          "C13_slru_insertion", "C13_twoq_insertion", "C13_arc_insertion", "C13_wtiny_insertion"]},
        slices=dict(quick=lru_slices(1500, 150, 2, 100000) + comp_slices(1500, 150, 800),
                    thorough=lru_slices(30000, 400, 3, 1000000) + comp_slices(30000, 400, 15000)),
        corpus=ALL_CORPUS,
        monitors=["mon_c13"],
        assumptions=["the snapshot (all lists through the verif-hooks accessors, ARC's p, the estimator's bytes) is the "
                     "whole state later results depend on; Debug formatting exists only for RawLRU and TwoQueueCache"],
    ),
    "C14": dict(
        level_text="Coq theorems over the iterator model (a remaining-entries list consumed from both ends; all ten iterator types are this machine with a projection), for every list - hence every reachable state, empty and single-entry lists included - and every interleaving of next / next_back of any length: the items yielded from the front, the remaining entries and the reversed items yielded from the back always reassemble the original list (each entry exactly once, in order, none skipped); the reported length drops by one per item and is 0 with None; exactly min(requests, len) items are yielded; exhausted iterators stay exhausted; the *_lru variants equal the MRU iterator on the reversed list; writes through mutable iterators never change the order, immutable ones change nothing; clones advance independently. Tied to /repo by differential execution of random next/next_back scripts (with clone, size_hint/len checks) on RawLRU and on every list of 2Q and ARC.",
        props_files=["C14"],
        theorems={"C14": ["C14_exactly_once_in_order", "C14_len_exact", "C14_count", "C14_fused", "C14_lru_is_reverse",
                          "C14_full_traversal", "C14_projections", "C14_mut_keeps_order", "C14_immutable_changes_nothing",
                          "C14_clone_independent", "C14_heap_iter", "C14_heap_family_iter"]},
        slices=dict(quick=lru_slices(3000, 150, 2, 100000)
                    + [dict(name="twoq", slice="twoq", args=["--n", 2500, "--len", 150], shards=4),
                       dict(name="arc", slice="arc", args=["--n", 2500, "--len", 150], shards=4)] + comp_big(False, ("twoq", "arc")),
                    thorough=lru_slices(60000, 400, 3, 1000000)
                    + [dict(name="twoq", slice="twoq", args=["--n", 40000, "--len", 400], shards=8),
                       dict(name="arc", slice="arc", args=["--n", 40000, "--len", 400], shards=8)] + comp_big(True, ("twoq", "arc"))),
        corpus=["lru", "twoq", "arc"],
        monitors=["mon_c14"],
        partial="the pointer-level iterators (C14_heap_iter, C14_heap_family_iter: cursors only ever dereference linked nodes, hand out pairwise distinct nodes, yield the items of the list-level machine and store exactly the writes, leaving the other lists of a composite cache untouched) are proved equal to the list-level machine, which is what is executed against the code; only the tail-side cursor is itself executed against the code (through Clone in the heap-level kinds)",
        assumptions=["size_hint() == (len, Some(len)) and count() are checked by the harness after every step and folded into the reported length"],
    ),
    "C15": dict(
        level_text='Coq theorems over the RawLRU model: for every reachable state and every operation of the whole API the callback log of the call equals the list of entries that departed (defined independently of the step function from the lists before/after), least-recent first, with their current values; hence exactly once per departing entry, never for an update, a read or a staying entry. Tied to /repo by differential execution with a recording callback through both callback constructors.',
        props_files=["C15"],
        theorems={"C15": ["C15_callback_exact", "C15_reachable", "C15_never_for_staying_entries",
                          "C15_once_per_departing_entry", "C15_no_callback_without_departure"]},
        slices=dict(quick=lru_slices(3000, 150, 2, 100000), thorough=lru_slices(60000, 400, 3, 1000000)),
        corpus=["lru"],
        monitors=["mon_c15"],
        assumptions=["the recording callback of the harness sees exactly the (key, value) pairs the library passes to on_evict"],
    ),
    "C06": dict(
        props_files=["C06", "C06Z"],
        theorems={"C06": ["C06_recency_order", "C06_eviction_takes_lru", "C06_peek_lru", "C06_remove_lru",
                          "C06_get_lru", "C06_mru", "C06_resize", "C06_reads_keep_order", "C06_step"],
                  "C06Z": ["C06_put_is_value_blind", "C06_get_is_value_blind", "C06_peek_is_value_blind",
                           "C06_removals_are_value_blind", "C06_ends_are_value_blind", "C06_same_keys_same_order",
                           "C06_history_is_value_blind", "C06_same_calls_same_order"]},
        slices=dict(quick=lru_slices(3000, 150, 2, 100000) +
                          [dict(name="lruhuge", slice="lruhuge", args=["--n", 600, "--len", 120], shards=2, model=False)],
                    thorough=lru_slices(60000, 400, 3, 1000000) +
                             [dict(name="lruhuge", slice="lruhuge", args=["--n", 20000, "--len", 300], shards=8, model=False)]),
        corpus=["lru"],
        monitors=["mon_c06"],
        assumptions=["std HashMap / hashbrown behave as a finite map (the index of the list)"],
    ),
}
