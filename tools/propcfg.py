"""Per-property configuration of vcheck: which theorem files, which harness slices, which monitors."""

FLOCQ_AXIOMS = [
    "ClassicalDedekindReals.sig_not_dec",
    "ClassicalDedekindReals.sig_forall_dec",
    "FunctionalExtensionality.functional_extensionality_dep",
    "Classical_Prop.classic",
]

TRUSTED_BASE = [
    "Coq 8.16.1 kernel (coqc, full .vo build; vm_compute used for finite sweeps and witnesses; no native_compute)",
    "no axiom, Parameter, Admitted or checker switch anywhere in /verif/coq (scanned on every run); "
    "Print Assumptions of every property theorem audited against an allow-list on every run",
    "extraction: ExtrOcamlBasic only (Extract Inductive bool/option/unit/list/prod/sumbool/sumor to OCaml "
    "built-ins, Extract Inlined Constant andb => (&&), orb => (||)); nat/positive/N/Z stay extracted inductives; "
    "OCaml 4.13.1",
    "hand-written glue: ocaml/driver.ml (parsing, list comparison), the Rust harness (generators, "
    "snapshot through the verif-hooks accessors, allocator wrapper, drop ledger), bin/vcheck, tools/monitors.py",
    "the model is hand-written; its only tie to /repo is the correspondence run of this check "
    "(differential execution on generated and exhaustively enumerated histories)",
]


def lru_slices(q_n, q_len, bfs_caps, bfs_states):
    return [
        dict(name="lru-bfs", slice="lru_bfs", args=["--n", bfs_caps, "--len", bfs_states], shards=8),
        dict(name="lru-rand", slice="lru", args=["--n", q_n, "--len", q_len], shards=8),
    ]


def comp_slices(n, ln, lfu_n):
    return [
        dict(name="slru", slice="slru", args=["--n", n, "--len", ln], shards=4),
        dict(name="twoq", slice="twoq", args=["--n", n, "--len", ln], shards=4),
        dict(name="arc", slice="arc", args=["--n", n, "--len", ln], shards=4),
        dict(name="wtiny", slice="wtiny", args=["--n", lfu_n, "--len", ln], shards=4),
    ]


ALL_CORPUS = ["lru", "slru", "twoq", "arc", "wtiny"]

PROPS = {
    "C01": dict(
        props_files=["C01"],
        theorems={"C01": ["C01_lru", "C01_slru", "C01_twoq", "C01_arc", "C01_wtiny", "C01_wtiny_init",
                          "C01_lru_step", "C01_slru_step", "C01_twoq_step", "C01_arc_step", "C01_wtiny_step"]},
        slices=dict(quick=lru_slices(1500, 150, 2, 100000) + comp_slices(1500, 150, 800),
                    thorough=lru_slices(30000, 400, 3, 1000000) + comp_slices(30000, 400, 15000)),
        corpus=ALL_CORPUS,
        monitors=["mon_c01"],
        assumptions=["std HashMap / hashbrown behave as a finite map (the index of each list)",
                     "2Q quotas are taken as data here (C08 ties them to the ratios)",
                     "W-TinyLFU: the Bloom geometry is data validated by bloom_geometry_ok on every instance"],
    ),
    "C06": dict(
        props_files=["C06"],
        theorems={"C06": ["C06_recency_order", "C06_eviction_takes_lru", "C06_peek_lru", "C06_remove_lru",
                          "C06_get_lru", "C06_mru", "C06_resize", "C06_reads_keep_order", "C06_step"]},
        slices=dict(quick=lru_slices(3000, 150, 2, 100000), thorough=lru_slices(60000, 400, 3, 1000000)),
        corpus=["lru"],
        monitors=["mon_c06"],
        assumptions=["std HashMap / hashbrown behave as a finite map (the index of the list)"],
    ),
}
