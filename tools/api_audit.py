#!/usr/bin/env python3
"""api_audit.py - development aid, not a check: lists the `pub fn`s of /repo/src that no harness source mentions.
A name listed here is a public function no correspondence run can reach (round 3 of the seeded changes found
the conversions and several constructors / builder setters that way).  Names of crate-private modules
(the Bloom filter) are expected to stay."""
import re, os, sys
names = set()
for root, _, files in os.walk("/repo/src"):
    for f in files:
        if f.endswith(".rs"):
            names |= set(re.findall(r"pub fn ([a-z_0-9]+)", open(os.path.join(root, f)).read()))
src = ""
for f in os.listdir("/verif/harness/src"):
    src += open(os.path.join("/verif/harness/src", f)).read()
missing = sorted(n for n in names if not re.search(r"\b" + re.escape(n) + r"\b", src))
print(len(names), "public function names;", len(missing), "not mentioned by the harness:", " ".join(missing))
