#!/usr/bin/env python3
"""sig_extract.py <repo root> <out.v> [<out.json>]

Translator for C19: regenerates, from the Rust sources as they are now, the table of
  * every fn signature (in impl blocks and trait declarations) whose return type mentions a
    reference or a lifetime, with its visibility, receiver, own lifetime parameters, the lifetimes
    of its reference parameters and the (lifetime, mutability) of every reference / lifetime
    occurrence in the return type;
  * every `unsafe impl ... Send/Sync for T`, with the bounds it puts on K and V (macro-generated
    impls are expanded first);
  * what every iterator type hands out (`type Item = ...` of its Iterator impl).
The output is a Coq file (SigsGen.v) checked by coq/sigs/Sigs.v, and optionally the same as JSON
for the probe generator.  It is a syntactic translator: comments and test modules are stripped,
`macro_rules!` whose matcher is `$($t:ty),*` are expanded textually."""
import sys, os, re, json


def strip_comments(src):
    out, i, n = [], 0, len(src)
    while i < n:
        if src.startswith("//", i):
            j = src.find("\n", i)
            i = n if j < 0 else j
        elif src.startswith("/*", i):
            depth, i = 1, i + 2
            while i < n and depth:
                if src.startswith("/*", i):
                    depth += 1; i += 2
                elif src.startswith("*/", i):
                    depth -= 1; i += 2
                else:
                    i += 1
        elif src[i] == '"':
            j = i + 1
            while j < n and src[j] != '"':
                j += 2 if src[j] == "\\" else 1
            out.append('""'); i = j + 1
        else:
            out.append(src[i]); i += 1
    return "".join(out)


def match_brace(s, i, open_c="{", close_c="}"):
    """s[i] == open_c; returns index of the matching close"""
    depth = 0
    for j in range(i, len(s)):
        if s[j] == open_c:
            depth += 1
        elif s[j] == close_c:
            depth -= 1
            if depth == 0:
                return j
    return len(s) - 1


def strip_test_modules(src):
    while True:
        m = re.search(r"#\[cfg\(test\)\]\s*mod\s+\w+\s*\{", src)
        if not m:
            return src
        j = match_brace(src, m.end() - 1)
        src = src[:m.start()] + src[j + 1:]


def split_top(s, sep=","):
    parts, depth, cur = [], 0, []
    for ch in s:
        if ch in "<([{":
            depth += 1
        elif ch in ">)]}":
            depth -= 1
        if ch == sep and depth == 0:
            parts.append("".join(cur)); cur = []
        else:
            cur.append(ch)
    if "".join(cur).strip():
        parts.append("".join(cur))
    return [p.strip() for p in parts]


def expand_macros(src):
    macros = {}
    pos = 0
    pieces = []
    for m in re.finditer(r"macro_rules!\s*(\w+)\s*\{", src):
        j = match_brace(src, m.end() - 1)
        body = src[m.end():j]
        mm = re.search(r"\(\s*\$\(\s*\$(\w+)\s*:\s*ty\s*\)\s*,\s*\*\s*\)\s*=>\s*\{", body)
        if mm:
            k = match_brace(body, mm.end() - 1)
            inner = body[mm.end():k]
            r = re.search(r"\$\(", inner)
            if r:
                e = match_brace(inner, r.end() - 1, "(", ")")
                macros[m.group(1)] = (mm.group(1), inner[r.end():e])
        pieces.append((m.start(), j + 1))
    # remove definitions
    out, last = [], 0
    for a, b in pieces:
        out.append(src[last:a]); last = b
    out.append(src[last:])
    src = "".join(out)
    # expand invocations
    for name, (var, body) in macros.items():
        def repl(m):
            j = match_brace(src, m.end() - 1)
            return None
        while True:
            m = re.search(r"\b" + name + r"!\s*\{", src)
            if not m:
                break
            j = match_brace(src, m.end() - 1)
            args = split_top(src[m.end():j])
            exp = "\n".join(body.replace("$" + var, a) for a in args)
            src = src[:m.start()] + exp + src[j + 1:]
    return src


def scan_generics(s, i):
    """s[i] == '<': returns index after the matching '>' (handles '->' inside never occurs in generics)"""
    depth = 0
    j = i
    while j < len(s):
        if s[j] == "<":
            depth += 1
        elif s[j] == ">" and s[j - 1] != "-":
            depth -= 1
            if depth == 0:
                return j + 1
        j += 1
    return j


LT = re.compile(r"'([a-zA-Z_][a-zA-Z0-9_]*)")


def parse_bounds(generics, where):
    """K: Send + Sync, ... -> {param: [bounds]}"""
    b = {}
    for part in split_top(generics) + split_top(where):
        if ":" in part and not part.strip().startswith("'"):
            name, bs = part.split(":", 1)
            b.setdefault(name.strip(), [])
            b[name.strip()] += [x.strip() for x in bs.split("+") if x.strip()]
    return b


def parse_fn(text, i):
    """text[i:] starts at 'fn'; returns (dict, end index) or (None, i+2)"""
    m = re.match(r"fn\s+(\w+)\s*", text[i:])
    if not m:
        return None, i + 2
    name = m.group(1)
    j = i + m.end()
    generics = ""
    if j < len(text) and text[j] == "<":
        k = scan_generics(text, j)
        generics = text[j + 1:k - 1]
        j = k
    while j < len(text) and text[j].isspace():
        j += 1
    if j >= len(text) or text[j] != "(":
        return None, i + 2
    k = match_brace(text, j, "(", ")")
    params = text[j + 1:k]
    j = k + 1
    # return type up to '{', ';' or 'where' at depth 0
    depth, r = 0, j
    while r < len(text):
        ch = text[r]
        if ch in "<([":
            depth += 1
        elif ch in ")]" or (ch == ">" and text[r - 1] != "-"):
            depth -= 1
        elif depth <= 0 and (ch in "{;" or text.startswith("where", r)):
            break
        r += 1
    tail = text[j:r].strip()
    ret = tail[2:].strip() if tail.startswith("->") else ""
    return dict(name=name, generics=generics, params=params, ret=ret), r


def receiver_of(params):
    p = split_top(params)
    if not p:
        return ("none", None, False), []
    first = re.sub(r"\s+", " ", p[0])
    m = re.match(r"^&\s*('(\w+)\s+)?(mut\s+)?self$", first)
    if m:
        return ("ref", None if m.group(2) == "_" else m.group(2), bool(m.group(3))), p[1:]
    if re.match(r"^(mut\s+)?self(\s*:.*)?$", first):
        return ("value", None, False), p[1:]
    return ("none", None, False), p


def refs_in(ty, mut_types=()):
    """[(lifetime or None for elided, is_mut)] for every reference and every lifetime argument in a type;
    a lifetime argument of an iterator type whose items are `&mut V` (mut_types) counts as a `&mut`"""
    out = []
    consumed = set()
    mut_spans = []
    for t in mut_types:
        for m in re.finditer(r"\b" + re.escape(t) + r"\s*<", ty):
            mut_spans.append((m.end() - 1, scan_generics(ty, m.end() - 1)))
    for m in re.finditer(r"&\s*('(\w+)\s*)?(mut\b)?", ty):
        lt = m.group(2)
        if lt == "_":
            lt = None
        out.append((lt, bool(m.group(3))))
        if m.group(1):
            consumed.add(m.start(1))
    for m in LT.finditer(ty):
        if m.start() in consumed:
            continue
        lt = m.group(1)
        out.append((None if lt == "_" else lt, any(a <= m.start() < b for a, b in mut_spans)))
    return out


def parse_file(path, rel):
    src = open(path).read()
    src = expand_macros(strip_test_modules(strip_comments(src)))
    sigs, markers, items = [], [], []
    clones = []
    for dm in re.finditer(r"#\[derive\(([^)]*)\)\]\s*(?:#\[[^\]]*\]\s*)*(?:pub(?:\([^)]*\))?\s+)?(?:struct|enum)\s+(\w+)", src):
        for tr in ("Clone", "Copy"):
            if re.search(r"\b" + tr + r"\b", dm.group(1)):
                clones.append(dict(file=rel, ty=dm.group(2), which=tr, how="derive"))
    # impl blocks and trait declarations
    for m in re.finditer(r"(?m)^\s*(pub\s+)?(unsafe\s+)?(impl|trait)\b", src):
        kind = m.group(3)
        j = m.end()
        while j < len(src) and src[j].isspace():
            j += 1
        generics = ""
        if kind == "impl" and j < len(src) and src[j] == "<":
            k = scan_generics(src, j)
            generics = src[j + 1:k - 1]
            j = k
        # header up to '{' at depth 0
        depth, r = 0, j
        while r < len(src):
            ch = src[r]
            if ch in "<([":
                depth += 1
            elif ch in ")]" or (ch == ">" and src[r - 1] != "-"):
                depth -= 1
            elif ch in "{;" and depth <= 0:
                break
            r += 1
        if r >= len(src) or src[r] == ";":
            continue
        header = " ".join(src[j:r].split())
        where = ""
        if " where " in " " + header + " ":
            header, where = re.split(r"\bwhere\b", header, 1)
        header = header.strip()
        trait, selfty = None, header
        if kind == "trait":
            trait = re.match(r"(\w+)", header).group(1)
            selfty = "Self"
        else:
            mm = re.match(r"^(.*?)\s+for\s+(.*)$", header)
            if mm and not mm.group(1).strip().startswith("<"):
                trait, selfty = mm.group(1).strip(), mm.group(2).strip()
        end = match_brace(src, r)
        body = src[r + 1:end]
        tyname = re.match(r"[\w:]+", re.sub(r"^&\s*('\w+\s+)?(mut\s+)?", "", selfty).strip())
        tyname = tyname.group(0) if tyname else selfty
        if kind == "impl" and trait in ("Clone", "Copy"):
            clones.append(dict(file=rel, ty=tyname, which=trait, how="impl"))
        if m.group(2) and kind == "impl" and trait in ("Send", "Sync"):
            bounds = parse_bounds(generics, where)
            tparams = [re.split(r"[:=]", part, 1)[0].strip() for part in split_top(generics)
                       if part.strip() and not part.strip().startswith("'") and not part.strip().startswith("const ")]
            markers.append(dict(file=rel, ty=tyname, selfty=selfty, which=trait, bounds=bounds, tparams=tparams))
            continue
        if trait and trait.split("<")[0] == "Iterator":
            im = re.search(r"type\s+Item\s*=\s*([^;]+);", body)
            if im:
                it = " ".join(im.group(1).split())
                rs = refs_in(it)
                items.append(dict(file=rel, ty=tyname, item=it,
                                  shares_k=bool(re.search(r"&\s*('\w+\s+)?K\b", it)),
                                  shares_v=bool(re.search(r"&\s*('\w+\s+)?V\b", it)),
                                  mut_v=bool(re.search(r"&\s*('\w+\s+)?mut\s+V\b", it))))
        # fns at depth 0 of the body
        depth, p = 0, 0
        while p < len(body):
            ch = body[p]
            if ch == "{":
                depth += 1
            elif ch == "}":
                depth -= 1
            elif depth == 0 and re.match(r"\bfn\b", body[p:p + 3]) and (p == 0 or not (body[p - 1].isalnum() or body[p - 1] == "_")):
                f, e = parse_fn(body, p)
                if f:
                    pre = body[max(0, p - 40):p]
                    vm = re.search(r"(pub\s*\(\s*crate\s*\)|pub\s*\(\s*super\s*\)|pub)\s+(const\s+)?(unsafe\s+)?$", pre)
                    if kind == "trait":
                        vis = "trait_decl"
                    elif trait:
                        vis = "trait_impl"
                    elif vm and vm.group(1) == "pub":
                        vis = "pub"
                    elif vm:
                        vis = "crate"
                    else:
                        vis = "private"
                    (rk, rlt, rmut), rest = receiver_of(f["params"])
                    outs = refs_in(f["ret"])
                    if outs and not f["name"].startswith("verif_"):   # feature-gated read-only hooks are not public API
                        fn_lts = [x for x in LT.findall(f["generics"])]
                        # only the lifetimes declared as parameters (before any ':' bound)
                        fn_lts = [re.match(r"'(\w+)", g.strip()).group(1) for g in split_top(f["generics"])
                                  if g.strip().startswith("'")]
                        param_lts = sorted({lt for prm in rest for (lt, _) in refs_in(prm.split(":", 1)[-1]) if lt})
                        sigs.append(dict(file=rel, ty=tyname, trait=trait, name=f["name"], vis=vis,
                                         fn_lifetimes=fn_lts, recv=rk, recv_lt=rlt, recv_mut=rmut,
                                         param_lifetimes=param_lts, nparams=len(rest),
                                         params=[" ".join(x.split()) for x in rest],
                                         outs=[[lt, mu] for lt, mu in outs], ret=" ".join(f["ret"].split())))
                    p = e
                    continue
            p += 1
    return sigs, markers, items, clones


def coq_str(s):
    return '"' + (s or "").replace('"', "'") + '"'


def coq_opt(s):
    return f"(Some {coq_str(s)})" if s is not None else "None"


def main():
    root, outv = sys.argv[1], sys.argv[2]
    sigs, markers, items, clones = [], [], [], []
    for d, _, fs in sorted(os.walk(os.path.join(root, "src"))):
        for f in sorted(fs):
            if f.endswith(".rs"):
                p = os.path.join(d, f)
                s, m, i, c = parse_file(p, os.path.relpath(p, root))
                sigs += s; markers += m; items += i; clones += c
    # second pass: a returned iterator over `&mut V` is a mutable borrow of what it walks
    mut_types = sorted({i["ty"] for i in items if i["mut_v"]})
    for sg in sigs:
        sg["outs"] = [[lt, mu] for lt, mu in refs_in(sg["ret"], mut_types)]
    vis_c = dict(pub="VPub", crate="VCrate", trait_impl="VTraitImpl", trait_decl="VTraitDecl", private="VPrivate")
    recv_c = dict(none="RNone", value="RValue", ref="RRef")
    L = ["(* GENERATED by tools/sig_extract.py from the Rust sources on every run of the C19 check. DO NOT EDIT. *)",
         "From Coq Require Import String List. Import ListNotations. Open Scope string_scope.",
         "From VFS Require Import SigDefs.", ""]
    L.append("Definition sigs : list sig := [")
    rows = []
    for s in sigs:
        outs = "; ".join(f"({coq_opt(lt)}, {'true' if mu else 'false'})" for lt, mu in s["outs"])
        rows.append(f"  mkSig {coq_str(s['file'])} {coq_str(s['ty'])} {coq_opt(s['trait'])} {coq_str(s['name'])} {vis_c[s['vis']]} "
                    f"[{'; '.join(coq_str(x) for x in s['fn_lifetimes'])}] {recv_c[s['recv']]} {coq_opt(s['recv_lt'])} "
                    f"{'true' if s['recv_mut'] else 'false'} [{'; '.join(coq_str(x) for x in s['param_lifetimes'])}] [{outs}]")
    L.append(";\n".join(rows))
    L.append("].\n")
    L.append("Definition markers : list marker := [")
    rows = []
    for m in markers:
        def has(p, b):
            return "true" if b in m["bounds"].get(p, []) else "false"
        others = "; ".join(f"({coq_str(p)}, {has(p, 'Send')}, {has(p, 'Sync')})" for p in m.get("tparams", []) if p not in ("K", "V"))
        rows.append(f"  mkMarker {coq_str(m['file'])} {coq_str(m['ty'])} {'MSend' if m['which'] == 'Send' else 'MSync'} "
                    f"{has('K', 'Send')} {has('K', 'Sync')} {has('V', 'Send')} {has('V', 'Sync')} [{others}]")
    L.append(";\n".join(rows))
    L.append("].\n")
    L.append("Definition items : list item := [")
    rows = [f"  mkItem {coq_str(i['ty'])} {'true' if i['shares_k'] else 'false'} {'true' if i['shares_v'] and not i['mut_v'] else 'false'} "
            f"{'true' if i['mut_v'] else 'false'}" for i in items]
    L.append(";\n".join(rows))
    L.append("].\n")
    L.append("Definition clones : list string := [" + "; ".join(coq_str(c["ty"]) for c in clones) + "].")
    open(outv, "w").write("\n".join(L) + "\n")
    if len(sys.argv) > 3:
        json.dump(dict(sigs=sigs, markers=markers, items=items, clones=clones), open(sys.argv[3], "w"), indent=1)
    print(f"sig_extract: {len(sigs)} signatures, {len(markers)} unsafe Send/Sync impls, {len(items)} iterator item types, {len(clones)} Clone/Copy impls")


if __name__ == "__main__":
    main()
