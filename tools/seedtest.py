#!/usr/bin/env python3
"""seedtest.py <src OUT/mN dir> <seed id> <props...> [--keep]
Confirms a seeded change (applies, existing tests pass, demo fails with / passes without it) in a scratch
worktree, then applies it to /repo, runs the given checks (quick), and undoes it.  With --keep the
change is stored as /verif/seeded/<seed id>/ with the results."""
import sys, os, subprocess, json, shutil, time
args = [a for a in sys.argv[1:] if not a.startswith("--")]
keep = "--keep" in sys.argv
noverify = "--noverify" in sys.argv
src, sid, props = args[0], args[1], args[2:]
ENV = dict(os.environ, CARGO_NET_OFFLINE="true")
def sh(cmd, cwd=None, env=None, timeout=3000):
    p = subprocess.run(cmd, shell=True, cwd=cwd, env=env or ENV, stdout=subprocess.PIPE, stderr=subprocess.STDOUT, timeout=timeout)
    return p.returncode, p.stdout.decode("utf-8", "replace")
patch = os.path.abspath(src + "/patch.diff")
demo = os.path.abspath(src + "/demo.rs")
meta = json.load(open(src + "/meta.json")) if os.path.exists(src + "/meta.json") else {}
ran = []
res = {}
if not noverify:
    wt = f"/tmp/seedv/{sid}"
    sh(f"git -C /repo worktree remove --force {wt}")
    shutil.rmtree(wt, ignore_errors=True)
    os.makedirs("/tmp/seedv", exist_ok=True)
    rc, o = sh(f"git -C /repo worktree add --detach {wt} HEAD")
    assert rc == 0, o
    env = dict(ENV, CARGO_TARGET_DIR="/tmp/seedv/target")
    shutil.copy(demo, f"{wt}/tests/seed_demo.rs") if os.path.isdir(f"{wt}/tests") else (os.makedirs(f"{wt}/tests"), shutil.copy(demo, f"{wt}/tests/seed_demo.rs"))
    rc, o = sh("cargo test --offline --test seed_demo 2>&1 | tail -15", cwd=wt, env=env)
    res["demo_on_unchanged"] = "pass" if "test result: ok" in o and "FAILED" not in o else "FAIL"
    ran.append("unchanged tree: cargo test --offline --test seed_demo")
    rc, o = sh(f"git apply {patch}", cwd=wt)
    assert rc == 0, "patch does not apply: " + o
    rc, o = sh("cargo test --offline --test seed_demo 2>&1 | tail -25", cwd=wt, env=env)
    res["demo_on_changed"] = "fail" if ("FAILED" in o or "panicked" in o or "error" in o) else "PASS"
    res["demo_output_tail"] = o[-600:]
    os.remove(f"{wt}/tests/seed_demo.rs")
    rc, o = sh("cargo test --offline 2>&1 | grep -E 'test result|FAILED|failed|error(\\[|:)' | head -20", cwd=wt, env=env)
    res["suite_on_changed"] = o.strip()
    ran.append("changed tree: cargo test --offline --test seed_demo; cargo test --offline (whole suite)")
    rc, o = sh("cargo build --offline --features verif-hooks 2>&1 | tail -3", cwd=wt, env=env)
    res["hooks_build"] = "ok" if rc == 0 and "error" not in o else o
    sh(f"git -C /repo worktree remove --force {wt}")
    shutil.rmtree(wt, ignore_errors=True)
    print("verify:", json.dumps({k: v for k, v in res.items() if k != "demo_output_tail"}, indent=1))
# run the checks against /repo with the change applied
rc, o = sh("git -C /repo status --porcelain --untracked-files=no")
assert o.strip() == "", "/repo is not clean: " + o
rc, o = sh(f"git -C /repo apply {patch}")
assert rc == 0, o
checks = {}
try:
    for p in props:
        t0 = time.time()
        rc, o = sh(f"/verif/bin/vcheck {p} --tier quick", cwd="/verif", timeout=3000)
        lines = [l for l in o.split("\n") if l.startswith("VIOLATION") or l.startswith("KNOWN") or l.startswith(p)]
        checks[p] = dict(exit=rc, lines=lines, wall_s=round(time.time() - t0, 1))
        print(p, rc, "\n  ".join(lines))
        for l in lines:
            if l.startswith("VIOLATION"):
                rp = l.split("replay=")[1].split()[0]
                if os.path.exists(rp):
                    print("   replay:", open(rp).read()[-700:].replace("\n", "\n     "))
                break
        ran.append(f"git -C /repo apply patch.diff; bin/vcheck {p} --tier quick; git -C /repo checkout -- .")
finally:
    sh("git -C /repo checkout -- .")
    rc, o = sh("git -C /repo status --porcelain --untracked-files=no")
    assert o.strip() == "", "/repo not restored: " + o
if keep:
    d = f"/verif/seeded/{sid}"
    os.makedirs(d, exist_ok=True)
    shutil.copy(patch, d + "/patch.diff")
    shutil.copy(demo, d + "/demo.rs")
    m = dict(property=meta.get("property"), summary=meta.get("summary"), needs=meta.get("needs"), files=meta.get("files"),
             author="independent sub-agent (given only the property text and a scratch worktree)",
             confirmed=res, checks_run=checks, what_i_ran=ran)
    if os.path.exists(d + "/meta.json"):
        old = json.load(open(d + "/meta.json"))
        if not res:
            m["confirmed"] = old.get("confirmed", {})
        oc = old.get("checks_run", {}); oc.update(checks); m["checks_run"] = oc
    json.dump(m, open(d + "/meta.json", "w"), indent=1)
    print("kept as", d)
