#!/usr/bin/env python3
"""alphabet_audit.py [repo] -> JSON on stdout, exit 0 if the composite caches stay inside the alphabet of
fault/FaultPrim.v, 1 otherwise.

C18's theorems for the composite caches (coq/fault/FaultFamily.v) are about ANY program over the public
RawLRU operations and the crate-internal primitives, so they need no model of what SegmentedCache,
TwoQueueCache, AdaptiveCache and WTinyLFUCache decide - only that their code reaches the lists through
that alphabet and nothing else.  This script re-reads the four sources (and `swap_value` in src/lru.rs) on
every run and lists every raw-level access they make: calls of `pub(crate)` functions of raw.rs (the list
is taken from raw.rs itself), direct uses of a list's `map`, `head`, `tail`, pointer dereferences, node
fields, and the unsafe std functions.  Each must be in the table below, which says which action of
`gstep` it is; `map.remove` must be paired with `detach` (together they are `remove_and_return_ent`)."""
import sys, re, json, os

REPO = sys.argv[1] if len(sys.argv) > 1 else "/repo"
FILES = ["src/lru/segmented.rs", "src/lru/two_queue.rs", "src/lru/adaptive.rs", "src/lfu/wtinylfu.rs"]

# raw access -> the action(s) of gstep (FaultPrim.v) it is
ALPHABET = {
    "call:put_nonnull": "GPutNonnull",
    "call:put_or_evict_nonnull": "GPutOrEvict",
    "call:remove_and_return_ent": "GRemoveEnt",
    "call:remove_lru_in": "GRemoveLruIn",
    "call:update": "GUpdateKey (after map.get_mut)",
    "call:detach": "GRemoveEnt (after map.remove)",
    "call:get_": "GPub HGetMut (reference with the lifetime of the key: C19)",
    "call:get_mut_": "GPub HGetMut",
    "call:peek_": "GPub HPeek",
    "call:peek_mut_": "GPub HPeekMut",
    "map:get_mut": "GUpdateKey (lookup)",
    "map:remove": "GRemoveEnt (with detach)",
    "map:contains_key": "GPub HContains",
    "map:len": "no access to a node",
    "fn:swap_value": "GSwap",
    "path:ptr::swap": "GSwap",
    "path:mem::swap": "GSwap (inside swap_value / update)",
    "path:mem::transmute": "lifetime of a returned reference only (C19)",
    "path:Box::from_raw": "GFree",
    "path:Box::into_raw": "GAlloc",
    "path:Box::new": "GAlloc",
    "path:NonNull::new_unchecked": "GAlloc",
    "path:ptr::NonNull": "the pointer type (no access)",
    "method:assume_init": "GFree (the pair is moved out of the unboxed node)",
    "method:as_mut_ptr": "GSwap (address of the value field of a node in flight)",
    "method:as_mut": "a node in flight as &mut (GSwap)",
    "method:as_ptr": "a node pointer as *mut (no access)",
    "field:val": "GSwap / GFree (value field of a node in flight)",
    "field:key": "GFree (key field of the unboxed node)",
}


def strip(src):
    """drop the test module, comments and string literals"""
    m = re.search(r"#\[cfg\(test\)\]", src)
    if m:
        src = src[:m.start()]
    src = re.sub(r"/\*.*?\*/", " ", src, flags=re.S)
    src = re.sub(r"//[^\n]*", " ", src)
    src = re.sub(r'"(?:\\.|[^"\\])*"', '""', src)
    return src


def crate_fns(raw_src):
    return sorted(set(re.findall(r"pub\(crate\)\s+(?:unsafe\s+)?fn\s+([A-Za-z_0-9]+)", raw_src)))


def accesses(src, crate):
    out = []
    for name in crate:
        if name == "new":
            continue
        for m in re.finditer(r"\.\s*" + re.escape(name) + r"\s*(?:::<[^>]*>)?\s*\(", src):
            out.append(("call:" + name, m.start()))
    for m in re.finditer(r"\.\s*map\s*\.\s*([A-Za-z_0-9]+)", src):
        out.append(("map:" + m.group(1), m.start()))
    for m in re.finditer(r"\.\s*(head|tail)\b(?!\s*\()", src):
        out.append(("field:" + m.group(1), m.start()))
    for m in re.finditer(r"\(\s*\*", src):
        out.append(("deref:(*", m.start()))
    for m in re.finditer(r"\.\s*(next|prev|key|val)\b(?!\s*\()", src):
        out.append(("field:" + m.group(1), m.start()))
    for m in re.finditer(r"\b(ptr|mem|Box|NonNull|MaybeUninit|ManuallyDrop)\s*::\s*([A-Za-z_0-9]+)", src):
        if m.group(1) == "mem" and m.group(2) in ("size_of", "align_of"):
            continue
        out.append(("path:%s::%s" % (m.group(1), m.group(2)), m.start()))
    for m in re.finditer(r"\btransmute\b", src):
        if not re.search(r"mem\s*::\s*$", src[max(0, m.start() - 8):m.start()]):
            out.append(("path:mem::transmute", m.start()))
    for m in re.finditer(r"\.\s*(assume_init(?:_[a-z]+)?|as_mut_ptr|as_mut|as_ptr|as_ref|write|read|drop_in_place|offset|add|cast)\s*\(", src):
        if m.group(1) in ("as_ref", "add", "cast", "read", "write", "offset"):
            # only when applied to something that can be a node pointer: flagged by the deref / field rules
            continue
        out.append(("method:" + m.group(1), m.start()))
    for m in re.finditer(r"\b(swap_value|drop_in_place|forget)\s*\(", src):
        out.append(("fn:" + m.group(1), m.start()))
    return out


def line_of(src, pos):
    return src.count("\n", 0, pos) + 1


def main():
    raw = open(os.path.join(REPO, "src/lru/raw.rs")).read()
    crate = crate_fns(strip(raw))
    report = {"crate_fns": crate, "files": {}, "outside": [], "unpaired": []}
    ok = True
    for f in FILES:
        src = strip(open(os.path.join(REPO, f)).read())
        acc = accesses(src, crate)
        counts = {}
        for a, pos in acc:
            counts[a] = counts.get(a, 0) + 1
            if a not in ALPHABET:
                ok = False
                report["outside"].append({"file": f, "access": a, "line": line_of(src, pos)})
        # map.remove / detach come in pairs, the removal first
        rem = sorted(pos for a, pos in acc if a == "map:remove")
        det = sorted(pos for a, pos in acc if a == "call:detach")
        if len(rem) != len(det) or any(r > d for r, d in zip(rem, det)):
            ok = False
            report["unpaired"].append({"file": f, "access": "map.remove / detach not paired",
                                       "lines": [[line_of(src, r) for r in rem], [line_of(src, d) for d in det]]})
        report["files"][f] = {k: [counts[k], ALPHABET.get(k, "OUTSIDE")] for k in sorted(counts)}
    # swap_value itself
    lru = strip(open(os.path.join(REPO, "src/lru.rs")).read())
    m = re.search(r"unsafe fn swap_value[^{]*\{(.*?)\n\}", lru, flags=re.S)
    body = re.sub(r"\s+", " ", m.group(1)).strip() if m else None
    report["swap_value"] = body
    if body != "mem::swap(v, &mut (*ent.val.as_mut_ptr()) as &mut V);":
        ok = False
        report["outside"].append({"file": "src/lru.rs", "access": "swap_value body changed", "line": 0})
    report["ok"] = ok
    json.dump(report, sys.stdout, indent=1)
    print()
    return 0 if ok else 1


if __name__ == "__main__":
    sys.exit(main())
