#!/usr/bin/env python3
"""Regenerates /verif/MANIFEST.json from the table below (kept next to the check configuration)."""
import json, sys
sys.path.insert(0, "/verif/tools")
from propcfg import PROPS

ALL = [f"C{n:02d}" for n in range(1, 21)]

TEXT = {
 "C01": ("Coq theorems over executable models of all five caches: for every accepted configuration and every history the "
         "run returns Ok (no panic) and the reached state satisfies the capacity / partition bounds, holds each key in at most "
         "one partition, len() counts the distinct resident keys and is_empty() is true exactly when nothing is retained "
         "(invariants proved by induction over the history). For RawLRU on the pointer-level heap with calls into user code "
         "as ticks (layer F, props/C01F.v): len <= cap also holds in the state every panic of a callback / Hash / Eq / destructor "
         "leaves, hence in every state reachable through operations, such panics and resizes that finish. Models tied to /repo by "
         "differential execution on every run (incl. RawLRU histories with one injected panic each).",
         "DESIGN.md §5 C01"),
 "C06": ("Coq theorems over an executable model of RawLRU: for every capacity and every history over the whole API the list is "
         "sorted by time of last use (invariant by induction over the history); eviction / peek_lru / remove_lru / get_lru take "
         "the oldest entry, peek_mru / get_mru the newest, resize discards exactly the len-n oldest; the order does not look at the "
         "values (props/C06Z.v: the key projection of the model is a simulation of an LRU set over keys alone), so a cache over a "
         "zero-sized value type is replayed in the same model. The model is tied to /repo "
         "by differential execution (exhaustive closure of small capacities + random histories) on every run.",
         "DESIGN.md §5 C06"),
}

NOTE = ("Trusted: Coq 8.16.1 kernel, ExtrOcamlBasic extraction, the OCaml driver, the Rust harness and the verif-hooks accessors; "
        "the model is hand-written and tied to the code only by the correspondence run. Axioms: {ax}.")


def main():
    old = json.load(open("/verif/MANIFEST.json"))
    checks = []
    for pid in ALL:
        if pid not in PROPS or not PROPS[pid].get("claimed", True):
            continue
        cfg = PROPS[pid]
        text, ref = TEXT.get(pid, (cfg.get("level_text", ""), f"DESIGN.md §5 {pid}"))
        if cfg.get("partial"):
            text += " PARTIAL: " + cfg["partial"]
        checks.append({
            "property_id": pid,
            "quick_cmd": f"bin/vcheck {pid} --tier quick",
            "thorough_cmd": f"bin/vcheck {pid} --tier thorough",
            "evidence_file": f"/verif/evidence/{pid}.json",
            "replay_cmd_template": f"bin/vcheck {pid} --replay {{path}}",
            "engine": "coq-model",
            "level_claimed": {"category": "proof", "text": text, "design_ref": ref},
            "level_note": NOTE.format(ax=", ".join(cfg.get("axioms_allowed", [])) or "none"),
            "technique": cfg.get("technique", "Coq proof (invariant / induction over histories) + model-vs-implementation correspondence check"),
        })
    claimed = [c["property_id"] for c in checks]
    na = []
    for pid in ALL:
        if pid not in claimed:
            reason = (PROPS.get(pid, {}).get("na_reason")
                      or "check under construction in this round (DESIGN.md §8 milestones); not claimed yet")
            na.append({"property_id": pid, "reason": reason})
    old["checks"] = checks
    old["not_applicable"] = na
    for e in old.get("engines", []):
        e["serves_properties"] = claimed
    json.dump(old, open("/verif/MANIFEST.json", "w"), indent=1)
    print("claimed:", claimed)


main()
