(** * C15 — the eviction callback fires exactly once per departing entry, never otherwise.
    Statements only.  [departed l l'] (C15Proofs.v) is defined without reference to the step
    function: the entries of the list before the call whose key is no longer in the list after
    the call, least recent first, each with the value it had when the call started (i.e. after
    every earlier write through get_mut / peek_mut / iter_mut). *)
From VF Require Import Base Iter Enc Lru LruStep BaseFacts LruFacts C01Proofs C15Proofs.

(** one call: the callback log of the call is exactly the list of departed entries, in the
    order they leave (for a cache without callback: nothing) *)
Theorem C15_callback_exact : forall s o,
  lru_inv s -> snd (lstep s o) = cbl s (departed (items s) (items (fst (fst (lstep s o))))).
Proof. exact callback_exact. Qed.

(** every reachable state, both constructors taking a callback build [lru_new c true] *)
Theorem C15_reachable : forall (c : nat) (cb : bool) (h : list lop) (o : lop),
  let s := lrun (lru_new c cb) h in
  snd (lstep s o) = cbl s (departed (items s) (items (fst (fst (lstep s o))))).
Proof.
  intros c cb h o s. apply callback_exact. apply lrun_inv. split; cbn; [constructor|lia].
Qed.

(** consequences in the property's words *)
Theorem C15_never_for_staying_entries : forall s o e,
  lru_inv s -> In e (snd (lstep s o)) ->
  In e (items s) /\ ~ In (fst e) (keys (items (fst (fst (lstep s o))))).
Proof. exact cb_only_departed. Qed.

Theorem C15_once_per_departing_entry : forall s o e,
  lru_inv s -> hascb s = true -> In e (items s) ->
  ~ In (fst e) (keys (items (fst (fst (lstep s o))))) ->
  count_occ entry_eq_dec (snd (lstep s o)) e = 1%nat.
Proof. exact cb_exactly_once. Qed.

Theorem C15_no_callback_without_departure : forall s o,
  lru_inv s -> keys (items (fst (fst (lstep s o)))) = keys (items s) -> snd (lstep s o) = [].
Proof. exact cb_none_when_keys_stay. Qed.

Example C15_witness :
  let s := lrun (lru_new 2 true) [LPut 1 10; LPut 2 20; LGetMut 1 (Some 11)] in
  snd (lstep s (LPut 3 30)) = [(2, 20)] /\ snd (lstep s LPurge) = [(2, 20); (1, 11)] /\
  snd (lstep s (LPut 1 12)) = [] /\ snd (lstep s (LResize 1)) = [(2, 20)].
Proof. vm_compute. repeat split; reflexivity. Qed.

Print Assumptions C15_callback_exact.
Print Assumptions C15_reachable.
Print Assumptions C15_never_for_staying_entries.
Print Assumptions C15_once_per_departing_entry.
Print Assumptions C15_no_callback_without_departure.
