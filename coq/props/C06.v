(** * C06 — RawLRU keeps exact recency order; eviction and resize take the true LRU.
    Statements only; every proof is one [exact]. *)
From VF Require Import Base Iter Enc Lru LruStep BaseFacts LruFacts C06Proofs.
From Coq Require Import Sorted.

(** In every reachable state (any capacity, with or without callback, any history over the
    whole RawLRU API) the list has no duplicate key, respects the capacity currently in force,
    and is sorted by strictly decreasing time of last use, where put, get, get_mut, get_lru and
    get_lru_mut are the uses. *)
Theorem C06_recency_order : forall (c : nat) (cb : bool) (h : list lop),
  let '(g, s) := grun g0 (lru_new c cb) h in
  NoDup (keys (items s)) /\ (length (items s) <= cap s)%nat /\
  StronglySorted gt (stamps g (items s)).
Proof.
  intros c cb h. pose proof (c06_reachable c cb h) as H.
  destruct (grun g0 (lru_new c cb) h) as [g s]. destruct H as [[H1 H2] [H3 _]]. auto.
Qed.

(** The entry evicted on overflow is the least recently used one; nothing else changes. *)
Theorem C06_eviction_takes_lru : forall g s k v s' ek ev cb,
  c06_inv g s -> cap s <> 0%nat -> put s k v = (s', PEvicted ek ev, cb) ->
  exists rest, items s = rest ++ [(ek, ev)] /\ items s' = (k, v) :: rest /\
               older_than_all g (ek, ev) rest /\ length (items s) = cap s /\
               ~ In k (keys (items s)).
Proof. exact put_evicts_lru. Qed.

Theorem C06_peek_lru : forall g s e,
  c06_inv g s -> peek_lru s = Some e ->
  exists rest, items s = rest ++ [e] /\ older_than_all g e rest.
Proof. exact peek_lru_is_oldest. Qed.

Theorem C06_remove_lru : forall g s s' e cb,
  c06_inv g s -> remove_lru s = (s', Some e, cb) ->
  items s = items s' ++ [e] /\ older_than_all g e (items s') /\ cap s' = cap s.
Proof. exact remove_lru_is_oldest. Qed.

Theorem C06_get_lru : forall g s s' e,
  c06_inv g s -> get_lru s = (s', Some e) ->
  exists rest, items s = rest ++ [e] /\ older_than_all g e rest /\ items s' = e :: rest.
Proof. exact get_lru_is_oldest. Qed.

Theorem C06_mru : forall g s e,
  c06_inv g s -> peek_mru s = Some e /\ get_mru s = peek_mru s ->
  exists l, items s = e :: l /\ newer_than_all g e l.
Proof. intros g s e H [H1 _]. eapply peek_mru_is_newest; eauto. Qed.

(** resize(n): unchanged capacity is a no-op returning 0; otherwise exactly the
    [len - n] least recent entries go, the rest keep their order, and [n] is the capacity
    from then on. *)
Theorem C06_resize : forall g s n,
  c06_inv g s ->
  let '(s', cnt, cb) := resize s n in
  (n = cap s -> s' = s /\ cnt = 0%nat) /\
  (n <> cap s ->
     cap s' = n /\ items s' = firstn n (items s) /\ cnt = (length (items s) - n)%nat /\
     (forall x y, In x (items s') -> In y (skipn n (items s)) ->
                  (stamp g (fst y) < stamp g (fst x))%nat)).
Proof. exact resize_spec. Qed.

(** peek*, contains, iteration, size queries, get_mru, Debug and clone leave order and
    capacity untouched. *)
Theorem C06_reads_keep_order : forall s o,
  lru_inv s -> is_read_only o = true ->
  keys (items (fst (fst (lstep s o)))) = keys (items s) /\ cap (fst (fst (lstep s o))) = cap s.
Proof. exact reads_keep_order. Qed.

(** the one-step invariant the above are corollaries of *)
Theorem C06_step : forall g s o,
  c06_inv g s -> c06_inv (gstep g (uses s o)) (fst (fst (lstep s o))).
Proof. exact c06_step. Qed.

Print Assumptions C06_recency_order.
Print Assumptions C06_eviction_takes_lru.
Print Assumptions C06_peek_lru.
Print Assumptions C06_remove_lru.
Print Assumptions C06_get_lru.
Print Assumptions C06_mru.
Print Assumptions C06_resize.
Print Assumptions C06_reads_keep_order.
Print Assumptions C06_step.
