(** * C03 — memory safety of the intrusive recency list under every history.  Statements only.

    The heap model (heap/Heap.v) writes every unsafe block of src/lru/raw.rs as the code writes it,
    in an error monad: dereferencing a freed cell, reading an uninitialised key or value, freeing
    twice and [unwrap()] on [None] are errors.  PARTIAL: the theorems cover RawLRU's public
    operations (put with its three paths, get/get_mut, peek, remove, remove_lru, purge, resize,
    Drop) for every history; the composite caches are covered by the structural audit, the
    poisoning allocator and the correspondence of the harness, not by a heap-level theorem. *)
From VF Require Import Base Lru Heap HeapFacts HeapOps HeapRun.
From Coq Require Import List Arith Permutation.
Import ListNotations.

(** pointer surgery: unlinking any node of a well-formed chain leaves a well-formed chain of the
    other nodes and touches nothing else; linking a detached node at the front likewise *)
Theorem C03_detach : forall h q l1 a e l2,
  chain h q (l1 ++ (a, e) :: l2) ->
  exists h', detach h a = HOk h' /\ chain h' q (l1 ++ l2) /\
             cells h' a = cells h a /\ fresh h' = fresh h /\
             (forall x, x <> hhead q -> x <> htail q -> ~ In x (addrs (l1 ++ l2)) -> cells h' x = cells h x).
Proof. exact detach_chain. Qed.

Theorem C03_attach : forall h q l n k v pa na,
  chain h q l -> ~ In n (hhead q :: htail q :: addrs l) -> (n < fresh h)%nat ->
  cells h n = Node (Some k) (Some v) pa na ->
  exists h', attach h q n = HOk h' /\ chain h' q ((n, (k, v)) :: l) /\ fresh h' = fresh h /\
             (forall x, x <> hhead q -> x <> htail q -> x <> n -> ~ In x (addrs l) -> cells h' x = cells h x).
Proof. exact attach_chain. Qed.

(** one public operation: no memory error, the invariant [R] (a well-formed chain between the two
    sentinels whose nodes are exactly the index entries, each index key stored in its own node,
    everything else free) is kept, result and contents are those of the layer-L model *)
Theorem C03_step : forall h q s o,
  R h q s ->
  exists h' q', hstep h q o = HOk (h', q', snd (lstep s o)) /\ R h' q' (fst (lstep s o)) /\
                hhead q' = hhead q /\ htail q' = htail q /\ (fresh h <= fresh h')%nat.
Proof. exact step_refines. Qed.

Theorem C03_new : forall c cb, R (fst (hnew heap0 c)) (snd (hnew heap0 c)) (lru_new c cb).
Proof. exact new_refines. Qed.

(** node recycling on eviction: the least recently used node itself becomes the most recent one *)
Theorem C03_recycle : forall h q l a ek ev k v,
  wf h q (l ++ [(a, (ek, ev))]) -> Base.find k (entries (l ++ [(a, (ek, ev))])) = None ->
  hcap q <> 0%nat -> length (l ++ [(a, (ek, ev))]) = hcap q ->
  exists h' q', h_put h q k v = HOk (h', q', PEvicted ek ev) /\ wf h' q' ((a, (k, v)) :: l) /\
                hhead q' = hhead q /\ htail q' = htail q /\ hcap q' = hcap q /\ fresh h' = fresh h /\
                (forall x, outside q (l ++ [(a, (ek, ev))]) x -> cells h' x = cells h x).
Proof. exact h_put_recycle. Qed.

(** every history from [new], dropped at an arbitrary point: no error anywhere, outputs of the
    layer-L model, and after the drop every cell is free (no leak; a second free or a read of a
    sentinel's uninitialised key would have been an error) *)
Theorem C03_history : forall c cb os,
  exists h q h',
    hrun (fst (hnew heap0 c)) (snd (hnew heap0 c)) os = HOk (h, q, snd (lrun (lru_new c cb) os)) /\
    R h q (fst (lrun (lru_new c cb) os)) /\
    h_drop h q = HOk h' /\ (forall a, cells h' a = Free).
Proof. exact history_safe. Qed.

Theorem C03_purge_resize_drop :
  (forall h q l, wf h q l ->
     exists h' q', h_purge h q = HOk (h', q') /\ wf h' q' [] /\ (forall a, In a (addrs l) -> cells h' a = Free) /\
                   hhead q' = hhead q /\ htail q' = htail q /\ hcap q' = hcap q /\ fresh h' = fresh h /\
                   (forall x, outside q l x -> cells h' x = cells h x)) /\
  (forall h q l c, wf h q l ->
     exists h' q', h_resize h q c = HOk (h', q') /\
                   wf h' q' (if Nat.eqb c (hcap q) then l else firstn c l) /\
                   (forall a, In a (addrs (if Nat.eqb c (hcap q) then [] else skipn c l)) -> cells h' a = Free) /\
                   hhead q' = hhead q /\ htail q' = htail q /\ hcap q' = c /\ fresh h' = fresh h /\
                   (forall x, outside q l x -> cells h' x = cells h x)) /\
  (forall h q l, wf h q l ->
     exists h', h_drop h q = HOk h' /\
                (forall a, In a (hhead q :: htail q :: addrs l) -> cells h' a = Free) /\
                (forall x, outside q l x -> cells h' x = cells h x)).
Proof. split; [exact h_purge_ok|split; [exact h_resize_ok|exact h_drop_ok]]. Qed.

Print Assumptions C03_detach.
Print Assumptions C03_attach.
Print Assumptions C03_step.
Print Assumptions C03_new.
Print Assumptions C03_recycle.
Print Assumptions C03_history.
Print Assumptions C03_purge_resize_drop.
