(** * C03 — memory safety of the intrusive recency list under every history.  Statements only.

    The heap model (heap/Heap.v) writes every unsafe block of src/lru/raw.rs as the code writes it,
    in an error monad: dereferencing a freed cell, reading an uninitialised key or value, freeing
    twice and [unwrap()] on [None] are errors.  PARTIAL: the theorems cover RawLRU's public
    operations (put with its three paths, get/get_mut, peek, remove, remove_lru, purge, resize,
    Drop) for every history, the separation step for several lists in one heap with nodes in
    flight between them, and SegmentedCache built on it (promotion, demotion, every history, Drop);
    TwoQueueCache, AdaptiveCache and WTinyLFUCache are covered by the structural audit, the
    poisoning allocator and the correspondence of the harness, not by a heap-level theorem. *)
From VF Require Import Base Lru Slru SlruFacts Heap HeapFacts HeapOps HeapRun HeapPrim HeapFrame HeapMulti HeapSlruDef HeapSlru.
From Coq Require Import List Arith Permutation.
Import ListNotations.

(** pointer surgery: unlinking any node of a well-formed chain leaves a well-formed chain of the
    other nodes and touches nothing else; linking a detached node at the front likewise *)
Theorem C03_detach : forall h q l1 a e l2,
  chain h q (l1 ++ (a, e) :: l2) ->
  exists h', detach h a = HOk h' /\ chain h' q (l1 ++ l2) /\
             cells h' a = cells h a /\ fresh h' = fresh h /\
             (forall x, x <> hhead q -> x <> htail q -> ~ In x (addrs (l1 ++ l2)) -> cells h' x = cells h x).
Proof. exact detach_chain. Qed.

Theorem C03_attach : forall h q l n k v pa na,
  chain h q l -> ~ In n (hhead q :: htail q :: addrs l) -> (n < fresh h)%nat ->
  cells h n = Node (Some k) (Some v) pa na ->
  exists h', attach h q n = HOk h' /\ chain h' q ((n, (k, v)) :: l) /\ fresh h' = fresh h /\
             (forall x, x <> hhead q -> x <> htail q -> x <> n -> ~ In x (addrs l) -> cells h' x = cells h x).
Proof. exact attach_chain. Qed.

(** one public operation: no memory error, the invariant [R] (a well-formed chain between the two
    sentinels whose nodes are exactly the index entries, each index key stored in its own node,
    everything else free) is kept, result and contents are those of the layer-L model *)
Theorem C03_step : forall h q s o,
  R h q s ->
  exists h' q', hstep h q o = HOk (h', q', snd (lstep s o)) /\ R h' q' (fst (lstep s o)) /\
                hhead q' = hhead q /\ htail q' = htail q /\ (fresh h <= fresh h')%nat.
Proof. exact step_refines. Qed.

Theorem C03_new : forall c cb, R (fst (hnew heap0 c)) (snd (hnew heap0 c)) (lru_new c cb).
Proof. exact new_refines. Qed.

(** node recycling on eviction: the least recently used node itself becomes the most recent one *)
Theorem C03_recycle : forall h q l a ek ev k v,
  wf h q (l ++ [(a, (ek, ev))]) -> Base.find k (entries (l ++ [(a, (ek, ev))])) = None ->
  hcap q <> 0%nat -> length (l ++ [(a, (ek, ev))]) = hcap q ->
  exists h' q', h_put h q k v = HOk (h', q', PEvicted ek ev) /\ wf h' q' ((a, (k, v)) :: l) /\
                hhead q' = hhead q /\ htail q' = htail q /\ hcap q' = hcap q /\ fresh h' = fresh h /\
                (forall x, outside q (l ++ [(a, (ek, ev))]) x -> cells h' x = cells h x).
Proof. exact h_put_recycle. Qed.

(** every history from [new], dropped at an arbitrary point: no error anywhere, outputs of the
    layer-L model, and after the drop every cell is free (no leak; a second free or a read of a
    sentinel's uninitialised key would have been an error) *)
Theorem C03_history : forall c cb os,
  exists h q h',
    hrun (fst (hnew heap0 c)) (snd (hnew heap0 c)) os = HOk (h, q, snd (lrun (lru_new c cb) os)) /\
    R h q (fst (lrun (lru_new c cb) os)) /\
    h_drop h q = HOk h' /\ (forall a, cells h' a = Free).
Proof. exact history_safe. Qed.

Theorem C03_purge_resize_drop :
  (forall h q l, wf h q l ->
     exists h' q', h_purge h q = HOk (h', q') /\ wf h' q' [] /\ (forall a, In a (addrs l) -> cells h' a = Free) /\
                   hhead q' = hhead q /\ htail q' = htail q /\ hcap q' = hcap q /\ fresh h' = fresh h /\
                   (forall x, outside q l x -> cells h' x = cells h x)) /\
  (forall h q l c, wf h q l ->
     exists h' q', h_resize h q c = HOk (h', q') /\
                   wf h' q' (if Nat.eqb c (hcap q) then l else firstn c l) /\
                   (forall a, In a (addrs (if Nat.eqb c (hcap q) then [] else skipn c l)) -> cells h' a = Free) /\
                   hhead q' = hhead q /\ htail q' = htail q /\ hcap q' = c /\ fresh h' = fresh h /\
                   (forall x, outside q l x -> cells h' x = cells h x)) /\
  (forall h q l, wf h q l ->
     exists h', h_drop h q = HOk h' /\
                (forall a, In a (hhead q :: htail q :: addrs l) -> cells h' a = Free) /\
                (forall x, outside q l x -> cells h' x = cells h x)).
Proof. split; [exact h_purge_ok|split; [exact h_resize_ok|exact h_drop_ok]]. Qed.

(** every public operation with its footprint: the list gains only freshly allocated addresses, the
    addresses it loses are freed, no cell outside the list is touched *)
Theorem C03_step_frame : forall h q s l o,
  wf h q l -> entries l = items s -> hcap q = cap s ->
  exists h' q' l', hstep h q o = HOk (h', q', snd (lstep s o)) /\ framed h q l h' q' l' /\
                   entries l' = items (fst (lstep s o)) /\ hcap q' = cap (fst (lstep s o)).
Proof. exact step_frame. Qed.

(** separation: several lists in one heap, nodes in flight between them ([fam]: every list well formed,
    footprints and in-flight nodes pairwise disjoint, every other cell free); an operation that stays
    inside one list and the in-flight nodes keeps the family *)
Theorem C03_fam_step : forall h F1 q l F2 fl s o,
  fam h (F1 ++ (q, l) :: F2) fl -> entries l = items s -> hcap q = cap s ->
  exists h' q' l', hstep h q o = HOk (h', q', snd (lstep s o)) /\ fam h' (F1 ++ (q', l') :: F2) fl /\
                   entries l' = items (fst (lstep s o)) /\ hcap q' = cap (fst (lstep s o)) /\
                   hhead q' = hhead q /\ htail q' = htail q /\ (fresh h <= fresh h')%nat.
Proof. exact fam_step. Qed.

(** a node leaves a list without being freed ... *)
Theorem C03_remove_ent : forall h F1 q l1 a k v l2 F2 fl,
  fam h (F1 ++ (q, l1 ++ (a, (k, v)) :: l2) :: F2) fl ->
  exists h' q', h_remove_ent h q k = HOk (h', q', Some a) /\
                fam h' (F1 ++ (q', l1 ++ l2) :: F2) ((a, (k, v)) :: fl) /\
                hhead q' = hhead q /\ htail q' = htail q /\ hcap q' = hcap q /\ fresh h' = fresh h.
Proof. exact fam_remove_ent_hit. Qed.

(** ... and enters another one, pushing that list's least recently used node out when it is full *)
Theorem C03_put_or_evict : forall h F1 q l a ek ev F2 fl1 n k v fl2,
  fam h (F1 ++ (q, l ++ [(a, (ek, ev))]) :: F2) (fl1 ++ (n, (k, v)) :: fl2) ->
  Base.find k (entries (l ++ [(a, (ek, ev))])) = None -> (hcap q <= length (l ++ [(a, (ek, ev))]))%nat ->
  exists h' q', h_put_or_evict_nonnull h q n = HOk (h', q', Some a) /\
                fam h' (F1 ++ (q', (n, (k, v)) :: l) :: F2) ((a, (ek, ev)) :: fl1 ++ fl2) /\
                hhead q' = hhead q /\ htail q' = htail q /\ hcap q' = hcap q /\ fresh h' = fresh h.
Proof. exact fam_put_or_evict_full. Qed.

(** SegmentedCache on the heap: every operation refines Slru.v and keeps the two-list family *)
Theorem C03_slru_step : forall h s ls o,
  RS h s ls -> slru_inv ls ->
  exists h' s' ls' r, hs_step h s o = HOk (h', s', r) /\ ls_step ls o = Ok (ls', r) /\ RS h' s' ls' /\ slru_inv ls'.
Proof. exact slru_step_refines. Qed.

Theorem C03_slru_history : forall pc fc os,
  (1 <= pc)%nat -> (1 <= fc)%nat ->
  exists h s ls outs h',
    hs_run (fst (hs_new heap0 pc fc)) (snd (hs_new heap0 pc fc)) os = HOk (h, s, outs) /\
    ls_run (slru_new pc fc) os = Ok (ls, outs) /\ RS h s ls /\
    hs_drop h s = HOk h' /\ (forall a, cells h' a = Free).
Proof. exact slru_history_safe. Qed.

Print Assumptions C03_detach.
Print Assumptions C03_attach.
Print Assumptions C03_step.
Print Assumptions C03_new.
Print Assumptions C03_recycle.
Print Assumptions C03_history.
Print Assumptions C03_purge_resize_drop.
Print Assumptions C03_step_frame.
Print Assumptions C03_fam_step.
Print Assumptions C03_remove_ent.
Print Assumptions C03_put_or_evict.
Print Assumptions C03_slru_step.
Print Assumptions C03_slru_history.
