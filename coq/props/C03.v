(** * C03 — memory safety of the intrusive recency list under every history.  Statements only.

    The heap model (heap/Heap.v) writes every unsafe block of src/lru/raw.rs as the code writes it,
    in an error monad: dereferencing a freed cell, reading an uninitialised key or value, freeing
    twice and [unwrap()] on [None] are errors.  PARTIAL: the theorems cover RawLRU's public
    operations (put with its three paths, get/get_mut, peek, remove, remove_lru, purge, resize,
    Drop) for every history, the separation step for several lists in one heap with nodes in
    flight between them, and on top of it all four composite caches written over the heap-level
    primitives as their Rust sources are written over RawLRU (SegmentedCache, TwoQueueCache,
    AdaptiveCache, WTinyLFUCache: every operation of the Cache trait, every history, Drop), and the
    iterators.  Not in the heap model: Clone, the per-segment accessors of the composite caches
    (peek_lru_from_*, remove_lru_from_*, ...), resize of inner lists. *)
From VF Require Import Base Iter Lru Slru TwoQ Arc Tiny WTiny SlruFacts TwoQFacts ArcFacts WTinyFacts
  Heap HeapFacts HeapOps HeapRun HeapPrim HeapFrame HeapMulti HeapSlruDef HeapSlru
  HeapTwoQDef HeapTwoQ HeapArcDef HeapArc HeapWTinyDef HeapWTiny HeapIterDef HeapIter HeapClone.
From Coq Require Import List Arith Permutation.
Import ListNotations.

(** pointer surgery: unlinking any node of a well-formed chain leaves a well-formed chain of the
    other nodes and touches nothing else; linking a detached node at the front likewise *)
Theorem C03_detach : forall h q l1 a e l2,
  chain h q (l1 ++ (a, e) :: l2) ->
  exists h', detach h a = HOk h' /\ chain h' q (l1 ++ l2) /\
             cells h' a = cells h a /\ fresh h' = fresh h /\
             (forall x, x <> hhead q -> x <> htail q -> ~ In x (addrs (l1 ++ l2)) -> cells h' x = cells h x).
Proof. exact detach_chain. Qed.

Theorem C03_attach : forall h q l n k v pa na,
  chain h q l -> ~ In n (hhead q :: htail q :: addrs l) -> (n < fresh h)%nat ->
  cells h n = Node (Some k) (Some v) pa na ->
  exists h', attach h q n = HOk h' /\ chain h' q ((n, (k, v)) :: l) /\ fresh h' = fresh h /\
             (forall x, x <> hhead q -> x <> htail q -> x <> n -> ~ In x (addrs l) -> cells h' x = cells h x).
Proof. exact attach_chain. Qed.

(** one public operation: no memory error, the invariant [R] (a well-formed chain between the two
    sentinels whose nodes are exactly the index entries, each index key stored in its own node,
    everything else free) is kept, result and contents are those of the layer-L model *)
Theorem C03_step : forall h q s o,
  R h q s ->
  exists h' q', hstep h q o = HOk (h', q', snd (lstep s o)) /\ R h' q' (fst (lstep s o)) /\
                hhead q' = hhead q /\ htail q' = htail q /\ (fresh h <= fresh h')%nat.
Proof. exact step_refines. Qed.

Theorem C03_new : forall c cb, R (fst (hnew heap0 c)) (snd (hnew heap0 c)) (lru_new c cb).
Proof. exact new_refines. Qed.

(** node recycling on eviction: the least recently used node itself becomes the most recent one *)
Theorem C03_recycle : forall h q l a ek ev k v,
  wf h q (l ++ [(a, (ek, ev))]) -> Base.find k (entries (l ++ [(a, (ek, ev))])) = None ->
  hcap q <> 0%nat -> length (l ++ [(a, (ek, ev))]) = hcap q ->
  exists h' q', h_put h q k v = HOk (h', q', PEvicted ek ev) /\ wf h' q' ((a, (k, v)) :: l) /\
                hhead q' = hhead q /\ htail q' = htail q /\ hcap q' = hcap q /\ fresh h' = fresh h /\
                (forall x, outside q (l ++ [(a, (ek, ev))]) x -> cells h' x = cells h x).
Proof. exact h_put_recycle. Qed.

(** every history from [new], dropped at an arbitrary point: no error anywhere, outputs of the
    layer-L model, and after the drop every cell is free (no leak; a second free or a read of a
    sentinel's uninitialised key would have been an error) *)
Theorem C03_history : forall c cb os,
  exists h q h',
    hrun (fst (hnew heap0 c)) (snd (hnew heap0 c)) os = HOk (h, q, snd (lrun (lru_new c cb) os)) /\
    R h q (fst (lrun (lru_new c cb) os)) /\
    h_drop h q = HOk h' /\ (forall a, cells h' a = Free).
Proof. exact history_safe. Qed.

Theorem C03_purge_resize_drop :
  (forall h q l, wf h q l ->
     exists h' q', h_purge h q = HOk (h', q') /\ wf h' q' [] /\ (forall a, In a (addrs l) -> cells h' a = Free) /\
                   hhead q' = hhead q /\ htail q' = htail q /\ hcap q' = hcap q /\ fresh h' = fresh h /\
                   (forall x, outside q l x -> cells h' x = cells h x)) /\
  (forall h q l c, wf h q l ->
     exists h' q', h_resize h q c = HOk (h', q') /\
                   wf h' q' (if Nat.eqb c (hcap q) then l else firstn c l) /\
                   (forall a, In a (addrs (if Nat.eqb c (hcap q) then [] else skipn c l)) -> cells h' a = Free) /\
                   hhead q' = hhead q /\ htail q' = htail q /\ hcap q' = c /\ fresh h' = fresh h /\
                   (forall x, outside q l x -> cells h' x = cells h x)) /\
  (forall h q l, wf h q l ->
     exists h', h_drop h q = HOk h' /\
                (forall a, In a (hhead q :: htail q :: addrs l) -> cells h' a = Free) /\
                (forall x, outside q l x -> cells h' x = cells h x)).
Proof. split; [exact h_purge_ok|split; [exact h_resize_ok|exact h_drop_ok]]. Qed.

(** every public operation with its footprint: the list gains only freshly allocated addresses, the
    addresses it loses are freed, no cell outside the list is touched *)
Theorem C03_step_frame : forall h q s l o,
  wf h q l -> entries l = items s -> hcap q = cap s ->
  exists h' q' l', hstep h q o = HOk (h', q', snd (lstep s o)) /\ framed h q l h' q' l' /\
                   entries l' = items (fst (lstep s o)) /\ hcap q' = cap (fst (lstep s o)).
Proof. exact step_frame. Qed.

(** separation: several lists in one heap, nodes in flight between them ([fam]: every list well formed,
    footprints and in-flight nodes pairwise disjoint, every other cell free); an operation that stays
    inside one list and the in-flight nodes keeps the family *)
Theorem C03_fam_step : forall h F1 q l F2 fl s o,
  fam h (F1 ++ (q, l) :: F2) fl -> entries l = items s -> hcap q = cap s ->
  exists h' q' l', hstep h q o = HOk (h', q', snd (lstep s o)) /\ fam h' (F1 ++ (q', l') :: F2) fl /\
                   entries l' = items (fst (lstep s o)) /\ hcap q' = cap (fst (lstep s o)) /\
                   hhead q' = hhead q /\ htail q' = htail q /\ (fresh h <= fresh h')%nat.
Proof. exact fam_step. Qed.

(** a node leaves a list without being freed ... *)
Theorem C03_remove_ent : forall h F1 q l1 a k v l2 F2 fl,
  fam h (F1 ++ (q, l1 ++ (a, (k, v)) :: l2) :: F2) fl ->
  exists h' q', h_remove_ent h q k = HOk (h', q', Some a) /\
                fam h' (F1 ++ (q', l1 ++ l2) :: F2) ((a, (k, v)) :: fl) /\
                hhead q' = hhead q /\ htail q' = htail q /\ hcap q' = hcap q /\ fresh h' = fresh h.
Proof. exact fam_remove_ent_hit. Qed.

(** ... and enters another one, pushing that list's least recently used node out when it is full *)
Theorem C03_put_or_evict : forall h F1 q l a ek ev F2 fl1 n k v fl2,
  fam h (F1 ++ (q, l ++ [(a, (ek, ev))]) :: F2) (fl1 ++ (n, (k, v)) :: fl2) ->
  Base.find k (entries (l ++ [(a, (ek, ev))])) = None -> (hcap q <= length (l ++ [(a, (ek, ev))]))%nat ->
  exists h' q', h_put_or_evict_nonnull h q n = HOk (h', q', Some a) /\
                fam h' (F1 ++ (q', (n, (k, v)) :: l) :: F2) ((a, (ek, ev)) :: fl1 ++ fl2) /\
                hhead q' = hhead q /\ htail q' = htail q /\ hcap q' = hcap q /\ fresh h' = fresh h.
Proof. exact fam_put_or_evict_full. Qed.

(** SegmentedCache on the heap: every operation refines Slru.v and keeps the two-list family *)
Theorem C03_slru_step : forall Fx h s ls o,
  RS Fx h s ls -> slru_inv ls ->
  exists h' s' ls' r, hs_step h s o = HOk (h', s', r) /\ ls_step ls o = Ok (ls', r) /\ RS Fx h' s' ls' /\ slru_inv ls'.
Proof. exact slru_step_refines. Qed.

Theorem C03_slru_history : forall pc fc os,
  (1 <= pc)%nat -> (1 <= fc)%nat ->
  exists h s ls outs h',
    hs_run (fst (hs_new heap0 pc fc)) (snd (hs_new heap0 pc fc)) os = HOk (h, s, outs) /\
    ls_run (slru_new pc fc) os = Ok (ls, outs) /\ RS [] h s ls /\
    hs_drop h s = HOk h' /\ (forall a, cells h' a = Free).
Proof. exact slru_history_safe. Qed.

(** TwoQueueCache on the heap (three lists; ghost hits revive the ghost node, the node the ghost list
    pushes out is unboxed exactly once); the operations include the iterators over each of the three lists
    ([qop_ok]: a mutable iterator has no clone phase) *)
Theorem C03_twoq_step : forall h s ls o,
  RQ h s ls -> twoq_inv ls -> qop_ok o ->
  exists h' s' ls' r, ht_step h s o = HOk (h', s', r) /\ lq_step ls o = Ok (ls', r) /\ RQ h' s' ls' /\ twoq_inv ls'.
Proof. exact twoq_step_refines. Qed.

Theorem C03_twoq_history : forall size rs es os,
  (1 <= size)%nat -> (1 <= es)%nat -> Forall qop_ok os ->
  exists h s ls outs h',
    ht_run (fst (ht_new heap0 size rs es)) (snd (ht_new heap0 size rs es)) os = HOk (h, s, outs) /\
    lq_run (twoq_new size rs es) os = Ok (ls, outs) /\ RQ h s ls /\
    ht_drop h s = HOk h' /\ (forall a, cells h' a = Free).
Proof. exact twoq_history_safe. Qed.

(** AdaptiveCache on the heap (four lists, the iterators over each of them included) *)
Theorem C03_arc_step : forall h s ls o,
  RA h s ls [] -> arc_inv ls -> aop_ok o ->
  exists h' s' ls' r, ha_step h s o = HOk (h', s', r) /\ la_step ls o = Ok (ls', r) /\ RA h' s' ls' [] /\ arc_inv ls'.
Proof. exact arc_step_refines. Qed.

Theorem C03_arc_history : forall size os,
  (1 <= size)%nat -> Forall aop_ok os ->
  exists h s ls outs h',
    ha_run (fst (ha_new heap0 size)) (snd (ha_new heap0 size)) os = HOk (h, s, outs) /\
    la_run (arc_new size) os = Ok (ls, outs) /\ RA h s ls [] /\
    ha_drop h s = HOk h' /\ (forall a, cells h' a = Free).
Proof. exact arc_history_safe. Qed.

(** WTinyLFUCache on the heap (window list + segmented cache in one heap; the estimator is plain data) *)
Theorem C03_wtiny_step : forall h s ls o,
  RW h s ls -> wt_inv ls ->
  exists h' s' ls' r, hw_step h s o = HOk (h', s', r) /\ lw_step ls o = Ok (ls', r) /\ RW h' s' ls' /\ wt_inv ls'.
Proof. exact (wtiny_step_refines []). Qed.

Theorem C03_wtiny_history : forall t kh wc pc fc os,
  wt_inv (mkWTiny t (lru_new wc false) (slru_new pc fc) kh) ->
  exists h s ls outs h',
    hw_run (fst (hw_new heap0 t kh wc pc fc)) (snd (hw_new heap0 t kh wc pc fc)) os = HOk (h, s, outs) /\
    lw_run (mkWTiny t (lru_new wc false) (slru_new pc fc) kh) os = Ok (ls, outs) /\ RW h s ls /\
    hw_drop h s = HOk h' /\ (forall a, cells h' a = Free).
Proof. exact wtiny_history_safe. Qed.

(** the iterators: every dereference of any script of next / next_back calls (and writes through the
    references of a mutable iterator) hits a linked node, the nodes handed out are pairwise distinct, the
    items are those of the layer-L iterator *)
Theorem C03_iter : forall h q l lru_order rs,
  wf h q l ->
  exists it h' it' ads l',
    h_iter h q = HOk it /\
    h_it_run h it lru_order rs = HOk (h', it', fst (fst (it_run lru_order rs (entries l))), ads) /\
    wf h' q l' /\ addrs l' = addrs l /\ NoDup ads /\ (forall a, In a ads -> In a (addrs l)) /\
    fresh h' = fresh h /\ (forall x, ~ In x (addrs l) -> cells h' x = cells h x) /\
    entries l' = apply_writes (snd (it_run lru_order rs (entries l))) (entries l).
Proof. exact h_iter_safe. Qed.

(** ... and over one list of a composite cache (2Q, ARC, the segments of an SLRU): the other lists and the
    nodes in flight are untouched, the family stays separated *)
Theorem C03_family_iter : forall h F1 q l F2 fl lru_order rs,
  fam h (F1 ++ (q, l) :: F2) fl ->
  exists it h' it' ads l',
    h_iter h q = HOk it /\
    h_it_run h it lru_order rs = HOk (h', it', fst (fst (it_run lru_order rs (entries l))), ads) /\
    fam h' (F1 ++ (q, l') :: F2) fl /\ addrs l' = addrs l /\ NoDup ads /\ (forall a, In a ads -> In a (addrs l)) /\
    entries l' = apply_writes (snd (it_run lru_order rs (entries l))) (entries l) /\
    (forall x, ~ In x (addrs l) -> cells h' x = cells h x).
Proof. exact fam_iter. Qed.

(** [Clone]: the clone of a list lives in the same heap on freshly allocated nodes (two new sentinels, one new
    node per entry), the original and every other list of the family are untouched, the entries are equal *)
Theorem C03_family_clone : forall h F q l,
  fam h F [] -> In (q, l) F -> (length l <= hcap q)%nat ->
  exists h' q' l', h_clone h q = HOk (h', q') /\
    fam h' ((q', l') :: F) [] /\ entries l' = entries l /\ hcap q' = hcap q /\
    hhead q' = fresh h /\ htail q' = S (fresh h) /\ (fresh h <= fresh h')%nat.
Proof. exact h_clone_in. Qed.

(** [x = x.clone()] refines the identity of layer L: once the original is dropped the clone alone owns the heap *)
Theorem C03_clone : forall h q s,
  R h q s -> (length (items s) <= cap s)%nat ->
  exists h' q', h_clone_replace h q = HOk (h', q') /\ R h' q' s /\ hhead q' = fresh h /\ htail q' = S (fresh h).
Proof. exact clone_refines. Qed.

(** the whole iterator script of the harness (fresh iterator, clone of the iterator, both continue) on one list
    of a family: the yields of the layer-L machine, exactly its writes, nothing else touched *)
Theorem C03_iter_script : forall h F1 q l F2 fl kd pre pa pb,
  fam h (F1 ++ (q, l) :: F2) fl -> (ik_mut kd = true -> pb = []) ->
  exists h' l',
    h_iter_script h q kd pre pa pb = HOk (h', fst (iter_script kd pre pa pb (entries l))) /\
    fam h' (F1 ++ (q, l') :: F2) fl /\ entries l' = snd (iter_script kd pre pa pb (entries l)) /\
    addrs l' = addrs l /\ (forall x, ~ In x (addrs l) -> cells h' x = cells h x).
Proof. exact fam_iter_script. Qed.

(** every history of public calls, iterator scripts and clones of a RawLRU, then the final drop *)
Theorem C03_clone_history : forall c cb os,
  Forall hcop_ok os ->
  exists h q h',
    hcrun (fst (hnew heap0 c)) (snd (hnew heap0 c)) os = HOk (h, q, snd (lcrun (lru_new c cb) os)) /\
    R h q (fst (lcrun (lru_new c cb) os)) /\
    h_drop h q = HOk h' /\ (forall a, cells h' a = Free).
Proof. exact clone_history_safe. Qed.

(** the conversions ([FromIterator], [Extend], the [From] impls): [new(max 1 n)] and one [put] per pair, on the heap:
    no memory error, the result is the list model's [from_iter], and the drop frees everything *)
Theorem C03_from_iter : forall l,
  exists h q h',
    hrun (fst (hnew heap0 (Nat.max 1 (length l)))) (snd (hnew heap0 (Nat.max 1 (length l)))) (puts_of l)
      = HOk (h, q, snd (HeapRun.lrun (lru_new (Nat.max 1 (length l)) false) (puts_of l))) /\
    R h q (from_iter l) /\ h_drop h q = HOk h' /\ (forall a, cells h' a = Free).
Proof. exact from_iter_heap. Qed.

Print Assumptions C03_detach.
Print Assumptions C03_attach.
Print Assumptions C03_step.
Print Assumptions C03_new.
Print Assumptions C03_recycle.
Print Assumptions C03_history.
Print Assumptions C03_purge_resize_drop.
Print Assumptions C03_step_frame.
Print Assumptions C03_fam_step.
Print Assumptions C03_remove_ent.
Print Assumptions C03_put_or_evict.
Print Assumptions C03_slru_step.
Print Assumptions C03_slru_history.
Print Assumptions C03_twoq_step.
Print Assumptions C03_twoq_history.
Print Assumptions C03_arc_step.
Print Assumptions C03_arc_history.
Print Assumptions C03_wtiny_step.
Print Assumptions C03_wtiny_history.
Print Assumptions C03_iter.
Print Assumptions C03_family_iter.
Print Assumptions C03_family_clone.
Print Assumptions C03_clone.
Print Assumptions C03_clone_history.
Print Assumptions C03_iter_script.
Print Assumptions C03_from_iter.
