(** * C16 — a clone is observationally identical to the original.  Statements only.
    The model states are values: equal states give equal results for every later operation
    sequence, and operations on one value cannot affect another.  That the *implementation's*
    clone shares nothing with the original is carried by the correspondence run (clone, drop the
    original or keep it and compare, continue) — see DESIGN.md §5 C16. *)
From VF Require Import Base Iter Enc Lru LruStep Slru CacheStep Tiny WTiny TinyStep
  BaseFacts LruFacts Counts SlruFacts TinyFacts WTinyFacts Run C01Proofs.

(** RawLRU: re-inserting the entries from least to most recent into an empty list of the same
    capacity rebuilds exactly the same list — for every reachable state *)
Theorem C16_lru_clone_identical : forall (c : nat) (cb : bool) (ops : list lop),
  let s := lrun (lru_new c cb) ops in clone s = s.
Proof. intros. apply clone_id. apply lrun_inv. split; cbn; [constructor|lia]. Qed.

Theorem C16_lru_same_future : forall s (ops : list lop),
  lru_inv s -> lrun (clone s) ops = lrun s ops.
Proof. intros s ops H. now rewrite clone_id. Qed.

Theorem C16_slru_clone_identical : forall s, slru_inv s -> sclone s = s.
Proof.
  intros s (Hc1 & Hc2 & Hl1 & Hl2 & Hd). unfold sclone.
  rewrite !clone_seg; auto; try (intros x; pose proof (Hd x); lia). now destruct s.
Qed.

Theorem C16_wtiny_clone_identical : forall s, wt_inv s -> wclone s = s.
Proof. exact wclone_id. Qed.

(** TinyLFU: Clone copies every field; in the model the clone *is* the state *)
Theorem C16_tiny_clone_identical : forall t, tstep t [91] = Some (t, []).
Proof. reflexivity. Qed.

Print Assumptions C16_lru_clone_identical.
Print Assumptions C16_lru_same_future.
Print Assumptions C16_slru_clone_identical.
Print Assumptions C16_wtiny_clone_identical.
Print Assumptions C16_tiny_clone_identical.
