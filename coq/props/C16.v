(** * C16 — a clone is observationally identical to the original.  Statements only.
    The layer-L model states are values: equal states give equal results for every later operation
    sequence, and operations on one value cannot affect another.  That a clone shares nothing with
    the original is proved at the pointer level (layer H: clone and original are two lists of one
    heap) for RawLRU and SegmentedCache, and carried for all four types by the correspondence run
    (clone, compare every accessor and the estimator key by key, drop the original, continue). *)
From Coq Require Import List.
Import ListNotations.
From VF Require Import Base Iter Enc Lru LruStep Slru CacheStep Tiny WTiny TinyStep
  BaseFacts LruFacts Counts SlruFacts TinyFacts WTinyFacts Run C01Proofs
  Heap HeapIterDef HeapOps HeapRun HeapMulti HeapClone HeapSlruDef HeapSlru HeapWTinyDef HeapWTiny.

(** RawLRU: re-inserting the entries from least to most recent into an empty list of the same
    capacity rebuilds exactly the same list — for every reachable state *)
Theorem C16_lru_clone_identical : forall (c : nat) (cb : bool) (ops : list lop),
  let s := C01Proofs.lrun (lru_new c cb) ops in clone s = s.
Proof. intros. apply clone_id. apply lrun_inv. split; cbn; [constructor|lia]. Qed.

Theorem C16_lru_same_future : forall s (ops : list lop),
  lru_inv s -> C01Proofs.lrun (clone s) ops = C01Proofs.lrun s ops.
Proof. intros s ops H. now rewrite clone_id. Qed.

Theorem C16_slru_clone_identical : forall s, slru_inv s -> sclone s = s.
Proof.
  intros s (Hc1 & Hc2 & Hl1 & Hl2 & Hd). unfold sclone.
  rewrite !clone_seg; auto; try (intros x; pose proof (Hd x); lia). now destruct s.
Qed.

Theorem C16_wtiny_clone_identical : forall s, wt_inv s -> wclone s = s.
Proof. exact wclone_id. Qed.

(** TinyLFU: Clone copies every field; in the model the clone *is* the state *)
Theorem C16_tiny_clone_identical : forall t, tstep t [91] = Some (t, []).
Proof. reflexivity. Qed.

(** ** independence, at the pointer level: the clone of a RawLRU is built in the same heap as the original
    ([h_clone]); then any history on the clone returns what the original would have returned, any history on the
    original afterwards returns what it would have returned had no clone existed, and after the clone is dropped the
    original alone owns the heap *)
Theorem C16_heap_clone_independent : forall h q s os1 os2,
  R h q s -> (length (items s) <= cap s)%nat ->
  exists h1 q1, h_clone h q = HOk (h1, q1) /\
  exists h2 q1', hrun h1 q1 os1 = HOk (h2, q1', snd (HeapRun.lrun s os1)) /\
  exists h3 q', hrun h2 q os2 = HOk (h3, q', snd (HeapRun.lrun s os2)) /\
  exists h4, h_drop h3 q1' = HOk h4 /\ R h4 q' (fst (HeapRun.lrun s os2)).
Proof. exact clone_independent. Qed.

(** SegmentedCache: after any history on the clone the original is the same abstract cache on the same nodes, next
    to the clone's two lists *)
Theorem C16_heap_slru_clone_independent : forall Fx h s ls os,
  RS Fx h s ls -> slru_inv ls ->
  exists h1 s1, hs_clone h s = HOk (h1, s1) /\
  exists h2 s1' ls1 outs, hs_run h1 s1 os = HOk (h2, s1', outs) /\ ls_run ls os = Ok (ls1, outs) /\
  exists la' lb', RS ((hprob s1', la') :: (hprot s1', lb') :: Fx) h2 s ls.
Proof. exact slru_clone_independent. Qed.

(** WTinyLFUCache: the same, for its three lists *)
Theorem C16_heap_wtiny_clone_independent : forall Fx h s ls os,
  RWx Fx h s ls -> wt_inv ls ->
  exists h1 s1, hw_clone h s = HOk (h1, s1) /\
  exists h2 s1' ls1 outs, hw_run h1 s1 os = HOk (h2, s1', outs) /\ lw_run ls os = Ok (ls1, outs) /\
  exists la' lb' lw', RWx ((hprob (hw_slru s1'), la') :: (hprot (hw_slru s1'), lb') :: (hw_lru s1', lw') :: Fx) h2 s ls.
Proof. exact wtiny_clone_independent. Qed.

Print Assumptions C16_lru_clone_identical.
Print Assumptions C16_lru_same_future.
Print Assumptions C16_slru_clone_identical.
Print Assumptions C16_wtiny_clone_identical.
Print Assumptions C16_tiny_clone_identical.
Print Assumptions C16_heap_clone_independent.
Print Assumptions C16_heap_slru_clone_independent.
Print Assumptions C16_heap_wtiny_clone_independent.
