(** * C12 — PutResult tells the truth about what a put did.  Statements only.
    [put_truth R R' k v r] (C12Proofs.v) relates the retained entries (resident and ghost, every
    partition) before and after [put k v] returned [r]; together with the C01 invariant
    (no key twice in [R']) it determines [R'] as a set of (key, value) pairs.  Every theorem is
    stated for an arbitrary state satisfying the type's C01 invariant, i.e. (C01) for every
    reachable state. *)
From VF Require Import Base Iter Enc Lru LruStep Slru TwoQ Arc CacheStep Tiny WTiny TinyStep
  BaseFacts LruFacts Counts PrimFacts Tactics SlruFacts TwoQFacts ArcFacts TinyFacts WTinyFacts
  C07Proofs C08Proofs C09Proofs C10Proofs Run C01Proofs C12Proofs Univ.

(** the meaning of the four results *)
Theorem C12_put_truth_def : forall R R' k v r,
  put_truth R R' k v r =
  match r with
  | PPut => ~ In k (keys R) /\ (forall e, In e R' <-> e = (k, v) \/ In e R)
  | PUpdate old => In (k, old) R /\ (forall e, In e R' <-> e = (k, v) \/ (In e R /\ fst e <> k))
  | PEvicted ek ev =>
    ~ In k (keys R) /\ In (ek, ev) R /\ ek <> k /\
    (forall e, In e R' <-> e = (k, v) \/ (In e R /\ e <> (ek, ev)))
  | PEvictedAndUpdate ek ev old =>
    In (k, old) R /\ In (ek, ev) R /\ ek <> k /\
    (forall e, In e R' <-> e = (k, v) \/ (In e R /\ fst e <> k /\ e <> (ek, ev)))
  end.
Proof. reflexivity. Qed.

Theorem C12_lru : forall s k v,
  lru_inv s -> cap s <> 0%nat ->
  let '(s', r, _) := Lru.put s k v in
  put_truth (items s) (items s') k v r /\ find k (items s') = Some v.
Proof. exact c12_lru. Qed.

(** a cache resized to capacity 0 hands the pair straight back as Evicted and keeps nothing *)
Theorem C12_lru_capacity_zero : forall s k v,
  cap s = 0%nat -> find k (items s) = None -> Lru.put s k v = (s, PEvicted k v, []).
Proof. exact c12_lru_cap0. Qed.

Theorem C12_slru : forall s k v,
  slru_inv s ->
  exists s' r, sput s k v = Ok (s', r) /\ put_truth (retained_s s) (retained_s s') k v r /\
               speek s' k = Some v.
Proof. exact c12_slru. Qed.

Theorem C12_slru_put_protected : forall s k v,
  slru_inv s ->
  put_truth (retained_s s) (retained_s (fst (sput_protected s k v))) k v (snd (sput_protected s k v)) /\
  speek (fst (sput_protected s k v)) k = Some v.
Proof. exact c12_slru_put_protected. Qed.

(** 2Q: ghosts count as retained; a ghost revival is an Update with the ghost's stored value *)
Theorem C12_twoq : forall s k v,
  twoq_inv s ->
  exists s' r, qput s k v = Ok (s', r) /\ put_truth (retained_q s) (retained_q s') k v r /\
               qpeek s' k = Some v.
Proof. exact c12_twoq. Qed.

(** ARC reports only Put / Update, truthfully; it never invents an entry; ghost entries (and the
    entry just ghosted by [replace] when its ghost list is trimmed in the same call) may be
    discarded silently — which ones is stated exactly by C09_replace / C09_new_key *)
Theorem C12_arc : forall s k v,
  arc_inv s ->
  exists s' r, aput s k v = Ok (s', r) /\
    (match r with
     | PPut => ~ In k (keys (retained_a s))
     | PUpdate old => In (k, old) (retained_a s)
     | _ => False
     end) /\
    (forall e, In e (retained_a s') -> e = (k, v) \/ (In e (retained_a s) /\ fst e <> k)) /\
    apeek s' k = Some v.
Proof. exact c12_arc. Qed.

(** W-TinyLFU: the Evicted entry is the rejected candidate or the replaced victim *)
Theorem C12_wtiny : forall s k v,
  wt_inv s ->
  exists s' r, wput s k v = Ok (s', r) /\ put_truth (retained_w s) (retained_w s') k v r /\
               wpeek s' k = Some v.
Proof. exact c12_wtiny. Qed.

Theorem C12_or_put : forall s k v,
  (forall x, find k (items s) = Some x -> peek_or_put s k v = (s, Some x, None, []) /\
                                         contains_or_put s k v = (s, true, None, [])) /\
  (find k (items s) = None ->
   peek_or_put s k v = (let '(s', r, cb) := Lru.put s k v in (s', None, Some r, cb)) /\
   contains_or_put s k v = (let '(s', r, cb) := Lru.put s k v in (s', false, Some r, cb))).
Proof. exact c12_or_put. Qed.

(** PutResult values are structural (the hand-written PartialEq compares variant and payloads) *)
Theorem C12_structural : forall a b, put_result_eqb a b = true <-> a = b.
Proof. exact put_result_eqb_structural. Qed.

Example C12_witness :
  qrun (twoq_new 2 0 1) [QTrait (CPut 1 1); QTrait (CPut 2 2); QTrait (CPut 3 3)] =
  Ok (mkTwoQ 2 0 (mkLru 2 [(3, 3); (2, 2)] false) (mkLru 2 [] false) (mkLru 1 [(1, 1)] false)) /\
  qput (mkTwoQ 2 0 (mkLru 2 [(3, 3); (2, 2)] false) (mkLru 2 [] false) (mkLru 1 [(1, 1)] false)) 4 4 =
  Ok (mkTwoQ 2 0 (mkLru 2 [(4, 4); (3, 3)] false) (mkLru 2 [] false) (mkLru 1 [(2, 2)] false), PEvicted 1 1).
Proof. vm_compute. split; reflexivity. Qed.

(** with two slots or more the exception above concerns ghosts only: an entry that is *resident* before a [put]
    (and is not the key being put) is still retained afterwards — as a resident entry or as a ghost *)
Theorem C12_arc_residents_kept : forall s k v s' r,
  arc_inv s -> (2 <= asize s)%nat -> aput s k v = Ok (s', r) ->
  forall e, In e (items (t1 s) ++ items (t2 s)) -> fst e <> k -> In e (retained_a s').
Proof. exact arc_residents_kept. Qed.

(** ... and with a single slot it can happen: the victim becomes the only ghost of a list that is trimmed in the
    same call (put 4, put 4, put 0, put 0, put 1 at size 1 loses the resident entry 0) *)
Example C12_arc_size_one_loses_a_resident :
  let run := fun s kv => match s with Ok (st, _) => aput st (fst kv) (snd kv) | Panic n => Panic n end in
  let s4 := List.fold_left run [(4, 10); (4, 11); (0, 20); (0, 21)]%Z (Ok (arc_new 1, PPut)) in
  match s4 with
  | Ok (st, _) => items (t2 st) = [(0, 21)]%Z /\
                  match aput st 1 30 with Ok (st', r) => r = PPut /\ retained_a st' = [(1, 30)]%Z | Panic _ => False end
  | Panic _ => False
  end.
Proof. vm_compute. split; [reflexivity|split; reflexivity]. Qed.

Print Assumptions C12_put_truth_def.
Print Assumptions C12_lru.
Print Assumptions C12_lru_capacity_zero.
Print Assumptions C12_slru.
Print Assumptions C12_slru_put_protected.
Print Assumptions C12_twoq.
Print Assumptions C12_arc.
Print Assumptions C12_wtiny.
Print Assumptions C12_or_put.
Print Assumptions C12_structural.
Print Assumptions C12_arc_residents_kept.
