(** * C08, continued — the decisions of TwoQueueCache do not look at the values.  Statements only.
    The key projection of the 2Q model is a simulation of the 2Q cache written over keys alone ([KeyProjTwoQ.v]): the
    queue a key lives in, the order inside the queues, which resident becomes a ghost, which ghost is forgotten, what a
    put reports (as keys) and whether a call panics are functions of the keys, the size and the two quotas.
    `TwoQueueCache<K, ()>` is therefore replayed in the same model, with the values kept beside the cache. *)
From Coq Require Import List ZArith.
Import ListNotations.
From VF Require Import Base Lru TwoQ KeyProj KeyProjSlru KeyProjTwoQ KeyProjArc KeyProjWTiny KeyProjCompRun.

Theorem C08_put_is_value_blind : forall s k v,
  match qput s k v with
  | Ok (s', r) => kqput (qproj s) k = Ok (qproj s', put_keys r)
  | Panic n => kqput (qproj s) k = Panic n
  end.
Proof. exact qput_blind. Qed.

Theorem C08_get_is_value_blind : forall s k w,
  match qget_mut s k w with
  | Ok (s', r) => kqget (qproj s) k = Ok (qproj s', hit r)
  | Panic n => kqget (qproj s) k = Panic n
  end.
Proof. exact qget_mut_blind. Qed.

Theorem C08_victim_is_value_blind : forall s b,
  match evict_resident s b with
  | Ok (r1, f1, e) => kevict_resident (qproj s) b = Ok (kproj r1, kproj f1, fst e)
  | Panic n => kevict_resident (qproj s) b = Panic n
  end.
Proof. exact evict_resident_blind. Qed.

Theorem C08_remove_is_value_blind : forall s k,
  let '(s', r) := qremove s k in kqremove (qproj s) k = (qproj s', hit r).
Proof. exact qremove_blind. Qed.

Theorem C08_lookups_are_value_blind : forall s k,
  hit (qpeek s k) = (kmem k (kitems (kf (qproj s))) || kmem k (kitems (kr (qproj s))))%bool /\
  qcontains s k = (kmem k (kitems (kf (qproj s))) || kmem k (kitems (kr (qproj s))))%bool /\
  qproj (qpurge s) = kwith (qproj s) (kpurge (kr (qproj s))) (kpurge (kf (qproj s))) (kpurge (kg (qproj s))).
Proof. exact qlookups_blind. Qed.

(** whole histories: after any sequence of put / get / get_mut / remove with whatever values the three queues hold the keys,
    in the order, that 2Q over keys alone holds after the same calls - and the run panics exactly when that one does *)
Theorem C08_history_is_value_blind : forall ops s,
  match crun twoq qvstep s ops with
  | Ok s' => ckrun k2q qkstep (qproj s) (map cstrip ops) = Ok (qproj s')
  | Panic n => ckrun k2q qkstep (qproj s) (map cstrip ops) = Panic n
  end.
Proof. exact qrun_blind. Qed.

(** a new key into a full cache, with and without values: the same resident becomes a ghost *)
Definition qput4 (a : val) : res twoq :=
  do (s1, _) <- qput (twoq_new 2 1 1) 1 a;
  do (s2, _) <- qput s1 2 a;
  do (s3, _) <- qput s2 3 a;
  Ok s3.
Example C08_value_blind_witness :
  option_map qproj (match qput4 10 with Ok s => Some s | Panic _ => None end)
  = option_map qproj (match qput4 0 with Ok s => Some s | Panic _ => None end) /\
  option_map (fun s => (kitems (kr s), kitems (kf s), kitems (kg s)))
    (option_map qproj (match qput4 0 with Ok s => Some s | Panic _ => None end))
  = Some ([3; 2]%Z, [], [1%Z]).
Proof. vm_compute. split; reflexivity. Qed.

Print Assumptions C08_put_is_value_blind.
Print Assumptions C08_get_is_value_blind.
Print Assumptions C08_victim_is_value_blind.
Print Assumptions C08_remove_is_value_blind.
Print Assumptions C08_lookups_are_value_blind.
Print Assumptions C08_history_is_value_blind.
