(** * C20 — SampledLFU cost accounting is exact.  Statements only. *)
From VF Require Import Base Sampled TinyStep BaseFacts C20Proofs.
From Coq Require Import Permutation.
Open Scope Z_scope.

(** after any mix of increment (also on a tracked key), update, remove, clear, update_max_cost
    and fill_sample: room_left(c) = max_cost - (sum of the recorded costs) - c, in the i64 arithmetic of
    the code (which wraps: costs are arbitrary i64 values) ... *)
Theorem C20_room_left_exact : forall (mc : Z) (n : nat) (ops : list samop) (c : Z),
  let s := samrun (sam_new mc n) ops in
  sam_room_left s c = w64 (smax s - total (scosts s) - c).
Proof. exact room_left_exact. Qed.

(** ... i.e. the plain integer whenever it fits an i64 (always, for costs of realistic size) *)
Theorem C20_room_left_exact_in_range : forall (mc : Z) (n : nat) (ops : list samop) (c : Z),
  let s := samrun (sam_new mc n) ops in
  -9223372036854775808 <= smax s - total (scosts s) - c < 9223372036854775808 ->
  sam_room_left s c = smax s - total (scosts s) - c.
Proof. exact room_left_exact_in_range. Qed.

Theorem C20_tracked_keys_distinct : forall (mc : Z) (n : nat) (ops : list samop),
  NoDup (keys (scosts (samrun (sam_new mc n) ops))).
Proof. intros. apply (samrun_inv ops (sam_new mc n) (sam_new_inv mc n)). Qed.

Theorem C20_update_reports_tracked : forall s k c,
  snd (sam_update s k c) = mem k (scosts s) /\
  (mem k (scosts s) = true -> find k (scosts (fst (sam_update s k c))) = Some c).
Proof. exact update_reports_tracked. Qed.

Theorem C20_remove_reports_cost : forall s k,
  snd (sam_remove s k) = find k (scosts s) /\
  (sam_inv s -> find k (scosts (fst (sam_remove s k))) = None).
Proof. exact remove_reports_cost. Qed.

(** for every iteration order of the hash map *)
Theorem C20_fill_sample : forall s order input,
  sam_inv s -> Permutation order (scosts s) ->
  let out := sam_fill s order input in
  exists appended,
    out = input ++ appended /\
    (forall e, In e appended -> In e (scosts s)) /\ NoDup (keys appended) /\
    length appended = (if Nat.leb (ssamples s) (length input) then 0
                       else Nat.min (ssamples s - length input) (length (scosts s)))%nat.
Proof. exact fill_sample_spec. Qed.

(** a sample size no collection can hold ("sample everything"): the input, then every tracked pair; which such size
    it is does not matter *)
Theorem C20_fill_sample_saturates : forall s order input,
  (length input + length order <= ssamples s)%nat ->
  sam_fill s order input = input ++ order.
Proof. exact fill_sample_saturates. Qed.

Theorem C20_fill_sample_size_irrelevant : forall s1 s2 order input,
  (length input + length order <= ssamples s1)%nat ->
  (length input + length order <= ssamples s2)%nat ->
  sam_fill s1 order input = sam_fill s2 order input.
Proof. exact fill_sample_size_irrelevant. Qed.

(** the sample size takes no part in the accounting: trackers that differ in it only go through the same states and
    give the same results under every operation but [fill_sample] *)
Theorem C20_sample_size_is_inert : forall s n o,
  is_fill o = false ->
  samstep_t (with_samples s n) o = (with_samples (fst (samstep_t s o)) n, snd (samstep_t s o)).
Proof. exact samstep_samples_irrelevant. Qed.

Theorem C20_sample_size_is_inert_history : forall ops s n,
  forallb (fun o => negb (is_fill o)) ops = true ->
  samrun (with_samples s n) ops = with_samples (samrun s ops) n.
Proof. exact samrun_samples_irrelevant. Qed.

Example C20_saturates_witness :
  let s := samrun (sam_new 100 1000) [SInc 1 5; SInc 2 7] in
  sam_fill s (scosts s) [(9, 9)] = (9, 9) :: scosts s /\ length (scosts s) = 2%nat.
Proof. vm_compute. split; reflexivity. Qed.

Example C20_witness :
  let s := samrun (sam_new 100 5) [SInc 1 5; SInc 1 5; SInc 2 7; SRem 1] in
  sam_room_left s 0 = 93 /\ scosts s = [(2, 7)].
Proof. vm_compute. split; reflexivity. Qed.

(** costs at the end of the i64 range wrap instead of overflowing *)
Example C20_wraps :
  let s := samrun (sam_new 100 5) [SInc 1 9223372036854775807; SInc 2 1] in
  sused s = -9223372036854775808 /\ sam_room_left s 0 = -9223372036854775708.
Proof. vm_compute. split; reflexivity. Qed.

Print Assumptions C20_room_left_exact.
Print Assumptions C20_room_left_exact_in_range.
Print Assumptions C20_tracked_keys_distinct.
Print Assumptions C20_update_reports_tracked.
Print Assumptions C20_remove_reports_cost.
Print Assumptions C20_fill_sample.
Print Assumptions C20_fill_sample_saturates.
Print Assumptions C20_fill_sample_size_irrelevant.
Print Assumptions C20_sample_size_is_inert.
Print Assumptions C20_sample_size_is_inert_history.
