(** * C17 — behaviour is independent of hasher, collisions and allocation addresses.
    Statements only.  The models of the five caches contain no hasher, no address and no hash
    index: every result is, by construction, a function of the configuration and the operation
    history.  The claim that the Rust code refines these models under every BuildHasher is the
    correspondence run of this check (every history is executed under two RandomState seeds,
    identity, FNV and a constant hasher; all five traces must equal the single model trace and
    each other).  What a theorem can add is why the index cannot matter: the only use the lists
    make of their index is look-up by key, and look-up by key does not depend on the order (hash
    order, collision chains) in which a duplicate-free index is traversed; and Clone re-inserts
    entries in list order, not in index order. *)
From VF Require Import Base Iter Enc Lru LruStep BaseFacts LruFacts Counts C01Proofs C13Proofs.
From Coq Require Import Permutation.

(** look-up by key in a duplicate-free index is independent of its iteration order *)
Theorem C17_lookup_independent_of_index_order : forall (idx idx' : list entry) k,
  Permutation idx idx' -> NoDup (keys idx) -> find k idx = find k idx'.
Proof.
  intros idx idx' k Hp Hnd.
  assert (Hnd' : NoDup (keys idx')).
  { unfold keys. eapply Permutation_NoDup; [apply Permutation_map; exact Hp|exact Hnd]. }
  destruct (find k idx) as [v|] eqn:E.
  - symmetry. apply in_find_nodup; [exact Hnd'|]. eapply Permutation_in; [exact Hp|]. now apply find_some_in.
  - symmetry. apply find_none_notin. apply find_none_notin in E. intros Hin. apply E.
    unfold keys in *. eapply Permutation_in; [apply Permutation_map; apply Permutation_sym; exact Hp|exact Hin].
Qed.

(** membership likewise *)
Theorem C17_contains_independent_of_index_order : forall (idx idx' : list entry) k,
  Permutation idx idx' -> NoDup (keys idx) -> mem k idx = mem k idx'.
Proof.
  intros idx idx' k Hp Hnd. unfold mem. now rewrite (C17_lookup_independent_of_index_order idx idx' k Hp Hnd).
Qed.

(** Clone rebuilds the list from the list (least-recent first), for every reachable state: the
    clone is the original, whatever order the hash map would iterate in *)
Theorem C17_clone_uses_list_order : forall (c : nat) (cb : bool) (ops : list lop),
  clone (lrun (lru_new c cb) ops) = lrun (lru_new c cb) ops.
Proof. intros. apply clone_id. apply lrun_inv. split; cbn; [constructor|lia]. Qed.

Print Assumptions C17_lookup_independent_of_index_order.
Print Assumptions C17_contains_independent_of_index_order.
Print Assumptions C17_clone_uses_list_order.
