(** * C17 — behaviour is independent of hasher, collisions and allocation addresses.
    Statements only.  The models of the five caches contain no hasher, no address and no hash
    index: every result is, by construction, a function of the configuration and the operation
    history.  The claim that the Rust code refines these models under every BuildHasher is the
    correspondence run of this check (every history is executed under two RandomState seeds,
    identity, FNV and a constant hasher; all five traces must equal the single model trace and
    each other).  What a theorem can add is why the index cannot matter: the only use the lists
    make of their index is look-up by key, and look-up by key does not depend on the order (hash
    order, collision chains) in which a duplicate-free index is traversed; and Clone re-inserts
    entries in list order, not in index order. *)
From Coq Require Import List Permutation.
Import ListNotations.
From VF Require Import Base Iter Enc Lru LruStep Slru TwoQ Arc Tiny WTiny BaseFacts LruFacts SlruFacts TwoQFacts ArcFacts
  WTinyFacts Counts C01Proofs C13Proofs
  Heap HeapIterDef HeapFacts HeapOps HeapRun HeapMulti HeapRefine HeapClone HeapSlruDef HeapSlru HeapTwoQDef HeapTwoQ
  HeapArcDef HeapArc HeapWTinyDef HeapWTiny HeapIndep.


(** look-up by key in a duplicate-free index is independent of its iteration order *)
Theorem C17_lookup_independent_of_index_order : forall (idx idx' : list entry) k,
  Permutation idx idx' -> NoDup (keys idx) -> find k idx = find k idx'.
Proof.
  intros idx idx' k Hp Hnd.
  assert (Hnd' : NoDup (keys idx')).
  { unfold keys. eapply Permutation_NoDup; [apply Permutation_map; exact Hp|exact Hnd]. }
  destruct (find k idx) as [v|] eqn:E.
  - symmetry. apply in_find_nodup; [exact Hnd'|]. eapply Permutation_in; [exact Hp|]. now apply find_some_in.
  - symmetry. apply find_none_notin. apply find_none_notin in E. intros Hin. apply E.
    unfold keys in *. eapply Permutation_in; [apply Permutation_map; apply Permutation_sym; exact Hp|exact Hin].
Qed.

(** membership likewise *)
Theorem C17_contains_independent_of_index_order : forall (idx idx' : list entry) k,
  Permutation idx idx' -> NoDup (keys idx) -> mem k idx = mem k idx'.
Proof.
  intros idx idx' k Hp Hnd. unfold mem. now rewrite (C17_lookup_independent_of_index_order idx idx' k Hp Hnd).
Qed.

(** Clone rebuilds the list from the list (least-recent first), for every reachable state: the
    clone is the original, whatever order the hash map would iterate in *)
Theorem C17_clone_uses_list_order : forall (c : nat) (cb : bool) (ops : list lop),
  clone (C01Proofs.lrun (lru_new c cb) ops) = C01Proofs.lrun (lru_new c cb) ops.
Proof. intros. apply clone_id. apply lrun_inv. split; cbn; [constructor|lia]. Qed.

(** ** at the pointer level (layer H): the refinement relation [R h q s] holds for any placement of the nodes in the
    heap and any order of the hash index that represent the abstract cache [s].  Two such representations — reached
    under different hashers, with different collisions, hash-map iteration orders and allocation histories —
    answer every history of calls identically, and stay representations of the same abstract cache *)
Theorem C17_heap_lru : forall h1 q1 h2 q2 s os,
  R h1 q1 s -> R h2 q2 s ->
  exists h1' q1' h2' q2' outs,
    hrun h1 q1 os = HOk (h1', q1', outs) /\ hrun h2 q2 os = HOk (h2', q2', outs) /\
    R h1' q1' (fst (HeapRun.lrun s os)) /\ R h2' q2' (fst (HeapRun.lrun s os)).
Proof. exact lru_indep. Qed.

(** ... iterator scripts (iteration order!) and clones included *)
Theorem C17_heap_lru_iter_clone : forall h1 q1 h2 q2 s os,
  R h1 q1 s -> R h2 q2 s -> lru_inv s -> Forall hcop_ok os ->
  exists h1' q1' h2' q2' outs,
    hcrun h1 q1 os = HOk (h1', q1', outs) /\ hcrun h2 q2 os = HOk (h2', q2', outs).
Proof. exact lru_indep_full. Qed.

Theorem C17_heap_slru : forall h1 s1 h2 s2 ls os,
  RS [] h1 s1 ls -> RS [] h2 s2 ls -> slru_inv ls ->
  exists h1' s1' h2' s2' outs,
    hs_run h1 s1 os = HOk (h1', s1', outs) /\ hs_run h2 s2 os = HOk (h2', s2', outs).
Proof. exact slru_indep. Qed.

Theorem C17_heap_twoq : forall h1 s1 h2 s2 ls os,
  RQ h1 s1 ls -> RQ h2 s2 ls -> twoq_inv ls -> Forall qop_ok os ->
  exists h1' s1' h2' s2' outs,
    ht_run h1 s1 os = HOk (h1', s1', outs) /\ ht_run h2 s2 os = HOk (h2', s2', outs).
Proof. exact twoq_indep. Qed.

Theorem C17_heap_arc : forall h1 s1 h2 s2 ls os,
  RA h1 s1 ls [] -> RA h2 s2 ls [] -> arc_inv ls -> Forall aop_ok os ->
  exists h1' s1' h2' s2' outs,
    ha_run h1 s1 os = HOk (h1', s1', outs) /\ ha_run h2 s2 os = HOk (h2', s2', outs).
Proof. exact arc_indep. Qed.

(** W-TinyLFU: given the same estimator state (it is part of the abstract cache), hence the same verdicts *)
Theorem C17_heap_wtiny : forall h1 s1 h2 s2 ls os,
  RW h1 s1 ls -> RW h2 s2 ls -> wt_inv ls ->
  exists h1' s1' h2' s2' outs,
    hw_run h1 s1 os = HOk (h1', s1', outs) /\ hw_run h2 s2 os = HOk (h2', s2', outs).
Proof. exact wtiny_indep. Qed.

Print Assumptions C17_lookup_independent_of_index_order.
Print Assumptions C17_contains_independent_of_index_order.
Print Assumptions C17_clone_uses_list_order.
Print Assumptions C17_heap_lru.
Print Assumptions C17_heap_lru_iter_clone.
Print Assumptions C17_heap_slru.
Print Assumptions C17_heap_twoq.
Print Assumptions C17_heap_arc.
Print Assumptions C17_heap_wtiny.
