(** * C07 — SegmentedCache follows the segmented-LRU policy.  Statements only.
    [slru_inv] is the C01 invariant (both capacities >= 1, segments within capacity, a key in at
    most one segment); theorem [C07_reachable] says every reachable state satisfies it, so each
    clause below holds at every point of every history.  Lists are most-recent first. *)
From VF Require Import Base Iter Enc Lru LruStep Slru CacheStep BaseFacts LruFacts Counts PrimFacts
  SlruFacts Run C01Proofs C07Proofs.

Theorem C07_reachable : forall (pc fc : nat) (ops : list sop),
  (1 <= pc)%nat -> (1 <= fc)%nat -> exists s, srun (slru_new pc fc) ops = Ok s /\ slru_inv s.
Proof.
  intros pc fc ops Hp Hf. apply (runM_inv sstep slru_inv).
  - intros s o Hi. destruct (sstep_ok s o Hi) as (s' & out & E & Hi' & _). eauto.
  - now apply slru_new_inv.
Qed.

(** new keys enter the probationary segment; only the least-recent probationary entry is ever
    evicted to admit one, and the protected segment is untouched *)
Theorem C07_new_key_enters_probationary : forall s k v,
  slru_inv s -> find k (items (prob s)) = None -> find k (items (prot s)) = None ->
  exists s' r, sput s k v = Ok (s', r) /\ prot s' = prot s /\ cap (prob s') = cap (prob s) /\
    (((llen (prob s) < cap (prob s))%nat /\ r = PPut /\ items (prob s') = (k, v) :: items (prob s)) \/
     (llen (prob s) = cap (prob s) /\ exists rest ek ev,
        items (prob s) = rest ++ [(ek, ev)] /\ r = PEvicted ek ev /\
        items (prob s') = (k, v) :: rest)).
Proof. exact new_key_enters_probationary. Qed.

(** get / get_mut on a probationary entry: it becomes the most recent protected entry; when
    protected was full its least-recent entry is demoted to the most-recent end of probationary
    (definition [promoted]) *)
Theorem C07_probationary_hit_promotes_get : forall s k v0 w,
  slru_inv s -> find k (items (prot s)) = None -> find k (items (prob s)) = Some v0 ->
  exists s', sget_mut s k w = Ok (s', Some v0) /\
    cap (prob s') = cap (prob s) /\ cap (prot s') = cap (prot s) /\
    let v1 := match w with Some x => x | None => v0 end in
    (((llen (prot s) < cap (prot s))%nat /\
      items (prot s') = (k, v1) :: items (prot s) /\
      items (prob s') = remove_key k (items (prob s))) \/
     (llen (prot s) = cap (prot s) /\ exists rest d,
        items (prot s) = rest ++ [d] /\
        items (prot s') = (k, v1) :: rest /\
        items (prob s') = d :: remove_key k (items (prob s)))).
Proof. exact probationary_hit_promotes_get. Qed.

(** put on a probationary entry: the same promotion, reported as Update(old) *)
Theorem C07_probationary_hit_promotes_put : forall s k v0 v,
  slru_inv s -> find k (items (prot s)) = None -> find k (items (prob s)) = Some v0 ->
  exists s', sput s k v = Ok (s', PUpdate v0) /\
    cap (prob s') = cap (prob s) /\ cap (prot s') = cap (prot s) /\
    (((llen (prot s) < cap (prot s))%nat /\
      items (prot s') = (k, v) :: items (prot s) /\
      items (prob s') = remove_key k (items (prob s))) \/
     (llen (prot s) = cap (prot s) /\ exists rest d,
        items (prot s) = rest ++ [d] /\
        items (prot s') = (k, v) :: rest /\
        items (prob s') = d :: remove_key k (items (prob s)))).
Proof. exact probationary_hit_promotes_put. Qed.

(** a promotion never evicts: every key is held exactly as often as before, in both segments together *)
Theorem C07_promotion_never_evicts : forall s s' k v1 x,
  (0 < cntl (items (prob s)) k)%nat -> promoted s s' k v1 -> scnt s' x = scnt s x.
Proof. exact promotion_conserves. Qed.

(** a hit on a protected entry only refreshes it: it moves to the front of protected, the other
    protected entries keep their order, probationary is untouched *)
Theorem C07_protected_hit_refreshes_get : forall s k v0 w,
  find k (items (prot s)) = Some v0 ->
  sget_mut s k w =
  Ok (mkSlru (prob s) (with_items (prot s) (set_val_opt k w ((k, v0) :: remove_key k (items (prot s))))),
      Some v0).
Proof. exact protected_hit_refreshes_get. Qed.
Theorem C07_protected_hit_refreshes_put : forall s k v0 v,
  find k (items (prot s)) = Some v0 ->
  sput s k v =
  Ok (mkSlru (prob s) (with_items (prot s) ((k, v) :: remove_key k (items (prot s)))), PUpdate v0).
Proof. exact protected_hit_refreshes_put. Qed.

Theorem C07_miss_changes_nothing : forall s k w,
  find k (items (prot s)) = None -> find k (items (prob s)) = None -> sget_mut s k w = Ok (s, None).
Proof. exact miss_changes_nothing. Qed.

(** put_protected places the key at the most-recent end of protected and nowhere else *)
Theorem C07_put_protected : forall s k v,
  slru_inv s ->
  let s' := fst (sput_protected s k v) in
  (exists rest, items (prot s') = (k, v) :: rest) /\ find k (items (prob s')) = None /\
  items (prob s') = remove_key k (items (prob s)) /\
  cap (prob s') = cap (prob s) /\ cap (prot s') = cap (prot s).
Proof. exact put_protected_exact. Qed.

(** non-vacuity: protected full, a probationary hit demotes protected's LRU into probationary *)
Example C07_witness :
  srun (slru_new 2 1) [STrait (CPut 1 10); STrait (CGet 1); STrait (CPut 2 20); STrait (CPut 3 30); STrait (CGet 2)]
  = Ok (mkSlru (mkLru 2 [(1, 10); (3, 30)] false) (mkLru 1 [(2, 20)] false)).
Proof. vm_compute. reflexivity. Qed.

Print Assumptions C07_reachable.
Print Assumptions C07_new_key_enters_probationary.
Print Assumptions C07_probationary_hit_promotes_get.
Print Assumptions C07_probationary_hit_promotes_put.
Print Assumptions C07_promotion_never_evicts.
Print Assumptions C07_protected_hit_refreshes_get.
Print Assumptions C07_protected_hit_refreshes_put.
Print Assumptions C07_miss_changes_nothing.
Print Assumptions C07_put_protected.
