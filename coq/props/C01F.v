(** * C01, continued — the capacity bound in the states a panic in user code leaves behind (layer F).
    Statements only.  A panic in the eviction callback, in a [Hash] / [Eq] of the key or in a destructor can be
    caught by the caller, who then goes on using the cache: [len() <= cap()] has to hold there too. *)
From Coq Require Import List Arith.
From VF Require Import Base Heap Fault FaultFacts FaultBound.
Import ListNotations.
Local Open Scope nat_scope.

(** every operation of RawLRU, in every state within its bound, with any fuse: the state of a panic is within the bound,
    and so is the state at the end - for [resize] provided its loop finished ([finished]: in the states a fault can
    leave, the loop of the real [resize] may spin instead of returning, see FaultBound.v) *)
Theorem C01_bound_survives_panics : forall f h q o,
  length (hidx q) <= hcap q ->
  match fstep f h q o with
  | FOk (_, _, q', _) => finished o q' -> length (hidx q') <= hcap q'
  | FPanic _ q' => length (hidx q') <= hcap q'
  | FErr _ => True
  end.
Proof. exact fstep_bnd. Qed.

(** hence in every state reachable from [new] through operations, injected panics - each with whatever loss of index
    entries an interrupted rehash causes - and resizes that finish *)
Theorem C01_bound_reachable_with_panics : forall h q, freach_fin h q -> length (hidx q) <= hcap q.
Proof. exact freach_fin_bnd. Qed.

(** [resize] interrupted by its second callback: the old capacity with fewer entries, never the new one with more *)
Example C01_resize_interrupted :
  exists h q h' q',
    freach_fin h q /\ length (hidx q) = 3 /\ hcap q = 3 /\
    fstep (Some (TCb, 1)) h q (HResize 0) = FPanic h' q' /\ hcap q' = 3 /\ length (hidx q') = 1.
Proof. exact resize_interrupted. Qed.

Print Assumptions C01_bound_survives_panics.
Print Assumptions C01_bound_reachable_with_panics.
