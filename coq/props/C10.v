(** * C10 — WTinyLFUCache: window -> TinyLFU admission filter -> segmented main cache.
    Statements only.  [wt_inv] is the C01 invariant ([C10_reachable]); [est t h] is the
    estimator's estimate as a total function ([C10_estimate_total]); the statements hold for
    every estimator state, hence for every sketch seed.  Lists are most-recent first. *)
From VF Require Import Base Iter Enc Lru LruStep Slru CacheStep Tiny WTiny TinyStep
  BaseFacts LruFacts Counts PrimFacts Tactics SlruFacts TinyFacts WTinyFacts Run C01Proofs C07Proofs C10Proofs.
From Coq Require Import NArith.
Open Scope Z_scope.

Theorem C10_reachable : forall (s0 : wtiny) (ops : list cop),
  wt_inv s0 -> exists s, wrun s0 ops = Ok s /\ wt_inv s /\ wt_kh s = wt_kh s0.
Proof.
  intros s0 ops H0.
  destruct (runM_inv wstep_trait (fun s => wt_inv s /\ wt_kh s = wt_kh s0)) with (ops := ops) (s := s0)
    as (s & E & Hi & Hk).
  - intros s o [Hi Hk]. destruct (wstep_trait_ok s o Hi) as (s' & out & E & Hi' & (_ & _ & Hk')).
    exists s', out. split; [exact E|]. split; [exact Hi'|congruence].
  - auto.
  - eauto.
Qed.

Theorem C10_estimate_total : forall t h,
  tiny_ok t -> (h < two64)%N -> tl_estimate t h = Ok (est t h).
Proof. exact est_total. Qed.

(** new keys enter the window; when the window is full its least-recent entry becomes the candidate *)
Theorem C10_new_key_enters_window : forall s k v,
  wt_inv s -> find k (items (wt_lru s)) = None -> scontains (wt_slru s) k = false ->
  ((llen (wt_lru s) < cap (wt_lru s))%nat /\
   wput s k v = Ok (wt_with s (wt_tiny s) (with_items (wt_lru s) ((k, v) :: items (wt_lru s))) (wt_slru s), PPut)) \/
  (llen (wt_lru s) = cap (wt_lru s) /\ exists rest ck cv,
     items (wt_lru s) = rest ++ [(ck, cv)] /\
     wput s k v = wt_admit s (with_items (wt_lru s) ((k, v) :: rest)) ck cv).
Proof. exact new_key_enters_window. Qed.

(** the candidate is admitted freely while the main cache has room (no estimate is consulted) *)
Theorem C10_admission_free : forall s l1 ck cv,
  (slen (wt_slru s) < scap (wt_slru s))%nat ->
  wt_admit s l1 ck cv =
  (do (m', r) <- sput (wt_slru s) ck cv; Ok (wt_with s (wt_tiny s) l1 m', r)).
Proof. exact admission_free. Qed.

(** main cache full: rejected (handed back as Evicted) iff the candidate's estimate is strictly
    lower than that of the least-recent probationary entry; otherwise it replaces that entry,
    which is handed back as Evicted *)
Theorem C10_admission_filter : forall s l1 ck cv,
  wt_inv s -> (scap (wt_slru s) <= slen (wt_slru s))%nat ->
  find ck (items (prob (wt_slru s))) = None -> find ck (items (prot (wt_slru s))) = None ->
  exists rest vk vv,
    items (prob (wt_slru s)) = rest ++ [(vk, vv)] /\
    wt_admit s l1 ck cv =
    Ok (if N.ltb (est (wt_tiny s) (khash s ck)) (est (wt_tiny s) (khash s vk))
        then (wt_with s (wt_tiny s) l1 (wt_slru s), PEvicted ck cv)
        else (wt_with s (wt_tiny s) l1
                (mkSlru (with_items (prob (wt_slru s)) ((ck, cv) :: rest)) (prot (wt_slru s))),
              PEvicted vk vv)).
Proof. exact admission_filter. Qed.

(** every get / get_mut, hit or miss, records one access: try_reset, then increment of the key's hash *)
Theorem C10_get_records_access : forall s k w,
  wt_inv s ->
  exists t' s' r,
    tl_increment (tl_try_reset (wt_tiny s)) (khash s k) = Ok t' /\
    wget_mut s k w = Ok (s', r) /\ wt_tiny s' = t' /\
    (forall old, find k (items (wt_lru s)) = Some old ->
       r = Some old /\ wt_slru s' = wt_slru s /\
       items (wt_lru s') = set_val_opt k w ((k, old) :: remove_key k (items (wt_lru s)))) /\
    (find k (items (wt_lru s)) = None ->
       wt_lru s' = wt_lru s /\ sget_mut (wt_slru s) k w = Ok (wt_slru s', r)).
Proof. exact get_records_access. Qed.

Theorem C10_purge_clears_estimator : forall s,
  wt_tiny (wpurge s) = tl_clear (wt_tiny s) /\ items (wt_lru (wpurge s)) = [] /\
  items (prob (wt_slru (wpurge s))) = [] /\ items (prot (wt_slru (wpurge s))) = [].
Proof. exact purge_clears_estimator. Qed.

(** a put on a window-resident key moves it into the protected segment (demoting protected's
    least-recent entry into the window when protected is full); the estimator is untouched *)
Theorem C10_window_hit_moves_to_protected : forall s k v old,
  wt_inv s -> find k (items (wt_lru s)) = Some old ->
  exists s', wput s k v = Ok (s', PUpdate old) /\ wt_tiny s' = wt_tiny s /\
    prob (wt_slru s') = prob (wt_slru s) /\
    (((llen (prot (wt_slru s)) < cap (prot (wt_slru s)))%nat /\
      items (wt_lru s') = remove_key k (items (wt_lru s)) /\
      items (prot (wt_slru s')) = (k, v) :: items (prot (wt_slru s))) \/
     (llen (prot (wt_slru s)) = cap (prot (wt_slru s)) /\ exists rest d,
        items (prot (wt_slru s)) = rest ++ [d] /\
        items (wt_lru s') = d :: remove_key k (items (wt_lru s)) /\
        items (prot (wt_slru s')) = (k, v) :: rest)).
Proof. exact window_hit_moves_to_protected. Qed.

Theorem C10_main_hit_put : forall s k v,
  find k (items (wt_lru s)) = None -> scontains (wt_slru s) k = true ->
  wput s k v = (do (m', r) <- sput (wt_slru s) k v; Ok (wt_with s (wt_tiny s) (wt_lru s) m', r)).
Proof. exact main_hit_put. Qed.

Print Assumptions C10_reachable.
Print Assumptions C10_estimate_total.
Print Assumptions C10_new_key_enters_window.
Print Assumptions C10_admission_free.
Print Assumptions C10_admission_filter.
Print Assumptions C10_get_records_access.
Print Assumptions C10_purge_clears_estimator.
Print Assumptions C10_window_hit_moves_to_protected.
Print Assumptions C10_main_hit_put.
