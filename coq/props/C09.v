(** * C09 — AdaptiveCache follows the ARC policy and keeps 0 <= p <= size.  Statements only.
    [arc_inv] is the C01 invariant (it contains [ap s <= asize s]); [C09_reachable] says every
    reachable state satisfies it.  [q_victim], [drop_last], [push_bounded] are the list functions
    of C08Proofs.v; [arc_prefers_recent] and [made_room] are defined in C09Proofs.v.  Lists are
    most-recent first: t1 = recent, b1 = recent ghosts, t2 = frequent, b2 = frequent ghosts. *)
From VF Require Import Base Iter Enc Lru LruStep Arc CacheStep BaseFacts LruFacts Counts PrimFacts Tactics
  TwoQFacts ArcFacts Run C01Proofs C08Proofs C09Proofs.

Theorem C09_reachable : forall (size : nat) (ops : list aop),
  (1 <= size)%nat ->
  exists s, arun (arc_new size) ops = Ok s /\ arc_inv s /\ asize s = size /\ (ap s <= size)%nat.
Proof.
  intros size ops Hs.
  destruct (runM_inv astep (fun s => arc_inv s /\ asize s = size))
    with (ops := ops) (s := arc_new size) as (s & E & Hi & Hsz).
  - intros s o [Hi Hc]. destruct (astep_ok s o Hi) as (s' & out & E & Hi' & D).
    exists s', out. split; [exact E|]. split; [exact Hi'|]. unfold a_same_cfg in D. congruence.
  - split; [now apply arc_new_inv|reflexivity].
  - exists s. split; [exact E|]. split; [exact Hi|]. split; [exact Hsz|].
    destruct Hi as (_ & _ & _ & _ & _ & Hp & _). lia.
Qed.

(** when full the victim comes from the recent list if it is non-empty and longer than p (or
    equal to p on a frequent-ghost hit), otherwise from the frequent list, falling back to the
    non-empty one; the victim becomes the most-recent entry of the matching ghost list; exactly
    one resident entry leaves *)
Theorem C09_replace : forall s b,
  arc_inv s -> (1 <= llen (t1 s) + llen (t2 s))%nat ->
  exists fromr victim s',
    q_victim (arc_prefers_recent (ap s) (items (t1 s)) b) (items (t1 s)) (items (t2 s)) = Some (fromr, victim) /\
    areplace s b = Ok s' /\ asize s' = asize s /\ ap s' = ap s /\
    cap (t1 s') = cap (t1 s) /\ cap (t2 s') = cap (t2 s) /\ cap (b1 s') = cap (b1 s) /\ cap (b2 s') = cap (b2 s) /\
    items (t1 s') = (if fromr : bool then drop_last (items (t1 s)) else items (t1 s)) /\
    items (t2 s') = (if fromr then items (t2 s) else drop_last (items (t2 s))) /\
    items (b1 s') = (if fromr then fst (push_bounded (asize s) (items (b1 s)) victim) else items (b1 s)) /\
    items (b2 s') = (if fromr then items (b2 s) else fst (push_bounded (asize s) (items (b2 s)) victim)).
Proof. exact replace_exact. Qed.

(** second access (put / get / get_mut) moves a recent entry to the front of the frequent list *)
Theorem C09_promotion_put : forall s k v old,
  arc_inv s -> find k (items (t1 s)) = Some old ->
  aput s k v = Ok (mkArc (asize s) (ap s) (with_items (t1 s) (remove_key k (items (t1 s)))) (b1 s)
                         (with_items (t2 s) ((k, v) :: items (t2 s))) (b2 s), PUpdate old).
Proof. exact aput_recent_hit. Qed.
Theorem C09_promotion_get : forall s k w old,
  arc_inv s -> find k (items (t1 s)) = Some old ->
  aget_mut s k w =
  Ok (mkArc (asize s) (ap s) (with_items (t1 s) (remove_key k (items (t1 s)))) (b1 s)
            (with_items (t2 s) ((k, match w with Some x => x | None => old end) :: items (t2 s))) (b2 s),
      Some old).
Proof. exact aget_recent_hit. Qed.
Theorem C09_frequent_hit_put : forall s k v old,
  find k (items (t1 s)) = None -> find k (items (t2 s)) = Some old ->
  aput s k v = Ok (mkArc (asize s) (ap s) (t1 s) (b1 s)
                         (with_items (t2 s) ((k, v) :: remove_key k (items (t2 s)))) (b2 s), PUpdate old).
Proof. exact aput_frequent_hit. Qed.
Theorem C09_frequent_hit_get : forall s k w old,
  find k (items (t1 s)) = None -> find k (items (t2 s)) = Some old ->
  aget_mut s k w =
  Ok (mkArc (asize s) (ap s) (t1 s) (b1 s)
            (with_items (t2 s) (set_val_opt k w ((k, old) :: remove_key k (items (t2 s))))) (b2 s),
      Some old).
Proof. exact aget_frequent_hit. Qed.
Theorem C09_get_miss : forall s k w,
  find k (items (t1 s)) = None -> find k (items (t2 s)) = None -> aget_mut s k w = Ok (s, None).
Proof. exact aget_miss. Qed.

(** a put that hits the recent ghost list raises p by max(1, |frequent ghosts| / |recent ghosts|)
    capped at the size, makes room when full (using the new p), and revives the key into the
    frequent list *)
Theorem C09_recent_ghost_hit : forall s k v old,
  arc_inv s -> find k (items (t1 s)) = None -> find k (items (t2 s)) = None ->
  find k (items (b1 s)) = Some old ->
  let p' := Nat.min (asize s) (ap s + Nat.max 1 (llen (b2 s) / llen (b1 s))) in
  let s1 := mkArc (asize s) p' (t1 s) (with_items (b1 s) (remove_key k (items (b1 s)))) (t2 s) (b2 s) in
  exists s2,
    made_room s1 (Nat.leb (asize s) (llen (t1 s) + llen (t2 s))) false s2 /\
    aput s k v = Ok (mkArc (asize s2) (ap s2) (t1 s2) (b1 s2)
                           (with_items (t2 s2) ((k, v) :: items (t2 s2))) (b2 s2), PUpdate old).
Proof. exact aput_recent_ghost_hit. Qed.

(** a put that hits the frequent ghost list lowers p by max(1, |recent ghosts| / |frequent ghosts|)
    floored at 0 (natural-number subtraction) *)
Theorem C09_frequent_ghost_hit : forall s k v old,
  arc_inv s -> find k (items (t1 s)) = None -> find k (items (t2 s)) = None ->
  find k (items (b1 s)) = None -> find k (items (b2 s)) = Some old ->
  let p' := (ap s - Nat.max 1 (llen (b1 s) / llen (b2 s)))%nat in
  let s1 := mkArc (asize s) p' (t1 s) (b1 s) (t2 s) (with_items (b2 s) (remove_key k (items (b2 s)))) in
  exists s2,
    made_room s1 (Nat.leb (asize s) (llen (t1 s) + llen (t2 s))) true s2 /\
    aput s k v = Ok (mkArc (asize s2) (ap s2) (t1 s2) (b1 s2)
                           (with_items (t2 s2) ((k, v) :: items (t2 s2))) (b2 s2), PUpdate old).
Proof. exact aput_frequent_ghost_hit. Qed.

(** a brand-new key enters the recent list after the cache made room; p is unchanged *)
Theorem C09_new_key : forall s k v,
  arc_inv s -> find k (items (t1 s)) = None -> find k (items (t2 s)) = None ->
  find k (items (b1 s)) = None -> find k (items (b2 s)) = None ->
  exists s1,
    made_room s (Nat.leb (asize s) (llen (t1 s) + llen (t2 s))) false s1 /\
    aput s k v =
    Ok (mkArc (asize s) (ap s) (with_items (t1 s1) ((k, v) :: items (t1 s1)))
              (if Nat.ltb (asize s - ap s) (llen (b1 s)) then with_items (b1 s1) (drop_last (items (b1 s1))) else b1 s1)
              (t2 s1)
              (if Nat.ltb (ap s) (llen (b2 s)) then with_items (b2 s1) (drop_last (items (b2 s1))) else b2 s1),
        PPut).
Proof. exact aput_new_key. Qed.

(** non-vacuity: size 2, a ghost hit on the ghost list's own least-recent entry while the cache is full *)
Example C09_witness :
  arun (arc_new 2) (map (fun k => ATrait (CPut k k)) [0; 3; 2; 1; 0]) =
  Ok (mkArc 2 1 (mkLru 2 [(1, 1)] false) (mkLru 2 [(2, 2); (3, 3)] false) (mkLru 2 [(0, 0)] false) (mkLru 2 [] false)).
Proof. vm_compute. reflexivity. Qed.

Print Assumptions C09_reachable.
Print Assumptions C09_replace.
Print Assumptions C09_promotion_put.
Print Assumptions C09_promotion_get.
Print Assumptions C09_frequent_hit_put.
Print Assumptions C09_frequent_hit_get.
Print Assumptions C09_get_miss.
Print Assumptions C09_recent_ghost_hit.
Print Assumptions C09_frequent_ghost_hit.
Print Assumptions C09_new_key.
