(** * C06, continued — the recency order does not look at the values.  Statements only.
    The key projection of the RawLRU model is a simulation of an LRU *set* written over keys alone ([KeyProj.v]): which
    keys are retained, in which order, what an insertion evicts and whether a lookup hits are functions of the keys and
    the capacity.  `RawLRU<K, ()>` is therefore replayed in the same model, with the values kept beside the cache. *)
From Coq Require Import List ZArith.
Import ListNotations.
From VF Require Import Base Lru KeyProj KeyProjRun.

Theorem C06_put_is_value_blind : forall s k v,
  let '(s', r, _) := put s k v in (kproj s', put_keys r) = kput (kproj s) k.
Proof. exact put_blind. Qed.

Theorem C06_get_is_value_blind : forall s k w,
  (let '(s', r) := get s k in (kproj s', hit r) = kget (kproj s) k) /\
  (let '(s', r) := get_mut s k w in (kproj s', hit r) = kget (kproj s) k).
Proof. intros. split; [apply get_blind|apply get_mut_blind]. Qed.

Theorem C06_peek_is_value_blind : forall s k w,
  hit (peek s k) = kmem k (kitems (kproj s)) /\ contains s k = kmem k (kitems (kproj s)) /\
  let '(s', r) := peek_mut s k w in kproj s' = kproj s /\ hit r = kmem k (kitems (kproj s)).
Proof. exact peek_blind. Qed.

Theorem C06_removals_are_value_blind : forall s k n,
  (let '(s', r, _) := remove s k in (kproj s', hit r) = kremove (kproj s) k) /\
  (let '(s', r, _) := remove_lru s in (kproj s', option_map fst r) = kremove_lru (kproj s)) /\
  kproj (fst (purge s)) = kpurge (kproj s) /\
  (let '(s', r, _) := resize s n in (kproj s', r) = kresize (kproj s) n).
Proof. intros. repeat split; [apply remove_blind|apply remove_lru_blind|apply resize_blind]. Qed.

Theorem C06_ends_are_value_blind : forall s,
  (let '(s', r) := get_lru s in (kproj s', option_map fst r) = kget_lru (kproj s)) /\
  option_map fst (peek_mru s) = hd_error (kitems (kproj s)) /\
  option_map fst (peek_lru s) = option_map snd (ksplit_last (kitems (kproj s))).
Proof. intros. split; [apply get_lru_blind|apply ends_blind]. Qed.

(** two caches holding the same keys in the same order, with whatever values, stay so under the same put with whatever
    values, and report the same eviction *)
Theorem C06_same_keys_same_order : forall s1 s2 k v1 v2,
  kproj s1 = kproj s2 ->
  let '(t1, r1, _) := put s1 k v1 in let '(t2, r2, _) := put s2 k v2 in
  kproj t1 = kproj t2 /\ put_keys r1 = put_keys r2.
Proof. exact put_same_order. Qed.

(** the same history with and without values: the order and the evictions agree *)
(** whole histories: after any sequence of calls with whatever values, the keys and their order are what the LRU set over
    keys alone holds after the same calls; two histories that differ only in their values (one may carry none) end with
    the same keys in the same order *)
Theorem C06_history_is_value_blind : forall ops s,
  kproj (fold_left vstep ops s) = fold_left kstep (map strip ops) (kproj s).
Proof. exact vrun_blind. Qed.

Theorem C06_same_calls_same_order : forall ops1 ops2 s1 s2,
  map strip ops1 = map strip ops2 -> kproj s1 = kproj s2 ->
  kproj (fold_left vstep ops1 s1) = kproj (fold_left vstep ops2 s2).
Proof. exact same_calls_same_order. Qed.

Definition put3 (a b c : val) : lru :=
  let p s k v := fst (fst (put s k v)) in p (p (p (lru_new 2 false) 1 a) 2 b) 1 c.
Example C06_value_blind_witness :
  kproj (put3 10 20 11) = kproj (put3 0 0 0) /\ kitems (kproj (put3 10 20 11)) = [1; 2]%Z /\
  put_keys (snd (fst (put (put3 10 20 11) 3 30))) = KEvicted 2 /\
  put_keys (snd (fst (put (put3 0 0 0) 3 0))) = KEvicted 2.
Proof. vm_compute. repeat split; reflexivity. Qed.

Print Assumptions C06_put_is_value_blind.
Print Assumptions C06_get_is_value_blind.
Print Assumptions C06_peek_is_value_blind.
Print Assumptions C06_removals_are_value_blind.
Print Assumptions C06_ends_are_value_blind.
Print Assumptions C06_same_keys_same_order.
Print Assumptions C06_history_is_value_blind.
Print Assumptions C06_same_calls_same_order.
