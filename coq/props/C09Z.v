(** * C09, continued — the decisions of AdaptiveCache do not look at the values.  Statements only.
    The key projection of the ARC model is a simulation of ARC written over keys alone ([KeyProjArc.v]): the list a key
    lives in, the order inside the lists, how [p] moves on a ghost hit, what [replace] demotes, which ghosts are trimmed,
    what a put reports (as keys) and whether a call panics are functions of the keys, the size and [p].
    `AdaptiveCache<K, ()>` is therefore replayed in the same model, with the values kept beside the cache. *)
From Coq Require Import List ZArith.
Import ListNotations.
From VF Require Import Base Lru Arc KeyProj KeyProjSlru KeyProjTwoQ KeyProjArc KeyProjWTiny KeyProjCompRun.

Theorem C09_put_is_value_blind : forall s k v,
  match aput s k v with
  | Ok (s', r) => kaput (aproj s) k = Ok (aproj s', put_keys r)
  | Panic n => kaput (aproj s) k = Panic n
  end.
Proof. exact aput_blind. Qed.

Theorem C09_replace_is_value_blind : forall s b,
  match areplace s b with
  | Ok s' => kareplace (aproj s) b = Ok (aproj s')
  | Panic n => kareplace (aproj s) b = Panic n
  end.
Proof. exact areplace_blind. Qed.

Theorem C09_get_is_value_blind : forall s k w,
  match aget_mut s k w with
  | Ok (s', r) => kaget (aproj s) k = Ok (aproj s', hit r)
  | Panic n => kaget (aproj s) k = Panic n
  end.
Proof. exact aget_mut_blind. Qed.

Theorem C09_remove_is_value_blind : forall s k,
  let '(s', r) := aremove s k in karemove (aproj s) k = (aproj s', hit r).
Proof. exact aremove_blind. Qed.

Theorem C09_lookups_are_value_blind : forall s k,
  hit (apeek s k) = (kmem k (kitems (kt1 (aproj s))) || kmem k (kitems (kt2 (aproj s))))%bool /\
  acontains s k = (kmem k (kitems (kt1 (aproj s))) || kmem k (kitems (kt2 (aproj s))))%bool.
Proof. exact alookups_blind. Qed.

(** whole histories: after any sequence of put / get / get_mut / remove with whatever values the four lists and [p] are
    what ARC over keys alone holds after the same calls - and the run panics exactly when that one does *)
Theorem C09_history_is_value_blind : forall ops s,
  match crun arc avstep s ops with
  | Ok s' => ckrun karc akstep (aproj s) (map cstrip ops) = Ok (aproj s')
  | Panic n => ckrun karc akstep (aproj s) (map cstrip ops) = Panic n
  end.
Proof. exact arun_blind. Qed.

(** a ghost hit, with and without values: [p] moves alike and the same entry is demoted *)
Definition aput5 (a : val) : res arc :=
  do (s1, _) <- aput (arc_new 2) 1 a;
  do (s2, _) <- aput s1 2 a;
  do (s3, _) <- aput s2 3 a;      (* 1 becomes a recent ghost *)
  do (s4, _) <- aput s3 1 a;      (* ghost hit: p = 1 *)
  Ok s4.
Example C09_value_blind_witness :
  option_map aproj (match aput5 10 with Ok s => Some s | Panic _ => None end)
  = option_map aproj (match aput5 0 with Ok s => Some s | Panic _ => None end) /\
  option_map (fun s => (kap s, kitems (kt1 s), kitems (kb1 s), kitems (kt2 s)))
    (option_map aproj (match aput5 0 with Ok s => Some s | Panic _ => None end))
  = Some (1%nat, [3%Z], [2%Z], [1%Z]).
Proof. vm_compute. split; reflexivity. Qed.

Print Assumptions C09_put_is_value_blind.
Print Assumptions C09_replace_is_value_blind.
Print Assumptions C09_get_is_value_blind.
Print Assumptions C09_remove_is_value_blind.
Print Assumptions C09_lookups_are_value_blind.
Print Assumptions C09_history_is_value_blind.
