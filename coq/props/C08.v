(** * C08 — TwoQueueCache follows the 2Q policy (recent / frequent / ghost).  Statements only.
    [twoq_inv] is the C01 invariant; [C08_reachable] says every reachable state satisfies it.
    The policy is phrased with three list functions defined in C08Proofs.v in the property's
    words: [q_victim] (least-recent entry of the preferred queue, falling back to the non-empty
    one), [over_quota] (strictly over the quota for a ghost revival, at quota also counts for a
    brand-new key) and [push_bounded] (a bounded list drops its own least-recent entry when it
    overflows).  Lists are most-recent first.  The quota [qrecent_size] and the ghost bound are
    data here; Sizing (C08_quota) ties them to the ratios. *)
From VF Require Import Base Iter Enc Lru LruStep TwoQ CacheStep BaseFacts LruFacts Counts PrimFacts
  Tactics TwoQFacts Run C01Proofs C08Proofs.
From VF Require Import Sizing SizingFacts.

Theorem C08_reachable : forall (size rs es : nat) (ops : list qop),
  (1 <= size)%nat -> (1 <= es)%nat ->
  exists s, qrun (twoq_new size rs es) ops = Ok s /\ twoq_inv s /\
            qsize s = size /\ qrecent_size s = rs /\ cap (ghost s) = es.
Proof.
  intros size rs es ops Hs He.
  destruct (runM_inv qstep (fun s => twoq_inv s /\ q_same_cfg (twoq_new size rs es) s))
    with (ops := ops) (s := twoq_new size rs es) as (s & E & Hi & (C1 & C2 & C3)).
  - intros s o [Hi Hc]. destruct (qstep_ok s o Hi) as (s' & out & E & Hi' & (D1 & D2 & D3)).
    destruct Hc as (C1 & C2 & C3). exists s', out. split; [exact E|]. split; [exact Hi'|].
    unfold q_same_cfg. rewrite D1, D2, D3. auto.
  - split; [now apply twoq_new_inv|unfold q_same_cfg; auto].
  - exists s. cbn in *. auto.
Qed.

(** a key seen once lives in the recent queue *)
Theorem C08_first_access_recent : forall s k v,
  twoq_inv s -> find k (items (frequent s)) = None -> find k (items (recent s)) = None ->
  find k (items (ghost s)) = None ->
  (llen (frequent s) + llen (recent s) < qsize s)%nat ->
  qput s k v = Ok (with_rfg s (with_items (recent s) ((k, v) :: items (recent s))) (frequent s) (ghost s), PPut).
Proof. exact put_new_room. Qed.

(** a second access (put, get, get_mut) moves it to the front of the frequent queue *)
Theorem C08_second_access_frequent_put : forall s k v old,
  twoq_inv s -> find k (items (frequent s)) = None -> find k (items (recent s)) = Some old ->
  qput s k v = Ok (with_rfg s (with_items (recent s) (remove_key k (items (recent s))))
                     (with_items (frequent s) ((k, v) :: items (frequent s))) (ghost s),
                   PUpdate old).
Proof. exact put_recent_hit. Qed.
Theorem C08_second_access_frequent_get : forall s k w old,
  twoq_inv s -> find k (items (frequent s)) = None -> find k (items (recent s)) = Some old ->
  qget_mut s k w =
  Ok (with_rfg s (with_items (recent s) (remove_key k (items (recent s))))
        (with_items (frequent s) ((k, match w with Some x => x | None => old end) :: items (frequent s)))
        (ghost s),
      Some old).
Proof. exact get_recent_hit. Qed.

(** an access to a frequent entry refreshes it in place *)
Theorem C08_frequent_hit_put : forall s k v old,
  find k (items (frequent s)) = Some old ->
  qput s k v = Ok (with_rfg s (recent s)
                     (with_items (frequent s) ((k, v) :: remove_key k (items (frequent s)))) (ghost s),
                   PUpdate old).
Proof. exact put_frequent_hit. Qed.
Theorem C08_frequent_hit_get : forall s k w old,
  find k (items (frequent s)) = Some old ->
  qget_mut s k w =
  Ok (with_rfg s (recent s)
        (with_items (frequent s) (set_val_opt k w ((k, old) :: remove_key k (items (frequent s))))) (ghost s),
      Some old).
Proof. exact get_frequent_hit. Qed.
(** get / get_mut never consult the ghost list *)
Theorem C08_get_miss : forall s k w,
  find k (items (frequent s)) = None -> find k (items (recent s)) = None -> qget_mut s k w = Ok (s, None).
Proof. exact get_miss. Qed.

(** a brand-new key on a full cache: the victim (recent's LRU when recent is at or over its
    quota, else frequent's LRU, falling back to the non-empty queue) becomes the most-recent
    ghost, the ghost list dropping (and reporting) its own LRU when it overflows *)
Theorem C08_new_key_full : forall s k v,
  twoq_inv s -> find k (items (frequent s)) = None -> find k (items (recent s)) = None ->
  find k (items (ghost s)) = None ->
  (qsize s <= llen (frequent s) + llen (recent s))%nat ->
  exists fromr victim s' r,
    q_victim (over_quota (qrecent_size s) (items (recent s)) true)
             (items (recent s)) (items (frequent s)) = Some (fromr, victim) /\
    qput s k v = Ok (s', r) /\
    items (recent s') = (k, v) :: (if fromr : bool then drop_last (items (recent s)) else items (recent s)) /\
    items (frequent s') = (if fromr then items (frequent s) else drop_last (items (frequent s))) /\
    items (ghost s') = fst (push_bounded (cap (ghost s)) (items (ghost s)) victim) /\
    r = match snd (push_bounded (cap (ghost s)) (items (ghost s)) victim) with
        | None => PPut
        | Some (ek, ev) => PEvicted ek ev
        end.
Proof. exact put_new_full. Qed.

(** a put on a ghost key revives it directly into the frequent queue *)
Theorem C08_ghost_revival_room : forall s k v old,
  twoq_inv s -> find k (items (frequent s)) = None -> find k (items (recent s)) = None ->
  find k (items (ghost s)) = Some old ->
  (llen (recent s) + llen (frequent s) < qsize s)%nat ->
  qput s k v = Ok (with_rfg s (recent s) (with_items (frequent s) ((k, v) :: items (frequent s)))
                     (with_items (ghost s) (remove_key k (items (ghost s)))),
                   PUpdate old).
Proof. exact put_ghost_hit_room. Qed.
Theorem C08_ghost_revival_full : forall s k v old,
  twoq_inv s -> find k (items (frequent s)) = None -> find k (items (recent s)) = None ->
  find k (items (ghost s)) = Some old ->
  (qsize s <= llen (recent s) + llen (frequent s))%nat ->
  exists fromr victim s' r,
    q_victim (over_quota (qrecent_size s) (items (recent s)) false)
             (items (recent s)) (items (frequent s)) = Some (fromr, victim) /\
    qput s k v = Ok (s', r) /\
    items (recent s') = (if fromr : bool then drop_last (items (recent s)) else items (recent s)) /\
    items (frequent s') =
      (k, v) :: (if fromr then items (frequent s) else drop_last (items (frequent s))) /\
    items (ghost s') = remove_key k (fst (push_bounded (cap (ghost s)) (items (ghost s)) victim)) /\
    r = match snd (push_bounded (cap (ghost s)) (items (ghost s)) victim) with
        | None => PUpdate old
        | Some (ek, ev) => if Z.eqb ek k then PUpdate old else PEvictedAndUpdate ek ev old
        end.
Proof. exact put_ghost_hit_full. Qed.


(** quota and ghost bound are floor(size x ratio) in binary64 arithmetic (Sizing.v, Flocq), and
    lie within [0, size] resp. [1, size] for every accepted (size, recent ratio, ghost ratio) *)
Theorem C08_quota : forall size rr gr rs es,
  (1 <= size < 2 ^ 53)%Z -> ctor_twoq size rr gr = [0; size; rs; es]%Z ->
  rs = f_floor_usize (f_mul (f_of_Z size) (f_of_bits rr)) /\
  es = f_floor_usize (f_mul (f_of_Z size) (f_of_bits gr)) /\
  (0 <= rs <= size)%Z /\ (1 <= es <= size)%Z.
Proof. exact ctor_twoq_ok_bounds. Qed.

Example C08_quota_witness : ctor_twoq 10 4599075939470750515 4602678819172646912 = [0; 10; 3; 5]%Z.
Proof. vm_compute. reflexivity. Qed.

(** non-vacuity: size 2, quota 0: the fall-back to the frequent queue when recent is empty *)
Example C08_witness :
  qrun (twoq_new 2 0 1) [QTrait (CPut 1 1); QTrait (CPut 2 2); QTrait (CPut 1 11); QTrait (CPut 2 22); QTrait (CPut 3 3)]
  = Ok (mkTwoQ 2 0 (mkLru 2 [(3, 3)] false) (mkLru 2 [(2, 22)] false) (mkLru 1 [(1, 11)] false)).
Proof. vm_compute. reflexivity. Qed.

Print Assumptions C08_reachable.
Print Assumptions C08_first_access_recent.
Print Assumptions C08_second_access_frequent_put.
Print Assumptions C08_second_access_frequent_get.
Print Assumptions C08_frequent_hit_put.
Print Assumptions C08_frequent_hit_get.
Print Assumptions C08_get_miss.
Print Assumptions C08_new_key_full.
Print Assumptions C08_ghost_revival_room.
Print Assumptions C08_ghost_revival_full.
Print Assumptions C08_quota.
