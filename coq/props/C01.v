(** * C01 — capacity bound and size accounting hold in every cache at every step.
    Statements only. Each theorem quantifies over every accepted configuration and every
    finite history of operations of the type's step function (the whole public alphabet that
    the harness drives); "exists s, run ... = Ok s" also says that no operation panics. *)
From VF Require Import Base Iter Enc Lru LruStep Slru TwoQ Arc CacheStep Tiny WTiny TinyStep
  BaseFacts LruFacts Counts SlruFacts TwoQFacts ArcFacts TinyFacts WTinyFacts Run C01Proofs.

Theorem C01_lru : forall (c : nat) (cb : bool) (ops : list lop),
  let s := lrun (lru_new c cb) ops in
  NoDup (keys (items s)) /\ (llen s <= cap s)%nat /\
  (forall U, NoDup U -> incl (keys (items s)) U ->
             llen s = length (filter (fun k => contains s k) U)) /\
  (Nat.eqb (llen s) 0 = true <-> items s = []).
Proof. exact c01_lru. Qed.

Theorem C01_slru : forall (pc fc : nat) (ops : list sop),
  (1 <= pc)%nat -> (1 <= fc)%nat ->
  exists s, srun (slru_new pc fc) ops = Ok s /\
    cap (prob s) = pc /\ cap (prot s) = fc /\
    (llen (prob s) <= pc)%nat /\ (llen (prot s) <= fc)%nat /\ (slen s <= scap s)%nat /\
    NoDup (keys (items (prob s)) ++ keys (items (prot s))) /\
    (forall U, NoDup U -> incl (keys (items (prob s)) ++ keys (items (prot s))) U ->
               slen s = length (filter (fun k => scontains s k) U)) /\
    (sis_empty s = true <-> items (prob s) = [] /\ items (prot s) = []).
Proof. exact c01_slru. Qed.

(** [rs] is the recent quota (any value, including 0), [es >= 1] the ghost capacity *)
Theorem C01_twoq : forall (size rs es : nat) (ops : list qop),
  (1 <= size)%nat -> (1 <= es)%nat ->
  exists s, qrun (twoq_new size rs es) ops = Ok s /\
    qsize s = size /\ cap (ghost s) = es /\
    (qlen s <= qsize s)%nat /\ (llen (ghost s) <= es)%nat /\
    NoDup (keys (items (recent s)) ++ keys (items (frequent s)) ++ keys (items (ghost s))) /\
    (forall U, NoDup U -> incl (keys (items (recent s)) ++ keys (items (frequent s))) U ->
               qlen s = length (filter (fun k => qcontains s k) U)) /\
    (qis_empty s = true <-> items (recent s) = [] /\ items (frequent s) = [] /\ items (ghost s) = []).
Proof. exact c01_twoq. Qed.

Theorem C01_arc : forall (size : nat) (ops : list aop),
  (1 <= size)%nat ->
  exists s, arun (arc_new size) ops = Ok s /\
    asize s = size /\ (ap s <= size)%nat /\
    (alen s <= size)%nat /\ (llen (b1 s) <= size)%nat /\ (llen (b2 s) <= size)%nat /\
    NoDup (keys (items (t1 s)) ++ keys (items (b1 s)) ++ keys (items (t2 s)) ++ keys (items (b2 s))) /\
    (forall U, NoDup U -> incl (keys (items (t1 s)) ++ keys (items (t2 s))) U ->
               alen s = length (filter (fun k => acontains s k) U)) /\
    (ais_empty s = true <->
     items (t1 s) = [] /\ items (b1 s) = [] /\ items (t2 s) = [] /\ items (b2 s) = []).
Proof. exact c01_arc. Qed.

(** [wt_inv s0] holds for every state [winit] builds (theorem [C01_wtiny_init]) *)
Theorem C01_wtiny : forall (s0 : wtiny) (ops : list cop),
  wt_inv s0 ->
  exists s, wrun s0 ops = Ok s /\
    cap (wt_lru s) = cap (wt_lru s0) /\ same_caps (wt_slru s0) (wt_slru s) /\
    (llen (wt_lru s) <= cap (wt_lru s))%nat /\
    (llen (prob (wt_slru s)) <= cap (prob (wt_slru s)))%nat /\
    (llen (prot (wt_slru s)) <= cap (prot (wt_slru s)))%nat /\
    (wlen s <= wcap s)%nat /\
    NoDup (keys (items (wt_lru s)) ++ keys (items (prob (wt_slru s))) ++ keys (items (prot (wt_slru s)))) /\
    (forall U, NoDup U ->
               incl (keys (items (wt_lru s)) ++ keys (items (prob (wt_slru s))) ++ keys (items (prot (wt_slru s)))) U ->
               wlen s = length (filter (fun k => wcontains s k) U)) /\
    (wis_empty s = true <->
     items (wt_lru s) = [] /\ items (prob (wt_slru s)) = [] /\ items (prot (wt_slru s)) = []).
Proof. exact c01_wtiny. Qed.

Theorem C01_wtiny_init : forall (cfg : list Z) (s : wtiny),
  winit cfg = Some s ->
  (match cfg with wc :: fc :: pc :: _ => wc + fc + pc <= 2 ^ 32 | _ => True end)%Z -> wt_inv s.
Proof. exact winit_inv. Qed.

(** the one-step lemmas behind the above *)
Theorem C01_lru_step : forall s o, lru_inv s -> lru_inv (fst (fst (lstep s o))).
Proof. exact lstep_inv. Qed.
Theorem C01_slru_step : forall s o,
  slru_inv s -> exists s' out, sstep s o = Ok (s', out) /\ slru_inv s' /\ same_caps s s'.
Proof. exact sstep_ok. Qed.
Theorem C01_twoq_step : forall s o,
  twoq_inv s -> exists s' out, qstep s o = Ok (s', out) /\ twoq_inv s' /\ q_same_cfg s s'.
Proof. exact qstep_ok. Qed.
Theorem C01_arc_step : forall s o,
  arc_inv s -> exists s' out, astep s o = Ok (s', out) /\ arc_inv s' /\ a_same_cfg s s'.
Proof. exact astep_ok. Qed.
Theorem C01_wtiny_step : forall s o,
  wt_inv s -> exists s' out, wstep_trait s o = Ok (s', out) /\ wt_inv s' /\ w_same_cfg s s'.
Proof. exact wstep_trait_ok. Qed.

(** non-vacuity: a reachable ARC state of size 1 in which every list but one is in use *)
Example C01_arc_witness :
  arun (arc_new 1) [ATrait (CPut 1 10); ATrait (CPut 2 20); ATrait (CPut 1 11)] =
  Ok (mkArc 1 1 (mkLru 1 [] false) (mkLru 1 [(2, 20)] false) (mkLru 1 [(1, 11)] false) (mkLru 1 [] false)).
Proof. vm_compute. reflexivity. Qed.

Print Assumptions C01_lru.
Print Assumptions C01_slru.
Print Assumptions C01_twoq.
Print Assumptions C01_arc.
Print Assumptions C01_wtiny.
Print Assumptions C01_wtiny_init.
Print Assumptions C01_lru_step.
Print Assumptions C01_slru_step.
Print Assumptions C01_twoq_step.
Print Assumptions C01_arc_step.
Print Assumptions C01_wtiny_step.
