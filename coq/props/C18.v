(** * C18 — a panic in user code never leads to a dangling node.  Statements only.

    Layer F (fault/Fault.v) is RawLRU on the heap with every call into user code made explicit: the
    hashing and comparing done inside the hash map, the eviction callback, the drops of keys and
    values.  A fuse makes any one of them panic; the operation then stops with the heap as it is
    ([FPanic]); a failed [unwrap] is such a panic too.  [wfw] is what has to survive: the list is a
    well-formed chain of allocated, initialised nodes between the sentinels and every index entry
    points, through the key stored in the node, at a linked node (linked nodes without an index
    entry leak).  PARTIAL: RawLRU only (the composite caches are covered by panic injection on the
    implementation); "no key or value is dropped twice" is decided on the implementation by the
    drop ledger of the harness under injection, not by a theorem. *)
From VF Require Import Base Lru Heap HeapFacts HeapOps HeapRun Fault FaultFacts.
From Coq Require Import List Arith Permutation.
Import ListNotations.

(** every operation, any fuse: it ends in a [wfw] state, or panics in a [wfw] state, never a
    use-after-free, an uninitialised read or a double free *)
Theorem C18_step : forall f h q o,
  okp h q -> fsafe (fun '(f1, h1, q1, r) => okp h1 q1) (fstep f h q o).
Proof. exact fstep_safe. Qed.

(** an interrupted rehash may lose index entries: any sub-index is still fine *)
Theorem C18_lossy : forall h q q' l, wfw h q l -> lossy q' q -> wfw h q' l.
Proof. exact wfw_lossy. Qed.

(** every state reachable from [new] by operations, injected panics (any number, anywhere) and index
    losses satisfies [wfw] ... *)
Theorem C18_reach : forall h q, freach h q -> okp h q.
Proof. exact freach_ok. Qed.

(** ... so the cache can still be called and dropped: no further operation and no drop, with or
    without another panic, makes a memory error *)
Theorem C18_noerr : forall h q, freach h q ->
  (forall f o, noerr (fstep f h q o)) /\ (forall f, noerr (f_drop f h q)).
Proof. exact freach_noerr. Qed.

Theorem C18_drop : forall f h q, okp h q -> noerr (f_drop f h q).
Proof. exact f_drop_noerr. Qed.

(** the states of C03 are such states *)
Theorem C18_wf : forall h q l, wf h q l -> wfw h q l.
Proof. exact wf_wfw. Qed.

(** with no fuse the fault machine is the heap machine of C03 (same code between the ticks) *)
Theorem C18_erase :
  (forall h q k v h' q' r, h_put h q k v = HOk (h', q', r) -> f_put None h q k v = FOk (None, h', q', r)) /\
  (forall h q k w h' r, h_get_mut h q k w = HOk (h', r) -> f_get_mut None h q k w = FOk (None, h', r)) /\
  (forall h q k h' q' r, h_remove h q k = HOk (h', q', r) -> f_remove None h q k = FOk (None, h', q', r)) /\
  (forall h q h' q' r, h_remove_lru h q = HOk (h', q', r) -> f_remove_lru None h q = FOk (None, h', q', r)).
Proof. split; [exact f_put_erase|split; [exact f_get_mut_erase|split; [exact f_remove_erase|exact f_remove_lru_erase]]]. Qed.

(** the put that recycles a node, the sharpest case: whichever call panics — the lookup, the removal
    of the old key, the insertion of the new one, the callback — the state is [wfw] *)
Theorem C18_put : forall f h q l k v,
  wfw h q l -> fsafe (fun '(f1, h1, q1, r) => okp h1 q1) (f_put f h q k v).
Proof. exact f_put_safe. Qed.

(** a liveness gap found on the way (outside C18): after a fault, [resize]'s loop
    [while map.len() > cap { remove_lru() }] can make no progress *)
Theorem C18_resize_may_spin :
  wfw spin_heap spin_q [(2%nat, (7%Z, 70%Z)); (3%nat, (8%Z, 80%Z))] /\
  f_remove_lru None spin_heap spin_q = FOk (None, spin_heap, spin_q, None) /\
  (length (hidx spin_q) > 0)%nat.
Proof. exact resize_may_spin. Qed.

Print Assumptions C18_step.
Print Assumptions C18_lossy.
Print Assumptions C18_reach.
Print Assumptions C18_noerr.
Print Assumptions C18_drop.
Print Assumptions C18_wf.
Print Assumptions C18_erase.
Print Assumptions C18_put.
Print Assumptions C18_resize_may_spin.
