(** * C18 — a panic in user code never leads to a dangling node.  Statements only.

    Layer F (fault/Fault.v) is RawLRU on the heap with every call into user code made explicit: the
    hashing and comparing done inside the hash map, the eviction callback, the drops of keys and
    values.  A fuse makes any one of them panic; the operation then stops with the heap as it is
    ([FPanic]); a failed [unwrap] is such a panic too.  [wfw] is what has to survive: the list is a
    well-formed chain of allocated, initialised nodes between the sentinels and every index entry
    points, through the key stored in the node, at a linked node (linked nodes without an index
    entry leak).

    The composite caches (SegmentedCache, TwoQueueCache, AdaptiveCache, WTinyLFUCache) are several such
    lists in one heap, with nodes moved between them as raw pointers.  fault/FaultPrim.v gives the
    crate-internal primitives they are written with the same ticks, and a machine [gstep] that runs
    ANY program over the public operations and these primitives on a family of lists, the nodes in
    flight named by position (a program cannot invent a pointer or use one twice); a panic loses
    the nodes in flight.  [C18_family_*]: every such program, every history of such programs with
    panics anywhere, keeps every list [wfw] and the lists and nodes in flight disjoint, and makes no
    memory error — whatever the program decides, so in particular for the decision logic of the four
    caches.  That their code is such a program is read from the source and re-checked on every run by
    tools/alphabet_audit.py (every raw-level access the four sources make is one of the actions);
    for the heap-level models of C03, which are tied to the code at node identity, it is a theorem:
    every operation of [hs_step] / [ht_step] / [ha_step] / [hw_step] except the iterators (which call no user
    code), Clone included, is the run, with no fuse, of a program of actions, and that program run with ANY fuse ends or panics
    in a family and makes no memory error ([C18_slru_step], [C18_twoq_step], [C18_arc_step],
    [C18_wtiny_step]).

    PARTIAL: "no key or value is dropped twice" is decided on the implementation by the drop
    ledger of the harness under injection, not by a theorem; the composite caches' own tick
    positions are not replayed against the code (panic injection on the implementation covers them). *)
From VF Require Import Base Iter Lru Slru TwoQ Arc Tiny WTiny SlruFacts TwoQFacts ArcFacts WTinyFacts Heap HeapFacts HeapOps HeapRun HeapMulti
  HeapIterDef HeapSlruDef HeapTwoQDef HeapArcDef HeapWTinyDef HeapSlru HeapTwoQ HeapArc HeapWTiny
  Fault FaultFacts FaultErase FaultPrim FaultFamily FaultProg.
From Coq Require Import List Arith Permutation.
Import ListNotations.

(** every operation, any fuse: it ends in a [wfw] state, or panics in a [wfw] state, never a
    use-after-free, an uninitialised read or a double free *)
Theorem C18_step : forall f h q o,
  okp h q -> fsafe (fun '(f1, h1, q1, r) => okp h1 q1) (fstep f h q o).
Proof. exact fstep_safe. Qed.

(** an interrupted rehash may lose index entries: any sub-index is still fine *)
Theorem C18_lossy : forall h q q' l, wfw h q l -> lossy q' q -> wfw h q' l.
Proof. exact wfw_lossy. Qed.

(** every state reachable from [new] by operations, injected panics (any number, anywhere) and index
    losses satisfies [wfw] ... *)
Theorem C18_reach : forall h q, freach h q -> okp h q.
Proof. exact freach_ok. Qed.

(** ... so the cache can still be called and dropped: no further operation and no drop, with or
    without another panic, makes a memory error *)
Theorem C18_noerr : forall h q, freach h q ->
  (forall f o, noerr (fstep f h q o)) /\ (forall f, noerr (f_drop f h q)).
Proof. exact freach_noerr. Qed.

Theorem C18_drop : forall f h q, okp h q -> noerr (f_drop f h q).
Proof. exact f_drop_noerr. Qed.

(** the states of C03 are such states *)
Theorem C18_wf : forall h q l, wf h q l -> wfw h q l.
Proof. exact wf_wfw. Qed.

(** with no fuse the fault machine is the heap machine of C03 (same code between the ticks) *)
Theorem C18_erase :
  (forall h q k v h' q' r, h_put h q k v = HOk (h', q', r) -> f_put None h q k v = FOk (None, h', q', r)) /\
  (forall h q k w h' r, h_get_mut h q k w = HOk (h', r) -> f_get_mut None h q k w = FOk (None, h', r)) /\
  (forall h q k h' q' r, h_remove h q k = HOk (h', q', r) -> f_remove None h q k = FOk (None, h', q', r)) /\
  (forall h q h' q' r, h_remove_lru h q = HOk (h', q', r) -> f_remove_lru None h q = FOk (None, h', q', r)).
Proof. split; [exact f_put_erase|split; [exact f_get_mut_erase|split; [exact f_remove_erase|exact f_remove_lru_erase]]]. Qed.

(** the put that recycles a node, the sharpest case: whichever call panics — the lookup, the removal
    of the old key, the insertion of the new one, the callback — the state is [wfw] *)
Theorem C18_put : forall f h q l k v,
  wfw h q l -> fsafex h q l (fun '(f1, h1, q1, r) => okx h q l h1 q1) (f_put f h q k v).
Proof. exact f_put_safe. Qed.

(** every operation with its footprint: at the end or at a panic the list is [wfw], it gained only
    freshly allocated nodes, and no cell outside its own nodes that existed before was written *)
Theorem C18_footprint : forall f h q l o,
  wfw h q l ->
  fsafex h q l (fun '(f1, h1, q1, r) => exists qm, okx h q l h1 qm /\ upto_cap qm q1 (hop_cap o (hcap qm))) (fstep f h q o).
Proof. exact fstep_safex. Qed.

(** the same for Drop: whether it ends or panics, nothing outside the list is touched *)
Theorem C18_drop_footprint : forall f h q l,
  wfw h q l ->
  match f_drop f h q with
  | FOk h1 => fresh h1 = fresh h /\ forall x, outside q l x -> cells h1 x = cells h x
  | FPanic h1 _ => fresh h1 = fresh h /\ forall x, outside q l x -> cells h1 x = cells h x
  | FErr _ => False
  end.
Proof. exact f_drop_frame. Qed.

(** ** the composite caches: any program over the primitives, on a family of lists *)

(** one action, any fuse: the family stays a family (every list [wfw], lists and nodes in flight
    pairwise disjoint, every list of capacity > 0), or the action panics in such a state *)
Theorem C18_family_step : forall f s o, ginv s -> gop_ok o -> gsafe (gstep f s o).
Proof. exact gstep_safe. Qed.

(** a program (the fuse runs through its actions; a panic ends it) *)
Theorem C18_family_program : forall p f s, ginv s -> Forall gop_ok p -> gsafe (gprog f s p).
Proof. exact gprog_safe. Qed.

(** every history of programs from nothing, each with its own fuse, later ones starting in what a
    panic left behind, drops included: it runs to the end, no memory error *)
Theorem C18_family_history : forall ps,
  Forall (fun fp => Forall gop_ok (snd fp)) ps -> exists s', grun ginit ps = Some s' /\ ginv s'.
Proof. exact ghistory_safe. Qed.

(** the separation step behind it: an operation on one list that was handed some nodes in flight *)
Theorem C18_family_separation : forall h h' F1 q l F2 flA flB q' l' fl',
  famw h (F1 ++ (q, l) :: F2) (flA ++ flB) ->
  wfw h' q' l' -> extW (addrs flA) h q l h' q' l' ->
  (forall a k v, In (a, (k, v)) fl' -> HeapPrim.inflight h' a k v) ->
  NoDup (fp (q', l') ++ addrs fl') ->
  (forall x, In x (addrs fl') -> In x (addrs l) \/ In x (addrs flA) \/ fresh h <= x)%nat ->
  famw h' (F1 ++ (q', l') :: F2) (fl' ++ flB).
Proof. exact famw_step. Qed.

(** with no fuse the primitives are those of the heap machine, of which the heap-level composite caches
    of C03 are made *)
Theorem C18_primitives_erase :
  (forall h q k r, h_remove_ent h q k = HOk r -> f_remove_ent None h q k = FOk (None, fst (fst r), snd (fst r), snd r)) /\
  (forall h q r, h_remove_lru_in h q = HOk r -> f_remove_lru_in None h q = FOk (None, fst (fst r), snd (fst r), snd r)) /\
  (forall h q n r, h_put_or_evict_nonnull h q n = HOk r ->
                   f_put_or_evict_nonnull None h q n = FOk (None, fst (fst r), snd (fst r), snd r)) /\
  (forall h q n r, h_put_nonnull h q n = HOk r -> f_put_nonnull None h q n = FOk (None, fst (fst r), snd (fst r), snd r)).
Proof.
  split; [exact f_remove_ent_erase|split; [exact f_remove_lru_in_erase|split; [exact f_put_or_evict_erase|exact f_put_nonnull_erase]]].
Qed.

(** with no fuse the fault machine is the heap machine, for every public operation *)
Theorem C18_erase_all : forall h q o h' q' out,
  hstep h q o = HOk (h', q', out) -> fstep None h q o = FOk (None, h', q', out).
Proof. exact fstep_erase. Qed.

(** the heap-level composite caches of C03: each operation is a program over the primitives (chosen as
    the code chooses its branches), and that program is safe under every fuse *)
Theorem C18_slru_step : forall h s la lb o h' s' out f,
  fam h [(hprob s, la); (hprot s, lb)] [] -> (0 < hcap (hprob s))%nat -> (0 < hcap (hprot s))%nat ->
  hs_step h s o = HOk (h', s', out) ->
  exists p, Forall gop_ok p /\ gprog None (gs_of [] h s) p = GOk None (gs_of [] h' s') /\ gsafe (gprog f (gs_of [] h s) p).
Proof. exact slru_step_panic_safe_all. Qed.

Theorem C18_twoq_step : forall h s lr lf lg o h' s' out f,
  fam h [(tq_r s, lr); (tq_f s, lf); (tq_g s, lg)] [] ->
  (0 < hcap (tq_r s))%nat -> (0 < hcap (tq_f s))%nat -> (0 < hcap (tq_g s))%nat ->
  (forall i kd pre pa pb, o <> QIter i kd pre pa pb) -> ht_step h s o = HOk (h', s', out) ->
  exists p fl, Forall gop_ok p /\ gprog None (gq_of h s) p = GOk None (gq_fl h' s' fl) /\ gsafe (gprog f (gq_of h s) p).
Proof. exact twoq_step_panic_safe. Qed.

Theorem C18_arc_step : forall h s l1 l2 l3 l4 o h' s' out f,
  fam h [(ha_t1 s, l1); (ha_b1 s, l2); (ha_t2 s, l3); (ha_b2 s, l4)] [] ->
  (0 < hcap (ha_t1 s))%nat -> (0 < hcap (ha_b1 s))%nat -> (0 < hcap (ha_t2 s))%nat -> (0 < hcap (ha_b2 s))%nat ->
  (forall i kd pre pa pb, o <> AIter i kd pre pa pb) -> ha_step h s o = HOk (h', s', out) ->
  exists p, Forall gop_ok p /\ gprog None (ga_of h s) p = GOk None (ga_of h' s') /\ gsafe (gprog f (ga_of h s) p).
Proof. exact arc_step_panic_safe. Qed.

Theorem C18_wtiny_step : forall h s la lb lw o h' s' out f,
  fam h [(hprob (hw_slru s), la); (hprot (hw_slru s), lb); (hw_lru s, lw)] [] ->
  (0 < hcap (hprob (hw_slru s)))%nat -> (0 < hcap (hprot (hw_slru s)))%nat -> (0 < hcap (hw_lru s))%nat ->
  hw_step h s o = HOk (h', s', out) ->
  exists p qs, Forall gop_ok p /\ Permutation qs (gls (gw_of h' s')) /\
               gprog None (gw_of h s) p = GOk None (mkG h' qs []) /\ gsafe (gprog f (gw_of h s) p).
Proof. exact wtiny_step_panic_safe_all. Qed.

(** [Clone for RawLRU] followed by the drop of the original, as a program: [new], then per entry the [Clone] of
    the key and of the value (ticks of class [TClone]) and a [put]; safe under every fuse *)
Theorem C18_rawlru_clone : forall h q l h' q' f,
  wf h q l -> (forall a, outside q l a -> cells h a = Free) -> (0 < hcap q)%nat -> h_clone_replace h q = HOk (h', q') ->
  exists p, Forall gop_ok p /\ gprog None (mkG h [q] []) p = GOk None (mkG h' [q'] []) /\ gsafe (gprog f (mkG h [q] []) p).
Proof. exact rawlru_clone_panic_safe. Qed.

(** end to end: any history of operations from [new] (no panic: the heap-level model of C03 describes it), then one
    more operation as the program it is with ANY fuse, then ANY programs over the primitives with any fuses — what
    the cache's code does in the states a panic leaves behind, which no model of its decisions describes —, drops
    included: never a memory error, always a family *)
Theorem C18_slru_history : forall pc fc os o f ps,
  (1 <= pc)%nat -> (1 <= fc)%nat -> Forall (fun fp => Forall gop_ok (snd fp)) ps ->
  exists h s outs,
    hs_run (fst (hs_new heap0 pc fc)) (snd (hs_new heap0 pc fc)) os = HOk (h, s, outs) /\
    ginv (gs_of [] h s) /\
    forall h' s' out, hs_step h s o = HOk (h', s', out) ->
      exists p, Forall gop_ok p /\ gprog None (gs_of [] h s) p = GOk None (gs_of [] h' s') /\
        match gprog f (gs_of [] h s) p with
        | GOk _ s1 | GPanic s1 => exists s2, grun s1 ps = Some s2 /\ ginv s2
        | GErr _ => False
        end.
Proof. exact slru_history_panic_safe. Qed.

Theorem C18_twoq_history : forall size rs es os o f ps,
  (1 <= size)%nat -> (1 <= es)%nat -> Forall qop_ok os -> (forall i kd pre pa pb, o <> QIter i kd pre pa pb) ->
  Forall (fun fp => Forall gop_ok (snd fp)) ps ->
  exists h s outs,
    ht_run (fst (ht_new heap0 size rs es)) (snd (ht_new heap0 size rs es)) os = HOk (h, s, outs) /\
    ginv (gq_of h s) /\
    forall h' s' out, ht_step h s o = HOk (h', s', out) ->
      exists p fl, Forall gop_ok p /\ gprog None (gq_of h s) p = GOk None (gq_fl h' s' fl) /\ after_prog f (gq_of h s) p ps.
Proof. exact twoq_history_panic_safe. Qed.

Theorem C18_arc_history : forall size os o f ps,
  (1 <= size)%nat -> Forall aop_ok os -> (forall i kd pre pa pb, o <> AIter i kd pre pa pb) ->
  Forall (fun fp => Forall gop_ok (snd fp)) ps ->
  exists h s outs,
    ha_run (fst (ha_new heap0 size)) (snd (ha_new heap0 size)) os = HOk (h, s, outs) /\
    ginv (ga_of h s) /\
    forall h' s' out, ha_step h s o = HOk (h', s', out) ->
      exists p, Forall gop_ok p /\ gprog None (ga_of h s) p = GOk None (ga_of h' s') /\ after_prog f (ga_of h s) p ps.
Proof. exact arc_history_panic_safe. Qed.

Theorem C18_wtiny_history : forall t kh wc pc fc os o f ps,
  wt_inv (mkWTiny t (lru_new wc false) (slru_new pc fc) kh) ->
  Forall (fun fp => Forall gop_ok (snd fp)) ps ->
  exists h s outs,
    hw_run (fst (hw_new heap0 t kh wc pc fc)) (snd (hw_new heap0 t kh wc pc fc)) os = HOk (h, s, outs) /\
    ginv (gw_of h s) /\
    forall h' s' out, hw_step h s o = HOk (h', s', out) ->
      exists p qs, Forall gop_ok p /\ Permutation qs (gls (gw_of h' s')) /\
                   gprog None (gw_of h s) p = GOk None (mkG h' qs []) /\ after_prog f (gw_of h s) p ps.
Proof. exact wtiny_history_panic_safe. Qed.

(** user code called by the composite cache itself (the KeyHasher of W-TinyLFU, the drop of a pair a
    primitive handed back) may sit between any two actions of the program: with ticks added anywhere
    the run without fuse is the same and every fuse is survived *)
Theorem C18_ticks_anywhere : forall s s' p p' f,
  ginv s -> Forall gop_ok p -> gprog None s p = GOk None s' -> with_ticks p p' ->
  gprog None s p' = GOk None s' /\ gsafe (gprog f s p').
Proof. exact prog_with_ticks_safe. Qed.

(** non-vacuity: SegmentedCache::put promoting into a full protected segment, as a program; the hash
    of the promoted key panics after the node is linked; later operations and both drops run *)
Theorem C18_family_witness :
  match grun ginit [(None, slru_setup); (Some (THash, 2%nat), slru_promote);
                    (None, [GPub 1 (HPeek 2); GPub 0 (HPut 3 30); GPub 1 (HPut 4 40)]%Z);
                    (Some (TDropV, 0%nat), [GDrop 0]); (None, [GDrop 0])] with
  | Some s => gls s = [] /\ gfl s = []
  | None => False
  end.
Proof. exact promote_panics_and_goes_on. Qed.

(** a liveness gap found on the way (outside C18): after a fault, [resize]'s loop
    [while map.len() > cap { remove_lru() }] can make no progress *)
Theorem C18_resize_may_spin :
  wfw spin_heap spin_q [(2%nat, (7%Z, 70%Z)); (3%nat, (8%Z, 80%Z))] /\
  f_remove_lru None spin_heap spin_q = FOk (None, spin_heap, spin_q, None) /\
  (length (hidx spin_q) > 0)%nat.
Proof. exact resize_may_spin. Qed.

Print Assumptions C18_step.
Print Assumptions C18_lossy.
Print Assumptions C18_reach.
Print Assumptions C18_noerr.
Print Assumptions C18_drop.
Print Assumptions C18_wf.
Print Assumptions C18_erase.
Print Assumptions C18_put.
Print Assumptions C18_resize_may_spin.
Print Assumptions C18_footprint.
Print Assumptions C18_drop_footprint.
Print Assumptions C18_family_step.
Print Assumptions C18_family_program.
Print Assumptions C18_family_history.
Print Assumptions C18_family_separation.
Print Assumptions C18_primitives_erase.
Print Assumptions C18_family_witness.
Print Assumptions C18_erase_all.
Print Assumptions C18_slru_step.
Print Assumptions C18_twoq_step.
Print Assumptions C18_arc_step.
Print Assumptions C18_wtiny_step.
Print Assumptions C18_rawlru_clone.
Print Assumptions C18_ticks_anywhere.
Print Assumptions C18_slru_history.
Print Assumptions C18_twoq_history.
Print Assumptions C18_arc_history.
Print Assumptions C18_wtiny_history.
