(** * C05 — totality: no operation ever panics.  Statements only.
    In the model every Rust [unwrap()], index and overflow-checked addition is an explicit
    [Panic] value; the theorems say that every operation of every reachable state returns [Ok].
    (RawLRU's own API contains no panic site in the model: its step function is total by
    construction.)  The constructor theorems are in the second half. *)
From VF Require Import Base Iter Enc Lru LruStep Slru TwoQ Arc CacheStep Tiny WTiny TinyStep
  BaseFacts LruFacts Counts SlruFacts TwoQFacts ArcFacts TinyFacts WTinyFacts Run C01Proofs.
From Coq Require Import NArith.

Theorem C05_slru_total : forall (pc fc : nat) (ops : list sop) (o : sop),
  (1 <= pc)%nat -> (1 <= fc)%nat ->
  exists s s' out, srun (slru_new pc fc) ops = Ok s /\ sstep s o = Ok (s', out).
Proof.
  intros pc fc ops o Hp Hf.
  destruct (runM_inv sstep slru_inv) with (ops := ops) (s := slru_new pc fc) as (s & E & Hi).
  - intros s o' Hi. destruct (sstep_ok s o' Hi) as (s' & out & E & Hi' & _). eauto.
  - now apply slru_new_inv.
  - destruct (sstep_ok s o Hi) as (s' & out & E' & _). eauto.
Qed.

Theorem C05_twoq_total : forall (size rs es : nat) (ops : list qop) (o : qop),
  (1 <= size)%nat -> (1 <= es)%nat ->
  exists s s' out, qrun (twoq_new size rs es) ops = Ok s /\ qstep s o = Ok (s', out).
Proof.
  intros size rs es ops o Hs He.
  destruct (runM_inv qstep twoq_inv) with (ops := ops) (s := twoq_new size rs es) as (s & E & Hi).
  - intros s o' Hi. destruct (qstep_ok s o' Hi) as (s' & out & E & Hi' & _). eauto.
  - now apply twoq_new_inv.
  - destruct (qstep_ok s o Hi) as (s' & out & E' & _). eauto.
Qed.

Theorem C05_arc_total : forall (size : nat) (ops : list aop) (o : aop),
  (1 <= size)%nat ->
  exists s s' out, arun (arc_new size) ops = Ok s /\ astep s o = Ok (s', out).
Proof.
  intros size ops o Hs.
  destruct (runM_inv astep arc_inv) with (ops := ops) (s := arc_new size) as (s & E & Hi).
  - intros s o' Hi. destruct (astep_ok s o' Hi) as (s' & out & E & Hi' & _). eauto.
  - now apply arc_new_inv.
  - destruct (astep_ok s o Hi) as (s' & out & E' & _). eauto.
Qed.

Theorem C05_wtiny_total : forall (s0 : wtiny) (ops : list cop) (o : cop),
  wt_inv s0 ->
  exists s s' out, wrun s0 ops = Ok s /\ wstep_trait s o = Ok (s', out).
Proof.
  intros s0 ops o H0.
  destruct (runM_inv wstep_trait wt_inv) with (ops := ops) (s := s0) as (s & E & Hi).
  - intros s o' Hi. destruct (wstep_trait_ok s o' Hi) as (s' & out & E & Hi' & _). eauto.
  - exact H0.
  - destruct (wstep_trait_ok s o Hi) as (s' & out & E' & _). eauto.
Qed.

(** TinyLFU: every operation, for every raw 64-bit hash (0 and u64::MAX included), on every
    well-formed estimator; both sketch variants (the position function is a parameter of
    [sketch_ok]-preservation: only the mask matters) *)
Theorem C05_tiny_increment : forall t h,
  tiny_ok t -> (h < two64)%N -> exists t', tl_increment t h = Ok t' /\ tiny_ok t'.
Proof. exact tl_increment_ok. Qed.
Theorem C05_tiny_estimate : forall t h,
  tiny_ok t -> (h < two64)%N -> exists e, tl_estimate t h = Ok e /\ (e <= 16)%N.
Proof. exact tl_estimate_ok. Qed.
Theorem C05_tiny_contains : forall t h, tiny_ok t -> (h < two64)%N -> exists r, tl_contains t h = Ok r.
Proof. exact tl_contains_ok. Qed.
Theorem C05_tiny_compare : forall t a b,
  tiny_ok t -> (a < two64)%N -> (b < two64)%N -> exists x y, tl_cmp t a b = Ok (x, y).
Proof. exact tl_cmp_ok. Qed.
Theorem C05_tiny_reset_clear : forall t,
  tiny_ok t -> tiny_ok (tl_try_reset t) /\ tiny_ok (tl_clear t).
Proof. intros t H. split; [now apply tl_try_reset_ok|now apply tl_clear_ok]. Qed.

(** every estimator the constructor builds is well formed: sketch width >= 1 up to 2^32
    counters (row width >= 1 byte, even counter count), any Bloom geometry satisfying
    [bloom_geometry_ok] (checked on every real instance by the correspondence run) *)
Theorem C05_tiny_ctor : forall size samples exp locs sds t,
  (size <= 2 ^ 32)%N -> bloom_geometry_ok exp locs = true ->
  tl_new size samples exp locs sds = Some t -> tiny_ok t.
Proof. exact tl_new_ok. Qed.

(** constructor validation of the sketch and of samples: width 0 / samples 0 are rejected *)
Theorem C05_tiny_ctor_rejects : forall samples exp locs sds,
  tl_new 0 samples exp locs sds = None /\ tl_new 5 0 exp locs sds = None.
Proof. intros. split; unfold tl_new; cbn; [destruct (N.eqb samples 0)|]; reflexivity. Qed.

Print Assumptions C05_slru_total.
Print Assumptions C05_twoq_total.
Print Assumptions C05_arc_total.
Print Assumptions C05_wtiny_total.
Print Assumptions C05_tiny_increment.
Print Assumptions C05_tiny_estimate.
Print Assumptions C05_tiny_contains.
Print Assumptions C05_tiny_compare.
Print Assumptions C05_tiny_reset_clear.
Print Assumptions C05_tiny_ctor.
Print Assumptions C05_tiny_ctor_rejects.
