(** * C05 — totality: no operation ever panics.  Statements only.
    In the model every Rust [unwrap()], index and overflow-checked addition is an explicit
    [Panic] value; the theorems say that every operation of every reachable state returns [Ok].
    (RawLRU's own API contains no panic site in the model: its step function is total by
    construction.)  The constructor theorems are in the second half. *)
From VF Require Import Base Iter Enc Lru LruStep Slru TwoQ Arc CacheStep Tiny WTiny TinyStep
  BaseFacts LruFacts Counts SlruFacts TwoQFacts ArcFacts TinyFacts WTinyFacts Run C01Proofs.
From Coq Require Import NArith ZArith Reals.
From Flocq Require Import Core.Core IEEE754.Binary IEEE754.Bits IEEE754.BinarySingleNaN.
From VF Require Import Sizing SizingFacts Conv ConvFacts LruFacts Sampled C20Proofs.

Theorem C05_slru_total : forall (pc fc : nat) (ops : list sop) (o : sop),
  (1 <= pc)%nat -> (1 <= fc)%nat ->
  exists s s' out, srun (slru_new pc fc) ops = Ok s /\ sstep s o = Ok (s', out).
Proof.
  intros pc fc ops o Hp Hf.
  destruct (runM_inv sstep slru_inv) with (ops := ops) (s := slru_new pc fc) as (s & E & Hi).
  - intros s o' Hi. destruct (sstep_ok s o' Hi) as (s' & out & E & Hi' & _). eauto.
  - now apply slru_new_inv.
  - destruct (sstep_ok s o Hi) as (s' & out & E' & _). eauto.
Qed.

Theorem C05_twoq_total : forall (size rs es : nat) (ops : list qop) (o : qop),
  (1 <= size)%nat -> (1 <= es)%nat ->
  exists s s' out, qrun (twoq_new size rs es) ops = Ok s /\ qstep s o = Ok (s', out).
Proof.
  intros size rs es ops o Hs He.
  destruct (runM_inv qstep twoq_inv) with (ops := ops) (s := twoq_new size rs es) as (s & E & Hi).
  - intros s o' Hi. destruct (qstep_ok s o' Hi) as (s' & out & E & Hi' & _). eauto.
  - now apply twoq_new_inv.
  - destruct (qstep_ok s o Hi) as (s' & out & E' & _). eauto.
Qed.

Theorem C05_arc_total : forall (size : nat) (ops : list aop) (o : aop),
  (1 <= size)%nat ->
  exists s s' out, arun (arc_new size) ops = Ok s /\ astep s o = Ok (s', out).
Proof.
  intros size ops o Hs.
  destruct (runM_inv astep arc_inv) with (ops := ops) (s := arc_new size) as (s & E & Hi).
  - intros s o' Hi. destruct (astep_ok s o' Hi) as (s' & out & E & Hi' & _). eauto.
  - now apply arc_new_inv.
  - destruct (astep_ok s o Hi) as (s' & out & E' & _). eauto.
Qed.

Theorem C05_wtiny_total : forall (s0 : wtiny) (ops : list cop) (o : cop),
  wt_inv s0 ->
  exists s s' out, wrun s0 ops = Ok s /\ wstep_trait s o = Ok (s', out).
Proof.
  intros s0 ops o H0.
  destruct (runM_inv wstep_trait wt_inv) with (ops := ops) (s := s0) as (s & E & Hi).
  - intros s o' Hi. destruct (wstep_trait_ok s o' Hi) as (s' & out & E & Hi' & _). eauto.
  - exact H0.
  - destruct (wstep_trait_ok s o Hi) as (s' & out & E' & _). eauto.
Qed.

(** TinyLFU: every operation, for every raw 64-bit hash (0 and u64::MAX included), on every
    well-formed estimator; both sketch variants (the position function is a parameter of
    [sketch_ok]-preservation: only the mask matters) *)
Theorem C05_tiny_increment : forall t h,
  tiny_ok t -> (h < two64)%N -> exists t', tl_increment t h = Ok t' /\ tiny_ok t'.
Proof. exact tl_increment_ok. Qed.
Theorem C05_tiny_estimate : forall t h,
  tiny_ok t -> (h < two64)%N -> exists e, tl_estimate t h = Ok e /\ (e <= 16)%N.
Proof. exact tl_estimate_ok. Qed.
Theorem C05_tiny_contains : forall t h, tiny_ok t -> (h < two64)%N -> exists r, tl_contains t h = Ok r.
Proof. exact tl_contains_ok. Qed.
Theorem C05_tiny_compare : forall t a b,
  tiny_ok t -> (a < two64)%N -> (b < two64)%N -> exists x y, tl_cmp t a b = Ok (x, y).
Proof. exact tl_cmp_ok. Qed.
Theorem C05_tiny_reset_clear : forall t,
  tiny_ok t -> tiny_ok (tl_try_reset t) /\ tiny_ok (tl_clear t).
Proof. intros t H. split; [now apply tl_try_reset_ok|now apply tl_clear_ok]. Qed.

(** every estimator the constructor builds is well formed: sketch width >= 1 up to 2^32
    counters (row width >= 1 byte, even counter count), any Bloom geometry satisfying
    [bloom_geometry_ok] (checked on every real instance by the correspondence run) *)
Theorem C05_tiny_ctor : forall size samples exp locs sds t,
  (size <= 2 ^ 32)%N -> bloom_geometry_ok exp locs = true ->
  tl_new size samples exp locs sds = Some t -> tiny_ok t.
Proof. exact tl_new_ok. Qed.

(** constructor validation of the sketch and of samples: width 0 / samples 0 are rejected *)
Theorem C05_tiny_ctor_rejects : forall samples exp locs sds,
  tl_new 0 samples exp locs sds = None /\ tl_new 5 0 exp locs sds = None.
Proof. intros. split; unfold tl_new; cbn; [destruct (N.eqb samples 0)|]; reflexivity. Qed.


(** ** constructors (Sizing.v: Flocq binary64 for the ratio arithmetic; ratios are bit patterns) *)

(** every constructor call of the grid alphabet returns a result (Ok with the sub-sizes, or Err):
    the model has no panic site, and the correspondence run checks the real constructors under
    catch_unwind against it on the whole argument grid *)
Theorem C05_ctor_total :
  (forall a, exists out, ctor_step [140; 1; a]%Z = Some out) /\
  (forall a b, exists out, ctor_step [140; 2; a; b]%Z = Some out) /\
  (forall a b c, exists out, ctor_step [140; 3; a; b; c]%Z = Some out) /\
  (forall a b c, exists out, ctor_step [140; 4; a; b; c]%Z = Some out) /\
  (forall a, exists out, ctor_step [140; 5; a]%Z = Some out) /\
  (forall a b c d, exists out, ctor_step [140; 6; a; b; c; d]%Z = Some out) /\
  (forall a b, exists out, ctor_step [140; 7; a; b]%Z = Some out) /\
  (forall a b c, exists out, ctor_step [140; 8; a; b; c]%Z = Some out) /\
  (forall a, exists out, ctor_step [140; 9; a]%Z = Some out) /\
  (forall a b, exists out, ctor_step [140; 10; a; b]%Z = Some out) /\
  (forall a b, exists out, ctor_step [140; 11; a; b]%Z = Some out) /\
  (forall a, exists out, ctor_step [140; 12; a]%Z = Some out) /\
  (forall a, exists out, ctor_step [140; 13; a]%Z = Some out) /\
  (forall a, exists out, ctor_step [140; 14; a]%Z = Some out).
Proof. repeat split; intros; cbn [ctor_step]; eauto. Qed.

(** a ratio is accepted exactly when it is a finite number of [0, 1]; NaN, the infinities and
    (for the false positive ratio) the end points are rejected *)
Theorem C05_ratio_validation : forall r,
  ratio_ok r = true <-> is_finite r = true /\ (0 <= B2R r <= 1)%R.
Proof. exact ratio_ok_spec. Qed.
Theorem C05_nan_rejected :
  ratio_ok B754_nan = false /\ ratio_ok (B754_infinity false) = false /\ ratio_ok (B754_infinity true) = false /\
  fp_ok B754_nan = false /\ fp_ok (B754_infinity false) = false /\ fp_ok (B754_infinity true) = false /\
  fp_ok f_zero = false /\ fp_ok f_one = false.
Proof. exact nan_and_infinities_rejected. Qed.

(** the 2Q constructor (both with_2q_parameters and the builder): the documented rejections, in
    order, and a ghost quota that floors to 0 is InvalidSize(0) *)
Theorem C05_twoq_ctor : forall size rr gr,
  (0 <= size)%Z ->
  (size = 0%Z -> ctor_twoq size rr gr = err 1 0) /\
  (size <> 0%Z -> ratio_ok (f_of_bits rr) = false -> ctor_twoq size rr gr = err 2 rr) /\
  (size <> 0%Z -> ratio_ok (f_of_bits rr) = true -> ratio_ok (f_of_bits gr) = false ->
     ctor_twoq size rr gr = err 3 gr) /\
  (size <> 0%Z -> ratio_ok (f_of_bits rr) = true -> ratio_ok (f_of_bits gr) = true ->
     let rs := f_floor_usize (f_mul (f_of_Z size) (f_of_bits rr)) in
     let es := f_floor_usize (f_mul (f_of_Z size) (f_of_bits gr)) in
     ctor_twoq size rr gr = if (es =? 0)%Z then err 1 0 else [0; size; rs; es]%Z).
Proof. exact ctor_twoq_spec. Qed.

(** zero sizes and zero samples are rejected with the matching error *)
Theorem C05_zero_sizes_rejected : forall a b c d fp,
  ctor_rawlru 0 = err 1 0 /\ ctor_arc 0 = err 1 0 /\ ctor_slru 0 a = err 1 0 /\ ctor_slru (Z.pos b) 0 = err 1 0 /\
  ctor_wtiny_sizes 0 a c d fp = err 4 0 /\ ctor_wtiny_sizes (Z.pos b) 0 c d fp = err 5 0 /\
  ctor_wtiny_sizes (Z.pos b) (Z.pos b) 0 d fp = err 6 0 /\
  ctor_wtiny_sizes (Z.pos b) (Z.pos b) (Z.pos b) 0 fp = err 7 0 /\ ctor_tiny a 0 fp = err 7 0.
Proof.
  intros. unfold ctor_rawlru, ctor_arc, ctor_slru, ctor_wtiny_sizes, ctor_tiny. cbn [Z.eqb].
  repeat split; try reflexivity. destruct a; reflexivity.
Qed.

(** ** builders (the four a user can name): a builder is a record of fields; every script of setters, from
    [default()] or [new(..)], followed by [finalize] / [from_builder], returns Ok or Err *)
Fixpoint script_ok (which : Z) (script : list Z) : bool :=
  match script with
  | [] => true
  | setter :: _ :: rest => match setter_field which setter with Some _ => script_ok which rest | None => false end
  | _ => false
  end.

Theorem C05_builder_total : forall which script b,
  (1 <= which <= 4)%Z -> script_ok which script = true ->
  exists b' out, bld_run which script b = Some b' /\ bld_finalize which b' = Some out.
Proof.
  intros which script b Hw. revert b.
  assert (Hfin : forall b', exists out, bld_finalize which b' = Some out).
  { intros b'. unfold bld_finalize.
    destruct (Z.eqb_spec which 1); [eauto|]. destruct (Z.eqb_spec which 2); [eauto|].
    destruct (Z.eqb_spec which 3); [eauto|]. destruct (Z.eqb_spec which 4); [eauto|]. lia. }
  induction script as [script IH] using (well_founded_induction (Wf_nat.well_founded_ltof _ (@length Z))).
  intros b Hok. destruct script as [|setter [|arg rest]]; cbn [script_ok bld_run] in *.
  - destruct (Hfin b) as [out E]. eauto.
  - discriminate.
  - destruct (setter_field which setter) as [f|]; [|discriminate].
    apply IH; [unfold ltof; cbn; lia|exact Hok].
Qed.

(** a setter writes its own field and carries every other one; the hasher setters change nothing that the
    result depends on *)
Theorem C05_builder_setters : forall f g x y b,
  bset f x (bset f y b) = bset f x b /\
  (f <> g -> bset f x (bset g y b) = bset g y (bset f x b)) /\
  bset FHasher x b = b.
Proof.
  intros f g x y b. split; [destruct f; reflexivity|]. split; [|reflexivity].
  intros Hne. destruct f, g; try reflexivity; congruence.
Qed.

(** hence [finalize] is the constructor function of the values set last, whatever else the script did *)
Theorem C05_builder_finalize : forall b size rr gr prob prot w samples fp,
  bld_finalize 1 (bset FA size (bset FR1 rr (bset FR2 gr b))) = Some (ctor_twoq size rr gr) /\
  bld_finalize 2 (bset FA prob (bset FB prot b)) = Some (ctor_slru prob prot) /\
  bld_finalize 3 (bset FA size b) = Some (ctor_arc size) /\
  bld_finalize 4 (bset FA w (bset FB prot (bset FC prob (bset FD samples (bset FR1 fp b)))))
    = Some (ctor_wtiny_sizes w prot prob samples fp).
Proof. intros. repeat split. Qed.

(** the defaults: a TwoQueueCacheBuilder starts with the ratios 0.25 / 0.5, a WTinyLFUCacheBuilder with the false
    positive ratio 0.01, every size 0 (so [default().finalize()] is an error, not a panic) *)
Theorem C05_builder_defaults :
  bld_finalize 1 (bld_default 1) = Some (err 1 0) /\ bld_finalize 2 (bld_default 2) = Some (err 1 0) /\
  bld_finalize 3 (bld_default 3) = Some (err 1 0) /\ bld_finalize 4 (bld_default 4) = Some (err 4 0) /\
  bld_new 1 [8]%Z = Some (mkBld 8 0 0 0 bits_0_25 bits_0_50) /\
  bld_step [141; 1; 1; 8]%Z = Some [0; 8; 2; 4]%Z.
Proof. vm_compute. repeat split. Qed.

(** ** conversions: [FromIterator] and the eleven [From] impls all collect the pairs, size the cache by
    [max 1 (number of pairs)] and [put] them in iteration order ([Lru.from_iter]): a total function whose result
    is a well-formed cache of capacity at least 1 that has evicted nothing — every key of the source is retained
    with the value of its last occurrence *)
Theorem C05_conversions : forall l,
  let s := from_iter l in
  cap s = Nat.max 1 (length l) /\ lru_inv s /\
  (forall k, Base.find k (items s) = last_val k l) /\ (length (items s) <= length l)%nat.
Proof. exact from_iter_spec. Qed.

Theorem C05_conversion_total : forall src pairs l,
  dec_pairs pairs = Some l -> exists out, conv_step (142 :: src :: pairs)%Z = Some out.
Proof. intros src pairs l E. cbn [conv_step]. rewrite E. eauto. Qed.

Example C05_conversion_examples :
  conv_step [142; 0]%Z = Some [1; 0]%Z /\
  conv_step [142; 4; 1; 10; 2; 20; 1; 11]%Z = Some [3; 2; 1; 11; 2; 20]%Z.
Proof. vm_compute. split; reflexivity. Qed.

(** ** the cost tracker (SampledLFU): its operations are total functions (the model has no panic site) and its i64
    arithmetic wraps, so with arbitrary i64 costs and capacities [used] and every [room_left] stay i64 values *)
Theorem C05_sampled_no_overflow : forall (mc : Z) (n : nat) (ops : list samop) (c : Z),
  let s := samrun (sam_new mc n) ops in in64 (sused s) /\ in64 (sam_room_left s c).
Proof. exact sampled_no_overflow. Qed.

Print Assumptions C05_slru_total.
Print Assumptions C05_twoq_total.
Print Assumptions C05_arc_total.
Print Assumptions C05_wtiny_total.
Print Assumptions C05_tiny_increment.
Print Assumptions C05_tiny_estimate.
Print Assumptions C05_tiny_contains.
Print Assumptions C05_tiny_compare.
Print Assumptions C05_tiny_reset_clear.
Print Assumptions C05_tiny_ctor.
Print Assumptions C05_tiny_ctor_rejects.
Print Assumptions C05_ctor_total.
Print Assumptions C05_ratio_validation.
Print Assumptions C05_nan_rejected.
Print Assumptions C05_twoq_ctor.
Print Assumptions C05_zero_sizes_rejected.
Print Assumptions C05_builder_total.
Print Assumptions C05_builder_setters.
Print Assumptions C05_builder_finalize.
Print Assumptions C05_builder_defaults.
Print Assumptions C05_conversions.
Print Assumptions C05_conversion_total.
Print Assumptions C05_sampled_no_overflow.
