(** * C14 — iterators visit each entry exactly once, in order, from both ends.  Statements only.
    [it_run lru_order rs rem]: the requests [rs] (Front = next, Back = next_back, each optionally
    storing a value through the yielded reference) run on an iterator whose remaining entries
    are [rem], most-recent first; all ten iterator types of raw.rs (and the per-list families of
    2Q and ARC, which are the same types) are this machine with a projection.  The theorems hold
    for every list — hence for every reachable cache state, empty and single-entry lists
    included — and every request sequence of any length. *)
From VF Require Import Base Iter Enc Lru LruStep BaseFacts LruFacts C13Proofs C14Proofs
  Heap HeapFacts HeapOps HeapMulti HeapIterDef HeapIter.
From Coq Require Import List.

(** exactly once, in order, never skipping: the entries yielded from the front (in yield order),
    the entries not yet yielded, and the entries yielded from the back (reversed) always
    reassemble the list the iterator was created on *)
Theorem C14_exactly_once_in_order : forall lru_order rs rem,
  let '(ys, rem', _) := it_run lru_order rs rem in
  let '(h, t) := yields_by_end lru_order rs ys in
  h ++ rem' ++ rev t = rem.
Proof. intros. apply it_run_partition. Qed.

(** size_hint / len are exact after every step: one less after each item, 0 with [None] *)
Theorem C14_len_exact : forall lru_order rs rem,
  lens_ok (length rem) (fst (fst (it_run lru_order rs rem))) /\
  length (fst (fst (it_run lru_order rs rem))) = length rs.
Proof. intros. apply it_run_lens. Qed.

(** exactly len() items: [n] requests on [m] entries yield min(n, m) items *)
Theorem C14_count : forall lru_order rs rem,
  somes (fst (fst (it_run lru_order rs rem))) = Nat.min (length rs) (length rem).
Proof. intros. apply it_run_count. Qed.

(** exhausted iterators stay exhausted *)
Theorem C14_fused : forall lru_order rs rem, fused (fst (fst (it_run lru_order rs rem))).
Proof. intros. apply it_run_fused. Qed.

(** the *_lru variants are exact reverses: same yields as the MRU iterator on the reversed list *)
Theorem C14_lru_is_reverse : forall rs rem,
  let '(ys, rem', wr) := it_run true rs rem in
  let '(ys2, rem2, wr2) := it_run false rs (rev rem) in
  ys = ys2 /\ rem' = rev rem2 /\ wr = wr2.
Proof. intros. apply it_run_lru_is_reverse. Qed.

(** a full forward traversal yields the whole list in the documented order *)
Theorem C14_full_traversal : forall lru_order n l,
  (length l <= n)%nat ->
  somes_list (fst (fst (it_run lru_order (repeat (Front, None) n) l))) = if lru_order then rev l else l.
Proof. exact it_run_all_front. Qed.

(** keys / values iterators are the projections of the entry iterators (by construction of the
    encoding: the same yields, projected) *)
Theorem C14_projections : forall ys,
  enc_yields 1 ys = flat_map (fun y => match fst y with
                                       | Some (k, _) => [1; k; zn (snd y)] | None => [0; zn (snd y)] end) ys /\
  enc_yields 2 ys = flat_map (fun y => match fst y with
                                       | Some (_, v) => [1; v; zn (snd y)] | None => [0; zn (snd y)] end) ys.
Proof.
  intros ys. unfold enc_yields. split; apply flat_map_ext; intros [[[k v]|] n]; reflexivity.
Qed.

(** writes through the mutable iterators never change the order; immutable iterators change nothing *)
Theorem C14_mut_keeps_order : forall kd pre pa pb l,
  keys (snd (iter_script kd pre pa pb l)) = keys l.
Proof. exact iter_script_keeps_order. Qed.
Theorem C14_immutable_changes_nothing : forall kd pre pa pb l,
  ik_mut kd = false -> snd (iter_script kd pre pa pb l) = l.
Proof. exact iter_script_read_only. Qed.

(** clones of an iterator advance independently *)
Theorem C14_clone_independent : forall kd pre pa pa' pb l,
  ik_mut kd = false ->
  snd (fst (iter_script kd pre pa pb l)) = snd (fst (iter_script kd pre pa' pb l)).
Proof. exact iter_clone_independent. Qed.

Example C14_witness :
  fst (fst (it_run false [(Front, None); (Back, None); (Back, None); (Front, None); (Front, None)]
                   [(1, 10); (2, 20); (3, 30)]))
  = [(Some (1, 10), 2%nat); (Some (3, 30), 1%nat); (Some (2, 20), 0%nat); (None, 0%nat); (None, 0%nat)].
Proof. vm_compute. reflexivity. Qed.

(** the pointer clause: on the heap (layer H of C03) an iterator is a countdown and two cursors; for every
    script on a well-formed list the items are those of the list-level machine above, every cursor
    dereference hits a linked node (never a sentinel, never a freed cell), the nodes handed out are
    pairwise distinct (so no two [&mut V] alias), and the chain keeps its nodes *)
Theorem C14_heap_iter : forall h q l lru_order rs,
  wf h q l ->
  exists it h' it' ads l',
    h_iter h q = HOk it /\
    h_it_run h it lru_order rs = HOk (h', it', fst (fst (it_run lru_order rs (entries l))), ads) /\
    wf h' q l' /\ addrs l' = addrs l /\ NoDup ads /\ (forall a, In a ads -> In a (addrs l)) /\
    fresh h' = fresh h /\ (forall x, ~ In x (addrs l) -> cells h' x = cells h x) /\
    entries l' = apply_writes (snd (it_run lru_order rs (entries l))) (entries l).
Proof. exact h_iter_safe. Qed.

(** ... and over one list of a composite cache (2Q, ARC, the segments of an SLRU): the other lists and the
    nodes in flight are untouched, the family stays separated *)
Theorem C14_heap_family_iter : forall h F1 q l F2 fl lru_order rs,
  fam h (F1 ++ (q, l) :: F2) fl ->
  exists it h' it' ads l',
    h_iter h q = HOk it /\
    h_it_run h it lru_order rs = HOk (h', it', fst (fst (it_run lru_order rs (entries l))), ads) /\
    fam h' (F1 ++ (q, l') :: F2) fl /\ addrs l' = addrs l /\ NoDup ads /\ (forall a, In a ads -> In a (addrs l)) /\
    entries l' = apply_writes (snd (it_run lru_order rs (entries l))) (entries l) /\
    (forall x, ~ In x (addrs l) -> cells h' x = cells h x).
Proof. exact fam_iter. Qed.

Print Assumptions C14_exactly_once_in_order.
Print Assumptions C14_len_exact.
Print Assumptions C14_count.
Print Assumptions C14_fused.
Print Assumptions C14_lru_is_reverse.
Print Assumptions C14_full_traversal.
Print Assumptions C14_projections.
Print Assumptions C14_mut_keeps_order.
Print Assumptions C14_immutable_changes_nothing.
Print Assumptions C14_clone_independent.
Print Assumptions C14_heap_iter.
Print Assumptions C14_heap_family_iter.
