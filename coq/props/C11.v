(** * C11 — TinyLFU estimates never under-count, age on schedule, and compare consistently.
    Statements only.  The specification [fspec] (C11Proofs.v) keeps, per 64-bit hash, the exact
    aged access count of the property: the first access in a sample window sets the doorkeeper
    flag, further ones count up to 15, a reset halves every count and clears every flag, and the
    window counter [fw] advances with every recorded access and every explicit try_reset.  The
    real estimator is the bit-level model of bloom.rs / count_min_row.rs / the std and no_std
    sketches / tinylfu.rs.  Everything is quantified over every sketch width up to 2^32 counters,
    every sample size >= 1, every Bloom geometry satisfying [bloom_geometry_ok] (checked on every
    real instance), every seed list (std: four seeds, no_std: none), every raw hash below 2^64
    (0 and u64::MAX included) and every history of increment / try_reset / clear. *)
From VF Require Import Base Tiny TinyFacts C11Proofs.
From Coq Require Import NArith.
Local Open Scope N_scope.

(** the specification, spelled out *)
Theorem C11_spec_def : forall samples f h,
  exact f h = fcnt f h + (if fdoor f h then 1 else 0) /\
  spec_try_reset samples f =
    (if samples <=? fw f + 1 then mkSpec (fun x => fcnt f x / 2) (fun _ => false) 0
     else mkSpec (fcnt f) (fdoor f) (fw f + 1)) /\
  spec_record f h =
    (if fdoor f h then mkSpec (fun x => if x =? h then N.min 15 (fcnt f h + 1) else fcnt f x) (fdoor f) (fw f)
     else mkSpec (fcnt f) (fun x => if x =? h then true else fdoor f x) (fw f)) /\
  spec_increment samples f h = spec_try_reset samples (spec_record f h) /\
  spec_clear f = mkSpec (fun _ => 0) (fun _ => false) 0.
Proof. intros. repeat split. Qed.

(** never below the exact aged count, never above 16; the window counter follows the schedule;
    the doorkeeper has no false negatives — after every history, on every constructed estimator *)
Theorem C11_estimate_bounds : forall size samples exp locs sds t ops h,
  size <= 2 ^ 32 -> bloom_geometry_ok exp locs = true ->
  tl_new size samples exp locs sds = Some t -> Forall top_ok ops -> h < two64 ->
  let f := frun samples spec_new ops in
  exists t' e, trun t ops = Ok t' /\ tl_estimate t' h = Ok e /\ exact f h <= e /\ e <= 16 /\
               tw t' = fw f /\ (fdoor f h = true -> tl_contains t' h = Ok true).
Proof.
  intros size samples exp locs sds t ops h Hsz Hg Hn Hops Hh f.
  destruct (tl_new_rel _ _ _ _ _ _ Hsz Hg Hn) as (Hrel & Hs & _).
  destruct (trun_rel ops t spec_new Hrel Hops) as (t' & E & Hrel' & _). rewrite Hs in Hrel'.
  destruct (estimate_lower_bound t' _ h Hrel' Hh) as (e & Ee & Hlo & Hhi).
  exists t', e. repeat split; auto.
  - apply Hrel'.
  - intros Hd. eapply no_false_negative; eauto.
Qed.

(** exact when only one key has ever been recorded *)
Theorem C11_single_key_exact : forall size samples exp locs sds t ops h,
  size <= 2 ^ 32 -> bloom_geometry_ok exp locs = true ->
  tl_new size samples exp locs sds = Some t -> h < two64 -> Forall (only_key h) ops ->
  exists t', trun t ops = Ok t' /\ tl_estimate t' h = Ok (exact (frun samples spec_new ops) h).
Proof.
  intros size samples exp locs sds t ops h Hsz Hg Hn Hh Hops.
  pose proof (tl_new_single _ _ _ _ _ _ h Hsz Hg Hn) as Hrel.
  destruct (tl_new_rel _ _ _ _ _ _ Hsz Hg Hn) as (_ & Hs & _).
  destruct (single_key_exact ops t spec_new h Hrel Hh Hops) as (t' & E & Hest). rewrite Hs in Hest. eauto.
Qed.

(** 0 for every key right after clear *)
Theorem C11_clear_zero : forall t h, tiny_wf t -> h < two64 -> tl_estimate (tl_clear t) h = Ok 0.
Proof. exact estimate_after_clear. Qed.

(** a reset happens exactly when the window counter reaches the sample size, and then the
    counter restarts at 0, the doorkeeper is empty and every 4-bit counter is halved *)
Theorem C11_reset_schedule : forall t,
  tl_try_reset t =
  if tsamples t <=? tw t + 1 then tl_reset t else mkTiny (ctr t) (door t) (tsamples t) (tw t + 1).
Proof. exact try_reset_schedule. Qed.
Theorem C11_reset_effect : forall t,
  tiny_wf t ->
  tw (tl_reset t) = 0 /\
  (forall h, h < two64 -> tl_contains (tl_reset t) h = Ok false) /\
  (forall i r, nth_error (rows (ctr t)) i = Some r ->
     exists r', nth_error (rows (ctr (tl_reset t))) i = Some r' /\ forall x, rget r' x = rget r x / 2).
Proof. exact reset_effect. Qed.

(** the invariant behind the bounds, one step at a time *)
Theorem C11_increment_step : forall t f h,
  tiny_rel t f -> h < two64 ->
  exists t', tl_increment t h = Ok t' /\ tiny_rel t' (spec_increment (tsamples t) f h) /\
             tsamples t' = tsamples t.
Proof. exact tl_increment_rel. Qed.

(** lt / le / gt / ge / eq order two keys exactly as their estimates do: the comparison helpers
    compute both estimates and compare the numbers *)
Theorem C11_compare : forall t a b x y,
  tl_estimate t a = Ok x -> tl_estimate t b = Ok y ->
  tl_cmp t a b = Ok (x, y) /\ tl_lt t a b = Ok (x <? y).
Proof.
  intros t a b x y Ha Hb. unfold tl_lt, tl_cmp. rewrite Ha, Hb. cbn. auto.
Qed.

(** the 4-bit counters: increment saturates at 15 and touches no other counter, reset halves *)
Theorem C11_counter_arithmetic : forall r i,
  bytes_ok r -> in_row r i ->
  rget (rincr r i) i = N.min 15 (rget r i + 1) /\ (forall j, j <> i -> rget (rincr r i) j = rget r j) /\
  (forall j, rget (row_reset r) j = rget r j / 2) /\ (forall j, rget (row_clear r) j = 0).
Proof.
  intros r i Hb Hi. destruct (rincr_spec r i Hb Hi) as (_ & _ & H1 & H2).
  repeat split; auto; [apply row_reset_spec; exact Hb|apply row_clear_spec].
Qed.

(** non-vacuity: samples = 4, one key incremented four times: the 4th access triggers the reset *)
Example C11_witness :
  match tl_new 16 4 9 2 [11; 22; 33; 44] with
  | Some t =>
    match trun t [TIncr 1; TIncr 1; TIncr 1; TIncr 1] with
    | Ok t' => tl_estimate t' 1 = Ok 1 /\ tl_estimate t' 2 = Ok 0 /\ tw t' = 0
    | Panic _ => False
    end
  | None => False
  end.
Proof. vm_compute. repeat split; reflexivity. Qed.

Print Assumptions C11_spec_def.
Print Assumptions C11_estimate_bounds.
Print Assumptions C11_single_key_exact.
Print Assumptions C11_clear_zero.
Print Assumptions C11_reset_schedule.
Print Assumptions C11_reset_effect.
Print Assumptions C11_increment_step.
Print Assumptions C11_compare.
Print Assumptions C11_counter_arithmetic.
