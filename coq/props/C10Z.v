(** * C10, continued — the decisions of WTinyLFUCache do not look at the values.  Statements only.
    The key projection of the W-TinyLFU model is a simulation of W-TinyLFU written over keys alone
    ([KeyProjWTiny.v]): the admission duel between the candidate pushed out of the window and the least recent
    probationary entry, the window hit that promotes into the protected segment and the demotion into the window, what
    a put reports (as keys), the accesses the estimator records and whether a call panics are functions of the keys,
    the capacities and the estimator. *)
From Coq Require Import List ZArith.
Import ListNotations.
From VF Require Import Base Lru Slru Tiny WTiny TinyStep KeyProj KeyProjSlru KeyProjTwoQ KeyProjArc KeyProjWTiny KeyProjCompRun.

Theorem C10_put_is_value_blind : forall s k v,
  match wput s k v with
  | Ok (s', r) => kwput (wproj s) k = Ok (wproj s', put_keys r)
  | Panic n => kwput (wproj s) k = Panic n
  end.
Proof. exact wput_blind. Qed.

Theorem C10_admission_is_value_blind : forall s l1 ck cv,
  match wt_admit s l1 ck cv with
  | Ok (s', r) => kw_admit (wproj s) (kproj l1) ck = Ok (wproj s', put_keys r)
  | Panic n => kw_admit (wproj s) (kproj l1) ck = Panic n
  end.
Proof. exact wt_admit_blind. Qed.

Theorem C10_get_is_value_blind : forall s k w,
  match wget_mut s k w with
  | Ok (s', r) => kwget (wproj s) k = Ok (wproj s', hit r)
  | Panic n => kwget (wproj s) k = Panic n
  end.
Proof. exact wget_mut_blind. Qed.

Theorem C10_remove_is_value_blind : forall s k,
  let '(s', r) := wremove s k in kwremove (wproj s) k = (wproj s', hit r).
Proof. exact wremove_blind. Qed.

(** whole histories: after any sequence of put / get / get_mut / remove with whatever values the window, the main cache and
    the estimator are what W-TinyLFU over keys alone holds after the same calls - and the run panics exactly when that one does *)
Theorem C10_history_is_value_blind : forall ops s,
  match crun wtiny wvstep s ops with
  | Ok s' => ckrun kwtiny wkstep (wproj s) (map cstrip ops) = Ok (wproj s')
  | Panic n => ckrun kwtiny wkstep (wproj s) (map cstrip ops) = Panic n
  end.
Proof. exact wrun_blind. Qed.

(** the same puts with and without values on a real configuration (window 1, protected 2, probationary 1): the same key
    ends in the window, the same keys in the main cache *)
Definition wcfg : list Z :=
  [1; 2; 1; 1000; 1; 14; 7; 2636337188142298958; 1521226405466325455; 12969086881763019711; 8114145705547727143]%Z.
Definition wput3 (a : val) : option kwtiny :=
  match winit wcfg with
  | Some s0 =>
    match (do (s1, _) <- wput s0 1 a; do (s2, _) <- wput s1 2 a; do (s3, _) <- wput s2 3 a; Ok s3) with
    | Ok s => Some (wproj s)
    | Panic _ => None
    end
  | None => None
  end.
Example C10_value_blind_witness :
  option_map (fun s => (kitems (kw_lru s), kitems (fst (kw_slru s)), kitems (snd (kw_slru s)))) (wput3 10)
  = option_map (fun s => (kitems (kw_lru s), kitems (fst (kw_slru s)), kitems (snd (kw_slru s)))) (wput3 0) /\
  option_map (fun s => kitems (kw_lru s)) (wput3 0) = Some [3%Z].
Proof. vm_compute. split; reflexivity. Qed.

Print Assumptions C10_put_is_value_blind.
Print Assumptions C10_admission_is_value_blind.
Print Assumptions C10_get_is_value_blind.
Print Assumptions C10_remove_is_value_blind.
Print Assumptions C10_history_is_value_blind.
