(** * C13 — read-only operations never change what later operations return.  Statements only.
    The state of each model is the *whole* state the implementation's snapshot exposes: every
    list in order, every value, ARC's p, and for W-TinyLFU the estimator (counters, doorkeeper
    bits, sample counter).  "Read-only call" = the boolean classifiers of C13Proofs.v:
    peek, peek_mut without a write, contains, len, cap, is_empty, every peek_lru/peek_mru variant
    (the _mut ones without a write), get_mru, every iterator script that performs no write,
    the per-segment / per-list length, capacity and peek accessors, ARC's partition(), Debug. *)
From VF Require Import Base Iter Enc Lru LruStep Slru TwoQ Arc CacheStep Tiny WTiny TinyStep
  BaseFacts LruFacts Run C01Proofs C13Proofs.

(** a read-only call returns the very same state (and, for RawLRU, fires no callback) *)
Theorem C13_lru_state_unchanged : forall s o,
  l_read_only o = true -> fst (fst (lstep s o)) = s /\ snd (lstep s o) = [].
Proof. exact lstep_read_only. Qed.
Theorem C13_slru_state_unchanged : forall s o,
  s_read_only o = true -> exists out, sstep s o = Ok (s, out).
Proof. exact sstep_read_only. Qed.
Theorem C13_twoq_state_unchanged : forall s o,
  q_read_only o = true -> exists out, qstep s o = Ok (s, out).
Proof. exact qstep_read_only. Qed.
Theorem C13_arc_state_unchanged : forall s o,
  a_read_only o = true -> exists out, astep s o = Ok (s, out).
Proof. exact astep_read_only. Qed.
(** W-TinyLFU: the state includes the frequency estimator *)
Theorem C13_wtiny_state_unchanged : forall s o,
  c_read_only o = true -> exists out, wstep_trait s o = Ok (s, out).
Proof. exact wstep_read_only. Qed.

(** inserting any list [rs] of read-only calls at any position of any history changes neither
    the final state nor any result of the calls after the insertion point *)
Theorem C13_lru_insertion : forall (h1 rs h2 : list lop) (s0 : lru),
  forallb l_read_only rs = true ->
  runM lstepM s0 (h1 ++ rs ++ h2) = runM lstepM s0 (h1 ++ h2) /\
  (forall s1, runM lstepM s0 h1 = Ok s1 ->
              skipn (length rs) (outsM lstepM s1 (rs ++ h2)) = outsM lstepM s1 h2).
Proof. exact (insertion_invisible lstepM l_read_only lstepM_read_only). Qed.
Theorem C13_slru_insertion : forall (h1 rs h2 : list sop) (s0 : slru),
  forallb s_read_only rs = true ->
  runM sstep s0 (h1 ++ rs ++ h2) = runM sstep s0 (h1 ++ h2) /\
  (forall s1, runM sstep s0 h1 = Ok s1 ->
              skipn (length rs) (outsM sstep s1 (rs ++ h2)) = outsM sstep s1 h2).
Proof. exact (insertion_invisible sstep s_read_only sstep_read_only). Qed.
Theorem C13_twoq_insertion : forall (h1 rs h2 : list qop) (s0 : twoq),
  forallb q_read_only rs = true ->
  runM qstep s0 (h1 ++ rs ++ h2) = runM qstep s0 (h1 ++ h2) /\
  (forall s1, runM qstep s0 h1 = Ok s1 ->
              skipn (length rs) (outsM qstep s1 (rs ++ h2)) = outsM qstep s1 h2).
Proof. exact (insertion_invisible qstep q_read_only qstep_read_only). Qed.
Theorem C13_arc_insertion : forall (h1 rs h2 : list aop) (s0 : arc),
  forallb a_read_only rs = true ->
  runM astep s0 (h1 ++ rs ++ h2) = runM astep s0 (h1 ++ h2) /\
  (forall s1, runM astep s0 h1 = Ok s1 ->
              skipn (length rs) (outsM astep s1 (rs ++ h2)) = outsM astep s1 h2).
Proof. exact (insertion_invisible astep a_read_only astep_read_only). Qed.
Theorem C13_wtiny_insertion : forall (h1 rs h2 : list cop) (s0 : wtiny),
  forallb c_read_only rs = true ->
  runM wstep_trait s0 (h1 ++ rs ++ h2) = runM wstep_trait s0 (h1 ++ h2) /\
  (forall s1, runM wstep_trait s0 h1 = Ok s1 ->
              skipn (length rs) (outsM wstep_trait s1 (rs ++ h2)) = outsM wstep_trait s1 h2).
Proof. exact (insertion_invisible wstep_trait c_read_only wstep_read_only). Qed.

(** non-vacuity: a history in which reads are inserted between a put and the eviction it decides *)
Example C13_witness :
  outsM lstepM (lru_new 2 false) [LPut 1 10; LPut 2 20; LPeek 1; LContains 1; LPeekLru; LPut 3 30] =
  [[0]; [0]; [1; 10]; [1]; [1; 1; 10]; [2; 1; 10]].
Proof. vm_compute. reflexivity. Qed.

Print Assumptions C13_lru_state_unchanged.
Print Assumptions C13_slru_state_unchanged.
Print Assumptions C13_twoq_state_unchanged.
Print Assumptions C13_arc_state_unchanged.
Print Assumptions C13_wtiny_state_unchanged.
Print Assumptions C13_lru_insertion.
Print Assumptions C13_slru_insertion.
Print Assumptions C13_twoq_insertion.
Print Assumptions C13_arc_insertion.
Print Assumptions C13_wtiny_insertion.
