(** * C07, continued — the decisions of SegmentedCache do not look at the values.  Statements only.
    The key projection of the SegmentedCache model is a simulation of the segmented cache written over keys alone
    ([KeyProjSlru.v]): the segment a key lives in, the order inside the segments, what a promotion demotes, what an
    insertion evicts and whether a call panics are functions of the keys and the two capacities.
    `SegmentedCache<K, ()>` is therefore replayed in the same model, with the values kept beside the cache. *)
From Coq Require Import List ZArith.
Import ListNotations.
From VF Require Import Base Lru Slru KeyProj KeyProjSlru KeyProjSlruRun.

Theorem C07_put_is_value_blind : forall s k v,
  match sput s k v with
  | Ok (s', r) => ksput (sproj s) k = Ok (sproj s', put_keys r)
  | Panic n => ksput (sproj s) k = Panic n
  end.
Proof. exact sput_blind. Qed.

Theorem C07_get_is_value_blind : forall s k w,
  match sget_mut s k w with
  | Ok (s', r) => ksget (sproj s) k = Ok (sproj s', hit r)
  | Panic n => ksget (sproj s) k = Panic n
  end.
Proof. exact sget_mut_blind. Qed.

Theorem C07_promotion_is_value_blind : forall s k w,
  match move_to_protected s k w with
  | Ok s' => kmove_to_protected (sproj s) k = Ok (sproj s')
  | Panic n => kmove_to_protected (sproj s) k = Panic n
  end.
Proof. exact move_to_protected_blind. Qed.

Theorem C07_remove_is_value_blind : forall s k,
  let '(s', r) := sremove s k in ksremove (sproj s) k = (sproj s', hit r).
Proof. exact sremove_blind. Qed.

Theorem C07_put_protected_is_value_blind : forall s k v,
  let '(s', r) := sput_protected s k v in ksput_protected (sproj s) k = (sproj s', put_keys r).
Proof. exact sput_protected_blind. Qed.

Theorem C07_lookups_are_value_blind : forall s k,
  hit (speek s k) = (kmem k (kitems (kproj (prot s))) || kmem k (kitems (kproj (prob s))))%bool /\
  scontains s k = (kmem k (kitems (kproj (prot s))) || kmem k (kitems (kproj (prob s))))%bool /\
  sproj (spurge s) = (kpurge (kproj (prob s)), kpurge (kproj (prot s))).
Proof. exact slookups_blind. Qed.

(** whole histories: after any sequence of calls with whatever values the two segments hold the keys, in the order, that
    the segmented cache over keys alone holds after the same calls - and the run panics exactly when that one does *)
Theorem C07_history_is_value_blind : forall ops s,
  match srun s ops with
  | Ok s' => skrun (sproj s) (map sstrip ops) = Ok (sproj s')
  | Panic n => skrun (sproj s) (map sstrip ops) = Panic n
  end.
Proof. exact srun_blind. Qed.

(** a promotion into a full protected segment, with and without values: the same key is demoted *)
Definition sput3 (a b c : val) : res slru :=
  do (s1, _) <- sput (slru_new 2 1) 1 a;
  do (s2, _) <- sput s1 2 b;
  do (s3, _) <- sget_mut s2 1 None;       (* 1 promoted *)
  do (s4, _) <- sget_mut s3 2 (Some c);   (* 2 promoted: 1 demoted *)
  Ok s4.
Example C07_value_blind_witness :
  option_map sproj (match sput3 10 20 30 with Ok s => Some s | Panic _ => None end)
  = option_map sproj (match sput3 0 0 0 with Ok s => Some s | Panic _ => None end) /\
  option_map sproj (match sput3 0 0 0 with Ok s => Some s | Panic _ => None end)
  = Some (mkK 2 [1%Z], mkK 1 [2%Z]).
Proof. vm_compute. split; reflexivity. Qed.

Print Assumptions C07_put_is_value_blind.
Print Assumptions C07_get_is_value_blind.
Print Assumptions C07_promotion_is_value_blind.
Print Assumptions C07_remove_is_value_blind.
Print Assumptions C07_put_protected_is_value_blind.
Print Assumptions C07_lookups_are_value_blind.
Print Assumptions C07_history_is_value_blind.
