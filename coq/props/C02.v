(** * C02 — coherence: a cache may forget an entry but never returns a wrong one.
    Statements only.  The specification is the unbounded map [smap := key -> option val] driven by
    [spec_step] (first theorem: its definition, for the reader): put stores, a write through a
    handed-out mutable reference stores, remove / purge / a reported eviction release.  For every
    cache, in every reachable state, the retained entries (resident and ghost) are a sub-map of it
    — so every value a lookup returns is the most recently stored one and a released key is never
    reported — and get / get_mut / peek / peek_mut / contains agree. The model has no hasher and
    looks keys up by equality only: independence of the BuildHasher and of the borrowed form of
    the key is what the correspondence run checks (every lookup of the harness goes through a
    borrowed key type under five hashers including a constant one). *)
From VF Require Import Base Iter Enc Lru LruStep Slru TwoQ Arc CacheStep Tiny WTiny TinyStep
  BaseFacts LruFacts Counts PrimFacts Tactics SlruFacts TwoQFacts ArcFacts TinyFacts WTinyFacts
  C07Proofs C08Proofs C09Proofs C10Proofs Run C01Proofs Univ C12Proofs C02Proofs.

Theorem C02_spec_step_def : forall m o out,
  spec_step m o out =
  match o with
  | CPut k v =>
    let m1 := upd m k (Some v) in
    match evicted_key out with Some ek => upd m1 ek None | None => m1 end
  | CGetMut k (Some w) | CPeekMut k (Some w) =>
    match out with 1 :: _ => upd m k (Some w) | _ => m end
  | CRemove k => upd m k None
  | CPurge => empty_map
  | _ => m
  end.
Proof. reflexivity. Qed.

(** every history, every cache: the run never panics and the retained entries stay a sub-map of
    the unbounded-map semantics of the same history *)
Theorem C02_lru_history : forall (c : nat) (cb : bool) (ops : list cop),
  (1 <= c)%nat ->
  exists s m, spec_run lstep_trait (lru_new c cb) empty_map ops = Ok (s, m) /\ submap (items s) m.
Proof.
  intros c cb ops Hc.
  destruct (spec_run_submap lstep_trait (fun s => lru_inv s /\ cap s <> 0%nat) items c02_lru_step' ops
              (lru_new c cb) empty_map) as (s & m & E & _ & H).
  - split; [split; cbn; [constructor|lia]|cbn; lia].
  - apply submap_nil.
  - eauto.
Qed.
Theorem C02_slru_history : forall (pc fc : nat) (ops : list cop),
  (1 <= pc)%nat -> (1 <= fc)%nat ->
  exists s m, spec_run sstep_trait (slru_new pc fc) empty_map ops = Ok (s, m) /\ submap (retained_s s) m.
Proof.
  intros pc fc ops Hp Hf.
  destruct (spec_run_submap sstep_trait slru_inv retained_s c02_slru_step ops (slru_new pc fc) empty_map)
    as (s & m & E & _ & H); [now apply slru_new_inv|apply submap_nil|eauto].
Qed.
Theorem C02_twoq_history : forall (size rs es : nat) (ops : list cop),
  (1 <= size)%nat -> (1 <= es)%nat ->
  exists s m, spec_run qstep_trait (twoq_new size rs es) empty_map ops = Ok (s, m) /\ submap (retained_q s) m.
Proof.
  intros size rs es ops Hs He.
  destruct (spec_run_submap qstep_trait twoq_inv retained_q c02_twoq_step ops (twoq_new size rs es) empty_map)
    as (s & m & E & _ & H); [now apply twoq_new_inv|apply submap_nil|eauto].
Qed.
Theorem C02_arc_history : forall (size : nat) (ops : list cop),
  (1 <= size)%nat ->
  exists s m, spec_run astep_trait (arc_new size) empty_map ops = Ok (s, m) /\ submap (retained_a s) m.
Proof.
  intros size ops Hs.
  destruct (spec_run_submap astep_trait arc_inv retained_a c02_arc_step ops (arc_new size) empty_map)
    as (s & m & E & _ & H); [now apply arc_new_inv|apply submap_nil|eauto].
Qed.
(** W-TinyLFU: from any well-formed empty cache (every state [winit] builds, C01_wtiny_init) *)
Theorem C02_wtiny_history : forall (s0 : wtiny) (ops : list cop),
  wt_inv s0 -> retained_w s0 = [] ->
  exists s m, spec_run wstep_trait s0 empty_map ops = Ok (s, m) /\ submap (retained_w s) m.
Proof.
  intros s0 ops H0 He.
  destruct (spec_run_submap wstep_trait wt_inv retained_w c02_wtiny_step ops s0 empty_map)
    as (s & m & E & _ & H); [exact H0|rewrite He; apply submap_nil|eauto].
Qed.

(** the one-step theorems behind them *)
Theorem C02_slru_step : forall s o m,
  slru_inv s -> submap (retained_s s) m ->
  exists s' out, sstep_trait s o = Ok (s', out) /\ slru_inv s' /\ submap (retained_s s') (spec_step m o out).
Proof. exact c02_slru_step. Qed.
Theorem C02_twoq_step : forall s o m,
  twoq_inv s -> submap (retained_q s) m ->
  exists s' out, qstep_trait s o = Ok (s', out) /\ twoq_inv s' /\ submap (retained_q s') (spec_step m o out).
Proof. exact c02_twoq_step. Qed.
Theorem C02_arc_step : forall s o m,
  arc_inv s -> submap (retained_a s) m ->
  exists s' out, astep_trait s o = Ok (s', out) /\ arc_inv s' /\ submap (retained_a s') (spec_step m o out).
Proof. exact c02_arc_step. Qed.
Theorem C02_wtiny_step : forall s o m,
  wt_inv s -> submap (retained_w s) m ->
  exists s' out, wstep_trait s o = Ok (s', out) /\ wt_inv s' /\ submap (retained_w s') (spec_step m o out).
Proof. exact c02_wtiny_step. Qed.

(** what the sub-map says to a reader: a returned value is the stored one; a key the map does not
    hold (never put, or removed / purged / reported evicted and not put since) is not retained *)
Theorem C02_never_wrong : forall R m k v, submap R m -> In (k, v) R -> m k = Some v.
Proof. exact submap_never_wrong. Qed.
Theorem C02_released_not_reported : forall R m k, submap R m -> m k = None -> ~ In k (keys R).
Proof. exact submap_absent. Qed.
Theorem C02_lookup_is_retained :
  (forall s k v, speek s k = Some v -> In (k, v) (retained_s s)) /\
  (forall s k v, qpeek s k = Some v -> In (k, v) (retained_q s)) /\
  (forall s k v, apeek s k = Some v -> In (k, v) (retained_a s)) /\
  (forall s k v, wpeek s k = Some v -> In (k, v) (retained_w s)).
Proof. repeat split; [apply speek_retained|apply qpeek_retained|apply apeek_retained|apply wpeek_retained]. Qed.

(** get, get_mut, peek, peek_mut and contains agree *)
Theorem C02_lookups_agree :
  (forall s k w, snd (Lru.get_mut s k w) = Lru.peek s k /\ snd (Lru.get s k) = Lru.peek s k /\
                 snd (Lru.peek_mut s k w) = Lru.peek s k /\
                 Lru.contains s k = match Lru.peek s k with Some _ => true | None => false end) /\
  (forall s k w, (forall s' r, sget_mut s k w = Ok (s', r) -> r = speek s k) /\
                 snd (speek_mut s k w) = speek s k /\
                 scontains s k = match speek s k with Some _ => true | None => false end) /\
  (forall s k w, (forall s' r, qget_mut s k w = Ok (s', r) -> r = qpeek s k) /\
                 snd (qpeek_mut s k w) = qpeek s k /\
                 qcontains s k = match qpeek s k with Some _ => true | None => false end) /\
  (forall s k w, (forall s' r, aget_mut s k w = Ok (s', r) -> r = apeek s k) /\
                 snd (apeek_mut s k w) = apeek s k /\
                 acontains s k = match apeek s k with Some _ => true | None => false end) /\
  (forall s k w, (forall s' r, wget_mut s k w = Ok (s', r) -> r = wpeek s k) /\
                 snd (wpeek_mut s k w) = wpeek s k /\
                 wcontains s k = match wpeek s k with Some _ => true | None => false end).
Proof.
  split; [intros s k w; apply lru_lookups_agree|].
  split; [intros s k w; apply slru_lookups_agree|].
  split; [intros s k w; apply twoq_lookups_agree|].
  split; [intros s k w; apply arc_lookups_agree|intros s k w; apply wtiny_lookups_agree].
Qed.

(** non-vacuity: a 2Q history in which a key is evicted to the ghosts, overwritten there and read back *)
Example C02_witness :
  exists s m, spec_run qstep_trait (twoq_new 2 0 1) empty_map
                [CPut 1 10; CPut 2 20; CPut 3 30; CPut 1 11; CGetMut 1 (Some 12); CRemove 3] = Ok (s, m) /\
              qpeek s 1 = Some 12 /\ m 1 = Some 12 /\ m 3 = None /\ qcontains s 3 = false.
Proof. eexists. eexists. split; [vm_compute; reflexivity|]. vm_compute. auto. Qed.

Print Assumptions C02_spec_step_def.
Print Assumptions C02_lru_history.
Print Assumptions C02_slru_history.
Print Assumptions C02_twoq_history.
Print Assumptions C02_arc_history.
Print Assumptions C02_wtiny_history.
Print Assumptions C02_slru_step.
Print Assumptions C02_twoq_step.
Print Assumptions C02_arc_step.
Print Assumptions C02_wtiny_step.
Print Assumptions C02_never_wrong.
Print Assumptions C02_released_not_reported.
Print Assumptions C02_lookup_is_retained.
Print Assumptions C02_lookups_agree.
