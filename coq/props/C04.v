(** * C04 — ownership conservation: every key/value is released exactly once, none leak.
    Statements only.  PARTIAL at the level of theorems: the models carry no object identity, so
    what is proved is conservation of the retained *entries* — for every put,
    [retained after + handed back = retained before + 1] (ARC: [<=], ghost entries may be
    discarded), the entries themselves being pinned down by C12's [put_truth]; remove hands back
    exactly the retained entry; purge leaves nothing.  That each key and value *object* is
    released exactly once (no double drop, nothing alive that is not retained, every heap block
    returned at drop) is checked on the implementation after every call by the drop ledger and the
    allocator of the harness against [2 * retained entries] of the model. *)
From VF Require Import Base Iter Enc Lru LruStep Slru TwoQ Arc CacheStep Tiny WTiny TinyStep
  BaseFacts LruFacts Counts PrimFacts Tactics SlruFacts TwoQFacts ArcFacts TinyFacts WTinyFacts
  C07Proofs C08Proofs C09Proofs C10Proofs Run C01Proofs Univ C12Proofs C02Proofs C04Proofs
  Heap HeapFacts HeapOps HeapRun HeapMulti HeapOwn.
From Coq Require Import List.

Theorem C04_put_conserves : forall R R' k v r,
  NoDup (keys R) -> NoDup (keys R') -> put_truth R R' k v r ->
  (length R' + handed_back r = length R + 1)%nat.
Proof. exact put_truth_length. Qed.

Theorem C04_lru_put : forall s k v,
  lru_inv s -> cap s <> 0%nat ->
  let '(s', r, _) := Lru.put s k v in (length (items s') + handed_back r = length (items s) + 1)%nat.
Proof. exact c04_lru_put. Qed.
Theorem C04_slru_put : forall s k v,
  slru_inv s -> exists s' r, sput s k v = Ok (s', r) /\
    (length (retained_s s') + handed_back r = length (retained_s s) + 1)%nat.
Proof. exact c04_slru_put. Qed.
Theorem C04_twoq_put : forall s k v,
  twoq_inv s -> exists s' r, qput s k v = Ok (s', r) /\
    (length (retained_q s') + handed_back r = length (retained_q s) + 1)%nat.
Proof. exact c04_twoq_put. Qed.
Theorem C04_arc_put : forall s k v,
  arc_inv s -> exists s' r, aput s k v = Ok (s', r) /\
    (length (retained_a s') + handed_back r <= length (retained_a s) + 1)%nat.
Proof. exact c04_arc_put. Qed.
Theorem C04_wtiny_put : forall s k v,
  wt_inv s -> exists s' r, wput s k v = Ok (s', r) /\
    (length (retained_w s') + handed_back r = length (retained_w s) + 1)%nat.
Proof. exact c04_wtiny_put. Qed.

Theorem C04_remove_and_purge :
  (forall s k, lru_inv s ->
     let '(s', r, _) := Lru.remove s k in
     (length (items s') + (if r then 1 else 0) = length (items s))%nat) /\
  (forall s, items (fst (Lru.purge s)) = []) /\
  (forall s, retained_s (spurge s) = []) /\ (forall s, retained_q (qpurge s) = []) /\
  (forall s, retained_a (apurge s) = []) /\ (forall s, retained_w (wpurge s) = []).
Proof. exact c04_remove_counts. Qed.

(** at the level of nodes (layer H of C03): in every reachable state of RawLRU the initialised cells of the heap
    are exactly the nodes of the retained entries, one node per entry — every key and value the cache holds lives in
    exactly one place; C03's history theorems add that no cell is ever freed twice and that Drop after any
    history leaves every cell free (nothing leaks) *)
Theorem C04_heap_owned : forall h q s,
  R h q s ->
  exists l, entries l = items s /\ NoDup (addrs l) /\ forall a k v, holds h a k v <-> In (a, (k, v)) l.
Proof. exact owned_exactly. Qed.

(** the same for the lists of a composite cache sharing a heap: a cell holds a key and a value iff it is a node of
    exactly one of the lists *)
Theorem C04_heap_family_owned : forall h F,
  fam h F [] ->
  (forall a k v, holds h a k v <-> exists q l, In (q, l) F /\ In (a, (k, v)) l) /\
  NoDup (flat_map (fun ql => addrs (snd ql)) F).
Proof. intros h F Hf. split; [now apply fam_owned_exactly|eapply fam_nodes_distinct; eauto]. Qed.

Print Assumptions C04_put_conserves.
Print Assumptions C04_lru_put.
Print Assumptions C04_slru_put.
Print Assumptions C04_twoq_put.
Print Assumptions C04_arc_put.
Print Assumptions C04_wtiny_put.
Print Assumptions C04_remove_and_purge.
Print Assumptions C04_heap_owned.
Print Assumptions C04_heap_family_owned.
