(** * Conversions into a RawLRU: [FromIterator] and the eleven [From] impls of raw.rs (slices, arrays, Vec,
    VecDeque, LinkedList, HashSet, BTreeSet, BinaryHeap, HashMap, BTreeMap).  All of them collect the
    pairs of the source in its iteration order, size the cache by [max 1 (number of pairs)] and [put] them one
    by one ([Lru.from_iter]).  The operation carries the pairs in the source's iteration order (the harness
    records it before it hands the collection over). *)
From VF Require Import Base Enc Lru.
From Coq Require Import List ZArith.
Import ListNotations.
Open Scope Z_scope.

Fixpoint dec_pairs (l : list Z) : option (list entry) :=
  match l with
  | [] => Some []
  | k :: v :: rest => match dec_pairs rest with Some t => Some ((k, v) :: t) | None => None end
  | _ => None
  end.

(** [142; source; (k v)*] -> [cap; n; (k v)*] (most recent first) *)
Definition conv_step (op : list Z) : option (list Z) :=
  match op with
  | 142 :: _ :: pairs =>
    match dec_pairs pairs with
    | Some l => let s := from_iter l in Some (zn (cap s) :: enc_entries (items s))
    | None => None
    end
  | _ => None
  end.
