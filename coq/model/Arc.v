(** * Layer L model of [AdaptiveCache] (src/lru/adaptive.rs). *)
From VF Require Import Base Lru.

Record arc := mkArc {
  asize : nat;
  ap : nat;         (* adaptation target for the recent list *)
  t1 : lru;         (* recent *)
  b1 : lru;         (* recent_evict: ghosts of recent *)
  t2 : lru;         (* frequent *)
  b2 : lru          (* frequent_evict: ghosts of frequent *)
}.

Definition arc_new (size : nat) : arc :=
  mkArc size 0 (lru_new size false) (lru_new size false) (lru_new size false) (lru_new size false).

(** [replace]: move the LRU of recent (or frequent) to the matching ghost list; the ghost
    list silently discards its own LRU when full.  Falls back to the other resident list when
    the preferred one is empty. *)
Definition areplace (s : arc) (freq_contains_key : bool) : res arc :=
  let rl := llen (t1 s) in
  let from_recent :=
      Nat.ltb 0 rl && (Nat.ltb (ap s) rl || (Nat.eqb rl (ap s) && freq_contains_key)) in
  if from_recent || Nat.eqb (llen (t2 s)) 0 then
    match remove_lru_in (t1 s) with
    | (t1', Some e) => do (b1', _) <- put_nonnull (b1 s) e; Ok (mkArc (asize s) (ap s) t1' b1' (t2 s) (b2 s))
    | (_, None) => Ok s
    end
  else
    match remove_lru_in (t2 s) with
    | (t2', Some e) => do (b2', _) <- put_nonnull (b2 s) e; Ok (mkArc (asize s) (ap s) (t1 s) (b1 s) t2' b2')
    | (_, None) => Ok s
    end.

Definition aput (s : arc) (k : key) (v : val) : res (arc * put_result) :=
  match remove_ent (t1 s) k with
  | (t1', Some (k0, old)) =>
    do (t2', _) <- put_nonnull (t2 s) (k0, v);
    Ok (mkArc (asize s) (ap s) t1' (b1 s) t2' (b2 s), PUpdate old)
  | (_, None) =>
    match update (t2 s) k v with
    | (t2', Some old) => Ok (mkArc (asize s) (ap s) (t1 s) (b1 s) t2' (b2 s), PUpdate old)
    | (_, None) =>
      let recent_len := llen (t1 s) in
      let freq_len := llen (t2 s) in
      let b1_len := llen (b1 s) in
      let b2_len := llen (b2 s) in
      if contains (b1 s) k then
        (* ghost hit in recent_evict: raise p *)
        let delta := if Nat.ltb b1_len b2_len then Nat.div b2_len b1_len else 1%nat in
        let p' := if Nat.leb (asize s) (ap s + delta) then asize s else (ap s + delta)%nat in
        match remove_ent (b1 s) k with
        | (b1', Some (k0, old)) =>
          let s1 := mkArc (asize s) p' (t1 s) b1' (t2 s) (b2 s) in
          do s2 <- (if Nat.leb (asize s) (recent_len + freq_len) then areplace s1 false else Ok s1);
          do (t2', _) <- put_nonnull (t2 s2) (k0, v);
          Ok (mkArc (asize s2) (ap s2) (t1 s2) (b1 s2) t2' (b2 s2), PUpdate old)
        | (_, None) => Panic 30
        end
      else if contains (b2 s) k then
        (* ghost hit in frequent_evict: lower p *)
        let delta := if Nat.ltb b2_len b1_len then Nat.div b1_len b2_len else 1%nat in
        let p' := if Nat.leb (ap s) delta then 0%nat else (ap s - delta)%nat in
        match remove_ent (b2 s) k with
        | (b2', Some (k0, old)) =>
          let s1 := mkArc (asize s) p' (t1 s) (b1 s) (t2 s) b2' in
          do s2 <- (if Nat.leb (asize s) (recent_len + freq_len) then areplace s1 true else Ok s1);
          do (t2', _) <- put_nonnull (t2 s2) (k0, v);
          Ok (mkArc (asize s2) (ap s2) (t1 s2) (b1 s2) t2' (b2 s2), PUpdate old)
        | (_, None) => Panic 31
        end
      else
        do s1 <- (if Nat.leb (asize s) (recent_len + freq_len) then areplace s false else Ok s);
        (* keep the ghost lists trim (lengths captured before [replace]) *)
        let b1' := if Nat.ltb (asize s - ap s) b1_len then fst (fst (remove_lru (b1 s1))) else b1 s1 in
        let b2' := if Nat.ltb (ap s) b2_len then fst (fst (remove_lru (b2 s1))) else b2 s1 in
        let '(t1', r, _) := put (t1 s1) k v in
        Ok (mkArc (asize s) (ap s) t1' b1' (t2 s1) b2', r)
    end
  end.

Definition aget_mut (s : arc) (k : key) (w : option val) : res (arc * option val) :=
  match remove_ent (t1 s) k with
  | (t1', Some (k0, v0)) =>
    let v1 := match w with Some w => w | None => v0 end in
    do (t2', _) <- put_nonnull (t2 s) (k0, v1);
    Ok (mkArc (asize s) (ap s) t1' (b1 s) t2' (b2 s), Some v0)
  | (_, None) =>
    let '(t2', r) := get_mut (t2 s) k w in
    Ok (mkArc (asize s) (ap s) (t1 s) (b1 s) t2' (b2 s), r)
  end.

Definition aget (s : arc) (k : key) := aget_mut s k None.

Definition apeek (s : arc) (k : key) : option val :=
  match peek (t1 s) k with Some v => Some v | None => peek (t2 s) k end.

Definition apeek_mut (s : arc) (k : key) (w : option val) : arc * option val :=
  match peek_mut (t1 s) k w with
  | (t1', Some v) => (mkArc (asize s) (ap s) t1' (b1 s) (t2 s) (b2 s), Some v)
  | (_, None) =>
    let '(t2', r) := peek_mut (t2 s) k w in (mkArc (asize s) (ap s) (t1 s) (b1 s) t2' (b2 s), r)
  end.

Definition acontains (s : arc) (k : key) : bool := contains (t1 s) k || contains (t2 s) k.

Definition aremove (s : arc) (k : key) : arc * option val :=
  match remove (t1 s) k with
  | (t1', Some v, _) => (mkArc (asize s) (ap s) t1' (b1 s) (t2 s) (b2 s), Some v)
  | (_, None, _) =>
    match remove (t2 s) k with
    | (t2', Some v, _) => (mkArc (asize s) (ap s) (t1 s) (b1 s) t2' (b2 s), Some v)
    | (_, None, _) =>
      match remove (b1 s) k with
      | (b1', Some v, _) => (mkArc (asize s) (ap s) (t1 s) b1' (t2 s) (b2 s), Some v)
      | (_, None, _) =>
        let '(b2', r, _) := remove (b2 s) k in (mkArc (asize s) (ap s) (t1 s) (b1 s) (t2 s) b2', r)
      end
    end
  end.

Definition apurge (s : arc) : arc :=
  mkArc (asize s) (ap s) (fst (purge (t1 s))) (fst (purge (b1 s))) (fst (purge (t2 s))) (fst (purge (b2 s))).

Definition alen (s : arc) : nat := (llen (t1 s) + llen (t2 s))%nat.
Definition ais_empty (s : arc) : bool :=
  Nat.eqb (llen (t1 s)) 0 && Nat.eqb (llen (b1 s)) 0 && Nat.eqb (llen (t2 s)) 0 && Nat.eqb (llen (b2 s)) 0.
