(** * Layer L model of the iterator families of raw.rs.

    All ten iterator types are a countdown [len] plus two cursors that walk towards each other.
    At the list level an iterator is the list of entries it has not yielded yet (in MRU-first
    order); [len] is its length.  [MRUIter::next] / [LRUIter::next_back] take from the head,
    [MRUIter::next_back] / [LRUIter::next] take from the end. *)
From VF Require Import Base.

Inductive dirn := Front | Back.   (* [next] | [next_back] *)

(** which end of the MRU-first list a request consumes *)
Definition from_head (lru_order : bool) (d : dirn) : bool :=
  match d with Front => negb lru_order | Back => lru_order end.

Definition it_next (lru_order : bool) (d : dirn) (rem : list entry) : option entry * list entry :=
  if from_head lru_order d then
    match rem with
    | [] => (None, [])
    | e :: t => (Some e, t)
    end
  else
    match split_last rem with
    | None => (None, [])
    | Some (r, e) => (Some e, r)
    end.

(** a request: direction, and (for the mutable iterators) an optional value stored through
    the yielded reference *)
Definition req := (dirn * option val)%type.

(** run a list of requests; yields [(item, len after the call)] per request, the remaining
    iterator, and the writes performed [(key, new value)] *)
Fixpoint it_run (lru_order : bool) (rs : list req) (rem : list entry)
  : list (option entry * nat) * list entry * list (key * val) :=
  match rs with
  | [] => ([], rem, [])
  | (d, w) :: rs' =>
    let '(y, rem') := it_next lru_order d rem in
    let wr := match y, w with Some (k, _), Some w => [(k, w)] | _, _ => [] end in
    let '(ys, remf, wrs) := it_run lru_order rs' rem' in
    ((y, length rem') :: ys, remf, wr ++ wrs)
  end.

Definition apply_writes (wrs : list (key * val)) (l : list entry) : list entry :=
  fold_left (fun l kw => set_val (fst kw) (snd kw) l) wrs l.

(** iterator kinds of RawLRU (the per-list iterators of 2Q and ARC are the same types) *)
Record iter_kind := mkKind {
  ik_lru : bool;      (* least-recent-first variant *)
  ik_mut : bool;      (* hands out [&mut V] *)
  ik_proj : nat       (* 0 = (key, value), 1 = key, 2 = value *)
}.

Definition kind_of_code (c : Z) : option iter_kind :=
  match c with
  | 0 => Some (mkKind false false 0)   (* iter *)
  | 1 => Some (mkKind true false 0)    (* iter_lru *)
  | 2 => Some (mkKind false true 0)    (* iter_mut *)
  | 3 => Some (mkKind true true 0)     (* iter_lru_mut *)
  | 4 => Some (mkKind false false 1)   (* keys *)
  | 5 => Some (mkKind true false 1)    (* keys_lru *)
  | 6 => Some (mkKind false false 2)   (* values *)
  | 7 => Some (mkKind true false 2)    (* values_lru *)
  | 8 => Some (mkKind false true 2)    (* values_mut *)
  | 9 => Some (mkKind true true 2)     (* values_lru_mut *)
  | 10 => Some (mkKind false false 0)  (* IntoIterator for &RawLRU *)
  | 11 => Some (mkKind false true 0)   (* IntoIterator for &mut RawLRU *)
  | _ => None
  end.

(** the whole iterator script the harness runs: [pre] on a fresh iterator, then (for the
    cloneable kinds) a clone is taken; [pa] continues on the original and [pb] on the clone.
    Result: yields of the three phases and the list after the writes. *)
Definition iter_script (kd : iter_kind) (pre pa pb : list req) (l : list entry)
  : list (option entry * nat) * list (option entry * nat) * list (option entry * nat) * list entry :=
  let strip := if ik_mut kd then (fun r : req => r) else (fun r : req => (fst r, None)) in
  let '(y0, rem0, w0) := it_run (ik_lru kd) (map strip pre) l in
  let '(ya, _, wa) := it_run (ik_lru kd) (map strip pa) rem0 in
  let '(yb, _, _) := it_run (ik_lru kd) (map (fun r : req => (fst r, None)) pb) rem0 in
  (y0, ya, yb, apply_writes (w0 ++ wa) l).
