(** * Layer L model of [TwoQueueCache] (src/lru/two_queue.rs). *)
From VF Require Import Base Lru.

Record twoq := mkTwoQ {
  qsize : nat;          (* total resident capacity *)
  qrecent_size : nat;   (* quota of the recent queue: floor(size * recent_ratio) *)
  recent : lru;         (* capacity [size] *)
  frequent : lru;       (* capacity [size] *)
  ghost : lru           (* capacity floor(size * ghost_ratio) >= 1 *)
}.

Definition twoq_new (size rs es : nat) : twoq :=
  mkTwoQ size rs (lru_new size false) (lru_new size false) (lru_new es false).

Definition with_rfg (s : twoq) (r f g : lru) : twoq := mkTwoQ (qsize s) (qrecent_size s) r f g.

(** victim of a full cache: the preferred queue, falling back to whichever one is non-empty;
    the [unwrap()] cannot fail while [size >= 1] (site 20) *)
Definition evict_resident (s : twoq) (from_recent : bool) : res (lru * lru * entry) :=
  if from_recent then
    match remove_lru_in (recent s) with
    | (r1, Some e) => Ok (r1, frequent s, e)
    | (_, None) =>
      match remove_lru_in (frequent s) with
      | (f1, Some e) => Ok (recent s, f1, e)
      | (_, None) => Panic 20
      end
    end
  else
    match remove_lru_in (frequent s) with
    | (f1, Some e) => Ok (recent s, f1, e)
    | (_, None) =>
      match remove_lru_in (recent s) with
      | (r1, Some e) => Ok (r1, frequent s, e)
      | (_, None) => Panic 20
      end
    end.

Definition qput (s : twoq) (k : key) (v : val) : res (twoq * put_result) :=
  match update (frequent s) k v with
  | (f1, Some old) => Ok (with_rfg s (recent s) f1 (ghost s), PUpdate old)
  | (_, None) =>
    match remove_ent (recent s) k with
    | (r1, Some (k0, old)) =>
      (* recent hit: promote; the PutResult of the push is ignored *)
      do (f1, _) <- put_nonnull (frequent s) (k0, v);
      Ok (with_rfg s r1 f1 (ghost s), PUpdate old)
    | (_, None) =>
      let recent_len := llen (recent s) in
      let freq_len := llen (frequent s) in
      if contains (ghost s) k then
        if Nat.leb (qsize s) (recent_len + freq_len) then
          do (r1, f1, victim) <- evict_resident s (Nat.ltb (qrecent_size s) recent_len);
          do (g1, rst) <- put_or_evict_nonnull (ghost s) victim;
          match remove_ent g1 k with
          | (_, None) =>
            (* the ghost list pushed out the very key being revived *)
            match rst with
            | None => Ok (with_rfg s r1 f1 g1, PPut)
            | Some (ek, ev) =>
              do (f2, _) <- put_nonnull f1 (ek, v);
              Ok (with_rfg s r1 f2 g1, PUpdate ev)
            end
          | (g2, Some (k0, old)) =>
            do (f2, _) <- put_nonnull f1 (k0, v);
            match rst with
            | None => Ok (with_rfg s r1 f2 g2, PUpdate old)
            | Some (ek, ev) => Ok (with_rfg s r1 f2 g2, PEvictedAndUpdate ek ev old)
            end
          end
        else
          match remove_ent (ghost s) k with
          | (g1, Some (k0, old)) =>
            do (f1, _) <- put_nonnull (frequent s) (k0, v);
            Ok (with_rfg s (recent s) f1 g1, PUpdate old)
          | (_, None) => Panic 21
          end
      else
        if Nat.ltb (freq_len + recent_len) (qsize s) then
          do (r1, ev) <- put_or_evict_nonnull (recent s) (k, v);
          match ev with
          | None => Ok (with_rfg s r1 (frequent s) (ghost s), PPut)
          | Some e =>
            do (g1, gev) <- put_nonnull (ghost s) e;
            Ok (with_rfg s r1 (frequent s) g1,
                match gev with None => PPut | Some (ek, ev) => PEvicted ek ev end)
          end
        else
          do (r1, f1, victim) <- evict_resident s (Nat.leb (qrecent_size s) recent_len);
          do (r2, _) <- put_nonnull r1 (k, v);
          do (g1, gev) <- put_nonnull (ghost s) victim;
          Ok (with_rfg s r2 f1 g1,
              match gev with None => PPut | Some (ek, ev) => PEvicted ek ev end)
    end
  end.

(** [move_to_frequent]; an entry pushed out of frequent here would be lost (unreachable) *)
Definition qget_mut (s : twoq) (k : key) (w : option val) : res (twoq * option val) :=
  match get_mut (frequent s) k w with
  | (f1, Some v) => Ok (with_rfg s (recent s) f1 (ghost s), Some v)
  | (_, None) =>
    match remove_ent (recent s) k with
    | (r1, Some (k0, v0)) =>
      let v1 := match w with Some w => w | None => v0 end in
      do (f1, _) <- put_or_evict_nonnull (frequent s) (k0, v1);
      Ok (with_rfg s r1 f1 (ghost s), Some v0)
    | (_, None) => Ok (s, None)
    end
  end.

Definition qget (s : twoq) (k : key) := qget_mut s k None.

Definition qpeek (s : twoq) (k : key) : option val :=
  match peek (frequent s) k with Some v => Some v | None => peek (recent s) k end.

Definition qpeek_mut (s : twoq) (k : key) (w : option val) : twoq * option val :=
  match peek_mut (frequent s) k w with
  | (f1, Some v) => (with_rfg s (recent s) f1 (ghost s), Some v)
  | (_, None) => let '(r1, r) := peek_mut (recent s) k w in (with_rfg s r1 (frequent s) (ghost s), r)
  end.

Definition qcontains (s : twoq) (k : key) : bool := contains (frequent s) k || contains (recent s) k.

Definition qremove (s : twoq) (k : key) : twoq * option val :=
  match remove (frequent s) k with
  | (f1, Some v, _) => (with_rfg s (recent s) f1 (ghost s), Some v)
  | (_, None, _) =>
    match remove (recent s) k with
    | (r1, Some v, _) => (with_rfg s r1 (frequent s) (ghost s), Some v)
    | (_, None, _) =>
      let '(g1, r, _) := remove (ghost s) k in (with_rfg s (recent s) (frequent s) g1, r)
    end
  end.

Definition qpurge (s : twoq) : twoq :=
  with_rfg s (fst (purge (recent s))) (fst (purge (frequent s))) (fst (purge (ghost s))).

Definition qlen (s : twoq) : nat := (llen (recent s) + llen (frequent s))%nat.
Definition qis_empty (s : twoq) : bool :=
  Nat.eqb (llen (frequent s)) 0 && Nat.eqb (llen (recent s)) 0 && Nat.eqb (llen (ghost s)) 0.
