(** * The composite caches as state machines: operations, step functions, encodings. *)
From VF Require Import Base Iter Enc Lru LruStep Slru TwoQ Arc.

(** the [Cache] trait *)
Inductive cop :=
| CPut (k : key) (v : val)
| CGet (k : key)
| CGetMut (k : key) (w : option val)
| CPeek (k : key)
| CPeekMut (k : key) (w : option val)
| CContains (k : key)
| CRemove (k : key)
| CPurge
| CLen | CCap | CIsEmpty.

Definition dec_cop (l : list Z) : option cop :=
  match l with
  | [0; k; v] => Some (CPut k v)
  | [1; k] => Some (CGet k)
  | [2; k; f; w] => Some (CGetMut k (dec_w f w))
  | [3; k] => Some (CPeek k)
  | [4; k; f; w] => Some (CPeekMut k (dec_w f w))
  | [5; k] => Some (CContains k)
  | [6; k] => Some (CRemove k)
  | [7] => Some CPurge
  | [8] => Some CLen
  | [9] => Some CCap
  | [10] => Some CIsEmpty
  | _ => None
  end.

(** a panic is reported as the result [-1000] and leaves the model where it was *)
Definition panic_out : list Z := [-1000].

Definition lift_res {S} (s : S) (r : res (S * list Z)) : S * list Z :=
  match r with Ok x => x | Panic _ => (s, panic_out) end.

(** ** SegmentedCache *)

Inductive sop :=
| STrait (o : cop)
| SPutProtected (k : key) (v : val)
| SPeekSeg (protected_seg mru : bool) (w : option (option val))   (* [w = Some _]: the _mut variant *)
| SRemoveLruSeg (protected_seg : bool)
| SSegLen (protected_seg : bool)
| SSegCap (protected_seg : bool)
| SClone.

Definition dec_sop (l : list Z) : option sop :=
  match l with
  | [30; k; v] => Some (SPutProtected k v)
  | [31] => Some (SPeekSeg false false None)
  | [32; f; w] => Some (SPeekSeg false false (Some (dec_w f w)))
  | [33] => Some (SPeekSeg false true None)
  | [34; f; w] => Some (SPeekSeg false true (Some (dec_w f w)))
  | [35] => Some (SPeekSeg true false None)
  | [36; f; w] => Some (SPeekSeg true false (Some (dec_w f w)))
  | [37] => Some (SPeekSeg true true None)
  | [38; f; w] => Some (SPeekSeg true true (Some (dec_w f w)))
  | [39] => Some (SRemoveLruSeg false)
  | [40] => Some (SRemoveLruSeg true)
  | [41] => Some (SSegLen true)
  | [42] => Some (SSegLen false)
  | [43] => Some (SSegCap false)
  | [44] => Some (SSegCap true)
  | [25] => Some SClone
  | _ => option_map STrait (dec_cop l)
  end.

Definition sstep_trait (s : slru) (o : cop) : res (slru * list Z) :=
  match o with
  | CPut k v => do (s', r) <- sput s k v; Ok (s', enc_put r)
  | CGet k => do (s', r) <- sget s k; Ok (s', enc_opt_v r)
  | CGetMut k w => do (s', r) <- sget_mut s k w; Ok (s', enc_opt_v r)
  | CPeek k => Ok (s, enc_opt_v (speek s k))
  | CPeekMut k w => let '(s', r) := speek_mut s k w in Ok (s', enc_opt_v r)
  | CContains k => Ok (s, [zb (scontains s k)])
  | CRemove k => let '(s', r) := sremove s k in Ok (s', enc_opt_v r)
  | CPurge => Ok (spurge s, [])
  | CLen => Ok (s, [zn (slen s)])
  | CCap => Ok (s, [zn (scap s)])
  | CIsEmpty => Ok (s, [zb (sis_empty s)])
  end.

Definition seg (s : slru) (p : bool) : lru := if p then prot s else prob s.
Definition with_seg (s : slru) (p : bool) (l : lru) : slru :=
  if p then mkSlru (prob s) l else mkSlru l (prot s).

Definition sstep (s : slru) (o : sop) : res (slru * list Z) :=
  match o with
  | STrait o => sstep_trait s o
  | SPutProtected k v => let '(s', r) := sput_protected s k v in Ok (s', enc_put r)
  | SPeekSeg p mru None =>
    Ok (s, enc_opt_kv (if mru then peek_mru (seg s p) else peek_lru (seg s p)))
  | SPeekSeg p mru (Some w) =>
    let '(l', r) := if mru then peek_mru_mut (seg s p) w else peek_lru_mut (seg s p) w in
    Ok (with_seg s p l', enc_opt_kv r)
  | SRemoveLruSeg p => let '(l', r, _) := remove_lru (seg s p) in Ok (with_seg s p l', enc_opt_kv r)
  | SSegLen p => Ok (s, [zn (llen (seg s p))])
  | SSegCap p => Ok (s, [zn (cap (seg s p))])
  | SClone => Ok (sclone s, [])
  end.

Definition ssnap (s : slru) : list Z :=
  [zn (cap (prob s)); zn (cap (prot s))] ++ enc_entries (items (prob s)) ++ enc_entries (items (prot s)) ++ [1].

Definition sinit (cfg : list Z) : option slru :=
  match cfg with
  | [pc; fc] => if Z.leb pc 0 || Z.leb fc 0 then None else Some (slru_new (Z.to_nat pc) (Z.to_nat fc))
  | _ => None
  end.

Definition sstep_enc (s : slru) (o : list Z) : option (slru * list Z * list Z) :=
  match dec_sop o with
  | None => None
  | Some op => let '(s', out) := lift_res s (sstep s op) in Some (s', out, [0])
  end.

(** ** per-list iterators of 2Q and ARC: [60 list kind npre na nb triples...] *)
Definition run_list_iter (l : lru) (args : list Z) : option (lru * list Z) :=
  match dec_iter args with
  | Some (kd, pre, pa, pb) =>
    let '(y0, ya, yb, l') := iter_script kd pre pa pb (items l) in
    Some (with_items l l', enc_iter_out kd (y0, ya, yb))
  | None => None
  end.

(** ** TwoQueueCache *)

Definition qstep_trait (s : twoq) (o : cop) : res (twoq * list Z) :=
  match o with
  | CPut k v => do (s', r) <- qput s k v; Ok (s', enc_put r)
  | CGet k => do (s', r) <- qget s k; Ok (s', enc_opt_v r)
  | CGetMut k w => do (s', r) <- qget_mut s k w; Ok (s', enc_opt_v r)
  | CPeek k => Ok (s, enc_opt_v (qpeek s k))
  | CPeekMut k w => let '(s', r) := qpeek_mut s k w in Ok (s', enc_opt_v r)
  | CContains k => Ok (s, [zb (qcontains s k)])
  | CRemove k => let '(s', r) := qremove s k in Ok (s', enc_opt_v r)
  | CPurge => Ok (qpurge s, [])
  | CLen => Ok (s, [zn (qlen s)])
  | CCap => Ok (s, [zn (qsize s)])
  | CIsEmpty => Ok (s, [zb (qis_empty s)])
  end.

Definition qlist (s : twoq) (i : Z) : option lru :=
  if Z.eqb i 0 then Some (recent s) else if Z.eqb i 1 then Some (frequent s)
  else if Z.eqb i 2 then Some (ghost s) else None.
Definition qwith_list (s : twoq) (i : Z) (l : lru) : twoq :=
  if Z.eqb i 0 then with_rfg s l (frequent s) (ghost s)
  else if Z.eqb i 1 then with_rfg s (recent s) l (ghost s)
  else with_rfg s (recent s) (frequent s) l.

Inductive qop :=
| QTrait (o : cop)
| QListLen (i : Z)
| QDebug
| QIter (i : Z) (args : list Z).

Definition dec_qop (l : list Z) : option qop :=
  match l with
  | [50] => Some (QListLen 0)
  | [51] => Some (QListLen 1)
  | [52] => Some (QListLen 2)
  | [26] => Some QDebug
  | 60 :: i :: args => Some (QIter i args)
  | _ => option_map QTrait (dec_cop l)
  end.

Definition qstep (s : twoq) (o : qop) : res (twoq * list Z) :=
  match o with
  | QTrait o => qstep_trait s o
  | QListLen i => Ok (s, match qlist s i with Some l => [zn (llen l)] | None => [] end)
  | QDebug => Ok (s, [zn (qlen s); zn (qsize s)])
  | QIter i args =>
    match qlist s i with
    | Some l => match run_list_iter l args with
                | Some (l', out) => Ok (qwith_list s i l', out)
                | None => Ok (s, [])
                end
    | None => Ok (s, [])
    end
  end.

Definition qstep_enc (s : twoq) (o : list Z) : option (twoq * list Z * list Z) :=
  match dec_qop o with
  | Some op => let '(s', out) := lift_res s (qstep s op) in Some (s', out, [0])
  | None => None
  end.

Definition qsnap (s : twoq) : list Z :=
  [zn (qsize s); zn (qrecent_size s); zn (cap (ghost s))] ++ enc_entries (items (recent s))
    ++ enc_entries (items (frequent s)) ++ enc_entries (items (ghost s)) ++ [1].

(** configuration: size, recent quota, ghost capacity (the two sub-sizes are computed by
    Sizing.v from the ratios; here they are data) *)
Definition qinit (cfg : list Z) : option twoq :=
  match cfg with
  | [sz; rs; es] =>
    if Z.leb sz 0 || Z.ltb rs 0 || Z.leb es 0 then None
    else Some (twoq_new (Z.to_nat sz) (Z.to_nat rs) (Z.to_nat es))
  | _ => None
  end.

(** ** AdaptiveCache *)

Definition astep_trait (s : arc) (o : cop) : res (arc * list Z) :=
  match o with
  | CPut k v => do (s', r) <- aput s k v; Ok (s', enc_put r)
  | CGet k => do (s', r) <- aget s k; Ok (s', enc_opt_v r)
  | CGetMut k w => do (s', r) <- aget_mut s k w; Ok (s', enc_opt_v r)
  | CPeek k => Ok (s, enc_opt_v (apeek s k))
  | CPeekMut k w => let '(s', r) := apeek_mut s k w in Ok (s', enc_opt_v r)
  | CContains k => Ok (s, [zb (acontains s k)])
  | CRemove k => let '(s', r) := aremove s k in Ok (s', enc_opt_v r)
  | CPurge => Ok (apurge s, [])
  | CLen => Ok (s, [zn (alen s)])
  | CCap => Ok (s, [zn (asize s)])
  | CIsEmpty => Ok (s, [zb (ais_empty s)])
  end.

Definition alist (s : arc) (i : Z) : option lru :=
  if Z.eqb i 0 then Some (t1 s) else if Z.eqb i 1 then Some (b1 s)
  else if Z.eqb i 2 then Some (t2 s) else if Z.eqb i 3 then Some (b2 s) else None.
Definition awith_list (s : arc) (i : Z) (l : lru) : arc :=
  if Z.eqb i 0 then mkArc (asize s) (ap s) l (b1 s) (t2 s) (b2 s)
  else if Z.eqb i 1 then mkArc (asize s) (ap s) (t1 s) l (t2 s) (b2 s)
  else if Z.eqb i 2 then mkArc (asize s) (ap s) (t1 s) (b1 s) l (b2 s)
  else mkArc (asize s) (ap s) (t1 s) (b1 s) (t2 s) l.

Inductive aop :=
| ATrait (o : cop)
| APartition
| AListLen (i : Z)
| AIter (i : Z) (args : list Z).

Definition dec_aop (l : list Z) : option aop :=
  match l with
  | [70] => Some APartition
  | [71] => Some (AListLen 0)
  | [72] => Some (AListLen 2)
  | [73] => Some (AListLen 1)
  | [74] => Some (AListLen 3)
  | 60 :: i :: args => Some (AIter i args)
  | _ => option_map ATrait (dec_cop l)
  end.

Definition astep (s : arc) (o : aop) : res (arc * list Z) :=
  match o with
  | ATrait o => astep_trait s o
  | APartition => Ok (s, [zn (ap s)])
  | AListLen i => Ok (s, match alist s i with Some l => [zn (llen l)] | None => [] end)
  | AIter i args =>
    match alist s i with
    | Some l => match run_list_iter l args with
                | Some (l', out) => Ok (awith_list s i l', out)
                | None => Ok (s, [])
                end
    | None => Ok (s, [])
    end
  end.

Definition astep_enc (s : arc) (o : list Z) : option (arc * list Z * list Z) :=
  match dec_aop o with
  | Some op => let '(s', out) := lift_res s (astep s op) in Some (s', out, [0])
  | None => None
  end.

Definition asnap (s : arc) : list Z :=
  [zn (asize s); zn (ap s)] ++ enc_entries (items (t1 s)) ++ enc_entries (items (b1 s))
    ++ enc_entries (items (t2 s)) ++ enc_entries (items (b2 s)) ++ [1].

Definition ainit (cfg : list Z) : option arc :=
  match cfg with
  | [sz] => if Z.leb sz 0 then None else Some (arc_new (Z.to_nat sz))
  | _ => None
  end.
