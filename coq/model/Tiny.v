(** * Bit-level model of the TinyLFU estimator: doorkeeper Bloom filter (bloom.rs), 4-bit
    count-min sketch (count_min_row.rs, count_min_sketch_std.rs, count_min_sketch_core.rs) and
    tinylfu.rs.  Hashes are [N] with the 64-bit truncation written out. *)
From VF Require Import Base.
From Coq Require Import NArith.
Local Open Scope N_scope.

Definition two64 : N := 18446744073709551616.
Definition wrap64 (x : N) : N := x mod two64.

(** ** count_min_row.rs: a row is a list of bytes, two 4-bit counters per byte *)

Definition row := list N.

Definition nthN (l : list N) (i : N) : option N := nth_error l (N.to_nat i).

Fixpoint set_nth (l : list N) (i : nat) (x : N) : list N :=
  match l, i with
  | [], _ => []
  | _ :: t, O => x :: t
  | h :: t, S i' => h :: set_nth t i' x
  end.

(** [get]: out-of-bounds index is a panic (site 40) *)
Definition row_get (r : row) (i : N) : res N :=
  match nthN r (i / 2) with
  | Some b => Ok (N.land (N.shiftr b ((N.land i 1) * 4)) 15)
  | None => Panic 40
  end.

Definition row_increment (r : row) (i : N) : res row :=
  match nthN r (i / 2) with
  | Some b =>
    let sh := (N.land i 1) * 4 in
    let v := N.land (N.shiftr b sh) 15 in
    if v <? 15 then Ok (set_nth r (N.to_nat (i / 2)) (b + N.shiftl 1 sh)) else Ok r
  | None => Panic 41
  end.

Definition row_reset (r : row) : row := map (fun b => N.land (N.shiftr b 1) 119) r.  (* 0x77 *)
Definition row_clear (r : row) : row := map (fun _ => 0) r.

(** ** sketch *)

Record sketch := mkSketch {
  rows : list row;          (* DEPTH = 4 rows *)
  seeds : list N;           (* std: four seeds; no_std: [] *)
  smask : N
}.

(** counter position of [hash] in row [i] *)
Definition sk_pos (s : sketch) (i : nat) (hash : N) : N :=
  match seeds s with
  | [] => N.land (wrap64 (hash + N.of_nat i * N.shiftr hash 32)) (smask s)   (* no_std, wrapping *)
  | sd => N.land (N.lxor hash (nth i sd 0)) (smask s)                        (* std *)
  end.

Fixpoint sk_incr_rows (s : sketch) (i : nat) (rs : list row) (hash : N) : res (list row) :=
  match rs with
  | [] => Ok []
  | r :: t =>
    do r' <- row_increment r (sk_pos s i hash);
    do t' <- sk_incr_rows s (S i) t hash;
    Ok (r' :: t')
  end.

Definition sk_increment (s : sketch) (hash : N) : res sketch :=
  do rs <- sk_incr_rows s 0 (rows s) hash; Ok (mkSketch rs (seeds s) (smask s)).

Fixpoint sk_min_rows (s : sketch) (i : nat) (rs : list row) (hash : N) (acc : N) : res N :=
  match rs with
  | [] => Ok acc
  | r :: t =>
    do v <- row_get r (sk_pos s i hash);
    sk_min_rows s (S i) t hash (if v <? acc then v else acc)
  end.

Definition sk_estimate (s : sketch) (hash : N) : res N := sk_min_rows s 0 (rows s) hash 255.

Definition sk_reset (s : sketch) : sketch := mkSketch (map row_reset (rows s)) (seeds s) (smask s).
Definition sk_clear (s : sketch) : sketch := mkSketch (map row_clear (rows s)) (seeds s) (smask s).

(** [next_power_of_2] of sketch.rs (correct for arguments up to 2^32) *)
Definition next_pow2 (n : N) : N :=
  let x := n - 1 in
  let x := N.lor x (N.shiftr x 1) in
  let x := N.lor x (N.shiftr x 2) in
  let x := N.lor x (N.shiftr x 4) in
  let x := N.lor x (N.shiftr x 8) in
  let x := N.lor x (N.shiftr x 16) in
  x + 1.

(** [CountMinSketch::new]: width 0 is rejected; at least two counters (one byte) per row *)
Definition sk_new (ctrs : N) (sds : list N) : option sketch :=
  if ctrs <? 1 then None
  else
    let c := N.max 2 (next_pow2 ctrs) in
    let r := repeat 0 (N.to_nat (c / 2)) in
    Some (mkSketch [r; r; r; r] sds (c - 1)).

(** ** bloom.rs *)

Record bloom := mkBloom {
  words : list N;       (* 64-bit words *)
  size_exp : N;
  bmask : N;            (* size - 1 *)
  set_locs : N;
  bshift : N
}.

Definition bl_is_set (b : bloom) (idx : N) : res bool :=
  match nthN (words b) (N.shiftr idx 6) with
  | Some w => Ok (negb (N.land w (N.shiftl 1 (idx mod 64)) =? 0))
  | None => Panic 42
  end.

Definition bl_set (b : bloom) (idx : N) : res bloom :=
  match nthN (words b) (N.shiftr idx 6) with
  | Some w =>
    Ok (mkBloom (set_nth (words b) (N.to_nat (N.shiftr idx 6)) (N.lor w (N.shiftl 1 (idx mod 64))))
                (size_exp b) (bmask b) (set_locs b) (bshift b))
  | None => Panic 43
  end.

(** probe [i]: [(h + i * l) & mask]; an overflow of the 64-bit sum is a panic (site 44) as in a
    debug build *)
Definition bl_index (b : bloom) (hash i : N) : res N :=
  let h := N.shiftr hash (bshift b) in
  let l := N.shiftr (wrap64 (N.shiftl hash (bshift b))) (bshift b) in
  let x := h + i * l in
  if x <? two64 then Ok (N.land x (bmask b)) else Panic 44.

Fixpoint bl_contains_from (b : bloom) (hash : N) (i : N) (n : nat) : res bool :=
  match n with
  | O => Ok true
  | S n' =>
    do idx <- bl_index b hash i;
    do s <- bl_is_set b idx;
    if s then bl_contains_from b hash (i + 1) n' else Ok false
  end.

Definition bl_contains (b : bloom) (hash : N) : res bool :=
  bl_contains_from b hash 0 (N.to_nat (set_locs b)).

Fixpoint bl_add_from (b : bloom) (hash : N) (i : N) (n : nat) : res bloom :=
  match n with
  | O => Ok b
  | S n' =>
    do idx <- bl_index b hash i;
    do b' <- bl_set b idx;
    bl_add_from b' hash (i + 1) n'
  end.

Definition bl_add (b : bloom) (hash : N) : res bloom :=
  bl_add_from b hash 0 (N.to_nat (set_locs b)).

(** [contains_or_add]: true when the hash was added (was not present) *)
Definition bl_contains_or_add (b : bloom) (hash : N) : res (bloom * bool) :=
  do c <- bl_contains b hash;
  if c then Ok (b, false) else (do b' <- bl_add b hash; Ok (b', true)).

Definition bl_clear (b : bloom) : bloom :=
  mkBloom (map (fun _ => 0) (words b)) (size_exp b) (bmask b) (set_locs b) (bshift b).

(** the Bloom geometry comes from [ceil]/[ln] computations that are not modelled: it is a
    parameter, constrained by [bloom_geometry_ok] (checked on every real instance) *)
Definition bl_new (exp locs : N) : bloom :=
  mkBloom (repeat 0 (N.to_nat (N.shiftl 1 exp / 64))) exp (N.shiftl 1 exp - 1) locs (64 - exp).

Definition bloom_geometry_ok (exp locs : N) : bool :=
  (9 <=? exp) && (exp <=? 63) && (1 <=? locs) &&
  (locs * (N.shiftl 1 exp - 1) <? two64).

(** ** tinylfu.rs *)

Record tinylfu := mkTiny {
  ctr : sketch;
  door : bloom;
  tsamples : N;
  tw : N
}.

Definition tl_estimate (t : tinylfu) (h : N) : res N :=
  do hits <- sk_estimate (ctr t) h;
  do c <- bl_contains (door t) h;
  Ok (if c then hits + 1 else hits).

Definition tl_reset (t : tinylfu) : tinylfu :=
  mkTiny (sk_reset (ctr t)) (bl_clear (door t)) (tsamples t) 0.

Definition tl_try_reset (t : tinylfu) : tinylfu :=
  let w' := tw t + 1 in
  if tsamples t <=? w' then tl_reset t else mkTiny (ctr t) (door t) (tsamples t) w'.

Definition tl_increment (t : tinylfu) (h : N) : res tinylfu :=
  do (d', added) <- bl_contains_or_add (door t) h;
  do c' <- (if added then Ok (ctr t) else sk_increment (ctr t) h);
  Ok (tl_try_reset (mkTiny c' d' (tsamples t) (tw t))).

Fixpoint tl_increments (t : tinylfu) (hs : list N) : res tinylfu :=
  match hs with
  | [] => Ok t
  | h :: hs' => do t' <- tl_increment t h; tl_increments t' hs'
  end.

Definition tl_clear (t : tinylfu) : tinylfu :=
  mkTiny (sk_clear (ctr t)) (bl_clear (door t)) (tsamples t) 0.

Definition tl_contains (t : tinylfu) (h : N) : res bool := bl_contains (door t) h.

(** comparison helpers: the two estimates are compared *)
Definition tl_cmp (t : tinylfu) (a b : N) : res (N * N) :=
  do x <- tl_estimate t a; do y <- tl_estimate t b; Ok (x, y).
Definition tl_lt (t : tinylfu) (a b : N) : res bool := do (x, y) <- tl_cmp t a b; Ok (x <? y).

Definition tl_new (size samples exp locs : N) (sds : list N) : option tinylfu :=
  if samples =? 0 then None
  else match sk_new size sds with
       | Some s => Some (mkTiny s (bl_new exp locs) samples 0)
       | None => None
       end.
