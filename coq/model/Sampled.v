(** * Model of [SampledLFU] (src/lfu/sampled.rs): cost accounting in i64 arithmetic that wraps
    ([wrapping_add] / [wrapping_sub]): costs and the capacity are arbitrary i64 values, every sum and
    difference is taken modulo 2^64 into the signed range ([w64]). *)
From VF Require Import Base.

(** two's complement wrap of an integer into the i64 range *)
Definition w64 (z : Z) : Z := (z + 9223372036854775808) mod 18446744073709551616 - 9223372036854775808.

Record sampled := mkSampled {
  smax : Z;
  sused : Z;
  scosts : list (Z * Z);     (* tracked (hashed key, cost), keys pairwise distinct *)
  ssamples : nat
}.

Definition sam_new (mc : Z) (n : nat) : sampled := mkSampled mc 0 [] n.

Definition sam_room_left (s : sampled) (c : Z) : Z := w64 (smax s - w64 (sused s + c)).

(** [increment_hashed_key]: insert or replace; only the difference to a replaced cost is added *)
Definition sam_increment (s : sampled) (k c : Z) : sampled :=
  match find k (scosts s) with
  | Some prev => mkSampled (smax s) (w64 (sused s + w64 (c - prev))) (set_val k c (scosts s)) (ssamples s)
  | None => mkSampled (smax s) (w64 (sused s + w64 (c - 0))) ((k, c) :: scosts s) (ssamples s)
  end.

Definition sam_update (s : sampled) (k c : Z) : sampled * bool :=
  match find k (scosts s) with
  | Some prev => (mkSampled (smax s) (w64 (sused s + w64 (c - prev))) (set_val k c (scosts s)) (ssamples s), true)
  | None => (s, false)
  end.

Definition sam_remove (s : sampled) (k : Z) : sampled * option Z :=
  match find k (scosts s) with
  | Some c => (mkSampled (smax s) (w64 (sused s - c)) (remove_key k (scosts s)) (ssamples s), Some c)
  | None => (s, None)
  end.

Definition sam_clear (s : sampled) : sampled := mkSampled (smax s) 0 [] (ssamples s).
Definition sam_update_max (s : sampled) (mc : Z) : sampled := mkSampled mc (sused s) (scosts s) (ssamples s).

(** [fill_sample input]: the hash map's iteration order is unspecified, so the model takes the
    order as an argument ([order] must be a permutation of the tracked pairs) *)
Definition sam_fill (s : sampled) (order : list (Z * Z)) (input : list (Z * Z)) : list (Z * Z) :=
  if Nat.leb (ssamples s) (length input) then input
  else input ++ firstn (ssamples s - length input) order.

(** validation of a real output: it must be the input followed by pairwise distinct tracked
    pairs, exactly as many as [sam_fill] appends *)
Fixpoint pairs_tracked (l : list (Z * Z)) (tracked : list (Z * Z)) : bool :=
  match l with
  | [] => true
  | (k, c) :: t =>
    match find k tracked with
    | Some c' => Z.eqb c c' && pairs_tracked t (remove_key k tracked)
    | None => false
    end
  end.

Definition sam_fill_valid (s : sampled) (input appended : list (Z * Z)) : bool :=
  if Nat.leb (ssamples s) (length input) then Nat.eqb (length appended) 0
  else Nat.eqb (length appended) (Nat.min (ssamples s - length input) (length (scosts s)))
       && pairs_tracked appended (scosts s).
