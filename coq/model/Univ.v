(** * One state machine for every modelled type, as the runner drives it.

    [uinit kind cfg], [ustep s op] and [usnap s] work on integer lists only.
    Operation [99] is the final drop of the object: its result is what the harness measures
    while dropping ([keys dropped; values dropped; double drops; live tracked objects; live
    heap blocks allocated by the object; poison damage]). *)
From VF Require Import Base Iter Enc Lru LruStep Slru TwoQ Arc CacheStep Tiny WTiny Sampled TinyStep Sizing Conv Heap HeapStep Fault FaultStep HeapSlruDef HeapSlruStep HeapTwoQDef HeapArcDef HeapWTinyDef HeapCompStep.
Open Scope Z_scope.

Inductive ustate :=
| UDead
| ULru (s : lru)
| USlru (s : slru)
| UTwoQ (s : twoq)
| UArc (s : arc)
| UWTiny (s : wtiny)
| UTiny (s : tinylfu)
| USampled (s : sampled)
| UPutRes
| UCtor
| UHeap (s : hstate)
| UFault (s : fstate)
| UHSlru (s : hsstate)
| UHTwoQ (s : htqstate)
| UHArc (s : hastate)
| UHWTiny (s : hwstate).

Definition uinit (kind : Z) (cfg : list Z) : option ustate :=
  match kind with
  | 0 => option_map ULru (linit cfg)
  | 1 => option_map USlru (sinit cfg)
  | 2 => option_map UTwoQ (qinit cfg)
  | 3 => option_map UArc (ainit cfg)
  | 4 => option_map UWTiny (winit cfg)
  | 5 => option_map UTiny (tinit cfg)
  | 6 => option_map USampled (saminit cfg)
  | 7 => Some UPutRes
  | 8 => Some UCtor
  | 9 => option_map UHeap (hinit cfg)
  | 10 => option_map UFault (finit cfg)
  | 11 => option_map UHSlru (hsinit cfg)
  | 12 => option_map UHTwoQ (htqinit cfg)
  | 13 => option_map UHArc (hainit cfg)
  | 14 => option_map UHWTiny (hwinit cfg)
  | _ => None
  end.

(** number of (key, value) pairs the object owns *)
Definition uretained (s : ustate) : nat :=
  match s with
  | UDead => 0%nat
  | ULru s => llen s
  | USlru s => (llen (prob s) + llen (prot s))%nat
  | UTwoQ s => (llen (recent s) + llen (frequent s) + llen (ghost s))%nat
  | UArc s => (llen (t1 s) + llen (b1 s) + llen (t2 s) + llen (b2 s))%nat
  | UWTiny s => wlen s
  | UTiny _ => 0%nat
  | USampled _ => 0%nat
  | UPutRes => 0%nat
  | UCtor => 0%nat
  | UHeap s => hretained s
  | UFault s => fretained s
  | UHSlru s => hsretained s
  | UHTwoQ s => htqretained s
  | UHArc s => haretained s
  | UHWTiny s => hwretained s
  end.

(** tracked objects that are alive but in no node (lost by a panic in user code): kind 10 only *)
Definition uleaked (s : ustate) : nat :=
  match s with UFault s => fleaked s | _ => 0%nat end.

Definition drop_out (n : nat) : list Z := [zn n; zn n; 0; 0; 0; 0].

Definition lift {A} (f : A -> ustate) (r : option (A * list Z * list Z)) : option (ustate * list Z * list Z) :=
  match r with
  | Some (s', o, cb) => Some (f s', o, cb)
  | None => None
  end.

(** PutResult itself: [130 ta xa ya za tb xb yb zb] compares two results; the answers are
    [a == b; b == a; clone a == a; copy a == a; a == a; a != b] *)
Definition dec_putres (t x y z : Z) : put_result :=
  match t with
  | 0 => PPut
  | 1 => PUpdate x
  | 2 => PEvicted x y
  | _ => PEvictedAndUpdate x y z
  end.

Definition put_result_eqb (a b : put_result) : bool :=
  match a, b with
  | PPut, PPut => true
  | PUpdate x, PUpdate y => Z.eqb x y
  | PEvicted k1 v1, PEvicted k2 v2 => Z.eqb k1 k2 && Z.eqb v1 v2
  | PEvictedAndUpdate k1 v1 o1, PEvictedAndUpdate k2 v2 o2 => Z.eqb k1 k2 && Z.eqb v1 v2 && Z.eqb o1 o2
  | _, _ => false
  end.

Definition putres_step (op : list Z) : option (ustate * list Z * list Z) :=
  match op with
  | [130; ta; xa; ya; wa; tb; xb; yb; wb] =>
    let a := dec_putres ta xa ya wa in
    let b := dec_putres tb xb yb wb in
    Some (UPutRes, [zb (put_result_eqb a b); zb (put_result_eqb b a); 1; 1; 1; zb (negb (put_result_eqb a b))], [0])
  | _ => None
  end.

Definition ustep (s : ustate) (op : list Z) : option (ustate * list Z * list Z) :=
  match op with
  | [99] => Some (UDead, match s with UHeap hs => hdrop_out hs | UFault fs => fdrop_out fs | UHSlru hs => hsdrop_out hs | UHTwoQ hs => htqdrop_out hs | UHArc hs => hadrop_out hs | UHWTiny hs => hwdrop_out hs | _ => drop_out (uretained s) end, [0])
  | _ =>
    match s with
    | UDead => None
    | ULru s => lift ULru (lstep_enc s op)
    | USlru s => lift USlru (sstep_enc s op)
    | UTwoQ s => lift UTwoQ (qstep_enc s op)
    | UArc s => lift UArc (astep_enc s op)
    | UWTiny s => lift UWTiny (wstep_enc s op)
    | UTiny s => lift UTiny (tstep_enc s op)
    | USampled s => lift USampled (samstep_enc s op)
    | UPutRes => putres_step op
    | UCtor => match (match op with 142 :: _ => conv_step op | _ => ctor_step op end) with
               | Some out => Some (UCtor, out, [0]) | None => None end
    | UHeap s => lift UHeap (hstep_enc s op)
    | UFault s => lift UFault (fstep_enc s op)
    | UHSlru s => lift UHSlru (hsstep_enc s op)
    | UHTwoQ s => lift UHTwoQ (htqstep_enc s op)
    | UHArc s => lift UHArc (hastep_enc s op)
    | UHWTiny s => lift UHWTiny (hwstep_enc s op)
    end
  end.

Definition usnap (s : ustate) : list Z :=
  match s with
  | UDead => []
  | ULru s => lsnap s
  | USlru s => ssnap s
  | UTwoQ s => qsnap s
  | UArc s => asnap s
  | UWTiny s => wsnap s
  | UTiny s => tsnap s
  | USampled s => samsnap s
  | UPutRes => []
  | UCtor => []
  | UHeap s => hsnap s
  | UFault s => fsnap s
  | UHSlru s => hssnap s
  | UHTwoQ s => htqsnap s
  | UHArc s => hasnap s
  | UHWTiny s => hwsnap s
  end.
