(** * RawLRU as a state machine: operations, step function, encodings. *)
From VF Require Import Base Iter Enc Lru.

Inductive lop :=
| LPut (k : key) (v : val)
| LGet (k : key)
| LGetMut (k : key) (w : option val)
| LPeek (k : key)
| LPeekMut (k : key) (w : option val)
| LContains (k : key)
| LRemove (k : key)
| LPurge
| LLen | LCap | LIsEmpty
| LResize (n : nat)
| LGetLru | LGetMru
| LGetLruMut (w : option val) | LGetMruMut (w : option val)
| LPeekOrPut (k : key) (v : val)
| LPeekMutOrPut (k : key) (v : val) (w : option val)
| LContainsOrPut (k : key) (v : val)
| LPeekLru | LPeekLruMut (w : option val)
| LPeekMru | LPeekMruMut (w : option val)
| LRemoveLru
| LIter (kd : iter_kind) (pre pa pb : list req)
| LClone          (* replace the cache by its clone *)
| LDebug.         (* format with {:?}: reports len and cap *)

Definition dec_lop (l : list Z) : option lop :=
  match l with
  | [0; k; v] => Some (LPut k v)
  | [1; k] => Some (LGet k)
  | [2; k; f; w] => Some (LGetMut k (dec_w f w))
  | [3; k] => Some (LPeek k)
  | [4; k; f; w] => Some (LPeekMut k (dec_w f w))
  | [5; k] => Some (LContains k)
  | [6; k] => Some (LRemove k)
  | [7] => Some LPurge
  | [8] => Some LLen
  | [9] => Some LCap
  | [10] => Some LIsEmpty
  | [11; n] => Some (LResize (Z.to_nat n))
  | [12] => Some LGetLru
  | [13] => Some LGetMru
  | [14; f; w] => Some (LGetLruMut (dec_w f w))
  | [15; f; w] => Some (LGetMruMut (dec_w f w))
  | [16; k; v] => Some (LPeekOrPut k v)
  | [17; k; v; f; w] => Some (LPeekMutOrPut k v (dec_w f w))
  | [18; k; v] => Some (LContainsOrPut k v)
  | [19] => Some LPeekLru
  | [20; f; w] => Some (LPeekLruMut (dec_w f w))
  | [21] => Some LPeekMru
  | [22; f; w] => Some (LPeekMruMut (dec_w f w))
  | [23] => Some LRemoveLru
  | 24 :: t => match dec_iter t with
               | Some (kd, pre, pa, pb) => Some (LIter kd pre pa pb)
               | None => None
               end
  | [25] => Some LClone
  | [26] => Some LDebug
  | _ => None
  end.

(** step: new state, encoded result, callback log *)
Definition lstep (s : lru) (o : lop) : lru * list Z * list entry :=
  match o with
  | LPut k v => let '(s', r, cb) := put s k v in (s', enc_put r, cb)
  | LGet k => let '(s', r) := get s k in (s', enc_opt_v r, [])
  | LGetMut k w => let '(s', r) := get_mut s k w in (s', enc_opt_v r, [])
  | LPeek k => (s, enc_opt_v (peek s k), [])
  | LPeekMut k w => let '(s', r) := peek_mut s k w in (s', enc_opt_v r, [])
  | LContains k => (s, [zb (contains s k)], [])
  | LRemove k => let '(s', r, cb) := remove s k in (s', enc_opt_v r, cb)
  | LPurge => let '(s', cb) := purge s in (s', [], cb)
  | LLen => (s, [zn (llen s)], [])
  | LCap => (s, [zn (cap s)], [])
  | LIsEmpty => (s, [zb (Nat.eqb (llen s) 0)], [])
  | LResize n => let '(s', r, cb) := resize s n in (s', [zn r], cb)
  | LGetLru => let '(s', r) := get_lru s in (s', enc_opt_kv r, [])
  | LGetMru => (s, enc_opt_kv (get_mru s), [])
  | LGetLruMut w => let '(s', r) := get_lru_mut s w in (s', enc_opt_kv r, [])
  | LGetMruMut w => let '(s', r) := get_mru_mut s w in (s', enc_opt_kv r, [])
  | LPeekOrPut k v =>
    let '(s', a, b, cb) := peek_or_put s k v in (s', enc_opt_v a ++ enc_opt_put b, cb)
  | LPeekMutOrPut k v w =>
    let '(s', a, b, cb) := peek_mut_or_put s k v w in (s', enc_opt_v a ++ enc_opt_put b, cb)
  | LContainsOrPut k v =>
    let '(s', a, b, cb) := contains_or_put s k v in (s', zb a :: enc_opt_put b, cb)
  | LPeekLru => (s, enc_opt_kv (peek_lru s), [])
  | LPeekLruMut w => let '(s', r) := peek_lru_mut s w in (s', enc_opt_kv r, [])
  | LPeekMru => (s, enc_opt_kv (peek_mru s), [])
  | LPeekMruMut w => let '(s', r) := peek_mru_mut s w in (s', enc_opt_kv r, [])
  | LRemoveLru => let '(s', r, cb) := remove_lru s in (s', enc_opt_kv r, cb)
  | LIter kd pre pa pb =>
    let '(y0, ya, yb, l') := iter_script kd pre pa pb (items s) in
    (with_items s l', enc_iter_out kd (y0, ya, yb), [])
  | LClone => (clone s, [], [])
  | LDebug => (s, [zn (llen s); zn (cap s)], [])
  end.

(** snapshot: capacity, the entries most-recent first, then the structural-audit flag (the
    harness reports 1 when the real list is a well-formed chain matching its index) *)
Definition lsnap (s : lru) : list Z := zn (cap s) :: enc_entries (items s) ++ [1].

(** configuration: [cap cbflag] *)
Definition linit (cfg : list Z) : option lru :=
  match cfg with
  | [c; cb] => if Z.leb c 0 then None else Some (lru_new (Z.to_nat c) (negb (Z.eqb cb 0)))
  | _ => None
  end.

(** full encoded step, as the runner uses it: new state, result, callback log *)
Definition lstep_enc (s : lru) (o : list Z) : option (lru * list Z * list Z) :=
  match dec_lop o with
  | None => None
  | Some op => let '(s', out, cb) := lstep s op in Some (s', out, enc_entries cb)
  end.
