(** * Integer encodings of operations, results and snapshots.

    The harness prints every operation, its result and a snapshot of the cache as lists of
    integers; the model decodes the operation, steps, and encodes its own result and snapshot
    the same way, so the comparison is equality of integer lists. *)
From VF Require Import Base Iter.

Definition zn (n : nat) : Z := Z.of_nat n.
Definition zb (b : bool) : Z := if b then 1 else 0.

Definition enc_opt_v (o : option val) : list Z :=
  match o with Some v => [1; v] | None => [0] end.
Definition enc_opt_kv (o : option entry) : list Z :=
  match o with Some (k, v) => [1; k; v] | None => [0] end.
Definition enc_put (r : put_result) : list Z :=
  match r with
  | PPut => [0]
  | PUpdate old => [1; old]
  | PEvicted k v => [2; k; v]
  | PEvictedAndUpdate k v old => [3; k; v; old]
  end.
Definition enc_opt_put (r : option put_result) : list Z :=
  match r with Some r => 1 :: enc_put r | None => [0] end.
Definition enc_entries (l : list entry) : list Z :=
  zn (length l) :: flat_map (fun e => [fst e; snd e]) l.

Definition dec_w (f w : Z) : option val := if Z.eqb f 0 then None else Some w.

(** iterator yields, projected as the iterator type projects them *)
Definition enc_yield (proj : nat) (y : option entry * nat) : list Z :=
  match fst y with
  | None => [0; zn (snd y)]
  | Some (k, v) =>
    match proj with
    | O => [1; k; v; zn (snd y)]
    | S O => [1; k; zn (snd y)]
    | _ => [1; v; zn (snd y)]
    end
  end.
Definition enc_yields (proj : nat) (ys : list (option entry * nat)) : list Z :=
  flat_map (enc_yield proj) ys.

(** requests are triples [back wf w] *)
Fixpoint dec_reqs (n : nat) (l : list Z) : option (list req * list Z) :=
  match n with
  | O => Some ([], l)
  | S n' =>
    match l with
    | b :: f :: w :: t =>
      match dec_reqs n' t with
      | Some (rs, rest) => Some (((if Z.eqb b 0 then Front else Back), dec_w f w) :: rs, rest)
      | None => None
      end
    | _ => None
    end
  end.

(** iterator script: [kind npre na nb] followed by the triples *)
Definition dec_iter (l : list Z) : option (iter_kind * list req * list req * list req) :=
  match l with
  | c :: npre :: na :: nb :: t =>
    match kind_of_code c with
    | None => None
    | Some kd =>
      match dec_reqs (Z.to_nat npre) t with
      | None => None
      | Some (pre, t1) =>
        match dec_reqs (Z.to_nat na) t1 with
        | None => None
        | Some (pa, t2) =>
          match dec_reqs (Z.to_nat nb) t2 with
          | Some (pb, []) => Some (kd, pre, pa, pb)
          | _ => None
          end
        end
      end
    end
  | _ => None
  end.

Definition enc_iter_out (kd : iter_kind)
  (r : list (option entry * nat) * list (option entry * nat) * list (option entry * nat)) : list Z :=
  let '(y0, ya, yb) := r in
  enc_yields (ik_proj kd) y0 ++ enc_yields (ik_proj kd) ya ++ enc_yields (ik_proj kd) yb.
