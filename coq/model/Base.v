(** * Base definitions shared by every model file.

    Keys and values are integers ([Z]); lengths, capacities and indices are [nat].
    Every list that stands for a recency list is kept most-recently-used first,
    exactly the order in which the Rust iterators [iter()] yield. *)
From Coq Require Export List ZArith Bool Arith Lia.
Export ListNotations.
Open Scope Z_scope.

Definition key := Z.
Definition val := Z.
Notation entry := (key * val)%type (only parsing).

(** Result of an operation that contains a Rust [unwrap()], an index or an arithmetic
    operation that may panic: the panic is an explicit value carrying the name of the site. *)
Inductive res (A : Type) : Type :=
| Ok (a : A)
| Panic (site : nat).
Arguments Ok {A} a.
Arguments Panic {A} site.

Definition bind {A B} (r : res A) (f : A -> res B) : res B :=
  match r with Ok a => f a | Panic s => Panic s end.
Notation "'do' x <- r ; f" := (bind r (fun x => f)) (at level 200, x pattern, r at level 100, f at level 200).

(** [PutResult<K, V>] of lib.rs. *)
Inductive put_result :=
| PPut
| PUpdate (old : val)
| PEvicted (k : key) (v : val)
| PEvictedAndUpdate (k : key) (v : val) (old : val).

(** ** Association-list primitives (the hash index of a RawLRU is the key set of its list) *)

Fixpoint find (k : key) (l : list entry) : option val :=
  match l with
  | [] => None
  | (k', v) :: t => if Z.eqb k k' then Some v else find k t
  end.

Fixpoint remove_key (k : key) (l : list entry) : list entry :=
  match l with
  | [] => []
  | (k', v) :: t => if Z.eqb k k' then t else (k', v) :: remove_key k t
  end.

Definition mem (k : key) (l : list entry) : bool :=
  match find k l with Some _ => true | None => false end.

(** write [w] into the value stored for [k] (keeps the position) *)
Fixpoint set_val (k : key) (w : val) (l : list entry) : list entry :=
  match l with
  | [] => []
  | (k', v) :: t => if Z.eqb k k' then (k', w) :: t else (k', v) :: set_val k w t
  end.

Definition set_val_opt (k : key) (w : option val) (l : list entry) : list entry :=
  match w with Some w => set_val k w l | None => l end.

(** split off the last element: [split_last [a;b;c] = Some ([a;b], c)] *)
Fixpoint split_last (l : list entry) : option (list entry * entry) :=
  match l with
  | [] => None
  | x :: t => match split_last t with
              | Some (r, y) => Some (x :: r, y)
              | None => Some ([], x)
              end
  end.

Definition keys (l : list entry) : list key := map fst l.
