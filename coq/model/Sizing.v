(** * Constructors: argument validation and sub-size computation, including the floating-point
    ones, with Flocq's executable IEEE-754 binary64 ([BinarySingleNaN]: one NaN, which is all the
    comparisons of the code can observe).  Ratios are given by their 64 bit patterns. *)
From Flocq Require Import IEEE754.Binary IEEE754.Bits IEEE754.BinarySingleNaN Core.FLX.
From Coq Require Import ZArith List.
Import ListNotations.
Open Scope Z_scope.

Definition f64 := BinarySingleNaN.binary_float 53 1024.
#[local] Instance prec53 : Prec_gt_0 53 := eq_refl.
#[local] Instance prec53_emax : Prec_lt_emax 53 1024 := eq_refl.

Definition f_of_bits (b : Z) : f64 := B2BSN 53 1024 (b64_of_bits b).
(** [n as f64] (round to nearest even when [n] has more than 53 bits) *)
Definition f_of_Z (z : Z) : f64 := BinarySingleNaN.binary_normalize 53 1024 eq_refl eq_refl mode_NE z 0 false.
Definition f_mul (x y : f64) : f64 := BinarySingleNaN.Bmult mode_NE x y.
Definition f_sub (x y : f64) : f64 := BinarySingleNaN.Bminus mode_NE x y.
Definition f_le (x y : f64) : bool := BinarySingleNaN.Bleb x y.
Definition f_lt (x y : f64) : bool := BinarySingleNaN.Bltb x y.

Definition u64_max : Z := 18446744073709551615.

(** [x as usize]: truncation toward zero, saturating, NaN -> 0 *)
Definition f_to_usize (x : f64) : Z :=
  match x with
  | B754_nan => 0
  | B754_infinity s => if s then 0 else u64_max
  | _ => let z := BinarySingleNaN.Btrunc x in if z <? 0 then 0 else Z.min z u64_max
  end.

(** [floor(x) as usize]: every argument the code passes is >= -0.0, where floor = truncation *)
Definition f_floor_usize := f_to_usize.

Definition f_zero : f64 := f_of_Z 0.
Definition f_one : f64 := f_of_Z 1.
(** the constants of wtinylfu.rs and tinylfu.rs as bit patterns *)
Definition bits_0_01 : Z := 4576918229304087675.   (* 0.01 *)
Definition bits_0_80 : Z := 4605380978949069210.   (* 0.80 *)

(** [(0.0..=1.0).contains(&r)] *)
Definition ratio_ok (r : f64) : bool := f_le f_zero r && f_le r f_one.
(** [fp > 0.0 && fp < 1.0] *)
Definition fp_ok (r : f64) : bool := f_lt f_zero r && f_lt r f_one.

(** results: [0 :: sizes] for Ok, [1; code; payload] for Err.
    codes: 1 InvalidSize, 2 InvalidRecentRatio, 3 InvalidGhostRatio, 4 InvalidWindowCacheSize,
    5 InvalidProtectedCacheSize, 6 InvalidProbationaryCacheSize, 7 InvalidSamples,
    8 InvalidFalsePositiveRatio, 9 InvalidCountMinWidth; a float payload is its bit pattern *)
Definition err (code payload : Z) : list Z := [1; code; payload].

Definition ctor_rawlru (cap : Z) : list Z := if cap =? 0 then err 1 0 else [0; cap].

Definition ctor_slru (prob prot : Z) : list Z :=
  if prot =? 0 then err 1 0 else if prob =? 0 then err 1 0 else [0; prob; prot].

(** TwoQueueCache::with_2q_parameters and TwoQueueCacheBuilder::finalize *)
Definition ctor_twoq (size rr gr : Z) : list Z :=
  if size =? 0 then err 1 0
  else if negb (ratio_ok (f_of_bits rr)) then err 2 rr
  else if negb (ratio_ok (f_of_bits gr)) then err 3 gr
  else
    let rs := f_floor_usize (f_mul (f_of_Z size) (f_of_bits rr)) in
    let es := f_floor_usize (f_mul (f_of_Z size) (f_of_bits gr)) in
    if es =? 0 then err 1 0 else [0; size; rs; es].

Definition ctor_arc (size : Z) : list Z := if size =? 0 then err 1 0 else [0; size].

(** TinyLFUBuilder::finalize (the Bloom sizing with ln/ceil is not modelled) *)
Definition ctor_tiny (size samples fp : Z) : list Z :=
  if samples =? 0 then err 7 0
  else if negb (fp_ok (f_of_bits fp)) then err 8 fp
  else if size =? 0 then err 9 0
  else [0].

(** WTinyLFUCacheBuilder::finalize *)
Definition ctor_wtiny_sizes (w prot prob samples fp : Z) : list Z :=
  if w =? 0 then err 4 0
  else if prot =? 0 then err 5 0
  else if prob =? 0 then err 6 0
  else if samples =? 0 then err 7 samples
  else if negb (fp_ok (f_of_bits fp)) then err 8 fp
  else [0; w; prot; prob].

(** WTinyLFUCache::new(size, samples): the three sizes are float products truncated to usize *)
Definition ctor_wtiny_new (size samples : Z) : list Z :=
  let sz := f_of_Z size in
  let w := f_to_usize (f_mul sz (f_of_bits bits_0_01)) in
  let h := f_to_usize (f_mul sz (f_of_bits bits_0_80)) in
  let c := f_to_usize (f_mul sz (f_sub f_one (f_of_bits bits_0_80))) in
  ctor_wtiny_sizes w h c samples bits_0_01.

(** ** the builders: the fields they carry, their setters, [finalize].
    One record serves the four builders a user can name (TinyLFUBuilder is not exported): [b_a .. b_d] are the sizes / samples, [b_r1] / [b_r2] the ratios (bit
    patterns).  TwoQueueCacheBuilder: a = size, r1 = recent ratio, r2 = ghost ratio; SegmentedCacheBuilder:
    a = probationary, b = protected; AdaptiveCacheBuilder: a = size; WTinyLFUCacheBuilder: a = window,
    b = protected, c = probationary, d = samples, r1 = false positive ratio.  The hashers a builder carries do not influence the result. *)
Record bld := mkBld { b_a : Z; b_b : Z; b_c : Z; b_d : Z; b_r1 : Z; b_r2 : Z }.

Definition bits_0_25 : Z := 4598175219545276416.   (* 0.25: DEFAULT_2Q_RECENT_RATIO *)
Definition bits_0_50 : Z := 4602678819172646912.   (* 0.5:  DEFAULT_2Q_GHOST_RATIO *)

Inductive field := FA | FB | FC | FD | FR1 | FR2 | FHasher.

Definition bset (f : field) (x : Z) (b : bld) : bld :=
  match f with
  | FA => mkBld x (b_b b) (b_c b) (b_d b) (b_r1 b) (b_r2 b)
  | FB => mkBld (b_a b) x (b_c b) (b_d b) (b_r1 b) (b_r2 b)
  | FC => mkBld (b_a b) (b_b b) x (b_d b) (b_r1 b) (b_r2 b)
  | FD => mkBld (b_a b) (b_b b) (b_c b) x (b_r1 b) (b_r2 b)
  | FR1 => mkBld (b_a b) (b_b b) (b_c b) (b_d b) x (b_r2 b)
  | FR2 => mkBld (b_a b) (b_b b) (b_c b) (b_d b) (b_r1 b) x
  | FHasher => b
  end.

(** which field a setter of builder [which] writes (setter numbers as the harness numbers them) *)
Definition setter_field (which setter : Z) : option field :=
  match which, setter with
  (* TwoQueueCacheBuilder: set_size, set_recent_ratio, set_ghost_ratio, set_{recent,frequent,ghost}_hasher *)
  | 1, 1 => Some FA | 1, 2 => Some FR1 | 1, 3 => Some FR2 | 1, 4 | 1, 5 | 1, 6 => Some FHasher
  (* SegmentedCacheBuilder: set_probationary_size, set_protected_size, two hashers *)
  | 2, 1 => Some FA | 2, 2 => Some FB | 2, 3 | 2, 4 => Some FHasher
  (* AdaptiveCacheBuilder: set_size, four hashers *)
  | 3, 1 => Some FA | 3, 2 | 3, 3 | 3, 4 | 3, 5 => Some FHasher
  (* WTinyLFUCacheBuilder: set_samples, set_window_cache_size, set_protected_cache_size,
     set_probationary_cache_size, set_false_positive_ratio, three hashers, set_key_hasher *)
  | 4, 1 => Some FD | 4, 2 => Some FA | 4, 3 => Some FB | 4, 4 => Some FC | 4, 5 => Some FR1
  | 4, 6 | 4, 7 | 4, 8 | 4, 9 => Some FHasher
  | _, _ => None
  end.

(** [Default::default()] of each builder *)
Definition bld_default (which : Z) : bld :=
  if which =? 1 then mkBld 0 0 0 0 bits_0_25 bits_0_50 else mkBld 0 0 0 0 bits_0_01 0.

(** [Builder::new(args)]: the default builder, then the setters the constructor applies *)
Definition bld_new (which : Z) (args : list Z) : option bld :=
  match which, args with
  | 1, [size] => Some (bset FA size (bld_default 1))
  | 2, [prob; prot] => Some (bset FB prot (bset FA prob (bld_default 2)))
  | 3, [size] => Some (bset FA size (bld_default 3))
  | 4, [w; prot; prob; samples] =>
    Some (bset FC prob (bset FB prot (bset FA w (bset FD samples (bld_default 4)))))
  | _, _ => None
  end.

Definition bld_nargs (which : Z) : nat :=
  if which =? 1 then 1%nat else if which =? 2 then 2%nat else if which =? 3 then 1%nat
  else if which =? 4 then 4%nat else 0%nat.

Fixpoint bld_run (which : Z) (script : list Z) (b : bld) : option bld :=
  match script with
  | [] => Some b
  | setter :: arg :: rest =>
    match setter_field which setter with
    | Some f => bld_run which rest (bset f arg b)
    | None => None
    end
  | _ => None
  end.

Definition bld_finalize (which : Z) (b : bld) : option (list Z) :=
  if which =? 1 then Some (ctor_twoq (b_a b) (b_r1 b) (b_r2 b))
  else if which =? 2 then Some (ctor_slru (b_a b) (b_b b))
  else if which =? 3 then Some (ctor_arc (b_a b))
  else if which =? 4 then Some (ctor_wtiny_sizes (b_a b) (b_b b) (b_c b) (b_d b) (b_r1 b))
  else None.

(** [141; which; mode; init args (mode 1 = new(args), mode 0 = default()); (setter, arg)*]: run the script, finalize *)
Definition bld_step (op : list Z) : option (list Z) :=
  match op with
  | 141 :: which :: mode :: rest =>
    let n := if mode =? 0 then 0%nat else bld_nargs which in
    match (if mode =? 0 then Some (bld_default which) else bld_new which (firstn n rest)) with
    | Some b0 =>
      match bld_run which (skipn n rest) b0 with
      | Some b => bld_finalize which b
      | None => None
      end
    | None => None
    end
  | _ => None
  end.

(** the constructor call as an operation: [140; which; args...] *)
Definition ctor_step (op : list Z) : option (list Z) :=
  match op with
  | [140; 1; cap] => Some (ctor_rawlru cap)
  | [140; 2; prob; prot] => Some (ctor_slru prob prot)
  | [140; 3; size; rr; gr] | [140; 4; size; rr; gr] => Some (ctor_twoq size rr gr)
  | [140; 5; size] => Some (ctor_arc size)
  | [140; 6; w; prot; prob; samples] => Some (ctor_wtiny_sizes w prot prob samples bits_0_01)
  | [140; 7; size; samples] => Some (ctor_wtiny_new size samples)
  | [140; 8; size; samples; fp] => Some (ctor_tiny size samples fp)
  (* TwoQueueCache::new / with_recent_ratio / with_ghost_ratio *)
  | [140; 9; size] => Some (ctor_twoq size bits_0_25 bits_0_50)
  | [140; 10; size; rr] => Some (ctor_twoq size rr bits_0_50)
  | [140; 11; size; gr] => Some (ctor_twoq size bits_0_25 gr)
  (* RawLRU::with_hasher / with_on_evict_cb / with_on_evict_cb_and_hasher *)
  | [140; 12; cap] | [140; 13; cap] | [140; 14; cap] => Some (ctor_rawlru cap)
  | 141 :: _ => bld_step op
  | _ => None
  end.
