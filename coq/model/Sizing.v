(** * Constructors: argument validation and sub-size computation, including the floating-point
    ones, with Flocq's executable IEEE-754 binary64 ([BinarySingleNaN]: one NaN, which is all the
    comparisons of the code can observe).  Ratios are given by their 64 bit patterns. *)
From Flocq Require Import IEEE754.Binary IEEE754.Bits IEEE754.BinarySingleNaN Core.FLX.
From Coq Require Import ZArith List.
Import ListNotations.
Open Scope Z_scope.

Definition f64 := BinarySingleNaN.binary_float 53 1024.
#[local] Instance prec53 : Prec_gt_0 53 := eq_refl.
#[local] Instance prec53_emax : Prec_lt_emax 53 1024 := eq_refl.

Definition f_of_bits (b : Z) : f64 := B2BSN 53 1024 (b64_of_bits b).
(** [n as f64] (round to nearest even when [n] has more than 53 bits) *)
Definition f_of_Z (z : Z) : f64 := BinarySingleNaN.binary_normalize 53 1024 eq_refl eq_refl mode_NE z 0 false.
Definition f_mul (x y : f64) : f64 := BinarySingleNaN.Bmult mode_NE x y.
Definition f_sub (x y : f64) : f64 := BinarySingleNaN.Bminus mode_NE x y.
Definition f_le (x y : f64) : bool := BinarySingleNaN.Bleb x y.
Definition f_lt (x y : f64) : bool := BinarySingleNaN.Bltb x y.

Definition u64_max : Z := 18446744073709551615.

(** [x as usize]: truncation toward zero, saturating, NaN -> 0 *)
Definition f_to_usize (x : f64) : Z :=
  match x with
  | B754_nan => 0
  | B754_infinity s => if s then 0 else u64_max
  | _ => let z := BinarySingleNaN.Btrunc x in if z <? 0 then 0 else Z.min z u64_max
  end.

(** [floor(x) as usize]: every argument the code passes is >= -0.0, where floor = truncation *)
Definition f_floor_usize := f_to_usize.

Definition f_zero : f64 := f_of_Z 0.
Definition f_one : f64 := f_of_Z 1.
(** the constants of wtinylfu.rs and tinylfu.rs as bit patterns *)
Definition bits_0_01 : Z := 4576918229304087675.   (* 0.01 *)
Definition bits_0_80 : Z := 4605380978949069210.   (* 0.80 *)

(** [(0.0..=1.0).contains(&r)] *)
Definition ratio_ok (r : f64) : bool := f_le f_zero r && f_le r f_one.
(** [fp > 0.0 && fp < 1.0] *)
Definition fp_ok (r : f64) : bool := f_lt f_zero r && f_lt r f_one.

(** results: [0 :: sizes] for Ok, [1; code; payload] for Err.
    codes: 1 InvalidSize, 2 InvalidRecentRatio, 3 InvalidGhostRatio, 4 InvalidWindowCacheSize,
    5 InvalidProtectedCacheSize, 6 InvalidProbationaryCacheSize, 7 InvalidSamples,
    8 InvalidFalsePositiveRatio, 9 InvalidCountMinWidth; a float payload is its bit pattern *)
Definition err (code payload : Z) : list Z := [1; code; payload].

Definition ctor_rawlru (cap : Z) : list Z := if cap =? 0 then err 1 0 else [0; cap].

Definition ctor_slru (prob prot : Z) : list Z :=
  if prot =? 0 then err 1 0 else if prob =? 0 then err 1 0 else [0; prob; prot].

(** TwoQueueCache::with_2q_parameters and TwoQueueCacheBuilder::finalize *)
Definition ctor_twoq (size rr gr : Z) : list Z :=
  if size =? 0 then err 1 0
  else if negb (ratio_ok (f_of_bits rr)) then err 2 rr
  else if negb (ratio_ok (f_of_bits gr)) then err 3 gr
  else
    let rs := f_floor_usize (f_mul (f_of_Z size) (f_of_bits rr)) in
    let es := f_floor_usize (f_mul (f_of_Z size) (f_of_bits gr)) in
    if es =? 0 then err 1 0 else [0; size; rs; es].

Definition ctor_arc (size : Z) : list Z := if size =? 0 then err 1 0 else [0; size].

(** TinyLFUBuilder::finalize (the Bloom sizing with ln/ceil is not modelled) *)
Definition ctor_tiny (size samples fp : Z) : list Z :=
  if samples =? 0 then err 7 0
  else if negb (fp_ok (f_of_bits fp)) then err 8 fp
  else if size =? 0 then err 9 0
  else [0].

(** WTinyLFUCacheBuilder::finalize *)
Definition ctor_wtiny_sizes (w prot prob samples fp : Z) : list Z :=
  if w =? 0 then err 4 0
  else if prot =? 0 then err 5 0
  else if prob =? 0 then err 6 0
  else if samples =? 0 then err 7 samples
  else if negb (fp_ok (f_of_bits fp)) then err 8 fp
  else [0; w; prot; prob].

(** WTinyLFUCache::new(size, samples): the three sizes are float products truncated to usize *)
Definition ctor_wtiny_new (size samples : Z) : list Z :=
  let sz := f_of_Z size in
  let w := f_to_usize (f_mul sz (f_of_bits bits_0_01)) in
  let h := f_to_usize (f_mul sz (f_of_bits bits_0_80)) in
  let c := f_to_usize (f_mul sz (f_sub f_one (f_of_bits bits_0_80))) in
  ctor_wtiny_sizes w h c samples bits_0_01.

(** the constructor call as an operation: [140; which; args...] *)
Definition ctor_step (op : list Z) : option (list Z) :=
  match op with
  | [140; 1; cap] => Some (ctor_rawlru cap)
  | [140; 2; prob; prot] => Some (ctor_slru prob prot)
  | [140; 3; size; rr; gr] | [140; 4; size; rr; gr] => Some (ctor_twoq size rr gr)
  | [140; 5; size] => Some (ctor_arc size)
  | [140; 6; w; prot; prob; samples] => Some (ctor_wtiny_sizes w prot prob samples bits_0_01)
  | [140; 7; size; samples] => Some (ctor_wtiny_new size samples)
  | [140; 8; size; samples; fp] => Some (ctor_tiny size samples fp)
  | _ => None
  end.
