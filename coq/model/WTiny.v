(** * Layer L model of [WTinyLFUCache] (src/lfu/wtinylfu.rs): window LRU, TinyLFU admission
    filter, segmented main cache. *)
From VF Require Import Base Lru Slru Tiny.
From Coq Require Import NArith.
Open Scope Z_scope.

(** the KeyHashers the harness installs *)
Definition key_hash (mode : Z) (k : key) : N :=
  match mode with
  | 0 => wrap64 (Z.to_N k)                                      (* identity *)
  | 1 => wrap64 (Z.to_N k * 11400714819323198485)%N             (* multiplicative *)
  | _ => 0%N                                                    (* every key collides *)
  end.

Record wtiny := mkWTiny {
  wt_tiny : tinylfu;
  wt_lru : lru;        (* window *)
  wt_slru : slru;      (* main cache *)
  wt_kh : Z
}.

Definition wt_with (s : wtiny) (t : tinylfu) (l : lru) (m : slru) : wtiny := mkWTiny t l m (wt_kh s).

(** admission of the candidate pushed out of the window *)
Definition wt_admit (s : wtiny) (l1 : lru) (ck : key) (cv : val) : res (wtiny * put_result) :=
  let m := wt_slru s in
  if Nat.ltb (slen m) (scap m) then
    do (m', r) <- sput m ck cv; Ok (wt_with s (wt_tiny s) l1 m', r)
  else
    match peek_lru (prob m) with
    | None => do (m', r) <- sput m ck cv; Ok (wt_with s (wt_tiny s) l1 m', r)
    | Some (vk, _) =>
      do lt <- tl_lt (wt_tiny s) (key_hash (wt_kh s) ck) (key_hash (wt_kh s) vk);
      if lt then Ok (wt_with s (wt_tiny s) l1 m, PEvicted ck cv)
      else do (m', r) <- sput m ck cv; Ok (wt_with s (wt_tiny s) l1 m', r)
    end.

Definition wput (s : wtiny) (k : key) (v : val) : res (wtiny * put_result) :=
  match remove (wt_lru s) k with
  | (l1, Some old, _) =>
    (* window hit: the key moves into the protected segment; when that is full its LRU is
       demoted into the window *)
    let m := wt_slru s in
    do (l2, m1) <-
       (if Nat.leb (cap (prot m)) (llen (prot m)) then
          match remove_lru (prot m) with
          | (p', Some (ek, ev), _) => let '(l2, _, _) := put l1 ek ev in Ok (l2, mkSlru (prob m) p')
          | (_, None, _) => Panic 50
          end
        else Ok (l1, m));
    let '(m2, _) := sput_protected m1 k v in
    Ok (wt_with s (wt_tiny s) l2 m2, PUpdate old)
  | (_, None, _) =>
    if scontains (wt_slru s) k then
      do (m', r) <- sput (wt_slru s) k v; Ok (wt_with s (wt_tiny s) (wt_lru s) m', r)
    else
      let '(l1, r, _) := put (wt_lru s) k v in
      match r with
      | PPut => Ok (wt_with s (wt_tiny s) l1 (wt_slru s), PPut)
      | PUpdate o => Ok (wt_with s (wt_tiny s) l1 (wt_slru s), PUpdate o)
      | PEvicted ck cv => wt_admit s l1 ck cv
      | PEvictedAndUpdate _ _ _ => Ok (wt_with s (wt_tiny s) l1 (wt_slru s), PPut)
      end
  end.

(** every get / get_mut records one access: [try_reset] then [increment] *)
Definition wt_record (s : wtiny) (k : key) : res tinylfu :=
  tl_increment (tl_try_reset (wt_tiny s)) (key_hash (wt_kh s) k).

Definition wget_mut (s : wtiny) (k : key) (w : option val) : res (wtiny * option val) :=
  do t' <- wt_record s k;
  match get_mut (wt_lru s) k w with
  | (l1, Some v) => Ok (wt_with s t' l1 (wt_slru s), Some v)
  | (_, None) => do (m', r) <- sget_mut (wt_slru s) k w; Ok (wt_with s t' (wt_lru s) m', r)
  end.

Definition wget (s : wtiny) (k : key) := wget_mut s k None.

Definition wpeek (s : wtiny) (k : key) : option val :=
  match peek (wt_lru s) k with Some v => Some v | None => speek (wt_slru s) k end.

Definition wpeek_mut (s : wtiny) (k : key) (w : option val) : wtiny * option val :=
  match peek_mut (wt_lru s) k w with
  | (l1, Some v) => (wt_with s (wt_tiny s) l1 (wt_slru s), Some v)
  | (_, None) => let '(m', r) := speek_mut (wt_slru s) k w in (wt_with s (wt_tiny s) (wt_lru s) m', r)
  end.

Definition wcontains (s : wtiny) (k : key) : bool := contains (wt_lru s) k || scontains (wt_slru s) k.

Definition wremove (s : wtiny) (k : key) : wtiny * option val :=
  match remove (wt_lru s) k with
  | (l1, Some v, _) => (wt_with s (wt_tiny s) l1 (wt_slru s), Some v)
  | (_, None, _) => let '(m', r) := sremove (wt_slru s) k in (wt_with s (wt_tiny s) (wt_lru s) m', r)
  end.

Definition wpurge (s : wtiny) : wtiny :=
  wt_with s (tl_clear (wt_tiny s)) (fst (purge (wt_lru s))) (spurge (wt_slru s)).

Definition wlen (s : wtiny) : nat := (llen (wt_lru s) + slen (wt_slru s))%nat.
Definition wcap (s : wtiny) : nat := (cap (wt_lru s) + scap (wt_slru s))%nat.
Definition wis_empty (s : wtiny) : bool := Nat.eqb (llen (wt_lru s)) 0 && sis_empty (wt_slru s).

Definition wclone (s : wtiny) : wtiny := wt_with s (wt_tiny s) (clone (wt_lru s)) (sclone (wt_slru s)).
