(** * Layer L model of [SegmentedCache] (src/lru/segmented.rs), written over the RawLRU
    primitives exactly as the Rust code is written over [RawLRU]. *)
From VF Require Import Base Lru.

Record slru := mkSlru { prob : lru; prot : lru }.

Definition slru_new (pc fc : nat) : slru := mkSlru (lru_new pc false) (lru_new fc false).

(** [move_to_protected]: take the entry out of probationary, push it on protected; an entry that
    protected pushes out goes back to the front of probationary (its PutResult is ignored) *)
Definition move_to_protected (s : slru) (k : key) (neww : option val) : res slru :=
  match remove_ent (prob s) k with
  | (prob1, Some (k0, v0)) =>
    let v1 := match neww with Some w => w | None => v0 end in
    do (prot1, ev) <- put_or_evict_nonnull (prot s) (k0, v1);
    match ev with
    | None => Ok (mkSlru prob1 prot1)
    | Some e => do (prob2, _) <- put_nonnull prob1 e; Ok (mkSlru prob2 prot1)
    end
  | (_, None) => Ok s
  end.

Definition sput (s : slru) (k : key) (v : val) : res (slru * put_result) :=
  match update (prot s) k v with
  | (prot1, Some old) => Ok (mkSlru (prob s) prot1, PUpdate old)
  | (_, None) =>
    match find k (items (prob s)) with
    | Some old =>
      (* hit in probationary: the value is swapped in, the node moves to protected *)
      do s' <- move_to_protected s k (Some v); Ok (s', PUpdate old)
    | None =>
      let '(prob1, r, _) := put (prob s) k v in Ok (mkSlru prob1 (prot s), r)
    end
  end.

Definition sget_mut (s : slru) (k : key) (w : option val) : res (slru * option val) :=
  match get_mut (prot s) k w with
  | (prot1, Some v) => Ok (mkSlru (prob s) prot1, Some v)
  | (_, None) =>
    match find k (items (prob s)) with
    | Some v => do s' <- move_to_protected s k w; Ok (s', Some v)
    | None => Ok (s, None)
    end
  end.

Definition sget (s : slru) (k : key) : res (slru * option val) := sget_mut s k None.

Definition speek (s : slru) (k : key) : option val :=
  match peek (prot s) k with Some v => Some v | None => peek (prob s) k end.

Definition speek_mut (s : slru) (k : key) (w : option val) : slru * option val :=
  match peek_mut (prot s) k w with
  | (prot1, Some v) => (mkSlru (prob s) prot1, Some v)
  | (_, None) => let '(prob1, r) := peek_mut (prob s) k w in (mkSlru prob1 (prot s), r)
  end.

Definition scontains (s : slru) (k : key) : bool := contains (prot s) k || contains (prob s) k.

Definition sremove (s : slru) (k : key) : slru * option val :=
  match remove (prob s) k with
  | (prob1, Some v, _) => (mkSlru prob1 (prot s), Some v)
  | (_, None, _) => let '(prot1, r, _) := remove (prot s) k in (mkSlru (prob s) prot1, r)
  end.

Definition spurge (s : slru) : slru :=
  mkSlru (fst (purge (prob s))) (fst (purge (prot s))).

Definition slen (s : slru) : nat := (llen (prot s) + llen (prob s))%nat.
Definition scap (s : slru) : nat := (cap (prot s) + cap (prob s))%nat.
Definition sis_empty (s : slru) : bool := Nat.eqb (llen (prot s)) 0 && Nat.eqb (llen (prob s)) 0.

(** [put_protected]: the key is taken out of probationary first (it must live in one segment
    only), then put into protected, whose own LRU is evicted when it is full *)
Definition sput_protected (s : slru) (k : key) (v : val) : slru * put_result :=
  match remove (prob s) k with
  | (prob1, Some old, _) =>
    let '(prot1, r, _) := put (prot s) k v in
    let r' := match r with
              | PPut => PUpdate old
              | PEvicted ek ev => PEvictedAndUpdate ek ev old
              | other => other
              end in
    (mkSlru prob1 prot1, r')
  | (_, None, _) => let '(prot1, r, _) := put (prot s) k v in (mkSlru (prob s) prot1, r)
  end.

Definition sclone (s : slru) : slru := mkSlru (clone (prob s)) (clone (prot s)).
