(** * TinyLFU, W-TinyLFU and SampledLFU as state machines: step functions and encodings. *)
From VF Require Import Base Iter Enc Lru LruStep Slru CacheStep Tiny WTiny Sampled.
From Coq Require Import NArith.
Open Scope Z_scope.

Definition zN (n : N) : Z := Z.of_N n.
Definition Nz (z : Z) : N := Z.to_N z.

(** ** TinyLFU *)

Definition enc_row (r : row) : list Z := zn (length r) :: map zN r.

Definition tsnap (t : tinylfu) : list Z :=
  [zN (tw t); zN (tsamples t); zN (size_exp (door t)); zN (bmask (door t)); zN (set_locs (door t));
   zN (bshift (door t)); zn (length (words (door t)))] ++ map zN (words (door t))
  ++ [zN (smask (ctr t)); zn (length (seeds (ctr t)))] ++ map zN (seeds (ctr t))
  ++ zn (length (rows (ctr t))) :: flat_map enc_row (rows (ctr t)).

(** configuration: [size samples size_exp set_locs seeds...] *)
Definition tinit (cfg : list Z) : option tinylfu :=
  match cfg with
  | sz :: samples :: exp :: locs :: sds =>
    if Z.ltb sz 0 || Z.ltb samples 0 || Z.ltb exp 0 || Z.ltb locs 0 then None
    else if negb (bloom_geometry_ok (Nz exp) (Nz locs)) then None
    else tl_new (Nz sz) (Nz samples) (Nz exp) (Nz locs) (map Nz sds)
  | _ => None
  end.

Definition lift_t (t : tinylfu) (r : res (tinylfu * list Z)) : tinylfu * list Z :=
  match r with Ok x => x | Panic _ => (t, panic_out) end.

(** keyed operations carry the key id (ignored here) and the hash the real KeyHasher gave it *)
Fixpoint every_second (l : list Z) : list Z :=
  match l with
  | _ :: h :: t => h :: every_second t
  | _ => []
  end.

Definition tstep (t : tinylfu) (o : list Z) : option (tinylfu * list Z) :=
  match o with
  | [80; h] | [81; _; h] => Some (lift_t t (do t' <- tl_increment t (Nz h); Ok (t', [])))
  | 82 :: hs => Some (lift_t t (do t' <- tl_increments t (map Nz hs); Ok (t', [])))
  | 83 :: n :: idhs => Some (lift_t t (do t' <- tl_increments t (map Nz (skipn (Z.to_nat n) idhs)); Ok (t', [])))
  | [84; h] | [85; _; h] => Some (lift_t t (do e <- tl_estimate t (Nz h); Ok (t, [zN e])))
  | [86] => Some (tl_try_reset t, [])
  | [87] => Some (tl_clear t, [])
  | [88; h] | [89; _; h] => Some (lift_t t (do c <- tl_contains t (Nz h); Ok (t, [zb c])))
  | [90; _; _; a; b] =>
    Some (lift_t t (do (x, y) <- tl_cmp t (Nz a) (Nz b);
                    Ok (t, [zb (N.eqb x y); zb (N.leb x y); zb (N.ltb x y); zb (N.ltb y x); zb (N.leb y x)])))
  | [91] => Some (t, [])
  | _ => None
  end.

Definition tstep_enc (t : tinylfu) (o : list Z) : option (tinylfu * list Z * list Z) :=
  match tstep t o with Some (t', out) => Some (t', out, [0]) | None => None end.

(** ** WTinyLFUCache *)

Definition wstep_trait (s : wtiny) (o : cop) : res (wtiny * list Z) :=
  match o with
  | CPut k v => do (s', r) <- wput s k v; Ok (s', enc_put r)
  | CGet k => do (s', r) <- wget s k; Ok (s', enc_opt_v r)
  | CGetMut k w => do (s', r) <- wget_mut s k w; Ok (s', enc_opt_v r)
  | CPeek k => Ok (s, enc_opt_v (wpeek s k))
  | CPeekMut k w => let '(s', r) := wpeek_mut s k w in Ok (s', enc_opt_v r)
  | CContains k => Ok (s, [zb (wcontains s k)])
  | CRemove k => let '(s', r) := wremove s k in Ok (s', enc_opt_v r)
  | CPurge => Ok (wpurge s, [])
  | CLen => Ok (s, [zn (wlen s)])
  | CCap => Ok (s, [zn (wcap s)])
  | CIsEmpty => Ok (s, [zb (wis_empty s)])
  end.

Definition wstep_enc (s : wtiny) (o : list Z) : option (wtiny * list Z * list Z) :=
  match o with
  | [100] => Some (s, [zn (llen (wt_lru s))], [0])
  | [101] => Some (s, [zn (cap (wt_lru s))], [0])
  | [102] => Some (s, [zn (slen (wt_slru s))], [0])
  | [103] => Some (s, [zn (scap (wt_slru s))], [0])
  | [25] => Some (wclone s, [], [0])
  | _ =>
    match dec_cop o with
    | Some op => let '(s', out) := lift_res s (wstep_trait s op) in Some (s', out, [0])
    | None => None
    end
  end.

Definition wsnap (s : wtiny) : list Z :=
  [zn (cap (wt_lru s)); zn (cap (prob (wt_slru s))); zn (cap (prot (wt_slru s)))]
    ++ enc_entries (items (wt_lru s)) ++ enc_entries (items (prob (wt_slru s)))
    ++ enc_entries (items (prot (wt_slru s))) ++ [1] ++ tsnap (wt_tiny s).

(** configuration: [window protected probationary samples khmode size_exp set_locs seeds...] *)
Definition winit (cfg : list Z) : option wtiny :=
  match cfg with
  | wc :: fc :: pc :: samples :: kh :: rest =>
    if Z.leb wc 0 || Z.leb fc 0 || Z.leb pc 0 then None
    else match tinit ((wc + fc + pc) :: samples :: rest) with
         | Some t => Some (mkWTiny t (lru_new (Z.to_nat wc) false)
                                   (slru_new (Z.to_nat pc) (Z.to_nat fc)) kh)
         | None => None
         end
  | _ => None
  end.

(** ** SampledLFU *)

Fixpoint insert_sorted (e : Z * Z) (l : list (Z * Z)) : list (Z * Z) :=
  match l with
  | [] => [e]
  | x :: t => if Z.leb (fst e) (fst x) then e :: l else x :: insert_sorted e t
  end.
Definition sort_pairs (l : list (Z * Z)) : list (Z * Z) := fold_right insert_sorted [] l.

Definition samsnap (s : sampled) : list Z :=
  [smax s; sused s; zn (ssamples s)] ++ enc_entries (sort_pairs (scosts s)).

Definition saminit (cfg : list Z) : option sampled :=
  match cfg with
  | [mc; n] => if Z.ltb n 0 then None else Some (sam_new mc (Z.to_nat n))
  | _ => None
  end.

Fixpoint dec_pairs (n : nat) (l : list Z) : option (list (Z * Z) * list Z) :=
  match n with
  | O => Some ([], l)
  | S n' =>
    match l with
    | k :: c :: t =>
      match dec_pairs n' t with
      | Some (ps, rest) => Some ((k, c) :: ps, rest)
      | None => None
      end
    | _ => None
    end
  end.

Inductive samop :=
| SInc (k c : Z) | SUpd (k c : Z) | SRem (k : Z) | SClear | SMax (mc : Z) | SGetMax | SRoom (c : Z)
| SFill (input appended : list (Z * Z)).

Definition dec_samop (o : list Z) : option samop :=
  match o with
  | [110; k; c] | [111; _; c; k] => Some (SInc k c)
  | [112; k; c] | [113; _; c; k] => Some (SUpd k c)
  | [114; k] | [115; _; k] => Some (SRem k)
  | [116] => Some SClear
  | [117; mc] => Some (SMax mc)
  | [118] => Some SGetMax
  | [119; c] => Some (SRoom c)
  | 120 :: nin :: rest =>
    (* fill_sample: input pairs, then the pairs the real call appended (validated) *)
    match dec_pairs (Z.to_nat nin) rest with
    | Some (input, napp :: rest') =>
      match dec_pairs (Z.to_nat napp) rest' with
      | Some (appended, []) => Some (SFill input appended)
      | _ => None
      end
    | _ => None
    end
  | _ => None
  end.

Definition samstep_t (s : sampled) (o : samop) : sampled * list Z :=
  match o with
  | SInc k c => (sam_increment s k c, [])
  | SUpd k c => let '(s', b) := sam_update s k c in (s', [zb b])
  | SRem k => let '(s', r) := sam_remove s k in (s', enc_opt_v r)
  | SClear => (sam_clear s, [])
  | SMax mc => (sam_update_max s mc, [])
  | SGetMax => (s, [smax s])
  | SRoom c => (s, [sam_room_left s c])
  | SFill input appended => (s, [zb (sam_fill_valid s input appended)])
  end.

Definition samstep (s : sampled) (o : list Z) : option (sampled * list Z) :=
  option_map (samstep_t s) (dec_samop o).

Definition samstep_enc (s : sampled) (o : list Z) : option (sampled * list Z * list Z) :=
  match samstep s o with Some (s', out) => Some (s', out, [0]) | None => None end.
