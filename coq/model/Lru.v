(** * Layer L model of [RawLRU] (src/lru/raw.rs), function by function.

    [items] is most-recently-used first ([head.next] first, [tail.prev] last).
    Every function returns the new state, the Rust return value and the list of
    eviction-callback invocations made during the call, in call order. *)
From VF Require Import Base.

Record lru := mkLru { cap : nat; items : list entry; hascb : bool }.

Definition lru_new (c : nat) (cb : bool) : lru := mkLru c [] cb.

Definition with_items (s : lru) (l : list entry) : lru := mkLru (cap s) l (hascb s).

Definition llen (s : lru) : nat := length (items s).

(** ** crate-internal primitives used by the composite caches *)

(** [detach] + [attach] of an entry already in the list: move to the front *)
Definition touch (k : key) (v : val) (l : list entry) : list entry :=
  (k, v) :: remove_key k l.

(** [put_nonnull]: attach a node that is not in the list; when [len >= cap] the LRU
    entry is unlinked first ([unwrap()] on the index removal: panics when the list is empty).
    Returns the evicted pair, if any (the caller receives it inside [PutResult::Evicted]). *)
Definition put_nonnull (s : lru) (e : entry) : res (lru * option entry) :=
  if Nat.leb (cap s) (llen s) then
    match split_last (items s) with
    | Some (rest, victim) => Ok (with_items s (e :: rest), Some victim)
    | None => Panic 1
    end
  else Ok (with_items s (e :: items s), None).

(** [put_or_evict_nonnull] is the same list surgery; the evicted node is handed back as a node *)
Definition put_or_evict_nonnull := put_nonnull.

(** [remove_and_return_ent] *)
Definition remove_ent (s : lru) (k : key) : lru * option entry :=
  match find k (items s) with
  | Some v => (with_items s (remove_key k (items s)), Some (k, v))
  | None => (s, None)
  end.

(** [remove_lru_in] *)
Definition remove_lru_in (s : lru) : lru * option entry :=
  match split_last (items s) with
  | Some (rest, victim) => (with_items s rest, Some victim)
  | None => (s, None)
  end.

(** [update]: swap the value in, move to the front; returns the old value *)
Definition update (s : lru) (k : key) (v : val) : lru * option val :=
  match find k (items s) with
  | Some old => (with_items s (touch k v (items s)), Some old)
  | None => (s, None)
  end.

(** ** public API *)

Definition cbl (s : lru) (l : list entry) : list entry := if hascb s then l else [].

(** [put] = [capturing_put] + [replace_or_create_node].  A cache of capacity 0 (only reachable
    through [resize(0)]) hands the pair straight back. *)
Definition put (s : lru) (k : key) (v : val) : lru * put_result * list entry :=
  match find k (items s) with
  | Some old => (with_items s (touch k v (items s)), PUpdate old, [])
  | None =>
    if Nat.eqb (cap s) 0 then (s, PEvicted k v, [])
    else if Nat.eqb (llen s) (cap s) then
      match split_last (items s) with
      | Some (rest, (ek, ev)) => (with_items s ((k, v) :: rest), PEvicted ek ev, cbl s [(ek, ev)])
      | None => (with_items s ((k, v) :: items s), PPut, [])   (* len = cap = 0: excluded above *)
      end
    else (with_items s ((k, v) :: items s), PPut, [])
  end.

Definition get (s : lru) (k : key) : lru * option val :=
  match find k (items s) with
  | Some v => (with_items s (touch k v (items s)), Some v)
  | None => (s, None)
  end.

(** [get_mut]: like [get]; the caller may then store [w] through the returned reference.
    The value reported is the one read before the write. *)
Definition get_mut (s : lru) (k : key) (w : option val) : lru * option val :=
  match find k (items s) with
  | Some v => (with_items s (set_val_opt k w (touch k v (items s))), Some v)
  | None => (s, None)
  end.

Definition peek (s : lru) (k : key) : option val := find k (items s).

Definition peek_mut (s : lru) (k : key) (w : option val) : lru * option val :=
  match find k (items s) with
  | Some v => (with_items s (set_val_opt k w (items s)), Some v)
  | None => (s, None)
  end.

Definition contains (s : lru) (k : key) : bool := mem k (items s).

Definition remove (s : lru) (k : key) : lru * option val * list entry :=
  match find k (items s) with
  | Some v => (with_items s (remove_key k (items s)), Some v, cbl s [(k, v)])
  | None => (s, None, [])
  end.

Definition remove_lru (s : lru) : lru * option entry * list entry :=
  match split_last (items s) with
  | Some (rest, victim) => (with_items s rest, Some victim, cbl s [victim])
  | None => (s, None, [])
  end.

(** [purge]: [while self.remove_lru().is_some() {}] — callbacks least-recent first *)
Definition purge (s : lru) : lru * list entry :=
  (with_items s [], cbl s (rev (items s))).

(** [resize]: early return when the capacity is unchanged; otherwise [remove_lru] until
    [len <= cap]; returns the number of evictions *)
Definition resize (s : lru) (n : nat) : lru * nat * list entry :=
  if Nat.eqb n (cap s) then (s, 0%nat, [])
  else
    let kept := firstn n (items s) in
    let gone := skipn n (items s) in
    (mkLru n kept (hascb s), length gone, cbl s (rev gone)).

Definition peek_mru (s : lru) : option entry := hd_error (items s).
Definition peek_lru (s : lru) : option entry :=
  match split_last (items s) with Some (_, e) => Some e | None => None end.

Definition set_hd (w : option val) (l : list entry) : list entry :=
  match w, l with
  | Some w, (k, _) :: t => (k, w) :: t
  | _, _ => l
  end.

Definition set_last (w : option val) (l : list entry) : list entry :=
  match w, split_last l with
  | Some w, Some (rest, (k, _)) => rest ++ [(k, w)]
  | _, _ => l
  end.

Definition peek_mru_mut (s : lru) (w : option val) : lru * option entry :=
  (with_items s (set_hd w (items s)), peek_mru s).
Definition peek_lru_mut (s : lru) (w : option val) : lru * option entry :=
  (with_items s (set_last w (items s)), peek_lru s).

(** [get_mru] does not move anything (the entry already is at the front) *)
Definition get_mru := peek_mru.
Definition get_mru_mut := peek_mru_mut.

(** [get_lru]: the least-recent entry is moved to the front and returned *)
Definition get_lru (s : lru) : lru * option entry :=
  match split_last (items s) with
  | Some (rest, e) => (with_items s (e :: rest), Some e)
  | None => (s, None)
  end.
Definition get_lru_mut (s : lru) (w : option val) : lru * option entry :=
  match split_last (items s) with
  | Some (rest, e) => (with_items s (set_hd w (e :: rest)), Some e)
  | None => (s, None)
  end.

Definition peek_or_put (s : lru) (k : key) (v : val) : lru * option val * option put_result * list entry :=
  match find k (items s) with
  | Some x => (s, Some x, None, [])
  | None => let '(s', r, cb) := put s k v in (s', None, Some r, cb)
  end.

Definition peek_mut_or_put (s : lru) (k : key) (v : val) (w : option val)
  : lru * option val * option put_result * list entry :=
  match find k (items s) with
  | Some x => (with_items s (set_val_opt k w (items s)), Some x, None, [])
  | None => let '(s', r, cb) := put s k v in (s', None, Some r, cb)
  end.

Definition contains_or_put (s : lru) (k : key) (v : val) : lru * bool * option put_result * list entry :=
  if mem k (items s) then (s, true, None, [])
  else let '(s', r, cb) := put s k v in (s', false, Some r, cb).

(** [Clone]: a fresh list with the same capacity, callback and hasher, refilled by [put] in
    least-recent-first order (so that the most recent entry is put last) *)
Definition refill (s0 : lru) (l : list entry) : lru :=
  fold_left (fun s e => fst (fst (put s (fst e) (snd e)))) l s0.

Definition clone (s : lru) : lru :=
  refill (mkLru (cap s) [] (hascb s)) (rev (items s)).

(** [FromIterator]: the items are collected, the capacity is [max 1 (number of items)],
    then every pair is [put] in iteration order *)
Definition from_iter (l : list entry) : lru :=
  refill (lru_new (Nat.max 1 (length l)) false) l.
