(** * Layer H — several lists in one heap (the composite caches), nodes in flight between them.

    [fam h F fl]: every list of the family [F] is well formed, the footprints of the lists and the
    nodes in flight [fl] (allocated, initialised, in no list) are pairwise disjoint, and every
    other cell is free.  [fam_update] is the separation step: an operation that works on one list
    and on the nodes in flight, and leaves every cell outside them alone, keeps the family. *)
From VF Require Import Base Lru BaseFacts LruFacts Heap HeapFacts HeapOps HeapRun HeapPrim HeapFrame.
From Coq Require Import List Arith Lia Permutation.
Import ListNotations.
Local Open Scope nat_scope.

Definition hlist := (hlru * list (addr * entry))%type.
Definition fp (ql : hlist) : list addr := hhead (fst ql) :: htail (fst ql) :: addrs (snd ql).

Record fam (h : heap) (F : list hlist) (fl : list (addr * entry)) : Prop := mkFam {
  fam_wf : forall q l, In (q, l) F -> wf h q l;
  fam_nd : NoDup (flat_map fp F ++ addrs fl);
  fam_fl : forall a k v, In (a, (k, v)) fl -> inflight h a k v;
  fam_tight : forall a, ~ In a (flat_map fp F ++ addrs fl) -> cells h a = Free
}.

Lemma perm_focus (F1 F2 : list hlist) (x : hlist) (A : list addr) :
  Permutation (flat_map fp (F1 ++ x :: F2) ++ A) (fp x ++ A ++ flat_map fp (F1 ++ F2)).
Proof.
  rewrite !flat_map_app. cbn [flat_map].
  rewrite <- !app_assoc.
  etransitivity; [apply Permutation_app_swap_app|].
  apply Permutation_app_head.
  rewrite (app_assoc (flat_map fp F1)). apply Permutation_app_comm.
Qed.

Lemma nodup_app_intro {A} (l1 l2 : list A) :
  NoDup l1 -> NoDup l2 -> (forall x, In x l1 -> In x l2 -> False) -> NoDup (l1 ++ l2).
Proof.
  induction l1 as [|a t IH]; intros H1 H2 Hd; [exact H2|].
  cbn. apply NoDup_cons_iff in H1. destruct H1 as [Hn H1]. constructor.
  - rewrite in_app_iff. intros [H|H]; [contradiction|]. apply (Hd a); [now left|exact H].
  - apply IH; auto. intros x Hx. apply Hd. now right.
Qed.

Lemma nodup_app_elim {A} (l1 l2 : list A) :
  NoDup (l1 ++ l2) -> NoDup l1 /\ NoDup l2 /\ (forall x, In x l1 -> In x l2 -> False).
Proof.
  intros H. split; [eapply nodup_app_l; eauto|]. split; [eapply nodup_app_r; eauto|].
  induction l1 as [|a t IH]; [intros x []|].
  cbn in H. apply NoDup_cons_iff in H. destruct H as [Hn H]. intros x [<-|Hx] Hx2.
  - apply Hn. apply in_or_app. now right.
  - now apply (IH H x).
Qed.

Lemma wf_frame h h' q l :
  wf h q l -> (forall x, In x (hhead q :: htail q :: addrs l) -> cells h' x = cells h x) ->
  fresh h <= fresh h' -> wf h' q l.
Proof. intros (Hc & Hi & Hnd) Hf Hle. split; [eapply chain_frame; eauto|auto]. Qed.

Lemma wf_below h q l x : wf h q l -> In x (hhead q :: htail q :: addrs l) -> x < fresh h.
Proof. intros (Hc & _) Hx. now apply (ch_fresh _ _ _ Hc). Qed.

Lemma wf_nodup h q l : wf h q l -> NoDup (hhead q :: htail q :: addrs l).
Proof. intros (Hc & _). exact (ch_nodup _ _ _ Hc). Qed.

Theorem fam_update h h' F1 q l F2 fl q' l' fl' :
  fam h (F1 ++ (q, l) :: F2) fl ->
  wf h' q' l' -> hhead q' = hhead q -> htail q' = htail q -> fresh h <= fresh h' ->
  (forall a k v, In (a, (k, v)) fl' -> inflight h' a k v) ->
  NoDup (addrs l' ++ addrs fl') ->
  (forall x, In x (addrs l' ++ addrs fl') -> In x (addrs l ++ addrs fl) \/ fresh h <= x) ->
  (forall x, ~ In x (hhead q :: htail q :: addrs l ++ addrs fl) -> ~ In x (addrs l' ++ addrs fl') ->
             cells h' x = cells h x) ->
  (forall x, In x (addrs l ++ addrs fl) -> ~ In x (addrs l' ++ addrs fl') -> cells h' x = Free) ->
  fam h' (F1 ++ (q', l') :: F2) fl'.
Proof.
  intros [Hwf Hnd Hfl Htight] Hwf' E1 E2 Hle Hfl' Hnd' Hsub Hframe Hfreed.
  assert (Hp : Permutation (flat_map fp (F1 ++ (q, l) :: F2) ++ addrs fl)
                           (fp (q, l) ++ addrs fl ++ flat_map fp (F1 ++ F2))) by apply perm_focus.
  pose proof (Permutation_NoDup Hp Hnd) as Hnd1.
  change (fp (q, l)) with ([hhead q; htail q] ++ addrs l) in Hnd1.
  rewrite <- app_assoc in Hnd1. rewrite (app_assoc (addrs l)) in Hnd1.
  set (Sold := addrs l ++ addrs fl) in *. set (Snew := addrs l' ++ addrs fl') in *.
  set (Oth := flat_map fp (F1 ++ F2)) in *.
  destruct (nodup_app_elim _ _ Hnd1) as (Hht & HSO & Hd1).
  destruct (nodup_app_elim _ _ HSO) as (HS & HO & Hd2).
  assert (Hob : forall x, In x Oth -> x < fresh h).
  { intros x Hx. unfold Oth in Hx. apply in_flat_map in Hx. destruct Hx as ([q2 l2] & Hin & Hx).
    apply (wf_below h q2 l2); [|exact Hx]. apply Hwf. apply in_app_or in Hin. apply in_or_app.
    destruct Hin; [now left|right; now right]. }
  assert (Hhb : hhead q < fresh h /\ htail q < fresh h).
  { assert (W : wf h q l) by (apply Hwf; apply in_or_app; right; now left).
    split; apply (wf_below h q l _ W); [now left|right; now left]. }
  assert (HS'Oth : forall x, In x Snew -> In x Oth -> False).
  { intros x Hx Ho. destruct (Hsub x Hx) as [H|H]; [now apply (Hd2 x)|]. specialize (Hob x Ho). lia. }
  assert (HS'ht : forall x, In x Snew -> x <> hhead q /\ x <> htail q).
  { intros x Hx. destruct (Hsub x Hx) as [H|H].
    - split; intros E; subst x.
      + apply (Hd1 (hhead q)); [now left|apply in_or_app; now left].
      + apply (Hd1 (htail q)); [right; now left|apply in_or_app; now left].
    - lia. }
  constructor.
  - (* every list well formed *)
    intros q2 l2 Hin. apply in_app_or in Hin. destruct Hin as [Hin|[Hin|Hin]].
    + assert (W : wf h q2 l2) by (apply Hwf; apply in_or_app; now left).
      eapply wf_frame; [exact W| |exact Hle]. intros x Hx.
      assert (Ho : In x Oth).
      { unfold Oth. apply in_flat_map. exists (q2, l2). split; [apply in_or_app; now left|exact Hx]. }
      apply Hframe.
      * intros Hc. change (hhead q :: htail q :: Sold) with ([hhead q; htail q] ++ Sold) in Hc.
        apply in_app_or in Hc. destruct Hc as [Hc|Hc]; [apply (Hd1 x Hc); apply in_or_app; now right|now apply (Hd2 x)].
      * intros Hc. now apply (HS'Oth x).
    + inversion Hin; subst. exact Hwf'.
    + assert (W : wf h q2 l2) by (apply Hwf; apply in_or_app; right; now right).
      eapply wf_frame; [exact W| |exact Hle]. intros x Hx.
      assert (Ho : In x Oth).
      { unfold Oth. apply in_flat_map. exists (q2, l2). split; [apply in_or_app; now right|exact Hx]. }
      apply Hframe.
      * intros Hc. change (hhead q :: htail q :: Sold) with ([hhead q; htail q] ++ Sold) in Hc.
        apply in_app_or in Hc. destruct Hc as [Hc|Hc]; [apply (Hd1 x Hc); apply in_or_app; now right|now apply (Hd2 x)].
      * intros Hc. now apply (HS'Oth x).
  - (* disjointness *)
    eapply Permutation_NoDup; [apply Permutation_sym, perm_focus|].
    change (fp (q', l')) with ([hhead q'; htail q'] ++ addrs l'). rewrite E1, E2.
    rewrite <- app_assoc. rewrite (app_assoc (addrs l')). fold Snew. fold Oth.
    apply nodup_app_intro; [exact Hht| |].
    + apply nodup_app_intro; [exact Hnd'|exact HO|exact HS'Oth].
    + intros x Hx Hx2. apply in_app_or in Hx2. destruct Hx2 as [Hx2|Hx2].
      * destruct (HS'ht x Hx2) as [A B]. destruct Hx as [<-|[<-|[]]]; congruence.
      * apply (Hd1 x Hx). apply in_or_app. now right.
  - exact Hfl'.
  - (* everything else is free *)
    intros a Ha.
    assert (Ha' : ~ In a ([hhead q; htail q] ++ Snew ++ Oth)).
    { intros Hc. apply Ha. eapply Permutation_in; [apply Permutation_sym, perm_focus|].
      change (fp (q', l')) with ([hhead q'; htail q'] ++ addrs l'). rewrite E1, E2.
      rewrite <- app_assoc. rewrite (app_assoc (addrs l')). exact Hc. }
    rewrite !in_app_iff in Ha'.
    destruct (in_dec Nat.eq_dec a Sold) as [HaS|HaS].
    + apply Hfreed; [exact HaS|tauto].
    + rewrite Hframe.
      * apply Htight. intros Hc. eapply Permutation_in in Hc; [|exact Hp].
        change (fp (q, l)) with ([hhead q; htail q] ++ addrs l) in Hc.
        rewrite <- app_assoc in Hc. rewrite (app_assoc (addrs l)) in Hc. fold Sold in Hc. fold Oth in Hc.
        rewrite !in_app_iff in Hc. tauto.
      * change (hhead q :: htail q :: Sold) with ([hhead q; htail q] ++ Sold). rewrite in_app_iff. tauto.
      * tauto.
Qed.

(** ** consequences of [fam] *)
Lemma fam_owned_nodup h F1 q l F2 fl :
  fam h (F1 ++ (q, l) :: F2) fl -> NoDup (hhead q :: htail q :: addrs l ++ addrs fl).
Proof.
  intros [_ Hnd _ _]. pose proof (Permutation_NoDup (perm_focus F1 F2 (q, l) (addrs fl)) Hnd) as H.
  change (fp (q, l)) with ([hhead q; htail q] ++ addrs l) in H.
  rewrite app_assoc in H. apply nodup_app_l in H. rewrite <- app_assoc in H. exact H.
Qed.

Lemma fam_member h F1 q l F2 fl : fam h (F1 ++ (q, l) :: F2) fl -> wf h q l.
Proof. intros [Hwf _ _ _]. apply Hwf. apply in_or_app. right. now left. Qed.

Lemma fam_fl_outside h F1 q l F2 fl a e :
  fam h (F1 ++ (q, l) :: F2) fl -> In (a, e) fl -> ~ In a (hhead q :: htail q :: addrs l).
Proof.
  intros Hf Hin Hc. pose proof (fam_owned_nodup _ _ _ _ _ _ Hf) as Hnd.
  change (hhead q :: htail q :: addrs l ++ addrs fl) with ((hhead q :: htail q :: addrs l) ++ addrs fl) in Hnd.
  destruct (nodup_app_elim _ _ Hnd) as (_ & _ & Hd). apply (Hd a Hc). unfold addrs. apply in_map_iff. exists (a, e). auto.
Qed.

(** the common case: the operation neither allocates nor frees — the owned addresses are permuted *)
Theorem fam_update_perm h h' F1 q l F2 fl q' l' fl' :
  fam h (F1 ++ (q, l) :: F2) fl ->
  wf h' q' l' -> hhead q' = hhead q -> htail q' = htail q -> fresh h' = fresh h ->
  Permutation (addrs l' ++ addrs fl') (addrs l ++ addrs fl) ->
  (forall a k v, In (a, (k, v)) fl' -> exists p x, cells h' a = Node (Some k) (Some v) p x) ->
  (forall x, ~ In x (hhead q :: htail q :: addrs l ++ addrs fl) -> cells h' x = cells h x) ->
  fam h' (F1 ++ (q', l') :: F2) fl'.
Proof.
  intros Hf Hwf' E1 E2 Ef Hp Hfl' Hframe.
  pose proof (fam_owned_nodup _ _ _ _ _ _ Hf) as Hnd.
  apply NoDup_cons_iff in Hnd. destruct Hnd as [_ Hnd]. apply NoDup_cons_iff in Hnd. destruct Hnd as [_ Hnd].
  eapply fam_update; try eassumption.
  - lia.
  - intros a k v Hin. split; [|now apply Hfl'].
    assert (Ha : In a (addrs l ++ addrs fl)).
    { eapply Permutation_in; [exact Hp|]. apply in_or_app. right. unfold addrs. apply in_map_iff. exists (a, (k, v)). auto. }
    rewrite Ef. apply in_app_or in Ha. destruct Ha as [Ha|Ha].
    + apply (wf_below h q l a (fam_member _ _ _ _ _ _ Hf)). right. now right.
    + unfold addrs in Ha. apply in_map_iff in Ha. destruct Ha as ([a' [k' v']] & E & Ha). cbn in E. subst a'.
      destruct Hf as [_ _ Hfl _]. now destruct (Hfl a k' v' Ha).
  - eapply Permutation_NoDup; [apply Permutation_sym; exact Hp|exact Hnd].
  - intros x Hx. left. eapply Permutation_in; eauto.
  - intros x Hx _. now apply Hframe.
  - intros x Hx Hn. exfalso. apply Hn. eapply Permutation_in; [apply Permutation_sym; exact Hp|exact Hx].
Qed.

(** ** a public operation on one list of the family *)
Lemma fam_fl_below h F fl a e : fam h F fl -> In (a, e) fl -> a < fresh h.
Proof. intros [_ _ Hfl _] Hin. destruct e as [k v]. now destruct (Hfl a k v Hin). Qed.

Lemma in_addrs (l : list (addr * entry)) a e : In (a, e) l -> In a (addrs l).
Proof. intros H. unfold addrs. apply in_map_iff. exists (a, e). auto. Qed.

Theorem fam_framed h F1 q l F2 fl h' q' l' :
  fam h (F1 ++ (q, l) :: F2) fl -> framed h q l h' q' l' -> fam h' (F1 ++ (q', l') :: F2) fl.
Proof.
  intros Hf (Hwf' & E1 & E2 & Hle & Hsub & Hframe & Hfreed).
  pose proof (fam_owned_nodup _ _ _ _ _ _ Hf) as Hnd.
  apply NoDup_cons_iff in Hnd. destruct Hnd as [_ Hnd]. apply NoDup_cons_iff in Hnd. destruct Hnd as [_ Hnd].
  destruct (nodup_app_elim _ _ Hnd) as (Hndl & Hndfl & Hdis).
  assert (Hflnew : forall x, In x (addrs fl) -> ~ In x (addrs l')).
  { intros x Hx Hc. destruct (Hsub x Hc) as [H|H]; [now apply (Hdis x)|].
    unfold addrs in Hx. apply in_map_iff in Hx. destruct Hx as ([a e] & E & Hin). cbn in E. subst a.
    pose proof (fam_fl_below _ _ _ _ _ Hf Hin). lia. }
  eapply fam_update; try eassumption.
  - intros a k v Hin. destruct (fam_fl _ _ _ Hf a k v Hin) as (Hlt & p & x & Ec). split; [lia|].
    exists p, x. rewrite Hframe; [exact Ec| |apply Hflnew; eapply in_addrs; eauto].
    pose proof (fam_fl_outside h F1 q l F2 fl a (k, v) Hf Hin) as Ho.
    repeat split; intros Hc; apply Ho; [left|right; left|right; right]; auto.
  - apply nodup_app_intro; [exact (nodup_app_r [hhead q'; htail q'] (addrs l') (wf_nodup _ _ _ Hwf'))|exact Hndfl|].
    intros x Hx Hx2. now apply (Hflnew x).
  - intros x Hx. apply in_app_or in Hx. destruct Hx as [Hx|Hx]; [|left; apply in_or_app; now right].
    destruct (Hsub x Hx); [left; apply in_or_app; now left|now right].
  - intros x Hx Hn. apply Hframe.
    + repeat split; intros Hc; apply Hx; [left|right; left|right; right; apply in_or_app; left]; auto.
    + intros Hc. apply Hn. apply in_or_app. now left.
  - intros x Hx Hn. apply in_app_or in Hx. destruct Hx as [Hx|Hx].
    + apply Hfreed; [exact Hx|]. intros Hc. apply Hn. apply in_or_app. now left.
    + exfalso. apply Hn. apply in_or_app. now right.
Qed.

Theorem fam_step h F1 q l F2 fl s o :
  fam h (F1 ++ (q, l) :: F2) fl -> entries l = items s -> hcap q = cap s ->
  exists h' q' l', hstep h q o = HOk (h', q', snd (lstep s o)) /\ fam h' (F1 ++ (q', l') :: F2) fl /\
                   entries l' = items (fst (lstep s o)) /\ hcap q' = cap (fst (lstep s o)) /\
                   hhead q' = hhead q /\ htail q' = htail q /\ fresh h <= fresh h'.
Proof.
  intros Hf El Ec.
  destruct (step_frame h q s l o (fam_member _ _ _ _ _ _ Hf) El Ec) as (h' & q' & l' & E & HF & El' & Ec').
  exists h', q', l'. split; [exact E|]. split; [eapply fam_framed; eauto|].
  destruct HF as (_ & E1 & E2 & Hle & _). auto.
Qed.

(** ** the crate-internal primitives on one list of the family *)
Lemma fl_cells_keep h h' F1 q l F2 fl :
  fam h (F1 ++ (q, l) :: F2) fl ->
  (forall x, ~ In x (hhead q :: htail q :: addrs l) -> cells h' x = cells h x) ->
  forall a k v, In (a, (k, v)) fl -> exists p x, cells h' a = Node (Some k) (Some v) p x.
Proof.
  intros Hf Hfr a k v Hin. destruct (fam_fl _ _ _ Hf a k v Hin) as (_ & p & x & E). exists p, x.
  rewrite Hfr; [exact E|]. eapply fam_fl_outside; eauto.
Qed.

Lemma outside_of q l x : ~ In x (hhead q :: htail q :: addrs l) -> outside q l x.
Proof. intros H. repeat split; intros Hc; apply H; [left|right; left|right; right]; auto. Qed.

Theorem fam_remove_ent_hit h F1 q l1 a k v l2 F2 fl :
  fam h (F1 ++ (q, l1 ++ (a, (k, v)) :: l2) :: F2) fl ->
  exists h' q', h_remove_ent h q k = HOk (h', q', Some a) /\
                fam h' (F1 ++ (q', l1 ++ l2) :: F2) ((a, (k, v)) :: fl) /\
                hhead q' = hhead q /\ htail q' = htail q /\ hcap q' = hcap q /\ fresh h' = fresh h.
Proof.
  intros Hf.
  destruct (h_remove_ent_hit h q l1 a k v l2 (fam_member _ _ _ _ _ _ Hf))
    as (h' & q' & E & Hwf' & Hfl & E1 & E2 & E3 & Ef & Hfr).
  exists h', q'. split; [exact E|]. split; [|auto].
  eapply fam_update_perm; try eassumption.
  - rewrite !addrs_app. cbn [addrs map fst]. rewrite <- !app_assoc. apply Permutation_app_head.
    cbn [app]. apply Permutation_sym, Permutation_middle.
  - intros b kb vb [Eb|Hin].
    + inversion Eb; subst. now destruct Hfl.
    + eapply (fl_cells_keep h h'); eauto. intros x Hx. apply Hfr. now apply outside_of.
  - intros x Hx. apply Hfr. apply outside_of. intros Hc. apply Hx.
    change (hhead q :: htail q :: addrs (l1 ++ (a, (k, v)) :: l2) ++ addrs fl)
      with ((hhead q :: htail q :: addrs (l1 ++ (a, (k, v)) :: l2)) ++ addrs fl). apply in_or_app. now left.
Qed.

Lemma fl_split (fl : list (addr * entry)) n e : In (n, e) fl -> exists fl1 fl2, fl = fl1 ++ (n, e) :: fl2.
Proof. intros H. apply in_split in H. destruct H as (a & b & ->). eauto. Qed.

Lemma fam_fl_nodup h F fl : fam h F fl -> NoDup (addrs fl).
Proof. intros [_ Hnd _ _]. eapply nodup_app_r; eauto. Qed.

(** an in-flight node enters a list that has room *)
Theorem fam_put_or_evict_room h F1 q l F2 fl1 n k v fl2 :
  fam h (F1 ++ (q, l) :: F2) (fl1 ++ (n, (k, v)) :: fl2) ->
  Base.find k (entries l) = None -> length l < hcap q ->
  exists h' q', h_put_or_evict_nonnull h q n = HOk (h', q', None) /\
                fam h' (F1 ++ (q', (n, (k, v)) :: l) :: F2) (fl1 ++ fl2) /\
                hhead q' = hhead q /\ htail q' = htail q /\ hcap q' = hcap q /\ fresh h' = fresh h.
Proof.
  intros Hf Hfind Hlen.
  assert (Hin : In (n, (k, v)) (fl1 ++ (n, (k, v)) :: fl2)) by (apply in_or_app; right; now left).
  destruct (h_put_or_evict_room h q l n k v (fam_member _ _ _ _ _ _ Hf)
              (fam_fl_outside _ _ _ _ _ _ _ _ Hf Hin) (fam_fl _ _ _ Hf n k v Hin) Hfind Hlen)
    as (h' & q' & E & Hwf' & E1 & E2 & E3 & Ef & Hfr).
  exists h', q'. split; [exact E|]. split; [|auto].
  pose proof (fam_fl_nodup _ _ _ Hf) as Hndfl. rewrite addrs_app in Hndfl. cbn [addrs map fst] in Hndfl.
  eapply fam_update_perm; try eassumption.
  - rewrite !addrs_app. cbn [addrs map fst app]. rewrite !app_assoc. apply Permutation_middle.
  - intros b kb vb Hb.
    assert (Hb' : In (b, (kb, vb)) (fl1 ++ (n, (k, v)) :: fl2)).
    { apply in_app_or in Hb. apply in_or_app. destruct Hb; [now left|right; now right]. }
    destruct (fam_fl _ _ _ Hf b kb vb Hb') as (_ & p & x & Ec). exists p, x. rewrite Hfr; [exact Ec| |].
    + apply outside_of. eapply fam_fl_outside; eauto.
    + intros ->. apply NoDup_remove_2 in Hndfl. apply Hndfl. apply in_app_or in Hb. apply in_or_app.
      destruct Hb as [Hb|Hb]; [left|right]; eapply in_addrs; eauto.
  - intros x Hx. apply Hfr.
    + apply outside_of. intros Hc. apply Hx.
      change (hhead q :: htail q :: addrs l ++ addrs (fl1 ++ (n, (k, v)) :: fl2))
        with ((hhead q :: htail q :: addrs l) ++ addrs (fl1 ++ (n, (k, v)) :: fl2)). apply in_or_app. now left.
    + intros ->. apply Hx. right. right. apply in_or_app. right. eapply in_addrs; eauto.
Qed.

(** ... and a full one: the least recently used node goes in flight *)
Theorem fam_put_or_evict_full h F1 q l a ek ev F2 fl1 n k v fl2 :
  fam h (F1 ++ (q, l ++ [(a, (ek, ev))]) :: F2) (fl1 ++ (n, (k, v)) :: fl2) ->
  Base.find k (entries (l ++ [(a, (ek, ev))])) = None -> hcap q <= length (l ++ [(a, (ek, ev))]) ->
  exists h' q', h_put_or_evict_nonnull h q n = HOk (h', q', Some a) /\
                fam h' (F1 ++ (q', (n, (k, v)) :: l) :: F2) ((a, (ek, ev)) :: fl1 ++ fl2) /\
                hhead q' = hhead q /\ htail q' = htail q /\ hcap q' = hcap q /\ fresh h' = fresh h.
Proof.
  intros Hf Hfind Hlen.
  assert (Hin : In (n, (k, v)) (fl1 ++ (n, (k, v)) :: fl2)) by (apply in_or_app; right; now left).
  destruct (h_put_or_evict_full h q l a ek ev n k v (fam_member _ _ _ _ _ _ Hf)
              (fam_fl_outside _ _ _ _ _ _ _ _ Hf Hin) (fam_fl _ _ _ Hf n k v Hin) Hfind Hlen)
    as (h' & q' & E & Hwf' & Hfla & E1 & E2 & E3 & Ef & Hfr).
  exists h', q'. split; [exact E|]. split; [|auto].
  pose proof (fam_fl_nodup _ _ _ Hf) as Hndfl. rewrite addrs_app in Hndfl. cbn [addrs map fst] in Hndfl.
  eapply fam_update_perm; try eassumption.
  - unfold addrs. cbn [map fst]. rewrite !map_app. cbn [map fst app]. rewrite <- !app_assoc. cbn [app].
    (* n :: l ++ a :: fl1 ++ fl2  ~  l ++ a :: fl1 ++ n :: fl2 *)
    etransitivity; [apply Permutation_middle|]. apply Permutation_app_head.
    etransitivity; [apply perm_swap|]. apply perm_skip. apply Permutation_middle.
  - intros b kb vb [Eb|Hb].
    + inversion Eb; subst. now destruct Hfla.
    + assert (Hb' : In (b, (kb, vb)) (fl1 ++ (n, (k, v)) :: fl2)).
      { apply in_app_or in Hb. apply in_or_app. destruct Hb; [now left|right; now right]. }
      destruct (fam_fl _ _ _ Hf b kb vb Hb') as (_ & p & x & Ec). exists p, x. rewrite Hfr; [exact Ec| |].
      * apply outside_of. eapply fam_fl_outside; eauto.
      * intros ->. apply NoDup_remove_2 in Hndfl. apply Hndfl. apply in_app_or in Hb. apply in_or_app.
        destruct Hb as [Hb|Hb]; [left|right]; eapply in_addrs; eauto.
  - intros x Hx. apply Hfr.
    + apply outside_of. intros Hc. apply Hx.
      change (hhead q :: htail q :: addrs (l ++ [(a, (ek, ev))]) ++ addrs (fl1 ++ (n, (k, v)) :: fl2))
        with ((hhead q :: htail q :: addrs (l ++ [(a, (ek, ev))])) ++ addrs (fl1 ++ (n, (k, v)) :: fl2)).
      apply in_or_app. now left.
    + intros ->. apply Hx. right. right. apply in_or_app. right. eapply in_addrs; eauto.
Qed.

(** an in-flight node is unboxed: its key and value are read out and the block is freed *)
Theorem fam_free h F fl1 a k v fl2 :
  fam h F (fl1 ++ (a, (k, v)) :: fl2) ->
  exists h', take_kv h a = HOk (k, v) /\ hfree h a = HOk h' /\ fam h' F (fl1 ++ fl2) /\ fresh h' = fresh h.
Proof.
  intros [Hwf Hnd Hfl Htight].
  assert (Hin : In (a, (k, v)) (fl1 ++ (a, (k, v)) :: fl2)) by (apply in_or_app; right; now left).
  destruct (Hfl a k v Hin) as (Hlt & p & x & Ec).
  unfold take_kv, hfree. rewrite (hread_node _ _ _ _ _ _ Ec). cbn [hbind]. rewrite Ec.
  eexists. split; [reflexivity|]. split; [reflexivity|]. split; [|apply fresh_hupd].
  rewrite addrs_app in Hnd. cbn [addrs map fst] in Hnd. rewrite app_assoc in Hnd.
  pose proof (NoDup_remove_1 _ _ _ Hnd) as Hnd1. pose proof (NoDup_remove_2 _ _ _ Hnd) as Hna.
  rewrite <- app_assoc in Hnd1, Hna.
  constructor.
  - intros q l Hql. eapply wf_frame; [apply Hwf; exact Hql| |rewrite fresh_hupd; lia].
    intros y Hy. apply cells_hupd_other. intros ->. apply Hna. apply in_or_app. left.
    apply in_flat_map. exists (q, l). auto.
  - rewrite addrs_app. exact Hnd1.
  - intros b kb vb Hb. assert (Hb' : In (b, (kb, vb)) (fl1 ++ (a, (k, v)) :: fl2)).
    { apply in_app_or in Hb. apply in_or_app. destruct Hb; [now left|right; now right]. }
    destruct (Hfl b kb vb Hb') as (Hltb & pb & xb & Eb). split; [now rewrite fresh_hupd|]. exists pb, xb.
    rewrite cells_hupd_other; [exact Eb|]. intros ->. apply Hna. apply in_or_app. right.
    rewrite <- addrs_app. eapply in_addrs; eauto.
  - intros y Hy. destruct (Nat.eq_dec y a) as [->|Hne]; [apply cells_hupd_same|].
    rewrite cells_hupd_other by exact Hne. apply Htight. intros Hc. apply Hy.
    rewrite addrs_app in *. cbn [addrs map fst] in Hc. rewrite !in_app_iff in *. cbn [In] in Hc. 
    destruct Hc as [Hc|[Hc|[Hc|Hc]]]; [tauto|tauto|congruence|tauto].
Qed.

(** a new node is allocated: it is in flight *)
Theorem fam_alloc h F fl k v :
  fam h F fl ->
  fam (fst (halloc h (Some k) (Some v))) F ((fresh h, (k, v)) :: fl) /\ snd (halloc h (Some k) (Some v)) = fresh h /\
  fresh (fst (halloc h (Some k) (Some v))) = S (fresh h).
Proof.
  intros [Hwf Hnd Hfl Htight]. cbn [halloc fst snd fresh]. split; [|auto].
  assert (Hnew : ~ In (fresh h) (flat_map fp F ++ addrs fl)).
  { intros Hc. apply in_app_or in Hc. destruct Hc as [Hc|Hc].
    - apply in_flat_map in Hc. destruct Hc as ([q l] & Hql & Hx). pose proof (wf_below h q l _ (Hwf q l Hql) Hx). lia.
    - unfold addrs in Hc. apply in_map_iff in Hc. destruct Hc as ([a [ka va]] & E & Hin). cbn in E. subst a.
      destruct (Hfl _ _ _ Hin). lia. }
  constructor.
  - intros q l Hql. eapply wf_frame; [apply Hwf; exact Hql| |cbn; lia].
    intros y Hy. cbn. destruct (Nat.eqb_spec y (fresh h)) as [->|_]; [|reflexivity].
    exfalso. apply Hnew. apply in_or_app. left. apply in_flat_map. exists (q, l). auto.
  - cbn [addrs map fst]. apply (proj2 (NoDup_Add (Add_app (fresh h) (flat_map fp F) (map fst fl)))).
    split; assumption.
  - intros b kb vb [Eb|Hb].
    + inversion Eb; subst. split; [cbn; lia|]. exists 0, 0. cbn. now rewrite Nat.eqb_refl.
    + destruct (Hfl b kb vb Hb) as (Hlt & p & x & Ec). split; [cbn; lia|]. exists p, x. cbn.
      destruct (Nat.eqb_spec b (fresh h)); [lia|exact Ec].
  - intros y Hy. cbn. destruct (Nat.eqb_spec y (fresh h)) as [->|Hne].
    + exfalso. apply Hy. apply in_or_app. right. now left.
    + apply Htight. intros Hc. apply Hy. cbn [addrs map fst]. rewrite in_app_iff in *. cbn [In]. tauto.
Qed.

Theorem fam_swap_value h F fl1 a k old fl2 v :
  fam h F (fl1 ++ (a, (k, old)) :: fl2) ->
  exists h', h_swap_value h a v = HOk (h', old) /\ fam h' F (fl1 ++ (a, (k, v)) :: fl2) /\ fresh h' = fresh h.
Proof.
  intros [Hwf Hnd Hfl Htight].
  assert (Hin : In (a, (k, old)) (fl1 ++ (a, (k, old)) :: fl2)) by (apply in_or_app; right; now left).
  destruct (Hfl a k old Hin) as (Hlt & p & x & Ec).
  unfold h_swap_value. rewrite (hread_node _ _ _ _ _ _ Ec). cbn [hbind].
  eexists. split; [reflexivity|]. split; [|apply fresh_hupd].
  assert (Ead : addrs (fl1 ++ (a, (k, v)) :: fl2) = addrs (fl1 ++ (a, (k, old)) :: fl2)) by (now rewrite !addrs_app).
  pose proof Hnd as Hnd0. rewrite addrs_app in Hnd0. cbn [addrs map fst] in Hnd0. rewrite app_assoc in Hnd0.
  pose proof (NoDup_remove_2 _ _ _ Hnd0) as Hna. rewrite <- app_assoc in Hna.
  constructor.
  - intros q l Hql. eapply wf_frame; [apply Hwf; exact Hql| |rewrite fresh_hupd; lia].
    intros y Hy. apply cells_hupd_other. intros ->. apply Hna. apply in_or_app. left.
    apply in_flat_map. exists (q, l). auto.
  - now rewrite Ead.
  - intros b kb vb Hb. apply in_app_or in Hb. destruct Hb as [Hb|[Eb|Hb]].
    + destruct (Hfl b kb vb ltac:(apply in_or_app; now left)) as (Hltb & pb & xb & Eb). split; [now rewrite fresh_hupd|].
      exists pb, xb. rewrite cells_hupd_other; [exact Eb|]. intros ->. apply Hna. apply in_or_app. right.
      apply in_or_app. left. eapply in_addrs; eauto.
    + inversion Eb; subst. split; [now rewrite fresh_hupd|]. exists p, x. apply cells_hupd_same.
    + destruct (Hfl b kb vb ltac:(apply in_or_app; right; now right)) as (Hltb & pb & xb & Eb). split; [now rewrite fresh_hupd|].
      exists pb, xb. rewrite cells_hupd_other; [exact Eb|]. intros ->. apply Hna. apply in_or_app. right.
      apply in_or_app. right. eapply in_addrs; eauto.
  - intros y Hy. rewrite Ead in Hy. rewrite cells_hupd_other; [now apply Htight|].
    intros ->. apply Hy. apply in_or_app. right. eapply in_addrs; eauto.
Qed.

(** [put_nonnull]: as [put_or_evict_nonnull], the node pushed out is unboxed and its pair handed back *)
Theorem fam_put_nonnull_room h F1 q l F2 fl1 n k v fl2 :
  fam h (F1 ++ (q, l) :: F2) (fl1 ++ (n, (k, v)) :: fl2) ->
  Base.find k (entries l) = None -> length l < hcap q ->
  exists h' q', h_put_nonnull h q n = HOk (h', q', None) /\
                fam h' (F1 ++ (q', (n, (k, v)) :: l) :: F2) (fl1 ++ fl2) /\
                hhead q' = hhead q /\ htail q' = htail q /\ hcap q' = hcap q /\ fresh h' = fresh h.
Proof.
  intros Hf Hfind Hlen. unfold h_put_nonnull.
  destruct (fam_put_or_evict_room _ _ _ _ _ _ _ _ _ _ Hf Hfind Hlen) as (h' & q' & -> & Hf' & R). cbn [hbind].
  exists h', q'. auto.
Qed.

Theorem fam_put_nonnull_full h F1 q l a ek ev F2 fl1 n k v fl2 :
  fam h (F1 ++ (q, l ++ [(a, (ek, ev))]) :: F2) (fl1 ++ (n, (k, v)) :: fl2) ->
  Base.find k (entries (l ++ [(a, (ek, ev))])) = None -> hcap q <= length (l ++ [(a, (ek, ev))]) ->
  exists h' q', h_put_nonnull h q n = HOk (h', q', Some (ek, ev)) /\
                fam h' (F1 ++ (q', (n, (k, v)) :: l) :: F2) (fl1 ++ fl2) /\
                hhead q' = hhead q /\ htail q' = htail q /\ hcap q' = hcap q /\ fresh h' = fresh h.
Proof.
  intros Hf Hfind Hlen. unfold h_put_nonnull.
  destruct (fam_put_or_evict_full _ _ _ _ _ _ _ _ _ _ _ _ _ Hf Hfind Hlen) as (h1 & q' & -> & Hf1 & E1 & E2 & E3 & Ef1).
  cbn [hbind].
  destruct (fam_free h1 _ [] a ek ev (fl1 ++ fl2) Hf1) as (h2 & -> & -> & Hf2 & Ef2). cbn [hbind].
  exists h2, q'. split; [reflexivity|]. split; [exact Hf2|]. repeat split; congruence.
Qed.

(** [update] of a node of the list *)
Lemma h_update_framed h q l1 a k old l2 v :
  wf h q (l1 ++ (a, (k, old)) :: l2) ->
  exists h', h_update h q a v = HOk (h', old) /\ framed h q (l1 ++ (a, (k, old)) :: l2) h' q ((a, (k, v)) :: l1 ++ l2).
Proof.
  intros Hwf. destruct (h_put_update h q l1 a k old l2 v Hwf) as (h' & E & Hwf' & Ef & Hfr).
  unfold h_put in E. rewrite (idx_find_hit h q _ a k old Hwf) in E by (apply in_or_app; right; now left).
  cbn [hbind] in E. destruct (h_update h q a v) as [[h1 o1]|e]; cbn [hbind] in E; [|discriminate].
  inversion E; subst. exists h'. split; [reflexivity|].
  apply framed_same; auto. intros y. apply in_addrs_front.
Qed.

(** ** the public operations one by one, at family level (instances of [fam_step]) *)
Definition fam_res (h : heap) (F1 : list hlist) (q : hlru) (F2 : list hlist) (fl : list (addr * entry))
           (h' : heap) (q' : hlru) (l' : list (addr * entry)) (s' : lru) : Prop :=
  fam h' (F1 ++ (q', l') :: F2) fl /\ entries l' = items s' /\ hcap q' = cap s' /\
  hhead q' = hhead q /\ htail q' = htail q /\ fresh h <= fresh h'.

Theorem fam_put h F1 q l F2 fl s k v :
  fam h (F1 ++ (q, l) :: F2) fl -> entries l = items s -> hcap q = cap s ->
  exists h' q' l', h_put h q k v = HOk (h', q', snd (fst (Lru.put s k v))) /\
                   fam_res h F1 q F2 fl h' q' l' (fst (fst (Lru.put s k v))).
Proof.
  intros Hf El Ec. destruct (fam_step h F1 q l F2 fl s (HPut k v) Hf El Ec) as (h' & q' & l' & E & R).
  cbn [hstep lstep] in *. destruct (h_put h q k v) as [[[h1 q1] r1]|e]; cbn [hbind] in E; [|discriminate].
  destruct (Lru.put s k v) as [[s1 r] cbs]. cbn [fst snd] in *. inversion E; subst.
  exists h', q', l'. split; [reflexivity|exact R].
Qed.

Theorem fam_get_mut h F1 q l F2 fl s k w :
  fam h (F1 ++ (q, l) :: F2) fl -> entries l = items s -> hcap q = cap s ->
  exists h' l', h_get_mut h q k w = HOk (h', snd (Lru.get_mut s k w)) /\
                fam_res h F1 q F2 fl h' q l' (fst (Lru.get_mut s k w)).
Proof.
  intros Hf El Ec. destruct (fam_step h F1 q l F2 fl s (HGetMut k w) Hf El Ec) as (h' & q' & l' & E & R).
  cbn [hstep lstep] in *. destruct (h_get_mut h q k w) as [[h1 r1]|e]; cbn [hbind] in E; [|discriminate].
  destruct (Lru.get_mut s k w) as [s1 r]. cbn [fst snd] in *. inversion E; subst.
  exists h', l'. split; [reflexivity|exact R].
Qed.

Theorem fam_peek h F1 q l F2 fl s k :
  fam h (F1 ++ (q, l) :: F2) fl -> entries l = items s -> h_peek h q k = HOk (Lru.peek s k).
Proof.
  intros Hf El. rewrite (h_peek_ok h q l k (fam_member _ _ _ _ _ _ Hf)). unfold Lru.peek. now rewrite El.
Qed.

Theorem fam_contains h F1 q l F2 fl s k :
  fam h (F1 ++ (q, l) :: F2) fl -> entries l = items s -> h_contains h q k = HOk (Lru.contains s k).
Proof.
  intros Hf El. rewrite (h_contains_ok h q l k (fam_member _ _ _ _ _ _ Hf)). unfold Lru.contains. now rewrite El.
Qed.

Theorem fam_peek_mut h F1 q l F2 fl s k w :
  fam h (F1 ++ (q, l) :: F2) fl -> entries l = items s -> hcap q = cap s ->
  exists h' l', h_peek_mut h q k w = HOk (h', snd (Lru.peek_mut s k w)) /\
                fam_res h F1 q F2 fl h' q l' (fst (Lru.peek_mut s k w)).
Proof.
  intros Hf El Ec. destruct (fam_step h F1 q l F2 fl s (HPeekMut k w) Hf El Ec) as (h' & q' & l' & E & R).
  cbn [hstep lstep] in *. destruct (h_peek_mut h q k w) as [[h1 r1]|e]; cbn [hbind] in E; [|discriminate].
  destruct (Lru.peek_mut s k w) as [s1 r]. cbn [fst snd] in *. inversion E; subst.
  exists h', l'. split; [reflexivity|exact R].
Qed.

Theorem fam_remove h F1 q l F2 fl s k :
  fam h (F1 ++ (q, l) :: F2) fl -> entries l = items s -> hcap q = cap s ->
  exists h' q' l', h_remove h q k = HOk (h', q', snd (fst (Lru.remove s k))) /\
                   fam_res h F1 q F2 fl h' q' l' (fst (fst (Lru.remove s k))).
Proof.
  intros Hf El Ec. destruct (fam_step h F1 q l F2 fl s (HRemove k) Hf El Ec) as (h' & q' & l' & E & R).
  cbn [hstep lstep] in *. destruct (h_remove h q k) as [[[h1 q1] r1]|e]; cbn [hbind] in E; [|discriminate].
  destruct (Lru.remove s k) as [[s1 r] cbs]. cbn [fst snd] in *. inversion E; subst.
  exists h', q', l'. split; [reflexivity|exact R].
Qed.

Theorem fam_purge h F1 q l F2 fl s :
  fam h (F1 ++ (q, l) :: F2) fl -> entries l = items s -> hcap q = cap s ->
  exists h' q' l', h_purge h q = HOk (h', q') /\ fam_res h F1 q F2 fl h' q' l' (fst (Lru.purge s)).
Proof.
  intros Hf El Ec. destruct (fam_step h F1 q l F2 fl s HPurge Hf El Ec) as (h' & q' & l' & E & R).
  cbn [hstep lstep] in *. destruct (h_purge h q) as [[h1 q1]|e]; cbn [hbind] in E; [|discriminate].
  cbn [fst snd] in *. inversion E; subst. exists h', q', l'. split; [reflexivity|exact R].
Qed.

(** ** a new list joins the family; a list is dropped *)
Lemma hnew_spec h c :
  let h' := fst (hnew h c) in let q := snd (hnew h c) in
  hhead q = fresh h /\ htail q = S (fresh h) /\ hidx q = [] /\ hcap q = c /\
  fresh h' = S (S (fresh h)) /\
  cells h' (fresh h) = Node None None 0 (S (fresh h)) /\
  cells h' (S (fresh h)) = Node None None (fresh h) 0 /\
  (forall x, x <> fresh h -> x <> S (fresh h) -> cells h' x = cells h x).
Proof.
  unfold hnew, halloc, hupd. cbn [fst snd fresh cells hhead htail hidx hcap].
  repeat split.
  - rewrite Nat.eqb_refl. destruct (Nat.eqb_spec (fresh h) (S (fresh h))); [lia|]. reflexivity.
  - now rewrite Nat.eqb_refl.
  - intros x H1 H2. destruct (Nat.eqb_spec x (S (fresh h))); [lia|]. destruct (Nat.eqb_spec x (fresh h)); [lia|].
    reflexivity.
Qed.

Theorem fam_new h F c :
  fam h F [] ->
  fam (fst (hnew h c)) ((snd (hnew h c), []) :: F) [] /\
  hcap (snd (hnew h c)) = c /\ fresh h <= fresh (fst (hnew h c)).
Proof.
  intros [Hwf Hnd _ Htight].
  destruct (hnew_spec h c) as (Eh & Et & Ei & Ec & Ef & Ca & Cb & Co).
  set (h' := fst (hnew h c)) in *. set (q := snd (hnew h c)) in *.
  split; [|split; [exact Ec|lia]].
  assert (Hold : forall x, In x (flat_map fp F) -> x < fresh h).
  { intros x Hx. apply in_flat_map in Hx. destruct Hx as ([q0 l] & Hql & Hx). exact (wf_below h q0 l _ (Hwf q0 l Hql) Hx). }
  rewrite app_nil_r in Hnd.
  constructor.
  - intros q0 l [E|Hql].
    + inversion E; subst q0 l. split; [|split; [unfold idx_ok; rewrite Ei; constructor|constructor]].
      constructor; cbn [addrs map first_addr last_addr seg]; rewrite ?Eh, ?Et.
      * repeat constructor; cbn; intuition lia.
      * eexists. exact Ca.
      * eexists. exact Cb.
      * exact I.
      * intros x [<-|[<-|[]]]; lia.
    + eapply wf_frame; [exact (Hwf q0 l Hql)| |lia].
      intros x Hx. assert (x < fresh h) by (apply Hold; apply in_flat_map; exists (q0, l); auto).
      apply Co; lia.
  - rewrite app_nil_r. cbn [flat_map fp fst snd addrs map app]. rewrite Eh, Et.
    constructor; [|constructor; [|exact Hnd]].
    + intros [E|Hx]; [lia|]. specialize (Hold _ Hx). lia.
    + intros Hx. specialize (Hold _ Hx). lia.
  - intros x k v [].
  - intros x Hx. rewrite app_nil_r in Hx. cbn [flat_map fp fst snd addrs map app In] in Hx. rewrite Eh, Et in Hx.
    rewrite Co; [|intros ->; apply Hx; now left|intros ->; apply Hx; right; now left].
    apply Htight. rewrite app_nil_r. tauto.
Qed.

Lemma fam_empty : fam heap0 [] [].
Proof. constructor; cbn; [intros ? ? []|constructor|intros ? ? ? []|reflexivity]. Qed.

Theorem fam_drop h F1 q l F2 :
  fam h (F1 ++ (q, l) :: F2) [] ->
  exists h', h_drop h q = HOk h' /\ fam h' (F1 ++ F2) [] /\ fresh h' = fresh h.
Proof.
  intros Hf. pose proof Hf as [Hwf Hnd _ Htight].
  destruct (h_drop_ok h q l (fam_member _ _ _ _ _ _ Hf)) as (h' & E & Hfree & Hfr).
  exists h'. split; [exact E|].
  assert (Efr : fresh h' = fresh h).
  { (* Drop frees cells, it allocates nothing *) clear - E. unfold h_drop in E.
    assert (G : forall i h0 h1, h_drop_nodes h0 i = HOk h1 -> fresh h1 = fresh h0).
    { induction i as [|[ka na] rest IH]; intros h0 h1 H; cbn [h_drop_nodes] in H; [now inversion H|].
      destruct (take_kv h0 na); cbn [hbind] in H; [|discriminate]. unfold hfree in H.
      destruct (cells h0 na); cbn [hbind] in H; [discriminate|]. apply IH in H. rewrite H. apply fresh_hupd. }
    destruct (h_drop_nodes h (hidx q)) as [h1|] eqn:E1; cbn [hbind] in E; [|discriminate].
    apply G in E1. unfold hfree in E. destruct (cells h1 (hhead q)); cbn [hbind] in E; [discriminate|].
    rewrite cells_hupd_other in E.
    - destruct (cells h1 (htail q)); inversion E. rewrite !fresh_hupd. exact E1.
    - destruct (cells (hupd h1 (hhead q) Free) (htail q)) eqn:X; [discriminate|]. intros Eq. rewrite Eq, cells_hupd_same in X. discriminate. }
  split; [|exact Efr].
  pose proof (Permutation_NoDup (perm_focus F1 F2 (q, l) []) Hnd) as Hnd1. cbn [app] in Hnd1.
  destruct (nodup_app_elim _ _ Hnd1) as (_ & HO & Hdis).
  constructor.
  - intros q2 l2 Hql. eapply wf_frame; [apply Hwf; apply in_app_or in Hql; apply in_or_app; destruct Hql; [now left|right; now right]| |lia].
    intros x Hx. apply Hfr. apply outside_of. intros Hc. apply (Hdis x Hc). apply in_flat_map. exists (q2, l2). auto.
  - rewrite app_nil_r. exact HO.
  - intros ? ? ? [].
  - intros x Hx. rewrite app_nil_r in Hx.
    destruct (in_dec Nat.eq_dec x (fp (q, l))) as [Hin|Hnin]; [now apply Hfree|].
    rewrite Hfr by (now apply outside_of). apply Htight. intros Hc. rewrite app_nil_r in Hc.
    rewrite flat_map_app in Hc. cbn [flat_map] in Hc. rewrite flat_map_app in Hx. rewrite !in_app_iff in *. tauto.
Qed.
