(** * The heap-level SegmentedCache as a state machine the runner can drive (kind 11).
    Snapshot: both capacities, then for the probationary and the protected list the entries with the
    address of every linked node and the node addresses of the index in increasing order, then 1.
    Node names are global (a node keeps its name when it is promoted or demoted). *)
From VF Require Import Base Enc Heap HeapStep HeapSlruDef.
From Coq Require Import List Arith.
Import ListNotations.
Open Scope Z_scope.

Record hsstate := mkHsstate { hss_h : heap; hss_s : hslru }.

Definition hsinit (cfg : list Z) : option hsstate :=
  match cfg with
  | [pc; fc] => if Z.leb pc 0 || Z.leb fc 0 then None
                else let '(h, s) := hs_new heap0 (Z.to_nat pc) (Z.to_nat fc) in Some (mkHsstate h s)
  | _ => None
  end.

Definition dec_hsop (l : list Z) : option sop :=
  match l with
  | [0; k; v] => Some (SPut k v)
  | [1; k] => Some (SGetMut k None)
  | [2; k; f; w] => Some (SGetMut k (dec_w f w))
  | [3; k] => Some (SPeek k)
  | [4; k; f; w] => Some (SPeekMut k (dec_w f w))
  | [5; k] => Some (SContains k)
  | [6; k] => Some (SRemove k)
  | [7] => Some SPurge
  | [25] => Some SClone
  | [30; k; v] => Some (SPutProtected k v)
  | _ => None
  end.

(** the per-segment accessors: [peek_lru/mru(_mut)_from_*], [remove_lru_from_*] *)
Definition dec_seg (l : list Z) : option (bool * hop) :=
  match l with
  | [31] => Some (false, HPeekLru None)
  | [32; f; w] => Some (false, HPeekLru (dec_w f w))
  | [33] => Some (false, HPeekMru None)
  | [34; f; w] => Some (false, HPeekMru (dec_w f w))
  | [35] => Some (true, HPeekLru None)
  | [36; f; w] => Some (true, HPeekLru (dec_w f w))
  | [37] => Some (true, HPeekMru None)
  | [38; f; w] => Some (true, HPeekMru (dec_w f w))
  | [39] => Some (false, HRemoveLru)
  | [40] => Some (true, HRemoveLru)
  | _ => None
  end.

Definition hslen (s : hslru) : nat := (length (hidx (hprot s)) + length (hidx (hprob s)))%nat.

Definition hsstep_enc (s : hsstate) (o : list Z) : option (hsstate * list Z * list Z) :=
  match dec_hsop o with
  | None =>
    match o with
    | [8] => Some (s, [zn (hslen (hss_s s))], [0])
    | [9] => Some (s, [zn (hcap (hprot (hss_s s)) + hcap (hprob (hss_s s)))], [0])
    | [10] => Some (s, [zb (Nat.eqb (length (hidx (hprot (hss_s s)))) 0 && Nat.eqb (length (hidx (hprob (hss_s s)))) 0)], [0])
    | [41] => Some (s, [zn (length (hidx (hprot (hss_s s))))], [0])
    | [42] => Some (s, [zn (length (hidx (hprob (hss_s s))))], [0])
    | [43] => Some (s, [zn (hcap (hprob (hss_s s)))], [0])
    | [44] => Some (s, [zn (hcap (hprot (hss_s s)))], [0])
    | _ =>
      match dec_seg o with
      | Some (p, op) =>
        match hs_seg (hss_h s) (hss_s s) p op with
        | HOk (h1, s1, r) => Some (mkHsstate h1 s1, enc_hout r, [0])
        | HErr e => Some (s, [-2000; herr_code e], [0])
        end
      | None => None
      end
    end
  | Some op =>
    match hs_step (hss_h s) (hss_s s) op with
    | HOk (h1, s1, r) => Some (mkHsstate h1 s1, enc_hout r, [0])
    | HErr e => Some (s, [-2000; herr_code e], [0])
    end
  end.

Definition list_snap (h : heap) (q : hlru) : list Z :=
  match habs h q with
  | HOk l => zn (length l) :: enc_nodes l ++ map zn (sort_nat (map snd (hidx q)))
  | HErr e => [-2000; herr_code e]
  end.

Definition hssnap (s : hsstate) : list Z :=
  zn (hcap (hprob (hss_s s))) :: zn (hcap (hprot (hss_s s))) ::
  list_snap (hss_h s) (hprob (hss_s s)) ++ list_snap (hss_h s) (hprot (hss_s s)) ++ [1].

Definition hsretained (s : hsstate) : nat := hslen (hss_s s).

Definition hsdrop_out (s : hsstate) : list Z :=
  match hs_drop (hss_h s) (hss_s s) with
  | HOk h' => [zn (hsretained s); zn (hsretained s); 0; 0; zn (count_live (cells h') (fresh h')); 0]
  | HErr e => [-2000; herr_code e]
  end.
