(** * Layer H — the operations of RawLRU on the heap: never an error, well-formedness preserved,
    and the list they leave behind is the one the layer-L model (Lru.v) computes. *)
From VF Require Import Base Lru BaseFacts LruFacts Heap HeapFacts.
From Coq Require Import List Arith Lia Permutation.
Import ListNotations.
Local Open Scope nat_scope.

Definition entries (l : list (addr * entry)) : list entry := map snd l.

Definition idx_ok (q : hlru) (l : list (addr * entry)) : Prop :=
  Permutation (hidx q) (map (fun x => (fst x, fst x)) l).

(** the invariant of C03: a well-formed chain between the two sentinels whose nodes are exactly
    the entries of the hash index, every index key pointing at the key stored in its own node,
    keys pairwise distinct *)
Definition wf (h : heap) (q : hlru) (l : list (addr * entry)) : Prop :=
  chain h q l /\ idx_ok q l /\ NoDup (keys (entries l)).

(** ** reading through the chain *)
Lemma seg_lookup c p l n a k v :
  seg c p l n -> In (a, (k, v)) l -> exists pp nn, c a = Node (Some k) (Some v) pp nn.
Proof.
  revert p. induction l as [|[b [kb vb]] t IH]; intros p; cbn [seg]; [intros _ []|].
  intros [H1 H2] [E|Hin]; [inversion E; subst; eauto|eapply IH; eauto].
Qed.

Lemma in_addrs_entry (l : list (addr * entry)) a : In a (addrs l) -> exists k v, In (a, (k, v)) l.
Proof.
  unfold addrs. rewrite in_map_iff. intros ([b [k v]] & E & Hin). cbn in E. subst. eauto.
Qed.

Lemma key_at_chain h q l a k v :
  chain h q l -> In (a, (k, v)) l -> key_at h a = HOk k.
Proof.
  intros Hc Hin. destruct (seg_lookup _ _ _ _ _ _ _ (ch_seg _ _ _ Hc) Hin) as (pp & nn & E).
  unfold key_at. now rewrite (hread_node _ _ _ _ _ _ E).
Qed.

(** entries at distinct addresses; same key means same node *)
Lemma same_key_same_addr (l : list (addr * entry)) a b k v v' :
  NoDup (keys (entries l)) -> In (a, (k, v)) l -> In (b, (k, v')) l -> a = b /\ v = v'.
Proof.
  induction l as [|[c [kc vc]] t IH]; intros Hnd Ha Hb; [destruct Ha|].
  cbn [entries map snd keys fst] in Hnd. unfold keys in Hnd. cbn in Hnd. inversion Hnd as [|? ? Hnotin Hnd']; subst.
  assert (Hk : forall x y, In (x, (kc, y)) t -> False).
  { intros x y Hin. apply Hnotin. change kc with (fst (kc, y)). apply in_map. change (kc, y) with (snd (x, (kc, y))).
    now apply in_map. }
  destruct Ha as [Ea|Ha]; destruct Hb as [Eb|Hb].
  - inversion Ea; inversion Eb; subst. auto.
  - inversion Ea; subst. exfalso. eapply Hk; eauto.
  - inversion Eb; subst. exfalso. eapply Hk; eauto.
  - apply IH; auto.
Qed.

(** ** the index *)
Lemma idx_find_sub h q l i k :
  chain h q l -> NoDup (keys (entries l)) ->
  (forall p, In p i -> fst p = snd p /\ In (snd p) (addrs l)) ->
  (forall a v, In (a, (k, v)) l -> In (a, a) i -> idx_find h i k = HOk (Some a)) /\
  ((forall a v, In (a, (k, v)) l -> ~ In (a, a) i) -> idx_find h i k = HOk None).
Proof.
  intros Hc Hnd. induction i as [|[na nb] rest IH]; intros Hall.
  - split; [intros a v _ []|reflexivity].
  - destruct (Hall (na, nb) (or_introl eq_refl)) as [E Hin]. cbn in E, Hin. subst nb.
    destruct (in_addrs_entry l na Hin) as (k' & v' & Hent).
    destruct (IH (fun p Hp => Hall p (or_intror Hp))) as [IH1 IH2].
    cbn [idx_find]. rewrite (key_at_chain _ _ _ _ _ _ Hc Hent). cbn [hbind].
    destruct (Z.eqb_spec k k') as [->|Hne].
    + split.
      * intros a v Ha _. destruct (same_key_same_addr l a na k' v v' Hnd Ha Hent) as [-> _]. reflexivity.
      * intros Hno. exfalso. apply (Hno na v' Hent). now left.
    + split.
      * intros a v Ha [E|Hi]; [|now apply (IH1 a v)].
        exfalso. assert (Ea : na = a) by (inversion E; reflexivity). rewrite Ea in Hent.
        destruct (seg_lookup _ _ _ _ _ _ _ (ch_seg _ _ _ Hc) Ha) as (p1 & n1 & E1).
        destruct (seg_lookup _ _ _ _ _ _ _ (ch_seg _ _ _ Hc) Hent) as (p2 & n2 & E2). congruence.
      * intros Hno. apply IH2. intros a v Ha Hi. apply (Hno a v Ha). now right.
Qed.

Lemma idx_all q l : idx_ok q l -> forall p, In p (hidx q) -> fst p = snd p /\ In (snd p) (addrs l).
Proof.
  intros Hp p Hin. apply (Permutation_in _ Hp) in Hin. apply in_map_iff in Hin.
  destruct Hin as (x & <- & Hx). cbn. split; [reflexivity|]. unfold addrs. now apply in_map.
Qed.

Lemma idx_has q l a e : idx_ok q l -> In (a, e) l -> In (a, a) (hidx q).
Proof.
  intros Hp Hin. apply (Permutation_in _ (Permutation_sym Hp)). apply in_map_iff. exists (a, e). auto.
Qed.

Theorem idx_find_hit h q l a k v :
  wf h q l -> In (a, (k, v)) l -> idx_find h (hidx q) k = HOk (Some a).
Proof.
  intros (Hc & Hi & Hnd) Hin.
  apply (proj1 (idx_find_sub h q l (hidx q) k Hc Hnd (idx_all q l Hi)) a v Hin). eapply idx_has; eauto.
Qed.

Theorem idx_find_miss h q l k :
  wf h q l -> Base.find k (entries l) = None -> idx_find h (hidx q) k = HOk None.
Proof.
  intros (Hc & Hi & Hnd) Hf.
  apply (proj2 (idx_find_sub h q l (hidx q) k Hc Hnd (idx_all q l Hi))).
  intros a v Hin. exfalso. apply find_none_notin in Hf. apply Hf.
  unfold keys, entries. rewrite map_map. apply in_map_iff. exists (a, (k, v)). auto.
Qed.

Lemma idx_len q l : idx_ok q l -> length (hidx q) = length l.
Proof. intros H. rewrite (Permutation_length H). now rewrite map_length. Qed.

(** removing a node from the index *)
Lemma idx_remove_node_perm (i : list (addr * addr)) a :
  NoDup (map snd i) -> In (a, a) i -> Permutation i ((a, a) :: idx_remove_node i a).
Proof.
  induction i as [|[ka na] rest IH]; intros Hnd Hin; [destruct Hin|].
  cbn [idx_remove_node]. cbn [map snd] in Hnd. inversion Hnd as [|? ? Hnotin Hnd']; subst.
  destruct (Nat.eqb_spec na a) as [->|Hne].
  - destruct Hin as [E|Hin]; [inversion E; subst; reflexivity|].
    exfalso. apply Hnotin. change a with (snd (a, a)). now apply in_map.
  - destruct Hin as [E|Hin]; [inversion E; congruence|].
    rewrite perm_swap. constructor. now apply IH.
Qed.

Lemma idx_ok_remove q l1 a e l2 :
  NoDup (addrs (l1 ++ (a, e) :: l2)) -> idx_ok q (l1 ++ (a, e) :: l2) ->
  idx_ok (with_idx q (idx_remove_node (hidx q) a)) (l1 ++ l2).
Proof.
  intros Hnd Hp. unfold idx_ok in *. cbn [hidx with_idx].
  assert (Hnd_i : NoDup (map snd (hidx q))).
  { eapply Permutation_NoDup; [apply Permutation_sym, Permutation_map; exact Hp|].
    rewrite map_map. cbn. exact Hnd. }
  assert (Hin : In (a, a) (hidx q)).
  { apply (Permutation_in _ (Permutation_sym Hp)). apply in_map_iff. exists (a, e). split; [reflexivity|].
    apply in_or_app. right. now left. }
  pose proof (idx_remove_node_perm (hidx q) a Hnd_i Hin) as H1.
  rewrite map_app in Hp. cbn [map fst] in Hp.
  assert (H2 : Permutation ((a, a) :: idx_remove_node (hidx q) a)
                           ((a, a) :: map (fun x => (fst x, fst x)) l1 ++ map (fun x => (fst x, fst x)) l2)).
  { eapply Permutation_trans; [apply Permutation_sym; exact H1|].
    eapply Permutation_trans; [exact Hp|]. apply Permutation_sym, Permutation_middle. }
  apply Permutation_cons_inv in H2. now rewrite map_app.
Qed.

Lemma idx_ok_insert q l a e : idx_ok q l -> idx_ok (idx_insert q a) ((a, e) :: l).
Proof. intros H. unfold idx_ok, idx_insert. cbn [hidx with_idx map fst]. now constructor. Qed.

(** ** frame and in-place updates *)
Lemma chain_descr h q q' l : hhead q' = hhead q -> htail q' = htail q -> chain h q l -> chain h q' l.
Proof. intros E1 E2 [A B C D E]. constructor; rewrite ?E1, ?E2; assumption. Qed.

Lemma chain_frame h h' q l :
  chain h q l -> (forall x, In x (hhead q :: htail q :: addrs l) -> cells h' x = cells h x) ->
  fresh h <= fresh h' -> chain h' q l.
Proof.
  intros [A [hp B] [tn C] D E] Hf Hfr. constructor.
  - exact A.
  - exists hp. rewrite Hf; [exact B|now left].
  - exists tn. rewrite Hf; [exact C|right; now left].
  - eapply seg_frame; [|exact D]. intros x Hx. apply Hf. right. now right.
  - intros a Ha. specialize (E a Ha). lia.
Qed.

Lemma first_addr_same_addrs l l' n : addrs l = addrs l' -> first_addr l n = first_addr l' n.
Proof. destruct l as [|[a e] t], l' as [|[a' e'] t']; cbn; intros H; try discriminate; [reflexivity|now inversion H]. Qed.

Lemma last_addr_same_addrs p l l' : addrs l = addrs l' -> last_addr p l = last_addr p l'.
Proof.
  revert p l'. induction l as [|[a e] t IH]; intros p [|[a' e'] t'] H; cbn in *; try discriminate; [reflexivity|].
  inversion H; subst. now apply IH.
Qed.

(** overwriting the key and value of one node, in place *)
Lemma chain_set_entry h q l1 a e e' l2 p x :
  chain h q (l1 ++ (a, e) :: l2) -> cells h a = Node (Some (fst e)) (Some (snd e)) p x ->
  chain (hupd h a (Node (Some (fst e')) (Some (snd e')) p x)) q (l1 ++ (a, e') :: l2).
Proof.
  intros [A [hp B] [tn C] D E] Hc. destruct e as [k v], e' as [k' v']. cbn [fst snd] in *.
  assert (Ead : addrs (l1 ++ (a, (k', v')) :: l2) = addrs (l1 ++ (a, (k, v)) :: l2)).
  { rewrite !addrs_app. reflexivity. }
  rewrite addrs_app in A. cbn [addrs map fst] in A. fold (addrs l1) (addrs l2) in A.
  destruct (nodup_split_facts _ _ _ _ _ A) as (Hht & Hha & Hta & Hh1 & Hh2 & Ht1 & Ht2 & Ha1 & Ha2 & Hn1 & Hn2 & Hdisj & Hnd').
  constructor.
  - rewrite Ead, addrs_app. exact A.
  - exists hp. rewrite cells_hupd_other by congruence. rewrite B. f_equal. now apply first_addr_same_addrs.
  - exists tn. rewrite cells_hupd_other by congruence. rewrite C. f_equal. now apply last_addr_same_addrs.
  - apply seg_app in D. destruct D as [D1 D2]. cbn [seg first_addr] in D1, D2. destruct D2 as [D2 D3].
    apply seg_app. cbn [seg first_addr]. split; [|split].
    + eapply seg_frame; [|exact D1]. intros y Hy. apply cells_hupd_other. intros ->. contradiction.
    + rewrite cells_hupd_same. rewrite D2 in Hc. inversion Hc; subst. reflexivity.
    + eapply seg_frame; [|exact D3]. intros y Hy. apply cells_hupd_other. intros ->. contradiction.
  - intros y Hy. rewrite fresh_hupd. apply E. now rewrite <- Ead.
Qed.

Lemma wf_perm_front q l1 a e e' l2 :
  idx_ok q (l1 ++ (a, e) :: l2) -> idx_ok q ((a, e') :: l1 ++ l2).
Proof.
  unfold idx_ok. intros H. eapply Permutation_trans; [exact H|].
  rewrite map_app. cbn [map fst]. rewrite map_app. apply Permutation_sym, Permutation_middle.
Qed.

Lemma entries_app l1 l2 : entries (l1 ++ l2) = entries l1 ++ entries l2.
Proof. apply map_app. Qed.

Lemma keys_perm_front (l1 : list (addr * entry)) a k v v' l2 :
  NoDup (keys (entries (l1 ++ (a, (k, v)) :: l2))) -> NoDup (keys (entries ((a, (k, v')) :: l1 ++ l2))).
Proof.
  unfold keys, entries. rewrite !map_app. cbn [map snd fst]. rewrite !map_app.
  intros H. eapply Permutation_NoDup; [|exact H]. apply Permutation_sym, Permutation_middle.
Qed.

(** the entry list as the layer-L model sees it *)
Lemma find_entries_split (l1 : list (addr * entry)) a k v l2 :
  NoDup (keys (entries (l1 ++ (a, (k, v)) :: l2))) ->
  Base.find k (entries (l1 ++ (a, (k, v)) :: l2)) = Some v /\
  remove_key k (entries (l1 ++ (a, (k, v)) :: l2)) = entries l1 ++ entries l2.
Proof.
  rewrite entries_app. cbn [entries map snd]. fold (entries l1) (entries l2).
  induction l1 as [|[b [kb vb]] t IH]; cbn [entries map snd app keys fst]; intros Hnd.
  - cbn. rewrite Z.eqb_refl. auto.
  - unfold keys in Hnd. cbn in Hnd. inversion Hnd as [|? ? Hnotin Hnd']; subst.
    assert (k <> kb).
    { intros ->. apply Hnotin. rewrite map_app. apply in_or_app. right. now left. }
    cbn [Base.find remove_key]. destruct (Z.eqb_spec k kb); [contradiction|].
    destruct (IH Hnd') as [E1 E2]. split; [exact E1|]. cbn. f_equal. exact E2.
Qed.

(** the part of the heap an operation may not touch: everything but the sentinels and the linked nodes *)
Definition outside (q : hlru) (l : list (addr * entry)) (x : addr) : Prop :=
  x <> hhead q /\ x <> htail q /\ ~ In x (addrs l).

Lemma outside_split q l1 a e l2 x :
  outside q (l1 ++ (a, e) :: l2) x -> x <> hhead q /\ x <> htail q /\ x <> a /\ ~ In x (addrs (l1 ++ l2)).
Proof.
  intros (H1 & H2 & H3). rewrite addrs_app in H3. cbn [addrs map fst] in H3. rewrite in_app_iff in H3. cbn [In] in H3.
  rewrite addrs_app, in_app_iff. repeat split; try assumption; [intros ->|]; tauto.
Qed.

(** ** get / get_mut *)
Theorem h_get_mut_hit h q l1 a k v l2 w :
  wf h q (l1 ++ (a, (k, v)) :: l2) ->
  exists h', h_get_mut h q k w = HOk (h', Some v) /\
             wf h' q ((a, (k, match w with Some x => x | None => v end)) :: l1 ++ l2) /\ fresh h' = fresh h /\
             (forall x, outside q (l1 ++ (a, (k, v)) :: l2) x -> cells h' x = cells h x).
Proof.
  intros Hwf. pose proof Hwf as (Hc & Hi & Hnd).
  unfold h_get_mut. rewrite (idx_find_hit h q _ a k v Hwf) by (apply in_or_app; right; now left). cbn [hbind].
  destruct (detach_chain h q l1 a (k, v) l2 Hc) as (h1 & -> & Hc1 & Ea & Ef1 & Hfr1). cbn [hbind].
  pose proof (seg_mid _ _ _ _ _ _ _ _ (ch_seg _ _ _ Hc)) as Ecell. rewrite <- Ea in Ecell.
  pose proof (ch_nodup _ _ _ Hc) as Hnd0. rewrite addrs_app in Hnd0. cbn [addrs map fst] in Hnd0.
  destruct (nodup_split_facts _ _ _ _ _ Hnd0) as (Hht & Hha & Hta & Hh1 & Hh2 & Ht1 & Ht2 & Ha1 & Ha2 & _).
  assert (Hnotin : ~ In a (hhead q :: htail q :: addrs (l1 ++ l2))).
  { rewrite addrs_app. cbn [In]. rewrite in_app_iff. intros [E|[E|[H|H]]]; congruence || contradiction. }
  assert (Hlt : a < fresh h1).
  { rewrite Ef1. apply (ch_fresh _ _ _ Hc). right. right. rewrite addrs_app. apply in_or_app. right. now left. }
  destruct (attach_chain h1 q (l1 ++ l2) a k v _ _ Hc1 Hnotin Hlt Ecell) as (h2 & -> & Hc2 & Ef2 & Hfr2).
  cbn [hbind].
  pose proof (ch_seg _ _ _ Hc2) as Hs2. cbn [seg] in Hs2. destruct Hs2 as [Ec2 _].
  rewrite (hread_node _ _ _ _ _ _ Ec2). cbn [hbind].
  assert (Hfr : forall x, outside q (l1 ++ (a, (k, v)) :: l2) x -> x <> a /\ cells h2 x = cells h x).
  { intros x Hx. apply outside_split in Hx. destruct Hx as (X1 & X2 & X3 & X4). split; [exact X3|].
    rewrite Hfr2 by assumption. now apply Hfr1. }
  destruct w as [w|].
  - eexists. split; [reflexivity|]. split; [|split; [rewrite fresh_hupd; congruence|]].
    + split; [|split].
      * apply (chain_set_entry h2 q [] a (k, v) (k, w) (l1 ++ l2) _ _ Hc2 Ec2).
      * eapply wf_perm_front; eauto.
      * eapply keys_perm_front; eauto.
    + intros x Hx. destruct (Hfr x Hx) as [X E]. rewrite cells_hupd_other by exact X. exact E.
  - eexists. split; [reflexivity|]. split; [|split; [congruence|]].
    + split; [exact Hc2|]. split.
      * eapply wf_perm_front; eauto.
      * eapply keys_perm_front; eauto.
    + intros x Hx. now destruct (Hfr x Hx).
Qed.

Theorem h_get_mut_miss h q l k w :
  wf h q l -> Base.find k (entries l) = None -> h_get_mut h q k w = HOk (h, None).
Proof. intros Hwf Hf. unfold h_get_mut. now rewrite (idx_find_miss h q l k Hwf Hf). Qed.

Theorem h_peek_ok h q l k :
  wf h q l -> h_peek h q k = HOk (Base.find k (entries l)).
Proof.
  intros Hwf. pose proof Hwf as (Hc & Hi & Hnd). unfold h_peek.
  destruct (Base.find k (entries l)) as [v|] eqn:Ef.
  - apply find_some_in in Ef. unfold entries in Ef. apply in_map_iff in Ef. destruct Ef as ([a e] & E & Hin).
    cbn in E. subst e. rewrite (idx_find_hit h q l a k v Hwf Hin). cbn [hbind].
    destruct (seg_lookup _ _ _ _ _ _ _ (ch_seg _ _ _ Hc) Hin) as (pp & nn & Ec).
    now rewrite (hread_node _ _ _ _ _ _ Ec).
  - now rewrite (idx_find_miss h q l k Hwf Ef).
Qed.

(** ** put *)
Theorem h_put_update h q l1 a k old l2 v :
  wf h q (l1 ++ (a, (k, old)) :: l2) ->
  exists h', h_put h q k v = HOk (h', q, PUpdate old) /\ wf h' q ((a, (k, v)) :: l1 ++ l2) /\ fresh h' = fresh h /\
             (forall x, outside q (l1 ++ (a, (k, old)) :: l2) x -> cells h' x = cells h x).
Proof.
  intros Hwf. pose proof Hwf as (Hc & Hi & Hnd).
  unfold h_put. rewrite (idx_find_hit h q _ a k old Hwf) by (apply in_or_app; right; now left). cbn [hbind].
  unfold h_update.
  pose proof (seg_mid _ _ _ _ _ _ _ _ (ch_seg _ _ _ Hc)) as Ecell.
  rewrite (hread_node _ _ _ _ _ _ Ecell). cbn [hbind].
  pose proof (chain_set_entry h q l1 a (k, old) (k, v) l2 _ _ Hc Ecell) as Hc0. cbn [fst snd] in Hc0.
  set (h0 := hupd h a (Node (Some k) (Some v) (last_addr (hhead q) l1) (first_addr l2 (htail q)))) in *.
  destruct (detach_chain h0 q l1 a (k, v) l2 Hc0) as (h1 & -> & Hc1 & Ea & Ef1 & Hfr1). cbn [hbind].
  pose proof (seg_mid _ _ _ _ _ _ _ _ (ch_seg _ _ _ Hc0)) as Ecell0. rewrite <- Ea in Ecell0.
  pose proof (ch_nodup _ _ _ Hc) as Hnd0. rewrite addrs_app in Hnd0. cbn [addrs map fst] in Hnd0.
  destruct (nodup_split_facts _ _ _ _ _ Hnd0) as (Hht & Hha & Hta & Hh1 & Hh2 & Ht1 & Ht2 & Ha1 & Ha2 & _).
  assert (Hnotin : ~ In a (hhead q :: htail q :: addrs (l1 ++ l2))).
  { rewrite addrs_app. cbn [In]. rewrite in_app_iff. intros [E|[E|[H|H]]]; congruence || contradiction. }
  assert (Hlt : a < fresh h1).
  { rewrite Ef1. subst h0. rewrite fresh_hupd. apply (ch_fresh _ _ _ Hc). right. right. rewrite addrs_app.
    apply in_or_app. right. now left. }
  destruct (attach_chain h1 q (l1 ++ l2) a k v _ _ Hc1 Hnotin Hlt Ecell0) as (h2 & -> & Hc2 & Ef2 & Hfr2).
  cbn [hbind]. eexists. split; [reflexivity|]. split; [|split; [subst h0; rewrite Ef2, Ef1; apply fresh_hupd|]].
  - split; [exact Hc2|]. split; [eapply wf_perm_front; eauto|eapply keys_perm_front; eauto].
  - intros x Hx. apply outside_split in Hx. destruct Hx as (X1 & X2 & X3 & X4).
    rewrite Hfr2 by assumption. rewrite Hfr1 by assumption. subst h0. now apply cells_hupd_other.
Qed.

Lemma chain_alloc h q l k v :
  chain h q l ->
  let '(h1, n) := halloc h k v in
  chain h1 q l /\ n = fresh h /\ fresh h1 = S (fresh h) /\ cells h1 n = Node k v 0 0 /\
  ~ In n (hhead q :: htail q :: addrs l).
Proof.
  intros Hc. unfold halloc. cbn zeta.
  assert (Hn : ~ In (fresh h) (hhead q :: htail q :: addrs l)).
  { intros Hin. pose proof (ch_fresh _ _ _ Hc _ Hin). lia. }
  split; [|split; [reflexivity|split; [reflexivity|split; [cbn; now rewrite Nat.eqb_refl|exact Hn]]]].
  eapply chain_frame; [exact Hc| |cbn; lia].
  intros x Hx. cbn. destruct (Nat.eqb_spec x (fresh h)); [subst; contradiction|reflexivity].
Qed.

Lemma keys_cons_nodup (l : list (addr * entry)) a k v :
  NoDup (keys (entries l)) -> Base.find k (entries l) = None -> NoDup (keys (entries ((a, (k, v)) :: l))).
Proof.
  intros Hnd Hf. cbn [entries map snd]. rewrite keys_cons. constructor; [|exact Hnd]. now apply find_none_notin.
Qed.

Theorem h_put_new_room h q l k v :
  wf h q l -> Base.find k (entries l) = None -> hcap q <> 0 -> length l <> hcap q ->
  exists h' q', h_put h q k v = HOk (h', q', PPut) /\ wf h' q' ((fresh h, (k, v)) :: l) /\
                hhead q' = hhead q /\ htail q' = htail q /\ hcap q' = hcap q /\ fresh h' = S (fresh h) /\
                (forall x, outside q l x -> x <> fresh h -> cells h' x = cells h x).
Proof.
  intros Hwf Hf Hc0 Hlen. pose proof Hwf as (Hc & Hi & Hnd).
  unfold h_put. rewrite (idx_find_miss h q l k Hwf Hf). cbn [hbind].
  destruct (Nat.eqb_spec (hcap q) 0) as [|_]; [contradiction|].
  rewrite (idx_len q l Hi). destruct (Nat.eqb_spec (length l) (hcap q)) as [|_]; [contradiction|].
  pose proof (chain_alloc h q l (Some k) (Some v) Hc) as Ha.
  assert (Hal : forall x, x <> fresh h -> cells (fst (halloc h (Some k) (Some v))) x = cells h x).
  { intros x Hx. cbn. now destruct (Nat.eqb_spec x (fresh h)). }
  destruct (halloc h (Some k) (Some v)) as [h1 nn]. destruct Ha as (Hc1 & -> & Ef1 & Ecell & Hnotin).
  cbn [fst] in Hal.
  assert (Hlt : fresh h < fresh h1) by lia.
  destruct (attach_chain h1 q l (fresh h) k v _ _ Hc1 Hnotin Hlt Ecell) as (h2 & -> & Hc2 & Ef2 & Hfr2).
  cbn [hbind]. do 2 eexists. split; [reflexivity|].
  split; [|split; [reflexivity|split; [reflexivity|split; [reflexivity|split; [cbn; congruence|]]]]].
  - split; [eapply chain_descr; [| |exact Hc2]; reflexivity|].
    split; [now apply idx_ok_insert|now apply keys_cons_nodup].
  - intros x (X1 & X2 & X3) X4. rewrite Hfr2 by assumption. now apply Hal.
Qed.

(** the least recently used node is the one before the tail sentinel *)
Lemma tail_prev_last h q l a e : chain h q (l ++ [(a, e)]) -> tail_prev h q = HOk a.
Proof.
  intros Hc. destruct (ch_tail _ _ _ Hc) as [tn Ht]. unfold tail_prev.
  rewrite (hread_node _ _ _ _ _ _ Ht). cbn [hbind]. rewrite last_addr_app. reflexivity.
Qed.

Lemma tail_prev_empty h q : chain h q [] -> tail_prev h q = HOk (hhead q).
Proof.
  intros Hc. destruct (ch_tail _ _ _ Hc) as [tn Ht]. unfold tail_prev.
  now rewrite (hread_node _ _ _ _ _ _ Ht).
Qed.

Lemma idx_remove_hit h q l1 a k v l2 :
  wf h q (l1 ++ (a, (k, v)) :: l2) ->
  idx_remove h q k = HOk (with_idx q (idx_remove_node (hidx q) a), Some a) /\
  idx_ok (with_idx q (idx_remove_node (hidx q) a)) (l1 ++ l2).
Proof.
  intros Hwf. pose proof Hwf as (Hc & Hi & Hnd). unfold idx_remove.
  rewrite (idx_find_hit h q _ a k v Hwf) by (apply in_or_app; right; now left). cbn [hbind].
  split; [reflexivity|]. eapply idx_ok_remove; [|exact Hi].
  pose proof (ch_nodup _ _ _ Hc) as H0. inversion H0 as [|? ? _ H1]; subst. inversion H1; subst. assumption.
Qed.

Lemma keys_remove_mid (l1 : list (addr * entry)) x l2 :
  NoDup (keys (entries (l1 ++ x :: l2))) -> NoDup (keys (entries (l1 ++ l2))).
Proof.
  unfold keys, entries. rewrite !map_app. cbn [map]. apply NoDup_remove_1.
Qed.

(** put of a new key into a full list: the least recently used node is recycled in place *)
Theorem h_put_recycle h q l a ek ev k v :
  wf h q (l ++ [(a, (ek, ev))]) -> Base.find k (entries (l ++ [(a, (ek, ev))])) = None ->
  hcap q <> 0 -> length (l ++ [(a, (ek, ev))]) = hcap q ->
  exists h' q', h_put h q k v = HOk (h', q', PEvicted ek ev) /\ wf h' q' ((a, (k, v)) :: l) /\
                hhead q' = hhead q /\ htail q' = htail q /\ hcap q' = hcap q /\ fresh h' = fresh h /\
                (forall x, outside q (l ++ [(a, (ek, ev))]) x -> cells h' x = cells h x).
Proof.
  intros Hwf Hf Hc0 Hlen. pose proof Hwf as (Hc & Hi & Hnd).
  unfold h_put. rewrite (idx_find_miss h q _ k Hwf Hf). cbn [hbind].
  destruct (Nat.eqb_spec (hcap q) 0); [contradiction|].
  rewrite (idx_len q _ Hi). destruct (Nat.eqb_spec (length (l ++ [(a, (ek, ev))])) (hcap q)); [|contradiction].
  rewrite (tail_prev_last h q l a (ek, ev) Hc). cbn [hbind].
  rewrite (key_at_chain h q _ a ek ev Hc) by (apply in_or_app; right; now left). cbn [hbind].
  destruct (idx_remove_hit h q l a ek ev [] Hwf) as [-> Hi1]. cbn [hbind]. rewrite app_nil_r in Hi1.
  pose proof (seg_mid _ _ _ _ _ _ _ _ (ch_seg _ _ _ Hc)) as Ecell.
  unfold take_kv. rewrite (hread_node _ _ _ _ _ _ Ecell). cbn [hbind].
  pose proof (chain_set_entry h q l a (ek, ev) (k, v) [] _ _ Hc Ecell) as Hc1. cbn [fst snd] in Hc1.
  set (h1 := hupd h a (Node (Some k) (Some v) (last_addr (hhead q) l) (first_addr [] (htail q)))) in *.
  set (q1 := with_idx q (idx_remove_node (hidx q) a)) in *.
  assert (Hc1' : chain h1 q1 (l ++ [(a, (k, v))])) by (eapply chain_descr; [| |exact Hc1]; reflexivity).
  destruct (detach_chain h1 q1 l a (k, v) [] Hc1') as (h2 & -> & Hc2 & Ea & Ef2 & Hfr2). cbn [hbind].
  rewrite app_nil_r in Hc2, Hfr2.
  pose proof (seg_mid _ _ _ _ _ _ _ _ (ch_seg _ _ _ Hc1')) as Ecell1. rewrite <- Ea in Ecell1.
  pose proof (ch_nodup _ _ _ Hc) as Hnd0. rewrite addrs_app in Hnd0. cbn [addrs map fst] in Hnd0.
  destruct (nodup_split_facts _ _ _ _ _ Hnd0) as (Hht & Hha & Hta & Hh1 & Hh2 & Ht1 & Ht2 & Ha1 & Ha2 & _).
  assert (Hnotin : ~ In a (hhead q1 :: htail q1 :: addrs l)).
  { subst q1. cbn [hhead htail with_idx In]. intros [E|[E|H]]; congruence || contradiction. }
  assert (Hlt : a < fresh h2).
  { rewrite Ef2. subst h1. rewrite fresh_hupd. apply (ch_fresh _ _ _ Hc). right. right. rewrite addrs_app.
    apply in_or_app. right. now left. }
  destruct (attach_chain h2 q1 l a k v _ _ Hc2 Hnotin Hlt Ecell1) as (h3 & -> & Hc3 & Ef3 & Hfr3).
  cbn [hbind]. do 2 eexists. split; [reflexivity|].
  split; [|split; [reflexivity|split; [reflexivity|split; [reflexivity|split;
            [subst h1; rewrite Ef3, Ef2; apply fresh_hupd|]]]]].
  - split; [eapply chain_descr; [| |exact Hc3]; reflexivity|].
    split; [now apply idx_ok_insert|].
    apply keys_cons_nodup.
    + rewrite <- (app_nil_r l). eapply keys_remove_mid. exact Hnd.
    + rewrite entries_app in Hf. apply find_none_notin in Hf. apply find_none_notin.
      intros Hin. apply Hf. rewrite keys_app. apply in_or_app. now left.
  - intros x Hx. apply outside_split in Hx. destruct Hx as (X1 & X2 & X3 & X4). rewrite app_nil_r in X4.
    rewrite Hfr3 by assumption. rewrite Hfr2 by assumption. subst h1. now apply cells_hupd_other.
Qed.

Theorem h_put_cap0 h q l k v :
  wf h q l -> Base.find k (entries l) = None -> hcap q = 0 -> h_put h q k v = HOk (h, q, PEvicted k v).
Proof.
  intros Hwf Hf Hc0. unfold h_put. rewrite (idx_find_miss h q l k Hwf Hf). cbn [hbind]. now rewrite Hc0.
Qed.

(** ** remove, remove_lru: the node is unlinked, read out and freed *)
Lemma chain_free h q l a :
  chain h q l -> ~ In a (hhead q :: htail q :: addrs l) -> (exists k v p n, cells h a = Node k v p n) ->
  exists h', hfree h a = HOk h' /\ chain h' q l /\ cells h' a = Free /\ fresh h' = fresh h /\
             (forall x, x <> a -> cells h' x = cells h x).
Proof.
  intros Hc Hn (k & v & p & n & E). unfold hfree. rewrite E. eexists. split; [reflexivity|].
  split; [|split; [apply cells_hupd_same|split; [reflexivity|intros x Hx; now apply cells_hupd_other]]].
  eapply chain_frame; [exact Hc| |rewrite fresh_hupd; lia].
  intros x Hx. apply cells_hupd_other. intros ->. contradiction.
Qed.

Theorem h_remove_hit h q l1 a k v l2 :
  wf h q (l1 ++ (a, (k, v)) :: l2) ->
  exists h' q', h_remove h q k = HOk (h', q', Some v) /\ wf h' q' (l1 ++ l2) /\ cells h' a = Free /\
                hhead q' = hhead q /\ htail q' = htail q /\ hcap q' = hcap q /\ fresh h' = fresh h /\
                (forall x, outside q (l1 ++ (a, (k, v)) :: l2) x -> cells h' x = cells h x).
Proof.
  intros Hwf. pose proof Hwf as (Hc & Hi & Hnd).
  unfold h_remove, h_remove_ent. destruct (idx_remove_hit h q l1 a k v l2 Hwf) as [-> Hi1]. cbn [hbind].
  destruct (detach_chain h q l1 a (k, v) l2 Hc) as (h1 & -> & Hc1 & Ea & Ef1 & Hfr1). cbn [hbind].
  pose proof (seg_mid _ _ _ _ _ _ _ _ (ch_seg _ _ _ Hc)) as Ecell. rewrite <- Ea in Ecell.
  unfold take_kv. rewrite (hread_node _ _ _ _ _ _ Ecell). cbn [hbind].
  pose proof (ch_nodup _ _ _ Hc) as Hnd0. rewrite addrs_app in Hnd0. cbn [addrs map fst] in Hnd0.
  destruct (nodup_split_facts _ _ _ _ _ Hnd0) as (Hht & Hha & Hta & Hh1 & Hh2 & Ht1 & Ht2 & Ha1 & Ha2 & _).
  assert (Hnotin : ~ In a (hhead q :: htail q :: addrs (l1 ++ l2))).
  { rewrite addrs_app. cbn [In]. rewrite in_app_iff. intros [E|[E|[H|H]]]; congruence || contradiction. }
  destruct (chain_free h1 q (l1 ++ l2) a Hc1 Hnotin ltac:(eauto)) as (h2 & -> & Hc2 & Efree & Ef2 & Hfr2).
  cbn [hbind]. do 2 eexists. split; [reflexivity|].
  split; [|split; [exact Efree|split; [reflexivity|split; [reflexivity|split; [reflexivity|split; [congruence|]]]]]].
  - split; [eapply chain_descr; [| |exact Hc2]; reflexivity|]. split; [exact Hi1|]. eapply keys_remove_mid; eauto.
  - intros x (Hx1 & Hx2 & Hx3). rewrite addrs_app in Hx3. cbn [addrs map fst] in Hx3.
    rewrite in_app_iff in Hx3. cbn [In] in Hx3.
    rewrite Hfr2 by (intros ->; apply Hx3; right; now left).
    apply Hfr1; [assumption|assumption|]. rewrite addrs_app, in_app_iff. tauto.
Qed.

Theorem h_remove_miss h q l k :
  wf h q l -> Base.find k (entries l) = None -> h_remove h q k = HOk (h, q, None).
Proof.
  intros Hwf Hf. unfold h_remove, h_remove_ent, idx_remove. now rewrite (idx_find_miss h q l k Hwf Hf).
Qed.

Theorem h_remove_lru_some h q l a k v :
  wf h q (l ++ [(a, (k, v))]) ->
  exists h' q', h_remove_lru h q = HOk (h', q', Some (k, v)) /\ wf h' q' l /\ cells h' a = Free /\
                hhead q' = hhead q /\ htail q' = htail q /\ hcap q' = hcap q /\ fresh h' = fresh h /\
                (forall x, outside q (l ++ [(a, (k, v))]) x -> cells h' x = cells h x).
Proof.
  intros Hwf. pose proof Hwf as (Hc & Hi & Hnd).
  unfold h_remove_lru, h_remove_lru_in. rewrite (tail_prev_last h q l a (k, v) Hc). cbn [hbind].
  pose proof (ch_nodup _ _ _ Hc) as Hnd0. rewrite addrs_app in Hnd0. cbn [addrs map fst] in Hnd0.
  destruct (nodup_split_facts _ _ _ _ _ Hnd0) as (Hht & Hha & Hta & Hh1 & Hh2 & Ht1 & Ht2 & Ha1 & Ha2 & _).
  destruct (Nat.eqb_spec a (hhead q)); [congruence|].
  rewrite (key_at_chain h q _ a k v Hc) by (apply in_or_app; right; now left). cbn [hbind].
  destruct (idx_remove_hit h q l a k v [] Hwf) as [-> Hi1]. cbn [hbind]. rewrite app_nil_r in Hi1.
  destruct (detach_chain h q l a (k, v) [] Hc) as (h1 & -> & Hc1 & Ea & Ef1 & Hfr1). cbn [hbind].
  rewrite app_nil_r in Hc1, Hfr1.
  pose proof (seg_mid _ _ _ _ _ _ _ _ (ch_seg _ _ _ Hc)) as Ecell. rewrite <- Ea in Ecell.
  unfold take_kv. rewrite (hread_node _ _ _ _ _ _ Ecell). cbn [hbind].
  assert (Hnotin : ~ In a (hhead q :: htail q :: addrs l)).
  { cbn [In]. intros [E|[E|H]]; congruence || contradiction. }
  destruct (chain_free h1 q l a Hc1 Hnotin ltac:(eauto)) as (h2 & -> & Hc2 & Efree & Ef2 & Hfr2).
  cbn [hbind]. do 2 eexists. split; [reflexivity|].
  split; [|split; [exact Efree|split; [reflexivity|split; [reflexivity|split; [reflexivity|split; [congruence|]]]]]].
  - split; [eapply chain_descr; [| |exact Hc2]; reflexivity|]. split; [exact Hi1|].
    rewrite <- (app_nil_r l). eapply keys_remove_mid; eauto.
  - intros x (Hx1 & Hx2 & Hx3). rewrite addrs_app in Hx3. cbn [addrs map fst] in Hx3.
    rewrite in_app_iff in Hx3. cbn [In] in Hx3.
    rewrite Hfr2 by (intros ->; apply Hx3; right; now left).
    apply Hfr1; [assumption|assumption|tauto].
Qed.

Theorem h_remove_lru_none h q : wf h q [] -> h_remove_lru h q = HOk (h, q, None).
Proof.
  intros (Hc & _). unfold h_remove_lru, h_remove_lru_in. rewrite (tail_prev_empty h q Hc). cbn [hbind].
  now rewrite Nat.eqb_refl.
Qed.

(** ** purge: every node is freed, the sentinels stay *)
Lemma rev_ind_split {A} (l : list A) : l = [] \/ exists l' x, l = l' ++ [x].
Proof. destruct l using rev_ind; [now left|right; eauto]. Qed.

Lemma h_purge_loop_ok n : forall fuel h q l,
  wf h q l -> n = length l -> (length l < fuel)%nat ->
  exists h' q', h_purge_loop fuel h q = HOk (h', q') /\ wf h' q' [] /\ (forall a, In a (addrs l) -> cells h' a = Free) /\
                hhead q' = hhead q /\ htail q' = htail q /\ hcap q' = hcap q /\ fresh h' = fresh h /\
                (forall x, outside q l x -> cells h' x = cells h x).
Proof.
  induction n as [|n IH]; intros fuel h q l Hwf En Hfuel; (destruct fuel as [|fuel]; [lia|]).
  - destruct l; [|discriminate]. cbn [h_purge_loop]. rewrite (h_remove_lru_none h q Hwf). cbn [hbind].
    do 2 eexists. split; [reflexivity|]. split; [exact Hwf|]. split; [intros a []|]. repeat split; reflexivity.
  - destruct (rev_ind_split l) as [->|(l' & [a [k v]] & ->)]; [discriminate|].
    rewrite app_length in En, Hfuel. cbn [length] in En, Hfuel. assert (En' : n = length l') by lia.
    cbn [h_purge_loop].
    pose proof (ch_nodup _ _ _ (proj1 Hwf)) as Hnd0. rewrite addrs_app in Hnd0. cbn [addrs map fst] in Hnd0.
    destruct (nodup_split_facts _ _ _ _ _ Hnd0) as (Hht & Hha & Hta & Hh1 & Hh2 & Ht1 & Ht2 & Ha1 & Ha2 & _).
    destruct (h_remove_lru_some h q l' a k v Hwf) as (h1 & q1 & -> & Hwf1 & Efree & E1 & E2 & E3 & E4 & Hfr1).
    cbn [hbind].
    destruct (IH fuel h1 q1 l' Hwf1 En' ltac:(lia)) as (h2 & q2 & E & Hwf2 & Hall & F1 & F2 & F3 & F4 & Hfr2).
    rewrite E. do 2 eexists. split; [reflexivity|]. split; [exact Hwf2|].
    split; [|split; [congruence|split; [congruence|split; [congruence|split; [congruence|]]]]].
    + intros x Hx. rewrite addrs_app in Hx. apply in_app_or in Hx. destruct Hx as [Hx|[<-|[]]]; [now apply Hall|].
      rewrite Hfr2; [exact Efree|]. unfold outside. rewrite E1, E2. cbn [fst]. repeat split; [congruence|congruence|assumption].
    + intros x (Hx1 & Hx2 & Hx3). rewrite Hfr2.
      * apply Hfr1. repeat split; assumption.
      * unfold outside. rewrite E1, E2. repeat split; try assumption.
        intros Hin. apply Hx3. rewrite addrs_app. apply in_or_app. now left.
Qed.

Theorem h_purge_ok h q l :
  wf h q l ->
  exists h' q', h_purge h q = HOk (h', q') /\ wf h' q' [] /\ (forall a, In a (addrs l) -> cells h' a = Free) /\
                hhead q' = hhead q /\ htail q' = htail q /\ hcap q' = hcap q /\ fresh h' = fresh h /\
                (forall x, outside q l x -> cells h' x = cells h x).
Proof.
  intros Hwf. unfold h_purge. rewrite (idx_len q l (proj1 (proj2 Hwf))).
  eapply h_purge_loop_ok; [exact Hwf|reflexivity|lia].
Qed.

(** ** Drop: every linked node is read out (its key and value dropped in place) and freed exactly once,
    then the two sentinels are freed without their uninitialised key and value being touched *)
Lemma h_drop_nodes_ok (i : list (addr * addr)) : forall h,
  NoDup (map snd i) ->
  (forall a, In a (map snd i) -> exists k v p n, cells h a = Node (Some k) (Some v) p n) ->
  exists h', h_drop_nodes h i = HOk h' /\ (forall a, In a (map snd i) -> cells h' a = Free) /\
             (forall x, ~ In x (map snd i) -> cells h' x = cells h x).
Proof.
  induction i as [|[ka na] rest IH]; intros h Hnd Hall.
  - eexists. split; [reflexivity|]. split; [intros a []|reflexivity].
  - cbn [map snd] in Hnd, Hall. apply NoDup_cons_iff in Hnd. destruct Hnd as [Hnotin Hnd].
    destruct (Hall na (or_introl eq_refl)) as (k & v & p & n & E).
    cbn [h_drop_nodes]. unfold take_kv, hfree. rewrite (hread_node _ _ _ _ _ _ E). cbn [hbind]. rewrite E. cbn [hbind].
    destruct (IH (hupd h na Free) Hnd) as (h' & -> & Hfree & Hfr).
    { intros a Ha. rewrite cells_hupd_other by (intros ->; contradiction). apply Hall. now right. }
    eexists. split; [reflexivity|]. split.
    + intros a [<-|Ha]; [|now apply Hfree]. rewrite Hfr by assumption. apply cells_hupd_same.
    + intros x Hx. cbn [map snd In] in Hx. rewrite Hfr by tauto. apply cells_hupd_other. intros ->. tauto.
Qed.

Theorem h_drop_ok h q l :
  wf h q l ->
  exists h', h_drop h q = HOk h' /\
             (forall a, In a (hhead q :: htail q :: addrs l) -> cells h' a = Free) /\
             (forall x, outside q l x -> cells h' x = cells h x).
Proof.
  intros (Hc & Hi & Hnd). unfold h_drop.
  pose proof (ch_nodup _ _ _ Hc) as Hnd0. apply NoDup_cons_iff in Hnd0. destruct Hnd0 as [Hh Hnd0].
  apply NoDup_cons_iff in Hnd0. destruct Hnd0 as [Ht Hnd0].
  assert (Hp : Permutation (map snd (hidx q)) (addrs l)).
  { unfold idx_ok in Hi. rewrite Hi. rewrite map_map. cbn [snd]. reflexivity. }
  destruct (h_drop_nodes_ok (hidx q) h) as (h1 & -> & Hfree & Hfr).
  { eapply Permutation_NoDup; [symmetry; exact Hp|exact Hnd0]. }
  { intros a Ha. eapply seg_cell; [exact (ch_seg _ _ _ Hc)|]. eapply Permutation_in; eauto. }
  cbn [hbind]. destruct (ch_head _ _ _ Hc) as [hp Eh]. destruct (ch_tail _ _ _ Hc) as [tn Et].
  assert (Hh1 : ~ In (hhead q) (map snd (hidx q))).
  { intros Hin. apply Hh. right. eapply Permutation_in; eauto. }
  assert (Ht1 : ~ In (htail q) (map snd (hidx q))).
  { intros Hin. apply Ht. eapply Permutation_in; eauto. }
  unfold hfree. rewrite (Hfr _ Hh1), Eh. cbn [hbind].
  assert (Hne : htail q <> hhead q) by (intros E; apply Hh; left; now rewrite E).
  rewrite cells_hupd_other by assumption. rewrite (Hfr _ Ht1), Et.
  eexists. split; [reflexivity|]. split.
  - intros a [<-|[<-|Ha]].
    + rewrite cells_hupd_other by congruence. apply cells_hupd_same.
    + apply cells_hupd_same.
    + assert (a <> hhead q) by (intros ->; apply Hh; now right).
      assert (a <> htail q) by (intros ->; contradiction).
      rewrite !cells_hupd_other by assumption. apply Hfree. eapply Permutation_in; [symmetry; exact Hp|exact Ha].
  - intros x (Hx1 & Hx2 & Hx3). rewrite !cells_hupd_other by assumption. apply Hfr.
    intros Hin. apply Hx3. eapply Permutation_in; eauto.
Qed.

(** ** resize *)
Lemma wf_descr h q q' l :
  hhead q' = hhead q -> htail q' = htail q -> hidx q' = hidx q -> wf h q l -> wf h q' l.
Proof.
  intros E1 E2 E3 (Hc & Hi & Hnd). split; [eapply chain_descr; eauto|]. split; [|exact Hnd].
  unfold idx_ok in *. now rewrite E3.
Qed.

Lemma h_resize_loop_ok c : forall fuel h q l,
  wf h q l -> (length l - c <= fuel)%nat ->
  exists h' q', h_resize_loop fuel h q c = HOk (h', q') /\ wf h' q' (firstn c l) /\
                (forall a, In a (addrs (skipn c l)) -> cells h' a = Free) /\
                hhead q' = hhead q /\ htail q' = htail q /\ hcap q' = hcap q /\ fresh h' = fresh h /\
                (forall x, outside q l x -> cells h' x = cells h x).
Proof.
  induction fuel as [|fuel IH]; intros h q l Hwf Hfuel.
  - cbn [h_resize_loop]. assert (Hle : (length l <= c)%nat) by lia.
    rewrite firstn_all2 by exact Hle. rewrite skipn_all2 by exact Hle.
    do 2 eexists. split; [reflexivity|]. split; [exact Hwf|]. split; [intros a []|]. repeat split; reflexivity.
  - cbn [h_resize_loop]. rewrite (idx_len q l (proj1 (proj2 Hwf))).
    destruct (Nat.ltb_spec c (length l)) as [Hlt|Hge].
    + destruct (rev_ind_split l) as [->|(l' & [a [k v]] & ->)]; [cbn in Hlt; lia|].
      rewrite app_length in Hlt, Hfuel. cbn [length] in Hlt, Hfuel.
      pose proof (ch_nodup _ _ _ (proj1 Hwf)) as Hnd0. rewrite addrs_app in Hnd0. cbn [addrs map fst] in Hnd0.
      destruct (nodup_split_facts _ _ _ _ _ Hnd0) as (Hht & Hha & Hta & Hh1 & Hh2 & Ht1 & Ht2 & Ha1 & Ha2 & _).
      destruct (h_remove_lru_some h q l' a k v Hwf) as (h1 & q1 & -> & Hwf1 & Efree & E1 & E2 & E3 & E4 & Hfr1).
      cbn [hbind].
      destruct (IH h1 q1 l' Hwf1 ltac:(lia)) as (h2 & q2 & E & Hwf2 & Hall & F1 & F2 & F3 & F4 & Hfr2).
      rewrite E. do 2 eexists. split; [reflexivity|].
      assert (Hc' : (c <= length l')%nat) by lia.
      rewrite firstn_app. replace (c - length l')%nat with 0%nat by lia. cbn [firstn]. rewrite app_nil_r.
      rewrite skipn_app. replace (c - length l')%nat with 0%nat by lia. cbn [skipn].
      split; [exact Hwf2|].
      split; [|split; [congruence|split; [congruence|split; [congruence|split; [congruence|]]]]].
      * intros x Hx. rewrite addrs_app in Hx. apply in_app_or in Hx. destruct Hx as [Hx|[<-|[]]]; [now apply Hall|].
        rewrite Hfr2; [exact Efree|]. unfold outside. rewrite E1, E2. cbn [fst].
        repeat split; [congruence|congruence|assumption].
      * intros x (Hx1 & Hx2 & Hx3). rewrite Hfr2.
        -- apply Hfr1. repeat split; assumption.
        -- unfold outside. rewrite E1, E2. repeat split; try assumption.
           intros Hin. apply Hx3. rewrite addrs_app. apply in_or_app. now left.
    + rewrite firstn_all2 by exact Hge. rewrite skipn_all2 by exact Hge.
      do 2 eexists. split; [reflexivity|]. split; [exact Hwf|]. split; [intros a []|]. repeat split; reflexivity.
Qed.

Theorem h_resize_ok h q l c :
  wf h q l ->
  exists h' q', h_resize h q c = HOk (h', q') /\
                wf h' q' (if Nat.eqb c (hcap q) then l else firstn c l) /\
                (forall a, In a (addrs (if Nat.eqb c (hcap q) then [] else skipn c l)) -> cells h' a = Free) /\
                hhead q' = hhead q /\ htail q' = htail q /\ hcap q' = c /\ fresh h' = fresh h /\
                (forall x, outside q l x -> cells h' x = cells h x).
Proof.
  intros Hwf. unfold h_resize. destruct (Nat.eqb_spec c (hcap q)) as [->|Hne].
  - do 2 eexists. split; [reflexivity|]. split; [exact Hwf|]. split; [intros a []|]. repeat split; reflexivity.
  - rewrite (idx_len q l (proj1 (proj2 Hwf))).
    destruct (h_resize_loop_ok c (length l) h q l Hwf ltac:(lia)) as (h1 & q1 & -> & Hwf1 & Hall & E1 & E2 & E3 & E4 & Hfr).
    cbn [hbind]. do 2 eexists. split; [reflexivity|].
    split; [eapply wf_descr; [| | |exact Hwf1]; reflexivity|].
    split; [exact Hall|]. repeat split; cbn; assumption.
Qed.

(** ** writes through a returned [&mut V], and the operations that address a node without the index *)
Definition wval (w : option val) (v : val) : val := match w with Some x => x | None => v end.

Lemma h_write_ok h q l1 a k v l2 w :
  wf h q (l1 ++ (a, (k, v)) :: l2) ->
  exists h', h_write h a w = HOk (h', (k, v)) /\ wf h' q (l1 ++ (a, (k, wval w v)) :: l2) /\
             fresh h' = fresh h /\ (forall x, x <> a -> cells h' x = cells h x).
Proof.
  intros (Hc & Hi & Hnd). pose proof (seg_mid _ _ _ _ _ _ _ _ (ch_seg _ _ _ Hc)) as Ecell.
  unfold h_write. rewrite (hread_node _ _ _ _ _ _ Ecell). cbn [hbind].
  destruct w as [w|]; cbn [wval].
  - eexists. split; [reflexivity|]. split; [|split; [apply fresh_hupd|intros x Hx; now apply cells_hupd_other]].
    split; [apply (chain_set_entry h q l1 a (k, v) (k, w) l2 _ _ Hc Ecell)|]. split.
    + unfold idx_ok in *. rewrite map_app in *. exact Hi.
    + rewrite entries_app, keys_app in *. exact Hnd.
  - eexists. split; [reflexivity|]. split; [|split; reflexivity]. split; [exact Hc|split; assumption].
Qed.

Theorem h_peek_mut_hit h q l1 a k v l2 w :
  wf h q (l1 ++ (a, (k, v)) :: l2) ->
  exists h', h_peek_mut h q k w = HOk (h', Some v) /\ wf h' q (l1 ++ (a, (k, wval w v)) :: l2) /\
             fresh h' = fresh h /\ (forall x, x <> a -> cells h' x = cells h x).
Proof.
  intros Hwf. unfold h_peek_mut.
  rewrite (idx_find_hit h q _ a k v Hwf) by (apply in_or_app; right; now left). cbn [hbind].
  destruct (h_write_ok h q l1 a k v l2 w Hwf) as (h' & -> & Hwf' & Ef & Hfr). cbn [hbind snd].
  eexists. split; [reflexivity|]. auto.
Qed.

Theorem h_peek_mut_miss h q l k w :
  wf h q l -> Base.find k (entries l) = None -> h_peek_mut h q k w = HOk (h, None).
Proof. intros Hwf Hf. unfold h_peek_mut. now rewrite (idx_find_miss h q l k Hwf Hf). Qed.

Theorem h_contains_ok h q l k :
  wf h q l -> h_contains h q k = HOk (mem k (entries l)).
Proof.
  intros Hwf. unfold h_contains, mem. destruct (Base.find k (entries l)) as [v|] eqn:Hf.
  - apply find_some_in in Hf. unfold entries in Hf. apply in_map_iff in Hf. destruct Hf as ([a e] & E & Hin).
    cbn [snd] in E. subst e. now rewrite (idx_find_hit h q l a k v Hwf Hin).
  - now rewrite (idx_find_miss h q l k Hwf Hf).
Qed.

Lemma idx_empty_iff q l : idx_ok q l -> (length (hidx q) =? 0) = true <-> l = [].
Proof.
  intros Hi. rewrite (idx_len q l Hi). rewrite Nat.eqb_eq. destruct l; cbn; split; congruence || lia.
Qed.

Theorem h_get_lru_some h q l a k v w :
  wf h q (l ++ [(a, (k, v))]) ->
  exists h', h_get_lru h q w = HOk (h', Some (k, v)) /\ wf h' q ((a, (k, wval w v)) :: l) /\ fresh h' = fresh h /\
             (forall x, outside q (l ++ [(a, (k, v))]) x -> cells h' x = cells h x).
Proof.
  intros Hwf. pose proof Hwf as (Hc & Hi & Hnd). unfold h_get_lru.
  destruct (length (hidx q) =? 0) eqn:E0.
  { apply (idx_empty_iff q _ Hi) in E0. destruct l; discriminate. }
  rewrite (tail_prev_last h q l a (k, v) Hc). cbn [hbind].
  destruct (detach_chain h q l a (k, v) [] Hc) as (h1 & -> & Hc1 & Ea & Ef1 & Hfr1). cbn [hbind].
  rewrite app_nil_r in Hc1, Hfr1.
  pose proof (seg_mid _ _ _ _ _ _ _ _ (ch_seg _ _ _ Hc)) as Ecell. rewrite <- Ea in Ecell.
  pose proof (ch_nodup _ _ _ Hc) as Hnd0. rewrite addrs_app in Hnd0. cbn [addrs map fst] in Hnd0.
  destruct (nodup_split_facts _ _ _ _ _ Hnd0) as (Hht & Hha & Hta & Hh1 & Hh2 & Ht1 & Ht2 & Ha1 & Ha2 & _).
  assert (Hnotin : ~ In a (hhead q :: htail q :: addrs l)).
  { cbn [In]. intros [E|[E|H]]; congruence || contradiction. }
  assert (Hlt : a < fresh h1).
  { rewrite Ef1. apply (ch_fresh _ _ _ Hc). right. right. rewrite addrs_app. apply in_or_app. right. now left. }
  destruct (attach_chain h1 q l a k v _ _ Hc1 Hnotin Hlt Ecell) as (h2 & -> & Hc2 & Ef2 & Hfr2). cbn [hbind].
  assert (Hwf2 : wf h2 q ([] ++ (a, (k, v)) :: l)).
  { split; [exact Hc2|]. split.
    - rewrite <- (app_nil_r l). eapply wf_perm_front; eauto.
    - rewrite <- (app_nil_r l). eapply keys_perm_front; eauto. }
  destruct (h_write_ok h2 q [] a k v l w Hwf2) as (h3 & -> & Hwf3 & Ef3 & Hfr3). cbn [hbind].
  eexists. split; [reflexivity|]. split; [exact Hwf3|]. split; [congruence|].
  intros x Hx. apply outside_split in Hx. destruct Hx as (X1 & X2 & X3 & X4). rewrite app_nil_r in X4.
  rewrite Hfr3 by assumption. rewrite Hfr2 by assumption. now apply Hfr1.
Qed.

Theorem h_get_lru_none h q w : wf h q [] -> h_get_lru h q w = HOk (h, None).
Proof.
  intros (_ & Hi & _). unfold h_get_lru.
  replace (length (hidx q) =? 0) with true; [reflexivity|]. symmetry. now apply (idx_empty_iff q []).
Qed.

Theorem h_peek_lru_some h q l a k v w :
  wf h q (l ++ [(a, (k, v))]) ->
  exists h', h_peek_lru h q w = HOk (h', Some (k, v)) /\ wf h' q (l ++ [(a, (k, wval w v))]) /\ fresh h' = fresh h /\
             (forall x, x <> a -> cells h' x = cells h x).
Proof.
  intros Hwf. pose proof Hwf as (Hc & Hi & Hnd). unfold h_peek_lru.
  destruct (length (hidx q) =? 0) eqn:E0.
  { apply (idx_empty_iff q _ Hi) in E0. destruct l; discriminate. }
  rewrite (tail_prev_last h q l a (k, v) Hc). cbn [hbind].
  destruct (h_write_ok h q l a k v [] w Hwf) as (h' & -> & Hwf' & Ef & Hfr). cbn [hbind].
  eexists. split; [reflexivity|]. auto.
Qed.

Theorem h_peek_lru_none h q w : wf h q [] -> h_peek_lru h q w = HOk (h, None).
Proof.
  intros (_ & Hi & _). unfold h_peek_lru.
  replace (length (hidx q) =? 0) with true; [reflexivity|]. symmetry. now apply (idx_empty_iff q []).
Qed.

Theorem h_peek_mru_some h q a k v l w :
  wf h q ((a, (k, v)) :: l) ->
  exists h', h_peek_mru h q w = HOk (h', Some (k, v)) /\ wf h' q ((a, (k, wval w v)) :: l) /\ fresh h' = fresh h /\
             (forall x, x <> a -> cells h' x = cells h x).
Proof.
  intros Hwf. pose proof Hwf as (Hc & Hi & Hnd). unfold h_peek_mru.
  destruct (length (hidx q) =? 0) eqn:E0.
  { apply (idx_empty_iff q _ Hi) in E0. discriminate. }
  destruct (ch_head _ _ _ Hc) as [hp Eh]. cbn [first_addr] in Eh.
  rewrite (hread_node _ _ _ _ _ _ Eh). cbn [hbind].
  destruct (h_write_ok h q [] a k v l w Hwf) as (h' & -> & Hwf' & Ef & Hfr). cbn [hbind].
  eexists. split; [reflexivity|]. auto.
Qed.

Theorem h_peek_mru_none h q w : wf h q [] -> h_peek_mru h q w = HOk (h, None).
Proof.
  intros (_ & Hi & _). unfold h_peek_mru.
  replace (length (hidx q) =? 0) with true; [reflexivity|]. symmetry. now apply (idx_empty_iff q []).
Qed.
