(** * Layer H — AdaptiveCache on the heap refines Arc.v: every operation keeps the four-list family (no
    memory error, nodes migrate between the lists without being freed or copied), every history is safe,
    Drop frees every cell. *)
From VF Require Import Base Lru Arc BaseFacts LruFacts Counts PrimFacts Tactics ArcFacts
  Iter CacheStep Heap HeapIterDef HeapArcDef HeapFacts HeapOps HeapRun HeapPrim HeapFrame HeapMulti HeapRefine HeapIter.
From Coq Require Import List Arith Lia Permutation.
Import ListNotations.
Local Open Scope nat_scope.

Definition RA (h : heap) (s : harc) (ls : arc) (fl : list (addr * entry)) : Prop :=
  exists l1 g1 l2 g2, fam h [(ha_t1 s, l1); (ha_b1 s, g1); (ha_t2 s, l2); (ha_b2 s, g2)] fl /\
    Rl (ha_t1 s) l1 (t1 ls) /\ Rl (ha_b1 s) g1 (b1 ls) /\ Rl (ha_t2 s) l2 (t2 ls) /\ Rl (ha_b2 s) g2 (b2 ls) /\
    ha_size s = asize ls /\ ha_p s = ap ls.

Ltac conj_split := repeat match goal with |- _ /\ _ => split end.

Lemma Rl_len q l p h F1 F2 fl : fam h (F1 ++ (q, l) :: F2) fl -> Rl q l p -> length (hidx q) = llen p.
Proof.
  intros Hf (El & _). pose proof (fam_member _ _ _ _ _ _ Hf) as (_ & Hi & _).
  rewrite (idx_len q l Hi). unfold llen. now rewrite <- El, entries_length.
Qed.

Ltac czero Hd key :=
  let H := fresh in pose proof (Hd key) as H; norm; eqb_cases; lia.

Ltac ra_close a b c d :=
  exists a, b, c, d; cbn [ha_size ha_p ha_t1 ha_b1 ha_t2 ha_b2 asize ap t1 b1 t2 b2];
  conj_split; try assumption; try reflexivity; try (split; assumption).

(** ** [replace], with any nodes in flight *)
Lemma replace_refines h s ls fl b :
  RA h s ls fl -> arc_inv ls -> 1 <= llen (t1 ls) + llen (t2 ls) ->
  exists h' s' ls', ha_replace h s b = HOk (h', s') /\ areplace ls b = Ok ls' /\ RA h' s' ls' fl /\ fresh h' = fresh h.
Proof.
  intros (l1 & g1 & l2 & g2 & Hf & HR1 & HRb1 & HR2 & HRb2 & Es & Ep) Hinv Hne.
  destruct s as [sz p q1 qb1 q2 qb2]. destruct ls as [lsz lp pt1 pb1 pt2 pb2].
  cbn [ha_size ha_p ha_t1 ha_b1 ha_t2 ha_b2 asize ap t1 b1 t2 b2] in *. subst lsz lp.
  pose proof Hinv as (Hs & Hc1 & Hc2 & Hc3 & Hc4 & Hp & Hr & Hg1 & Hg2 & Hd). proj.
  unfold ha_replace, areplace. proj. cbn [ha_size ha_p ha_t1 ha_b1 ha_t2 ha_b2].
  rewrite (Rl_len q1 l1 pt1 h [] [(qb1, g1); (q2, l2); (qb2, g2)] fl Hf HR1).
  rewrite (Rl_len q2 l2 pt2 h [(q1, l1); (qb1, g1)] [(qb2, g2)] fl Hf HR2).
  match goal with |- context [if ?c then _ else _] => destruct c eqn:Ec end.
  - pose proof (ref_remove_lru_in h [] q1 l1 [(qb1, g1); (q2, l2); (qb2, g2)] fl pt1 Hf HR1) as H1.
    destruct (remove_lru_in pt1) as [pt1' [[vk vv]|]].
    + destruct H1 as (h1 & q1' & l1' & a & -> & Hf1 & HR1' & _ & _ & Ef1 & Hit & Hcap). cbn [hbind].
      assert (Hkb : cntl (items pb1) vk = 0) by (rewrite Hit in Hd; czero Hd vk).
      destruct (ref_put_nonnull h1 [(q1', l1')] qb1 g1 [(q2, l2); (qb2, g2)] [] a vk vv fl pb1 Hf1 HRb1 ltac:(lia) Hkb)
        as (pb1' & ev & h2 & qb1' & g1' & -> & Ecb & -> & Hf2 & HRb1' & _ & _ & Ef2 & _). cbn [hbind bind app] in *.
      do 3 eexists. split; [reflexivity|]. split; [reflexivity|]. split; [|congruence].
      ra_close l1' g1' l2 g2.
    + destruct H1 as (-> & -> & Hemp). cbn [hbind].
      do 3 eexists. split; [reflexivity|]. split; [reflexivity|]. split; [|reflexivity].
      ra_close l1 g1 l2 g2.
  - pose proof (ref_remove_lru_in h [(q1, l1); (qb1, g1)] q2 l2 [(qb2, g2)] fl pt2 Hf HR2) as H1.
    destruct (remove_lru_in pt2) as [pt2' [[vk vv]|]].
    + destruct H1 as (h1 & q2' & l2' & a & -> & Hf1 & HR2' & _ & _ & Ef1 & Hit & Hcap). cbn [hbind].
      assert (Hkb : cntl (items pb2) vk = 0) by (rewrite Hit in Hd; czero Hd vk).
      destruct (ref_put_nonnull h1 [(q1, l1); (qb1, g1); (q2', l2')] qb2 g2 [] [] a vk vv fl pb2 Hf1 HRb2 ltac:(lia) Hkb)
        as (pb2' & ev & h2 & qb2' & g2' & -> & Ecb & -> & Hf2 & HRb2' & _ & _ & Ef2 & _). cbn [hbind bind app] in *.
      do 3 eexists. split; [reflexivity|]. split; [reflexivity|]. split; [|congruence].
      ra_close l1 g1 l2' g2'.
    + destruct H1 as (-> & -> & Hemp). cbn [hbind].
      do 3 eexists. split; [reflexivity|]. split; [reflexivity|]. split; [|reflexivity].
      ra_close l1 g1 l2 g2.
Qed.

(** ** the layer-L state after a ghost has been taken out of its list *)
Lemma arc_inv_ghost1 s k old p' :
  arc_inv s -> Base.find k (items (b1 s)) = Some old -> p' <= asize s ->
  let s1 := mkArc (asize s) p' (t1 s) (with_items (b1 s) (remove_key k (items (b1 s)))) (t2 s) (b2 s) in
  arc_inv s1 /\ asum s1 k = 0.
Proof.
  intros (Hs & Hc1 & Hc2 & Hc3 & Hc4 & Hp & Hr & Hg1 & Hg2 & Hd) Hf Hp'. cbn zeta.
  pose proof (cntl_find_some _ _ _ Hf) as Hpos. pose proof (length_remove_key_in _ _ Hpos) as Hlen.
  split.
  - unfold arc_inv. proj. unfold llen in *. cbn [with_items items cap]. conj_split; try lia.
    intros x. rewrite cntl_remove_key. specialize (Hd x). lia.
  - unfold asum. proj. rewrite cntl_remove_key, ind_eqb_refl. specialize (Hd k). lia.
Qed.

Lemma arc_inv_ghost2 s k old p' :
  arc_inv s -> Base.find k (items (b2 s)) = Some old -> p' <= asize s ->
  let s1 := mkArc (asize s) p' (t1 s) (b1 s) (t2 s) (with_items (b2 s) (remove_key k (items (b2 s)))) in
  arc_inv s1 /\ asum s1 k = 0.
Proof.
  intros (Hs & Hc1 & Hc2 & Hc3 & Hc4 & Hp & Hr & Hg1 & Hg2 & Hd) Hf Hp'. cbn zeta.
  pose proof (cntl_find_some _ _ _ Hf) as Hpos. pose proof (length_remove_key_in _ _ Hpos) as Hlen.
  split.
  - unfold arc_inv. proj. unfold llen in *. cbn [with_items items cap]. conj_split; try lia.
    intros x. rewrite cntl_remove_key. specialize (Hd x). lia.
  - unfold asum. proj. rewrite cntl_remove_key, ind_eqb_refl. specialize (Hd k). lia.
Qed.

(** the common tail of the two ghost-hit paths: maybe [replace], then the revived node enters the frequent list *)
Lemma ghost_tail h s1 ls1 a k v (full : bool) b :
  RA h s1 ls1 [(a, (k, v))] -> arc_inv ls1 -> asum ls1 k = 0 ->
  (full = true -> 1 <= llen (t1 ls1) + llen (t2 ls1)) ->
  exists h4 s2 ls2 h5 t2' pt2' ev,
    (if full then ha_replace h s1 b else HOk (h, s1)) = HOk (h4, s2) /\
    (if full then areplace ls1 b else Ok ls1) = Ok ls2 /\
    h_put_nonnull h4 (ha_t2 s2) a = HOk (h5, t2', ev) /\
    put_nonnull (t2 ls2) (k, v) = Ok (pt2', ev) /\
    RA h5 (mkHarc (ha_size s2) (ha_p s2) (ha_t1 s2) (ha_b1 s2) t2' (ha_b2 s2))
          (mkArc (asize ls2) (ap ls2) (t1 ls2) (b1 ls2) pt2' (b2 ls2)) [].
Proof.
  intros HR Hinv Hk Hne.
  assert (Hmid : exists h4 s2 ls2, (if full then ha_replace h s1 b else HOk (h, s1)) = HOk (h4, s2) /\
                   (if full then areplace ls1 b else Ok ls1) = Ok ls2 /\ RA h4 s2 ls2 [(a, (k, v))] /\
                   arc_inv ls2 /\ asum ls2 k = 0).
  { destruct full.
    - destruct (replace_refines h s1 ls1 _ b HR Hinv (Hne eq_refl)) as (h4 & s2 & ls2 & E1 & E2 & HR2 & _).
      destruct (areplace_ok ls1 b Hinv (Hne eq_refl)) as (ls2' & E2' & Hinv2 & _ & _ & _ & Hle).
      rewrite E2 in E2'. inversion E2'; subst ls2'. exists h4, s2, ls2. conj_split; auto.
      specialize (Hle k). lia.
    - exists h, s1, ls1. auto. }
  destruct Hmid as (h4 & s2 & ls2 & E1 & E2 & HR2 & Hinv2 & Hk2).
  destruct HR2 as (l1 & g1 & l2 & g2 & Hf & HR1 & HRb1 & HRt2 & HRb2 & Es & Ep).
  pose proof Hinv2 as (Hs & Hc1 & Hc2 & Hc3 & Hc4 & Hp & Hr & Hg1 & Hg2 & Hd).
  assert (Hk2' : cntl (items (t2 ls2)) k = 0) by (unfold asum in Hk2; lia).
  destruct (ref_put_nonnull h4 [(ha_t1 s2, l1); (ha_b1 s2, g1)] (ha_t2 s2) l2 [(ha_b2 s2, g2)] [] a k v [] (t2 ls2)
              Hf HRt2 ltac:(lia) Hk2')
    as (pt2' & ev & h5 & t2' & l2' & Epn & Ecap & Ehn & Hf5 & HRt2' & _). cbn [app] in *.
  exists h4, s2, ls2, h5, t2', pt2', ev. conj_split; auto.
  exists l1, g1, l2', g2. cbn [ha_size ha_p ha_t1 ha_b1 ha_t2 ha_b2 asize ap t1 b1 t2 b2]. conj_split; auto.
Qed.

Lemma fam_remove_lru h F1 q l F2 fl s :
  fam h (F1 ++ (q, l) :: F2) fl -> entries l = items s -> hcap q = cap s ->
  exists h' q' l', h_remove_lru h q = HOk (h', q', snd (fst (Lru.remove_lru s))) /\
                   fam_res h F1 q F2 fl h' q' l' (fst (fst (Lru.remove_lru s))).
Proof.
  intros Hf El Ec. destruct (fam_step h F1 q l F2 fl s HRemoveLru Hf El Ec) as (h' & q' & l' & E & R).
  cbn [hstep lstep] in *. destruct (h_remove_lru h q) as [[[h1 q1] r1]|e]; cbn [hbind] in E; [|discriminate].
  destruct (Lru.remove_lru s) as [[s1 r] cbs]. cbn [fst snd] in *. inversion E; subst.
  exists h', q', l'. split; [reflexivity|exact R].
Qed.

(** ** put *)
Theorem ha_put_refines h s ls k v :
  RA h s ls [] -> arc_inv ls ->
  exists h' s' ls' r, ha_put h s k v = HOk (h', s', r) /\ aput ls k v = Ok (ls', r) /\ RA h' s' ls' [].
Proof.
  intros HR Hinv. pose proof HR as (l1 & g1 & l2 & g2 & Hf & HR1 & HRb1 & HR2 & HRb2 & Es & Ep).
  destruct s as [sz p q1 qb1 q2 qb2]. destruct ls as [lsz lp pt1 pb1 pt2 pb2].
  cbn [ha_size ha_p ha_t1 ha_b1 ha_t2 ha_b2 asize ap t1 b1 t2 b2] in *. subst lsz lp.
  pose proof Hinv as (Hs & Hc1 & Hc2 & Hc3 & Hc4 & Hp & Hr & Hg1 & Hg2 & Hd). proj.
  unfold ha_put, aput. proj. cbn [ha_size ha_p ha_t1 ha_b1 ha_t2 ha_b2].
  pose proof (ref_remove_ent h [] q1 l1 [(qb1, g1); (q2, l2); (qb2, g2)] [] pt1 k Hf HR1) as Hre.
  destruct (remove_ent pt1 k) as [pt1' [[k0 old]|]].
  - (* recent hit: promoted *)
    destruct Hre as (h1 & q1' & l1' & a & -> & Hf1 & HR1' & _ & _ & _ & Ek & Hfo & Hit1 & Hcap1).
    cbn [fst snd hbind] in *. subst k0.
    destruct (ref_swap_value h1 _ [] a k old [] v Hf1) as (h2 & -> & Hf2 & _). cbn [hbind app] in *.
    assert (Hk2 : cntl (items pt2) k = 0) by (pose proof (cntl_find_some _ _ _ Hfo); czero Hd k).
    destruct (ref_put_nonnull h2 [(q1', l1'); (qb1, g1)] q2 l2 [(qb2, g2)] [] a k v [] pt2 Hf2 HR2 ltac:(lia) Hk2)
      as (pt2' & ev & h3 & q2' & l2' & -> & _ & -> & Hf3 & HR2' & _). cbn [hbind bind app] in *.
    do 4 eexists. split; [reflexivity|]. split; [reflexivity|]. ra_close l1' g1 l2' g2.
  - destruct Hre as (-> & -> & Hn1). cbn [hbind].
    pose proof (ref_update h [(q1, l1); (qb1, g1)] q2 l2 [(qb2, g2)] [] pt2 k v Hf HR2) as Hu.
    destruct (update pt2 k v) as [pt2' [old|]].
    + (* frequent hit *)
      destruct Hu as (a & h' & l2' & Ei & Eu & Hf' & HR2' & _). rewrite Ei. cbn [hbind]. rewrite Eu. cbn [hbind].
      do 4 eexists. split; [reflexivity|]. split; [reflexivity|]. ra_close l1 g1 l2' g2.
    + destruct Hu as (-> & -> & Hn2). cbn [hbind].
      rewrite (fam_contains h [(q1, l1)] qb1 g1 [(q2, l2); (qb2, g2)] [] pb1 k Hf (proj1 HRb1)). cbn [hbind].
      rewrite (Rl_len q1 l1 pt1 h [] [(qb1, g1); (q2, l2); (qb2, g2)] [] Hf HR1).
      rewrite (Rl_len q2 l2 pt2 h [(q1, l1); (qb1, g1)] [(qb2, g2)] [] Hf HR2).
      rewrite (Rl_len qb1 g1 pb1 h [(q1, l1)] [(q2, l2); (qb2, g2)] [] Hf HRb1).
      rewrite (Rl_len qb2 g2 pb2 h [(q1, l1); (qb1, g1); (q2, l2)] [] [] Hf HRb2).
      destruct (contains pb1 k) eqn:Ec1.
      * (* ghost of the recent list *)
        pose proof (ref_remove_ent h [(q1, l1)] qb1 g1 [(q2, l2); (qb2, g2)] [] pb1 k Hf HRb1) as Hre2.
        destruct (remove_ent_spec pb1 k) as [[Hn _]|(old & Ho & Eg)].
        { exfalso. unfold contains in Ec1. rewrite mem_cntl in Ec1. apply cntl_find_none in Hn. rewrite Hn in Ec1. discriminate. }
        rewrite Eg in *. destruct Hre2 as (h2 & qb1' & g1' & a & -> & Hf2 & HRb1' & _). cbn [hbind] in *.
        destruct (ref_swap_value h2 _ [] a k old [] v Hf2) as (h3 & -> & Hf3 & _). cbn [hbind app] in *.
        set (p' := if sz <=? p + (if llen pb1 <? llen pb2 then llen pb2 / llen pb1 else 1) then sz
                   else p + (if llen pb1 <? llen pb2 then llen pb2 / llen pb1 else 1)).
        assert (Hp' : p' <= sz) by (subst p'; destruct (Nat.leb_spec sz (p + (if llen pb1 <? llen pb2 then llen pb2 / llen pb1 else 1))); lia).
        destruct (arc_inv_ghost1 (mkArc sz p pt1 pb1 pt2 pb2) k old p' Hinv Ho Hp') as (Hinv1 & Hsum1). proj.
        assert (HR1s : RA h3 (mkHarc sz p' q1 qb1' q2 qb2)
                          (mkArc sz p' pt1 (with_items pb1 (remove_key k (items pb1))) pt2 pb2) [(a, (k, v))])
          by (ra_close l1 g1' l2 g2).
        destruct (ghost_tail h3 _ _ a k v (sz <=? llen pt1 + llen pt2) false HR1s Hinv1 Hsum1)
          as (h4 & s2 & ls2 & h5 & t2' & pt2'' & ev & E1 & E2 & E3 & E4 & HRfin).
        { intros Hfull. apply Nat.leb_le in Hfull. proj. lia. }
        rewrite E1, E2. cbn [hbind bind]. rewrite E3, E4. cbn [hbind bind].
        do 4 eexists. split; [reflexivity|]. split; [reflexivity|]. exact HRfin.
      * rewrite (fam_contains h [(q1, l1); (qb1, g1); (q2, l2)] qb2 g2 [] [] pb2 k Hf (proj1 HRb2)). cbn [hbind].
        destruct (contains pb2 k) eqn:Ec2.
        -- (* ghost of the frequent list *)
           pose proof (ref_remove_ent h [(q1, l1); (qb1, g1); (q2, l2)] qb2 g2 [] [] pb2 k Hf HRb2) as Hre2.
           destruct (remove_ent_spec pb2 k) as [[Hn _]|(old & Ho & Eg)].
           { exfalso. unfold contains in Ec2. rewrite mem_cntl in Ec2. apply cntl_find_none in Hn. rewrite Hn in Ec2. discriminate. }
           rewrite Eg in *. destruct Hre2 as (h2 & qb2' & g2' & a & -> & Hf2 & HRb2' & _). cbn [hbind] in *.
           destruct (ref_swap_value h2 _ [] a k old [] v Hf2) as (h3 & -> & Hf3 & _). cbn [hbind app] in *.
           set (p' := if p <=? (if llen pb2 <? llen pb1 then llen pb1 / llen pb2 else 1) then 0
                      else p - (if llen pb2 <? llen pb1 then llen pb1 / llen pb2 else 1)).
           assert (Hp' : p' <= sz) by (subst p'; destruct (Nat.leb_spec p (if llen pb2 <? llen pb1 then llen pb1 / llen pb2 else 1)); lia).
           destruct (arc_inv_ghost2 (mkArc sz p pt1 pb1 pt2 pb2) k old p' Hinv Ho Hp') as (Hinv1 & Hsum1). proj.
           assert (HR1s : RA h3 (mkHarc sz p' q1 qb1 q2 qb2')
                             (mkArc sz p' pt1 pb1 pt2 (with_items pb2 (remove_key k (items pb2)))) [(a, (k, v))])
             by (ra_close l1 g1 l2 g2').
           destruct (ghost_tail h3 _ _ a k v (sz <=? llen pt1 + llen pt2) true HR1s Hinv1 Hsum1)
             as (h4 & s2 & ls2 & h5 & t2' & pt2'' & ev & E1 & E2 & E3 & E4 & HRfin).
           { intros Hfull. apply Nat.leb_le in Hfull. proj. lia. }
           rewrite E1, E2. cbn [hbind bind]. rewrite E3, E4. cbn [hbind bind].
           do 4 eexists. split; [reflexivity|]. split; [reflexivity|]. exact HRfin.
        -- (* a new key *)
           assert (Hmid : exists h2 s1 ls1,
                     (if sz <=? llen pt1 + llen pt2 then ha_replace h (mkHarc sz p q1 qb1 q2 qb2) false
                      else HOk (h, mkHarc sz p q1 qb1 q2 qb2)) = HOk (h2, s1) /\
                     (if sz <=? llen pt1 + llen pt2 then areplace (mkArc sz p pt1 pb1 pt2 pb2) false
                      else Ok (mkArc sz p pt1 pb1 pt2 pb2)) = Ok ls1 /\ RA h2 s1 ls1 [] /\ ha_size s1 = sz /\ ha_p s1 = p).
           { destruct (Nat.leb_spec sz (llen pt1 + llen pt2)) as [Hfull|Hroom].
             - destruct (replace_refines h _ _ [] false HR Hinv ltac:(proj; lia)) as (h2 & s1 & ls1 & E1 & E2 & HR1s & _).
               exists h2, s1, ls1. conj_split; auto.
               + unfold ha_replace in E1. cbn [ha_size ha_p ha_t1 ha_b1 ha_t2 ha_b2] in E1.
                 repeat match type of E1 with context [if ?c then _ else _] => destruct c end;
                 repeat match type of E1 with context [hbind ?r _] => destruct r as [[[? ?] [?|]]|?]; cbn [hbind] in E1 end;
                 repeat match type of E1 with context [hbind ?r _] => destruct r as [[[? ?] ?]|?]; cbn [hbind] in E1 end;
                 try discriminate; inversion E1; reflexivity.
               + unfold ha_replace in E1. cbn [ha_size ha_p ha_t1 ha_b1 ha_t2 ha_b2] in E1.
                 repeat match type of E1 with context [if ?c then _ else _] => destruct c end;
                 repeat match type of E1 with context [hbind ?r _] => destruct r as [[[? ?] [?|]]|?]; cbn [hbind] in E1 end;
                 repeat match type of E1 with context [hbind ?r _] => destruct r as [[[? ?] ?]|?]; cbn [hbind] in E1 end;
                 try discriminate; inversion E1; reflexivity.
             - exists h, (mkHarc sz p q1 qb1 q2 qb2), (mkArc sz p pt1 pb1 pt2 pb2). auto. }
           destruct Hmid as (h2 & s1 & ls1 & E1 & E2 & HR1s & Esz1 & Ep1). rewrite E1, E2. cbn [hbind bind].
           destruct HR1s as (m1 & n1 & m2 & n2 & Hf2 & HRa & HRb & HRc & HRd & Es1 & Ep1').
           destruct s1 as [sz1 p1 r1 rb1 r2 rb2]. destruct ls1 as [lsz1 lp1 u1 ub1 u2 ub2].
           cbn [ha_size ha_p ha_t1 ha_b1 ha_t2 ha_b2 asize ap t1 b1 t2 b2] in *. subst sz1 p1.
           (* trim the first ghost list *)
           assert (Htr1 : exists h3 rb1' n1',
                     (if sz - p <? llen pb1 then hdo (h', q', _) <- h_remove_lru h2 rb1; HOk (h', q') else HOk (h2, rb1)) = HOk (h3, rb1') /\
                     fam h3 [(r1, m1); (rb1', n1'); (r2, m2); (rb2, n2)] [] /\
                     Rl rb1' n1' (if sz - p <? llen pb1 then fst (fst (Lru.remove_lru ub1)) else ub1)).
           { destruct (sz - p <? llen pb1).
             - destruct (fam_remove_lru h2 [(r1, m1)] rb1 n1 [(r2, m2); (rb2, n2)] [] ub1 Hf2 (proj1 HRb) (proj2 HRb))
                 as (h3 & rb1' & n1' & -> & Hf3 & En & Ecn & _). cbn [hbind app] in *. exists h3, rb1', n1'. conj_split; auto. split; auto.
             - exists h2, rb1, n1. auto. }
           destruct Htr1 as (h3 & rb1' & n1' & -> & Hf3 & HRb'). cbn [hbind].
           assert (Htr2 : exists h4 rb2' n2',
                     (if p <? llen pb2 then hdo (h', q', _) <- h_remove_lru h3 rb2; HOk (h', q') else HOk (h3, rb2)) = HOk (h4, rb2') /\
                     fam h4 [(r1, m1); (rb1', n1'); (r2, m2); (rb2', n2')] [] /\
                     Rl rb2' n2' (if p <? llen pb2 then fst (fst (Lru.remove_lru ub2)) else ub2)).
           { destruct (p <? llen pb2).
             - destruct (fam_remove_lru h3 [(r1, m1); (rb1', n1'); (r2, m2)] rb2 n2 [] [] ub2 Hf3 (proj1 HRd) (proj2 HRd))
                 as (h4 & rb2' & n2' & -> & Hf4 & En & Ecn & _). cbn [hbind app] in *. exists h4, rb2', n2'. conj_split; auto. split; auto.
             - exists h3, rb2, n2. auto. }
           destruct Htr2 as (h4 & rb2' & n2' & -> & Hf4 & HRd'). cbn [hbind].
           destruct (fam_put h4 [] r1 m1 [(rb1', n1'); (r2, m2); (rb2', n2')] [] u1 k v Hf4 (proj1 HRa) (proj2 HRa))
             as (h5 & r1' & m1' & -> & Hf5 & Em & Ecm & _). cbn [hbind app] in *.
           destruct (Lru.put u1 k v) as [[u1' r] cbs]. cbn [fst snd] in *.
           do 4 eexists. split; [reflexivity|]. split; [reflexivity|].
           exists m1', n1', m2, n2'. cbn [ha_size ha_p ha_t1 ha_b1 ha_t2 ha_b2 asize ap t1 b1 t2 b2].
           conj_split; auto; try (split; assumption).
Qed.

(** ** get / get_mut *)
Theorem ha_get_mut_refines h s ls k w :
  RA h s ls [] -> arc_inv ls ->
  exists h' s' ls' r, ha_get_mut h s k w = HOk (h', s', r) /\ aget_mut ls k w = Ok (ls', r) /\ RA h' s' ls' [].
Proof.
  intros HR Hinv. pose proof HR as (l1 & g1 & l2 & g2 & Hf & HR1 & HRb1 & HR2 & HRb2 & Es & Ep).
  destruct s as [sz p q1 qb1 q2 qb2]. destruct ls as [lsz lp pt1 pb1 pt2 pb2].
  cbn [ha_size ha_p ha_t1 ha_b1 ha_t2 ha_b2 asize ap t1 b1 t2 b2] in *. subst lsz lp.
  pose proof Hinv as (Hs & Hc1 & Hc2 & Hc3 & Hc4 & Hp & Hr & Hg1 & Hg2 & Hd). proj.
  unfold ha_get_mut, aget_mut. proj. cbn [ha_size ha_p ha_t1 ha_b1 ha_t2 ha_b2].
  rewrite (fam_peek h [] q1 l1 [(qb1, g1); (q2, l2); (qb2, g2)] [] pt1 k Hf (proj1 HR1)). cbn [hbind]. unfold peek.
  pose proof (ref_remove_ent h [] q1 l1 [(qb1, g1); (q2, l2); (qb2, g2)] [] pt1 k Hf HR1) as Hre.
  destruct (remove_ent_spec pt1 k) as [[Hn Er]|(v0 & Hv0 & Er)]; rewrite Er in *.
  - rewrite Hn.
    destruct (fam_get_mut h [(q1, l1); (qb1, g1)] q2 l2 [(qb2, g2)] [] pt2 k w Hf (proj1 HR2) (proj2 HR2))
      as (h1 & l2' & -> & Hf1 & E2 & Ec2 & _). cbn [hbind app] in *.
    destruct (Lru.get_mut pt2 k w) as [pt2' r]. cbn [fst snd] in *.
    do 4 eexists. split; [reflexivity|]. split; [reflexivity|]. ra_close l1 g1 l2' g2.
  - rewrite Hv0. destruct Hre as (h1 & q1' & l1' & a & -> & Hf1 & HR1' & _ & _ & _ & _ & _ & Hit1 & Hcap1). cbn [hbind fst snd] in *.
    assert (Hk2 : cntl (items pt2) k = 0) by (pose proof (cntl_find_some _ _ _ Hv0); czero Hd k).
    pose proof (cntl_find_some _ _ _ Hv0) as Hpos. pose proof (length_remove_key_in _ _ Hpos) as Hlen.
    destruct (ref_put_or_evict h1 [(q1', l1'); (qb1, g1)] q2 l2 [(qb2, g2)] [] a k v0 [] pt2 Hf1 HR2 ltac:(lia) Hk2)
      as (pt2' & ev & Epe & Ecap & Hev).
    destruct ev as [e|]; [destruct Hev as (_ & _ & _ & _ & _ & _ & _ & _ & _ & _ & _ & Hge); unfold llen in *; lia|].
    destruct Hev as (h2 & q2' & l2' & Ehp & Hf2 & HR2' & _ & _ & _ & Hit' & Hlt & ->).
    (* put_nonnull = put_or_evict_nonnull when nothing is pushed out *)
    assert (Ehn : h_put_nonnull h1 q2 a = HOk (h2, q2', None)) by (unfold h_put_nonnull; now rewrite Ehp).
    rewrite Ehn. cbn [hbind app] in *.
    pose proof (fam_member h2 [(q1', l1'); (qb1, g1)] q2' _ [(qb2, g2)] [] Hf2) as Hwf2.
    destruct (h_write_ok h2 q2' [] a k v0 l2 w Hwf2) as (h3 & -> & Hwf3 & Ef3 & Hfr3). cbn [hbind snd app] in *.
    assert (HF : framed h2 q2' ((a, (k, v0)) :: l2) h3 q2' ((a, (k, wval w v0)) :: l2)).
    { apply framed_same; auto; [intros y; cbn [addrs map fst]; tauto|].
      intros x (_ & _ & C). apply Hfr3. intros ->. apply C. now left. }
    pose proof (fam_framed h2 [(q1', l1'); (qb1, g1)] q2' _ [(qb2, g2)] [] h3 q2' _ Hf2 HF) as Hf3.
    destruct (put_nonnull_spec pt2 (k, wval w v0) ltac:(lia)) as [[_ E1]|[Hge _]]; [|unfold llen in *; lia].
    unfold wval in E1. rewrite E1. cbn [bind].
    do 4 eexists. split; [reflexivity|]. split; [reflexivity|].
    exists l1', g1, ((a, (k, wval w v0)) :: l2), g2. cbn [ha_size ha_p ha_t1 ha_b1 ha_t2 ha_b2 asize ap t1 b1 t2 b2].
    conj_split; auto.
    split; [cbn [with_items items entries map snd]; unfold wval; f_equal; apply HR2|cbn [with_items cap]; destruct HR2'; destruct HR2; congruence].
Qed.

(** ** peek, peek_mut, contains, remove, purge *)
Theorem ha_peek_refines h s ls k : RA h s ls [] -> ha_peek h s k = HOk (apeek ls k).
Proof.
  intros (l1 & g1 & l2 & g2 & Hf & HR1 & HRb1 & HR2 & HRb2 & Es & Ep).
  destruct s as [sz p q1 qb1 q2 qb2]. destruct ls as [lsz lp pt1 pb1 pt2 pb2].
  cbn [ha_size ha_p ha_t1 ha_b1 ha_t2 ha_b2 asize ap t1 b1 t2 b2] in *.
  unfold ha_peek, apeek. proj. cbn [ha_t1 ha_t2].
  rewrite (fam_peek h [] q1 l1 [(qb1, g1); (q2, l2); (qb2, g2)] [] pt1 k Hf (proj1 HR1)). cbn [hbind].
  destruct (peek pt1 k); [reflexivity|]. apply (fam_peek h [(q1, l1); (qb1, g1)] q2 l2 [(qb2, g2)] [] pt2 k Hf (proj1 HR2)).
Qed.

Theorem ha_contains_refines h s ls k : RA h s ls [] -> ha_contains h s k = HOk (acontains ls k).
Proof.
  intros (l1 & g1 & l2 & g2 & Hf & HR1 & HRb1 & HR2 & HRb2 & Es & Ep).
  destruct s as [sz p q1 qb1 q2 qb2]. destruct ls as [lsz lp pt1 pb1 pt2 pb2].
  cbn [ha_size ha_p ha_t1 ha_b1 ha_t2 ha_b2 asize ap t1 b1 t2 b2] in *.
  unfold ha_contains, acontains. proj. cbn [ha_t1 ha_t2].
  rewrite (fam_contains h [] q1 l1 [(qb1, g1); (q2, l2); (qb2, g2)] [] pt1 k Hf (proj1 HR1)). cbn [hbind].
  destruct (contains pt1 k); [reflexivity|]. apply (fam_contains h [(q1, l1); (qb1, g1)] q2 l2 [(qb2, g2)] [] pt2 k Hf (proj1 HR2)).
Qed.

Theorem ha_peek_mut_refines h s ls k w :
  RA h s ls [] -> exists h', ha_peek_mut h s k w = HOk (h', snd (apeek_mut ls k w)) /\ RA h' s (fst (apeek_mut ls k w)) [].
Proof.
  intros (l1 & g1 & l2 & g2 & Hf & HR1 & HRb1 & HR2 & HRb2 & Es & Ep).
  destruct s as [sz p q1 qb1 q2 qb2]. destruct ls as [lsz lp pt1 pb1 pt2 pb2].
  cbn [ha_size ha_p ha_t1 ha_b1 ha_t2 ha_b2 asize ap t1 b1 t2 b2] in *. subst lsz lp.
  unfold ha_peek_mut, apeek_mut. proj. cbn [ha_t1 ha_t2].
  destruct (fam_peek_mut h [] q1 l1 [(qb1, g1); (q2, l2); (qb2, g2)] [] pt1 k w Hf (proj1 HR1) (proj2 HR1))
    as (h1 & l1' & -> & Hf1 & E1 & Ec1 & _). cbn [hbind app] in *.
  destruct (peek_mut_spec pt1 k w) as [[_ E]|(v & _ & E)]; rewrite E in *; cbn [fst snd] in *.
  - destruct (fam_peek_mut h1 [(q1, l1'); (qb1, g1)] q2 l2 [(qb2, g2)] [] pt2 k w Hf1 (proj1 HR2) (proj2 HR2))
      as (h2 & l2' & -> & Hf2 & E2 & Ec2 & _). cbn [app] in *.
    destruct (peek_mut pt2 k w) as [pt2' r]. cbn [fst snd] in *.
    exists h2. split; [reflexivity|]. ra_close l1' g1 l2' g2.
  - exists h1. split; [reflexivity|]. ra_close l1' g1 l2 g2.
Qed.

Theorem ha_remove_refines h s ls k :
  RA h s ls [] -> exists h' s', ha_remove h s k = HOk (h', s', snd (aremove ls k)) /\ RA h' s' (fst (aremove ls k)) [].
Proof.
  intros (l1 & g1 & l2 & g2 & Hf & HR1 & HRb1 & HR2 & HRb2 & Es & Ep).
  destruct s as [sz p q1 qb1 q2 qb2]. destruct ls as [lsz lp pt1 pb1 pt2 pb2].
  cbn [ha_size ha_p ha_t1 ha_b1 ha_t2 ha_b2 asize ap t1 b1 t2 b2] in *. subst lsz lp.
  unfold ha_remove, aremove. proj. cbn [ha_size ha_p ha_t1 ha_b1 ha_t2 ha_b2].
  destruct (fam_remove h [] q1 l1 [(qb1, g1); (q2, l2); (qb2, g2)] [] pt1 k Hf (proj1 HR1) (proj2 HR1))
    as (h1 & q1' & l1' & -> & Hf1 & E1 & Ec1 & _). cbn [hbind app] in *.
  destruct (remove_spec pt1 k) as [[_ E]|(v & _ & E)]; rewrite E in *; cbn [fst snd] in *.
  - destruct (fam_remove h1 [(q1', l1'); (qb1, g1)] q2 l2 [(qb2, g2)] [] pt2 k Hf1 (proj1 HR2) (proj2 HR2))
      as (h2 & q2' & l2' & -> & Hf2 & E2 & Ec2 & _). cbn [hbind app] in *.
    destruct (remove_spec pt2 k) as [[_ E']|(v & _ & E')]; rewrite E' in *; cbn [fst snd] in *.
    + destruct (fam_remove h2 [(q1', l1')] qb1 g1 [(q2', l2'); (qb2, g2)] [] pb1 k Hf2 (proj1 HRb1) (proj2 HRb1))
        as (h3 & qb1' & g1' & -> & Hf3 & E3 & Ec3 & _). cbn [hbind app] in *.
      destruct (remove_spec pb1 k) as [[_ E'']|(v & _ & E'')]; rewrite E'' in *; cbn [fst snd] in *.
      * destruct (fam_remove h3 [(q1', l1'); (qb1', g1'); (q2', l2')] qb2 g2 [] [] pb2 k Hf3 (proj1 HRb2) (proj2 HRb2))
          as (h4 & qb2' & g2' & -> & Hf4 & E4 & Ec4 & _). cbn [hbind app] in *.
        destruct (Lru.remove pb2 k) as [[pb2' r] cbs]. cbn [fst snd] in *.
        do 2 eexists. split; [reflexivity|]. ra_close l1' g1' l2' g2'.
      * do 2 eexists. split; [reflexivity|]. ra_close l1' g1' l2' g2.
    + do 2 eexists. split; [reflexivity|]. ra_close l1' g1 l2' g2.
  - do 2 eexists. split; [reflexivity|]. ra_close l1' g1 l2 g2.
Qed.

Theorem ha_purge_refines h s ls :
  RA h s ls [] -> exists h' s', ha_purge h s = HOk (h', s') /\ RA h' s' (apurge ls) [].
Proof.
  intros (l1 & g1 & l2 & g2 & Hf & HR1 & HRb1 & HR2 & HRb2 & Es & Ep).
  destruct s as [sz p q1 qb1 q2 qb2]. destruct ls as [lsz lp pt1 pb1 pt2 pb2].
  cbn [ha_size ha_p ha_t1 ha_b1 ha_t2 ha_b2 asize ap t1 b1 t2 b2] in *. subst lsz lp.
  unfold ha_purge, apurge. proj. cbn [ha_size ha_p ha_t1 ha_b1 ha_t2 ha_b2].
  destruct (fam_purge h [] q1 l1 [(qb1, g1); (q2, l2); (qb2, g2)] [] pt1 Hf (proj1 HR1) (proj2 HR1))
    as (h1 & q1' & l1' & -> & Hf1 & E1 & Ec1 & _). cbn [hbind app] in *.
  destruct (fam_purge h1 [(q1', l1')] qb1 g1 [(q2, l2); (qb2, g2)] [] pb1 Hf1 (proj1 HRb1) (proj2 HRb1))
    as (h2 & qb1' & g1' & -> & Hf2 & E2 & Ec2 & _). cbn [hbind app] in *.
  destruct (fam_purge h2 [(q1', l1'); (qb1', g1')] q2 l2 [(qb2, g2)] [] pt2 Hf2 (proj1 HR2) (proj2 HR2))
    as (h3 & q2' & l2' & -> & Hf3 & E3 & Ec3 & _). cbn [hbind app] in *.
  destruct (fam_purge h3 [(q1', l1'); (qb1', g1'); (q2', l2')] qb2 g2 [] [] pb2 Hf3 (proj1 HRb2) (proj2 HRb2))
    as (h4 & qb2' & g2' & -> & Hf4 & E4 & Ec4 & _). cbn [hbind app] in *.
  do 2 eexists. split; [reflexivity|]. ra_close l1' g1' l2' g2'.
Qed.

(** ** new, Drop, histories *)
Theorem ha_new_refines size : RA (fst (ha_new heap0 size)) (snd (ha_new heap0 size)) (arc_new size) [].
Proof.
  unfold ha_new.
  destruct (fam_new heap0 [] size fam_empty) as (F1 & C1 & _).
  destruct (hnew heap0 size) as [h1 q1]. cbn [fst snd] in *.
  destruct (fam_new h1 [(q1, [])] size F1) as (F2 & C2 & _).
  destruct (hnew h1 size) as [h2 q2]. cbn [fst snd] in *.
  destruct (fam_new h2 [(q2, []); (q1, [])] size F2) as (F3 & C3 & _).
  destruct (hnew h2 size) as [h3 q3]. cbn [fst snd] in *.
  destruct (fam_new h3 [(q3, []); (q2, []); (q1, [])] size F3) as (F4 & C4 & _).
  destruct (hnew h3 size) as [h4 q4]. cbn [fst snd] in *.
  exists [], [], [], []. cbn [ha_size ha_p ha_t1 ha_b1 ha_t2 ha_b2 arc_new asize ap t1 b1 t2 b2 lru_new].
  split; [|repeat split; auto].
  destruct F4 as [Hwf Hnd Hfl Htight]. constructor.
  - intros q l [E|[E|[E|[E|[]]]]]; apply Hwf; [do 3 right; now left|do 2 right; now left|right; now left|now left].
  - eapply Permutation_NoDup; [|exact Hnd]. cbn [flat_map fp fst snd addrs map app].
    change [hhead q4; htail q4; hhead q3; htail q3; hhead q2; htail q2; hhead q1; htail q1]
      with ([hhead q4; htail q4] ++ [hhead q3; htail q3] ++ [hhead q2; htail q2] ++ [hhead q1; htail q1]).
    change [hhead q1; htail q1; hhead q2; htail q2; hhead q3; htail q3; hhead q4; htail q4]
      with ([hhead q1; htail q1] ++ [hhead q2; htail q2] ++ [hhead q3; htail q3] ++ [hhead q4; htail q4]).
    rewrite (app_assoc [hhead q4; htail q4]), (app_assoc ([hhead q4; htail q4] ++ [hhead q3; htail q3])).
    etransitivity; [apply Permutation_app_comm|]. apply Permutation_app_head.
    rewrite <- app_assoc. rewrite (app_assoc [hhead q4; htail q4]).
    etransitivity; [apply Permutation_app_comm|]. apply Permutation_app_head. apply Permutation_app_comm.
  - exact Hfl.
  - intros a Ha. apply Htight. intros Hc. apply Ha. cbn [flat_map fp fst snd addrs map app In] in *. tauto.
Qed.

Theorem ha_drop_ok h s ls : RA h s ls [] -> exists h', ha_drop h s = HOk h' /\ forall a, cells h' a = Free.
Proof.
  intros (l1 & g1 & l2 & g2 & Hf & _). destruct s as [sz p q1 qb1 q2 qb2].
  cbn [ha_size ha_p ha_t1 ha_b1 ha_t2 ha_b2] in *. unfold ha_drop. cbn [ha_t1 ha_b1 ha_t2 ha_b2].
  destruct (fam_drop h [] q1 l1 [(qb1, g1); (q2, l2); (qb2, g2)] Hf) as (h1 & -> & Hf1 & _). cbn [hbind app] in *.
  destruct (fam_drop h1 [] qb1 g1 [(q2, l2); (qb2, g2)] Hf1) as (h2 & -> & Hf2 & _). cbn [hbind app] in *.
  destruct (fam_drop h2 [] q2 l2 [(qb2, g2)] Hf2) as (h3 & -> & Hf3 & _). cbn [hbind app] in *.
  destruct (fam_drop h3 [] qb2 g2 [] Hf3) as (h4 & -> & Hf4 & _). cbn [app] in *.
  exists h4. split; [reflexivity|]. intros a. apply (fam_tight _ _ _ Hf4). intros [].
Qed.

(** ** the iterators over one of the four lists *)
Definition aop_ok (o : aop) : Prop :=
  match o with AIter _ kd _ _ pb => ik_mut kd = true -> pb = [] | _ => True end.

Theorem ha_iter_refines h s ls i kd pre pa pb ql pl :
  RA h s ls [] -> (ik_mut kd = true -> pb = []) ->
  ha_list s i = Some ql -> CacheStep.alist ls i = Some pl ->
  exists h', h_iter_script h ql kd pre pa pb = HOk (h', fst (iter_script kd pre pa pb (items pl))) /\
             RA h' s (CacheStep.awith_list ls i (with_items pl (snd (iter_script kd pre pa pb (items pl))))) [].
Proof.
  intros (l1 & g1 & l2 & g2 & Hf & (E1 & C1) & (E2 & C2) & (E3 & C3) & (E4 & C4) & Es & Ep) Hmut Hq Hp.
  unfold ha_list in Hq. unfold CacheStep.alist in Hp. unfold CacheStep.awith_list.
  destruct (Z.eqb i 0).
  - inversion Hq; inversion Hp; subst ql pl.
    destruct (fam_iter_script h [] (ha_t1 s) l1 [(ha_b1 s, g1); (ha_t2 s, l2); (ha_b2 s, g2)] [] kd pre pa pb Hf Hmut) as (h' & l' & E & Hf' & He & _).
    rewrite E1 in E, He. exists h'. split; [exact E|].
    exists l', g1, l2, g2. split; [exact Hf'|]. repeat split; assumption.
  - destruct (Z.eqb i 1).
    + inversion Hq; inversion Hp; subst ql pl.
      destruct (fam_iter_script h [(ha_t1 s, l1)] (ha_b1 s) g1 [(ha_t2 s, l2); (ha_b2 s, g2)] [] kd pre pa pb Hf Hmut) as (h' & l' & E & Hf' & He & _).
      rewrite E2 in E, He. exists h'. split; [exact E|].
      exists l1, l', l2, g2. split; [exact Hf'|]. repeat split; assumption.
    + destruct (Z.eqb i 2).
      * inversion Hq; inversion Hp; subst ql pl.
        destruct (fam_iter_script h [(ha_t1 s, l1); (ha_b1 s, g1)] (ha_t2 s) l2 [(ha_b2 s, g2)] [] kd pre pa pb Hf Hmut) as (h' & l' & E & Hf' & He & _).
        rewrite E3 in E, He. exists h'. split; [exact E|].
        exists l1, g1, l', g2. split; [exact Hf'|]. repeat split; assumption.
      * destruct (Z.eqb i 3); [|discriminate].
        inversion Hq; inversion Hp; subst ql pl.
        destruct (fam_iter_script h [(ha_t1 s, l1); (ha_b1 s, g1); (ha_t2 s, l2)] (ha_b2 s) g2 [] [] kd pre pa pb Hf Hmut) as (h' & l' & E & Hf' & He & _).
        rewrite E4 in E, He. exists h'. split; [exact E|].
        exists l1, g1, l2, l'. split; [exact Hf'|]. repeat split; assumption.
Qed.

Lemma ha_list_some s (ls : arc) i : ha_list s i = None <-> CacheStep.alist ls i = None.
Proof.
  unfold ha_list, CacheStep.alist.
  destruct (Z.eqb i 0); [split; discriminate|]. destruct (Z.eqb i 1); [split; discriminate|].
  destruct (Z.eqb i 2); [split; discriminate|]. destruct (Z.eqb i 3); [split; discriminate|]. tauto.
Qed.

Definition la_step (s : arc) (o : HeapArcDef.aop) : res (arc * hout) :=
  match o with
  | APut k v => do (s1, r) <- aput s k v; Ok (s1, OPut r)
  | AGetMut k w => do (s1, r) <- aget_mut s k w; Ok (s1, OVal r)
  | APeek k => Ok (s, OVal (apeek s k))
  | APeekMut k w => Ok (fst (apeek_mut s k w), OVal (snd (apeek_mut s k w)))
  | AContains k => Ok (s, OBool (acontains s k))
  | ARemove k => Ok (fst (aremove s k), OVal (snd (aremove s k)))
  | APurge => Ok (apurge s, OUnit)
  | HeapArcDef.AIter i kd pre pa pb =>
    match CacheStep.alist s i with
    | Some pl => Ok (CacheStep.awith_list s i (with_items pl (snd (iter_script kd pre pa pb (items pl)))),
                     OIter kd (fst (iter_script kd pre pa pb (items pl))))
    | None => Ok (s, OUnit)
    end
  end.

Theorem arc_step_refines h s ls o :
  RA h s ls [] -> arc_inv ls -> aop_ok o ->
  exists h' s' ls' r, ha_step h s o = HOk (h', s', r) /\ la_step ls o = Ok (ls', r) /\ RA h' s' ls' [] /\ arc_inv ls'.
Proof.
  intros HR Hinv Hok. destruct o as [k v|k w|k|k w|k|k| |i kd pre pa pb]; cbn [ha_step la_step].
  - destruct (ha_put_refines h s ls k v HR Hinv) as (h' & s' & ls' & r & -> & E & HR').
    destruct (aput_ok ls k v Hinv) as (s2 & r2 & E2 & Hinv2 & _). rewrite E in *. inversion E2; subst.
    cbn [hbind bind]. eauto 10.
  - destruct (ha_get_mut_refines h s ls k w HR Hinv) as (h' & s' & ls' & r & -> & E & HR').
    destruct (aget_mut_ok ls k w Hinv) as (s2 & r2 & E2 & Hinv2 & _). rewrite E in *. inversion E2; subst.
    cbn [hbind bind]. eauto 10.
  - rewrite (ha_peek_refines h s ls k HR). cbn [hbind]. eauto 10.
  - destruct (ha_peek_mut_refines h s ls k w HR) as (h' & -> & HR'). cbn [hbind].
    destruct (apeek_mut_ok ls k w Hinv) as (Hinv2 & _). eauto 10.
  - rewrite (ha_contains_refines h s ls k HR). cbn [hbind]. eauto 10.
  - destruct (ha_remove_refines h s ls k HR) as (h' & s' & -> & HR'). cbn [hbind].
    destruct (aremove_ok ls k Hinv) as (Hinv2 & _). eauto 10.
  - destruct (ha_purge_refines h s ls HR) as (h' & s' & -> & HR'). cbn [hbind].
    destruct (apurge_ok ls Hinv) as (Hinv2 & _). eauto 10.
  - destruct (CacheStep.alist ls i) as [pl|] eqn:Ep.
    + destruct (ha_list s i) as [ql|] eqn:Eq; [|apply (ha_list_some s ls i) in Eq; congruence].
      destruct (ha_iter_refines h s ls i kd pre pa pb ql pl HR Hok Eq Ep) as (h' & -> & HR'). cbn [hbind].
      destruct (awith_list_inv ls i pl (with_items pl (snd (iter_script kd pre pa pb (items pl)))) Hinv Ep) as (Hinv2 & _);
        [cbn [items with_items]; apply keys_iter_script|reflexivity|]. eauto 10.
    + apply (ha_list_some s ls i) in Ep. rewrite Ep. eauto 10.
Qed.

Fixpoint la_run (s : arc) (os : list HeapArcDef.aop) : res (arc * list hout) :=
  match os with
  | [] => Ok (s, [])
  | o :: rest => do (s1, r) <- la_step s o; do (s2, rs) <- la_run s1 rest; Ok (s2, r :: rs)
  end.

Lemma arc_run_refines : forall os h s ls, RA h s ls [] -> arc_inv ls -> Forall aop_ok os ->
            exists h1 s1 ls1 outs, ha_run h s os = HOk (h1, s1, outs) /\ la_run ls os = Ok (ls1, outs) /\ RA h1 s1 ls1 [].
Proof.
 induction os as [|o rest IH]; intros h s ls HR Hinv Hok; [cbn; eauto 10|].
    cbn [ha_run la_run]. inversion Hok as [|? ? Ho Hrest]; subst.
    destruct (arc_step_refines h s ls o HR Hinv Ho) as (h1 & s1 & ls1 & r & -> & -> & HR1 & Hinv1). cbn [hbind bind].
    destruct (IH h1 s1 ls1 HR1 Hinv1 Hrest) as (h2 & s2 & ls2 & outs & -> & -> & HR2). cbn [hbind bind]. eauto 10.
Qed.

Theorem arc_history_safe size os :
  1 <= size -> Forall aop_ok os ->
  exists h s ls outs h',
    ha_run (fst (ha_new heap0 size)) (snd (ha_new heap0 size)) os = HOk (h, s, outs) /\
    la_run (arc_new size) os = Ok (ls, outs) /\ RA h s ls [] /\
    ha_drop h s = HOk h' /\ (forall a, cells h' a = Free).
Proof.
  intros H1 Hok.
  pose proof arc_run_refines as G.
  destruct (G os _ _ _ (ha_new_refines size) (arc_new_inv size H1) Hok) as (h & s & ls & outs & E1 & E2 & HR).
  destruct (ha_drop_ok h s ls HR) as (h' & Ed & Hall).
  exists h, s, ls, outs, h'. auto.
Qed.

(** non-vacuity: evictions into both ghost lists and a hit in each of them (p moves both ways) *)
Definition arc_demo : list aop :=
  [APut 1 10; APut 2 20; AGetMut 1 None; APut 3 30; APut 4 40; APut 2 21; APut 1 11; APut 5 50; APut 3 31;
   ARemove 5; APurge]%Z.

Example arc_runs :
  match ha_run (fst (ha_new heap0 2)) (snd (ha_new heap0 2)) arc_demo with
  | HOk (h, s, outs) => exists ls, la_run (arc_new 2) arc_demo = Ok (ls, outs)
  | HErr _ => False
  end.
Proof. vm_compute. eexists. reflexivity. Qed.
