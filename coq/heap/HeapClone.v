(** * Layer H — [Clone for RawLRU] on the heap: a new pair of sentinels, then one [put] per entry read
    through the [iter_lru] cursor of the original, least recent first.  The two lists live in the same
    heap; the clone's nodes are freshly allocated (no sharing), the original is only read, and after the
    original is dropped the clone alone owns the heap. *)
From VF Require Import Base Iter Lru BaseFacts LruFacts Heap HeapFacts HeapOps HeapRun HeapPrim HeapFrame HeapMulti HeapIterDef HeapIter.
From Coq Require Import List Arith Lia Permutation.
Import ListNotations.
Local Open Scope nat_scope.

Lemma h_it_take_ro h it fh h1 it1 y : h_it_take h it fh None = HOk (h1, it1, y) -> h1 = h.
Proof.
  unfold h_it_take. destruct (Nat.eqb (hi_len it) 0); [intros E; now inversion E|].
  destruct (hread h _) as [[[[ok ov] p] n]|e]; cbn [hbind]; [|discriminate].
  destruct ok; [|discriminate]. destruct ov; [|discriminate]. intros E. now inversion E.
Qed.

Lemma put_miss_room (s : lru) k v :
  ~ In k (keys (items s)) -> length (items s) < cap s ->
  Lru.put s k v = (with_items s ((k, v) :: items s), PPut, []).
Proof.
  intros Hn Hl. unfold Lru.put. apply find_none_notin in Hn. rewrite Hn.
  destruct (Nat.eqb_spec (cap s) 0); [lia|]. unfold llen. destruct (Nat.eqb_spec (length (items s)) (cap s)); [lia|].
  reflexivity.
Qed.

Lemma h_clone_loop_ok : forall mid h q l l2 F1 F2 q' l' it,
  l = mid ++ l2 ->
  fam h ((q', l') :: F1 ++ (q, l) :: F2) [] ->
  itinv q [] mid l2 it ->
  entries l' = entries l2 -> hcap q' = hcap q -> length l <= hcap q ->
  exists h' q'' l'', h_clone_loop (length mid) h it q' = HOk (h', q'') /\
    fam h' ((q'', l'') :: F1 ++ (q, l) :: F2) [] /\ entries l'' = entries l /\ hcap q'' = hcap q /\
    hhead q'' = hhead q' /\ htail q'' = htail q' /\ fresh h <= fresh h'.
Proof.
  intros mid. induction mid as [|[a [k v]] mid' IH] using rev_ind; intros h q l l2 F1 F2 q' l' it El Hf Hinv Hent Hcap Hlen.
  - cbn [length h_clone_loop]. exists h, q', l'. cbn [app] in El. subst l. auto 10.
  - rewrite app_length. cbn [length]. replace (length mid' + 1) with (S (length mid')) by lia.
    cbn [h_clone_loop].
    assert (Hwf : wf h q l) by (apply (fam_member h ((q', l') :: F1) q l F2 []); exact Hf).
    assert (Hwf0 : wf h q ([] ++ (mid' ++ [(a, (k, v))]) ++ l2)) by (cbn [app]; now rewrite <- El).
    destruct (h_it_take_back h q [] mid' a k v l2 it None Hwf0 Hinv) as (h1 & it1 & E & _ & Hinv1 & _ & _ & _ & _).
    pose proof (h_it_take_ro _ _ _ _ _ _ E) as ->. rewrite E. cbn [hbind wval] in *.
    set (s := mkLru (hcap q') (entries l') false).
    assert (Hk : ~ In k (keys (items s))).
    { cbn [items s]. rewrite Hent. destruct Hwf as (_ & _ & Hnd). rewrite El in Hnd.
      unfold keys, entries in *. rewrite <- app_assoc, !map_app in Hnd. cbn [map snd fst app] in Hnd.
      apply NoDup_remove_2 in Hnd. intros Hc. apply Hnd. apply in_or_app. now right. }
    assert (Hroom : length (items s) < cap s).
    { cbn [items cap s]. rewrite Hent, Hcap. unfold entries. rewrite map_length.
      rewrite El, !app_length in Hlen. cbn [length] in Hlen. lia. }
    destruct (fam_put h [] q' l' (F1 ++ (q, l) :: F2) [] s k v Hf eq_refl eq_refl) as (h2 & q2 & l2' & Ep & Hf2 & Hent2 & Hcap2 & Hh2 & Ht2 & Hfr2).
    rewrite (put_miss_room s k v Hk Hroom) in Ep, Hent2, Hcap2. cbn [fst snd] in *.
    rewrite Ep. cbn [hbind].
    destruct (IH h2 q l ((a, (k, v)) :: l2) F1 F2 q2 l2' it1) as (h' & q'' & l'' & E' & Hf' & He' & Hc' & Hh' & Ht' & Hfr').
    + rewrite El, <- app_assoc. reflexivity.
    + exact Hf2.
    + exact Hinv1.
    + rewrite Hent2. cbn [with_items items s]. rewrite Hent. reflexivity.
    + rewrite Hcap2. cbn [with_items cap s]. exact Hcap.
    + exact Hlen.
    + exists h', q'', l''. split; [exact E'|]. split; [exact Hf'|]. split; [exact He'|]. split; [exact Hc'|].
      split; [congruence|]. split; [congruence|lia].
Qed.

Theorem h_clone_ok h F1 q l F2 :
  fam h (F1 ++ (q, l) :: F2) [] -> length l <= hcap q ->
  exists h' q' l', h_clone h q = HOk (h', q') /\
    fam h' ((q', l') :: F1 ++ (q, l) :: F2) [] /\ entries l' = entries l /\ hcap q' = hcap q /\
    hhead q' = fresh h /\ htail q' = S (fresh h) /\ fresh h <= fresh h'.
Proof.
  intros Hf Hlen. unfold h_clone.
  destruct (fam_new h _ (hcap q) Hf) as (Hf1 & Hc1 & Hfr1).
  destruct (hnew_spec h (hcap q)) as (Eh & Et & _).
  set (h1 := fst (hnew h (hcap q))) in *. set (q1 := snd (hnew h (hcap q))) in *.
  assert (Hwf : wf h1 q l) by (apply (fam_member h1 ((q1, []) :: F1) q l F2 []); exact Hf1).
  destruct (h_iter_ok h1 q l Hwf) as (it & Ei & Hinv). rewrite Ei. cbn [hbind].
  pose proof Hinv as (Hl & _). rewrite Hl.
  destruct (h_clone_loop_ok l h1 q l [] F1 F2 q1 [] it) as (h' & q' & l' & E & Hf' & He & Hc & Hh & Ht & Hfr).
  - now rewrite app_nil_r.
  - exact Hf1.
  - exact Hinv.
  - reflexivity.
  - exact Hc1.
  - exact Hlen.
  - exists h', q', l'. split; [exact E|]. split; [exact Hf'|]. split; [exact He|]. split; [exact Hc|].
    split; [congruence|]. split; [congruence|lia].
Qed.

(** ** families up to the order of their lists *)
Lemma fam_perm h F F' fl : fam h F fl -> Permutation F F' -> fam h F' fl.
Proof.
  intros [Hwf Hnd Hfl Ht] Hp. constructor.
  - intros q l Hin. apply Hwf. eapply Permutation_in; [apply Permutation_sym; exact Hp|exact Hin].
  - eapply Permutation_NoDup; [|exact Hnd]. apply Permutation_app_tail. now apply Permutation_flat_map.
  - exact Hfl.
  - intros a Ha. apply Ht. intros Hc. apply Ha.
    eapply Permutation_in; [|exact Hc]. apply Permutation_app_tail. now apply Permutation_flat_map.
Qed.

Theorem h_clone_in h F q l :
  fam h F [] -> In (q, l) F -> length l <= hcap q ->
  exists h' q' l', h_clone h q = HOk (h', q') /\
    fam h' ((q', l') :: F) [] /\ entries l' = entries l /\ hcap q' = hcap q /\
    hhead q' = fresh h /\ htail q' = S (fresh h) /\ fresh h <= fresh h'.
Proof.
  intros Hf Hin Hlen. apply in_split in Hin. destruct Hin as (F1 & F2 & ->).
  exact (h_clone_ok h F1 q l F2 Hf Hlen).
Qed.

Theorem fam_drop_perm h F q l F' :
  fam h F [] -> Permutation F ((q, l) :: F') ->
  exists h', h_drop h q = HOk h' /\ fam h' F' [] /\ fresh h' = fresh h.
Proof.
  intros Hf Hp. exact (fam_drop h [] q l F' (fam_perm _ _ _ _ Hf Hp)).
Qed.

(** a single list: wf + tight is the one-element family *)
Lemma R_fam h q l : wf h q l -> tight h q l -> fam h [(q, l)] [].
Proof.
  intros Hwf Ht. constructor.
  - intros q0 l0 [E|[]]. now inversion E; subst.
  - cbn [flat_map]. rewrite !app_nil_r. exact (wf_nodup _ _ _ Hwf).
  - intros a k v [].
  - intros a Ha. cbn [flat_map] in Ha. rewrite !app_nil_r in Ha. apply Ht.
    unfold fp in Ha. cbn [fst snd In] in Ha. repeat split; intros Hc; apply Ha; subst; auto.
Qed.

Lemma fam_R h q l : fam h [(q, l)] [] -> wf h q l /\ tight h q l.
Proof.
  intros Hf. split; [apply (fam_wf _ _ _ Hf); now left|].
  intros a (H1 & H2 & H3). apply (fam_tight _ _ _ Hf). cbn [flat_map]. rewrite !app_nil_r.
  unfold fp. cbn [fst snd In]. intros [E|[E|Hc]]; auto.
Qed.

(** ** refinement: the clone, once the original is gone, is a heap of the same abstract cache *)
Theorem clone_refines h q s :
  R h q s -> length (items s) <= cap s ->
  exists h' q', h_clone_replace h q = HOk (h', q') /\ R h' q' s /\ hhead q' = fresh h /\ htail q' = S (fresh h).
Proof.
  intros (l & Hwf & Ht & El & Ec) Hlen.
  assert (Hl : length l <= hcap q).
  { rewrite Ec. rewrite <- El in Hlen. unfold entries in Hlen. now rewrite map_length in Hlen. }
  destruct (h_clone_ok h [] q l [] (R_fam _ _ _ Hwf Ht) Hl) as (h1 & q' & l' & E & Hf & He & Hc & Hh & Htl & Hfr).
  unfold h_clone_replace. rewrite E. cbn [hbind app] in *.
  destruct (fam_drop h1 [(q', l')] q l [] Hf) as (h2 & Ed & Hf2 & _). rewrite Ed. cbn [hbind app] in *.
  exists h2, q'. split; [reflexivity|]. split; [|auto].
  destruct (fam_R _ _ _ Hf2) as (Hwf2 & Ht2).
  exists l'. split; [exact Hwf2|]. split; [exact Ht2|]. split; [congruence|congruence].
Qed.

(** ** histories with clones: every public operation of HeapRun plus [x = x.clone()] *)
From VF Require Import Enc LruStep.

(** what a call reports: the result of a HeapRun operation, or the yields of an iterator script *)
Definition yields3 := (list (option entry * nat) * list (option entry * nat) * list (option entry * nat))%type.
Inductive cout := CO (o : hout) | CI (ys : yields3).

Inductive hcop := COp (o : hop) | CClone | CIter (kd : iter_kind) (pre pa pb : list req).

(** a mutable iterator is not [Clone]: its script has no clone phase *)
Definition hcop_ok (o : hcop) : Prop :=
  match o with CIter kd _ _ pb => ik_mut kd = true -> pb = [] | _ => True end.

Definition hcstep (h : heap) (q : hlru) (o : hcop) : hres (heap * hlru * cout) :=
  match o with
  | COp o => hdo (h', q', r) <- hstep h q o; HOk (h', q', CO r)
  | CClone => hdo (h', q') <- h_clone_replace h q; HOk (h', q', CO OUnit)
  | CIter kd pre pa pb => hdo (h', ys) <- h_iter_script h q kd pre pa pb; HOk (h', q, CI ys)
  end.

Definition lcstep (s : lru) (o : hcop) : lru * cout :=
  match o with
  | COp o => (fst (HeapRun.lstep s o), CO (snd (HeapRun.lstep s o)))
  | CClone => (Lru.clone s, CO OUnit)
  | CIter kd pre pa pb => (with_items s (snd (iter_script kd pre pa pb (items s))),
                           CI (fst (iter_script kd pre pa pb (items s))))
  end.

Fixpoint hcrun (h : heap) (q : hlru) (os : list hcop) : hres (heap * hlru * list cout) :=
  match os with
  | [] => HOk (h, q, [])
  | o :: rest =>
    hdo (h1, q1, r) <- hcstep h q o;
    hdo (h2, q2, rs) <- hcrun h1 q1 rest;
    HOk (h2, q2, r :: rs)
  end.

Fixpoint lcrun (s : lru) (os : list hcop) : lru * list cout :=
  match os with
  | [] => (s, [])
  | o :: rest => let '(s1, r) := lcstep s o in let '(s2, rs) := lcrun s1 rest in (s2, r :: rs)
  end.

Definition lop_of_hop (o : hop) : lop :=
  match o with
  | HPut k v => LPut k v
  | HGetMut k w => LGetMut k w
  | HPeek k => LPeek k
  | HRemove k => LRemove k
  | HRemoveLru => LRemoveLru
  | HPurge => LPurge
  | HResize c => LResize c
  | HPeekMut k w => LPeekMut k w
  | HContains k => LContains k
  | HGetLru w => LGetLruMut w
  | HPeekLru w => LPeekLruMut w
  | HPeekMru w => LPeekMruMut w
  | HPeekMutOrPut k v w => LPeekMutOrPut k v w
  | HContainsOrPut k v => LContainsOrPut k v
  end.

Lemma lstep_same_state s o : fst (HeapRun.lstep s o) = fst (fst (LruStep.lstep s (lop_of_hop o))).
Proof.
  destruct o; cbn [HeapRun.lstep LruStep.lstep lop_of_hop fst snd]; try reflexivity;
    repeat match goal with |- context [match ?x with pair _ _ => _ end] => destruct x end; reflexivity.
Qed.

Lemma hop_lstep_inv s o : lru_inv s -> lru_inv (fst (HeapRun.lstep s o)).
Proof. intros H. rewrite lstep_same_state. now apply lstep_inv. Qed.

Lemma iter_inv s kd pre pa pb : lru_inv s -> lru_inv (with_items s (snd (iter_script kd pre pa pb (items s)))).
Proof.
  intros H. pose proof (lstep_inv s (LIter kd pre pa pb) H) as Hi. cbn [LruStep.lstep] in Hi.
  destruct (iter_script kd pre pa pb (items s)) as [[[y0 ya] yb] l']. exact Hi.
Qed.

Theorem iter_refines h q s kd pre pa pb :
  R h q s -> (ik_mut kd = true -> pb = []) ->
  exists h', h_iter_script h q kd pre pa pb = HOk (h', fst (iter_script kd pre pa pb (items s))) /\
             R h' q (with_items s (snd (iter_script kd pre pa pb (items s)))).
Proof.
  intros (l & Hwf & Ht & El & Ec) Hmut.
  destruct (fam_iter_script h [] q l [] [] kd pre pa pb (R_fam _ _ _ Hwf Ht) Hmut) as (h' & l' & E & Hf & He & _).
  rewrite El in E, He. exists h'. split; [exact E|].
  destruct (fam_R _ _ _ Hf) as (Hwf' & Ht'). exists l'. auto.
Qed.

Theorem hcstep_refines h q s o :
  R h q s -> lru_inv s -> hcop_ok o ->
  exists h' q', hcstep h q o = HOk (h', q', snd (lcstep s o)) /\ R h' q' (fst (lcstep s o)) /\ lru_inv (fst (lcstep s o)).
Proof.
  intros HR Hinv Hok. destruct o as [o| |kd pre pa pb]; cbn [hcstep lcstep fst snd].
  - destruct (step_refines h q s o HR) as (h' & q' & E & HR' & _). rewrite E. cbn [hbind].
    exists h', q'. split; [reflexivity|]. split; [exact HR'|]. now apply hop_lstep_inv.
  - destruct (clone_refines h q s HR (proj2 Hinv)) as (h' & q' & E & HR' & _). rewrite E. cbn [hbind fst snd].
    rewrite (clone_id s Hinv). exists h', q'. auto.
  - destruct (iter_refines h q s kd pre pa pb HR Hok) as (h' & E & HR'). rewrite E. cbn [hbind].
    exists h', q. split; [reflexivity|]. split; [exact HR'|]. now apply iter_inv.
Qed.

Theorem hcrun_refines os : forall h q s,
  R h q s -> lru_inv s -> Forall hcop_ok os ->
  exists h' q', hcrun h q os = HOk (h', q', snd (lcrun s os)) /\ R h' q' (fst (lcrun s os)).
Proof.
  induction os as [|o rest IH]; intros h q s HR Hinv Hok.
  - cbn. do 2 eexists. split; [reflexivity|exact HR].
  - cbn [hcrun lcrun]. inversion Hok as [|? ? Ho Hrest]; subst.
    destruct (hcstep_refines h q s o HR Hinv Ho) as (h1 & q1 & E1 & HR1 & Hinv1).
    rewrite E1. cbn [hbind]. destruct (lcstep s o) as [s1 r1]. cbn [fst snd] in *.
    destruct (IH h1 q1 s1 HR1 Hinv1 Hrest) as (h2 & q2 & E2 & HR2).
    rewrite E2. cbn [hbind]. destruct (lcrun s1 rest) as [s2 rs]. cbn [fst snd] in *.
    do 2 eexists. split; [reflexivity|exact HR2].
Qed.

(** every history of public calls and clones, then the final drop: no memory error, the results of
    layer L, every cell freed *)
Theorem clone_history_safe c cb os :
  Forall hcop_ok os ->
  exists h q h',
    hcrun (fst (hnew heap0 c)) (snd (hnew heap0 c)) os = HOk (h, q, snd (lcrun (lru_new c cb) os)) /\
    R h q (fst (lcrun (lru_new c cb) os)) /\
    h_drop h q = HOk h' /\ (forall a, cells h' a = Free).
Proof.
  intros Hok.
  assert (Hinv : lru_inv (lru_new c cb)) by (split; [constructor|cbn; lia]).
  destruct (hcrun_refines os _ _ _ (new_refines c cb) Hinv Hok) as (h & q & E & HR).
  destruct (drop_refines h q _ HR) as (h' & Ed & Hall).
  exists h, q, h'. auto.
Qed.

(** non-vacuity: clone a cache that has recycled a node, keep using the clone, clone again *)
Example clone_history_runs :
  let os := [COp (HPut 1 10); COp (HPut 2 20); COp (HPut 3 30); CClone; COp (HGetMut 2 (Some 21));
             CIter (mkKind true true 0) [(Front, Some 77)] [(Back, None)] [];
             COp (HPut 4 40); CClone; COp (HRemove 3)]%Z in
  Forall hcop_ok os /\
  match hcrun (fst (hnew heap0 2)) (snd (hnew heap0 2)) os with
  | HOk (h, q, outs) => outs = snd (lcrun (lru_new 2 true) os)
      /\ hhead q = 8 /\ In (CO (OPut (PEvicted 3%Z 77%Z))) outs
  | HErr _ => False
  end.
Proof.
  cbn zeta. split; [repeat constructor; cbn; intros; reflexivity|].
  vm_compute. split; [reflexivity|]. split; [reflexivity|]. do 6 right. now left.
Qed.

(** ** independence of clone and original (C16): both live in the same heap; whatever is done to one — any history of
    operations, or its drop — the other answers exactly as if it were alone *)
Lemma fam_run os : forall h F1 q l F2 fl s,
  fam h (F1 ++ (q, l) :: F2) fl -> entries l = items s -> hcap q = cap s ->
  exists h' q' l', hrun h q os = HOk (h', q', snd (HeapRun.lrun s os)) /\ fam h' (F1 ++ (q', l') :: F2) fl /\
                   entries l' = items (fst (HeapRun.lrun s os)) /\ hcap q' = cap (fst (HeapRun.lrun s os)).
Proof.
  induction os as [|o rest IH]; intros h F1 q l F2 fl s Hf El Ec.
  - cbn. exists h, q, l. auto.
  - cbn [hrun HeapRun.lrun].
    destruct (fam_step h F1 q l F2 fl s o Hf El Ec) as (h1 & q1 & l1 & E1 & Hf1 & El1 & Ec1 & _).
    rewrite E1. cbn [hbind]. destruct (HeapRun.lstep s o) as [s1 r1]. cbn [fst snd] in *.
    destruct (IH h1 F1 q1 l1 F2 fl s1 Hf1 El1 Ec1) as (h2 & q2 & l2 & E2 & Hf2 & El2 & Ec2).
    rewrite E2. cbn [hbind]. destruct (HeapRun.lrun s1 rest) as [s2 rs]. cbn [fst snd] in *.
    exists h2, q2, l2. auto.
Qed.

Theorem clone_independent h q s os1 os2 :
  R h q s -> length (items s) <= cap s ->
  exists h1 q1, h_clone h q = HOk (h1, q1) /\
  exists h2 q1', hrun h1 q1 os1 = HOk (h2, q1', snd (HeapRun.lrun s os1)) /\
  exists h3 q', hrun h2 q os2 = HOk (h3, q', snd (HeapRun.lrun s os2)) /\
  exists h4, h_drop h3 q1' = HOk h4 /\ R h4 q' (fst (HeapRun.lrun s os2)).
Proof.
  intros (l & Hwf & Ht & El & Ec) Hlen.
  assert (Hl : length l <= hcap q).
  { rewrite Ec. rewrite <- El in Hlen. unfold entries in Hlen. now rewrite map_length in Hlen. }
  destruct (h_clone_ok h [] q l [] (R_fam _ _ _ Hwf Ht) Hl) as (h1 & q1 & l1 & E & Hf & He & Hc & _).
  exists h1, q1. split; [exact E|]. cbn [app] in Hf.
  destruct (fam_run os1 h1 [] q1 l1 [(q, l)] [] s Hf) as (h2 & q1' & l1' & E1 & Hf1 & _); [congruence|congruence|].
  exists h2, q1'. split; [exact E1|]. cbn [app] in Hf1.
  destruct (fam_run os2 h2 [(q1', l1')] q l [] [] s Hf1 El Ec) as (h3 & q' & l' & E2 & Hf2 & El2 & Ec2).
  exists h3, q'. split; [exact E2|]. cbn [app] in Hf2.
  destruct (fam_drop h3 [] q1' l1' [(q', l')] Hf2) as (h4 & Ed & Hf4 & _).
  exists h4. split; [exact Ed|]. cbn [app] in Hf4.
  destruct (fam_R _ _ _ Hf4) as (Hwf4 & Ht4). exists l'. auto.
Qed.
