(** * Layer H — SegmentedCache (src/lru/segmented.rs) on the heap: two RawLRU lists in one heap,
    nodes promoted and demoted between them without being freed.  Written over the heap-level
    primitives exactly as the Rust code is written over RawLRU; refines Slru.v. *)
From VF Require Import Base Lru Slru BaseFacts LruFacts Counts PrimFacts SlruFacts
  Heap HeapIterDef HeapSlruDef HeapFacts HeapOps HeapRun HeapPrim HeapFrame HeapMulti HeapIter HeapClone.
From Coq Require Import List Arith Lia Permutation.
Import ListNotations.
Local Open Scope nat_scope.

(** ** the refinement relation *)
Definition RS (Fx : list hlist) (h : heap) (s : hslru) (ls : slru) : Prop :=
  exists la lb, fam h ((hprob s, la) :: (hprot s, lb) :: Fx) [] /\
                entries la = items (prob ls) /\ entries lb = items (prot ls) /\
                hcap (hprob s) = cap (prob ls) /\ hcap (hprot s) = cap (prot ls).

(** the same step in the layer-L model *)
Definition l_promote (pa pb : lru) (e : entry) : res slru :=
  do (prot1, ev) <- put_or_evict_nonnull pb e;
  match ev with
  | None => Ok (mkSlru pa prot1)
  | Some e' => do (prob2, _) <- put_nonnull pa e'; Ok (mkSlru prob2 prot1)
  end.

Lemma move_to_protected_unfold s k neww :
  move_to_protected s k neww =
  match remove_ent (prob s) k with
  | (prob1, Some (k0, v0)) => l_promote prob1 (prot s) (k0, match neww with Some w => w | None => v0 end)
  | (_, None) => Ok s
  end.
Proof. reflexivity. Qed.

Definition RS2 (h : heap) (qa qb : hlru) (pa pb : lru) (la lb : list (addr * entry)) : Prop :=
  entries la = items pa /\ entries lb = items pb /\ hcap qa = cap pa /\ hcap qb = cap pb.

Lemma entries_len (l : list (addr * entry)) : length (entries l) = length l.
Proof. unfold entries. apply map_length. Qed.

Lemma find_zero (l : list entry) k : cntl l k = 0 -> Base.find k l = None.
Proof. apply cntl_zero_find. Qed.

Theorem promote_refines Fx h qa la qb lb a k v1 pa pb :
  fam h ((qa, la) :: (qb, lb) :: Fx) [(a, (k, v1))] ->
  RS2 h qa qb pa pb la lb ->
  1 <= cap pa -> 1 <= cap pb -> llen pa < cap pa -> llen pb <= cap pb ->
  (forall x, cntl (items pa) x + cntl (items pb) x <= 1) ->
  cntl (items pa) k = 0 -> cntl (items pb) k = 0 ->
  exists h' qa' qb' pa' pb' la' lb',
    hs_promote h qa qb a = HOk (h', mkHslru qa' qb') /\
    l_promote pa pb (k, v1) = Ok (mkSlru pa' pb') /\
    fam h' ((qa', la') :: (qb', lb') :: Fx) [] /\ RS2 h' qa' qb' pa' pb' la' lb' /\
    (exists rest, lb' = (a, (k, v1)) :: rest) /\ fresh h' = fresh h.
Proof.
  intros Hf (Ea & Eb & Eca & Ecb) Hc1 Hc2 Hl1 Hl2 Hd Hka Hkb.
  unfold hs_promote, l_promote, put_or_evict_nonnull.
  assert (Hfb : Base.find k (entries lb) = None) by (rewrite Eb; now apply cntl_zero_find).
  destruct (put_nonnull_spec pb (k, v1) Hc2) as [[Hlt ->]|[Hge (rest & [vk vv] & Hit & ->)]]; cbn [bind].
  - (* room in protected *)
    unfold llen in Hlt. rewrite <- Eb, entries_len, <- Ecb in Hlt.
    destruct (fam_put_or_evict_room h [(qa, la)] qb lb Fx [] a k v1 [] Hf Hfb Hlt)
      as (h' & qb' & -> & Hf' & E1 & E2 & E3 & Ef). cbn [hbind].
    exists h', qa, qb', pa, (with_items pb ((k, v1) :: items pb)), la, ((a, (k, v1)) :: lb).
    split; [reflexivity|]. split; [reflexivity|]. split; [exact Hf'|]. split; [|split; [eauto|exact Ef]].
    repeat split; cbn [with_items items cap entries map snd]; try assumption; try congruence. now rewrite <- Eb.
  - (* protected full: its least recently used node is demoted *)
    assert (Hsl : exists lb0 o, lb = lb0 ++ [(o, (vk, vv))] /\ entries lb0 = rest).
    { apply entries_split_last. rewrite Eb, Hit. apply split_last_snoc. }
    destruct Hsl as (lb0 & o & -> & Erest).
    unfold llen in Hge. rewrite <- Eb, entries_len, <- Ecb in Hge.
    destruct (fam_put_or_evict_full h [(qa, la)] qb lb0 o vk vv Fx [] a k v1 [] Hf Hfb Hge)
      as (h1 & qb' & -> & Hf1 & E1 & E2 & E3 & Ef1). cbn [hbind app] in *.
    (* the demoted entry is not in probationary, which has room *)
    assert (Hvk : cntl (items pa) vk = 0).
    { specialize (Hd vk). rewrite Hit, cntl_app, cntl_cons, cntl_nil, ind_eqb_refl in Hd. lia. }
    assert (Hfa : Base.find vk (entries la) = None) by (rewrite Ea; now apply cntl_zero_find).
    assert (Hla : length la < hcap qa) by (unfold llen in Hl1; rewrite <- Ea, entries_len, <- Eca in Hl1; exact Hl1).
    destruct (fam_put_nonnull_room h1 [] qa la ((qb', (a, (k, v1)) :: lb0) :: Fx) [] o vk vv [] Hf1 Hfa Hla)
      as (h2 & qa' & -> & Hf2 & F1 & F2 & F3 & Ef2). cbn [hbind app] in *.
    destruct (put_nonnull_spec pa (vk, vv) Hc1) as [[_ ->]|[Hge2 _]]; [|lia]. cbn [bind].
    exists h2, qa', qb', (with_items pa ((vk, vv) :: items pa)), (with_items pb ((k, v1) :: rest)),
           ((o, (vk, vv)) :: la), ((a, (k, v1)) :: lb0).
    split; [reflexivity|]. split; [reflexivity|]. split; [exact Hf2|]. split; [|split; [eauto|congruence]].
    repeat split; cbn [with_items items cap entries map snd]; try congruence; f_equal; assumption.
Qed.

(** ** put *)
Lemma prob_after_remove pa pb k old :
  slru_inv (mkSlru pa pb) -> Base.find k (items pa) = Some old ->
  let pa' := with_items pa (remove_key k (items pa)) in
  llen pa' < cap pa' /\ (forall x, cntl (items pa') x + cntl (items pb) x <= 1) /\
  cntl (items pa') k = 0 /\ cntl (items pb) k = 0.
Proof.
  intros (Hc1 & Hc2 & Hl1 & Hl2 & Hd) Hf. cbn [prob prot] in *. cbn zeta.
  pose proof (cntl_find_some _ _ _ Hf) as Hpos. pose proof (length_remove_key_in _ _ Hpos) as Hlen.
  unfold llen in *. cbn [with_items items cap].
  split; [lia|]. split; [|split].
  - intros x. rewrite cntl_remove_key. specialize (Hd x). lia.
  - rewrite cntl_remove_key, ind_eqb_refl. specialize (Hd k). lia.
  - specialize (Hd k). lia.
Qed.

Theorem hs_put_refines Fx h s ls k v :
  RS Fx h s ls -> slru_inv ls ->
  exists h' s' ls' r, hs_put h s k v = HOk (h', s', r) /\ sput ls k v = Ok (ls', r) /\ RS Fx h' s' ls'.
Proof.
  intros (la & lb & Hf & Ea & Eb & Eca & Ecb) Hinv.
  destruct s as [qa qb]. destruct ls as [pa pb]. cbn [hprob hprot prob prot] in *.
  pose proof (fam_member h [(qa, la)] qb lb Fx [] Hf) as Hwb.
  pose proof (fam_member h [] qa la ((qb, lb) :: Fx) [] Hf) as Hwa.
  pose proof Hinv as (Hc1 & Hc2 & Hl1 & Hl2 & Hd). cbn [prob prot] in *.
  unfold hs_put, sput. cbn [hprob hprot prob prot].
  destruct (update_spec pb k v) as [[Hn Eu]|(old & Ho & Eu)]; rewrite Eu.
  - (* not in protected *)
    rewrite (idx_find_miss h qb lb k Hwb) by (now rewrite Eb). cbn [hbind].
    rewrite (fam_contains h [] qa la ((qb, lb) :: Fx) [] pa k Hf Ea). cbn [hbind]. unfold contains, mem.
    destruct (Base.find k (items pa)) as [old|] eqn:Hfa.
    + (* probationary hit: the node is promoted with the new value *)
      rewrite <- Ea in Hfa. destruct (find_split la k old Hfa) as (la1 & a & la2 & ->). rewrite Ea in Hfa.
      destruct (fam_remove_ent_hit h [] qa la1 a k old la2 ((qb, lb) :: Fx) [] Hf)
        as (h1 & qa1 & -> & Hf1 & A1 & A2 & A3 & Af). cbn [hbind app] in *.
      destruct (fam_swap_value h1 _ [] a k old [] v Hf1) as (h2 & -> & Hf2 & Af2). cbn [hbind app] in *.
      destruct (prob_after_remove pa pb k old Hinv Hfa) as (P1 & P2 & P3 & P4).
      assert (HR2 : RS2 h2 qa1 qb (with_items pa (remove_key k (items pa))) pb (la1 ++ la2) lb).
      { repeat split; cbn [with_items items cap]; try congruence.
        destruct (find_entries_split la1 a k old la2 (proj2 (proj2 Hwa))) as [_ E]. rewrite <- Ea, E. apply entries_app. }
      destruct (promote_refines Fx h2 qa1 (la1 ++ la2) qb lb a k v _ pb Hf2 HR2 Hc1 Hc2 P1 Hl2 P2 P3 P4)
        as (h' & qa' & qb' & pa' & pb' & la' & lb' & -> & EL & Hf' & (R1 & R2 & R3 & R4) & _ & _).
      cbn [hbind]. rewrite move_to_protected_unfold. cbn [prob prot].
      destruct (remove_ent_spec pa k) as [[Hn' _]|(v0 & Hv0 & ->)]; [congruence|].
      assert (v0 = old) by congruence. subst v0. rewrite EL. cbn [bind].
      do 4 eexists. split; [reflexivity|]. split; [reflexivity|].
      exists la', lb'. cbn [hprob hprot prob prot]. auto.
    + (* a new key: put into probationary *)
      destruct (fam_put h [] qa la ((qb, lb) :: Fx) [] pa k v Hf Ea Eca) as (h' & qa' & la' & -> & Hf' & El' & Ec' & _).
      cbn [hbind]. destruct (Lru.put pa k v) as [[pa1 r] cbs]. cbn [fst snd] in *.
      do 4 eexists. split; [reflexivity|]. split; [reflexivity|].
      exists la', lb. cbn [hprob hprot prob prot]. auto.
  - (* in protected: updated in place *)
    rewrite <- Eb in Ho. destruct (find_split lb k old Ho) as (lb1 & a & lb2 & ->).
    rewrite (idx_find_hit h qb _ a k old Hwb) by (apply in_or_app; right; now left). cbn [hbind].
    destruct (h_update_framed h qb lb1 a k old lb2 v Hwb) as (h' & -> & HF). cbn [hbind].
    pose proof (fam_framed h [(qa, la)] qb _ Fx [] h' qb _ Hf HF) as Hf'.
    do 4 eexists. split; [reflexivity|]. split; [reflexivity|].
    exists la, ((a, (k, v)) :: lb1 ++ lb2). cbn [hprob hprot prob prot with_items items cap].
    split; [exact Hf'|]. split; [exact Ea|]. split; [|auto].
    destruct (find_entries_split lb1 a k old lb2 (proj2 (proj2 Hwb))) as [_ E]. rewrite <- Eb, E.
    cbn [entries map snd]. now rewrite entries_app.
Qed.

(** ** get / get_mut: the reference handed back points into a linked node of the protected list *)
Theorem hs_get_mut_refines Fx h s ls k w :
  RS Fx h s ls -> slru_inv ls ->
  exists h' s' ls' r, hs_get_mut h s k w = HOk (h', s', r) /\ sget_mut ls k w = Ok (ls', r) /\ RS Fx h' s' ls'.
Proof.
  intros (la & lb & Hf & Ea & Eb & Eca & Ecb) Hinv.
  destruct s as [qa qb]. destruct ls as [pa pb]. cbn [hprob hprot prob prot] in *.
  pose proof Hinv as (Hc1 & Hc2 & Hl1 & Hl2 & Hd). cbn [prob prot] in *.
  unfold hs_get_mut, sget_mut. cbn [hprob hprot prob prot].
  destruct (fam_get_mut h [(qa, la)] qb lb Fx [] pb k w Hf Eb Ecb) as (h1 & lb1 & -> & Hf1 & Eb1 & Ecb1 & _).
  cbn [hbind app] in *.
  destruct (get_mut_spec pb k w) as [[Hn Eg]|(v0 & Hv & Eg)]; rewrite Eg in *; cbn [fst snd] in *.
  - (* not in protected *)
    rewrite (fam_peek h1 [] qa la ((qb, lb1) :: Fx) [] pa k Hf1 Ea). cbn [hbind]. unfold peek.
    destruct (Base.find k (items pa)) as [v0|] eqn:Hfa.
    + pose proof (fam_member h1 [] qa la ((qb, lb1) :: Fx) [] Hf1) as Hwa.
      rewrite <- Ea in Hfa. destruct (find_split la k v0 Hfa) as (la1 & a & la2 & ->). rewrite Ea in Hfa.
      unfold hs_move_to_protected. cbn [hprob hprot].
      destruct (fam_remove_ent_hit h1 [] qa la1 a k v0 la2 ((qb, lb1) :: Fx) [] Hf1)
        as (h2 & qa1 & -> & Hf2 & A1 & A2 & A3 & Af). cbn [hbind app] in *.
      destruct (prob_after_remove pa pb k v0 Hinv Hfa) as (P1 & P2 & P3 & P4).
      assert (HR2 : RS2 h2 qa1 qb (with_items pa (remove_key k (items pa))) pb (la1 ++ la2) lb1).
      { repeat split; cbn [with_items items cap]; try congruence.
        destruct (find_entries_split la1 a k v0 la2 (proj2 (proj2 Hwa))) as [_ E]. rewrite <- Ea, E. apply entries_app. }
      destruct (promote_refines Fx h2 qa1 (la1 ++ la2) qb lb1 a k v0 _ pb Hf2 HR2 Hc1 Hc2 P1 Hl2 P2 P3 P4)
        as (h3 & qa' & qb' & pa' & pb' & la' & lb' & -> & EL & Hf3 & (R1 & R2 & R3 & R4) & (rest & ->) & _).
      cbn [hbind].
      (* the write through the reference *)
      pose proof (fam_member h3 [(qa', la')] qb' _ Fx [] Hf3) as Hwb3.
      destruct (h_write_ok h3 qb' [] a k v0 rest w Hwb3) as (h4 & -> & Hwb4 & Ef4 & Hfr4). cbn [hbind snd app] in *.
      assert (HF : framed h3 qb' ((a, (k, v0)) :: rest) h4 qb' ((a, (k, wval w v0)) :: rest)).
      { apply framed_same; auto; [intros y; cbn [addrs map fst]; tauto|].
        intros x (_ & _ & C). apply Hfr4. intros ->. apply C. now left. }
      pose proof (fam_framed h3 [(qa', la')] qb' _ Fx [] h4 qb' _ Hf3 HF) as Hf4.
      rewrite move_to_protected_unfold. cbn [prob prot].
      destruct (remove_ent_spec pa k) as [[Hn' _]|(v1 & Hv1 & ->)]; [congruence|].
      assert (v1 = v0) by congruence. subst v1.
      (* the model applies the write at the move *)
      assert (EL' : l_promote (with_items pa (remove_key k (items pa))) pb (k, wval w v0)
                    = Ok (mkSlru pa' (with_items pb' ((k, wval w v0) :: tl (items pb'))))).
      { clear - EL Hc2 R2. unfold l_promote, put_or_evict_nonnull in *.
        destruct (put_nonnull_spec pb (k, v0) Hc2) as [[Hlt E0]|[Hge (rs & vic & Hit & E0)]];
        destruct (put_nonnull_spec pb (k, wval w v0) Hc2) as [[Hlt' E1]|[Hge' (rs' & vic' & Hit' & E1)]]; try lia;
        rewrite E0 in EL; rewrite E1; cbn [bind] in *.
        - inversion EL; subst. cbn [with_items items cap tl]. reflexivity.
        - rewrite Hit in Hit'. apply app_inj_tail in Hit'. destruct Hit' as [<- <-].
          destruct (put_nonnull (with_items pa (remove_key k (items pa))) vic) as [[p2 o2]|]; cbn [bind] in *; [|discriminate].
          inversion EL; subst. cbn [with_items items cap tl]. reflexivity. }
      unfold wval in EL'. rewrite EL'. cbn [bind].
      do 4 eexists. split; [reflexivity|]. split; [reflexivity|].
      exists la', ((a, (k, wval w v0)) :: rest). cbn [hprob hprot prob prot with_items items cap].
      split; [exact Hf4|]. split; [exact R1|]. split; [|auto].
      cbn [entries map snd] in *. rewrite <- R2. reflexivity.
    + do 4 eexists. split; [reflexivity|]. split; [reflexivity|].
      exists la, lb1. cbn [hprob hprot prob prot]. auto.
  - (* in protected: moved to the front *)
    do 4 eexists. split; [reflexivity|]. split; [reflexivity|].
    exists la, lb1. cbn [hprob hprot prob prot]. auto.
Qed.

(** ** peek, peek_mut, contains, remove, purge *)
Theorem hs_peek_refines Fx h s ls k :
  RS Fx h s ls -> hs_peek h s k = HOk (speek ls k).
Proof.
  intros (la & lb & Hf & Ea & Eb & Eca & Ecb). destruct s as [qa qb]. destruct ls as [pa pb].
  cbn [hprob hprot prob prot] in *. unfold hs_peek, speek. cbn [hprob hprot prob prot].
  rewrite (fam_peek h [(qa, la)] qb lb Fx [] pb k Hf Eb). cbn [hbind].
  destruct (peek pb k); [reflexivity|]. apply (fam_peek h [] qa la ((qb, lb) :: Fx) [] pa k Hf Ea).
Qed.

Theorem hs_contains_refines Fx h s ls k :
  RS Fx h s ls -> hs_contains h s k = HOk (scontains ls k).
Proof.
  intros (la & lb & Hf & Ea & Eb & Eca & Ecb). destruct s as [qa qb]. destruct ls as [pa pb].
  cbn [hprob hprot prob prot] in *. unfold hs_contains, scontains. cbn [hprob hprot prob prot].
  rewrite (fam_contains h [(qa, la)] qb lb Fx [] pb k Hf Eb). cbn [hbind].
  destruct (contains pb k); [reflexivity|]. apply (fam_contains h [] qa la ((qb, lb) :: Fx) [] pa k Hf Ea).
Qed.

Theorem hs_peek_mut_refines Fx h s ls k w :
  RS Fx h s ls ->
  exists h', hs_peek_mut h s k w = HOk (h', snd (speek_mut ls k w)) /\ RS Fx h' s (fst (speek_mut ls k w)).
Proof.
  intros (la & lb & Hf & Ea & Eb & Eca & Ecb). destruct s as [qa qb]. destruct ls as [pa pb].
  cbn [hprob hprot prob prot] in *. unfold hs_peek_mut, speek_mut. cbn [hprob hprot prob prot].
  destruct (fam_peek_mut h [(qa, la)] qb lb Fx [] pb k w Hf Eb Ecb) as (h1 & lb1 & -> & Hf1 & Eb1 & Ecb1 & _).
  cbn [hbind app] in *.
  destruct (peek_mut_spec pb k w) as [[_ E]|(v & _ & E)]; rewrite E in *; cbn [fst snd] in *.
  - destruct (fam_peek_mut h1 [] qa la ((qb, lb1) :: Fx) [] pa k w Hf1 Ea Eca) as (h2 & la1 & -> & Hf2 & Ea1 & Eca1 & _).
    cbn [app] in *. destruct (peek_mut pa k w) as [pa1 r]. cbn [fst snd] in *.
    exists h2. split; [reflexivity|]. exists la1, lb1. cbn [hprob hprot prob prot]. auto.
  - exists h1. split; [reflexivity|]. exists la, lb1. cbn [hprob hprot prob prot]. auto.
Qed.

Theorem hs_remove_refines Fx h s ls k :
  RS Fx h s ls ->
  exists h' s', hs_remove h s k = HOk (h', s', snd (sremove ls k)) /\ RS Fx h' s' (fst (sremove ls k)).
Proof.
  intros (la & lb & Hf & Ea & Eb & Eca & Ecb). destruct s as [qa qb]. destruct ls as [pa pb].
  cbn [hprob hprot prob prot] in *. unfold hs_remove, sremove. cbn [hprob hprot prob prot].
  destruct (fam_remove h [] qa la ((qb, lb) :: Fx) [] pa k Hf Ea Eca) as (h1 & qa1 & la1 & -> & Hf1 & Ea1 & Eca1 & _).
  cbn [hbind app] in *.
  destruct (remove_spec pa k) as [[_ E]|(v & _ & E)]; rewrite E in *; cbn [fst snd] in *.
  - destruct (fam_remove h1 [(qa1, la1)] qb lb Fx [] pb k Hf1 Eb Ecb) as (h2 & qb1 & lb1 & -> & Hf2 & Eb1 & Ecb1 & _).
    cbn [hbind app] in *. destruct (Lru.remove pb k) as [[pb1 r] cbs]. cbn [fst snd] in *.
    do 2 eexists. split; [reflexivity|]. exists la1, lb1. cbn [hprob hprot prob prot]. auto.
  - do 2 eexists. split; [reflexivity|]. exists la1, lb. cbn [hprob hprot prob prot]. auto.
Qed.

Theorem hs_purge_refines Fx h s ls :
  RS Fx h s ls -> exists h' s', hs_purge h s = HOk (h', s') /\ RS Fx h' s' (spurge ls).
Proof.
  intros (la & lb & Hf & Ea & Eb & Eca & Ecb). destruct s as [qa qb]. destruct ls as [pa pb].
  cbn [hprob hprot prob prot] in *. unfold hs_purge, spurge. cbn [hprob hprot prob prot].
  destruct (fam_purge h [] qa la ((qb, lb) :: Fx) [] pa Hf Ea Eca) as (h1 & qa1 & la1 & -> & Hf1 & Ea1 & Eca1 & _).
  cbn [hbind app] in *.
  destruct (fam_purge h1 [(qa1, la1)] qb lb Fx [] pb Hf1 Eb Ecb) as (h2 & qb1 & lb1 & -> & Hf2 & Eb1 & Ecb1 & _).
  cbn [hbind app] in *.
  do 2 eexists. split; [reflexivity|]. exists la1, lb1. cbn [hprob hprot prob prot]. auto.
Qed.

(** ** put_protected *)
Theorem hs_put_protected_refines Fx h s ls k v :
  RS Fx h s ls ->
  exists h' s', hs_put_protected h s k v = HOk (h', s', snd (sput_protected ls k v)) /\
                RS Fx h' s' (fst (sput_protected ls k v)).
Proof.
  intros (la & lb & Hf & Ea & Eb & Eca & Ecb). destruct s as [qa qb]. destruct ls as [pa pb].
  cbn [hprob hprot prob prot] in *. unfold hs_put_protected, sput_protected. cbn [hprob hprot prob prot].
  destruct (fam_remove h [] qa la ((qb, lb) :: Fx) [] pa k Hf Ea Eca) as (h1 & qa1 & la1 & -> & Hf1 & Ea1 & Eca1 & _).
  cbn [hbind app] in *.
  destruct (fam_put h1 [(qa1, la1)] qb lb Fx [] pb k v Hf1 Eb Ecb) as (h2 & qb1 & lb1 & -> & Hf2 & Eb1 & Ecb1 & _).
  cbn [hbind app] in *.
  destruct (remove_spec pa k) as [[_ E]|(old & _ & E)]; rewrite E in *; cbn [fst snd] in *;
  destruct (Lru.put pb k v) as [[pb1 r] cbs]; cbn [fst snd] in *;
  (do 2 eexists; split; [reflexivity|]; exists la1, lb1; cbn [hprob hprot prob prot]; auto).
Qed.

(** ** the per-segment accessors *)
Definition lseg (s : slru) (p : bool) : lru := if p then prot s else prob s.
Definition lwith_seg (s : slru) (p : bool) (l : lru) : slru := if p then mkSlru (prob s) l else mkSlru l (prot s).

Theorem hs_seg_refines Fx h s ls p o :
  RS Fx h s ls ->
  exists h' s', hs_seg h s p o = HOk (h', s', snd (lstep (lseg ls p) o)) /\
                RS Fx h' s' (lwith_seg ls p (fst (lstep (lseg ls p) o))).
Proof.
  intros (la & lb & Hf & Ea & Eb & Eca & Ecb). destruct s as [qa qb]. destruct ls as [pa pb].
  cbn [hprob hprot prob prot] in *. unfold hs_seg, lseg, lwith_seg. cbn [hprob hprot prob prot]. destruct p.
  - destruct (fam_step h [(qa, la)] qb lb Fx [] pb o Hf Eb Ecb) as (h' & q' & l' & -> & Hf' & El' & Ec' & _).
    cbn [hbind app] in *. do 2 eexists. split; [reflexivity|]. exists la, l'. cbn [hprob hprot prob prot]. auto.
  - destruct (fam_step h [] qa la ((qb, lb) :: Fx) [] pa o Hf Ea Eca) as (h' & q' & l' & -> & Hf' & El' & Ec' & _).
    cbn [hbind app] in *. do 2 eexists. split; [reflexivity|]. exists l', lb. cbn [hprob hprot prob prot]. auto.
Qed.

(** ** new and Drop *)
Lemma fam_one h q s : R h q s -> exists l, fam h [(q, l)] [] /\ entries l = items s /\ hcap q = cap s.
Proof.
  intros (l & Hwf & Ht & El & Ec). exists l. split; [|auto]. constructor.
  - intros q0 l0 [E|[]]. now inversion E; subst.
  - cbn [flat_map fp fst snd addrs map app]. rewrite !app_nil_r. exact (wf_nodup _ _ _ Hwf).
  - intros a k v [].
  - intros a Ha. apply Ht. apply outside_of. intros Hc. apply Ha. cbn [flat_map fp fst snd addrs map app].
    now rewrite !app_nil_r.
Qed.

Theorem hs_new_refines pc fc :
  RS [] (fst (hs_new heap0 pc fc)) (snd (hs_new heap0 pc fc)) (slru_new pc fc).
Proof.
  unfold hs_new.
  destruct (fam_new heap0 [] pc fam_empty) as (F1 & C1 & _).
  destruct (hnew heap0 pc) as [h1 qa] eqn:E1. cbn [fst snd] in *.
  destruct (fam_new h1 [(qa, [])] fc F1) as (F2 & C2 & _).
  destruct (hnew h1 fc) as [h2 qb] eqn:E2. cbn [fst snd] in *.
  exists [], []. cbn [hprob hprot slru_new prob prot lru_new items cap entries map].
  split; [|auto].
  (* the family is listed protected-first by [fam_new]; order does not matter *)
  destruct F2 as [Hwf Hnd Hfl Htight]. constructor.
  - intros q l [E|[E|[]]]; apply Hwf; [right; now left|now left].
  - eapply Permutation_NoDup; [|exact Hnd]. cbn [flat_map fp fst snd addrs map app].
    apply (Permutation_app_comm [hhead qb; htail qb] [hhead qa; htail qa]).
  - exact Hfl.
  - intros a Ha. apply Htight. intros Hc. apply Ha. cbn [flat_map fp fst snd addrs map app In] in *. tauto.
Qed.

Theorem hs_drop_ok h s ls :
  RS [] h s ls -> exists h', hs_drop h s = HOk h' /\ forall a, cells h' a = Free.
Proof.
  intros (la & lb & Hf & _). destruct s as [qa qb]. cbn [hprob hprot] in *. unfold hs_drop. cbn [hprob hprot].
  destruct (fam_drop h [] qa la [(qb, lb)] Hf) as (h1 & -> & Hf1 & _). cbn [hbind app] in *.
  destruct (fam_drop h1 [] qb lb [] Hf1) as (h2 & -> & Hf2 & _). cbn [app] in *.
  exists h2. split; [reflexivity|]. intros a. apply (fam_tight _ _ _ Hf2). intros [].
Qed.

(** ** [Clone for SegmentedCache] *)
Theorem hs_clone_ok h F s la lb :
  fam h F [] -> In (hprob s, la) F -> In (hprot s, lb) F ->
  length la <= hcap (hprob s) -> length lb <= hcap (hprot s) ->
  exists h' s' la' lb', hs_clone h s = HOk (h', s') /\
    fam h' ((hprot s', lb') :: (hprob s', la') :: F) [] /\
    entries la' = entries la /\ entries lb' = entries lb /\
    hcap (hprob s') = hcap (hprob s) /\ hcap (hprot s') = hcap (hprot s) /\ fresh h <= fresh h'.
Proof.
  intros Hf Ha Hb Hla Hlb. unfold hs_clone.
  destruct (h_clone_in h F _ la Hf Ha Hla) as (h1 & qa & la' & -> & Hf1 & Ea & Ca & _ & _ & Hfr1). cbn [hbind].
  destruct (h_clone_in h1 _ _ lb Hf1 (or_intror Hb) Hlb) as (h2 & qb & lb' & -> & Hf2 & Eb & Cb & _ & _ & Hfr2). cbn [hbind].
  exists h2, (mkHslru qa qb), la', lb'. cbn [hprob hprot]. split; [reflexivity|]. split; [exact Hf2|].
  repeat (split; [assumption|]). lia.
Qed.

Lemma lru_inv_of h q l p : wf h q l -> entries l = items p -> llen p <= cap p -> lru_inv p.
Proof. intros (_ & _ & Hnd) E Hl. split; [now rewrite <- E|exact Hl]. Qed.

Lemma RS_sclone Fx h s ls : RS Fx h s ls -> slru_inv ls -> sclone ls = ls.
Proof.
  intros (la & lb & Hf & Ea & Eb & Ca & Cb) (_ & _ & Hla & Hlb & _).
  assert (Hia : lru_inv (prob ls)).
  { apply (lru_inv_of h (hprob s) la); auto. apply (fam_wf _ _ _ Hf). now left. }
  assert (Hib : lru_inv (prot ls)).
  { apply (lru_inv_of h (hprot s) lb); auto. apply (fam_wf _ _ _ Hf). right. now left. }
  unfold sclone. rewrite (clone_id _ Hia), (clone_id _ Hib). now destruct ls.
Qed.

Theorem hs_clone_refines Fx h s ls :
  RS Fx h s ls -> slru_inv ls ->
  exists h' s', hs_clone_replace h s = HOk (h', s') /\ RS Fx h' s' (sclone ls).
Proof.
  intros HR Hinv. rewrite (RS_sclone Fx h s ls HR Hinv).
  destruct HR as (la & lb & Hf & Ea & Eb & Ca & Cb). destruct Hinv as (_ & _ & Hla & Hlb & _).
  assert (La : length la <= hcap (hprob s)) by (rewrite Ca, <- entries_len, Ea; exact Hla).
  assert (Lb : length lb <= hcap (hprot s)) by (rewrite Cb, <- entries_len, Eb; exact Hlb).
  destruct (hs_clone_ok h _ s la lb Hf (or_introl eq_refl) (or_intror (or_introl eq_refl)) La Lb)
    as (h1 & s' & la' & lb' & E & Hf1 & Ea' & Eb' & Ca' & Cb' & _).
  unfold hs_clone_replace, hs_drop. rewrite E. cbn [hbind].
  destruct (fam_drop_perm h1 _ (hprob s) la ((hprot s', lb') :: (hprob s', la') :: (hprot s, lb) :: Fx) Hf1)
    as (h2 & -> & Hf2 & _).
  { apply Permutation_sym. exact (Permutation_middle [(hprot s', lb'); (hprob s', la')] ((hprot s, lb) :: Fx) (hprob s, la)). }
  cbn [hbind].
  destruct (fam_drop_perm h2 _ (hprot s) lb ((hprot s', lb') :: (hprob s', la') :: Fx) Hf2) as (h3 & -> & Hf3 & _).
  { apply Permutation_sym. exact (Permutation_middle [(hprot s', lb'); (hprob s', la')] Fx (hprot s, lb)). }
  cbn [hbind]. exists h3, s'. split; [reflexivity|].
  exists la', lb'. split; [exact (fam_perm _ _ _ _ Hf3 (perm_swap _ _ _))|].
  cbn [prob prot]. repeat split; congruence.
Qed.

(** ** histories *)
Definition ls_step (s : slru) (o : sop) : res (slru * hout) :=
  match o with
  | SPut k v => do (s1, r) <- sput s k v; Ok (s1, OPut r)
  | SGetMut k w => do (s1, r) <- sget_mut s k w; Ok (s1, OVal r)
  | SPeek k => Ok (s, OVal (speek s k))
  | SPeekMut k w => Ok (fst (speek_mut s k w), OVal (snd (speek_mut s k w)))
  | SContains k => Ok (s, OBool (scontains s k))
  | SRemove k => Ok (fst (sremove s k), OVal (snd (sremove s k)))
  | SPurge => Ok (spurge s, OUnit)
  | SPutProtected k v => Ok (fst (sput_protected s k v), OPut (snd (sput_protected s k v)))
  | SClone => Ok (sclone s, OUnit)
  end.

Theorem slru_step_refines Fx h s ls o :
  RS Fx h s ls -> slru_inv ls ->
  exists h' s' ls' r, hs_step h s o = HOk (h', s', r) /\ ls_step ls o = Ok (ls', r) /\ RS Fx h' s' ls' /\ slru_inv ls'.
Proof.
  intros HR Hinv. destruct o as [k v|k w|k|k w|k|k| |k v|]; cbn [hs_step ls_step].
  - destruct (hs_put_refines Fx h s ls k v HR Hinv) as (h' & s' & ls' & r & -> & E & HR').
    destruct (sput_ok ls k v Hinv) as (s2 & r2 & E2 & Hinv2 & _). rewrite E in *. inversion E2; subst.
    cbn [hbind bind]. eauto 10.
  - destruct (hs_get_mut_refines Fx h s ls k w HR Hinv) as (h' & s' & ls' & r & -> & E & HR').
    destruct (sget_mut_ok ls k w Hinv) as (s2 & r2 & E2 & Hinv2 & _). rewrite E in *. inversion E2; subst.
    cbn [hbind bind]. eauto 10.
  - rewrite (hs_peek_refines Fx h s ls k HR). cbn [hbind]. eauto 10.
  - destruct (hs_peek_mut_refines Fx h s ls k w HR) as (h' & -> & HR'). cbn [hbind].
    destruct (speek_mut_ok ls k w Hinv) as (Hinv2 & _). eauto 10.
  - rewrite (hs_contains_refines Fx h s ls k HR). cbn [hbind]. eauto 10.
  - destruct (hs_remove_refines Fx h s ls k HR) as (h' & s' & -> & HR'). cbn [hbind].
    destruct (sremove_ok ls k Hinv) as (Hinv2 & _). eauto 10.
  - destruct (hs_purge_refines Fx h s ls HR) as (h' & s' & -> & HR'). cbn [hbind].
    do 4 eexists. split; [reflexivity|]. split; [reflexivity|]. split; [exact HR'|].
    destruct Hinv as (Hc1 & Hc2 & Hl1 & Hl2 & Hd). unfold spurge, purge. cbn [fst prob prot with_items items cap llen length].
    repeat split; cbn [prob prot llen items length cap with_items]; try lia; intros x; rewrite ?cntl_nil; cbn; lia.
  - destruct (hs_put_protected_refines Fx h s ls k v HR) as (h' & s' & -> & HR'). cbn [hbind].
    destruct (sput_protected_ok ls k v Hinv) as (Hinv2 & _). eauto 10.
  - destruct (hs_clone_refines Fx h s ls HR Hinv) as (h' & s' & -> & HR'). cbn [hbind].
    rewrite (RS_sclone Fx h s ls HR Hinv) in *. eauto 10.
Qed.

Fixpoint ls_run (s : slru) (os : list sop) : res (slru * list hout) :=
  match os with
  | [] => Ok (s, [])
  | o :: rest => do (s1, r) <- ls_step s o; do (s2, rs) <- ls_run s1 rest; Ok (s2, r :: rs)
  end.

Lemma slru_run_refines_gen Fx : forall os h s ls, RS Fx h s ls -> slru_inv ls ->
            exists h1 s1 ls1 outs, hs_run h s os = HOk (h1, s1, outs) /\ ls_run ls os = Ok (ls1, outs) /\ RS Fx h1 s1 ls1 /\ slru_inv ls1.
Proof.
  induction os as [|o rest IH]; intros h s ls HR Hinv; [cbn; eauto 10|].
  cbn [hs_run ls_run].
  destruct (slru_step_refines Fx h s ls o HR Hinv) as (h1 & s1 & ls1 & r & -> & -> & HR1 & Hinv1). cbn [hbind bind].
  destruct (IH h1 s1 ls1 HR1 Hinv1) as (h2 & s2 & ls2 & outs & -> & -> & HR2 & Hinv2). cbn [hbind bind]. eauto 10.
Qed.

Lemma slru_run_refines : forall os h s ls, RS [] h s ls -> slru_inv ls ->
            exists h1 s1 ls1 outs, hs_run h s os = HOk (h1, s1, outs) /\ ls_run ls os = Ok (ls1, outs) /\ RS [] h1 s1 ls1.
Proof.
  intros os h s ls HR Hinv. destruct (slru_run_refines_gen [] os h s ls HR Hinv) as (h1 & s1 & ls1 & outs & A & B & C & _). eauto 10.
Qed.

Theorem slru_history_safe pc fc os :
  1 <= pc -> 1 <= fc ->
  exists h s ls outs h',
    hs_run (fst (hs_new heap0 pc fc)) (snd (hs_new heap0 pc fc)) os = HOk (h, s, outs) /\
    ls_run (slru_new pc fc) os = Ok (ls, outs) /\ RS [] h s ls /\
    hs_drop h s = HOk h' /\ (forall a, cells h' a = Free).
Proof.
  intros H1 H2.
  pose proof slru_run_refines as G.
  destruct (G os _ _ _ (hs_new_refines pc fc) (slru_new_inv pc fc H1 H2)) as (h & s & ls & outs & E1 & E2 & HR).
  destruct (hs_drop_ok h s ls HR) as (h' & Ed & Hall).
  exists h, s, ls, outs, h'. auto.
Qed.

(** non-vacuity: promotion with demotion on a concrete history; the promoted node keeps its address *)
Example slru_runs :
  match hs_run (fst (hs_new heap0 1 1)) (snd (hs_new heap0 1 1))
               [SPut 1 10; SGetMut 1 None; SPut 2 20; SGetMut 2 (Some 21); SPut 3 30; SRemove 2; SPurge]%Z with
  | HOk (h, s, outs) =>
    ls_run (slru_new 1 1) [SPut 1 10; SGetMut 1 None; SPut 2 20; SGetMut 2 (Some 21); SPut 3 30; SRemove 2; SPurge]%Z
    = Ok (mkSlru (lru_new 1 false) (lru_new 1 false), outs)
  | HErr _ => False
  end.
Proof. vm_compute. reflexivity. Qed.

(** ** independence of a clone (C16): clone and original side by side in one heap; whatever history the clone goes
    through, the original is the same abstract cache on the same nodes *)
Theorem slru_clone_independent Fx h s ls os :
  RS Fx h s ls -> slru_inv ls ->
  exists h1 s1, hs_clone h s = HOk (h1, s1) /\
  exists h2 s1' ls1 outs, hs_run h1 s1 os = HOk (h2, s1', outs) /\ ls_run ls os = Ok (ls1, outs) /\
  exists la' lb', RS ((hprob s1', la') :: (hprot s1', lb') :: Fx) h2 s ls.
Proof.
  intros (la & lb & Hf & Ea & Eb & Ca & Cb) Hinv. pose proof Hinv as (_ & _ & Hla & Hlb & _).
  assert (La : length la <= hcap (hprob s)) by (rewrite Ca, <- entries_len, Ea; exact Hla).
  assert (Lb : length lb <= hcap (hprot s)) by (rewrite Cb, <- entries_len, Eb; exact Hlb).
  destruct (hs_clone_ok h _ s la lb Hf (or_introl eq_refl) (or_intror (or_introl eq_refl)) La Lb)
    as (h1 & s1 & la1 & lb1 & E & Hf1 & Ea1 & Eb1 & Ca1 & Cb1 & _).
  exists h1, s1. split; [exact E|].
  assert (HR1 : RS ((hprob s, la) :: (hprot s, lb) :: Fx) h1 s1 ls).
  { exists la1, lb1. split; [exact (fam_perm _ _ _ _ Hf1 (perm_swap _ _ _))|]. repeat split; congruence. }
  destruct (slru_run_refines_gen _ os h1 s1 ls HR1 Hinv) as (h2 & s1' & ls1 & outs & E1 & E2 & (la' & lb' & Hf2 & _) & _).
  exists h2, s1', ls1, outs. split; [exact E1|]. split; [exact E2|].
  exists la', lb', la, lb. split; [|repeat split; assumption].
  eapply fam_perm; [exact Hf2|].
  (* A' :: B' :: A :: B :: Fx  ~  A :: B :: A' :: B' :: Fx *)
  set (A' := (hprob s1', la')). set (B' := (hprot s1', lb')). set (A := (hprob s, la)). set (B := (hprot s, lb)).
  change (Permutation ([A'; B'] ++ [A; B] ++ Fx) ([A; B] ++ [A'; B'] ++ Fx)).
  rewrite !app_assoc. apply Permutation_app_tail. apply Permutation_app_comm.
Qed.
