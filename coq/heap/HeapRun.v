(** * Layer H, whole histories: every sequence of public RawLRU operations, started from [new] and
    ended by [Drop] at an arbitrary point, runs on the heap without a use-after-free, an
    uninitialised read, a double free or a failed [unwrap]; after every operation the list is a
    well-formed chain that agrees with its index; the outputs and the list contents are those of the
    layer-L model (Lru.v); and every cell ever allocated is free after the drop. *)
From VF Require Import Base Lru BaseFacts LruFacts Heap HeapFacts HeapOps.
From Coq Require Import List Arith Lia Permutation.
Import ListNotations.
Local Open Scope nat_scope.

(** the same operation in the layer-L model *)
Definition lstep (s : lru) (o : hop) : lru * hout :=
  match o with
  | HPut k v => let '(s1, r, _) := Lru.put s k v in (s1, OPut r)
  | HGetMut k w => let '(s1, r) := Lru.get_mut s k w in (s1, OVal r)
  | HPeek k => (s, OVal (Lru.peek s k))
  | HRemove k => let '(s1, r, _) := Lru.remove s k in (s1, OVal r)
  | HRemoveLru => let '(s1, r, _) := Lru.remove_lru s in (s1, OEnt r)
  | HPurge => (fst (Lru.purge s), OUnit)
  | HResize c => let '(s1, _, _) := Lru.resize s c in (s1, OUnit)
  | HPeekMut k w => let '(s1, r) := Lru.peek_mut s k w in (s1, OVal r)
  | HContains k => (s, OBool (Lru.contains s k))
  | HGetLru w => let '(s1, r) := Lru.get_lru_mut s w in (s1, OEnt r)
  | HPeekLru w => let '(s1, r) := Lru.peek_lru_mut s w in (s1, OEnt r)
  | HPeekMru w => let '(s1, r) := Lru.peek_mru_mut s w in (s1, OEnt r)
  | HPeekMutOrPut k v w => let '(s1, a, b, _) := Lru.peek_mut_or_put s k v w in (s1, OValPut a b)
  | HContainsOrPut k v => let '(s1, a, b, _) := Lru.contains_or_put s k v in (s1, OBoolPut a b)
  end.

Fixpoint lrun (s : lru) (os : list hop) : lru * list hout :=
  match os with
  | [] => (s, [])
  | o :: rest => let '(s1, r) := lstep s o in let '(s2, rs) := lrun s1 rest in (s2, r :: rs)
  end.

(** every cell that is neither a sentinel nor a linked node is free (never allocated, or freed): no leak *)
Definition tight (h : heap) (q : hlru) (l : list (addr * entry)) : Prop :=
  forall a, outside q l a -> cells h a = Free.

(** the refinement relation *)
Definition R (h : heap) (q : hlru) (s : lru) : Prop :=
  exists l, wf h q l /\ tight h q l /\ entries l = items s /\ hcap q = cap s.

Lemma find_split (l : list (addr * entry)) k v :
  Base.find k (entries l) = Some v -> exists l1 a l2, l = l1 ++ (a, (k, v)) :: l2.
Proof.
  intros Hf. apply find_some_in in Hf. unfold entries in Hf. apply in_map_iff in Hf.
  destruct Hf as ([a e] & E & Hin). cbn [snd] in E. subst e. apply in_split in Hin.
  destruct Hin as (l1 & l2 & ->). eauto.
Qed.

Lemma outside_perm q l l' x : (forall y, In y (addrs l') -> In y (addrs l)) -> outside q l x -> outside q l' x.
Proof. intros H (A & B & C). repeat split; auto. Qed.

Lemma addrs_front_incl (l1 : list (addr * entry)) a e e' l2 y :
  In y (addrs (l1 ++ (a, e) :: l2)) <-> In y (addrs ((a, e') :: l1 ++ l2)).
Proof.
  rewrite addrs_app. cbn [addrs map fst In]. rewrite addrs_app, !in_app_iff. cbn [In]. tauto.
Qed.

Lemma entries_split_last (l : list (addr * entry)) r e :
  split_last (entries l) = Some (r, e) -> exists l' a, l = l' ++ [(a, e)] /\ entries l' = r.
Proof.
  intros H. apply split_last_app in H.
  destruct (rev_ind_split l) as [->|(l' & [a e'] & ->)]; [destruct r; discriminate|].
  rewrite entries_app in H. cbn [entries map snd] in H. apply app_inj_tail in H. destruct H as [<- <-]. eauto.
Qed.

Lemma outside_mid q l1 a e l2 x : outside q (l1 ++ l2) x -> x <> a -> outside q (l1 ++ (a, e) :: l2) x.
Proof.
  intros (A & B & C) Hne. repeat split; try assumption. rewrite addrs_app in *. cbn [addrs map fst].
  rewrite in_app_iff in *. cbn [In]. intros [H|[H|H]]; [apply C; now left|congruence|apply C; now right].
Qed.

Lemma set_val_opt_split (l1 : list (addr * entry)) a k v l2 w :
  NoDup (keys (entries (l1 ++ (a, (k, v)) :: l2))) ->
  entries (l1 ++ (a, (k, wval w v)) :: l2) = set_val_opt k w (entries (l1 ++ (a, (k, v)) :: l2)).
Proof.
  destruct w as [w|]; cbn [wval set_val_opt]; [|reflexivity].
  rewrite !entries_app. cbn [entries map snd]. fold (entries l1) (entries l2).
  induction l1 as [|[b [kb vb]] t IH]; cbn [entries map snd app set_val]; intros Hnd.
  - now rewrite Z.eqb_refl.
  - cbn [keys map fst] in Hnd. fold (keys (entries t ++ (k, v) :: entries l2)) in Hnd.
    apply NoDup_cons_iff in Hnd. destruct Hnd as [Hnotin Hnd].
    destruct (Z.eqb_spec k kb) as [->|Hne].
    + exfalso. apply Hnotin. rewrite keys_app. apply in_or_app. right. now left.
    + f_equal. apply IH. exact Hnd.
Qed.

Ltac keepR := split; [eassumption|split; [eassumption|split; [eassumption|eassumption]]].

(** ** put *)
Lemma put_refines h q s k v :
  R h q s ->
  exists h' q', h_put h q k v = HOk (h', q', snd (fst (Lru.put s k v))) /\ R h' q' (fst (fst (Lru.put s k v))) /\
                hhead q' = hhead q /\ htail q' = htail q /\ fresh h <= fresh h'.
Proof.
  intros (l & Hwf & Ht & El & Ec). pose proof Hwf as (Hc & Hi & Hnd).
    unfold Lru.put. rewrite <- El.
    destruct (Base.find k (entries l)) as [old|] eqn:Hf.
    + destruct (find_split l k old Hf) as (l1 & a & l2 & ->).
      destruct (h_put_update h q l1 a k old l2 v Hwf) as (h' & Eput & Hwf' & Ef & Hfr). rewrite Eput. cbn [fst snd].
      do 2 eexists. split; [reflexivity|]. split; [|split; [reflexivity|split; [reflexivity|lia]]].
      exists ((a, (k, v)) :: l1 ++ l2). split; [exact Hwf'|]. split; [|split; [|exact Ec]].
      * intros x Ho.
        assert (Ho' : outside q (l1 ++ (a, (k, old)) :: l2) x).
        { eapply outside_perm; [|exact Ho]. intros y. apply addrs_front_incl. }
        rewrite Hfr by exact Ho'. now apply Ht.
      * cbn [with_items items]. unfold touch. destruct (find_entries_split l1 a k old l2 Hnd) as [_ ->].
        cbn [entries map snd]. now rewrite entries_app.
    + rewrite <- Ec. destruct (Nat.eqb_spec (hcap q) 0) as [E0|N0].
      * rewrite (h_put_cap0 h q l k v Hwf Hf E0). cbn [fst snd].
        do 2 eexists. split; [reflexivity|]. split; [|split; [reflexivity|split; [reflexivity|lia]]].
        exists l. keepR.
      * unfold llen. rewrite <- El.
        assert (Elen : length (entries l) = length l) by (unfold entries; apply map_length). rewrite Elen.
        destruct (Nat.eqb_spec (length l) (hcap q)) as [Efull|Nfull].
        -- destruct (split_last (entries l)) as [[r [ek ev]]|] eqn:Esl.
           ++ destruct (entries_split_last l r (ek, ev) Esl) as (l' & a & -> & <-).
              destruct (h_put_recycle h q l' a ek ev k v Hwf Hf N0 Efull)
                as (h' & q' & Eput & Hwf' & E1 & E2 & E3 & Ef & Hfr). rewrite Eput. cbn [fst snd].
              do 2 eexists. split; [reflexivity|]. split; [|split; [exact E1|split; [exact E2|lia]]].
              exists ((a, (k, v)) :: l'). split; [exact Hwf'|]. split; [|split; [reflexivity|cbn [cap with_items]; congruence]].
              intros x Ho.
              assert (Ho' : outside q (l' ++ [(a, (ek, ev))]) x).
              { destruct Ho as (A & B & C). rewrite E1 in A. rewrite E2 in B. repeat split; try assumption.
                intros Hin. apply C. rewrite addrs_app in Hin. cbn [addrs map fst In] in *.
                apply in_app_or in Hin. destruct Hin as [Hin|[<-|[]]]; auto. }
              rewrite Hfr by exact Ho'. now apply Ht.
           ++ apply split_last_none in Esl. destruct l; [|discriminate]. cbn in Efull. congruence.
        -- destruct (h_put_new_room h q l k v Hwf Hf N0 Nfull)
             as (h' & q' & Eput & Hwf' & E1 & E2 & E3 & Ef & Hfr). rewrite Eput. cbn [fst snd].
           do 2 eexists. split; [reflexivity|]. split; [|split; [exact E1|split; [exact E2|lia]]].
           exists ((fresh h, (k, v)) :: l). split; [exact Hwf'|]. split; [|split; [cbn [entries map snd with_items items]; try reflexivity; now rewrite <- El|cbn [cap with_items]; congruence]].
           intros x (A & B & C). cbn [addrs map fst In] in C.
           rewrite E1 in A. rewrite E2 in B.
           assert (Hxf : x <> fresh h) by (intros ->; apply C; now left).
           assert (Hxl : ~ In x (addrs l)) by (intros Hin; apply C; now right).
           assert (Ho : outside q l x) by (repeat split; assumption).
           rewrite Hfr by assumption. now apply Ht.
Qed.

(** ** one step *)
Theorem step_refines h q s o :
  R h q s ->
  exists h' q', hstep h q o = HOk (h', q', snd (lstep s o)) /\ R h' q' (fst (lstep s o)) /\
                hhead q' = hhead q /\ htail q' = htail q /\ fresh h <= fresh h'.
Proof.
  intros (l & Hwf & Ht & El & Ec). pose proof Hwf as (Hc & Hi & Hnd).
  destruct o as [k v|k w|k|k| | |c|k w|k|w|w|w|k v w|k v]; cbn [hstep lstep].
  - (* put *)
    destruct (put_refines h q s k v (ex_intro _ l (conj Hwf (conj Ht (conj El Ec))))) as (h' & q' & -> & HR & E1 & E2 & Ef).
    cbn [hbind]. destruct (Lru.put s k v) as [[s1 r] cbs]. cbn [fst snd] in *.
    do 2 eexists. split; [reflexivity|]. auto.
  - (* get_mut *)
    unfold Lru.get_mut. rewrite <- El.
    destruct (Base.find k (entries l)) as [old|] eqn:Hf.
    + destruct (find_split l k old Hf) as (l1 & a & l2 & ->).
      destruct (h_get_mut_hit h q l1 a k old l2 w Hwf) as (h' & -> & Hwf' & Ef & Hfr). cbn [hbind fst snd].
      do 2 eexists. split; [reflexivity|]. split; [|split; [reflexivity|split; [reflexivity|lia]]].
      eexists. split; [exact Hwf'|]. split; [|split; [|exact Ec]].
      * intros x Ho.
        assert (Ho' : outside q (l1 ++ (a, (k, old)) :: l2) x).
        { eapply outside_perm; [|exact Ho]. intros y. apply addrs_front_incl. }
        rewrite Hfr by exact Ho'. now apply Ht.
      * cbn [with_items items]. unfold touch. destruct (find_entries_split l1 a k old l2 Hnd) as [_ ->].
        cbn [entries map snd]. rewrite entries_app.
        destruct w as [w|]; cbn [set_val_opt set_val fst]; [now rewrite Z.eqb_refl|reflexivity].
    + rewrite (h_get_mut_miss h q l k w Hwf Hf). cbn [hbind fst snd].
      do 2 eexists. split; [reflexivity|]. split; [|split; [reflexivity|split; [reflexivity|lia]]].
      exists l. keepR.
  - (* peek *)
    rewrite (h_peek_ok h q l k Hwf). cbn [hbind fst snd]. unfold Lru.peek. rewrite <- El.
    do 2 eexists. split; [reflexivity|]. split; [|split; [reflexivity|split; [reflexivity|lia]]].
    exists l. keepR.
  - (* remove *)
    unfold Lru.remove. rewrite <- El.
    destruct (Base.find k (entries l)) as [old|] eqn:Hf.
    + destruct (find_split l k old Hf) as (l1 & a & l2 & ->).
      destruct (h_remove_hit h q l1 a k old l2 Hwf) as (h' & q' & -> & Hwf' & Efree & E1 & E2 & E3 & Ef & Hfr).
      cbn [hbind fst snd].
      do 2 eexists. split; [reflexivity|]. split; [|split; [exact E1|split; [exact E2|lia]]].
      exists (l1 ++ l2). split; [exact Hwf'|]. split; [|split; [|cbn [cap with_items]; congruence]].
      * intros x Ho. unfold outside in Ho. rewrite E1, E2 in Ho.
        destruct (Nat.eq_dec x a) as [->|Hne]; [exact Efree|].
        pose proof (outside_mid q l1 a (k, old) l2 x Ho Hne) as Ho'.
        rewrite Hfr by exact Ho'. now apply Ht.
      * cbn [with_items items]. destruct (find_entries_split l1 a k old l2 Hnd) as [_ ->]. now rewrite entries_app.
    + rewrite (h_remove_miss h q l k Hwf Hf). cbn [hbind fst snd].
      do 2 eexists. split; [reflexivity|]. split; [|split; [reflexivity|split; [reflexivity|lia]]].
      exists l. keepR.
  - (* remove_lru *)
    unfold Lru.remove_lru. rewrite <- El.
    destruct (split_last (entries l)) as [[r [ek ev]]|] eqn:Esl.
    + destruct (entries_split_last l r (ek, ev) Esl) as (l' & a & -> & <-).
      destruct (h_remove_lru_some h q l' a ek ev Hwf) as (h' & q' & -> & Hwf' & Efree & E1 & E2 & E3 & Ef & Hfr).
      cbn [hbind fst snd].
      do 2 eexists. split; [reflexivity|]. split; [|split; [exact E1|split; [exact E2|lia]]].
      exists l'. split; [exact Hwf'|]. split; [|split; [reflexivity|cbn [cap with_items]; congruence]].
      intros x Ho. unfold outside in Ho. rewrite E1, E2 in Ho.
      destruct (Nat.eq_dec x a) as [->|Hne]; [exact Efree|].
      assert (Ho0 : outside q (l' ++ []) x) by (now rewrite app_nil_r).
      pose proof (outside_mid q l' a (ek, ev) [] x Ho0 Hne) as Ho'.
      rewrite Hfr by exact Ho'. now apply Ht.
    + apply split_last_none in Esl. destruct l; [|discriminate].
      rewrite (h_remove_lru_none h q Hwf). cbn [hbind fst snd].
      do 2 eexists. split; [reflexivity|]. split; [|split; [reflexivity|split; [reflexivity|lia]]].
      exists []. keepR.
  - (* purge *)
    destruct (h_purge_ok h q l Hwf) as (h' & q' & -> & Hwf' & Hall & E1 & E2 & E3 & Ef & Hfr).
    cbn [hbind fst snd Lru.purge with_items].
    do 2 eexists. split; [reflexivity|]. split; [|split; [exact E1|split; [exact E2|lia]]].
    exists []. split; [exact Hwf'|]. split; [|split; [reflexivity|cbn; congruence]].
    intros x (A & B & _). rewrite E1 in A. rewrite E2 in B.
    destruct (in_dec Nat.eq_dec x (addrs l)) as [Hin|Hnin]; [now apply Hall|].
    rewrite Hfr; [apply Ht|]; repeat split; assumption.
  - (* resize *)
    destruct (h_resize_ok h q l c Hwf) as (h' & q' & -> & Hwf' & Hall & E1 & E2 & E3 & Ef & Hfr).
    cbn [hbind fst snd]. unfold Lru.resize. rewrite <- Ec.
    destruct (Nat.eqb_spec c (hcap q)) as [->|Hne]; cbn [fst snd].
    + do 2 eexists. split; [reflexivity|]. split; [|split; [exact E1|split; [exact E2|lia]]].
      exists l. split; [exact Hwf'|]. split; [|split; [exact El|congruence]].
      intros x (A & B & C). rewrite E1 in A. rewrite E2 in B.
      rewrite Hfr; [apply Ht|]; repeat split; assumption.
    + do 2 eexists. split; [reflexivity|]. split; [|split; [exact E1|split; [exact E2|lia]]].
      exists (firstn c l). split; [exact Hwf'|]. split; [|split; [|exact E3]].
      * intros x (A & B & C). rewrite E1 in A. rewrite E2 in B.
        destruct (in_dec Nat.eq_dec x (addrs (skipn c l))) as [Hin|Hnin]; [now apply Hall|].
        assert (Hnl : ~ In x (addrs l)).
        { rewrite <- (firstn_skipn c l), addrs_app, in_app_iff. tauto. }
        rewrite Hfr; [apply Ht|]; repeat split; assumption.
      * cbn [items]. rewrite <- El. unfold entries. now rewrite firstn_map.
  - (* peek_mut *)
    unfold Lru.peek_mut. rewrite <- El.
    destruct (Base.find k (entries l)) as [old|] eqn:Hf.
    + destruct (find_split l k old Hf) as (l1 & a & l2 & ->).
      destruct (h_peek_mut_hit h q l1 a k old l2 w Hwf) as (h' & -> & Hwf' & Ef & Hfr). cbn [hbind fst snd].
      do 2 eexists. split; [reflexivity|]. split; [|split; [reflexivity|split; [reflexivity|lia]]].
      eexists. split; [exact Hwf'|]. split; [|split; [|exact Ec]].
      * intros x Ho. assert (Ho' : outside q (l1 ++ (a, (k, old)) :: l2) x).
        { eapply outside_perm; [|exact Ho]. intros y. rewrite !addrs_app. cbn [addrs map fst]. auto. }
        apply outside_split in Ho'. destruct Ho' as (_ & _ & Hxa & _).
        rewrite Hfr by exact Hxa. apply Ht. eapply outside_perm; [|exact Ho].
        intros y. rewrite !addrs_app. cbn [addrs map fst]. auto.
      * cbn [with_items items]. apply set_val_opt_split. exact Hnd.
    + rewrite (h_peek_mut_miss h q l k w Hwf Hf). cbn [hbind fst snd].
      do 2 eexists. split; [reflexivity|]. split; [|split; [reflexivity|split; [reflexivity|lia]]].
      exists l. keepR.
  - (* contains *)
    rewrite (h_contains_ok h q l k Hwf). cbn [hbind fst snd]. unfold Lru.contains. rewrite <- El.
    do 2 eexists. split; [reflexivity|]. split; [|split; [reflexivity|split; [reflexivity|lia]]].
    exists l. keepR.
  - (* get_lru / get_lru_mut *)
    unfold Lru.get_lru_mut. rewrite <- El.
    destruct (split_last (entries l)) as [[r [ek ev]]|] eqn:Esl.
    + destruct (entries_split_last l r (ek, ev) Esl) as (l' & a & -> & <-).
      destruct (h_get_lru_some h q l' a ek ev w Hwf) as (h' & -> & Hwf' & Ef & Hfr). cbn [hbind fst snd].
      do 2 eexists. split; [reflexivity|]. split; [|split; [reflexivity|split; [reflexivity|lia]]].
      eexists. split; [exact Hwf'|]. split; [|split; [|exact Ec]].
      * intros x Ho. assert (Ho' : outside q (l' ++ [(a, (ek, ev))]) x).
        { eapply outside_perm; [|exact Ho]. intros y. rewrite addrs_app. cbn [addrs map fst In].
          rewrite in_app_iff. cbn [In]. tauto. }
        rewrite Hfr by exact Ho'. now apply Ht.
      * cbn [with_items items entries map snd]. destruct w; reflexivity.
    + apply split_last_none in Esl. destruct l; [|discriminate].
      rewrite (h_get_lru_none h q w Hwf). cbn [hbind fst snd].
      do 2 eexists. split; [reflexivity|]. split; [|split; [reflexivity|split; [reflexivity|lia]]].
      exists []. keepR.
  - (* peek_lru / peek_lru_mut *)
    unfold Lru.peek_lru_mut, Lru.peek_lru, set_last. rewrite <- El.
    destruct (split_last (entries l)) as [[r [ek ev]]|] eqn:Esl.
    + destruct (entries_split_last l r (ek, ev) Esl) as (l' & a & -> & <-).
      destruct (h_peek_lru_some h q l' a ek ev w Hwf) as (h' & -> & Hwf' & Ef & Hfr). cbn [hbind fst snd].
      do 2 eexists. split; [reflexivity|]. split; [|split; [reflexivity|split; [reflexivity|lia]]].
      eexists. split; [exact Hwf'|]. split; [|split; [|exact Ec]].
      * intros x Ho. assert (Ho' : outside q (l' ++ [(a, (ek, ev))]) x).
        { eapply outside_perm; [|exact Ho]. intros y. rewrite !addrs_app. cbn [addrs map fst]. auto. }
        destruct (outside_split _ _ _ _ _ _ Ho') as (_ & _ & Hxa & _). rewrite Hfr by exact Hxa. now apply Ht.
      * cbn [with_items items]. rewrite entries_app. cbn [entries map snd].
        destruct w; cbn [wval]; [reflexivity|]. now rewrite entries_app.
    + apply split_last_none in Esl. destruct l; [|discriminate].
      rewrite (h_peek_lru_none h q w Hwf). cbn [hbind fst snd].
      do 2 eexists. split; [reflexivity|]. split; [|split; [reflexivity|split; [reflexivity|lia]]].
      exists []. split; [exact Hwf|split; [exact Ht|split; [|exact Ec]]].
      cbn [with_items items]. destruct w; first [reflexivity|now rewrite <- El|now rewrite El].
  - (* peek_mru / peek_mru_mut / get_mru / get_mru_mut *)
    unfold Lru.peek_mru_mut, Lru.peek_mru, set_hd. rewrite <- El.
    destruct l as [|[a [ek ev]] l'].
    + rewrite (h_peek_mru_none h q w Hwf). cbn [hbind fst snd entries map hd_error].
      do 2 eexists. split; [reflexivity|]. split; [|split; [reflexivity|split; [reflexivity|lia]]].
      exists []. split; [exact Hwf|split; [exact Ht|split; [|exact Ec]]].
      cbn [with_items items]. destruct w; first [reflexivity|now rewrite <- El|now rewrite El].
    + destruct (h_peek_mru_some h q a ek ev l' w Hwf) as (h' & -> & Hwf' & Ef & Hfr). cbn [hbind fst snd].
      cbn [entries map snd hd_error].
      do 2 eexists. split; [reflexivity|]. split; [|split; [reflexivity|split; [reflexivity|lia]]].
      eexists. split; [exact Hwf'|]. split; [|split; [|exact Ec]].
      * intros x Ho. assert (Hxa : x <> a).
        { destruct Ho as (_ & _ & C). intros ->. apply C. now left. }
        rewrite Hfr by exact Hxa. now apply Ht.
      * cbn [with_items items entries map snd]. now destruct w.
  - (* peek_or_put / peek_mut_or_put *)
    unfold h_peek_mut_or_put, Lru.peek_mut_or_put. rewrite <- El.
    destruct (Base.find k (entries l)) as [old|] eqn:Hf.
    + destruct (find_split l k old Hf) as (l1 & a & l2 & ->).
      destruct (h_peek_mut_hit h q l1 a k old l2 w Hwf) as (h' & -> & Hwf' & Ef & Hfr). cbn [hbind fst snd].
      do 2 eexists. split; [reflexivity|]. split; [|split; [reflexivity|split; [reflexivity|lia]]].
      eexists. split; [exact Hwf'|]. split; [|split; [|exact Ec]].
      * intros x Ho. assert (Ho' : outside q (l1 ++ (a, (k, old)) :: l2) x).
        { eapply outside_perm; [|exact Ho]. intros y. rewrite !addrs_app. cbn [addrs map fst]. auto. }
        apply outside_split in Ho'. destruct Ho' as (_ & _ & Hxa & _).
        rewrite Hfr by exact Hxa. apply Ht. eapply outside_perm; [|exact Ho].
        intros y. rewrite !addrs_app. cbn [addrs map fst]. auto.
      * cbn [with_items items]. apply set_val_opt_split. exact Hnd.
    + rewrite (h_peek_mut_miss h q l k w Hwf Hf). cbn [hbind].
      destruct (put_refines h q s k v (ex_intro _ l (conj Hwf (conj Ht (conj El Ec))))) as (h' & q' & -> & HR & E1 & E2 & Ef).
      cbn [hbind]. destruct (Lru.put s k v) as [[s1 r] cbs]. cbn [fst snd] in *.
      do 2 eexists. split; [reflexivity|]. auto.
  - (* contains_or_put *)
    unfold h_contains_or_put, Lru.contains_or_put. rewrite (h_contains_ok h q l k Hwf). cbn [hbind]. rewrite <- El.
    destruct (mem k (entries l)) eqn:Hm.
    + cbn [fst snd]. do 2 eexists. split; [reflexivity|]. split; [|split; [reflexivity|split; [reflexivity|lia]]].
      exists l. keepR.
    + destruct (put_refines h q s k v (ex_intro _ l (conj Hwf (conj Ht (conj El Ec))))) as (h' & q' & -> & HR & E1 & E2 & Ef).
      cbn [hbind]. destruct (Lru.put s k v) as [[s1 r] cbs]. cbn [fst snd] in *.
      do 2 eexists. split; [reflexivity|]. auto.
Qed.

(** ** whole histories *)
Theorem run_refines os : forall h q s,
  R h q s ->
  exists h' q', hrun h q os = HOk (h', q', snd (lrun s os)) /\ R h' q' (fst (lrun s os)) /\
                hhead q' = hhead q /\ htail q' = htail q.
Proof.
  induction os as [|o rest IH]; intros h q s HR.
  - cbn. do 2 eexists. split; [reflexivity|]. split; [exact HR|split; reflexivity].
  - cbn [hrun lrun].
    destruct (step_refines h q s o HR) as (h1 & q1 & E1 & HR1 & A1 & B1 & _).
    rewrite E1. cbn [hbind]. destruct (lstep s o) as [s1 r1]. cbn [fst snd] in *.
    destruct (IH h1 q1 s1 HR1) as (h2 & q2 & E2 & HR2 & A2 & B2).
    rewrite E2. cbn [hbind]. destruct (lrun s1 rest) as [s2 rs]. cbn [fst snd] in *.
    do 2 eexists. split; [reflexivity|]. split; [exact HR2|split; congruence].
Qed.


Theorem new_refines c cb : R (fst (hnew heap0 c)) (snd (hnew heap0 c)) (lru_new c cb).
Proof.
  exists []. cbn [hnew heap0 halloc fst snd fresh cells]. split; [|split; [|split; reflexivity]].
  - split; [|split; [unfold idx_ok; cbn; constructor|constructor]].
    constructor; cbn.
    + repeat constructor; cbn; intuition discriminate.
    + eexists. reflexivity.
    + eexists. reflexivity.
    + exact I.
    + intros a [<-|[<-|[]]]; lia.
  - intros a (A & B & _). cbn in *. destruct a as [|[|a]]; try congruence. reflexivity.
Qed.

(** dropping the cache at any point of any history frees every cell: nothing is leaked, nothing is
    freed twice (a second free is [EDoubleFree]) and the sentinels' uninitialised key and value are
    never read (that is [EUninit]) *)
Theorem drop_refines h q s :
  R h q s -> exists h', h_drop h q = HOk h' /\ forall a, cells h' a = Free.
Proof.
  intros (l & Hwf & Ht & _). destruct (h_drop_ok h q l Hwf) as (h' & E & Hfree & Hfr).
  exists h'. split; [exact E|]. intros a.
  destruct (in_dec Nat.eq_dec a (hhead q :: htail q :: addrs l)) as [Hin|Hnin]; [now apply Hfree|].
  assert (Ho : outside q l a).
  { repeat split; intros H; apply Hnin; [left|right; left|right; right]; auto. }
  rewrite Hfr by exact Ho. now apply Ht.
Qed.

Theorem history_safe c cb os :
  exists h q h',
    hrun (fst (hnew heap0 c)) (snd (hnew heap0 c)) os = HOk (h, q, snd (lrun (lru_new c cb) os)) /\
    R h q (fst (lrun (lru_new c cb) os)) /\
    h_drop h q = HOk h' /\ (forall a, cells h' a = Free).
Proof.
  destruct (run_refines os _ _ _ (new_refines c cb)) as (h & q & E & HR & _).
  destruct (drop_refines h q _ HR) as (h' & Ed & Hall).
  exists h, q, h'. auto.
Qed.

(** non-vacuity: a concrete history that recycles a node, updates, removes, resizes and purges *)
Example history_runs :
  match hrun (fst (hnew heap0 2)) (snd (hnew heap0 2))
             [HPut 1 10; HPut 2 20; HPut 3 30; HGetMut 2 (Some 21); HPut 3 31; HRemove 2; HPut 4 40;
              HResize 1; HPut 5 50; HRemoveLru; HPut 6 60; HPurge; HPut 7 70]%Z with
  | HOk (h, q, outs) => outs = snd (lrun (lru_new 2 true)
             [HPut 1 10; HPut 2 20; HPut 3 30; HGetMut 2 (Some 21); HPut 3 31; HRemove 2; HPut 4 40;
              HResize 1; HPut 5 50; HRemoveLru; HPut 6 60; HPurge; HPut 7 70]%Z)
      /\ In (OPut (PEvicted 1%Z 10%Z)) outs
  | HErr _ => False
  end.
Proof. vm_compute. split; [reflexivity|]. right. right. now left. Qed.

(** ** [FromIterator] / [Extend] / the [From] impls: [new(max 1 n)] followed by one [put] per pair — an
    instance of [history_safe] *)
Definition puts_of (l : list entry) : list hop := map (fun e => HPut (fst e) (snd e)) l.

Lemma lrun_puts l : forall s, fst (lrun s (puts_of l)) = refill s l.
Proof.
  induction l as [|[k v] rest IH]; intros s; [reflexivity|].
  cbn [puts_of map lrun lstep fst snd]. unfold refill. cbn [fold_left fst snd].
  destruct (Lru.put s k v) as [[s1 r] cbs]. cbn [fst].
  specialize (IH s1). unfold puts_of in IH. destruct (lrun s1 (map (fun e => HPut (fst e) (snd e)) rest)) as [s2 rs].
  cbn [fst] in *. exact IH.
Qed.

Theorem from_iter_heap l :
  exists h q h',
    hrun (fst (hnew heap0 (Nat.max 1 (length l)))) (snd (hnew heap0 (Nat.max 1 (length l)))) (puts_of l)
      = HOk (h, q, snd (lrun (lru_new (Nat.max 1 (length l)) false) (puts_of l))) /\
    R h q (from_iter l) /\ h_drop h q = HOk h' /\ (forall a, cells h' a = Free).
Proof.
  destruct (history_safe (Nat.max 1 (length l)) false (puts_of l)) as (h & q & h' & E & HR & Ed & Hall).
  exists h, q, h'. split; [exact E|]. split; [|split; assumption].
  unfold from_iter. now rewrite <- lrun_puts.
Qed.
