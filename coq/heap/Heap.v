(** * Layer H — a pointer-level model of RawLRU's intrusive list (src/lru/raw.rs).

    The heap maps addresses to cells.  A cell is [Free] (never allocated, or freed by
    [Box::from_raw]) or a node whose key and value are [option]s: [None] = [MaybeUninit::uninit()]
    or moved out.  Every unsafe operation of raw.rs is written as the code writes it, in an
    error monad: dereferencing a free cell is [EUaf], reading an uninitialised key or value is
    [EUninit], freeing twice is [EDoubleFree], an [unwrap()] on [None] is [EUnwrap]. *)
From VF Require Import Base Iter.
From Coq Require Import List Arith Lia.
Import ListNotations.
Local Open Scope nat_scope.

Definition addr := nat.

Inductive cell :=
| Free
| Node (k : option key) (v : option val) (prev next : addr).

Inductive herr := EUaf | EUninit | EDoubleFree | EUnwrap.

Inductive hres (A : Type) :=
| HOk (a : A)
| HErr (e : herr).
Arguments HOk {A} a.
Arguments HErr {A} e.

Definition hbind {A B} (r : hres A) (f : A -> hres B) : hres B :=
  match r with HOk a => f a | HErr e => HErr e end.
Notation "'hdo' x <- r ; f" := (hbind r (fun x => f)) (at level 200, x pattern, r at level 100, f at level 200).

(** the heap: a total function plus the next never-used address (Box::new takes it) *)
Record heap := mkHeap { cells : addr -> cell; fresh : addr }.

Definition hupd (h : heap) (a : addr) (c : cell) : heap :=
  mkHeap (fun x => if Nat.eqb x a then c else cells h x) (fresh h).

(** dereferencing a node pointer: the cell must be allocated *)
Definition hread (h : heap) (a : addr) : hres (option key * option val * addr * addr) :=
  match cells h a with
  | Free => HErr EUaf
  | Node k v p n => HOk (k, v, p, n)
  end.

Definition halloc (h : heap) (k : option key) (v : option val) : heap * addr :=
  let a := fresh h in
  (mkHeap (fun x => if Nat.eqb x a then Node k v 0 0 else cells h x) (S a), a).

(** [Box::from_raw(p)] followed by dropping the box: the cell becomes free *)
Definition hfree (h : heap) (a : addr) : hres heap :=
  match cells h a with
  | Free => HErr EDoubleFree
  | Node _ _ _ _ => HOk (hupd h a Free)
  end.

Definition set_next (h : heap) (a n : addr) : hres heap :=
  hdo (k, v, p, _) <- hread h a; HOk (hupd h a (Node k v p n)).
Definition set_prev (h : heap) (a p : addr) : hres heap :=
  hdo (k, v, _, n) <- hread h a; HOk (hupd h a (Node k v p n)).

(** ** the list descriptor: sentinels, the hash index (pairs: address whose key field the KeyRef
    points at, node address — in arbitrary order), capacity *)
Record hlru := mkHlru { hhead : addr; htail : addr; hidx : list (addr * addr); hcap : nat }.

Definition with_idx (q : hlru) (i : list (addr * addr)) : hlru := mkHlru (hhead q) (htail q) i (hcap q).

(** [detach]: node.prev.next = node.next; node.next.prev = node.prev *)
Definition detach (h : heap) (n : addr) : hres heap :=
  hdo (_, _, p, x) <- hread h n;
  hdo h1 <- set_next h p x;
  set_prev h1 x p.

(** [attach]: node.next = head.next; node.prev = head; head.next = node; node.next.prev = node *)
Definition attach (h : heap) (q : hlru) (n : addr) : hres heap :=
  hdo (_, _, _, hn) <- hread h (hhead q);
  hdo (k, v, _, _) <- hread h n;
  let h1 := hupd h n (Node k v (hhead q) hn) in
  hdo h2 <- set_next h1 (hhead q) n;
  hdo (_, _, _, nn) <- hread h2 n;
  set_prev h2 nn n.

(** reading the key a [KeyRef] points at: the cell must be allocated and the key initialised *)
Definition key_at (h : heap) (a : addr) : hres key :=
  hdo (k, _, _, _) <- hread h a;
  match k with Some k => HOk k | None => HErr EUninit end.

(** [map.get(k)] / position in the index: every comparison dereferences the stored KeyRef *)
Fixpoint idx_find (h : heap) (i : list (addr * addr)) (k : key) : hres (option addr) :=
  match i with
  | [] => HOk None
  | (ka, na) :: rest =>
    hdo k' <- key_at h ka;
    if Z.eqb k k' then HOk (Some na) else idx_find h rest k
  end.

Fixpoint idx_remove_node (i : list (addr * addr)) (na : addr) : list (addr * addr) :=
  match i with
  | [] => []
  | (ka, a) :: rest => if Nat.eqb a na then rest else (ka, a) :: idx_remove_node rest na
  end.

(** [map.remove(k)] *)
Definition idx_remove (h : heap) (q : hlru) (k : key) : hres (hlru * option addr) :=
  hdo r <- idx_find h (hidx q) k;
  match r with
  | None => HOk (q, None)
  | Some na => HOk (with_idx q (idx_remove_node (hidx q) na), Some na)
  end.

Definition idx_insert (q : hlru) (na : addr) : hlru := with_idx q ((na, na) :: hidx q).

(** moving the key and the value out of a node ([assume_init] of both fields) *)
Definition take_kv (h : heap) (a : addr) : hres (key * val) :=
  hdo (k, v, _, _) <- hread h a;
  match k, v with
  | Some k, Some v => HOk (k, v)
  | _, _ => HErr EUninit
  end.

(** ** constructor: two sentinels with uninitialised key and value, linked to each other *)
Definition hnew (h : heap) (c : nat) : heap * hlru :=
  let '(h1, hd) := halloc h None None in
  let '(h2, tl) := halloc h1 None None in
  let h3 := hupd h2 hd (Node None None 0 tl) in
  let h4 := hupd h3 tl (Node None None hd 0) in
  (h4, mkHlru hd tl [] c).

(** ** crate-internal primitives *)

(** the least recently used node: [self.tail.prev] *)
Definition tail_prev (h : heap) (q : hlru) : hres addr :=
  hdo (_, _, p, _) <- hread h (htail q); HOk p.

(** [remove_lru_in] *)
Definition h_remove_lru_in (h : heap) (q : hlru) : hres (heap * hlru * option addr) :=
  hdo p <- tail_prev h q;
  if Nat.eqb p (hhead q) then HOk (h, q, None)
  else
    hdo k <- key_at h p;
    hdo (q1, r) <- idx_remove h q k;
    match r with
    | None => HOk (h, q1, None)
    | Some na => hdo h1 <- detach h na; HOk (h1, q1, Some na)
    end.

(** [remove_and_return_ent] *)
Definition h_remove_ent (h : heap) (q : hlru) (k : key) : hres (heap * hlru * option addr) :=
  hdo (q1, r) <- idx_remove h q k;
  match r with
  | None => HOk (h, q1, None)
  | Some na => hdo h1 <- detach h na; HOk (h1, q1, Some na)
  end.

(** [put_or_evict_nonnull]: attach a node that is in no list; when full, the LRU node is unlinked
    first and handed back as a node *)
Definition h_put_or_evict_nonnull (h : heap) (q : hlru) (n : addr) : hres (heap * hlru * option addr) :=
  if Nat.leb (hcap q) (length (hidx q)) then
    hdo p <- tail_prev h q;
    hdo k <- key_at h p;
    hdo (q1, r) <- idx_remove h q k;
    match r with
    | None => HErr EUnwrap
    | Some old =>
      hdo h1 <- detach h old;
      hdo h2 <- attach h1 q1 n;
      HOk (h2, idx_insert q1 n, Some old)
    end
  else
    hdo h1 <- attach h q n;
    HOk (h1, idx_insert q n, None).

(** [put_nonnull]: the same, but the evicted node is freed and its pair returned *)
Definition h_put_nonnull (h : heap) (q : hlru) (n : addr) : hres (heap * hlru * option entry) :=
  hdo (h1, q1, ev) <- h_put_or_evict_nonnull h q n;
  match ev with
  | None => HOk (h1, q1, None)
  | Some old =>
    hdo e <- take_kv h1 old;
    hdo h2 <- hfree h1 old;
    HOk (h2, q1, Some e)
  end.

(** [update]: swap the value in, move to the front *)
Definition h_update (h : heap) (q : hlru) (n : addr) (v : val) : hres (heap * val) :=
  hdo (k, ov, p, x) <- hread h n;
  match ov with
  | None => HErr EUninit
  | Some old =>
    let h1 := hupd h n (Node k (Some v) p x) in
    hdo h2 <- detach h1 n;
    hdo h3 <- attach h2 q n;
    HOk (h3, old)
  end.

(** ** public API (the callback is the L-level model's business; here: memory) *)

(** [put] = [capturing_put] + [replace_or_create_node] *)
Definition h_put (h : heap) (q : hlru) (k : key) (v : val) : hres (heap * hlru * put_result) :=
  hdo r <- idx_find h (hidx q) k;
  match r with
  | Some n => hdo (h1, old) <- h_update h q n v; HOk (h1, q, PUpdate old)
  | None =>
    if Nat.eqb (hcap q) 0 then HOk (h, q, PEvicted k v)
    else if Nat.eqb (length (hidx q)) (hcap q) then
      (* recycle the least recently used node *)
      hdo p <- tail_prev h q;
      hdo ok <- key_at h p;
      hdo (q1, r1) <- idx_remove h q ok;
      match r1 with
      | None => HErr EUnwrap
      | Some old =>
        hdo (ek, ev) <- take_kv h old;
        hdo (_, _, pp, nn) <- hread h old;
        let h1 := hupd h old (Node (Some k) (Some v) pp nn) in
        hdo h2 <- detach h1 old;
        hdo h3 <- attach h2 q1 old;
        HOk (h3, idx_insert q1 old, PEvicted ek ev)
      end
    else
      let '(h1, n) := halloc h (Some k) (Some v) in
      hdo h2 <- attach h1 q n;
      HOk (h2, idx_insert q n, PPut)
  end.

(** [get] / [get_mut] (with the optional write through the returned reference) *)
Definition h_get_mut (h : heap) (q : hlru) (k : key) (w : option val) : hres (heap * option val) :=
  hdo r <- idx_find h (hidx q) k;
  match r with
  | None => HOk (h, None)
  | Some n =>
    hdo h1 <- detach h n;
    hdo h2 <- attach h1 q n;
    hdo (kk, ov, p, x) <- hread h2 n;
    match ov with
    | None => HErr EUninit
    | Some old =>
      HOk (match w with Some w => hupd h2 n (Node kk (Some w) p x) | None => h2 end, Some old)
    end
  end.

Definition h_peek (h : heap) (q : hlru) (k : key) : hres (option val) :=
  hdo r <- idx_find h (hidx q) k;
  match r with
  | None => HOk None
  | Some n => hdo (_, ov, _, _) <- hread h n;
              match ov with Some v => HOk (Some v) | None => HErr EUninit end
  end.

(** [remove]: unlink, free the node, return the value (the key is dropped in place) *)
Definition h_remove (h : heap) (q : hlru) (k : key) : hres (heap * hlru * option val) :=
  hdo (h1, q1, r) <- h_remove_ent h q k;
  match r with
  | None => HOk (h1, q1, None)
  | Some n =>
    hdo (_, v) <- take_kv h1 n;
    hdo h2 <- hfree h1 n;
    HOk (h2, q1, Some v)
  end.

(** [remove_lru] *)
Definition h_remove_lru (h : heap) (q : hlru) : hres (heap * hlru * option entry) :=
  hdo (h1, q1, r) <- h_remove_lru_in h q;
  match r with
  | None => HOk (h1, q1, None)
  | Some n =>
    hdo e <- take_kv h1 n;
    hdo h2 <- hfree h1 n;
    HOk (h2, q1, Some e)
  end.

(** [purge]: [while self.remove_lru().is_some() {}] — the fuel is the index length + 1 *)
Fixpoint h_purge_loop (fuel : nat) (h : heap) (q : hlru) : hres (heap * hlru) :=
  match fuel with
  | O => HErr EUnwrap            (* out of fuel: excluded by the theorems *)
  | S f =>
    hdo (h1, q1, r) <- h_remove_lru h q;
    match r with
    | None => HOk (h1, q1)
    | Some _ => h_purge_loop f h1 q1
    end
  end.
Definition h_purge (h : heap) (q : hlru) : hres (heap * hlru) := h_purge_loop (S (length (hidx q))) h q.

(** [resize] *)
Fixpoint h_resize_loop (fuel : nat) (h : heap) (q : hlru) (c : nat) : hres (heap * hlru) :=
  match fuel with
  | O => HOk (h, q)
  | S f =>
    if Nat.ltb c (length (hidx q)) then
      hdo (h1, q1, _) <- h_remove_lru h q; h_resize_loop f h1 q1 c
    else HOk (h, q)
  end.
Definition h_resize (h : heap) (q : hlru) (c : nat) : hres (heap * hlru) :=
  if Nat.eqb c (hcap q) then HOk (h, q)
  else
    hdo (h1, q1) <- h_resize_loop (length (hidx q)) h q c;
    HOk (h1, mkHlru (hhead q1) (htail q1) (hidx q1) c).

(** [Drop]: drain the index, free every node after dropping its key and value in place, then
    free the two sentinels (whose key and value are never touched) *)
Fixpoint h_drop_nodes (h : heap) (i : list (addr * addr)) : hres heap :=
  match i with
  | [] => HOk h
  | (_, n) :: rest =>
    hdo _ <- take_kv h n;
    hdo h1 <- hfree h n;
    h_drop_nodes h1 rest
  end.
Definition h_drop (h : heap) (q : hlru) : hres heap :=
  hdo h1 <- h_drop_nodes h (hidx q);
  hdo h2 <- hfree h1 (hhead q);
  hfree h2 (htail q).

(** ** abstraction: walk [next] from the head to the tail (fuel-bounded) *)
Fixpoint walk (fuel : nat) (h : heap) (a stop : addr) : hres (list (addr * entry)) :=
  match fuel with
  | O => HErr EUnwrap
  | S f =>
    if Nat.eqb a stop then HOk []
    else
      hdo (k, v, _, n) <- hread h a;
      match k, v with
      | Some k, Some v => hdo rest <- walk f h n stop; HOk ((a, (k, v)) :: rest)
      | _, _ => HErr EUninit
      end
  end.

Definition habs (h : heap) (q : hlru) : hres (list (addr * entry)) :=
  hdo (_, _, _, first) <- hread h (hhead q);
  walk (S (length (hidx q))) h first (htail q).

(** read the pair stored in a node and optionally store [w] through the returned [&mut V] *)
Definition h_write (h : heap) (n : addr) (w : option val) : hres (heap * entry) :=
  hdo (kk, ov, p, x) <- hread h n;
  match kk, ov with
  | Some k, Some old =>
    HOk (match w with Some w => hupd h n (Node kk (Some w) p x) | None => h end, (k, old))
  | _, _ => HErr EUninit
  end.

(** [peek_mut] *)
Definition h_peek_mut (h : heap) (q : hlru) (k : key) (w : option val) : hres (heap * option val) :=
  hdo r <- idx_find h (hidx q) k;
  match r with
  | None => HOk (h, None)
  | Some n => hdo (h1, e) <- h_write h n w; HOk (h1, Some (snd e))
  end.

Definition h_contains (h : heap) (q : hlru) (k : key) : hres bool :=
  hdo r <- idx_find h (hidx q) k; HOk (match r with Some _ => true | None => false end).

(** [get_lru] / [get_lru_mut]: [if self.is_empty() { return None }], then [tail.prev] is unlinked,
    linked at the front and read *)
Definition h_get_lru (h : heap) (q : hlru) (w : option val) : hres (heap * option entry) :=
  if Nat.eqb (length (hidx q)) 0 then HOk (h, None)
  else
    hdo n <- tail_prev h q;
    hdo h1 <- detach h n;
    hdo h2 <- attach h1 q n;
    hdo (h3, e) <- h_write h2 n w;
    HOk (h3, Some e).

(** [peek_lru] / [peek_lru_mut] *)
Definition h_peek_lru (h : heap) (q : hlru) (w : option val) : hres (heap * option entry) :=
  if Nat.eqb (length (hidx q)) 0 then HOk (h, None)
  else
    hdo n <- tail_prev h q;
    hdo (h1, e) <- h_write h n w;
    HOk (h1, Some e).

(** [peek_mru] / [peek_mru_mut] / [get_mru] / [get_mru_mut]: [head.next] *)
Definition h_peek_mru (h : heap) (q : hlru) (w : option val) : hres (heap * option entry) :=
  if Nat.eqb (length (hidx q)) 0 then HOk (h, None)
  else
    hdo (_, _, _, n) <- hread h (hhead q);
    hdo (h1, e) <- h_write h n w;
    HOk (h1, Some e).

(** [peek_or_put] / [peek_mut_or_put] / [contains_or_put] *)
Definition h_peek_mut_or_put (h : heap) (q : hlru) (k : key) (v : val) (w : option val)
  : hres (heap * hlru * option val * option put_result) :=
  hdo (h1, r) <- h_peek_mut h q k w;
  match r with
  | Some x => HOk (h1, q, Some x, None)
  | None => hdo (h2, q2, pr) <- h_put h1 q k v; HOk (h2, q2, None, Some pr)
  end.

Definition h_contains_or_put (h : heap) (q : hlru) (k : key) (v : val)
  : hres (heap * hlru * bool * option put_result) :=
  hdo b <- h_contains h q k;
  if b then HOk (h, q, true, None)
  else hdo (h2, q2, pr) <- h_put h q k v; HOk (h2, q2, false, Some pr).

(** the value of an in-flight node is swapped ([swap_value]) *)
Definition h_swap_value (h : heap) (n : addr) (v : val) : hres (heap * val) :=
  hdo (k, ov, p, x) <- hread h n;
  match ov with
  | Some old => HOk (hupd h n (Node k (Some v) p x), old)
  | None => HErr EUninit
  end.


(** ** the public operations as one step function; histories *)
Inductive hop :=
| HPut (k : key) (v : val)
| HGetMut (k : key) (w : option val)      (* [get] is [HGetMut k None] *)
| HPeek (k : key)
| HRemove (k : key)
| HRemoveLru
| HPurge
| HResize (c : nat)
| HPeekMut (k : key) (w : option val)
| HContains (k : key)
| HGetLru (w : option val)                (* [get_lru] is [HGetLru None] *)
| HPeekLru (w : option val)
| HPeekMru (w : option val)               (* also [get_mru] / [get_mru_mut] *)
| HPeekMutOrPut (k : key) (v : val) (w : option val)   (* [peek_or_put] is [w = None] *)
| HContainsOrPut (k : key) (v : val).

Inductive hout :=
| OPut (r : put_result)
| OVal (o : option val)
| OEnt (o : option entry)
| OUnit
| OBool (b : bool)
| OValPut (o : option val) (r : option put_result)
| OBoolPut (b : bool) (r : option put_result)
| OIter (kd : iter_kind) (ys : list (option entry * nat) * list (option entry * nat) * list (option entry * nat)).

Definition hstep (h : heap) (q : hlru) (o : hop) : hres (heap * hlru * hout) :=
  match o with
  | HPut k v => hdo (h1, q1, r) <- h_put h q k v; HOk (h1, q1, OPut r)
  | HGetMut k w => hdo (h1, r) <- h_get_mut h q k w; HOk (h1, q, OVal r)
  | HPeek k => hdo r <- h_peek h q k; HOk (h, q, OVal r)
  | HRemove k => hdo (h1, q1, r) <- h_remove h q k; HOk (h1, q1, OVal r)
  | HRemoveLru => hdo (h1, q1, r) <- h_remove_lru h q; HOk (h1, q1, OEnt r)
  | HPurge => hdo (h1, q1) <- h_purge h q; HOk (h1, q1, OUnit)
  | HResize c => hdo (h1, q1) <- h_resize h q c; HOk (h1, q1, OUnit)
  | HPeekMut k w => hdo (h1, r) <- h_peek_mut h q k w; HOk (h1, q, OVal r)
  | HContains k => hdo b <- h_contains h q k; HOk (h, q, OBool b)
  | HGetLru w => hdo (h1, r) <- h_get_lru h q w; HOk (h1, q, OEnt r)
  | HPeekLru w => hdo (h1, r) <- h_peek_lru h q w; HOk (h1, q, OEnt r)
  | HPeekMru w => hdo (h1, r) <- h_peek_mru h q w; HOk (h1, q, OEnt r)
  | HPeekMutOrPut k v w => hdo (h1, q1, a, b) <- h_peek_mut_or_put h q k v w; HOk (h1, q1, OValPut a b)
  | HContainsOrPut k v => hdo (h1, q1, a, b) <- h_contains_or_put h q k v; HOk (h1, q1, OBoolPut a b)
  end.

Fixpoint hrun (h : heap) (q : hlru) (os : list hop) : hres (heap * hlru * list hout) :=
  match os with
  | [] => HOk (h, q, [])
  | o :: rest =>
    hdo (h1, q1, r) <- hstep h q o;
    hdo (h2, q2, rs) <- hrun h1 q1 rest;
    HOk (h2, q2, r :: rs)
  end.

(** the empty heap *)
Definition heap0 : heap := mkHeap (fun _ => Free) 0.
