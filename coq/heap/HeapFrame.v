(** * Layer H — every public RawLRU operation with its footprint: which cells it may touch, which
    addresses the list gains (only freshly allocated ones) and what happens to the addresses it
    loses (they are freed).  This is the form in which the operations compose over several lists
    in one heap (HeapMulti.v); [step_refines] of HeapRun.v is the special case of one list alone. *)
From VF Require Import Base Lru BaseFacts LruFacts Heap HeapFacts HeapOps HeapRun.
From Coq Require Import List Arith Lia Permutation.
Import ListNotations.
Local Open Scope nat_scope.

Definition framed (h : heap) (q : hlru) (l : list (addr * entry)) (h' : heap) (q' : hlru) (l' : list (addr * entry)) : Prop :=
  wf h' q' l' /\ hhead q' = hhead q /\ htail q' = htail q /\ fresh h <= fresh h' /\
  (forall x, In x (addrs l') -> In x (addrs l) \/ fresh h <= x) /\
  (forall x, outside q l x -> ~ In x (addrs l') -> cells h' x = cells h x) /\
  (forall x, In x (addrs l) -> ~ In x (addrs l') -> cells h' x = Free).

Lemma framed_refl h q l : wf h q l -> framed h q l h q l.
Proof.
  intros H. split; [exact H|]. split; [reflexivity|]. split; [reflexivity|]. split; [lia|].
  split; [intros x Hx; now left|]. split; [reflexivity|]. intros x Hx Hn. contradiction.
Qed.

Lemma framed_same h q l h' q' l' :
  wf h' q' l' -> hhead q' = hhead q -> htail q' = htail q -> fresh h' = fresh h ->
  (forall y, In y (addrs l') <-> In y (addrs l)) ->
  (forall x, outside q l x -> cells h' x = cells h x) ->
  framed h q l h' q' l'.
Proof.
  intros Hwf E1 E2 Ef Hiff Hfr. split; [exact Hwf|]. split; [exact E1|]. split; [exact E2|]. split; [lia|].
  split; [intros x Hx; left; now apply Hiff|]. split; [intros x Hx _; now apply Hfr|].
  intros x Hx Hn. exfalso. apply Hn. now apply Hiff.
Qed.

Lemma framed_removed h q l1 a e l2 h' q' :
  wf h' q' (l1 ++ l2) -> hhead q' = hhead q -> htail q' = htail q -> fresh h' = fresh h ->
  cells h' a = Free ->
  (forall x, outside q (l1 ++ (a, e) :: l2) x -> cells h' x = cells h x) ->
  framed h q (l1 ++ (a, e) :: l2) h' q' (l1 ++ l2).
Proof.
  intros Hwf E1 E2 Ef Hfree Hfr. split; [exact Hwf|]. split; [exact E1|]. split; [exact E2|]. split; [lia|].
  split; [|split].
  - intros x Hx. left. rewrite addrs_app in *. cbn [addrs map fst]. rewrite in_app_iff in *. cbn [In]. tauto.
  - intros x Hx _. now apply Hfr.
  - intros x Hx Hn. rewrite addrs_app in Hx, Hn. cbn [addrs map fst] in Hx. rewrite in_app_iff in Hx, Hn. cbn [In] in Hx.
    destruct Hx as [Hx|[<-|Hx]]; [tauto|exact Hfree|tauto].
Qed.

Lemma in_addrs_front (l1 : list (addr * entry)) a e e' l2 y :
  In y (addrs ((a, e') :: l1 ++ l2)) <-> In y (addrs (l1 ++ (a, e) :: l2)).
Proof. symmetry. apply addrs_front_incl. Qed.

(** ** put *)
Theorem put_frame h q s l k v :
  wf h q l -> entries l = items s -> hcap q = cap s ->
  exists h' q' l', h_put h q k v = HOk (h', q', snd (fst (Lru.put s k v))) /\ framed h q l h' q' l' /\
                   entries l' = items (fst (fst (Lru.put s k v))) /\ hcap q' = cap (fst (fst (Lru.put s k v))).
Proof.
  intros Hwf El Ec. pose proof Hwf as (Hc & Hi & Hnd).
  unfold Lru.put. rewrite <- El.
  destruct (Base.find k (entries l)) as [old|] eqn:Hf.
  - destruct (find_split l k old Hf) as (l1 & a & l2 & ->).
    destruct (h_put_update h q l1 a k old l2 v Hwf) as (h' & Eput & Hwf' & Ef & Hfr). rewrite Eput. cbn [fst snd].
    exists h', q, ((a, (k, v)) :: l1 ++ l2). split; [reflexivity|]. split; [|split; [|exact Ec]].
    + apply framed_same; auto. intros y. apply in_addrs_front.
    + cbn [with_items items]. unfold touch. destruct (find_entries_split l1 a k old l2 Hnd) as [_ ->].
      cbn [entries map snd]. now rewrite entries_app.
  - rewrite <- Ec. destruct (Nat.eqb_spec (hcap q) 0) as [E0|N0].
    + rewrite (h_put_cap0 h q l k v Hwf Hf E0). cbn [fst snd].
      exists h, q, l. split; [reflexivity|]. split; [now apply framed_refl|auto].
    + unfold llen. rewrite <- El.
      assert (Elen : length (entries l) = length l) by (unfold entries; apply map_length). rewrite Elen.
      destruct (Nat.eqb_spec (length l) (hcap q)) as [Efull|Nfull].
      * destruct (split_last (entries l)) as [[r [ek ev]]|] eqn:Esl.
        -- destruct (entries_split_last l r (ek, ev) Esl) as (l' & a & -> & <-).
           destruct (h_put_recycle h q l' a ek ev k v Hwf Hf N0 Efull)
             as (h' & q' & Eput & Hwf' & E1 & E2 & E3 & Ef & Hfr). rewrite Eput. cbn [fst snd].
           exists h', q', ((a, (k, v)) :: l'). split; [reflexivity|]. split; [|split; [reflexivity|cbn [cap with_items]; congruence]].
           apply framed_same; auto. intros y. rewrite addrs_app. cbn [addrs map fst In]. rewrite in_app_iff. cbn [In]. tauto.
        -- apply split_last_none in Esl. destruct l; [|discriminate]. cbn in Efull. congruence.
      * destruct (h_put_new_room h q l k v Hwf Hf N0 Nfull)
          as (h' & q' & Eput & Hwf' & E1 & E2 & E3 & Ef & Hfr). rewrite Eput. cbn [fst snd].
        exists h', q', ((fresh h, (k, v)) :: l).
        split; [reflexivity|]. split; [|split; [cbn [entries map snd with_items items]; try reflexivity; now rewrite <- El|cbn [cap with_items]; congruence]].
        split; [exact Hwf'|]. split; [exact E1|]. split; [exact E2|]. split; [lia|]. split; [|split].
        -- cbn [addrs map fst In]. intros x [<-|Hx]; [right; lia|now left].
        -- intros x Ho Hn. apply Hfr; [exact Ho|]. intros ->. apply Hn. now left.
        -- intros x Hx Hn. exfalso. apply Hn. now right.
Qed.

(** ** one step *)
Theorem step_frame h q s l o :
  wf h q l -> entries l = items s -> hcap q = cap s ->
  exists h' q' l', hstep h q o = HOk (h', q', snd (lstep s o)) /\ framed h q l h' q' l' /\
                   entries l' = items (fst (lstep s o)) /\ hcap q' = cap (fst (lstep s o)).
Proof.
  intros Hwf El Ec. pose proof Hwf as (Hc & Hi & Hnd).
  destruct o as [k v|k w|k|k| | |c|k w|k|w|w|w|k v w|k v]; cbn [hstep lstep].
  - (* put *)
    destruct (put_frame h q s l k v Hwf El Ec) as (h' & q' & l' & -> & HF & El' & Ec').
    cbn [hbind]. destruct (Lru.put s k v) as [[s1 r] cbs]. cbn [fst snd] in *. eauto 10.
  - (* get_mut *)
    unfold Lru.get_mut. rewrite <- El.
    destruct (Base.find k (entries l)) as [old|] eqn:Hf.
    + destruct (find_split l k old Hf) as (l1 & a & l2 & ->).
      destruct (h_get_mut_hit h q l1 a k old l2 w Hwf) as (h' & -> & Hwf' & Ef & Hfr). cbn [hbind fst snd].
      do 3 eexists. split; [reflexivity|]. split; [|split; [|exact Ec]].
      * apply framed_same; eauto. intros y. apply in_addrs_front.
      * cbn [with_items items]. unfold touch. destruct (find_entries_split l1 a k old l2 Hnd) as [_ ->].
        cbn [entries map snd]. rewrite entries_app.
        destruct w as [w|]; cbn [set_val_opt set_val fst]; [now rewrite Z.eqb_refl|reflexivity].
    + rewrite (h_get_mut_miss h q l k w Hwf Hf). cbn [hbind fst snd].
      exists h, q, l. split; [reflexivity|]. split; [now apply framed_refl|auto].
  - (* peek *)
    rewrite (h_peek_ok h q l k Hwf). cbn [hbind fst snd]. unfold Lru.peek. rewrite <- El.
    exists h, q, l. split; [reflexivity|]. split; [now apply framed_refl|auto].
  - (* remove *)
    unfold Lru.remove. rewrite <- El.
    destruct (Base.find k (entries l)) as [old|] eqn:Hf.
    + destruct (find_split l k old Hf) as (l1 & a & l2 & ->).
      destruct (h_remove_hit h q l1 a k old l2 Hwf) as (h' & q' & -> & Hwf' & Efree & E1 & E2 & E3 & Ef & Hfr).
      cbn [hbind fst snd].
      do 3 eexists. split; [reflexivity|]. split; [|split; [|cbn [cap with_items]; congruence]].
      * now apply framed_removed.
      * cbn [with_items items]. destruct (find_entries_split l1 a k old l2 Hnd) as [_ ->]. now rewrite entries_app.
    + rewrite (h_remove_miss h q l k Hwf Hf). cbn [hbind fst snd].
      exists h, q, l. split; [reflexivity|]. split; [now apply framed_refl|auto].
  - (* remove_lru *)
    unfold Lru.remove_lru. rewrite <- El.
    destruct (split_last (entries l)) as [[r [ek ev]]|] eqn:Esl.
    + destruct (entries_split_last l r (ek, ev) Esl) as (l' & a & -> & <-).
      destruct (h_remove_lru_some h q l' a ek ev Hwf) as (h' & q' & -> & Hwf' & Efree & E1 & E2 & E3 & Ef & Hfr).
      cbn [hbind fst snd].
      exists h', q', l'. split; [reflexivity|]. split; [|split; [reflexivity|cbn [cap with_items]; congruence]].
      rewrite <- (app_nil_r l') at 2. apply framed_removed; auto. now rewrite app_nil_r.
    + apply split_last_none in Esl. destruct l; [|discriminate].
      rewrite (h_remove_lru_none h q Hwf). cbn [hbind fst snd].
      exists h, q, []. split; [reflexivity|]. split; [now apply framed_refl|auto].
  - (* purge *)
    destruct (h_purge_ok h q l Hwf) as (h' & q' & -> & Hwf' & Hall & E1 & E2 & E3 & Ef & Hfr).
    cbn [hbind fst snd Lru.purge with_items].
    exists h', q', []. split; [reflexivity|]. split; [|split; [reflexivity|cbn; congruence]].
    split; [exact Hwf'|]. split; [exact E1|]. split; [exact E2|]. split; [lia|]. split; [intros x []|].
    split; [intros x Hx _; now apply Hfr|intros x Hx _; now apply Hall].
  - (* resize *)
    destruct (h_resize_ok h q l c Hwf) as (h' & q' & -> & Hwf' & Hall & E1 & E2 & E3 & Ef & Hfr).
    cbn [hbind fst snd]. unfold Lru.resize. rewrite <- Ec.
    destruct (Nat.eqb_spec c (hcap q)) as [->|Hne]; cbn [fst snd].
    + exists h', q', l. split; [reflexivity|]. split; [|split; [exact El|congruence]].
      apply framed_same; auto. intros y. tauto.
    + exists h', q', (firstn c l). split; [reflexivity|]. split; [|split; [|exact E3]].
      * split; [exact Hwf'|]. split; [exact E1|]. split; [exact E2|]. split; [lia|]. split; [|split].
        -- intros x Hx. left. rewrite <- (firstn_skipn c l), addrs_app. apply in_or_app. now left.
        -- intros x Hx _. now apply Hfr.
        -- intros x Hx Hn. apply Hall. rewrite <- (firstn_skipn c l), addrs_app in Hx. apply in_app_or in Hx. tauto.
      * cbn [items]. rewrite <- El. unfold entries. now rewrite firstn_map.
  - (* peek_mut *)
    unfold Lru.peek_mut. rewrite <- El.
    destruct (Base.find k (entries l)) as [old|] eqn:Hf.
    + destruct (find_split l k old Hf) as (l1 & a & l2 & ->).
      destruct (h_peek_mut_hit h q l1 a k old l2 w Hwf) as (h' & -> & Hwf' & Ef & Hfr). cbn [hbind fst snd].
      do 3 eexists. split; [reflexivity|]. split; [|split; [|exact Ec]].
      * apply framed_same; eauto.
        -- intros y. rewrite !addrs_app. cbn [addrs map fst]. tauto.
        -- intros x Ho. apply Hfr. destruct (outside_split _ _ _ _ _ _ Ho) as (_ & _ & X & _). exact X.
      * cbn [with_items items]. apply set_val_opt_split. exact Hnd.
    + rewrite (h_peek_mut_miss h q l k w Hwf Hf). cbn [hbind fst snd].
      exists h, q, l. split; [reflexivity|]. split; [now apply framed_refl|auto].
  - (* contains *)
    rewrite (h_contains_ok h q l k Hwf). cbn [hbind fst snd]. unfold Lru.contains. rewrite <- El.
    exists h, q, l. split; [reflexivity|]. split; [now apply framed_refl|auto].
  - (* get_lru *)
    unfold Lru.get_lru_mut. rewrite <- El.
    destruct (split_last (entries l)) as [[r [ek ev]]|] eqn:Esl.
    + destruct (entries_split_last l r (ek, ev) Esl) as (l' & a & -> & <-).
      destruct (h_get_lru_some h q l' a ek ev w Hwf) as (h' & -> & Hwf' & Ef & Hfr). cbn [hbind fst snd].
      do 3 eexists. split; [reflexivity|]. split; [|split; [|exact Ec]].
      * apply framed_same; eauto. intros y. rewrite addrs_app. cbn [addrs map fst In]. rewrite in_app_iff. cbn [In]. tauto.
      * cbn [with_items items entries map snd]. destruct w; reflexivity.
    + apply split_last_none in Esl. destruct l; [|discriminate].
      rewrite (h_get_lru_none h q w Hwf). cbn [hbind fst snd].
      exists h, q, []. split; [reflexivity|]. split; [now apply framed_refl|auto].
  - (* peek_lru *)
    unfold Lru.peek_lru_mut, Lru.peek_lru, set_last. rewrite <- El.
    destruct (split_last (entries l)) as [[r [ek ev]]|] eqn:Esl.
    + destruct (entries_split_last l r (ek, ev) Esl) as (l' & a & -> & <-).
      destruct (h_peek_lru_some h q l' a ek ev w Hwf) as (h' & -> & Hwf' & Ef & Hfr). cbn [hbind fst snd].
      do 3 eexists. split; [reflexivity|]. split; [|split; [|exact Ec]].
      * apply framed_same; eauto.
        -- intros y. rewrite !addrs_app. cbn [addrs map fst]. tauto.
        -- intros x Ho. apply Hfr. destruct (outside_split _ _ _ _ _ _ Ho) as (_ & _ & X & _). exact X.
      * cbn [with_items items]. rewrite entries_app. cbn [entries map snd].
        destruct w; cbn [wval]; [reflexivity|]. now rewrite entries_app.
    + apply split_last_none in Esl. destruct l; [|discriminate].
      rewrite (h_peek_lru_none h q w Hwf). cbn [hbind fst snd].
      exists h, q, []. split; [reflexivity|]. split; [now apply framed_refl|]. split; [|exact Ec].
      cbn [with_items items]. destruct w; first [reflexivity|now rewrite <- El|now rewrite El].
  - (* peek_mru *)
    unfold Lru.peek_mru_mut, Lru.peek_mru, set_hd. rewrite <- El.
    destruct l as [|[a [ek ev]] l'].
    + rewrite (h_peek_mru_none h q w Hwf). cbn [hbind fst snd entries map hd_error].
      exists h, q, []. split; [reflexivity|]. split; [now apply framed_refl|]. split; [|exact Ec].
      cbn [with_items items]. destruct w; first [reflexivity|now rewrite <- El|now rewrite El].
    + destruct (h_peek_mru_some h q a ek ev l' w Hwf) as (h' & -> & Hwf' & Ef & Hfr). cbn [hbind fst snd].
      cbn [entries map snd hd_error].
      do 3 eexists. split; [reflexivity|]. split; [|split; [|exact Ec]].
      * apply framed_same; eauto.
        -- intros y. cbn [addrs map fst]. tauto.
        -- intros x (_ & _ & C). apply Hfr. intros ->. apply C. now left.
      * cbn [with_items items entries map snd]. destruct w; first [reflexivity|now rewrite <- El|now rewrite El].
  - (* peek_or_put / peek_mut_or_put *)
    unfold h_peek_mut_or_put, Lru.peek_mut_or_put. rewrite <- El.
    destruct (Base.find k (entries l)) as [old|] eqn:Hf.
    + destruct (find_split l k old Hf) as (l1 & a & l2 & ->).
      destruct (h_peek_mut_hit h q l1 a k old l2 w Hwf) as (h' & -> & Hwf' & Ef & Hfr). cbn [hbind fst snd].
      do 3 eexists. split; [reflexivity|]. split; [|split; [|exact Ec]].
      * apply framed_same; eauto.
        -- intros y. rewrite !addrs_app. cbn [addrs map fst]. tauto.
        -- intros x Ho. apply Hfr. destruct (outside_split _ _ _ _ _ _ Ho) as (_ & _ & X & _). exact X.
      * cbn [with_items items]. apply set_val_opt_split. exact Hnd.
    + rewrite (h_peek_mut_miss h q l k w Hwf Hf). cbn [hbind].
      destruct (put_frame h q s l k v Hwf El Ec) as (h' & q' & l' & -> & HF & El' & Ec').
      cbn [hbind]. destruct (Lru.put s k v) as [[s1 r] cbs]. cbn [fst snd] in *. eauto 10.
  - (* contains_or_put *)
    unfold h_contains_or_put, Lru.contains_or_put. rewrite (h_contains_ok h q l k Hwf). cbn [hbind]. rewrite <- El.
    destruct (mem k (entries l)) eqn:Hm.
    + cbn [fst snd]. exists h, q, l. split; [reflexivity|]. split; [now apply framed_refl|auto].
    + destruct (put_frame h q s l k v Hwf El Ec) as (h' & q' & l' & -> & HF & El' & Ec').
      cbn [hbind]. destruct (Lru.put s k v) as [[s1 r] cbs]. cbn [fst snd] in *. eauto 10.
Qed.
