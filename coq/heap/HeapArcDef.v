(** * Layer H — AdaptiveCache (src/lru/adaptive.rs) on the heap, definitions: four RawLRU lists
    (recent, recent_evict, frequent, frequent_evict) in one heap, written over the heap-level
    primitives exactly as the Rust code is written over RawLRU. *)
From VF Require Import Base Iter Heap HeapIterDef.
From Coq Require Import List Arith.
Import ListNotations.
Local Open Scope nat_scope.

Record harc := mkHarc { ha_size : nat; ha_p : nat; ha_t1 : hlru; ha_b1 : hlru; ha_t2 : hlru; ha_b2 : hlru }.

Definition ha_new (h : heap) (size : nat) : heap * harc :=
  let '(h1, q1) := hnew h size in
  let '(h2, q2) := hnew h1 size in
  let '(h3, q3) := hnew h2 size in
  let '(h4, q4) := hnew h3 size in
  (h4, mkHarc size 0 q1 q2 q3 q4).

(** [replace] *)
Definition ha_replace (h : heap) (s : harc) (freq_contains_key : bool) : hres (heap * harc) :=
  let rl := length (hidx (ha_t1 s)) in
  let from_recent :=
      Nat.ltb 0 rl && (Nat.ltb (ha_p s) rl || (Nat.eqb rl (ha_p s) && freq_contains_key)) in
  if from_recent || Nat.eqb (length (hidx (ha_t2 s))) 0 then
    hdo (h1, t1', o) <- h_remove_lru_in h (ha_t1 s);
    match o with
    | Some ent => hdo (h2, b1', _) <- h_put_nonnull h1 (ha_b1 s) ent;
                  HOk (h2, mkHarc (ha_size s) (ha_p s) t1' b1' (ha_t2 s) (ha_b2 s))
    | None => HOk (h1, mkHarc (ha_size s) (ha_p s) t1' (ha_b1 s) (ha_t2 s) (ha_b2 s))
    end
  else
    hdo (h1, t2', o) <- h_remove_lru_in h (ha_t2 s);
    match o with
    | Some ent => hdo (h2, b2', _) <- h_put_nonnull h1 (ha_b2 s) ent;
                  HOk (h2, mkHarc (ha_size s) (ha_p s) (ha_t1 s) (ha_b1 s) t2' b2')
    | None => HOk (h1, mkHarc (ha_size s) (ha_p s) (ha_t1 s) (ha_b1 s) t2' (ha_b2 s))
    end.

Definition ha_put (h : heap) (s : harc) (k : key) (v : val) : hres (heap * harc * put_result) :=
  hdo (h1, t1', o) <- h_remove_ent h (ha_t1 s) k;
  match o with
  | Some ent =>
    hdo (h2, old) <- h_swap_value h1 ent v;
    hdo (h3, t2', _) <- h_put_nonnull h2 (ha_t2 s) ent;
    HOk (h3, mkHarc (ha_size s) (ha_p s) t1' (ha_b1 s) t2' (ha_b2 s), PUpdate old)
  | None =>
    hdo r <- idx_find h1 (hidx (ha_t2 s)) k;
    match r with
    | Some n => hdo (h2, old) <- h_update h1 (ha_t2 s) n v; HOk (h2, s, PUpdate old)
    | None =>
      let recent_len := length (hidx (ha_t1 s)) in
      let freq_len := length (hidx (ha_t2 s)) in
      let b1_len := length (hidx (ha_b1 s)) in
      let b2_len := length (hidx (ha_b2 s)) in
      hdo c1 <- h_contains h1 (ha_b1 s) k;
      if c1 then
        let delta := if Nat.ltb b1_len b2_len then Nat.div b2_len b1_len else 1 in
        let p' := if Nat.leb (ha_size s) (ha_p s + delta) then ha_size s else ha_p s + delta in
        hdo (h2, b1', o2) <- h_remove_ent h1 (ha_b1 s) k;
        match o2 with
        | None => HErr EUnwrap
        | Some ent =>
          hdo (h3, old) <- h_swap_value h2 ent v;
          let s1 := mkHarc (ha_size s) p' (ha_t1 s) b1' (ha_t2 s) (ha_b2 s) in
          hdo (h4, s2) <- (if Nat.leb (ha_size s) (recent_len + freq_len) then ha_replace h3 s1 false else HOk (h3, s1));
          hdo (h5, t2', _) <- h_put_nonnull h4 (ha_t2 s2) ent;
          HOk (h5, mkHarc (ha_size s2) (ha_p s2) (ha_t1 s2) (ha_b1 s2) t2' (ha_b2 s2), PUpdate old)
        end
      else
        hdo c2 <- h_contains h1 (ha_b2 s) k;
        if c2 then
          let delta := if Nat.ltb b2_len b1_len then Nat.div b1_len b2_len else 1 in
          let p' := if Nat.leb (ha_p s) delta then 0 else ha_p s - delta in
          hdo (h2, b2', o2) <- h_remove_ent h1 (ha_b2 s) k;
          match o2 with
          | None => HErr EUnwrap
          | Some ent =>
            hdo (h3, old) <- h_swap_value h2 ent v;
            let s1 := mkHarc (ha_size s) p' (ha_t1 s) (ha_b1 s) (ha_t2 s) b2' in
            hdo (h4, s2) <- (if Nat.leb (ha_size s) (recent_len + freq_len) then ha_replace h3 s1 true else HOk (h3, s1));
            hdo (h5, t2', _) <- h_put_nonnull h4 (ha_t2 s2) ent;
            HOk (h5, mkHarc (ha_size s2) (ha_p s2) (ha_t1 s2) (ha_b1 s2) t2' (ha_b2 s2), PUpdate old)
          end
        else
          hdo (h2, s1) <- (if Nat.leb (ha_size s) (recent_len + freq_len) then ha_replace h1 s false else HOk (h1, s));
          hdo (h3, b1') <- (if Nat.ltb (ha_size s - ha_p s) b1_len
                            then hdo (h', q', _) <- h_remove_lru h2 (ha_b1 s1); HOk (h', q')
                            else HOk (h2, ha_b1 s1));
          hdo (h4, b2') <- (if Nat.ltb (ha_p s) b2_len
                            then hdo (h', q', _) <- h_remove_lru h3 (ha_b2 s1); HOk (h', q')
                            else HOk (h3, ha_b2 s1));
          hdo (h5, t1'', r1) <- h_put h4 (ha_t1 s1) k v;
          HOk (h5, mkHarc (ha_size s) (ha_p s) t1'' b1' (ha_t2 s1) b2', r1)
    end
  end.

(** [get] / [get_mut]: a recent hit is moved to the frequent list *)
Definition ha_get_mut (h : heap) (s : harc) (k : key) (w : option val) : hres (heap * harc * option val) :=
  hdo r0 <- h_peek h (ha_t1 s) k;
  match r0 with
  | Some v0 =>
    hdo (h1, t1', o) <- h_remove_ent h (ha_t1 s) k;
    match o with
    | None => HOk (h1, mkHarc (ha_size s) (ha_p s) t1' (ha_b1 s) (ha_t2 s) (ha_b2 s), None)
    | Some ent =>
      hdo (h2, t2', _) <- h_put_nonnull h1 (ha_t2 s) ent;
      hdo (h3, e) <- h_write h2 ent w;
      HOk (h3, mkHarc (ha_size s) (ha_p s) t1' (ha_b1 s) t2' (ha_b2 s), Some (snd e))
    end
  | None =>
    hdo (h1, r) <- h_get_mut h (ha_t2 s) k w;
    HOk (h1, s, r)
  end.

Definition ha_peek (h : heap) (s : harc) (k : key) : hres (option val) :=
  hdo r <- h_peek h (ha_t1 s) k;
  match r with Some v => HOk (Some v) | None => h_peek h (ha_t2 s) k end.

Definition ha_peek_mut (h : heap) (s : harc) (k : key) (w : option val) : hres (heap * option val) :=
  hdo (h1, r) <- h_peek_mut h (ha_t1 s) k w;
  match r with Some v => HOk (h1, Some v) | None => h_peek_mut h1 (ha_t2 s) k w end.

Definition ha_contains (h : heap) (s : harc) (k : key) : hres bool :=
  hdo a <- h_contains h (ha_t1 s) k;
  if a then HOk true else h_contains h (ha_t2 s) k.

Definition ha_remove (h : heap) (s : harc) (k : key) : hres (heap * harc * option val) :=
  hdo (h1, t1', r) <- h_remove h (ha_t1 s) k;
  match r with
  | Some v => HOk (h1, mkHarc (ha_size s) (ha_p s) t1' (ha_b1 s) (ha_t2 s) (ha_b2 s), Some v)
  | None =>
    hdo (h2, t2', r2) <- h_remove h1 (ha_t2 s) k;
    match r2 with
    | Some v => HOk (h2, mkHarc (ha_size s) (ha_p s) t1' (ha_b1 s) t2' (ha_b2 s), Some v)
    | None =>
      hdo (h3, b1', r3) <- h_remove h2 (ha_b1 s) k;
      match r3 with
      | Some v => HOk (h3, mkHarc (ha_size s) (ha_p s) t1' b1' t2' (ha_b2 s), Some v)
      | None => hdo (h4, b2', r4) <- h_remove h3 (ha_b2 s) k;
                HOk (h4, mkHarc (ha_size s) (ha_p s) t1' b1' t2' b2', r4)
      end
    end
  end.

Definition ha_purge (h : heap) (s : harc) : hres (heap * harc) :=
  hdo (h1, q1) <- h_purge h (ha_t1 s);
  hdo (h2, q2) <- h_purge h1 (ha_b1 s);
  hdo (h3, q3) <- h_purge h2 (ha_t2 s);
  hdo (h4, q4) <- h_purge h3 (ha_b2 s);
  HOk (h4, mkHarc (ha_size s) (ha_p s) q1 q2 q3 q4).

Definition ha_drop (h : heap) (s : harc) : hres heap :=
  hdo h1 <- h_drop h (ha_t1 s); hdo h2 <- h_drop h1 (ha_b1 s);
  hdo h3 <- h_drop h2 (ha_t2 s); h_drop h3 (ha_b2 s).

Inductive aop :=
| APut (k : key) (v : val) | AGetMut (k : key) (w : option val) | APeek (k : key)
| APeekMut (k : key) (w : option val) | AContains (k : key) | ARemove (k : key) | APurge
| AIter (i : Z) (kd : iter_kind) (pre pa pb : list req).   (* the iterators over one of the four lists *)

Definition ha_list (s : harc) (i : Z) : option hlru :=
  if Z.eqb i 0 then Some (ha_t1 s) else if Z.eqb i 1 then Some (ha_b1 s)
  else if Z.eqb i 2 then Some (ha_t2 s) else if Z.eqb i 3 then Some (ha_b2 s) else None.

Definition ha_step (h : heap) (s : harc) (o : aop) : hres (heap * harc * hout) :=
  match o with
  | APut k v => hdo (h1, s1, r) <- ha_put h s k v; HOk (h1, s1, OPut r)
  | AGetMut k w => hdo (h1, s1, r) <- ha_get_mut h s k w; HOk (h1, s1, OVal r)
  | APeek k => hdo r <- ha_peek h s k; HOk (h, s, OVal r)
  | APeekMut k w => hdo (h1, r) <- ha_peek_mut h s k w; HOk (h1, s, OVal r)
  | AContains k => hdo b <- ha_contains h s k; HOk (h, s, OBool b)
  | ARemove k => hdo (h1, s1, r) <- ha_remove h s k; HOk (h1, s1, OVal r)
  | APurge => hdo (h1, s1) <- ha_purge h s; HOk (h1, s1, OUnit)
  | AIter i kd pre pa pb =>
    match ha_list s i with
    | Some ql => hdo (h1, ys) <- h_iter_script h ql kd pre pa pb; HOk (h1, s, OIter kd ys)
    | None => HOk (h, s, OUnit)
    end
  end.

Fixpoint ha_run (h : heap) (s : harc) (os : list aop) : hres (heap * harc * list hout) :=
  match os with
  | [] => HOk (h, s, [])
  | o :: rest =>
    hdo (h1, s1, r) <- ha_step h s o;
    hdo (h2, s2, rs) <- ha_run h1 s1 rest;
    HOk (h2, s2, r :: rs)
  end.
