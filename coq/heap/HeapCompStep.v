(** * The heap-level TwoQueueCache, AdaptiveCache and WTinyLFUCache as state machines the runner can
    drive (kinds 12, 13, 14).  Snapshots list, per internal list, the entries with the address of every
    linked node and the node addresses of the index; node names are global, so node identity across the
    lists (promotion, ghosting, revival) is part of what is compared with the implementation. *)
From VF Require Import Base Iter Enc Lru Slru Tiny WTiny TinyStep Heap HeapIterDef HeapStep HeapSlruDef HeapSlruStep
  HeapTwoQDef HeapArcDef HeapWTinyDef.
From Coq Require Import List Arith.
Import ListNotations.
Open Scope Z_scope.

(** ** kind 12: TwoQueueCache.  cfg [size; recent quota; ghost capacity] *)
Record htqstate := mkHtqstate { htq_h : heap; htq_s : htwoq }.

Definition htqinit (cfg : list Z) : option htqstate :=
  match cfg with
  | [size; rs; es] =>
    if Z.leb size 0 || Z.leb es 0 || Z.ltb rs 0 then None
    else let '(h, s) := ht_new heap0 (Z.to_nat size) (Z.to_nat rs) (Z.to_nat es) in Some (mkHtqstate h s)
  | _ => None
  end.

Definition dec_qop (l : list Z) : option qop :=
  match l with
  | [0; k; v] => Some (QPut k v)
  | [1; k] => Some (QGetMut k None)
  | [2; k; f; w] => Some (QGetMut k (dec_w f w))
  | [3; k] => Some (QPeek k)
  | [4; k; f; w] => Some (QPeekMut k (dec_w f w))
  | [5; k] => Some (QContains k)
  | [6; k] => Some (QRemove k)
  | [7] => Some QPurge
  | _ => None
  end.

Definition ilen (q : hlru) : nat := length (hidx q).

Definition htqstep_enc (s : htqstate) (o : list Z) : option (htqstate * list Z * list Z) :=
  let q := htq_s s in
  match dec_qop o with
  | None =>
    match o with
    | [8] => Some (s, [zn (ilen (tq_r q) + ilen (tq_f q))], [0])
    | [9] => Some (s, [zn (tq_size q)], [0])
    | [10] => Some (s, [zb (Nat.eqb (ilen (tq_f q)) 0 && Nat.eqb (ilen (tq_r q)) 0 && Nat.eqb (ilen (tq_g q)) 0)], [0])
    | [50] => Some (s, [zn (ilen (tq_r q))], [0])
    | [51] => Some (s, [zn (ilen (tq_f q))], [0])
    | [52] => Some (s, [zn (ilen (tq_g q))], [0])
    | [26] => Some (s, [zn (ilen (tq_r q) + ilen (tq_f q)); zn (tq_size q)], [0])
    | 60 :: i :: args =>                                        (* the per-list iterators *)
      match dec_iter args with
      | Some (kd, pre, pa, pb) =>
        match ht_step (htq_h s) q (QIter i kd pre pa pb) with
        | HOk (h1, s1, r) => Some (mkHtqstate h1 s1, enc_hout r, [0])
        | HErr e => Some (s, [-2000; herr_code e], [0])
        end
      | None => Some (s, [], [0])
      end
    | _ => None
    end
  | Some op =>
    match ht_step (htq_h s) q op with
    | HOk (h1, s1, r) => Some (mkHtqstate h1 s1, enc_hout r, [0])
    | HErr e => Some (s, [-2000; herr_code e], [0])
    end
  end.

Definition htqsnap (s : htqstate) : list Z :=
  let q := htq_s s in
  zn (tq_size q) :: zn (tq_rsize q) :: zn (hcap (tq_g q)) ::
  list_snap (htq_h s) (tq_r q) ++ list_snap (htq_h s) (tq_f q) ++ list_snap (htq_h s) (tq_g q) ++ [1].

Definition htqretained (s : htqstate) : nat :=
  (ilen (tq_r (htq_s s)) + ilen (tq_f (htq_s s)) + ilen (tq_g (htq_s s)))%nat.

Definition htqdrop_out (s : htqstate) : list Z :=
  match ht_drop (htq_h s) (htq_s s) with
  | HOk h' => [zn (htqretained s); zn (htqretained s); 0; 0; zn (count_live (cells h') (fresh h')); 0]
  | HErr e => [-2000; herr_code e]
  end.

(** ** kind 13: AdaptiveCache.  cfg [size] *)
Record hastate := mkHastate { has_h : heap; has_s : harc }.

Definition hainit (cfg : list Z) : option hastate :=
  match cfg with
  | [size] => if Z.leb size 0 then None
              else let '(h, s) := ha_new heap0 (Z.to_nat size) in Some (mkHastate h s)
  | _ => None
  end.

Definition dec_aop (l : list Z) : option aop :=
  match l with
  | [0; k; v] => Some (APut k v)
  | [1; k] => Some (AGetMut k None)
  | [2; k; f; w] => Some (AGetMut k (dec_w f w))
  | [3; k] => Some (APeek k)
  | [4; k; f; w] => Some (APeekMut k (dec_w f w))
  | [5; k] => Some (AContains k)
  | [6; k] => Some (ARemove k)
  | [7] => Some APurge
  | _ => None
  end.

Definition hastep_enc (s : hastate) (o : list Z) : option (hastate * list Z * list Z) :=
  let q := has_s s in
  match dec_aop o with
  | None =>
    match o with
    | [8] => Some (s, [zn (ilen (ha_t1 q) + ilen (ha_t2 q))], [0])
    | [9] => Some (s, [zn (ha_size q)], [0])
    | [10] => Some (s, [zb (Nat.eqb (ilen (ha_t1 q)) 0 && Nat.eqb (ilen (ha_b1 q)) 0
                            && Nat.eqb (ilen (ha_t2 q)) 0 && Nat.eqb (ilen (ha_b2 q)) 0)], [0])
    | [70] => Some (s, [zn (ha_p q)], [0])
    | [71] => Some (s, [zn (ilen (ha_t1 q))], [0])
    | [72] => Some (s, [zn (ilen (ha_t2 q))], [0])
    | [73] => Some (s, [zn (ilen (ha_b1 q))], [0])
    | [74] => Some (s, [zn (ilen (ha_b2 q))], [0])
    | 60 :: i :: args =>
      match dec_iter args with
      | Some (kd, pre, pa, pb) =>
        match ha_step (has_h s) q (AIter i kd pre pa pb) with
        | HOk (h1, s1, r) => Some (mkHastate h1 s1, enc_hout r, [0])
        | HErr e => Some (s, [-2000; herr_code e], [0])
        end
      | None => Some (s, [], [0])
      end
    | _ => None
    end
  | Some op =>
    match ha_step (has_h s) q op with
    | HOk (h1, s1, r) => Some (mkHastate h1 s1, enc_hout r, [0])
    | HErr e => Some (s, [-2000; herr_code e], [0])
    end
  end.

Definition hasnap (s : hastate) : list Z :=
  let q := has_s s in
  zn (ha_size q) :: zn (ha_p q) ::
  list_snap (has_h s) (ha_t1 q) ++ list_snap (has_h s) (ha_b1 q) ++
  list_snap (has_h s) (ha_t2 q) ++ list_snap (has_h s) (ha_b2 q) ++ [1].

Definition haretained (s : hastate) : nat :=
  (ilen (ha_t1 (has_s s)) + ilen (ha_b1 (has_s s)) + ilen (ha_t2 (has_s s)) + ilen (ha_b2 (has_s s)))%nat.

Definition hadrop_out (s : hastate) : list Z :=
  match ha_drop (has_h s) (has_s s) with
  | HOk h' => [zn (haretained s); zn (haretained s); 0; 0; zn (count_live (cells h') (fresh h')); 0]
  | HErr e => [-2000; herr_code e]
  end.

(** ** kind 14: WTinyLFUCache.  cfg as kind 4: [window; protected; probationary; samples; khmode; estimator...] *)
Record hwstate := mkHwstate { hws_h : heap; hws_s : hwtiny }.

Definition hwinit (cfg : list Z) : option hwstate :=
  match cfg with
  | wc :: fc :: pc :: samples :: kh :: rest =>
    if Z.leb wc 0 || Z.leb fc 0 || Z.leb pc 0 then None
    else match tinit ((wc + fc + pc) :: samples :: rest) with
         | Some t => let '(h, s) := hw_new heap0 t kh (Z.to_nat wc) (Z.to_nat pc) (Z.to_nat fc) in Some (mkHwstate h s)
         | None => None
         end
  | _ => None
  end.

Definition dec_wop (l : list Z) : option wop :=
  match l with
  | [0; k; v] => Some (WPut k v)
  | [1; k] => Some (WGetMut k None)
  | [2; k; f; w] => Some (WGetMut k (dec_w f w))
  | [3; k] => Some (WPeek k)
  | [4; k; f; w] => Some (WPeekMut k (dec_w f w))
  | [5; k] => Some (WContains k)
  | [6; k] => Some (WRemove k)
  | [7] => Some WPurge
  | [25] => Some WClone
  | _ => None
  end.

Definition hwstep_enc (s : hwstate) (o : list Z) : option (hwstate * list Z * list Z) :=
  let q := hws_s s in
  match dec_wop o with
  | None =>
    match o with
    | [8] => Some (s, [zn (ilen (hw_lru q) + hs_len (hw_slru q))], [0])
    | [9] => Some (s, [zn (hcap (hw_lru q) + hs_cap (hw_slru q))], [0])
    | [10] => Some (s, [zb (Nat.eqb (ilen (hw_lru q)) 0 && Nat.eqb (ilen (hprot (hw_slru q))) 0
                            && Nat.eqb (ilen (hprob (hw_slru q))) 0)], [0])
    | [100] => Some (s, [zn (ilen (hw_lru q))], [0])
    | [101] => Some (s, [zn (hcap (hw_lru q))], [0])
    | [102] => Some (s, [zn (hs_len (hw_slru q))], [0])
    | [103] => Some (s, [zn (hs_cap (hw_slru q))], [0])
    | _ => None
    end
  | Some op =>
    match hw_step (hws_h s) q op with
    | HOk (h1, s1, r) => Some (mkHwstate h1 s1, enc_hout r, [0])
    | HErr EUnwrap => Some (s, [-1000], [0])
    | HErr e => Some (s, [-2000; herr_code e], [0])
    end
  end.

Definition hwsnap (s : hwstate) : list Z :=
  let q := hws_s s in
  zn (hcap (hw_lru q)) :: zn (hcap (hprob (hw_slru q))) :: zn (hcap (hprot (hw_slru q))) ::
  list_snap (hws_h s) (hw_lru q) ++ list_snap (hws_h s) (hprob (hw_slru q)) ++
  list_snap (hws_h s) (hprot (hw_slru q)) ++ [1] ++ tsnap (hw_tiny q).

Definition hwretained (s : hwstate) : nat := (ilen (hw_lru (hws_s s)) + hs_len (hw_slru (hws_s s)))%nat.

Definition hwdrop_out (s : hwstate) : list Z :=
  match hw_drop (hws_h s) (hws_s s) with
  | HOk h' => [zn (hwretained s); zn (hwretained s); 0; 0; zn (count_live (cells h') (fresh h')); 0]
  | HErr e => [-2000; herr_code e]
  end.
