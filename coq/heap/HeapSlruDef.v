(** * Layer H — SegmentedCache (src/lru/segmented.rs) on the heap, definitions: two RawLRU lists in one
    heap, nodes promoted and demoted between them without being freed.  Written over the heap-level
    primitives exactly as the Rust code is written over RawLRU. *)
From VF Require Import Base Heap HeapIterDef.
From Coq Require Import List Arith.
Import ListNotations.
Local Open Scope nat_scope.

Record hslru := mkHslru { hprob : hlru; hprot : hlru }.

Definition hs_new (h : heap) (pc fc : nat) : heap * hslru :=
  let '(h1, qa) := hnew h pc in
  let '(h2, qb) := hnew h1 fc in
  (h2, mkHslru qa qb).

(** the node [ent], in no list, enters the protected list; a node the protected list pushes out goes
    back to the front of the probationary list (which has room: [ent] came from there) *)
Definition hs_promote (h : heap) (qa qb : hlru) (ent : addr) : hres (heap * hslru) :=
  hdo (h2, qb', ev) <- h_put_or_evict_nonnull h qb ent;
  match ev with
  | None => HOk (h2, mkHslru qa qb')
  | Some old => hdo (h3, qa2, _) <- h_put_nonnull h2 qa old; HOk (h3, mkHslru qa2 qb')
  end.

(** [move_to_protected]; returns the node, i.e. what the reference handed back points into *)
Definition hs_move_to_protected (h : heap) (s : hslru) (k : key) : hres (heap * hslru * option addr) :=
  hdo (h1, qa, r) <- h_remove_ent h (hprob s) k;
  match r with
  | None => HOk (h1, mkHslru qa (hprot s), None)
  | Some ent => hdo (h2, s2) <- hs_promote h1 qa (hprot s) ent; HOk (h2, s2, Some ent)
  end.

Definition hs_put (h : heap) (s : hslru) (k : key) (v : val) : hres (heap * hslru * put_result) :=
  hdo r <- idx_find h (hidx (hprot s)) k;
  match r with
  | Some n => hdo (h1, old) <- h_update h (hprot s) n v; HOk (h1, s, PUpdate old)
  | None =>
    hdo b <- h_contains h (hprob s) k;
    if b then
      hdo (h1, qa, r1) <- h_remove_ent h (hprob s) k;
      match r1 with
      | None => HOk (h1, mkHslru qa (hprot s), PUpdate v)
      | Some ent =>
        hdo (h2, old) <- h_swap_value h1 ent v;
        hdo (h3, s3) <- hs_promote h2 qa (hprot s) ent;
        HOk (h3, s3, PUpdate old)
      end
    else hdo (h1, qa, r1) <- h_put h (hprob s) k v; HOk (h1, mkHslru qa (hprot s), r1)
  end.

(** [get] / [get_mut]: the caller may write [w] through the reference it gets *)
Definition hs_get_mut (h : heap) (s : hslru) (k : key) (w : option val) : hres (heap * hslru * option val) :=
  hdo (h1, r) <- h_get_mut h (hprot s) k w;
  match r with
  | Some v => HOk (h1, s, Some v)
  | None =>
    hdo r2 <- h_peek h1 (hprob s) k;
    match r2 with
    | None => HOk (h1, s, None)
    | Some v0 =>
      hdo (h2, s2, r3) <- hs_move_to_protected h1 s k;
      match r3 with
      | None => HOk (h2, s2, None)
      | Some ent => hdo (h3, e) <- h_write h2 ent w; HOk (h3, s2, Some (snd e))
      end
    end
  end.

Definition hs_peek (h : heap) (s : hslru) (k : key) : hres (option val) :=
  hdo r <- h_peek h (hprot s) k;
  match r with Some v => HOk (Some v) | None => h_peek h (hprob s) k end.

Definition hs_peek_mut (h : heap) (s : hslru) (k : key) (w : option val) : hres (heap * option val) :=
  hdo (h1, r) <- h_peek_mut h (hprot s) k w;
  match r with Some v => HOk (h1, Some v) | None => h_peek_mut h1 (hprob s) k w end.

Definition hs_contains (h : heap) (s : hslru) (k : key) : hres bool :=
  hdo a <- h_contains h (hprot s) k;
  if a then HOk true else h_contains h (hprob s) k.

Definition hs_remove (h : heap) (s : hslru) (k : key) : hres (heap * hslru * option val) :=
  hdo (h1, qa, r) <- h_remove h (hprob s) k;
  match r with
  | Some v => HOk (h1, mkHslru qa (hprot s), Some v)
  | None => hdo (h2, qb, r2) <- h_remove h1 (hprot s) k; HOk (h2, mkHslru qa qb, r2)
  end.

Definition hs_purge (h : heap) (s : hslru) : hres (heap * hslru) :=
  hdo (h1, qa) <- h_purge h (hprob s);
  hdo (h2, qb) <- h_purge h1 (hprot s);
  HOk (h2, mkHslru qa qb).

Definition hs_drop (h : heap) (s : hslru) : hres heap :=
  hdo h1 <- h_drop h (hprob s); h_drop h1 (hprot s).


(** [SegmentedCache::put_protected] *)
Definition hs_put_protected (h : heap) (s : hslru) (k : key) (v : val) : hres (heap * hslru * put_result) :=
  hdo (h1, qa, r) <- h_remove h (hprob s) k;
  hdo (h2, qb, pr) <- h_put h1 (hprot s) k v;
  HOk (h2, mkHslru qa qb,
       match r with
       | Some old => match pr with
                     | PPut => PUpdate old
                     | PEvicted ek ev => PEvictedAndUpdate ek ev old
                     | other => other
                     end
       | None => pr
       end).


(** the per-segment accessors ([peek_lru_from_probationary], [remove_lru_from_protected], ...): a RawLRU
    operation applied to one of the two lists *)
Definition hs_seg (h : heap) (s : hslru) (protected : bool) (o : hop) : hres (heap * hslru * hout) :=
  if protected then hdo (h1, q1, r) <- hstep h (hprot s) o; HOk (h1, mkHslru (hprob s) q1, r)
  else hdo (h1, q1, r) <- hstep h (hprob s) o; HOk (h1, mkHslru q1 (hprot s), r).

(** ** one step; histories *)
(** [Clone for SegmentedCache]: the probationary list, then the protected one; [x = x.clone()] then drops the
    original *)
Definition hs_clone (h : heap) (s : hslru) : hres (heap * hslru) :=
  hdo (h1, qa) <- h_clone h (hprob s);
  hdo (h2, qb) <- h_clone h1 (hprot s);
  HOk (h2, mkHslru qa qb).

Definition hs_clone_replace (h : heap) (s : hslru) : hres (heap * hslru) :=
  hdo (h1, s') <- hs_clone h s;
  hdo h2 <- hs_drop h1 s;
  HOk (h2, s').

Inductive sop :=
| SPut (k : key) (v : val) | SGetMut (k : key) (w : option val) | SPeek (k : key)
| SPeekMut (k : key) (w : option val) | SContains (k : key) | SRemove (k : key) | SPurge
| SPutProtected (k : key) (v : val)
| SClone.

Definition hs_step (h : heap) (s : hslru) (o : sop) : hres (heap * hslru * hout) :=
  match o with
  | SPut k v => hdo (h1, s1, r) <- hs_put h s k v; HOk (h1, s1, OPut r)
  | SGetMut k w => hdo (h1, s1, r) <- hs_get_mut h s k w; HOk (h1, s1, OVal r)
  | SPeek k => hdo r <- hs_peek h s k; HOk (h, s, OVal r)
  | SPeekMut k w => hdo (h1, r) <- hs_peek_mut h s k w; HOk (h1, s, OVal r)
  | SContains k => hdo b <- hs_contains h s k; HOk (h, s, OBool b)
  | SRemove k => hdo (h1, s1, r) <- hs_remove h s k; HOk (h1, s1, OVal r)
  | SPurge => hdo (h1, s1) <- hs_purge h s; HOk (h1, s1, OUnit)
  | SPutProtected k v => hdo (h1, s1, r) <- hs_put_protected h s k v; HOk (h1, s1, OPut r)
  | SClone => hdo (h1, s1) <- hs_clone_replace h s; HOk (h1, s1, OUnit)
  end.


Fixpoint hs_run (h : heap) (s : hslru) (os : list sop) : hres (heap * hslru * list hout) :=
  match os with
  | [] => HOk (h, s, [])
  | o :: rest =>
    hdo (h1, s1, r) <- hs_step h s o;
    hdo (h2, s2, rs) <- hs_run h1 s1 rest;
    HOk (h2, s2, r :: rs)
  end.

