(** * The heap-level RawLRU as a state machine the runner can drive (kind 9).

    Operations are the ones of LruStep with the same codes; the snapshot lists, besides the entries,
    the address of every linked node, most recent first.  The harness renames the real addresses
    in order of first appearance (sentinels 0 and 1, then 2, 3, ... ; a node that leaves the chain
    loses its name), which is exactly how the model allocates, so the two snapshots are comparable:
    node identity under update, promotion and recycling is part of what is compared. *)
From VF Require Import Base Iter Enc Heap HeapIterDef.
From Coq Require Import List Arith.
Import ListNotations.
Open Scope Z_scope.

Definition dec_hop (l : list Z) : option hop :=
  match l with
  | [0; k; v] => Some (HPut k v)
  | [1; k] => Some (HGetMut k None)
  | [2; k; f; w] => Some (HGetMut k (dec_w f w))
  | [3; k] => Some (HPeek k)
  | [6; k] => Some (HRemove k)
  | [7] => Some HPurge
  | [11; n] => Some (HResize (Z.to_nat n))
  | [23] => Some HRemoveLru
  | [4; k; f; w] => Some (HPeekMut k (dec_w f w))
  | [5; k] => Some (HContains k)
  | [12] => Some (HGetLru None)
  | [13] => Some (HPeekMru None)
  | [14; f; w] => Some (HGetLru (dec_w f w))
  | [15; f; w] => Some (HPeekMru (dec_w f w))
  | [16; k; v] => Some (HPeekMutOrPut k v None)
  | [17; k; v; f; w] => Some (HPeekMutOrPut k v (dec_w f w))
  | [18; k; v] => Some (HContainsOrPut k v)
  | [19] => Some (HPeekLru None)
  | [20; f; w] => Some (HPeekLru (dec_w f w))
  | [21] => Some (HPeekMru None)
  | [22; f; w] => Some (HPeekMru (dec_w f w))
  | _ => None
  end.

Record hstate := mkHstate { hs_h : heap; hs_q : hlru }.

Definition hinit (cfg : list Z) : option hstate :=
  match cfg with
  | [c] => if Z.leb c 0 then None
           else let '(h, q) := hnew heap0 (Z.to_nat c) in Some (mkHstate h q)
  | _ => None
  end.

Definition enc_hout (o : hout) : list Z :=
  match o with
  | OPut r => enc_put r
  | OVal v => enc_opt_v v
  | OEnt e => enc_opt_kv e
  | OUnit => []
  | OBool b => [zb b]
  | OValPut a b => enc_opt_v a ++ enc_opt_put b
  | OBoolPut a b => zb a :: enc_opt_put b
  | OIter kd ys => enc_iter_out kd ys
  end.

Definition herr_code (e : herr) : Z :=
  match e with EUaf => 1 | EUninit => 2 | EDoubleFree => 3 | EUnwrap => 4 end.

(** an iterator script on one list: [kind npre na nb triples...] (Enc.dec_iter); the result as LruStep encodes it *)
Definition run_hlist_iter (h : heap) (q : hlru) (args : list Z) : option (hres (heap * list Z)) :=
  match dec_iter args with
  | Some (kd, pre, pa, pb) =>
    Some (hdo (h1, ys) <- h_iter_script h q kd pre pa pb; HOk (h1, enc_iter_out kd ys))
  | None => None
  end.

(** a memory error of the model is reported as the result [-2000; code]: the implementation never
    prints that, so the comparison fails *)
Definition hstep_enc (s : hstate) (o : list Z) : option (hstate * list Z * list Z) :=
  match dec_hop o with
  | None =>
    match o with
    | [8] => Some (s, [zn (length (hidx (hs_q s)))], [0])       (* len = map.len() *)
    | [9] => Some (s, [zn (hcap (hs_q s))], [0])
    | [10] => Some (s, [zb (Nat.eqb (length (hidx (hs_q s))) 0)], [0])
    | 24 :: args =>                                             (* the iterators *)
      match run_hlist_iter (hs_h s) (hs_q s) args with
      | Some (HOk (h1, out)) => Some (mkHstate h1 (hs_q s), out, [0])
      | Some (HErr e) => Some (s, [-2000; herr_code e], [0])
      | None => None
      end
    | [25] =>                                                   (* x = x.clone() *)
      match h_clone_replace (hs_h s) (hs_q s) with
      | HOk (h1, q1) => Some (mkHstate h1 q1, [], [0])
      | HErr e => Some (s, [-2000; herr_code e], [0])
      end
    | _ => None
    end
  | Some op =>
    match hstep (hs_h s) (hs_q s) op with
    | HOk (h1, q1, r) =>
      let out := match op with
                 | HResize _ => [zn (length (hidx (hs_q s)) - length (hidx q1))]
                 | _ => enc_hout r
                 end in
      Some (mkHstate h1 q1, out, [0])
    | HErr e => Some (s, [-2000; herr_code e], [0])
    end
  end.

Fixpoint enc_nodes (l : list (addr * entry)) : list Z :=
  match l with
  | [] => []
  | (a, (k, v)) :: t => k :: v :: zn a :: enc_nodes t
  end.

(** [cap; n; (k v addr)*; index addresses in increasing order...; wf] *)
Fixpoint insert_sorted (x : nat) (l : list nat) : list nat :=
  match l with
  | [] => [x]
  | y :: t => if Nat.leb x y then x :: l else y :: insert_sorted x t
  end.
Definition sort_nat (l : list nat) : list nat := fold_right insert_sorted [] l.

Definition hsnap (s : hstate) : list Z :=
  match habs (hs_h s) (hs_q s) with
  | HOk l => zn (hcap (hs_q s)) :: zn (length l) :: enc_nodes l
               ++ map zn (sort_nat (map snd (hidx (hs_q s)))) ++ [1]
  | HErr e => [-2000; herr_code e]
  end.

Definition hretained (s : hstate) : nat := length (hidx (hs_q s)).

(** the final drop: run [Drop] on the heap; the fifth number is the count of cells below [fresh]
    that are still allocated afterwards (the harness reports its live heap blocks there) *)
Fixpoint count_live (c : addr -> cell) (n : nat) : nat :=
  match n with
  | O => O
  | S m => ((match c m with Free => 0 | Node _ _ _ _ => 1 end) + count_live c m)%nat
  end.

Definition hdrop_out (s : hstate) : list Z :=
  match h_drop (hs_h s) (hs_q s) with
  | HOk h' => [zn (hretained s); zn (hretained s); 0; 0; zn (count_live (cells h') (fresh h')); 0]
  | HErr e => [-2000; herr_code e]
  end.
