(** * Layer H — well-formedness of the intrusive list and its preservation by [detach] / [attach]. *)
From VF Require Import Base Heap.
From Coq Require Import List Arith Lia Permutation.
Import ListNotations.
Local Open Scope nat_scope.

Definition first_addr (l : list (addr * entry)) (n : addr) : addr :=
  match l with [] => n | (a, _) :: _ => a end.

Fixpoint last_addr (p : addr) (l : list (addr * entry)) : addr :=
  match l with [] => p | (a, _) :: t => last_addr a t end.

(** [seg c p l n]: the nodes of [l] are allocated, initialised, and linked in order between the
    cell [p] (before the first) and the cell [n] (after the last) *)
Fixpoint seg (c : addr -> cell) (p : addr) (l : list (addr * entry)) (n : addr) : Prop :=
  match l with
  | [] => True
  | (a, (k, v)) :: t => c a = Node (Some k) (Some v) p (first_addr t n) /\ seg c a t n
  end.

Definition addrs (l : list (addr * entry)) : list addr := map fst l.

Record chain (h : heap) (q : hlru) (l : list (addr * entry)) : Prop := mkChain {
  ch_nodup : NoDup (hhead q :: htail q :: addrs l);
  ch_head : exists hp, cells h (hhead q) = Node None None hp (first_addr l (htail q));
  ch_tail : exists tn, cells h (htail q) = Node None None (last_addr (hhead q) l) tn;
  ch_seg : seg (cells h) (hhead q) l (htail q);
  ch_fresh : forall a, In a (hhead q :: htail q :: addrs l) -> a < fresh h
}.

(** ** basic heap lemmas *)
Lemma cells_hupd_same h a c : cells (hupd h a c) a = c.
Proof. unfold hupd. cbn. now rewrite Nat.eqb_refl. Qed.
Lemma cells_hupd_other h a c x : x <> a -> cells (hupd h a c) x = cells h x.
Proof. intros H. unfold hupd. cbn. destruct (Nat.eqb_spec x a); [contradiction|reflexivity]. Qed.
Lemma fresh_hupd h a c : fresh (hupd h a c) = fresh h.
Proof. reflexivity. Qed.

Lemma hread_node h a k v p n : cells h a = Node k v p n -> hread h a = HOk (k, v, p, n).
Proof. intros H. unfold hread. now rewrite H. Qed.

(** ** segments *)
Lemma first_addr_app l1 l2 n : first_addr (l1 ++ l2) n = first_addr l1 (first_addr l2 n).
Proof. destruct l1 as [|[a e] t]; reflexivity. Qed.

Lemma last_addr_app p l1 l2 : last_addr p (l1 ++ l2) = last_addr (last_addr p l1) l2.
Proof. revert p. induction l1 as [|[a e] t IH]; intros p; cbn; auto. Qed.

Lemma seg_app c p l1 l2 n :
  seg c p (l1 ++ l2) n <-> seg c p l1 (first_addr l2 n) /\ seg c (last_addr p l1) l2 n.
Proof.
  revert p. induction l1 as [|[a [k v]] t IH]; intros p; cbn [app seg last_addr].
  - tauto.
  - rewrite IH, first_addr_app. tauto.
Qed.

Lemma seg_frame c c' p l n :
  (forall a, In a (addrs l) -> c' a = c a) -> seg c p l n -> seg c' p l n.
Proof.
  revert p. induction l as [|[a [k v]] t IH]; intros p Hf; cbn [seg]; [auto|].
  intros [H1 H2]. split.
  - rewrite Hf; [exact H1|now left].
  - apply IH; [|exact H2]. intros x Hx. apply Hf. now right.
Qed.

Lemma last_addr_in p l : last_addr p l = p \/ In (last_addr p l) (addrs l).
Proof.
  revert p. induction l as [|[a e] t IH]; intros p; cbn; [now left|].
  destruct (IH a) as [H|H]; [right; left; congruence|right; right; exact H].
Qed.

Lemma last_addr_nonempty p a e t : In (last_addr p ((a, e) :: t)) (addrs ((a, e) :: t)).
Proof. cbn [last_addr]. destruct (last_addr_in a t) as [H|H]; [left; cbn; congruence|right; exact H]. Qed.

Lemma first_addr_in l n : first_addr l n = n \/ In (first_addr l n) (addrs l).
Proof. destruct l as [|[a e] t]; [now left|right; now left]. Qed.

(** the cells of a segment are nodes *)
Lemma seg_cell c p l n a : seg c p l n -> In a (addrs l) -> exists k v pp nn, c a = Node (Some k) (Some v) pp nn.
Proof.
  revert p. induction l as [|[b [k v]] t IH]; intros p; cbn [seg addrs map fst]; [intros _ []|].
  intros [H1 H2] [<-|Hin]; [eauto|]. eapply IH; eauto.
Qed.

(** the node at a split point *)
Lemma seg_mid c p l1 a k v l2 n :
  seg c p (l1 ++ (a, (k, v)) :: l2) n ->
  c a = Node (Some k) (Some v) (last_addr p l1) (first_addr l2 n).
Proof. intros H. apply seg_app in H. destruct H as [_ H]. cbn [seg] in H. apply H. Qed.

Lemma addrs_app l1 l2 : addrs (l1 ++ l2) = addrs l1 ++ addrs l2.
Proof. apply map_app. Qed.

(** ** address bookkeeping *)
Lemma nodup_app_l {A} (a b : list A) : NoDup (a ++ b) -> NoDup a.
Proof.
  induction a as [|x a IH]; cbn; intros H; [constructor|]. inversion H; subst.
  constructor; [|auto]. intros Hin. match goal with H : ~ In _ _ |- _ => apply H end. apply in_or_app. now left.
Qed.
Lemma nodup_app_r {A} (a b : list A) : NoDup (a ++ b) -> NoDup b.
Proof. induction a as [|x a IH]; cbn; intros H; [exact H|]. inversion H; subst. auto. Qed.

Lemma nodup_split_facts (hd tl a : addr) (A1 A2 : list addr) :
  NoDup (hd :: tl :: A1 ++ a :: A2) ->
  hd <> tl /\ hd <> a /\ tl <> a /\ ~ In hd A1 /\ ~ In hd A2 /\ ~ In tl A1 /\ ~ In tl A2 /\
  ~ In a A1 /\ ~ In a A2 /\ NoDup A1 /\ NoDup A2 /\ (forall x, In x A1 -> In x A2 -> False) /\
  NoDup (hd :: tl :: A1 ++ A2).
Proof.
  intros H. inversion H as [|? ? Hhd H1]; subst. inversion H1 as [|? ? Htl H2]; subst.
  pose proof (NoDup_remove_1 _ _ _ H2) as H3. pose proof (NoDup_remove_2 _ _ _ H2) as H4.
  rewrite in_app_iff in H4.
  assert (Hx : forall x, In x A1 -> In x A2 -> False).
  { intros x Hx1 Hx2. clear - H3 Hx1 Hx2. induction A1 as [|y A1 IH]; [destruct Hx1|].
    cbn in H3. inversion H3; subst. destruct Hx1 as [->|Hx1]; [|auto].
    match goal with H : ~ In _ _ |- _ => apply H end. apply in_or_app. now right. }
  repeat split.
  - intros E. apply Hhd. now left.
  - intros E. apply Hhd. right. apply in_or_app. right. now left.
  - intros E. apply Htl. apply in_or_app. right. now left.
  - intros Hin. apply Hhd. right. apply in_or_app. now left.
  - intros Hin. apply Hhd. right. apply in_or_app. right. now right.
  - intros Hin. apply Htl. apply in_or_app. now left.
  - intros Hin. apply Htl. apply in_or_app. right. now right.
  - tauto.
  - tauto.
  - eapply nodup_app_l; eauto.
  - eapply nodup_app_r; eauto.
  - exact Hx.
  - constructor.
    + intros [E|Hin]; [apply Hhd; now left|]. apply Hhd. right.
      apply in_app_or in Hin. apply in_or_app. destruct Hin; [now left|right; now right].
    + constructor; [|exact H3]. intros Hin. apply Htl.
      apply in_app_or in Hin. apply in_or_app. destruct Hin; [now left|right; now right].
Qed.

Definition cell_set_next (c : cell) (n : addr) : cell :=
  match c with Node k v p _ => Node k v p n | Free => Free end.
Definition cell_set_prev (c : cell) (p : addr) : cell :=
  match c with Node k v _ n => Node k v p n | Free => Free end.

Lemma set_next_ok h a n k v p x :
  cells h a = Node k v p x -> set_next h a n = HOk (hupd h a (cell_set_next (cells h a) n)).
Proof. intros H. unfold set_next. rewrite (hread_node _ _ _ _ _ _ H), H. reflexivity. Qed.
Lemma set_prev_ok h a n k v p x :
  cells h a = Node k v p x -> set_prev h a n = HOk (hupd h a (cell_set_prev (cells h a) n)).
Proof. intros H. unfold set_prev. rewrite (hread_node _ _ _ _ _ _ H), H. reflexivity. Qed.

(** re-pointing the [next] of the last node of a segment *)
Lemma seg_set_last_next c p l n n' :
  NoDup (addrs l) -> l <> [] -> seg c p l n ->
  seg (fun y => if Nat.eqb y (last_addr p l) then cell_set_next (c y) n' else c y) p l n'.
Proof.
  revert p. induction l as [|[a [k v]] t IH]; intros p Hnd Hne Hs; [congruence|].
  cbn [seg last_addr] in *. destruct Hs as [H1 H2]. cbn [addrs map fst] in Hnd. inversion Hnd as [|? ? Hna Hnd']; subst.
  destruct t as [|[b e'] t'].
  - cbn [last_addr first_addr seg]. rewrite Nat.eqb_refl, H1. cbn. auto.
  - assert (Hla : last_addr a ((b, e') :: t') <> a).
    { intros E. apply Hna. rewrite <- E. apply last_addr_nonempty. }
    split.
    + destruct (Nat.eqb_spec a (last_addr a ((b, e') :: t'))); [congruence|]. exact H1.
    + apply IH; auto. discriminate.
Qed.

(** re-pointing the [prev] of the first node of a segment *)
Lemma seg_set_first_prev c p p' l n :
  NoDup (addrs l) -> seg c p l n ->
  seg (fun y => if Nat.eqb y (first_addr l n) then cell_set_prev (c y) p' else c y) p' l n \/ l = [].
Proof.
  intros Hnd Hs. destruct l as [|[a [k v]] t]; [now right|left].
  cbn [seg first_addr] in *. destruct Hs as [H1 H2]. cbn [addrs map fst] in Hnd. inversion Hnd as [|? ? Hna Hnd']; subst.
  split.
  - rewrite Nat.eqb_refl, H1. reflexivity.
  - eapply seg_frame; [|exact H2]. intros x Hx. cbn beta.
    destruct (Nat.eqb_spec x a); [subst; contradiction|reflexivity].
Qed.

(** ** detach *)
Theorem detach_chain h q l1 a e l2 :
  chain h q (l1 ++ (a, e) :: l2) ->
  exists h', detach h a = HOk h' /\ chain h' q (l1 ++ l2) /\
             cells h' a = cells h a /\ fresh h' = fresh h /\
             (forall x, x <> hhead q -> x <> htail q -> ~ In x (addrs (l1 ++ l2)) -> cells h' x = cells h x).
Proof.
  intros [Hnd [hp Hh] [tn Ht] Hseg Hfr]. destruct e as [k v].
  pose proof (seg_mid _ _ _ _ _ _ _ _ Hseg) as Ha.
  set (P := last_addr (hhead q) l1) in *. set (N := first_addr l2 (htail q)) in *.
  rewrite addrs_app in Hnd. cbn [addrs map fst] in Hnd. fold (addrs l1) (addrs l2) in Hnd.
  destruct (nodup_split_facts _ _ _ _ _ Hnd)
    as (Hht & Hha & Hta & Hh1 & Hh2 & Ht1 & Ht2 & Ha1 & Ha2 & Hn1 & Hn2 & Hdisj & Hnd').
  assert (HP : P = hhead q /\ l1 = [] \/ In P (addrs l1) /\ l1 <> []).
  { subst P. destruct l1 as [|[b eb] t]; [left; auto|right]. split; [apply last_addr_nonempty|discriminate]. }
  assert (HN : N = htail q /\ l2 = [] \/ In N (addrs l2) /\ l2 <> []).
  { subst N. destruct l2 as [|[b eb] t]; [left; auto|right]. split; [now left|discriminate]. }
  apply seg_app in Hseg. destruct Hseg as [Hs1 Hs2]. cbn [seg first_addr] in Hs1, Hs2.
  destruct Hs2 as [_ Hs2].
  assert (EPdef : P = last_addr (hhead q) l1) by reflexivity.
  assert (ENdef : N = first_addr l2 (htail q)) by reflexivity.
  clearbody P N.
  assert (HaP : a <> P).
  { destruct HP as [[E _]|[Hin _]]; [congruence|]. intros E. rewrite <- E in Hin. contradiction. }
  assert (HaN : a <> N).
  { destruct HN as [[E _]|[Hin _]]; [congruence|]. intros E. rewrite <- E in Hin. contradiction. }
  assert (HPN : P <> N).
  { destruct HP as [[E1 _]|[Hin _]]; destruct HN as [[E2 _]|[Hin2 _]]; intros E.
    - congruence.
    - rewrite <- E, E1 in Hin2. contradiction.
    - rewrite E, E2 in Hin. contradiction.
    - rewrite E in Hin. eauto. }
  (* the cells at P and N are nodes *)
  assert (HcP : exists kp vp pp np, cells h P = Node kp vp pp np).
  { destruct HP as [[-> _]|[Hin _]]; [eauto|]. destruct (seg_cell _ _ _ _ _ Hs1 Hin) as (kk & vv & pp & nn & E). eauto. }
  assert (HcN : exists kn vn pn nn, cells h N = Node kn vn pn nn).
  { destruct HN as [[-> _]|[Hin _]]; [eauto|]. destruct (seg_cell _ _ _ _ _ Hs2 Hin) as (kk & vv & pp & nn & E). eauto. }
  destruct HcP as (kp & vp & pp & np & EP). destruct HcN as (kn & vn & pn & nn & EN).
  set (h1 := hupd h P (cell_set_next (cells h P) N)).
  set (h2 := hupd h1 N (cell_set_prev (cells h1 N) P)).
  exists h2. split.
  { unfold detach. rewrite (hread_node _ _ _ _ _ _ Ha). cbn [hbind].
    rewrite (set_next_ok _ _ _ _ _ _ _ EP). cbn [hbind]. fold h1.
    assert (EN1 : cells h1 N = Node kn vn pn nn).
    { subst h1. rewrite cells_hupd_other by congruence. exact EN. }
    rewrite (set_prev_ok _ _ _ _ _ _ _ EN1). reflexivity. }
  (* cells of h2 *)
  assert (C2 : forall x, cells h2 x =
                 if Nat.eqb x N then cell_set_prev (cells h N) P
                 else if Nat.eqb x P then cell_set_next (cells h P) N else cells h x).
  { intros x. subst h2 h1. unfold hupd. cbn [cells].
    destruct (Nat.eqb_spec x N) as [->|HxN].
    - destruct (Nat.eqb_spec N P); [congruence|reflexivity].
    - reflexivity. }
  split; [|split; [|split; [reflexivity|]]].
  - constructor.
    + rewrite addrs_app. exact Hnd'.
    + (* head *)
      rewrite C2. destruct (Nat.eqb_spec (hhead q) N) as [E|_].
      { exfalso. destruct HN as [[E2 _]|[Hin _]]; [congruence|rewrite <- E in Hin; contradiction]. }
      destruct HP as [[EPh ->]|[Hin Hne]].
      * rewrite <- EPh, Nat.eqb_refl. rewrite EPh, Hh. cbn. rewrite <- ENdef. eauto.
      * destruct (Nat.eqb_spec (hhead q) P) as [E|_]; [rewrite <- E in Hin; contradiction|].
        rewrite Hh. destruct l1 as [|[b eb] t]; [congruence|]. cbn. eauto.
    + (* tail *)
      rewrite C2. destruct HN as [[ENt ->]|[Hin Hne]].
      * rewrite <- ENt, Nat.eqb_refl. rewrite ENt, Ht. cbn. rewrite app_nil_r, <- EPdef. eauto.
      * destruct (Nat.eqb_spec (htail q) N) as [E|_]; [rewrite <- E in Hin; contradiction|].
        destruct (Nat.eqb_spec (htail q) P) as [E|_].
        { exfalso. destruct HP as [[E2 _]|[Hin2 _]]; [congruence|rewrite <- E in Hin2; contradiction]. }
        rewrite Ht. rewrite !last_addr_app. cbn [last_addr].
        destruct l2 as [|[b eb] t]; [congruence|]. cbn. eauto.
    + (* the segment *)
      apply seg_app. rewrite <- ENdef, <- EPdef. split.
      * (* l1 with the next of its last node re-pointed to N *)
        assert (Hne : l1 = [] \/ l1 <> []) by (destruct l1; [now left|right; discriminate]).
        destruct Hne as [->|Hne]; [exact I|].
        pose proof (seg_set_last_next (cells h) (hhead q) l1 a N Hn1 Hne Hs1) as Hs. rewrite <- EPdef in Hs.
        eapply seg_frame; [|exact Hs]. intros x Hx. cbn beta. rewrite C2.
        destruct (Nat.eqb_spec x N) as [->|_].
        { exfalso. destruct HN as [[E2 _]|[Hin2 _]]; [rewrite E2 in Hx; contradiction|eauto]. }
        destruct (Nat.eqb_spec x P) as [->|_]; reflexivity.
      * (* l2 with the prev of its first node re-pointed to P *)
        destruct (seg_set_first_prev (cells h) a P l2 (htail q) Hn2 Hs2) as [Hs| ->]; [|exact I]. rewrite <- ENdef in Hs.
        eapply seg_frame; [|exact Hs]. intros x Hx. cbn beta. rewrite C2.
        destruct (Nat.eqb_spec x N) as [->|_]; [reflexivity|].
        destruct (Nat.eqb_spec x P) as [->|_]; [|reflexivity].
        exfalso. destruct HP as [[E2 _]|[Hin2 _]]; [rewrite E2 in Hx; contradiction|eauto].
    + intros x Hx. cbn [fresh h2 h1 hupd]. apply Hfr.
      rewrite addrs_app in *. cbn [addrs map fst].
      destruct Hx as [->|[->|Hx]]; [now left|right; now left|]. right. right.
      apply in_app_or in Hx. apply in_or_app. destruct Hx; [now left|right; now right].
  - rewrite C2. destruct (Nat.eqb_spec a N); [congruence|]. destruct (Nat.eqb_spec a P); [congruence|reflexivity].
  - intros x Hxh Hxt Hx. rewrite C2. rewrite addrs_app, in_app_iff in Hx.
    destruct (Nat.eqb_spec x N) as [->|_].
    { exfalso. destruct HN as [[E2 _]|[Hin2 _]]; [congruence|tauto]. }
    destruct (Nat.eqb_spec x P) as [->|_]; [|reflexivity].
    exfalso. destruct HP as [[E2 _]|[Hin2 _]]; [congruence|tauto].
Qed.

(** ** attach *)
Lemma last_addr_cons_indep p p' x t : last_addr p (x :: t) = last_addr p' (x :: t).
Proof. destruct x. reflexivity. Qed.

Theorem attach_chain h q l n k v pa na :
  chain h q l -> ~ In n (hhead q :: htail q :: addrs l) -> n < fresh h ->
  cells h n = Node (Some k) (Some v) pa na ->
  exists h', attach h q n = HOk h' /\ chain h' q ((n, (k, v)) :: l) /\ fresh h' = fresh h /\
             (forall x, x <> hhead q -> x <> htail q -> x <> n -> ~ In x (addrs l) -> cells h' x = cells h x).
Proof.
  intros [Hnd [hp Hh] [tn Ht] Hseg Hfr] Hn Hnf Hc.
  remember (first_addr l (htail q)) as F eqn:EF.
  assert (HF : F = htail q /\ l = [] \/ In F (addrs l) /\ l <> []).
  { rewrite EF. destruct l as [|[b eb] t]; [left; auto|right]. split; [now left|discriminate]. }
  assert (Hnh : n <> hhead q) by (intros E; apply Hn; now left).
  assert (Hnt : n <> htail q) by (intros E; apply Hn; right; now left).
  assert (Hnl : ~ In n (addrs l)) by (intros E; apply Hn; right; now right).
  pose proof Hnd as Hnd0. apply NoDup_cons_iff in Hnd0. destruct Hnd0 as [Hh_notin Hnd1].
  pose proof Hnd1 as Hnd10. apply NoDup_cons_iff in Hnd10. destruct Hnd10 as [Ht_notin Hnd2].
  assert (Hht : hhead q <> htail q) by (intros E; apply Hh_notin; now left).
  assert (Hhl : ~ In (hhead q) (addrs l)) by (intros E; apply Hh_notin; now right).
  assert (HFh : F <> hhead q).
  { destruct HF as [[E _]|[Hin _]]; [congruence|intros E; rewrite E in Hin; contradiction]. }
  assert (HFn : F <> n).
  { destruct HF as [[E _]|[Hin _]]; [congruence|intros E; rewrite E in Hin; contradiction]. }
  assert (HcF : exists kf vf pf nf, cells h F = Node kf vf pf nf).
  { destruct HF as [[E _]|[Hin _]]; [rewrite E; eauto|].
    destruct (seg_cell _ _ _ _ _ Hseg Hin) as (kk & vv & pp & nn & E). eauto. }
  destruct HcF as (kf & vf & pf & nf & EcF).
  set (h1 := hupd h n (Node (Some k) (Some v) (hhead q) F)).
  set (h2 := hupd h1 (hhead q) (Node None None hp n)).
  set (h3 := hupd h2 F (cell_set_prev (cells h F) n)).
  assert (C3 : forall x, cells h3 x =
                 if Nat.eqb x F then cell_set_prev (cells h F) n
                 else if Nat.eqb x (hhead q) then Node None None hp n
                 else if Nat.eqb x n then Node (Some k) (Some v) (hhead q) F else cells h x).
  { intros x. subst h3 h2 h1. unfold hupd. cbn [cells]. reflexivity. }
  exists h3. split.
  { unfold attach. rewrite (hread_node _ _ _ _ _ _ Hh). cbn [hbind]. rewrite <- ?EF.
    rewrite (hread_node _ _ _ _ _ _ Hc). cbn [hbind]. fold h1.
    assert (E1 : cells h1 (hhead q) = Node None None hp F).
    { subst h1. rewrite cells_hupd_other by congruence. now rewrite Hh. }
    unfold set_next. rewrite (hread_node _ _ _ _ _ _ E1). cbn [hbind]. fold h2.
    assert (E2 : cells h2 n = Node (Some k) (Some v) (hhead q) F).
    { subst h2 h1. rewrite cells_hupd_other by congruence. apply cells_hupd_same. }
    rewrite (hread_node _ _ _ _ _ _ E2). cbn [hbind].
    assert (E3 : cells h2 F = Node kf vf pf nf).
    { subst h2 h1. rewrite !cells_hupd_other by congruence. exact EcF. }
    rewrite (set_prev_ok _ _ _ _ _ _ _ E3). subst h3. do 2 f_equal.
    subst h2 h1. now rewrite !cells_hupd_other by congruence. }
  split; [|split; [reflexivity|]].
  - constructor.
    + cbn [addrs map fst]. constructor.
      * cbn [In]. intros [E|[E|Hin]]; [congruence|congruence|contradiction].
      * constructor.
        -- cbn [In]. intros [E|Hin]; [congruence|contradiction].
        -- constructor; assumption.
    + rewrite C3. destruct (Nat.eqb_spec (hhead q) F); [congruence|]. rewrite Nat.eqb_refl. cbn. eauto.
    + rewrite C3. destruct HF as [[E ->]|[Hin Hne]].
      * rewrite <- E, Nat.eqb_refl. rewrite E, Ht. cbn. eauto.
      * destruct (Nat.eqb_spec (htail q) F) as [E|_]; [rewrite <- E in Hin; contradiction|].
        destruct (Nat.eqb_spec (htail q) (hhead q)); [congruence|].
        destruct (Nat.eqb_spec (htail q) n); [congruence|]. rewrite Ht.
        destruct l as [|x t]; [congruence|]. cbn [last_addr]. destruct x. eauto.
    + cbn [seg]. split.
      * rewrite C3. destruct (Nat.eqb_spec n F); [congruence|]. destruct (Nat.eqb_spec n (hhead q)); [congruence|].
        rewrite Nat.eqb_refl. now rewrite EF.
      * destruct (seg_set_first_prev (cells h) (hhead q) n l (htail q) Hnd2 Hseg) as [Hs| ->]; [|exact I].
        rewrite <- ?EF in Hs. eapply seg_frame; [|exact Hs]. intros x Hx. cbn beta. rewrite C3.
        destruct (Nat.eqb_spec x F) as [->|_]; [reflexivity|].
        destruct (Nat.eqb_spec x (hhead q)) as [->|_]; [contradiction|].
        destruct (Nat.eqb_spec x n) as [->|_]; [contradiction|reflexivity].
    + intros x Hx. cbn [fresh h3 h2 h1 hupd]. cbn [addrs map fst] in Hx.
      destruct Hx as [E|[E|[E|Hx]]]; [rewrite <- E; apply Hfr; now left|rewrite <- E; apply Hfr; right; now left
                                       |rewrite <- E; exact Hnf|].
      apply Hfr. right. now right.
  - intros x Hxh Hxt Hxn Hxl. rewrite C3.
    destruct (Nat.eqb_spec x F) as [->|_].
    { exfalso. destruct HF as [[E _]|[Hin _]]; [congruence|contradiction]. }
    destruct (Nat.eqb_spec x (hhead q)); [congruence|]. destruct (Nat.eqb_spec x n); [congruence|reflexivity].
Qed.
