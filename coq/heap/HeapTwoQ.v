(** * Layer H — TwoQueueCache on the heap refines TwoQ.v: every operation keeps the three-list family
    (no memory error, nodes migrate between the lists without being freed or copied, the node the ghost
    list pushes out is unboxed exactly once), every history is safe, Drop frees every cell. *)
From VF Require Import Base Lru TwoQ BaseFacts LruFacts Counts PrimFacts Tactics TwoQFacts
  Iter CacheStep Heap HeapIterDef HeapTwoQDef HeapFacts HeapOps HeapRun HeapPrim HeapFrame HeapMulti HeapRefine HeapIter.
From Coq Require Import List Arith Lia Permutation.
Import ListNotations.
Local Open Scope nat_scope.

Definition RQ (h : heap) (s : htwoq) (ls : twoq) : Prop :=
  exists lr lf lg, fam h [(tq_r s, lr); (tq_f s, lf); (tq_g s, lg)] [] /\
    Rl (tq_r s) lr (recent ls) /\ Rl (tq_f s) lf (frequent ls) /\ Rl (tq_g s) lg (ghost ls) /\
    tq_size s = qsize ls /\ tq_rsize s = qrecent_size ls.

Lemma Rl_len q l p h F1 F2 fl : fam h (F1 ++ (q, l) :: F2) fl -> Rl q l p -> length (hidx q) = llen p.
Proof.
  intros Hf (El & _). pose proof (fam_member _ _ _ _ _ _ Hf) as (_ & Hi & _).
  rewrite (idx_len q l Hi). unfold llen. now rewrite <- El, entries_length.
Qed.

(** [ht_revive]: an in-flight node gets the new value and is pushed on the frequent list *)
Lemma revive_refines h F1 qf lf F2 fl1 a k old fl2 pf v :
  fam h (F1 ++ (qf, lf) :: F2) (fl1 ++ (a, (k, old)) :: fl2) -> Rl qf lf pf ->
  1 <= cap pf -> cntl (items pf) k = 0 ->
  exists pf' ev h' qf' lf', put_nonnull pf (k, v) = Ok (pf', ev) /\ cap pf' = cap pf /\
    ht_revive h qf a v = HOk (h', qf', old) /\
    fam h' (F1 ++ (qf', lf') :: F2) (fl1 ++ fl2) /\ Rl qf' lf' pf' /\
    hhead qf' = hhead qf /\ htail qf' = htail qf /\ fresh h' = fresh h /\
    match ev with
    | None => items pf' = (k, v) :: items pf /\ llen pf < cap pf
    | Some e => (exists rest, items pf = rest ++ [e] /\ items pf' = (k, v) :: rest) /\ cap pf <= llen pf
    end.
Proof.
  intros Hf HR Hc Hk. unfold ht_revive.
  destruct (ref_swap_value h _ fl1 a k old fl2 v Hf) as (h1 & -> & Hf1 & Ef1). cbn [hbind].
  destruct (ref_put_nonnull h1 F1 qf lf F2 fl1 a k v fl2 pf Hf1 HR Hc Hk)
    as (pf' & ev & h' & qf' & lf' & E & Ec & -> & Hf' & HR' & E1 & E2 & Ef & Hev). cbn [hbind].
  destruct HR' as [HRa HRb]. exists pf', ev, h', qf', lf'.
  split; [exact E|]. split; [exact Ec|]. split; [reflexivity|]. split; [exact Hf'|]. split; [split; assumption|].
  split; [exact E1|]. split; [exact E2|]. split; [congruence|exact Hev].
Qed.

(** split conjunctions only (never a record such as [fam] or [chain]) *)
Ltac conj_split := repeat match goal with |- _ /\ _ => split end.

Ltac czero Hd key :=
  let H := fresh in pose proof (Hd key) as H; norm; eqb_cases; lia.

(** ** put: a key already in the frequent list, or in the recent list *)
Lemma ht_put_frequent_or_recent h s ls k v :
  RQ h s ls -> twoq_inv ls ->
  (Base.find k (items (frequent ls)) <> None \/ Base.find k (items (recent ls)) <> None) ->
  exists h' s' ls' r, ht_put h s k v = HOk (h', s', r) /\ qput ls k v = Ok (ls', r) /\ RQ h' s' ls'.
Proof.
  intros (lr & lf & lg & Hf & HRr & HRf & HRg & Es & Ers) Hinv Hhit.
  destruct s as [sz rsz qr qf qg]. destruct ls as [lsz lrsz pr pf pg]. cbn [tq_size tq_rsize tq_r tq_f tq_g qsize qrecent_size recent frequent ghost] in *.
  pose proof Hinv as (Hs & Hcr & Hcf & Hcg & Hrf & Hg & Hd). proj.
  unfold ht_put, qput. proj. cbn [tq_f tq_r tq_g tq_size tq_rsize].
  pose proof (ref_update h [(qr, lr)] qf lf [(qg, lg)] [] pf k v Hf HRf) as Hu.
  destruct (update pf k v) as [pf1 [old|]].
  - destruct Hu as (a & h' & lf' & Ei & Eu & Hf' & HRf' & _). rewrite Ei. cbn [hbind]. rewrite Eu. cbn [hbind].
    do 4 eexists. split; [reflexivity|]. split; [reflexivity|].
    exists lr, lf', lg. cbn [tq_size tq_rsize tq_r tq_f tq_g with_rfg qsize qrecent_size recent frequent ghost]. auto 10.
  - destruct Hu as (-> & -> & Hnf). cbn [hbind].
    pose proof (ref_remove_ent h [] qr lr [(qf, lf); (qg, lg)] [] pr k Hf HRr) as Hre.
    destruct (remove_ent pr k) as [pr1 [[k0 old]|]].
    + destruct Hre as (h1 & qr1 & lr1 & a & -> & Hf1 & HRr1 & E1 & E2 & Ef & Ek & Hfo & Hit1 & Hc1).
      cbn [fst snd] in *. subst k0. cbn [hbind].
      assert (Hkf : cntl (items pf) k = 0) by (pose proof (cntl_find_some _ _ _ Hfo); czero Hd k).
      destruct (revive_refines h1 [(qr1, lr1)] qf lf [(qg, lg)] [] a k old [] pf v Hf1 HRf ltac:(lia) Hkf)
        as (pf' & ev & h2 & qf' & lf' & -> & Ecf & -> & Hf2 & HRf' & _). cbn [hbind bind app] in *.
      do 4 eexists. split; [reflexivity|]. split; [reflexivity|].
      exists lr1, lf', lg. cbn [tq_size tq_rsize tq_r tq_f tq_g tq_with with_rfg qsize qrecent_size recent frequent ghost]. auto 10.
    + destruct Hre as (_ & _ & Hnr). exfalso. destruct Hhit; congruence.
Qed.

(** ** [evict_resident] *)
Lemma evict_refines h qr lr qf lf qg lg fl (ls : twoq) b :
  fam h [(qr, lr); (qf, lf); (qg, lg)] fl -> Rl qr lr (recent ls) -> Rl qf lf (frequent ls) ->
  1 <= llen (recent ls) + llen (frequent ls) ->
  exists r1 f1 vk vv h' qr' lr' qf' lf' a,
    evict_resident ls b = Ok (r1, f1, (vk, vv)) /\
    ht_evict_resident h qr qf b = HOk (h', qr', qf', a) /\
    fam h' [(qr', lr'); (qf', lf'); (qg, lg)] ((a, (vk, vv)) :: fl) /\ Rl qr' lr' r1 /\ Rl qf' lf' f1 /\
    cap r1 = cap (recent ls) /\ cap f1 = cap (frequent ls) /\ fresh h' = fresh h /\
    ((items (recent ls) = items r1 ++ [(vk, vv)] /\ f1 = frequent ls) \/
     (items (frequent ls) = items f1 ++ [(vk, vv)] /\ r1 = recent ls)).
Proof.
  intros Hf HRr HRf Hne. unfold evict_resident, ht_evict_resident. destruct b.
  - pose proof (ref_remove_lru_in h [] qr lr [(qf, lf); (qg, lg)] fl (recent ls) Hf HRr) as H1.
    destruct (remove_lru_in (recent ls)) as [r1 [[vk vv]|]].
    + destruct H1 as (h' & qr' & lr' & a & -> & Hf' & HR' & _ & _ & Ef & Hit & Hc). cbn [hbind].
      exists r1, (frequent ls), vk, vv, h', qr', lr', qf, lf, a. conj_split; auto.
    + destruct H1 as (-> & -> & Hemp). cbn [hbind].
      pose proof (ref_remove_lru_in h [(qr, lr)] qf lf [(qg, lg)] fl (frequent ls) Hf HRf) as H2.
      destruct (remove_lru_in (frequent ls)) as [f1 [[vk vv]|]].
      * destruct H2 as (h' & qf' & lf' & a & -> & Hf' & HR' & _ & _ & Ef & Hit & Hc). cbn [hbind].
        exists (recent ls), f1, vk, vv, h', qr, lr, qf', lf', a. conj_split; auto.
      * destruct H2 as (_ & _ & Hemp2). unfold llen in Hne. rewrite Hemp, Hemp2 in Hne. cbn in Hne. lia.
  - pose proof (ref_remove_lru_in h [(qr, lr)] qf lf [(qg, lg)] fl (frequent ls) Hf HRf) as H1.
    destruct (remove_lru_in (frequent ls)) as [f1 [[vk vv]|]].
    + destruct H1 as (h' & qf' & lf' & a & -> & Hf' & HR' & _ & _ & Ef & Hit & Hc). cbn [hbind].
      exists (recent ls), f1, vk, vv, h', qr, lr, qf', lf', a. conj_split; auto.
    + destruct H1 as (-> & -> & Hemp). cbn [hbind].
      pose proof (ref_remove_lru_in h [] qr lr [(qf, lf); (qg, lg)] fl (recent ls) Hf HRr) as H2.
      destruct (remove_lru_in (recent ls)) as [r1 [[vk vv]|]].
      * destruct H2 as (h' & qr' & lr' & a & -> & Hf' & HR' & _ & _ & Ef & Hit & Hc). cbn [hbind].
        exists r1, (frequent ls), vk, vv, h', qr', lr', qf, lf, a. conj_split; auto.
      * destruct H2 as (_ & _ & Hemp2). unfold llen in Hne. rewrite Hemp, Hemp2 in Hne. cbn in Hne. lia.
Qed.

(** ** put: a key that is in neither resident list and not a ghost *)
Lemma ht_put_new h s ls k v :
  RQ h s ls -> twoq_inv ls ->
  Base.find k (items (frequent ls)) = None -> Base.find k (items (recent ls)) = None ->
  contains (ghost ls) k = false ->
  exists h' s' ls' r, ht_put h s k v = HOk (h', s', r) /\ qput ls k v = Ok (ls', r) /\ RQ h' s' ls'.
Proof.
  intros (lr & lf & lg & Hf & HRr & HRf & HRg & Es & Ers) Hinv Hnf Hnr Hng.
  destruct s as [sz rsz qr qf qg]. destruct ls as [lsz lrsz pr pf pg].
  cbn [tq_size tq_rsize tq_r tq_f tq_g qsize qrecent_size recent frequent ghost] in *. subst lsz lrsz.
  pose proof Hinv as (Hs & Hcr & Hcf & Hcg & Hrf & Hg & Hd). proj.
  assert (Hkf : cntl (items pf) k = 0) by (now apply cntl_find_none).
  assert (Hkr : cntl (items pr) k = 0) by (now apply cntl_find_none).
  assert (Hkg : cntl (items pg) k = 0).
  { unfold contains in Hng. rewrite mem_cntl in Hng. destruct (Nat.eqb_spec (cntl (items pg) k) 0); [assumption|discriminate]. }
  unfold ht_put, qput. proj. cbn [tq_f tq_r tq_g tq_size tq_rsize].
  pose proof (ref_update h [(qr, lr)] qf lf [(qg, lg)] [] pf k v Hf HRf) as Hu.
  destruct (update_spec pf k v) as [[_ Eu]|(old & Ho & _)]; [|congruence]. rewrite Eu in *. destruct Hu as (-> & _ & _).
  cbn [hbind].
  pose proof (ref_remove_ent h [] qr lr [(qf, lf); (qg, lg)] [] pr k Hf HRr) as Hre.
  destruct (remove_ent_spec pr k) as [[_ Er]|(old & Ho & _)]; [|congruence]. rewrite Er in *. destruct Hre as (-> & _ & _).
  cbn [hbind].
  rewrite (fam_contains h [(qr, lr); (qf, lf)] qg lg [] [] pg k Hf (proj1 HRg)). cbn [hbind]. rewrite Hng.
  rewrite (Rl_len qr lr pr h [] [(qf, lf); (qg, lg)] [] Hf HRr).
  rewrite (Rl_len qf lf pf h [(qr, lr)] [(qg, lg)] [] Hf HRf).
  pose proof (fam_alloc h _ [] k v Hf) as (Hf2 & Eb & Efr).
  destruct (halloc h (Some k) (Some v)) as [h2 bks]. cbn [fst snd] in *. subst bks.
  destruct (Nat.ltb_spec (llen pf + llen pr) sz) as [Hroom|Hfull].
  - (* room: straight into the recent list *)
    destruct (ref_put_or_evict h2 [] qr lr [(qf, lf); (qg, lg)] [] (fresh h) k v [] pr Hf2 HRr ltac:(lia) Hkr)
      as (pr' & ev & Epe & Ecap & Hev). unfold put_or_evict_nonnull in *. rewrite Epe. cbn [bind].
    destruct ev as [[ek evv]|].
    + destruct Hev as (h3 & qr' & lr' & a & -> & Hf3 & HRr' & _ & _ & _ & (rest & Hit & Hit') & _). cbn [hbind app] in *.
      assert (Hkg' : cntl (items pg) ek = 0) by (rewrite Hit in Hd; czero Hd ek).
      destruct (ref_put_nonnull h3 [(qr', lr'); (qf, lf)] qg lg [] [] a ek evv [] pg Hf3 HRg Hcg Hkg')
        as (pg' & gev & h4 & qg' & lg' & -> & Ecg & -> & Hf4 & HRg' & _). cbn [hbind bind app] in *.
      do 4 eexists. split; [reflexivity|]. split; [reflexivity|].
      exists lr', lf, lg'. cbn [tq_size tq_rsize tq_r tq_f tq_g tq_with with_rfg qsize qrecent_size recent frequent ghost]. auto 10.
    + destruct Hev as (h3 & qr' & lr' & -> & Hf3 & HRr' & _). cbn [hbind app] in *.
      do 4 eexists. split; [reflexivity|]. split; [reflexivity|].
      exists lr', lf, lg. cbn [tq_size tq_rsize tq_r tq_f tq_g tq_with with_rfg qsize qrecent_size recent frequent ghost]. auto 10.
  - (* full: a resident entry is pushed into the ghost list *)
    destruct (evict_refines h2 qr lr qf lf qg lg [(fresh h, (k, v))] (mkTwoQ sz rsz pr pf pg)
                (Nat.leb rsz (llen pr)) Hf2 HRr HRf ltac:(cbn [recent frequent]; lia))
      as (r1 & f1 & vk & vv & h3 & qr' & lr' & qf' & lf' & a & -> & -> & Hf3 & HRr' & HRf' & Ecr & Ecf & _ & Hwhich).
    cbn [hbind bind recent frequent] in *.
    assert (Hkr1 : cntl (items r1) k = 0).
    { destruct Hwhich as [[Hit _]|[_ ->]]; [|exact Hkr]. rewrite Hit in Hkr. norm. lia. }
    destruct (ref_put_nonnull h3 [] qr' lr' [(qf', lf'); (qg, lg)] [(a, (vk, vv))] (fresh h) k v [] r1 Hf3 HRr' ltac:(lia) Hkr1)
      as (r2 & ev2 & h4 & qr2 & lr2 & -> & Ecr2 & -> & Hf4 & HRr2 & _). cbn [hbind bind app] in *.
    assert (Hkg' : cntl (items pg) vk = 0).
    { destruct Hwhich as [[Hit _]|[Hit _]]; rewrite Hit in Hd; czero Hd vk. }
    destruct (ref_put_nonnull h4 [(qr2, lr2); (qf', lf')] qg lg [] [] a vk vv [] pg Hf4 HRg Hcg Hkg')
      as (pg' & gev & h5 & qg' & lg' & -> & Ecg & -> & Hf5 & HRg' & _). cbn [hbind bind app] in *.
    do 4 eexists. split; [reflexivity|]. split; [reflexivity|].
    exists lr2, lf', lg'. cbn [tq_size tq_rsize tq_r tq_f tq_g tq_with with_rfg qsize qrecent_size recent frequent ghost]. auto 10.
Qed.

(** ** put: a ghost hit — the ghost node is revived in the frequent list *)
Lemma ht_put_ghost h s ls k v :
  RQ h s ls -> twoq_inv ls ->
  Base.find k (items (frequent ls)) = None -> Base.find k (items (recent ls)) = None ->
  contains (ghost ls) k = true ->
  exists h' s' ls' r, ht_put h s k v = HOk (h', s', r) /\ qput ls k v = Ok (ls', r) /\ RQ h' s' ls'.
Proof.
  intros (lr & lf & lg & Hf & HRr & HRf & HRg & Es & Ers) Hinv Hnf Hnr Hng.
  destruct s as [sz rsz qr qf qg]. destruct ls as [lsz lrsz pr pf pg].
  cbn [tq_size tq_rsize tq_r tq_f tq_g qsize qrecent_size recent frequent ghost] in *. subst lsz lrsz.
  pose proof Hinv as (Hs & Hcr & Hcf & Hcg & Hrf & Hg & Hd). proj.
  assert (Hkf : cntl (items pf) k = 0) by (now apply cntl_find_none).
  assert (Hkr : cntl (items pr) k = 0) by (now apply cntl_find_none).
  assert (Hkg : 0 < cntl (items pg) k).
  { unfold contains in Hng. rewrite mem_cntl in Hng. destruct (Nat.eqb_spec (cntl (items pg) k) 0); [discriminate|lia]. }
  unfold ht_put, qput. proj. cbn [tq_f tq_r tq_g tq_size tq_rsize].
  pose proof (ref_update h [(qr, lr)] qf lf [(qg, lg)] [] pf k v Hf HRf) as Hu.
  destruct (update_spec pf k v) as [[_ Eu]|(old & Ho & _)]; [|congruence]. rewrite Eu in *. destruct Hu as (-> & _ & _).
  cbn [hbind].
  pose proof (ref_remove_ent h [] qr lr [(qf, lf); (qg, lg)] [] pr k Hf HRr) as Hre.
  destruct (remove_ent_spec pr k) as [[_ Er]|(old & Ho & _)]; [|congruence]. rewrite Er in *. destruct Hre as (-> & _ & _).
  cbn [hbind].
  rewrite (fam_contains h [(qr, lr); (qf, lf)] qg lg [] [] pg k Hf (proj1 HRg)). cbn [hbind]. rewrite Hng.
  rewrite (Rl_len qr lr pr h [] [(qf, lf); (qg, lg)] [] Hf HRr).
  rewrite (Rl_len qf lf pf h [(qr, lr)] [(qg, lg)] [] Hf HRf).
  destruct (Nat.leb_spec sz (llen pr + llen pf)) as [Hfull|Hroom].
  - (* the cache is full: a resident entry becomes a ghost first *)
    destruct (evict_refines h qr lr qf lf qg lg [] (mkTwoQ sz rsz pr pf pg)
                (Nat.ltb rsz (llen pr)) Hf HRr HRf ltac:(cbn [recent frequent]; lia))
      as (r1 & f1 & vk & vv & h2 & qr' & lr' & qf' & lf' & a & -> & -> & Hf2 & HRr' & HRf' & Ecr & Ecf & _ & Hwhich).
    cbn [hbind bind recent frequent] in *.
    assert (Hvg : cntl (items pg) vk = 0).
    { destruct Hwhich as [[Hit _]|[Hit _]]; rewrite Hit in Hd; czero Hd vk. }
    assert (Hkf1 : forall x, cntl (items f1) x <= cntl (items pf) x).
    { intros x. destruct Hwhich as [[_ ->]|[Hit _]]; [lia|]. rewrite Hit. norm. lia. }
    destruct (ref_put_or_evict h2 [(qr', lr'); (qf', lf')] qg lg [] [] a vk vv [] pg Hf2 HRg Hcg Hvg)
      as (g1 & rst & Epe & Ecg & Hev). unfold put_or_evict_nonnull in *. rewrite Epe. cbn [bind].
    destruct rst as [[ek evv]|].
    + (* the ghost list pushed a node out *)
      destruct Hev as (h3 & qg1 & lg1 & a2 & -> & Hf3 & HRg1 & _ & _ & _ & (rest & Hit & Hit1) & _). cbn [hbind app] in *.
      pose proof (ref_remove_ent h3 [(qr', lr'); (qf', lf')] qg1 lg1 [] [(a2, (ek, evv))] g1 k Hf3 HRg1) as Hre2.
      destruct (remove_ent g1 k) as [g2 [[k0 old]|]].
      * (* the ghost of k is still there: revive it; the pushed-out node is unboxed *)
        destruct Hre2 as (h4 & qg2 & lg2 & a3 & -> & Hf4 & HRg2 & _ & _ & _ & Ek & _ & _ & _). cbn [fst snd hbind] in *. subst k0.
        assert (Hkf1' : cntl (items f1) k = 0) by (specialize (Hkf1 k); lia).
        destruct (revive_refines h4 [(qr', lr')] qf' lf' [(qg2, lg2)] [] a3 k old [(a2, (ek, evv))] f1 v Hf4 HRf' ltac:(lia) Hkf1')
          as (f2 & ev & h5 & qf2 & lf2 & -> & Ecf2 & -> & Hf5 & HRf2 & _). cbn [hbind bind app] in *.
        destruct (fam_free h5 _ [] a2 ek evv [] Hf5) as (h6 & -> & -> & Hf6 & _). cbn [hbind app] in *.
        do 4 eexists. split; [reflexivity|]. split; [reflexivity|].
        exists lr', lf2, lg2. cbn [tq_size tq_rsize tq_r tq_f tq_g tq_with with_rfg qsize qrecent_size recent frequent ghost]. auto 10.
      * (* the pushed-out node is the ghost of k itself *)
        destruct Hre2 as (-> & -> & Hnone). cbn [hbind].
        assert (Hek : cntl (items f1) ek = 0).
        { specialize (Hkf1 ek). rewrite Hit in Hd. pose proof (Hd ek). norm. eqb_cases; lia. }
        destruct (revive_refines h3 [(qr', lr')] qf' lf' [(qg1, lg1)] [] a2 ek evv [] f1 v Hf3 HRf' ltac:(lia) Hek)
          as (f2 & ev & h5 & qf2 & lf2 & -> & Ecf2 & -> & Hf5 & HRf2 & _). cbn [hbind bind app] in *.
        do 4 eexists. split; [reflexivity|]. split; [reflexivity|].
        exists lr', lf2, lg1. cbn [tq_size tq_rsize tq_r tq_f tq_g tq_with with_rfg qsize qrecent_size recent frequent ghost]. auto 10.
    + (* the ghost list had room *)
      destruct Hev as (h3 & qg1 & lg1 & -> & Hf3 & HRg1 & _ & _ & _ & Hit1 & _). cbn [hbind app] in *.
      pose proof (ref_remove_ent h3 [(qr', lr'); (qf', lf')] qg1 lg1 [] [] g1 k Hf3 HRg1) as Hre2.
      destruct (remove_ent g1 k) as [g2 [[k0 old]|]].
      * destruct Hre2 as (h4 & qg2 & lg2 & a3 & -> & Hf4 & HRg2 & _ & _ & _ & Ek & _ & _ & _). cbn [fst snd hbind] in *. subst k0.
        assert (Hkf1' : cntl (items f1) k = 0) by (specialize (Hkf1 k); lia).
        destruct (revive_refines h4 [(qr', lr')] qf' lf' [(qg2, lg2)] [] a3 k old [] f1 v Hf4 HRf' ltac:(lia) Hkf1')
          as (f2 & ev & h5 & qf2 & lf2 & -> & Ecf2 & -> & Hf5 & HRf2 & _). cbn [hbind bind app] in *.
        do 4 eexists. split; [reflexivity|]. split; [reflexivity|].
        exists lr', lf2, lg2. cbn [tq_size tq_rsize tq_r tq_f tq_g tq_with with_rfg qsize qrecent_size recent frequent ghost]. auto 10.
      * destruct Hre2 as (-> & -> & Hnone). cbn [hbind].
        do 4 eexists. split; [reflexivity|]. split; [reflexivity|].
        exists lr', lf', lg1. cbn [tq_size tq_rsize tq_r tq_f tq_g tq_with with_rfg qsize qrecent_size recent frequent ghost]. auto 10.
  - (* room among the residents: the ghost node moves straight to the frequent list *)
    pose proof (ref_remove_ent h [(qr, lr); (qf, lf)] qg lg [] [] pg k Hf HRg) as Hre2.
    destruct (remove_ent_spec pg k) as [[Hn _]|(old & Ho & Eg)]; [apply cntl_find_none in Hn; lia|]. rewrite Eg in *.
    destruct Hre2 as (h2 & qg1 & lg1 & a & -> & Hf2 & HRg1 & _). cbn [hbind] in *.
    destruct (revive_refines h2 [(qr, lr)] qf lf [(qg1, lg1)] [] a k old [] pf v Hf2 HRf ltac:(lia) Hkf)
      as (f2 & ev & h3 & qf2 & lf2 & -> & Ecf2 & -> & Hf3 & HRf2 & _). cbn [hbind bind app] in *.
    do 4 eexists. split; [reflexivity|]. split; [reflexivity|].
    exists lr, lf2, lg1. cbn [tq_size tq_rsize tq_r tq_f tq_g tq_with with_rfg qsize qrecent_size recent frequent ghost]. auto 10.
Qed.

Theorem ht_put_refines h s ls k v :
  RQ h s ls -> twoq_inv ls ->
  exists h' s' ls' r, ht_put h s k v = HOk (h', s', r) /\ qput ls k v = Ok (ls', r) /\ RQ h' s' ls'.
Proof.
  intros HR Hinv.
  destruct (Base.find k (items (frequent ls))) eqn:Ef; [apply ht_put_frequent_or_recent; auto; left; congruence|].
  destruct (Base.find k (items (recent ls))) eqn:Er; [apply ht_put_frequent_or_recent; auto; right; congruence|].
  destruct (contains (ghost ls) k) eqn:Eg; [now apply ht_put_ghost|now apply ht_put_new].
Qed.

(** ** get / get_mut: a recent hit is relinked into the frequent list; the reference handed back points
    into that (still allocated) node *)
Theorem ht_get_mut_refines h s ls k w :
  RQ h s ls -> twoq_inv ls ->
  exists h' s' ls' r, ht_get_mut h s k w = HOk (h', s', r) /\ qget_mut ls k w = Ok (ls', r) /\ RQ h' s' ls'.
Proof.
  intros (lr & lf & lg & Hf & HRr & HRf & HRg & Es & Ers) Hinv.
  destruct s as [sz rsz qr qf qg]. destruct ls as [lsz lrsz pr pf pg].
  cbn [tq_size tq_rsize tq_r tq_f tq_g qsize qrecent_size recent frequent ghost] in *. subst lsz lrsz.
  pose proof Hinv as (Hs & Hcr & Hcf & Hcg & Hrf & Hg & Hd). proj.
  unfold ht_get_mut, qget_mut. proj. cbn [tq_f tq_r tq_g tq_size tq_rsize].
  destruct (fam_get_mut h [(qr, lr)] qf lf [(qg, lg)] [] pf k w Hf (proj1 HRf) (proj2 HRf))
    as (h1 & lf1 & -> & Hf1 & Ef1 & Ecf1 & _). cbn [hbind app] in *.
  destruct (get_mut_spec pf k w) as [[Hn Eg]|(v0 & Hv & Eg)]; rewrite Eg in *; cbn [fst snd] in *.
  - rewrite (fam_peek h1 [] qr lr [(qf, lf1); (qg, lg)] [] pr k Hf1 (proj1 HRr)). cbn [hbind]. unfold peek.
    pose proof (ref_remove_ent h1 [] qr lr [(qf, lf1); (qg, lg)] [] pr k Hf1 HRr) as Hre.
    destruct (remove_ent_spec pr k) as [[Hnr Er]|(v0 & Hv0 & Er)]; rewrite Er in *.
    + rewrite Hnr. do 4 eexists. split; [reflexivity|]. split; [reflexivity|].
      exists lr, lf1, lg. cbn [tq_size tq_rsize tq_r tq_f tq_g]. split; [exact Hf1|]. split; [exact HRr|]. split; [split; assumption|auto].
    + rewrite Hv0. destruct Hre as (h2 & qr1 & lr1 & a & -> & Hf2 & HRr1 & _ & _ & _ & _ & _ & Hit1 & Hc1). cbn [hbind fst snd] in *.
      assert (Hkf : cntl (items pf) k = 0) by (now apply cntl_find_none).
      pose proof (cntl_find_some _ _ _ Hv0) as Hpos. pose proof (length_remove_key_in _ _ Hpos) as Hlen.
      destruct (ref_put_or_evict h2 [(qr1, lr1)] qf lf1 [(qg, lg)] [] a k v0 [] pf Hf2 (conj Ef1 Ecf1) ltac:(lia) Hkf)
        as (pf' & ev & Epe & Ecap & Hev).
      destruct ev as [e|]; [destruct Hev as (_ & _ & _ & _ & _ & _ & _ & _ & _ & _ & _ & Hge); unfold llen in *; lia|].
      destruct Hev as (h3 & qf' & lf' & -> & Hf3 & HRf' & _ & _ & _ & Hit' & _ & ->). cbn [hbind app] in *.
      (* the caller writes through the reference *)
      pose proof (fam_member h3 [(qr1, lr1)] qf' _ [(qg, lg)] [] Hf3) as Hwf3.
      destruct (h_write_ok h3 qf' [] a k v0 lf1 w Hwf3) as (h4 & -> & Hwf4 & Ef4 & Hfr4). cbn [hbind snd app] in *.
      assert (HF : framed h3 qf' ((a, (k, v0)) :: lf1) h4 qf' ((a, (k, wval w v0)) :: lf1)).
      { apply framed_same; auto; [intros y; cbn [addrs map fst]; tauto|].
        intros x (_ & _ & C). apply Hfr4. intros ->. apply C. now left. }
      pose proof (fam_framed h3 [(qr1, lr1)] qf' _ [(qg, lg)] [] h4 qf' _ Hf3 HF) as Hf4.
      (* the model applies the write at the move *)
      unfold put_or_evict_nonnull in *.
      destruct (put_nonnull_spec pf (k, wval w v0) ltac:(lia)) as [[Hlt E1]|[Hge _]]; [|unfold llen in *; lia].
      unfold wval in E1. rewrite E1. cbn [bind].
      do 4 eexists. split; [reflexivity|]. split; [reflexivity|].
      exists lr1, ((a, (k, wval w v0)) :: lf1), lg.
      cbn [tq_size tq_rsize tq_r tq_f tq_g tq_with with_rfg qsize qrecent_size recent frequent ghost].
      split; [exact Hf4|]. split; [exact HRr1|]. split; [|auto].
      split; [cbn [with_items items entries map snd]; unfold wval; f_equal; exact Ef1|cbn [with_items cap]; destruct HRf'; congruence].
  - do 4 eexists. split; [reflexivity|]. split; [reflexivity|].
    exists lr, lf1, lg. cbn [tq_size tq_rsize tq_r tq_f tq_g with_rfg qsize qrecent_size recent frequent ghost].
    split; [exact Hf1|]. split; [exact HRr|]. split; [split; assumption|auto].
Qed.

(** ** peek, peek_mut, contains, remove, purge *)
Ltac rq_close a b c :=
  exists a, b, c; cbn [tq_size tq_rsize tq_r tq_f tq_g tq_with with_rfg qsize qrecent_size recent frequent ghost];
  repeat match goal with |- _ /\ _ => split end; try assumption; try reflexivity; try (split; assumption).

Theorem ht_peek_refines h s ls k : RQ h s ls -> ht_peek h s k = HOk (qpeek ls k).
Proof.
  intros HR. destruct HR as (lr & lf & lg & Hf & HRr & HRf & HRg & Es & Ers).
  destruct s as [sz rsz qr qf qg]. destruct ls as [lsz lrsz pr pf pg].
  cbn [tq_size tq_rsize tq_r tq_f tq_g qsize qrecent_size recent frequent ghost] in *. subst lsz lrsz. unfold ht_peek, qpeek. proj. cbn [tq_f tq_r].
  rewrite (fam_peek h [(qr, lr)] qf lf [(qg, lg)] [] pf k Hf (proj1 HRf)). cbn [hbind].
  destruct (peek pf k); [reflexivity|]. apply (fam_peek h [] qr lr [(qf, lf); (qg, lg)] [] pr k Hf (proj1 HRr)).
Qed.

Theorem ht_contains_refines h s ls k : RQ h s ls -> ht_contains h s k = HOk (qcontains ls k).
Proof.
  intros HR. destruct HR as (lr & lf & lg & Hf & HRr & HRf & HRg & Es & Ers).
  destruct s as [sz rsz qr qf qg]. destruct ls as [lsz lrsz pr pf pg].
  cbn [tq_size tq_rsize tq_r tq_f tq_g qsize qrecent_size recent frequent ghost] in *. subst lsz lrsz. unfold ht_contains, qcontains. proj. cbn [tq_f tq_r].
  rewrite (fam_contains h [(qr, lr)] qf lf [(qg, lg)] [] pf k Hf (proj1 HRf)). cbn [hbind].
  destruct (contains pf k); [reflexivity|]. apply (fam_contains h [] qr lr [(qf, lf); (qg, lg)] [] pr k Hf (proj1 HRr)).
Qed.

Theorem ht_peek_mut_refines h s ls k w :
  RQ h s ls -> exists h', ht_peek_mut h s k w = HOk (h', snd (qpeek_mut ls k w)) /\ RQ h' s (fst (qpeek_mut ls k w)).
Proof.
  intros HR. destruct HR as (lr & lf & lg & Hf & HRr & HRf & HRg & Es & Ers).
  destruct s as [sz rsz qr qf qg]. destruct ls as [lsz lrsz pr pf pg].
  cbn [tq_size tq_rsize tq_r tq_f tq_g qsize qrecent_size recent frequent ghost] in *. subst lsz lrsz. unfold ht_peek_mut, qpeek_mut. proj. cbn [tq_f tq_r].
  destruct (fam_peek_mut h [(qr, lr)] qf lf [(qg, lg)] [] pf k w Hf (proj1 HRf) (proj2 HRf))
    as (h1 & lf1 & -> & Hf1 & Ef1 & Ecf1 & _). cbn [hbind app] in *.
  destruct (peek_mut_spec pf k w) as [[_ E]|(v & _ & E)]; rewrite E in *; cbn [fst snd] in *.
  - destruct (fam_peek_mut h1 [] qr lr [(qf, lf1); (qg, lg)] [] pr k w Hf1 (proj1 HRr) (proj2 HRr))
      as (h2 & lr1 & -> & Hf2 & Er1 & Ecr1 & _). cbn [app] in *.
    destruct (peek_mut pr k w) as [pr1 r]. cbn [fst snd] in *.
    exists h2. split; [reflexivity|]. rq_close lr1 lf1 lg.
  - exists h1. split; [reflexivity|]. rq_close lr lf1 lg.
Qed.

Theorem ht_remove_refines h s ls k :
  RQ h s ls -> exists h' s', ht_remove h s k = HOk (h', s', snd (qremove ls k)) /\ RQ h' s' (fst (qremove ls k)).
Proof.
  intros HR. destruct HR as (lr & lf & lg & Hf & HRr & HRf & HRg & Es & Ers).
  destruct s as [sz rsz qr qf qg]. destruct ls as [lsz lrsz pr pf pg].
  cbn [tq_size tq_rsize tq_r tq_f tq_g qsize qrecent_size recent frequent ghost] in *. subst lsz lrsz. unfold ht_remove, qremove. proj. cbn [tq_f tq_r tq_g].
  destruct (fam_remove h [(qr, lr)] qf lf [(qg, lg)] [] pf k Hf (proj1 HRf) (proj2 HRf))
    as (h1 & qf1 & lf1 & -> & Hf1 & Ef1 & Ecf1 & _). cbn [hbind app] in *.
  destruct (remove_spec pf k) as [[_ E]|(v & _ & E)]; rewrite E in *; cbn [fst snd] in *.
  - destruct (fam_remove h1 [] qr lr [(qf1, lf1); (qg, lg)] [] pr k Hf1 (proj1 HRr) (proj2 HRr))
      as (h2 & qr1 & lr1 & -> & Hf2 & Er1 & Ecr1 & _). cbn [hbind app] in *.
    destruct (remove_spec pr k) as [[_ E2]|(v & _ & E2)]; rewrite E2 in *; cbn [fst snd] in *.
    + destruct (fam_remove h2 [(qr1, lr1); (qf1, lf1)] qg lg [] [] pg k Hf2 (proj1 HRg) (proj2 HRg))
        as (h3 & qg1 & lg1 & -> & Hf3 & Eg1 & Ecg1 & _). cbn [hbind app] in *.
      destruct (Lru.remove pg k) as [[pg1 r] cbs]. cbn [fst snd] in *.
      do 2 eexists. split; [reflexivity|]. rq_close lr1 lf1 lg1.
    + do 2 eexists. split; [reflexivity|]. rq_close lr1 lf1 lg.
  - do 2 eexists. split; [reflexivity|]. rq_close lr lf1 lg.
Qed.

Theorem ht_purge_refines h s ls :
  RQ h s ls -> exists h' s', ht_purge h s = HOk (h', s') /\ RQ h' s' (qpurge ls).
Proof.
  intros HR. destruct HR as (lr & lf & lg & Hf & HRr & HRf & HRg & Es & Ers).
  destruct s as [sz rsz qr qf qg]. destruct ls as [lsz lrsz pr pf pg].
  cbn [tq_size tq_rsize tq_r tq_f tq_g qsize qrecent_size recent frequent ghost] in *. subst lsz lrsz. unfold ht_purge, qpurge. proj. cbn [tq_f tq_r tq_g].
  destruct (fam_purge h [] qr lr [(qf, lf); (qg, lg)] [] pr Hf (proj1 HRr) (proj2 HRr))
    as (h1 & qr1 & lr1 & -> & Hf1 & Er1 & Ecr1 & _). cbn [hbind app] in *.
  destruct (fam_purge h1 [(qr1, lr1)] qf lf [(qg, lg)] [] pf Hf1 (proj1 HRf) (proj2 HRf))
    as (h2 & qf1 & lf1 & -> & Hf2 & Ef1 & Ecf1 & _). cbn [hbind app] in *.
  destruct (fam_purge h2 [(qr1, lr1); (qf1, lf1)] qg lg [] [] pg Hf2 (proj1 HRg) (proj2 HRg))
    as (h3 & qg1 & lg1 & -> & Hf3 & Eg1 & Ecg1 & _). cbn [hbind app] in *.
  do 2 eexists. split; [reflexivity|]. rq_close lr1 lf1 lg1.
Qed.

(** ** new, Drop, histories *)
Theorem ht_new_refines size rs es :
  RQ (fst (ht_new heap0 size rs es)) (snd (ht_new heap0 size rs es)) (twoq_new size rs es).
Proof.
  unfold ht_new.
  destruct (fam_new heap0 [] size fam_empty) as (F1 & C1 & _).
  destruct (hnew heap0 size) as [h1 qr]. cbn [fst snd] in *.
  destruct (fam_new h1 [(qr, [])] size F1) as (F2 & C2 & _).
  destruct (hnew h1 size) as [h2 qf]. cbn [fst snd] in *.
  destruct (fam_new h2 [(qf, []); (qr, [])] es F2) as (F3 & C3 & _).
  destruct (hnew h2 es) as [h3 qg]. cbn [fst snd] in *.
  exists [], [], []. cbn [tq_size tq_rsize tq_r tq_f tq_g twoq_new qsize qrecent_size recent frequent ghost lru_new].
  split; [|repeat split; auto].
  (* [fam_new] lists the youngest list first; the order of the family does not matter *)
  destruct F3 as [Hwf Hnd Hfl Htight]. constructor.
  - intros q l [E|[E|[E|[]]]]; apply Hwf; [right; right; now left|right; now left|now left].
  - eapply Permutation_NoDup; [|exact Hnd]. cbn [flat_map fp fst snd addrs map app].
    change [hhead qg; htail qg; hhead qf; htail qf; hhead qr; htail qr]
      with ([hhead qg; htail qg] ++ [hhead qf; htail qf] ++ [hhead qr; htail qr]).
    change [hhead qr; htail qr; hhead qf; htail qf; hhead qg; htail qg]
      with ([hhead qr; htail qr] ++ [hhead qf; htail qf] ++ [hhead qg; htail qg]).
    rewrite (app_assoc [hhead qg; htail qg]).
    etransitivity; [apply Permutation_app_comm|]. apply Permutation_app_head. apply Permutation_app_comm.
  - exact Hfl.
  - intros a Ha. apply Htight. intros Hc. apply Ha. cbn [flat_map fp fst snd addrs map app In] in *. tauto.
Qed.

Theorem ht_drop_ok h s ls : RQ h s ls -> exists h', ht_drop h s = HOk h' /\ forall a, cells h' a = Free.
Proof.
  intros HR. destruct HR as (lr & lf & lg & Hf & HRr & HRf & HRg & Es & Ers).
  destruct s as [sz rsz qr qf qg]. destruct ls as [lsz lrsz pr pf pg].
  cbn [tq_size tq_rsize tq_r tq_f tq_g qsize qrecent_size recent frequent ghost] in *. subst lsz lrsz. unfold ht_drop. cbn [tq_r tq_f tq_g].
  destruct (fam_drop h [] qr lr [(qf, lf); (qg, lg)] Hf) as (h1 & -> & Hf1 & _). cbn [hbind app] in *.
  destruct (fam_drop h1 [] qf lf [(qg, lg)] Hf1) as (h2 & -> & Hf2 & _). cbn [hbind app] in *.
  destruct (fam_drop h2 [] qg lg [] Hf2) as (h3 & -> & Hf3 & _). cbn [app] in *.
  exists h3. split; [reflexivity|]. intros a. apply (fam_tight _ _ _ Hf3). intros [].
Qed.

(** ** the iterators over one of the three lists *)
Definition qop_ok (o : qop) : Prop :=
  match o with QIter _ kd _ _ pb => ik_mut kd = true -> pb = [] | _ => True end.

Theorem ht_iter_refines h s ls i kd pre pa pb ql pl :
  RQ h s ls -> (ik_mut kd = true -> pb = []) ->
  tq_list s i = Some ql -> CacheStep.qlist ls i = Some pl ->
  exists h', h_iter_script h ql kd pre pa pb = HOk (h', fst (iter_script kd pre pa pb (items pl))) /\
             RQ h' s (CacheStep.qwith_list ls i (with_items pl (snd (iter_script kd pre pa pb (items pl))))).
Proof.
  intros (lr & lf & lg & Hf & (Er & Cr) & (Ef & Cf) & (Eg & Cg) & Es & Ers) Hmut Hq Hp.
  unfold tq_list in Hq. unfold CacheStep.qlist in Hp. unfold CacheStep.qwith_list.
  destruct (Z.eqb i 0).
  - inversion Hq; inversion Hp; subst ql pl.
    destruct (fam_iter_script h [] (tq_r s) lr [(tq_f s, lf); (tq_g s, lg)] [] kd pre pa pb Hf Hmut) as (h' & l' & E & Hf' & He & _).
    rewrite Er in E, He. exists h'. split; [exact E|].
    exists l', lf, lg. split; [exact Hf'|]. repeat split; assumption.
  - destruct (Z.eqb i 1).
    + inversion Hq; inversion Hp; subst ql pl.
      destruct (fam_iter_script h [(tq_r s, lr)] (tq_f s) lf [(tq_g s, lg)] [] kd pre pa pb Hf Hmut) as (h' & l' & E & Hf' & He & _).
      rewrite Ef in E, He. exists h'. split; [exact E|].
      exists lr, l', lg. split; [exact Hf'|]. repeat split; assumption.
    + destruct (Z.eqb i 2); [|discriminate].
      inversion Hq; inversion Hp; subst ql pl.
      destruct (fam_iter_script h [(tq_r s, lr); (tq_f s, lf)] (tq_g s) lg [] [] kd pre pa pb Hf Hmut) as (h' & l' & E & Hf' & He & _).
      rewrite Eg in E, He. exists h'. split; [exact E|].
      exists lr, lf, l'. split; [exact Hf'|]. repeat split; assumption.
Qed.

Lemma tq_list_some h s ls i : RQ h s ls -> tq_list s i = None <-> CacheStep.qlist ls i = None.
Proof.
  intros _. unfold tq_list, CacheStep.qlist.
  destruct (Z.eqb i 0); [split; discriminate|]. destruct (Z.eqb i 1); [split; discriminate|].
  destruct (Z.eqb i 2); [split; discriminate|]. tauto.
Qed.

Definition lq_step (s : twoq) (o : HeapTwoQDef.qop) : res (twoq * hout) :=
  match o with
  | QPut k v => do (s1, r) <- qput s k v; Ok (s1, OPut r)
  | QGetMut k w => do (s1, r) <- qget_mut s k w; Ok (s1, OVal r)
  | QPeek k => Ok (s, OVal (qpeek s k))
  | QPeekMut k w => Ok (fst (qpeek_mut s k w), OVal (snd (qpeek_mut s k w)))
  | QContains k => Ok (s, OBool (qcontains s k))
  | QRemove k => Ok (fst (qremove s k), OVal (snd (qremove s k)))
  | QPurge => Ok (qpurge s, OUnit)
  | HeapTwoQDef.QIter i kd pre pa pb =>
    match CacheStep.qlist s i with
    | Some pl => Ok (CacheStep.qwith_list s i (with_items pl (snd (iter_script kd pre pa pb (items pl)))),
                     OIter kd (fst (iter_script kd pre pa pb (items pl))))
    | None => Ok (s, OUnit)
    end
  end.

Theorem twoq_step_refines h s ls o :
  RQ h s ls -> twoq_inv ls -> qop_ok o ->
  exists h' s' ls' r, ht_step h s o = HOk (h', s', r) /\ lq_step ls o = Ok (ls', r) /\ RQ h' s' ls' /\ twoq_inv ls'.
Proof.
  intros HR Hinv Hok. destruct o as [k v|k w|k|k w|k|k| |i kd pre pa pb]; cbn [ht_step lq_step].
  - destruct (ht_put_refines h s ls k v HR Hinv) as (h' & s' & ls' & r & -> & E & HR').
    destruct (qput_ok ls k v Hinv) as (s2 & r2 & E2 & Hinv2 & _). rewrite E in *. inversion E2; subst.
    cbn [hbind bind]. eauto 10.
  - destruct (ht_get_mut_refines h s ls k w HR Hinv) as (h' & s' & ls' & r & -> & E & HR').
    destruct (qget_mut_ok ls k w Hinv) as (s2 & r2 & E2 & Hinv2 & _). rewrite E in *. inversion E2; subst.
    cbn [hbind bind]. eauto 10.
  - rewrite (ht_peek_refines h s ls k HR). cbn [hbind]. eauto 10.
  - destruct (ht_peek_mut_refines h s ls k w HR) as (h' & -> & HR'). cbn [hbind].
    destruct (qpeek_mut_ok ls k w Hinv) as (Hinv2 & _). eauto 10.
  - rewrite (ht_contains_refines h s ls k HR). cbn [hbind]. eauto 10.
  - destruct (ht_remove_refines h s ls k HR) as (h' & s' & -> & HR'). cbn [hbind].
    destruct (qremove_ok ls k Hinv) as (Hinv2 & _). eauto 10.
  - destruct (ht_purge_refines h s ls HR) as (h' & s' & -> & HR'). cbn [hbind].
    destruct (qpurge_ok ls Hinv) as (Hinv2 & _). eauto 10.
  - destruct (CacheStep.qlist ls i) as [pl|] eqn:Ep.
    + destruct (tq_list s i) as [ql|] eqn:Eq; [|apply (tq_list_some h s ls i HR) in Eq; congruence].
      destruct (ht_iter_refines h s ls i kd pre pa pb ql pl HR Hok Eq Ep) as (h' & -> & HR'). cbn [hbind].
      destruct (qwith_list_inv ls i pl (with_items pl (snd (iter_script kd pre pa pb (items pl)))) Hinv Ep) as (Hinv2 & _);
        [cbn [items with_items]; apply keys_iter_script|reflexivity|]. eauto 10.
    + apply (tq_list_some h s ls i HR) in Ep. rewrite Ep. eauto 10.
Qed.

Fixpoint lq_run (s : twoq) (os : list HeapTwoQDef.qop) : res (twoq * list hout) :=
  match os with
  | [] => Ok (s, [])
  | o :: rest => do (s1, r) <- lq_step s o; do (s2, rs) <- lq_run s1 rest; Ok (s2, r :: rs)
  end.

Lemma twoq_run_refines : forall os h s ls, RQ h s ls -> twoq_inv ls -> Forall qop_ok os ->
            exists h1 s1 ls1 outs, ht_run h s os = HOk (h1, s1, outs) /\ lq_run ls os = Ok (ls1, outs) /\ RQ h1 s1 ls1.
Proof.
 induction os as [|o rest IH]; intros h s ls HR Hinv Hok; [cbn; eauto 10|].
    cbn [ht_run lq_run]. inversion Hok as [|? ? Ho Hrest]; subst.
    destruct (twoq_step_refines h s ls o HR Hinv Ho) as (h1 & s1 & ls1 & r & -> & -> & HR1 & Hinv1). cbn [hbind bind].
    destruct (IH h1 s1 ls1 HR1 Hinv1 Hrest) as (h2 & s2 & ls2 & outs & -> & -> & HR2). cbn [hbind bind]. eauto 10.
Qed.

Theorem twoq_history_safe size rs es os :
  1 <= size -> 1 <= es -> Forall qop_ok os ->
  exists h s ls outs h',
    ht_run (fst (ht_new heap0 size rs es)) (snd (ht_new heap0 size rs es)) os = HOk (h, s, outs) /\
    lq_run (twoq_new size rs es) os = Ok (ls, outs) /\ RQ h s ls /\
    ht_drop h s = HOk h' /\ (forall a, cells h' a = Free).
Proof.
  intros H1 H2 Hok.
  pose proof twoq_run_refines as G.
  destruct (G os _ _ _ (ht_new_refines size rs es) (twoq_new_inv size rs es H1 H2) Hok) as (h & s & ls & outs & E1 & E2 & HR).
  destruct (ht_drop_ok h s ls HR) as (h' & Ed & Hall).
  exists h, s, ls, outs, h'. auto.
Qed.

(** non-vacuity: eviction into the ghost list, a ghost hit with the cache and the ghost list full: the
    ghost node is revived and the node the ghost list pushes out is unboxed ([EvictedAndUpdate]) *)
Definition twoq_demo : list qop :=
  [QPut 1 10; QPut 2 20; QPut 3 30; QPut 4 40; QPut 2 22; QGetMut 4 None; QPut 5 50; QRemove 2; QPurge]%Z.

Example twoq_runs :
  match ht_run (fst (ht_new heap0 2 1 2)) (snd (ht_new heap0 2 1 2)) twoq_demo with
  | HOk (h, s, outs) =>
    (exists ls, lq_run (twoq_new 2 1 2) twoq_demo = Ok (ls, outs)) /\
    In (OPut (PEvictedAndUpdate 1%Z 10%Z 20%Z)) outs
  | HErr _ => False
  end.
Proof. vm_compute. split; [eexists; reflexivity|]. do 4 right. now left. Qed.
