(** * Layer H — independence of the representation (C17).

    The refinement relations of layer H quantify over the representation: [R h q s] (and [RS], [RQ], [RA], [RW] for
    the composite caches) holds for *any* placement of the nodes in the heap and *any* order of the hash index
    ([idx_ok] is a permutation) that represents the abstract cache [s].  Since every operation of a heap state
    related to [s] yields the result of layer L on [s], two heap states representing the same abstract cache —
    different addresses, different index order, i.e. different hashers, collisions and allocation histories —
    answer every history identically. *)
From VF Require Import Base Iter Lru Slru TwoQ Arc Tiny WTiny BaseFacts LruFacts SlruFacts TwoQFacts ArcFacts WTinyFacts
  Heap HeapIterDef HeapFacts HeapOps HeapRun HeapPrim HeapFrame HeapMulti HeapRefine HeapIter HeapClone
  HeapSlruDef HeapSlru HeapTwoQDef HeapTwoQ HeapArcDef HeapArc HeapWTinyDef HeapWTiny.
From Coq Require Import List Arith Lia Permutation.
Import ListNotations.
Local Open Scope nat_scope.

Theorem lru_indep h1 q1 h2 q2 s os :
  R h1 q1 s -> R h2 q2 s ->
  exists h1' q1' h2' q2' outs,
    hrun h1 q1 os = HOk (h1', q1', outs) /\ hrun h2 q2 os = HOk (h2', q2', outs) /\
    R h1' q1' (fst (lrun s os)) /\ R h2' q2' (fst (lrun s os)).
Proof.
  intros HR1 HR2.
  destruct (run_refines os _ _ _ HR1) as (h1' & q1' & E1 & HR1' & _).
  destruct (run_refines os _ _ _ HR2) as (h2' & q2' & E2 & HR2' & _).
  exists h1', q1', h2', q2', (snd (lrun s os)). auto.
Qed.

(** with iterator scripts and clones in the history *)
Theorem lru_indep_full h1 q1 h2 q2 s os :
  R h1 q1 s -> R h2 q2 s -> lru_inv s -> Forall hcop_ok os ->
  exists h1' q1' h2' q2' outs,
    hcrun h1 q1 os = HOk (h1', q1', outs) /\ hcrun h2 q2 os = HOk (h2', q2', outs).
Proof.
  intros HR1 HR2 Hinv Hok.
  destruct (hcrun_refines os _ _ _ HR1 Hinv Hok) as (h1' & q1' & E1 & _).
  destruct (hcrun_refines os _ _ _ HR2 Hinv Hok) as (h2' & q2' & E2 & _).
  exists h1', q1', h2', q2', (snd (lcrun s os)). auto.
Qed.

Theorem slru_indep h1 s1 h2 s2 ls os :
  RS [] h1 s1 ls -> RS [] h2 s2 ls -> slru_inv ls ->
  exists h1' s1' h2' s2' outs,
    hs_run h1 s1 os = HOk (h1', s1', outs) /\ hs_run h2 s2 os = HOk (h2', s2', outs).
Proof.
  intros HR1 HR2 Hinv.
  destruct (slru_run_refines os _ _ _ HR1 Hinv) as (h1' & s1' & l1 & o1 & E1 & L1 & _).
  destruct (slru_run_refines os _ _ _ HR2 Hinv) as (h2' & s2' & l2 & o2 & E2 & L2 & _).
  rewrite L1 in L2. inversion L2; subst. exists h1', s1', h2', s2', o2. auto.
Qed.

Theorem twoq_indep h1 s1 h2 s2 ls os :
  RQ h1 s1 ls -> RQ h2 s2 ls -> twoq_inv ls -> Forall qop_ok os ->
  exists h1' s1' h2' s2' outs,
    ht_run h1 s1 os = HOk (h1', s1', outs) /\ ht_run h2 s2 os = HOk (h2', s2', outs).
Proof.
  intros HR1 HR2 Hinv Hok.
  destruct (twoq_run_refines os _ _ _ HR1 Hinv Hok) as (h1' & s1' & l1 & o1 & E1 & L1 & _).
  destruct (twoq_run_refines os _ _ _ HR2 Hinv Hok) as (h2' & s2' & l2 & o2 & E2 & L2 & _).
  rewrite L1 in L2. inversion L2; subst. exists h1', s1', h2', s2', o2. auto.
Qed.

Theorem arc_indep h1 s1 h2 s2 ls os :
  RA h1 s1 ls [] -> RA h2 s2 ls [] -> arc_inv ls -> Forall aop_ok os ->
  exists h1' s1' h2' s2' outs,
    ha_run h1 s1 os = HOk (h1', s1', outs) /\ ha_run h2 s2 os = HOk (h2', s2', outs).
Proof.
  intros HR1 HR2 Hinv Hok.
  destruct (arc_run_refines os _ _ _ HR1 Hinv Hok) as (h1' & s1' & l1 & o1 & E1 & L1 & _).
  destruct (arc_run_refines os _ _ _ HR2 Hinv Hok) as (h2' & s2' & l2 & o2 & E2 & L2 & _).
  rewrite L1 in L2. inversion L2; subst. exists h1', s1', h2', s2', o2. auto.
Qed.

(** W-TinyLFU: same structure *and* the same estimator state (it is part of [ls]): the same verdicts *)
Theorem wtiny_indep h1 s1 h2 s2 ls os :
  RW h1 s1 ls -> RW h2 s2 ls -> wt_inv ls ->
  exists h1' s1' h2' s2' outs,
    hw_run h1 s1 os = HOk (h1', s1', outs) /\ hw_run h2 s2 os = HOk (h2', s2', outs).
Proof.
  intros HR1 HR2 Hinv.
  destruct (wtiny_run_refines [] os _ _ _ HR1 Hinv) as (h1' & s1' & l1 & o1 & E1 & L1 & _).
  destruct (wtiny_run_refines [] os _ _ _ HR2 Hinv) as (h2' & s2' & l2 & o2 & E2 & L2 & _).
  rewrite L1 in L2. inversion L2; subst. exists h1', s1', h2', s2', o2. auto.
Qed.

(** non-vacuity: two histories that end in the same abstract cache on different nodes, with the index in a
    different order *)
Example two_representations :
  let pa := [HPut 1 10; HPut 2 20; HRemove 1; HPut 3 30; HGetMut 2 None]%Z in
  let pb := [HPut 3 30; HPut 2 20]%Z in
  fst (lrun (lru_new 3 false) pa) = fst (lrun (lru_new 3 false) pb) /\
  match hrun (fst (hnew heap0 3)) (snd (hnew heap0 3)) pa, hrun (fst (hnew heap0 3)) (snd (hnew heap0 3)) pb with
  | HOk (ha, qa, _), HOk (hb, qb, _) =>
    map snd (hidx qa) <> map snd (hidx qb)
  | _, _ => False
  end.
Proof. vm_compute. split; [reflexivity|discriminate]. Qed.
