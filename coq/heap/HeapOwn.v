(** * Layer H — ownership: at every point of every history the initialised cells of the heap are exactly
    the nodes of the retained entries, one node per entry (so every key and every value the cache
    holds lives in exactly one place); together with the history theorems (no [EDoubleFree], every
    cell free after Drop) this is "released exactly once, none leaked" at the level of nodes. *)
From VF Require Import Base Lru BaseFacts LruFacts Heap HeapFacts HeapOps HeapRun HeapPrim HeapFrame HeapMulti.
From Coq Require Import List Arith Lia Permutation.
Import ListNotations.
Local Open Scope nat_scope.

Definition holds (h : heap) (a : addr) (k : key) (v : val) : Prop :=
  exists p n, cells h a = Node (Some k) (Some v) p n.

(** one list alone *)
Theorem owned_exactly h q s :
  R h q s ->
  exists l, entries l = items s /\ NoDup (addrs l) /\
            forall a k v, holds h a k v <-> In (a, (k, v)) l.
Proof.
  intros (l & Hwf & Ht & El & _). pose proof Hwf as (Hc & _). exists l. split; [exact El|]. split.
  - pose proof (ch_nodup _ _ _ Hc) as H. inversion H as [|? ? _ H1]; subst. inversion H1; subst. assumption.
  - intros a k v. split.
    + intros (p & n & E).
      destruct (in_dec Nat.eq_dec a (hhead q :: htail q :: addrs l)) as [Hin|Hnin].
      * destruct Hin as [<-|[<-|Hin]].
        -- destruct (ch_head _ _ _ Hc) as [hp Eh]. congruence.
        -- destruct (ch_tail _ _ _ Hc) as [tn Et]. congruence.
        -- destruct (in_addrs_entry l a Hin) as (k' & v' & Hent).
           destruct (seg_lookup _ _ _ _ _ _ _ (ch_seg _ _ _ Hc) Hent) as (p' & n' & E'). congruence.
      * rewrite (Ht a) in E; [discriminate|]. now apply outside_of.
    + intros Hin. exact (seg_lookup _ _ _ _ _ _ _ (ch_seg _ _ _ Hc) Hin).
Qed.

(** a family of lists with nothing in flight *)
Theorem fam_owned_exactly h F :
  fam h F [] ->
  forall a k v, holds h a k v <-> exists q l, In (q, l) F /\ In (a, (k, v)) l.
Proof.
  intros [Hwf Hnd _ Htight] a k v. split.
  - intros (p & n & E).
    destruct (in_dec Nat.eq_dec a (flat_map fp F ++ addrs [])) as [Hin|Hnin].
    + rewrite app_nil_r in Hin. apply in_flat_map in Hin. destruct Hin as ([q l] & Hql & Hin).
      pose proof (Hwf q l Hql) as (Hc & _). exists q, l. split; [exact Hql|].
      destruct Hin as [Ea|[Ea|Hin]]; cbn [fst snd] in *.
      * destruct (ch_head _ _ _ Hc) as [hp Eh]. congruence.
      * destruct (ch_tail _ _ _ Hc) as [tn Et]. congruence.
      * destruct (in_addrs_entry l a Hin) as (k' & v' & Hent).
        destruct (seg_lookup _ _ _ _ _ _ _ (ch_seg _ _ _ Hc) Hent) as (p' & n' & E'). congruence.
    + rewrite (Htight a Hnin) in E. discriminate.
  - intros (q & l & Hql & Hin). pose proof (Hwf q l Hql) as (Hc & _).
    exact (seg_lookup _ _ _ _ _ _ _ (ch_seg _ _ _ Hc) Hin).
Qed.

(** no node belongs to two lists of a family, nor twice to one *)
Theorem fam_nodes_distinct h F fl : fam h F fl -> NoDup (flat_map (fun ql => addrs (snd ql)) F).
Proof.
  intros [_ Hnd _ _]. apply nodup_app_l in Hnd.
  induction F as [|[q l] F IH]; [constructor|].
  cbn [flat_map fp fst snd app] in *.
  apply NoDup_cons_iff in Hnd. destruct Hnd as [_ Hnd]. apply NoDup_cons_iff in Hnd. destruct Hnd as [_ Hnd].
  destruct (nodup_app_elim _ _ Hnd) as (Hl & HF & Hd).
  apply nodup_app_intro; [exact Hl|exact (IH HF)|].
  intros x Hx Hx2. apply (Hd x Hx). apply in_flat_map in Hx2. destruct Hx2 as ([q2 l2] & Hq & Hx2).
  apply in_flat_map. exists (q2, l2). split; [exact Hq|]. right. right. exact Hx2.
Qed.
