(** * Layer H — TwoQueueCache (src/lru/two_queue.rs) on the heap, definitions: three RawLRU lists
    (recent, frequent, ghost) in one heap.  Written over the heap-level primitives exactly as the
    Rust code is written over RawLRU, including its own unsafe blocks (the ghost hit: [map.remove] +
    [detach], [swap] of the value, [Box::from_raw] of the node the ghost list pushed out). *)
From VF Require Import Base Iter Heap HeapIterDef.
From Coq Require Import List Arith.
Import ListNotations.
Local Open Scope nat_scope.

Record htwoq := mkHtwoq { tq_size : nat; tq_rsize : nat; tq_r : hlru; tq_f : hlru; tq_g : hlru }.

Definition tq_with (s : htwoq) (r f g : hlru) : htwoq := mkHtwoq (tq_size s) (tq_rsize s) r f g.

Definition ht_new (h : heap) (size rs es : nat) : heap * htwoq :=
  let '(h1, qr) := hnew h size in
  let '(h2, qf) := hnew h1 size in
  let '(h3, qg) := hnew h2 es in
  (h3, mkHtwoq size rs qr qf qg).

(** [evict_resident]: the least recently used node of the preferred resident queue, falling back
    to the other one; [.unwrap()] *)
Definition ht_evict_resident (h : heap) (qr qf : hlru) (from_recent : bool) : hres (heap * hlru * hlru * addr) :=
  if from_recent then
    hdo (h1, r1, o) <- h_remove_lru_in h qr;
    match o with
    | Some a => HOk (h1, r1, qf, a)
    | None =>
      hdo (h2, f1, o2) <- h_remove_lru_in h1 qf;
      match o2 with Some a => HOk (h2, r1, f1, a) | None => HErr EUnwrap end
    end
  else
    hdo (h1, f1, o) <- h_remove_lru_in h qf;
    match o with
    | Some a => HOk (h1, qr, f1, a)
    | None =>
      hdo (h2, r1, o2) <- h_remove_lru_in h1 qr;
      match o2 with Some a => HOk (h2, r1, f1, a) | None => HErr EUnwrap end
    end.

(** the node [ent] (in no list) gets the new value and enters the frequent list; the PutResult of
    that push is dropped *)
Definition ht_revive (h : heap) (qf : hlru) (ent : addr) (v : val) : hres (heap * hlru * val) :=
  hdo (h1, old) <- h_swap_value h ent v;
  hdo (h2, f1, _) <- h_put_nonnull h1 qf ent;
  HOk (h2, f1, old).

Definition ht_put (h : heap) (s : htwoq) (k : key) (v : val) : hres (heap * htwoq * put_result) :=
  hdo r <- idx_find h (hidx (tq_f s)) k;
  match r with
  | Some n => hdo (h1, old) <- h_update h (tq_f s) n v; HOk (h1, s, PUpdate old)
  | None =>
    hdo (h1, r1, o) <- h_remove_ent h (tq_r s) k;
    match o with
    | Some ent =>
      hdo (h2, f1, old) <- ht_revive h1 (tq_f s) ent v;
      HOk (h2, tq_with s r1 f1 (tq_g s), PUpdate old)
    | None =>
      let rl := length (hidx (tq_r s)) in
      let fl := length (hidx (tq_f s)) in
      hdo b <- h_contains h1 (tq_g s) k;
      if b then
        if Nat.leb (tq_size s) (rl + fl) then
          hdo (h2, r2, f2, victim) <- ht_evict_resident h1 r1 (tq_f s) (Nat.ltb (tq_rsize s) rl);
          hdo (h3, g1, rst) <- h_put_or_evict_nonnull h2 (tq_g s) victim;
          hdo (h4, g2, o2) <- h_remove_ent h3 g1 k;
          match o2 with
          | None =>
            match rst with
            | None => HOk (h4, tq_with s r2 f2 g2, PPut)
            | Some ent =>
              hdo (h5, f3, old) <- ht_revive h4 f2 ent v;
              HOk (h5, tq_with s r2 f3 g2, PUpdate old)
            end
          | Some ent =>
            hdo (h5, f3, old) <- ht_revive h4 f2 ent v;
            match rst with
            | None => HOk (h5, tq_with s r2 f3 g2, PUpdate old)
            | Some e2 =>
              hdo (ek, ev) <- take_kv h5 e2;
              hdo h6 <- hfree h5 e2;
              HOk (h6, tq_with s r2 f3 g2, PEvictedAndUpdate ek ev old)
            end
          end
        else
          hdo (h2, g1, o2) <- h_remove_ent h1 (tq_g s) k;
          match o2 with
          | None => HErr EUnwrap
          | Some ent =>
            hdo (h3, f1, old) <- ht_revive h2 (tq_f s) ent v;
            HOk (h3, tq_with s r1 f1 g1, PUpdate old)
          end
      else
        let '(h2, bks) := halloc h1 (Some k) (Some v) in
        if Nat.ltb (fl + rl) (tq_size s) then
          hdo (h3, r2, ev) <- h_put_or_evict_nonnull h2 r1 bks;
          match ev with
          | None => HOk (h3, tq_with s r2 (tq_f s) (tq_g s), PPut)
          | Some e =>
            hdo (h4, g1, gev) <- h_put_nonnull h3 (tq_g s) e;
            HOk (h4, tq_with s r2 (tq_f s) g1, match gev with None => PPut | Some (ek, ev) => PEvicted ek ev end)
          end
        else
          hdo (h3, r2, f2, victim) <- ht_evict_resident h2 r1 (tq_f s) (Nat.leb (tq_rsize s) rl);
          hdo (h4, r3, _) <- h_put_nonnull h3 r2 bks;
          hdo (h5, g1, gev) <- h_put_nonnull h4 (tq_g s) victim;
          HOk (h5, tq_with s r3 f2 g1, match gev with None => PPut | Some (ek, ev) => PEvicted ek ev end)
    end
  end.

(** [get] / [get_mut]: a recent hit is moved to the frequent list ([move_to_frequent]) *)
Definition ht_get_mut (h : heap) (s : htwoq) (k : key) (w : option val) : hres (heap * htwoq * option val) :=
  hdo (h1, r) <- h_get_mut h (tq_f s) k w;
  match r with
  | Some v => HOk (h1, s, Some v)
  | None =>
    hdo r2 <- h_peek h1 (tq_r s) k;
    match r2 with
    | None => HOk (h1, s, None)
    | Some v0 =>
      hdo (h2, r1, o) <- h_remove_ent h1 (tq_r s) k;
      match o with
      | None => HOk (h2, tq_with s r1 (tq_f s) (tq_g s), None)
      | Some ent =>
        hdo (h3, f1, _) <- h_put_or_evict_nonnull h2 (tq_f s) ent;
        hdo (h4, e) <- h_write h3 ent w;
        HOk (h4, tq_with s r1 f1 (tq_g s), Some (snd e))
      end
    end
  end.

Definition ht_peek (h : heap) (s : htwoq) (k : key) : hres (option val) :=
  hdo r <- h_peek h (tq_f s) k;
  match r with Some v => HOk (Some v) | None => h_peek h (tq_r s) k end.

Definition ht_peek_mut (h : heap) (s : htwoq) (k : key) (w : option val) : hres (heap * option val) :=
  hdo (h1, r) <- h_peek_mut h (tq_f s) k w;
  match r with Some v => HOk (h1, Some v) | None => h_peek_mut h1 (tq_r s) k w end.

Definition ht_contains (h : heap) (s : htwoq) (k : key) : hres bool :=
  hdo a <- h_contains h (tq_f s) k;
  if a then HOk true else h_contains h (tq_r s) k.

Definition ht_remove (h : heap) (s : htwoq) (k : key) : hres (heap * htwoq * option val) :=
  hdo (h1, f1, r) <- h_remove h (tq_f s) k;
  match r with
  | Some v => HOk (h1, tq_with s (tq_r s) f1 (tq_g s), Some v)
  | None =>
    hdo (h2, r1, r2) <- h_remove h1 (tq_r s) k;
    match r2 with
    | Some v => HOk (h2, tq_with s r1 f1 (tq_g s), Some v)
    | None => hdo (h3, g1, r3) <- h_remove h2 (tq_g s) k; HOk (h3, tq_with s r1 f1 g1, r3)
    end
  end.

Definition ht_purge (h : heap) (s : htwoq) : hres (heap * htwoq) :=
  hdo (h1, r1) <- h_purge h (tq_r s);
  hdo (h2, f1) <- h_purge h1 (tq_f s);
  hdo (h3, g1) <- h_purge h2 (tq_g s);
  HOk (h3, tq_with s r1 f1 g1).

Definition ht_drop (h : heap) (s : htwoq) : hres heap :=
  hdo h1 <- h_drop h (tq_r s); hdo h2 <- h_drop h1 (tq_f s); h_drop h2 (tq_g s).

Inductive qop :=
| QPut (k : key) (v : val) | QGetMut (k : key) (w : option val) | QPeek (k : key)
| QPeekMut (k : key) (w : option val) | QContains (k : key) | QRemove (k : key) | QPurge
| QIter (i : Z) (kd : iter_kind) (pre pa pb : list req).   (* the iterators over one of the three lists *)

Definition tq_list (s : htwoq) (i : Z) : option hlru :=
  if Z.eqb i 0 then Some (tq_r s) else if Z.eqb i 1 then Some (tq_f s)
  else if Z.eqb i 2 then Some (tq_g s) else None.

Definition ht_step (h : heap) (s : htwoq) (o : qop) : hres (heap * htwoq * hout) :=
  match o with
  | QPut k v => hdo (h1, s1, r) <- ht_put h s k v; HOk (h1, s1, OPut r)
  | QGetMut k w => hdo (h1, s1, r) <- ht_get_mut h s k w; HOk (h1, s1, OVal r)
  | QPeek k => hdo r <- ht_peek h s k; HOk (h, s, OVal r)
  | QPeekMut k w => hdo (h1, r) <- ht_peek_mut h s k w; HOk (h1, s, OVal r)
  | QContains k => hdo b <- ht_contains h s k; HOk (h, s, OBool b)
  | QRemove k => hdo (h1, s1, r) <- ht_remove h s k; HOk (h1, s1, OVal r)
  | QPurge => hdo (h1, s1) <- ht_purge h s; HOk (h1, s1, OUnit)
  | QIter i kd pre pa pb =>
    match tq_list s i with
    | Some ql => hdo (h1, ys) <- h_iter_script h ql kd pre pa pb; HOk (h1, s, OIter kd ys)
    | None => HOk (h, s, OUnit)
    end
  end.

Fixpoint ht_run (h : heap) (s : htwoq) (os : list qop) : hres (heap * htwoq * list hout) :=
  match os with
  | [] => HOk (h, s, [])
  | o :: rest =>
    hdo (h1, s1, r) <- ht_step h s o;
    hdo (h2, s2, rs) <- ht_run h1 s1 rest;
    HOk (h2, s2, r :: rs)
  end.
