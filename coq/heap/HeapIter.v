(** * Layer H — the iterators of raw.rs on the heap: a countdown and two cursors walking towards each
    other through the chain.  For every script of [next] / [next_back] calls (and writes through the
    references a mutable iterator hands out) on a well-formed list, every dereference hits a linked
    node — never a sentinel's uninitialised key, never a freed cell —, the nodes handed out are
    pairwise distinct, and the items are those of the layer-L iterator model (Iter.v). *)
From VF Require Import Base Iter Lru BaseFacts LruFacts Heap HeapIterDef HeapFacts HeapOps.
From Coq Require Import List Arith Lia Permutation.
Import ListNotations.
Local Open Scope nat_scope.

(** the iterator still has [mid] to yield, out of the list [l1 ++ mid ++ l2] *)
Definition itinv (q : hlru) (l1 mid l2 : list (addr * entry)) (it : hiter) : Prop :=
  hi_len it = length mid /\
  hi_front it = first_addr (mid ++ l2) (htail q) /\
  hi_back it = last_addr (hhead q) (l1 ++ mid).

Lemma h_iter_ok h q l : wf h q l -> exists it, h_iter h q = HOk it /\ itinv q [] l [] it.
Proof.
  intros (Hc & Hi & _). unfold h_iter.
  destruct (ch_head _ _ _ Hc) as [hp Eh]. destruct (ch_tail _ _ _ Hc) as [tn Et].
  rewrite (hread_node _ _ _ _ _ _ Eh). cbn [hbind]. rewrite (hread_node _ _ _ _ _ _ Et). cbn [hbind].
  eexists. split; [reflexivity|]. unfold itinv. cbn [hi_len hi_front hi_back app].
  rewrite app_nil_r. split; [apply (idx_len q l Hi)|split; reflexivity].
Qed.

Theorem h_it_take_front h q l1 a k v mid l2 it w :
  wf h q (l1 ++ ((a, (k, v)) :: mid) ++ l2) -> itinv q l1 ((a, (k, v)) :: mid) l2 it ->
  exists h' it', h_it_take h it true w = HOk (h', it', Some (a, (k, v))) /\
    wf h' q ((l1 ++ [(a, (k, wval w v))]) ++ mid ++ l2) /\ itinv q (l1 ++ [(a, (k, wval w v))]) mid l2 it' /\
    ~ In a (addrs (mid ++ l2)) /\ ~ In a (addrs l1) /\
    fresh h' = fresh h /\ (forall x, x <> a -> cells h' x = cells h x).
Proof.
  intros Hwf (Hlen & Hf & Hb). pose proof Hwf as (Hc & _).
  unfold h_it_take. rewrite Hlen. cbn [length Nat.eqb]. rewrite Hf. cbn [app first_addr].
  cbn [app] in Hwf, Hc.
  pose proof (seg_mid _ _ _ _ _ _ _ _ (ch_seg _ _ _ Hc)) as Ecell.
  rewrite (hread_node _ _ _ _ _ _ Ecell). cbn [hbind].
  pose proof (ch_nodup _ _ _ Hc) as Hnd0. rewrite addrs_app in Hnd0. cbn [addrs map fst] in Hnd0.
  destruct (nodup_split_facts _ _ _ _ _ Hnd0) as (_ & _ & _ & _ & _ & _ & _ & Ha1 & Ha2 & _).
  destruct (h_write_ok h q l1 a k v (mid ++ l2) w Hwf) as (h' & Ew & Hwf' & Efr & Hfr).
  unfold h_write in Ew. rewrite (hread_node _ _ _ _ _ _ Ecell) in Ew. cbn [hbind] in Ew. inversion Ew as [Eh'].
  do 2 eexists. split; [reflexivity|]. rewrite Eh'.
  split; [rewrite <- app_assoc; exact Hwf'|]. split; [|split; [assumption|split; [assumption|split; assumption]]].
  unfold itinv. cbn [hi_len hi_front hi_back length]. split; [lia|]. split; [reflexivity|].
  rewrite Hb. rewrite <- app_assoc. cbn [app]. rewrite !last_addr_app. cbn [last_addr].
  clear. induction mid as [|[b e] t IH]; [reflexivity|]. cbn [last_addr]. reflexivity.
Qed.

Lemma first_addr_app_nonempty (l : list (addr * entry)) x r n n' : first_addr ((l ++ [x]) ++ r) n = first_addr ((l ++ [x]) ++ r) n'.
Proof. destruct l as [|[b e] t]; destruct x; reflexivity. Qed.

Theorem h_it_take_back h q l1 mid a k v l2 it w :
  wf h q (l1 ++ (mid ++ [(a, (k, v))]) ++ l2) -> itinv q l1 (mid ++ [(a, (k, v))]) l2 it ->
  exists h' it', h_it_take h it false w = HOk (h', it', Some (a, (k, v))) /\
    wf h' q (l1 ++ mid ++ ((a, (k, wval w v)) :: l2)) /\ itinv q l1 mid ((a, (k, wval w v)) :: l2) it' /\
    ~ In a (addrs (l1 ++ mid)) /\ ~ In a (addrs l2) /\
    fresh h' = fresh h /\ (forall x, x <> a -> cells h' x = cells h x).
Proof.
  intros Hwf (Hlen & Hf & Hb). pose proof Hwf as (Hc & _).
  unfold h_it_take. rewrite Hlen, app_length. cbn [length]. replace (length mid + 1) with (S (length mid)) by lia.
  cbn [Nat.eqb]. rewrite Hb. rewrite app_assoc, last_addr_app. cbn [last_addr].
  assert (El : l1 ++ (mid ++ [(a, (k, v))]) ++ l2 = (l1 ++ mid) ++ (a, (k, v)) :: l2).
  { rewrite <- !app_assoc. reflexivity. }
  rewrite El in Hwf, Hc.
  pose proof (seg_mid _ _ _ _ _ _ _ _ (ch_seg _ _ _ Hc)) as Ecell.
  rewrite (hread_node _ _ _ _ _ _ Ecell). cbn [hbind].
  pose proof (ch_nodup _ _ _ Hc) as Hnd0. rewrite addrs_app in Hnd0. cbn [addrs map fst] in Hnd0.
  destruct (nodup_split_facts _ _ _ _ _ Hnd0) as (_ & _ & _ & _ & _ & _ & _ & Ha1 & Ha2 & _).
  destruct (h_write_ok h q (l1 ++ mid) a k v l2 w Hwf) as (h' & Ew & Hwf' & Efr & Hfr).
  unfold h_write in Ew. rewrite (hread_node _ _ _ _ _ _ Ecell) in Ew. cbn [hbind] in Ew. inversion Ew as [Eh'].
  do 2 eexists. split; [reflexivity|]. rewrite Eh'.
  split; [rewrite <- app_assoc in Hwf'; exact Hwf'|]. split; [|split; [assumption|split; [assumption|split; assumption]]].
  unfold itinv. cbn [hi_len hi_front hi_back]. split; [lia|]. split; [|reflexivity].
  rewrite Hf. rewrite <- app_assoc. cbn [app].
  clear. induction mid as [|[b e] t IH]; reflexivity.
Qed.

(** a write through the reference handed out for the node of key [k] is [set_val k] on the entries *)
Lemma apply_writes_app wa wb (l : list entry) : apply_writes (wa ++ wb) l = apply_writes wb (apply_writes wa l).
Proof. unfold apply_writes. apply fold_left_app. Qed.

Lemma set_val_here (l1 : list (addr * entry)) a k v r w :
  ~ In k (keys (entries l1)) ->
  set_val k w (entries (l1 ++ (a, (k, v)) :: r)) = entries (l1 ++ (a, (k, w)) :: r).
Proof.
  induction l1 as [|[b [kb vb]] t IH]; intros Hn.
  - cbn. now rewrite Z.eqb_refl.
  - cbn [app entries map snd set_val]. cbn [entries map snd keys fst In] in Hn.
    destruct (Z.eqb_spec k kb) as [->|Hne]; [exfalso; apply Hn; now left|].
    f_equal. apply IH. unfold keys, entries. intros Hc. apply Hn. now right.
Qed.

Lemma write_entries (l1 : list (addr * entry)) a k v r w :
  NoDup (keys (entries (l1 ++ (a, (k, v)) :: r))) ->
  apply_writes (match w with Some w => [(k, w)] | None => [] end) (entries (l1 ++ (a, (k, v)) :: r))
  = entries (l1 ++ (a, (k, wval w v)) :: r).
Proof.
  intros Hnd. destruct w as [w|]; [|reflexivity].
  cbn [apply_writes fold_left fst snd wval]. apply set_val_here.
  unfold keys, entries in *. rewrite !map_app in Hnd. cbn [map snd fst] in Hnd.
  apply NoDup_remove_2 in Hnd. intros Hc. apply Hnd. apply in_or_app. now left.
Qed.

(** ** a whole script, side by side with the layer-L iterator *)
Theorem h_it_run_ok lru_order rs : forall h q l1 mid l2 it,
  wf h q (l1 ++ mid ++ l2) -> itinv q l1 mid l2 it ->
  exists h' it' ads l',
    h_it_run h it lru_order rs = HOk (h', it', fst (fst (it_run lru_order rs (entries mid))), ads) /\
    wf h' q l' /\ addrs l' = addrs (l1 ++ mid ++ l2) /\ NoDup ads /\ (forall a, In a ads -> In a (addrs mid)) /\
    fresh h' = fresh h /\ (forall x, ~ In x (addrs mid) -> cells h' x = cells h x) /\
    entries l' = apply_writes (snd (it_run lru_order rs (entries mid))) (entries (l1 ++ mid ++ l2)) /\
    exists l1' mid' l2', l' = l1' ++ mid' ++ l2' /\ itinv q l1' mid' l2' it' /\
                         entries mid' = snd (fst (it_run lru_order rs (entries mid))).
Proof.
  induction rs as [|[d w] rs IH]; intros h q l1 mid l2 it Hwf Hinv.
  - cbn. exists h, it, [], (l1 ++ mid ++ l2).
    split; [reflexivity|]. split; [exact Hwf|]. split; [reflexivity|]. split; [constructor|]. split; [intros a []|]. split; [reflexivity|]. split; [reflexivity|]. split; [reflexivity|]. exists l1, mid, l2. auto.
  - cbn [h_it_run it_run]. unfold it_next.
    destruct (from_head lru_order d) eqn:Efh.
    + destruct mid as [|[a [k v]] mid'].
      * (* exhausted *)
        pose proof Hinv as (Hlen & _). unfold h_it_take. rewrite Hlen. cbn [length Nat.eqb hbind entries map].
        destruct (IH h q l1 [] l2 it Hwf Hinv) as (h' & it' & ads & l' & -> & Hwf' & Ead & Hnd & Hin & Hfresh & Hframe & Hwr & Hdec).
        change (entries []) with (@nil entry) in Hwr, Hdec.
        cbn [hbind entries map]. destruct (it_run lru_order rs []) as [[ys remf] wrs]. cbn [fst snd option_map] in *.
        exists h', it', ads, l'. rewrite Hlen. split; [reflexivity|]. cbn [app] in *. auto 12.
      * destruct (h_it_take_front h q l1 a k v mid' l2 it w Hwf Hinv) as (h1 & it1 & -> & Hwf1 & Hinv1 & Hn1 & Hn2 & Hf1 & Hfr1).
        cbn [hbind entries map snd].
        destruct (IH h1 q _ mid' l2 it1 Hwf1 Hinv1) as (h' & it' & ads & l' & -> & Hwf' & Ead & Hnd & Hin & Hfresh & Hframe & Hwr & Hdec).
        cbn [hbind]. fold (entries mid'). destruct (it_run lru_order rs (entries mid')) as [[ys remf] wrs]. cbn [fst snd option_map].
        destruct Hinv1 as (Hl1 & _). rewrite Hl1. unfold entries. rewrite map_length.
        exists h', it', (a :: ads), l'. split; [reflexivity|]. split; [exact Hwf'|]. split.
        -- rewrite Ead. rewrite !addrs_app. cbn [addrs map fst]. rewrite <- !app_assoc. reflexivity.
        -- split.
           ++ constructor; [|exact Hnd]. intros Hc. apply Hn1. rewrite addrs_app. apply in_or_app. left. now apply Hin.
           ++ split; [intros x [<-|Hx]; [now left|right; now apply Hin]|]. split; [congruence|].
              split; [intros x Hx; cbn [addrs map fst In] in Hx; rewrite Hframe by tauto; apply Hfr1; intros ->; tauto|].
              split; [|cbn [fst snd] in Hdec |- *; exact Hdec].
              fold (entries l'). fold (entries (l1 ++ ((a, (k, v)) :: mid') ++ l2)). cbn [snd] in Hwr.
              rewrite Hwr, apply_writes_app. f_equal. rewrite <- app_assoc. cbn [app].
              symmetry. apply write_entries. apply Hwf.
    + destruct (rev_ind_split mid) as [->|(mid' & [a [k v]] & ->)].
      * pose proof Hinv as (Hlen & _). unfold h_it_take. rewrite Hlen. cbn [length Nat.eqb hbind entries map split_last].
        destruct (IH h q l1 [] l2 it Hwf Hinv) as (h' & it' & ads & l' & -> & Hwf' & Ead & Hnd & Hin & Hfresh & Hframe & Hwr & Hdec).
        change (entries []) with (@nil entry) in Hwr, Hdec.
        cbn [hbind entries map]. destruct (it_run lru_order rs []) as [[ys remf] wrs]. cbn [fst snd option_map] in *.
        exists h', it', ads, l'. rewrite Hlen. split; [reflexivity|]. cbn [app] in *. auto 12.
      * destruct (h_it_take_back h q l1 mid' a k v l2 it w Hwf Hinv) as (h1 & it1 & -> & Hwf1 & Hinv1 & Hn1 & Hn2 & Hf1 & Hfr1).
        cbn [hbind]. rewrite entries_app. cbn [entries map snd]. rewrite split_last_snoc.
        destruct (IH h1 q l1 mid' _ it1 Hwf1 Hinv1) as (h' & it' & ads & l' & -> & Hwf' & Ead & Hnd & Hin & Hfresh & Hframe & Hwr & Hdec).
        cbn [hbind]. fold (entries mid'). destruct (it_run lru_order rs (entries mid')) as [[ys remf] wrs]. cbn [fst snd option_map].
        destruct Hinv1 as (Hl1 & _). rewrite Hl1. unfold entries. rewrite map_length.
        exists h', it', (a :: ads), l'. split; [reflexivity|]. split; [exact Hwf'|]. split.
        -- rewrite Ead. rewrite !addrs_app. cbn [addrs map fst]. rewrite <- !app_assoc. reflexivity.
        -- split.
           ++ constructor; [|exact Hnd]. intros Hc. apply Hn1. rewrite addrs_app. apply in_or_app. right. now apply Hin.
           ++ split; [intros x [<-|Hx]; [rewrite addrs_app; apply in_or_app; right; now left|rewrite addrs_app; apply in_or_app; left; now apply Hin]|].
              split; [congruence|].
              split; [intros x Hx; rewrite addrs_app, in_app_iff in Hx; cbn [addrs map fst In] in Hx;
                      rewrite Hframe by tauto; apply Hfr1; intros ->; tauto|].
              split; [|cbn [fst snd] in Hdec |- *; exact Hdec].
              fold (entries l'). fold (entries (l1 ++ (mid' ++ [(a, (k, v))]) ++ l2)). cbn [snd] in Hwr.
              rewrite Hwr, apply_writes_app. f_equal.
              assert (Ea : forall e, l1 ++ (mid' ++ [(a, e)]) ++ l2 = (l1 ++ mid') ++ (a, e) :: l2)
                by (intros e; rewrite <- !app_assoc; reflexivity).
              assert (Eb : l1 ++ mid' ++ (a, (k, wval w v)) :: l2 = (l1 ++ mid') ++ (a, (k, wval w v)) :: l2)
                by (rewrite <- !app_assoc; reflexivity).
              rewrite Ea, Eb. symmetry. apply write_entries.
              destruct Hwf as (_ & _ & Hk). rewrite Ea in Hk. exact Hk.
Qed.

(** from [iter()]: the whole API of one iterator on a well-formed list *)
Theorem h_iter_safe h q l lru_order rs :
  wf h q l ->
  exists it h' it' ads l',
    h_iter h q = HOk it /\
    h_it_run h it lru_order rs = HOk (h', it', fst (fst (it_run lru_order rs (entries l))), ads) /\
    wf h' q l' /\ addrs l' = addrs l /\ NoDup ads /\ (forall a, In a ads -> In a (addrs l)) /\
    fresh h' = fresh h /\ (forall x, ~ In x (addrs l) -> cells h' x = cells h x) /\
    entries l' = apply_writes (snd (it_run lru_order rs (entries l))) (entries l).
Proof.
  intros Hwf. destruct (h_iter_ok h q l Hwf) as (it & E & Hinv).
  assert (Hwf0 : wf h q ([] ++ l ++ [])) by (cbn; now rewrite app_nil_r).
  destruct (h_it_run_ok lru_order rs h q [] l [] it Hwf0 Hinv) as (h' & it' & ads & l' & Er & Hwf' & Ead & Hnd & Hin & Hfr & Hframe & Hwr & _).
  exists it, h', it', ads, l'. cbn [app] in Ead, Hwr. rewrite app_nil_r in Ead, Hwr. auto 14.
Qed.

(** ** an iterator over one list of a composite cache: the other lists and the in-flight nodes are untouched *)
From VF Require Import HeapPrim HeapFrame HeapMulti.

Theorem fam_iter h F1 q l F2 fl lru_order rs :
  fam h (F1 ++ (q, l) :: F2) fl ->
  exists it h' it' ads l',
    h_iter h q = HOk it /\
    h_it_run h it lru_order rs = HOk (h', it', fst (fst (it_run lru_order rs (entries l))), ads) /\
    fam h' (F1 ++ (q, l') :: F2) fl /\ addrs l' = addrs l /\ NoDup ads /\ (forall a, In a ads -> In a (addrs l)) /\
    entries l' = apply_writes (snd (it_run lru_order rs (entries l))) (entries l) /\
    (forall x, ~ In x (addrs l) -> cells h' x = cells h x).
Proof.
  intros Hf. pose proof (fam_member _ _ _ _ _ _ Hf) as Hwf.
  destruct (h_iter_safe h q l lru_order rs Hwf) as (it & h' & it' & ads & l' & E1 & E2 & Hwf' & Ead & Hnd & Hin & Hfr & Hframe & Hwr).
  exists it, h', it', ads, l'. split; [exact E1|]. split; [exact E2|]. split; [|auto 10].
  eapply fam_update_perm; try eassumption; try reflexivity.
  - rewrite Ead. apply Permutation_refl.
  - intros a k v Hin'. destruct (fam_fl _ _ _ Hf a k v Hin') as (_ & p & x & Hc).
    exists p, x. rewrite Hframe; [exact Hc|].
    eapply fam_fl_outside in Hin'; [|exact Hf]. intros Hc'. apply Hin'. right. right. exact Hc'.
  - intros x Hx. apply Hframe. intros Hc. apply Hx. right. right. apply in_or_app. now left.
Qed.

(** ** the whole iterator script (fresh iterator, clone, both continue) on one list of a family *)
Lemma it_run_ro lru_order (rs : list req) rem : snd (it_run lru_order (map it_ro rs) rem) = [].
Proof.
  revert rem. induction rs as [|[d w] rs IH]; intros rem; [reflexivity|].
  cbn [map it_ro fst it_run]. destruct (it_next lru_order d rem) as [y rem'].
  specialize (IH rem'). destruct (it_run lru_order (map it_ro rs) rem') as [[ys remf] wrs].
  cbn [snd] in *. rewrite IH. now destruct y as [[? ?]|].
Qed.

Lemma it_strip_ro kd rs : ik_mut kd = false -> map (it_strip kd) rs = map it_ro rs.
Proof. intros E. apply map_ext. intros r. unfold it_strip. now rewrite E. Qed.

Lemma same_list (l l' : list (addr * entry)) : addrs l' = addrs l -> entries l' = entries l -> l' = l.
Proof.
  revert l'. induction l as [|[a e] t IH]; intros [|[a' e'] t']; cbn; try discriminate; [reflexivity|].
  intros Ha He. inversion Ha; inversion He; subst. f_equal. now apply IH.
Qed.

Lemma iter_script_eq kd pre pa pb (l : list entry) :
  let R0 := it_run (ik_lru kd) (map (it_strip kd) pre) l in
  let Ra := it_run (ik_lru kd) (map (it_strip kd) pa) (snd (fst R0)) in
  let Rb := it_run (ik_lru kd) (map it_ro pb) (snd (fst R0)) in
  iter_script kd pre pa pb l = (fst (fst R0), fst (fst Ra), fst (fst Rb), apply_writes (snd R0 ++ snd Ra) l).
Proof.
  cbn zeta. unfold iter_script.
  assert (Es : (if ik_mut kd then fun r : req => r else fun r : req => (fst r, None)) = it_strip kd).
  { unfold it_strip. destruct (ik_mut kd); reflexivity. }
  rewrite Es. unfold it_ro.
  destruct (it_run (ik_lru kd) (map (it_strip kd) pre) l) as [[y0 rem0] w0]. cbn [fst snd].
  destruct (it_run (ik_lru kd) (map (it_strip kd) pa) rem0) as [[ya rema] wa]. cbn [fst snd].
  match goal with |- context [match ?t with pair _ _ => _ end] =>
    change (it_run (ik_lru kd) (map (fun r : req => (fst r, None)) pb) rem0) with t; destruct t as [[yb remb] wb] end.
  reflexivity.
Qed.

Theorem fam_iter_script h F1 q l F2 fl kd pre pa pb :
  fam h (F1 ++ (q, l) :: F2) fl -> (ik_mut kd = true -> pb = []) ->
  exists h' l',
    h_iter_script h q kd pre pa pb = HOk (h', fst (iter_script kd pre pa pb (entries l))) /\
    fam h' (F1 ++ (q, l') :: F2) fl /\ entries l' = snd (iter_script kd pre pa pb (entries l)) /\
    addrs l' = addrs l /\ (forall x, ~ In x (addrs l) -> cells h' x = cells h x).
Proof.
  intros Hf Hmut. pose proof (fam_member _ _ _ _ _ _ Hf) as Hwf.
  rewrite iter_script_eq. cbn zeta. cbn [fst snd].
  unfold h_iter_script.
  destruct (h_iter_ok h q l Hwf) as (it0 & -> & Hinv0). cbn [hbind].
  assert (Hwf0 : wf h q ([] ++ l ++ [])) by (cbn; now rewrite app_nil_r).
  destruct (h_it_run_ok (ik_lru kd) (map (it_strip kd) pre) h q [] l [] it0 Hwf0 Hinv0)
    as (h1 & it1 & a0 & l1st & -> & Hwf1 & Ead1 & _ & _ & Hfr1 & Hframe1 & Hwr1 & (L1 & M1 & L2 & -> & Hinv1 & Erem)).
  cbn [hbind app] in *. rewrite app_nil_r in *.
  set (R0 := it_run (ik_lru kd) (map (it_strip kd) pre) (entries l)) in *.
  destruct (h_it_run_ok (ik_lru kd) (map (it_strip kd) pa) h1 q L1 M1 L2 it1 Hwf1 Hinv1)
    as (h2 & it2 & aa & l2nd & -> & Hwf2 & Ead2 & _ & _ & Hfr2 & Hframe2 & Hwr2 & _).
  cbn [hbind]. rewrite Erem in *.
  set (Ra := it_run (ik_lru kd) (map (it_strip kd) pa) (snd (fst R0))) in *.
  assert (HM1 : forall x, In x (addrs M1) -> In x (addrs l)).
  { intros x Hx. rewrite <- Ead1, !addrs_app. apply in_or_app. right. apply in_or_app. now left. }
  assert (Hent2 : entries l2nd = apply_writes (snd R0 ++ snd Ra) (entries l)).
  { rewrite Hwr2, Hwr1. symmetry. apply apply_writes_app. }
  assert (Hfin : forall h3 l3rd, wf h3 q l3rd -> addrs l3rd = addrs l -> entries l3rd = entries l2nd ->
            fresh h3 = fresh h -> (forall x, ~ In x (addrs l) -> cells h3 x = cells h x) ->
            fam h3 (F1 ++ (q, l3rd) :: F2) fl).
  { intros h3 l3rd Hw3 Ea3 _ Hf3 Hfr3.
    eapply fam_update_perm; try eassumption; try reflexivity.
    - rewrite Ea3. apply Permutation_refl.
    - intros a k v Hin'. destruct (fam_fl _ _ _ Hf a k v Hin') as (_ & p & x & Hc).
      exists p, x. rewrite Hfr3; [exact Hc|].
      eapply fam_fl_outside in Hin'; [|exact Hf]. intros Hc'. apply Hin'. right. right. exact Hc'.
    - intros x Hx. apply Hfr3. intros Hc. apply Hx. right. right. apply in_or_app. now left. }
  destruct (ik_mut kd) eqn:Emut.
  - (* a mutable iterator cannot be cloned: the clone's script is empty *)
    rewrite (Hmut eq_refl). cbn [map h_it_run hbind it_run fst].
    exists h2, l2nd. split; [reflexivity|]. split; [|split; [exact Hent2|split; [congruence|]]].
    + apply Hfin; [exact Hwf2|congruence|reflexivity|congruence|]. intros x Hx. rewrite Hframe2, Hframe1; auto.
    + intros x Hx. rewrite Hframe2, Hframe1; auto.
  - (* no writes: the clone walks the unchanged list *)
    assert (Ew0 : snd R0 = []) by (unfold R0; rewrite (it_strip_ro kd pre Emut); apply it_run_ro).
    assert (Ewa : snd Ra = []) by (unfold Ra; rewrite (it_strip_ro kd pa Emut); apply it_run_ro).
    assert (El2 : l2nd = L1 ++ M1 ++ L2).
    { apply same_list; [exact Ead2|]. rewrite Hwr2, Ewa. reflexivity. }
    rewrite El2 in Hwf2.
    destruct (h_it_run_ok (ik_lru kd) (map it_ro pb) h2 q L1 M1 L2 it1 Hwf2 Hinv1)
      as (h3 & it3 & ab & l3rd & -> & Hwf3 & Ead3 & _ & _ & Hfr3 & Hframe3 & Hwr3 & _).
    cbn [hbind]. rewrite Erem in *.
    exists h3, l3rd. split; [reflexivity|].
    assert (He3 : entries l3rd = entries l2nd).
    { rewrite Hwr3, it_run_ro, El2. reflexivity. }
    assert (Hfr : forall x, ~ In x (addrs l) -> cells h3 x = cells h x).
    { intros x Hx. rewrite Hframe3, Hframe2, Hframe1; auto. }
    split; [apply Hfin; [exact Hwf3|congruence|exact He3|congruence|exact Hfr]|]. split; [congruence|]. split; [congruence|exact Hfr].
Qed.
