(** * Layer H — the crate-internal primitives on one list of a family, side by side with the same
    primitive of the layer-L model (Lru.v): the form in which the composite caches' refinement
    proofs consume them. *)
From VF Require Import Base Lru BaseFacts LruFacts Counts PrimFacts
  Heap HeapFacts HeapOps HeapRun HeapPrim HeapFrame HeapMulti.
From Coq Require Import List Arith Lia Permutation.
Import ListNotations.
Local Open Scope nat_scope.

Definition Rl (q : hlru) (l : list (addr * entry)) (p : lru) : Prop := entries l = items p /\ hcap q = cap p.

Lemma entries_length (l : list (addr * entry)) : length (entries l) = length l.
Proof. unfold entries. apply map_length. Qed.

Theorem ref_remove_ent h F1 q l F2 fl p k :
  fam h (F1 ++ (q, l) :: F2) fl -> Rl q l p ->
  match remove_ent p k with
  | (p', Some e) =>
    exists h' q' l' a, h_remove_ent h q k = HOk (h', q', Some a) /\
      fam h' (F1 ++ (q', l') :: F2) ((a, e) :: fl) /\ Rl q' l' p' /\
      hhead q' = hhead q /\ htail q' = htail q /\ fresh h' = fresh h /\ fst e = k /\
      Base.find k (items p) = Some (snd e) /\ items p' = remove_key k (items p) /\ cap p' = cap p
  | (p', None) => h_remove_ent h q k = HOk (h, q, None) /\ p' = p /\ Base.find k (items p) = None
  end.
Proof.
  intros Hf (El & Ec). pose proof (fam_member _ _ _ _ _ _ Hf) as Hwf.
  unfold remove_ent. destruct (Base.find k (items p)) as [v|] eqn:Hfind.
  - rewrite <- El in Hfind. destruct (find_split l k v Hfind) as (l1 & a & l2 & ->).
    destruct (fam_remove_ent_hit h F1 q l1 a k v l2 F2 fl Hf) as (h' & q' & E & Hf' & E1 & E2 & E3 & Ef).
    exists h', q', (l1 ++ l2), a. split; [exact E|]. split; [exact Hf'|].
    destruct (find_entries_split l1 a k v l2 (proj2 (proj2 Hwf))) as [_ Er].
    split; [split; [cbn [with_items items]; rewrite <- El, Er; apply entries_app|cbn [with_items cap]; congruence]|].
    repeat split; auto.
  - rewrite <- El in Hfind. rewrite (h_remove_ent_miss h q l k Hwf Hfind). auto.
Qed.

Theorem ref_remove_lru_in h F1 q l F2 fl p :
  fam h (F1 ++ (q, l) :: F2) fl -> Rl q l p ->
  match remove_lru_in p with
  | (p', Some e) =>
    exists h' q' l' a, h_remove_lru_in h q = HOk (h', q', Some a) /\
      fam h' (F1 ++ (q', l') :: F2) ((a, e) :: fl) /\ Rl q' l' p' /\
      hhead q' = hhead q /\ htail q' = htail q /\ fresh h' = fresh h /\
      items p = items p' ++ [e] /\ cap p' = cap p
  | (p', None) => h_remove_lru_in h q = HOk (h, q, None) /\ p' = p /\ items p = []
  end.
Proof.
  intros Hf (El & Ec). pose proof (fam_member _ _ _ _ _ _ Hf) as Hwf.
  unfold remove_lru_in. destruct (split_last (items p)) as [[rest [ek ev]]|] eqn:Esl.
  - rewrite <- El in Esl. destruct (entries_split_last l rest (ek, ev) Esl) as (l' & a & -> & <-).
    pose proof (fam_remove_ent_hit h F1 q l' a ek ev [] F2 fl Hf) as H.
    destruct H as (h' & q' & E & Hf' & E1 & E2 & E3 & Ef). rewrite app_nil_r in Hf'.
    (* remove_lru_in and remove_and_return_ent of the last key do the same on the heap *)
    assert (E' : h_remove_lru_in h q = HOk (h', q', Some a)).
    { destruct (h_remove_lru_in_some h q l' a ek ev Hwf) as (h2 & q2 & E2' & _).
      unfold h_remove_lru_in in *. unfold h_remove_ent in E.
      pose proof Hwf as (Hc & _).
      rewrite (tail_prev_last h q l' a (ek, ev) Hc) in *. cbn [hbind] in *.
      pose proof (ch_nodup _ _ _ Hc) as Hnd0. rewrite addrs_app in Hnd0. cbn [addrs map fst] in Hnd0.
      destruct (nodup_split_facts _ _ _ _ _ Hnd0) as (Hht & Hha & _).
      destruct (Nat.eqb_spec a (hhead q)); [congruence|].
      rewrite (key_at_chain h q _ a ek ev Hc) by (apply in_or_app; right; now left). cbn [hbind]. exact E. }
    exists h', q', l', a. split; [exact E'|]. split; [exact Hf'|].
    split; [split; [reflexivity|cbn [with_items cap]; congruence]|].
    repeat split; auto. cbn [with_items items]. now rewrite <- El, entries_app.
  - apply split_last_none in Esl. rewrite <- El in Esl. destruct l; [|discriminate].
    rewrite (h_remove_lru_in_none h q Hwf). rewrite <- El. auto.
Qed.

(** [put_or_evict_nonnull]: an in-flight node enters the list *)
Theorem ref_put_or_evict h F1 q l F2 fl1 n k v fl2 p :
  fam h (F1 ++ (q, l) :: F2) (fl1 ++ (n, (k, v)) :: fl2) -> Rl q l p ->
  1 <= cap p -> cntl (items p) k = 0 ->
  exists p' ev, put_or_evict_nonnull p (k, v) = Ok (p', ev) /\ cap p' = cap p /\
    match ev with
    | None =>
      exists h' q' l', h_put_or_evict_nonnull h q n = HOk (h', q', None) /\
        fam h' (F1 ++ (q', l') :: F2) (fl1 ++ fl2) /\ Rl q' l' p' /\
        hhead q' = hhead q /\ htail q' = htail q /\ fresh h' = fresh h /\
        items p' = (k, v) :: items p /\ llen p < cap p /\ l' = (n, (k, v)) :: l
    | Some e =>
      exists h' q' l' a, h_put_or_evict_nonnull h q n = HOk (h', q', Some a) /\
        fam h' (F1 ++ (q', l') :: F2) ((a, e) :: fl1 ++ fl2) /\ Rl q' l' p' /\
        hhead q' = hhead q /\ htail q' = htail q /\ fresh h' = fresh h /\
        (exists rest, items p = rest ++ [e] /\ items p' = (k, v) :: rest) /\ cap p <= llen p
    end.
Proof.
  intros Hf (El & Ec) Hc Hk.
  assert (Hfind : Base.find k (entries l) = None) by (rewrite El; now apply cntl_zero_find).
  unfold put_or_evict_nonnull.
  destruct (put_nonnull_spec p (k, v) Hc) as [[Hlt ->]|[Hge (rest & [vk vv] & Hit & ->)]].
  - do 2 eexists. split; [reflexivity|]. split; [reflexivity|].
    assert (Hlen : length l < hcap q) by (unfold llen in Hlt; rewrite <- El, entries_length, <- Ec in Hlt; exact Hlt).
    destruct (fam_put_or_evict_room h F1 q l F2 fl1 n k v fl2 Hf Hfind Hlen) as (h' & q' & E & Hf' & E1 & E2 & E3 & Ef).
    exists h', q', ((n, (k, v)) :: l). split; [exact E|]. split; [exact Hf'|].
    split; [split; [cbn [with_items items entries map snd]; now rewrite <- El|cbn [with_items cap]; congruence]|].
    repeat split; auto.
  - do 2 eexists. split; [reflexivity|]. split; [reflexivity|].
    assert (Hsl : exists l0 o, l = l0 ++ [(o, (vk, vv))] /\ entries l0 = rest).
    { apply entries_split_last. rewrite El, Hit. apply split_last_snoc. }
    destruct Hsl as (l0 & o & -> & Erest).
    assert (Hlen : hcap q <= length (l0 ++ [(o, (vk, vv))])).
    { unfold llen in Hge. rewrite <- El, entries_length, <- Ec in Hge. exact Hge. }
    destruct (fam_put_or_evict_full h F1 q l0 o vk vv F2 fl1 n k v fl2 Hf Hfind Hlen) as (h' & q' & E & Hf' & E1 & E2 & E3 & Ef).
    exists h', q', ((n, (k, v)) :: l0), o. split; [exact E|]. split; [exact Hf'|].
    split; [split; [cbn [with_items items entries map snd]; now rewrite <- Erest|cbn [with_items cap]; congruence]|].
    repeat split; eauto.
Qed.

(** [put_nonnull]: as above, the node pushed out is unboxed *)
Theorem ref_put_nonnull h F1 q l F2 fl1 n k v fl2 p :
  fam h (F1 ++ (q, l) :: F2) (fl1 ++ (n, (k, v)) :: fl2) -> Rl q l p ->
  1 <= cap p -> cntl (items p) k = 0 ->
  exists p' ev h' q' l', put_nonnull p (k, v) = Ok (p', ev) /\ cap p' = cap p /\
    h_put_nonnull h q n = HOk (h', q', ev) /\
    fam h' (F1 ++ (q', l') :: F2) (fl1 ++ fl2) /\ Rl q' l' p' /\
    hhead q' = hhead q /\ htail q' = htail q /\ fresh h' = fresh h /\
    match ev with
    | None => items p' = (k, v) :: items p /\ llen p < cap p
    | Some e => (exists rest, items p = rest ++ [e] /\ items p' = (k, v) :: rest) /\ cap p <= llen p
    end.
Proof.
  intros Hf HR Hc Hk.
  destruct (ref_put_or_evict h F1 q l F2 fl1 n k v fl2 p Hf HR Hc Hk) as (p' & ev & E & Ecap & H).
  unfold put_or_evict_nonnull in E. unfold h_put_nonnull.
  destruct ev as [[ek evv]|].
  - destruct H as (h1 & q' & l' & a & -> & Hf1 & HR' & E1 & E2 & Ef & Hit & Hge). cbn [hbind].
    destruct (fam_free h1 _ [] a ek evv (fl1 ++ fl2) Hf1) as (h2 & -> & -> & Hf2 & Ef2). cbn [hbind app] in *.
    destruct HR' as [HRa HRb].
    exists p', (Some (ek, evv)), h2, q', l'.
    split; [exact E|]. split; [exact Ecap|]. split; [reflexivity|]. split; [exact Hf2|]. split; [split; assumption|].
    split; [exact E1|]. split; [exact E2|]. split; [congruence|]. split; assumption.
  - destruct H as (h1 & q' & l' & -> & Hf1 & HR' & E1 & E2 & Ef & Hit & Hlt & _). cbn [hbind].
    destruct HR' as [HRa HRb].
    exists p', None, h1, q', l'.
    split; [exact E|]. split; [exact Ecap|]. split; [reflexivity|]. split; [exact Hf1|]. split; [split; assumption|].
    split; [exact E1|]. split; [exact E2|]. split; [exact Ef|]. split; assumption.
Qed.

(** the value of an in-flight node is swapped *)
Theorem ref_swap_value h F fl1 a k old fl2 v :
  fam h F (fl1 ++ (a, (k, old)) :: fl2) ->
  exists h', h_swap_value h a v = HOk (h', old) /\ fam h' F (fl1 ++ (a, (k, v)) :: fl2) /\ fresh h' = fresh h.
Proof. apply fam_swap_value. Qed.

(** [map.get_mut] + [update] *)
Theorem ref_update h F1 q l F2 fl p k v :
  fam h (F1 ++ (q, l) :: F2) fl -> Rl q l p ->
  match update p k v with
  | (p', Some old) =>
    exists a h' l', idx_find h (hidx q) k = HOk (Some a) /\ h_update h q a v = HOk (h', old) /\
      fam h' (F1 ++ (q, l') :: F2) fl /\ Rl q l' p' /\ fresh h' = fresh h
  | (p', None) => idx_find h (hidx q) k = HOk None /\ p' = p /\ Base.find k (items p) = None
  end.
Proof.
  intros Hf (El & Ec). pose proof (fam_member _ _ _ _ _ _ Hf) as Hwf.
  destruct (update_spec p k v) as [[Hn ->]|(old & Ho & ->)].
  - split; [|auto]. apply (idx_find_miss h q l k Hwf). now rewrite El.
  - rewrite <- El in Ho. destruct (find_split l k old Ho) as (l1 & a & l2 & ->).
    destruct (h_update_framed h q l1 a k old l2 v Hwf) as (h' & E & HF).
    exists a, h', ((a, (k, v)) :: l1 ++ l2).
    split; [apply (idx_find_hit h q _ a k old Hwf); apply in_or_app; right; now left|].
    split; [exact E|]. split; [eapply fam_framed; eauto|]. split.
    + split; [|exact Ec]. cbn [with_items items].
      destruct (find_entries_split l1 a k old l2 (proj2 (proj2 Hwf))) as [_ Er]. rewrite <- El, Er.
      cbn [entries map snd]. now rewrite entries_app.
    + destruct HF as (Hwf' & _ & _ & Hle & Hsub & _). 
      (* update neither allocates nor frees *)
      destruct (h_put_update h q l1 a k old l2 v Hwf) as (h2 & E2 & _ & Ef & _).
      unfold h_put in E2. rewrite (idx_find_hit h q _ a k old Hwf) in E2 by (apply in_or_app; right; now left).
      cbn [hbind] in E2. rewrite E in E2. cbn [hbind] in E2. inversion E2; subst. exact Ef.
Qed.
