(** * Layer H — WTinyLFUCache on the heap refines WTiny.v: the window list and the segmented cache share
    one heap; every operation keeps the three-list family, makes no memory error and returns what the
    layer-L model returns; every history is safe and Drop frees every cell. *)
From VF Require Import Base Lru Slru Tiny WTiny BaseFacts LruFacts Counts PrimFacts SlruFacts TinyFacts WTinyFacts
  Heap HeapSlruDef HeapWTinyDef HeapFacts HeapOps HeapRun HeapPrim HeapFrame HeapMulti HeapRefine HeapIterDef HeapIter HeapClone HeapSlru.
From Coq Require Import List Arith Lia Permutation ZArith.
Import ListNotations.
Local Open Scope nat_scope.

Section WithOtherLists.
(** the three lists of the cache may share the heap with other lists [Fx] (a clone next to its original) *)
Variable Fx : list hlist.

Definition RWx (h : heap) (s : hwtiny) (ls : wtiny) : Prop :=
  hw_tiny s = wt_tiny ls /\ hw_kh s = wt_kh ls /\
  exists lw, RS ((hw_lru s, lw) :: Fx) h (hw_slru s) (wt_slru ls) /\ Rl (hw_lru s) lw (wt_lru ls).

Ltac conj_split := repeat match goal with |- _ /\ _ => split end.

Lemma Rl_len_gen q l p h F1 F2 fl : fam h (F1 ++ (q, l) :: F2) fl -> Rl q l p -> length (hidx q) = llen p.
Proof.
  intros Hf (El & _). pose proof (fam_member _ _ _ _ _ _ Hf) as (_ & Hi & _).
  rewrite (idx_len q l Hi). unfold llen. now rewrite <- El, entries_length.
Qed.

Lemma fam_remove_lru_gen h F1 q l F2 fl s :
  fam h (F1 ++ (q, l) :: F2) fl -> entries l = items s -> hcap q = cap s ->
  exists h' q' l', h_remove_lru h q = HOk (h', q', snd (fst (Lru.remove_lru s))) /\
                   fam_res h F1 q F2 fl h' q' l' (fst (fst (Lru.remove_lru s))).
Proof.
  intros Hf El Ec. destruct (fam_step h F1 q l F2 fl s HRemoveLru Hf El Ec) as (h' & q' & l' & E & R).
  cbn [hstep lstep] in *. destruct (h_remove_lru h q) as [[[h1 q1] r1]|e]; cbn [hbind] in E; [|discriminate].
  destruct (Lru.remove_lru s) as [[s1 r] cbs]. cbn [fst snd] in *. inversion E; subst.
  exists h', q', l'. split; [reflexivity|exact R].
Qed.

(** opening the relation: the three-list family *)
Lemma rw_open h s ls :
  RWx h s ls ->
  exists la lb lw, fam h ((hprob (hw_slru s), la) :: (hprot (hw_slru s), lb) :: (hw_lru s, lw) :: Fx) [] /\
    Rl (hprob (hw_slru s)) la (prob (wt_slru ls)) /\ Rl (hprot (hw_slru s)) lb (prot (wt_slru ls)) /\
    Rl (hw_lru s) lw (wt_lru ls) /\ hw_tiny s = wt_tiny ls /\ hw_kh s = wt_kh ls.
Proof.
  intros (Et & Ek & lw & (la & lb & Hf & Ea & Eb & Eca & Ecb) & HRw).
  exists la, lb, lw. conj_split; auto; split; assumption.
Qed.

Lemma rw_close h t kh qw m lt lkh pw pm la lb lw :
  fam h ((hprob m, la) :: (hprot m, lb) :: (qw, lw) :: Fx) [] ->
  Rl (hprob m) la (prob pm) -> Rl (hprot m) lb (prot pm) -> Rl qw lw pw -> t = lt -> kh = lkh ->
  RWx h (mkHwtiny t kh qw m) (mkWTiny lt pw pm lkh).
Proof.
  intros Hf (Ea & Eca) (Eb & Ecb) HRw Et Ek. split; [exact Et|]. split; [exact Ek|].
  exists lw. cbn [hw_lru hw_slru wt_lru wt_slru]. split; [|exact HRw]. exists la, lb. auto.
Qed.

(** an operation of the segmented cache inside the three-list family *)
Lemma rs_of_fam h m pm la lb qw lw :
  fam h ((hprob m, la) :: (hprot m, lb) :: (qw, lw) :: Fx) [] ->
  Rl (hprob m) la (prob pm) -> Rl (hprot m) lb (prot pm) -> RS ((qw, lw) :: Fx) h m pm.
Proof. intros Hf (Ea & Eca) (Eb & Ecb). exists la, lb. auto. Qed.

Lemma hs_len_eq h m pm F0 : RS F0 h m pm -> hs_len m = slen pm /\ hs_cap m = scap pm.
Proof.
  intros (la & lb & Hf & Ea & Eb & Eca & Ecb). unfold hs_len, hs_cap, slen, scap.
  pose proof (fam_member h [] (hprob m) la ((hprot m, lb) :: F0) [] Hf) as (_ & Hia & _).
  pose proof (fam_member h [(hprob m, la)] (hprot m) lb F0 [] Hf) as (_ & Hib & _).
  rewrite (idx_len _ _ Hia), (idx_len _ _ Hib). unfold llen. rewrite <- Ea, <- Eb, !entries_length. split; congruence.
Qed.

(** ** admission of the candidate the window pushed out *)
Lemma hw_admit_refines h s ls qw' lw' pw' ck cv ls' r :
  RS ((qw', lw') :: Fx) h (hw_slru s) (wt_slru ls) -> Rl qw' lw' pw' ->
  hw_tiny s = wt_tiny ls -> hw_kh s = wt_kh ls -> slru_inv (wt_slru ls) ->
  wt_admit ls pw' ck cv = Ok (ls', r) ->
  exists h' s', hw_admit h s qw' ck cv = HOk (h', s', r) /\ RWx h' s' ls'.
Proof.
  destruct s as [t kh qw m]. destruct ls as [lt pw pm lkh]. cbn [hw_tiny hw_kh hw_lru hw_slru wt_tiny wt_kh wt_lru wt_slru].
  intros HRS HRw Et Ek Hinv E. subst lt lkh. unfold hw_admit, wt_admit in *.
  cbn [hw_tiny hw_kh hw_lru hw_slru hw_with wt_with wt_tiny wt_kh wt_lru wt_slru] in *.
  destruct (hs_len_eq _ _ _ _ HRS) as [El Ecap]. rewrite El, Ecap.
  assert (Hput : forall ls' r, (do (m', r) <- sput pm ck cv; Ok (mkWTiny t pw' m' kh, r)) = Ok (ls', r) ->
                 exists h' s', (hdo (h1, m', r) <- hs_put h m ck cv; HOk (h1, mkHwtiny t kh qw' m', r)) = HOk (h', s', r) /\ RWx h' s' ls').
  { intros ls2 r2 E2. destruct (hs_put_refines _ h m pm ck cv HRS Hinv) as (h' & m' & pm' & r' & -> & Es & HRS').
    rewrite Es in E2. cbn [bind] in E2. inversion E2; subst. cbn [hbind].
    do 2 eexists. split; [reflexivity|]. split; [reflexivity|]. split; [reflexivity|].
    exists lw'. cbn [hw_lru hw_slru wt_lru wt_slru]. auto. }
  destruct (Nat.ltb (slen pm) (scap pm)); [now apply Hput|].
  destruct HRS as (la & lb & Hf & Ea & Eb & Eca & Ecb).
  pose proof (fam_step h [] (hprob m) la ((hprot m, lb) :: (qw', lw') :: Fx) [] (prob pm) (HPeekLru None) Hf Ea Eca)
    as (h1 & q1 & l1 & Est & _). cbn [hstep lstep] in Est.
  destruct (h_peek_lru h (hprob m) None) as [[hh o]|e]; cbn [hbind] in Est; [|discriminate].
  unfold Lru.peek_lru_mut in Est. cbn [snd] in Est. inversion Est; subst. cbn [hbind].
  assert (HRS : RS ((qw', lw') :: Fx) h m pm) by (exists la, lb; auto).
  destruct (peek_lru (prob pm)) as [[vk vv]|]; [|now apply Hput].
  destruct (tl_lt t (key_hash kh ck) (key_hash kh vk)) as [b|site]; cbn [bind of_res hbind] in *; [|discriminate].
  destruct b.
  - inversion E; subst. do 2 eexists. split; [reflexivity|].
    split; [reflexivity|]. split; [reflexivity|]. exists lw'. cbn [hw_lru hw_slru wt_lru wt_slru]. auto.
  - now apply Hput.
Qed.

(** ** put *)
Theorem hw_put_refines h s ls k v ls' r :
  RWx h s ls -> slru_inv (wt_slru ls) -> wput ls k v = Ok (ls', r) ->
  exists h' s', hw_put h s k v = HOk (h', s', r) /\ RWx h' s' ls'.
Proof.
  intros HR Hinv E. destruct (rw_open h s ls HR) as (la & lb & lw & Hf & HRa & HRb & HRw & Et & Ek).
  destruct s as [t kh qw m]. destruct ls as [lt pw pm lkh].
  cbn [hw_tiny hw_kh hw_lru hw_slru wt_tiny wt_kh wt_lru wt_slru] in *. subst lt lkh.
  destruct m as [qa qb]. destruct pm as [pa pb]. cbn [hprob hprot prob prot] in *.
  unfold hw_put, wput in *. cbn [hw_tiny hw_kh hw_lru hw_slru hw_with wt_with wt_tiny wt_kh wt_lru wt_slru hprob hprot prob prot] in *.
  destruct (fam_remove h [(qa, la); (qb, lb)] qw lw Fx [] pw k Hf (proj1 HRw) (proj2 HRw))
    as (h1 & qw1 & lw1 & -> & Hf1 & Ew1 & Ecw1 & _). cbn [hbind app] in *.
  destruct (remove_spec pw k) as [[_ Er]|(old & _ & Er)]; rewrite Er in *; cbn [fst snd] in *.
  - (* not in the window *)
    assert (HRS : RS ((qw1, lw1) :: Fx) h1 (mkHslru qa qb) (mkSlru pa pb)) by (apply (rs_of_fam h1 (mkHslru qa qb) (mkSlru pa pb) la lb qw1 lw1); auto).
    rewrite (hs_contains_refines _ h1 _ _ k HRS). cbn [hbind].
    destruct (scontains (mkSlru pa pb) k).
    + destruct (hs_put_refines _ h1 _ _ k v HRS Hinv) as (h2 & m' & pm' & r' & -> & Es & HRS').
      rewrite Es in E. cbn [bind] in E. inversion E; subst. cbn [hbind].
      do 2 eexists. split; [reflexivity|]. split; [reflexivity|]. split; [reflexivity|].
      exists lw1. cbn [hw_lru hw_slru wt_lru wt_slru]. split; [exact HRS'|split; assumption].
    + destruct (fam_put h1 [(qa, la); (qb, lb)] qw1 lw1 Fx [] pw k v Hf1 Ew1 Ecw1)
        as (h2 & qw2 & lw2 & -> & Hf2 & Ew2 & Ecw2 & _). cbn [hbind app] in *.
      destruct (Lru.put pw k v) as [[pw2 r2] cbs]. cbn [fst snd] in *.
      assert (HRS2 : RS ((qw2, lw2) :: Fx) h2 (mkHslru qa qb) (mkSlru pa pb)) by (apply (rs_of_fam h2 (mkHslru qa qb) (mkSlru pa pb) la lb qw2 lw2); auto).
      destruct r2 as [|o|ck cv|ek ev o].
      * inversion E; subst. do 2 eexists. split; [reflexivity|]. apply rw_close with (la := la) (lb := lb) (lw := lw2); auto; split; assumption.
      * inversion E; subst. do 2 eexists. split; [reflexivity|]. apply rw_close with (la := la) (lb := lb) (lw := lw2); auto; split; assumption.
      * apply (hw_admit_refines h2 (mkHwtiny t kh qw (mkHslru qa qb)) (mkWTiny t pw (mkSlru pa pb) kh) qw2 lw2 pw2 ck cv ls' r); auto.
        split; assumption.
      * inversion E; subst. do 2 eexists. split; [reflexivity|]. apply rw_close with (la := la) (lb := lb) (lw := lw2); auto; split; assumption.
  - (* window hit: the key goes to the protected segment, whose least recently used entry comes back *)
    rewrite (Rl_len_gen qb lb pb h1 [(qa, la)] ((qw1, lw1) :: Fx) [] Hf1 HRb).
    rewrite <- (proj2 HRb) in E.
    destruct (Nat.leb (hcap qb) (llen pb)).
    + destruct (fam_remove_lru_gen h1 [(qa, la)] qb lb ((qw1, lw1) :: Fx) [] pb Hf1 (proj1 HRb) (proj2 HRb))
        as (h2 & qb1 & lb1 & -> & Hf2 & Eb1 & Ecb1 & _). cbn [hbind app] in *.
      destruct (Lru.remove_lru pb) as [[pb1 [[ek ev]|]] cbs]; cbn [fst snd bind] in *; [|discriminate].
      destruct (fam_put h2 [(qa, la); (qb1, lb1)] qw1 lw1 Fx [] _ ek ev Hf2 Ew1 Ecw1)
        as (h3 & qw2 & lw2 & -> & Hf3 & Ew2 & Ecw2 & _). cbn [hbind app] in *.
      destruct (Lru.put (with_items pw (remove_key k (items pw))) ek ev) as [[pw2 r2] cbs2]. cbn [fst snd bind] in *.
      assert (HRS3 : RS ((qw2, lw2) :: Fx) h3 (mkHslru qa qb1) (mkSlru pa pb1)) by (apply (rs_of_fam h3 (mkHslru qa qb1) (mkSlru pa pb1) la lb1 qw2 lw2); auto; split; auto).
      destruct (hs_put_protected_refines _ h3 _ _ k v HRS3) as (h4 & m4 & -> & HRS4). cbn [hbind].
      destruct (sput_protected (mkSlru pa pb1) k v) as [pm4 r4]. cbn [fst snd] in *. inversion E; subst.
      do 2 eexists. split; [reflexivity|]. split; [reflexivity|]. split; [reflexivity|].
      exists lw2. cbn [hw_lru hw_slru wt_lru wt_slru]. split; [exact HRS4|split; assumption].
    + cbn [bind hbind] in *.
      assert (HRS3 : RS ((qw1, lw1) :: Fx) h1 (mkHslru qa qb) (mkSlru pa pb)) by (apply (rs_of_fam h1 (mkHslru qa qb) (mkSlru pa pb) la lb qw1 lw1); auto).
      destruct (hs_put_protected_refines _ h1 _ _ k v HRS3) as (h4 & m4 & -> & HRS4). cbn [hbind].
      destruct (sput_protected (mkSlru pa pb) k v) as [pm4 r4]. cbn [fst snd] in *. inversion E; subst.
      do 2 eexists. split; [reflexivity|]. split; [reflexivity|]. split; [reflexivity|].
      exists lw1. cbn [hw_lru hw_slru wt_lru wt_slru]. split; [exact HRS4|split; assumption].
Qed.

(** ** get / get_mut, peek, peek_mut, contains, remove, purge *)
Theorem hw_get_mut_refines h s ls k w ls' r :
  RWx h s ls -> slru_inv (wt_slru ls) -> wget_mut ls k w = Ok (ls', r) ->
  exists h' s', hw_get_mut h s k w = HOk (h', s', r) /\ RWx h' s' ls'.
Proof.
  intros HR Hinv E. destruct (rw_open h s ls HR) as (la & lb & lw & Hf & HRa & HRb & HRw & Et & Ek).
  destruct s as [t kh qw m]. destruct ls as [lt pw pm lkh].
  cbn [hw_tiny hw_kh hw_lru hw_slru wt_tiny wt_kh wt_lru wt_slru] in *. subst lt lkh.
  unfold hw_get_mut, wget_mut, wt_record in *. cbn [hw_tiny hw_kh hw_lru hw_slru hw_with wt_with wt_tiny wt_kh wt_lru wt_slru] in *.
  destruct (tl_increment (tl_try_reset t) (key_hash kh k)) as [t'|site]; cbn [bind of_res hbind] in *; [|discriminate].
  destruct (fam_get_mut h [(hprob m, la); (hprot m, lb)] qw lw Fx [] pw k w Hf (proj1 HRw) (proj2 HRw))
    as (h1 & lw1 & -> & Hf1 & Ew1 & Ecw1 & _). cbn [hbind app] in *.
  destruct (get_mut_spec pw k w) as [[_ Eg]|(v0 & _ & Eg)]; rewrite Eg in *; cbn [fst snd] in *.
  - assert (HRS : RS ((qw, lw1) :: Fx) h1 m pm) by (apply (rs_of_fam h1 m pm la lb qw lw1); auto).
    destruct (hs_get_mut_refines _ h1 m pm k w HRS Hinv) as (h2 & m' & pm' & r' & -> & Es & HRS').
    rewrite Es in E. cbn [bind] in E. inversion E; subst. cbn [hbind].
    do 2 eexists. split; [reflexivity|]. split; [reflexivity|]. split; [reflexivity|].
    exists lw1. cbn [hw_lru hw_slru wt_lru wt_slru]. split; [exact HRS'|split; assumption].
  - inversion E; subst. do 2 eexists. split; [reflexivity|].
    destruct m as [qa qb]. destruct pm as [pa pb]. apply rw_close with (la := la) (lb := lb) (lw := lw1); auto. split; assumption.
Qed.

Theorem hw_peek_refines h s ls k : RWx h s ls -> hw_peek h s k = HOk (wpeek ls k).
Proof.
  intros HR. destruct (rw_open h s ls HR) as (la & lb & lw & Hf & HRa & HRb & HRw & Et & Ek).
  unfold hw_peek, wpeek.
  rewrite (fam_peek h [(hprob (hw_slru s), la); (hprot (hw_slru s), lb)] (hw_lru s) lw Fx [] (wt_lru ls) k Hf (proj1 HRw)). cbn [hbind].
  destruct (peek (wt_lru ls) k); [reflexivity|].
  apply (hs_peek_refines ((hw_lru s, lw) :: Fx)). apply (rs_of_fam h _ _ la lb (hw_lru s) lw); auto.
Qed.

Theorem hw_contains_refines h s ls k : RWx h s ls -> hw_contains h s k = HOk (wcontains ls k).
Proof.
  intros HR. destruct (rw_open h s ls HR) as (la & lb & lw & Hf & HRa & HRb & HRw & Et & Ek).
  unfold hw_contains, wcontains.
  rewrite (fam_contains h [(hprob (hw_slru s), la); (hprot (hw_slru s), lb)] (hw_lru s) lw Fx [] (wt_lru ls) k Hf (proj1 HRw)). cbn [hbind].
  destruct (contains (wt_lru ls) k); [reflexivity|].
  apply (hs_contains_refines ((hw_lru s, lw) :: Fx)). apply (rs_of_fam h _ _ la lb (hw_lru s) lw); auto.
Qed.

Theorem hw_peek_mut_refines h s ls k w :
  RWx h s ls -> exists h', hw_peek_mut h s k w = HOk (h', snd (wpeek_mut ls k w)) /\ RWx h' s (fst (wpeek_mut ls k w)).
Proof.
  intros HR. destruct (rw_open h s ls HR) as (la & lb & lw & Hf & HRa & HRb & HRw & Et & Ek).
  destruct s as [t kh qw m]. destruct ls as [lt pw pm lkh].
  cbn [hw_tiny hw_kh hw_lru hw_slru wt_tiny wt_kh wt_lru wt_slru] in *. subst lt lkh.
  unfold hw_peek_mut, wpeek_mut. cbn [hw_tiny hw_kh hw_lru hw_slru hw_with wt_with wt_tiny wt_kh wt_lru wt_slru].
  destruct (fam_peek_mut h [(hprob m, la); (hprot m, lb)] qw lw Fx [] pw k w Hf (proj1 HRw) (proj2 HRw))
    as (h1 & lw1 & -> & Hf1 & Ew1 & Ecw1 & _). cbn [hbind app] in *.
  destruct (peek_mut_spec pw k w) as [[_ Eg]|(v0 & _ & Eg)]; rewrite Eg in *; cbn [fst snd] in *.
  - assert (HRS : RS ((qw, lw1) :: Fx) h1 m pm) by (apply (rs_of_fam h1 m pm la lb qw lw1); auto).
    destruct (hs_peek_mut_refines _ h1 m pm k w HRS) as (h2 & -> & HRS').
    destruct (speek_mut pm k w) as [pm' r']. cbn [fst snd] in *.
    exists h2. split; [reflexivity|]. split; [reflexivity|]. split; [reflexivity|].
    exists lw1. cbn [hw_lru hw_slru wt_lru wt_slru]. split; [exact HRS'|split; assumption].
  - exists h1. split; [reflexivity|].
    destruct m as [qa qb]. destruct pm as [pa pb]. apply rw_close with (la := la) (lb := lb) (lw := lw1); auto. split; assumption.
Qed.

Theorem hw_remove_refines h s ls k :
  RWx h s ls -> exists h' s', hw_remove h s k = HOk (h', s', snd (wremove ls k)) /\ RWx h' s' (fst (wremove ls k)).
Proof.
  intros HR. destruct (rw_open h s ls HR) as (la & lb & lw & Hf & HRa & HRb & HRw & Et & Ek).
  destruct s as [t kh qw m]. destruct ls as [lt pw pm lkh].
  cbn [hw_tiny hw_kh hw_lru hw_slru wt_tiny wt_kh wt_lru wt_slru] in *. subst lt lkh.
  unfold hw_remove, wremove. cbn [hw_tiny hw_kh hw_lru hw_slru hw_with wt_with wt_tiny wt_kh wt_lru wt_slru].
  destruct (fam_remove h [(hprob m, la); (hprot m, lb)] qw lw Fx [] pw k Hf (proj1 HRw) (proj2 HRw))
    as (h1 & qw1 & lw1 & -> & Hf1 & Ew1 & Ecw1 & _). cbn [hbind app] in *.
  destruct (remove_spec pw k) as [[_ Eg]|(v0 & _ & Eg)]; rewrite Eg in *; cbn [fst snd] in *.
  - assert (HRS : RS ((qw1, lw1) :: Fx) h1 m pm) by (apply (rs_of_fam h1 m pm la lb qw1 lw1); auto).
    destruct (hs_remove_refines _ h1 m pm k HRS) as (h2 & m' & -> & HRS').
    destruct (sremove pm k) as [pm' r']. cbn [fst snd hbind] in *.
    do 2 eexists. split; [reflexivity|]. split; [reflexivity|]. split; [reflexivity|].
    exists lw1. cbn [hw_lru hw_slru wt_lru wt_slru]. split; [exact HRS'|split; assumption].
  - do 2 eexists. split; [reflexivity|].
    destruct m as [qa qb]. destruct pm as [pa pb]. apply rw_close with (la := la) (lb := lb) (lw := lw1); auto. split; assumption.
Qed.

Theorem hw_purge_refines h s ls :
  RWx h s ls -> exists h' s', hw_purge h s = HOk (h', s') /\ RWx h' s' (wpurge ls).
Proof.
  intros HR. destruct (rw_open h s ls HR) as (la & lb & lw & Hf & HRa & HRb & HRw & Et & Ek).
  destruct s as [t kh qw m]. destruct ls as [lt pw pm lkh].
  cbn [hw_tiny hw_kh hw_lru hw_slru wt_tiny wt_kh wt_lru wt_slru] in *. subst lt lkh.
  unfold hw_purge, wpurge. cbn [hw_tiny hw_kh hw_lru hw_slru hw_with wt_with wt_tiny wt_kh wt_lru wt_slru].
  destruct (fam_purge h [(hprob m, la); (hprot m, lb)] qw lw Fx [] pw Hf (proj1 HRw) (proj2 HRw))
    as (h1 & qw1 & lw1 & -> & Hf1 & Ew1 & Ecw1 & _). cbn [hbind app] in *.
  assert (HRS : RS ((qw1, lw1) :: Fx) h1 m pm) by (apply (rs_of_fam h1 m pm la lb qw1 lw1); auto).
  destruct (hs_purge_refines _ h1 m pm HRS) as (h2 & m' & -> & HRS'). cbn [hbind].
  do 2 eexists. split; [reflexivity|]. split; [reflexivity|]. split; [reflexivity|].
  exists lw1. cbn [hw_lru hw_slru wt_lru wt_slru]. split; [exact HRS'|split; assumption].
Qed.

(** ** [Clone for WTinyLFUCache] *)
Lemma RW_wclone h s ls : RWx h s ls -> wt_inv ls -> wclone ls = ls.
Proof.
  intros (Et & Ek & lw & HRS & (Elw & Clw)) (_ & _ & Hlw & Hm & _).
  pose proof (RS_sclone _ _ _ _ HRS Hm) as Es.
  destruct HRS as (la & lb & Hf & _).
  assert (Hiw : lru_inv (wt_lru ls)).
  { apply (lru_inv_of h (hw_lru s) lw); auto. apply (fam_wf _ _ _ Hf). right. right. now left. }
  unfold wclone, wt_with. rewrite Es, (clone_id _ Hiw). now destruct ls.
Qed.

Theorem hw_clone_refines h s ls :
  RWx h s ls -> wt_inv ls ->
  exists h' s', hw_clone_replace h s = HOk (h', s') /\ RWx h' s' (wclone ls).
Proof.
  intros HR Hinv. rewrite (RW_wclone h s ls HR Hinv).
  destruct HR as (Et & Ek & lw & (la & lb & Hf & Ea & Eb & Ca & Cb) & (Elw & Clw)).
  destruct Hinv as (_ & _ & Hlw & (_ & _ & Hla & Hlb & _) & _).
  assert (Lw : length lw <= hcap (hw_lru s)) by (rewrite Clw, <- entries_len, Elw; exact Hlw).
  assert (La : length la <= hcap (hprob (hw_slru s))) by (rewrite Ca, <- entries_len, Ea; exact Hla).
  assert (Lb : length lb <= hcap (hprot (hw_slru s))) by (rewrite Cb, <- entries_len, Eb; exact Hlb).
  set (A := (hprob (hw_slru s), la)) in *. set (B := (hprot (hw_slru s), lb)) in *. set (W := (hw_lru s, lw)) in *.
  unfold hw_clone_replace, hw_clone.
  destruct (h_clone_in h _ (hw_lru s) lw Hf (or_intror (or_intror (or_introl eq_refl))) Lw)
    as (h1 & qw & lw' & -> & Hf1 & Ew' & Cw' & _ & _ & _). cbn [hbind].
  destruct (hs_clone_ok h1 _ (hw_slru s) la lb Hf1 (or_intror (or_introl eq_refl)) (or_intror (or_intror (or_introl eq_refl))) La Lb)
    as (h2 & m & la' & lb' & -> & Hf2 & Ea' & Eb' & Ca' & Cb' & _). cbn [hbind].
  set (A' := (hprob m, la')) in *. set (B' := (hprot m, lb')) in *. set (W' := (qw, lw')) in *.
  unfold hw_drop, hs_drop.
  destruct (fam_drop_perm h2 _ (hw_lru s) lw (B' :: A' :: W' :: A :: B :: Fx) Hf2) as (h3 & -> & Hf3 & _).
  { apply Permutation_sym. exact (Permutation_middle [B'; A'; W'; A; B] Fx W). }
  cbn [hbind].
  destruct (fam_drop_perm h3 _ (hprob (hw_slru s)) la (B' :: A' :: W' :: B :: Fx) Hf3) as (h4 & -> & Hf4 & _).
  { apply Permutation_sym. exact (Permutation_middle [B'; A'; W'] (B :: Fx) A). }
  cbn [hbind].
  destruct (fam_drop_perm h4 _ (hprot (hw_slru s)) lb (B' :: A' :: W' :: Fx) Hf4) as (h5 & -> & Hf5 & _).
  { apply Permutation_sym. exact (Permutation_middle [B'; A'; W'] Fx B). }
  cbn [hbind]. do 2 eexists. split; [reflexivity|].
  unfold RWx, hw_with. cbn [hw_tiny hw_kh hw_lru hw_slru]. split; [exact Et|]. split; [exact Ek|].
  exists lw'. split.
  - exists la', lb'. split; [exact (fam_perm _ _ _ _ Hf5 (perm_swap _ _ _))|]. repeat split; congruence.
  - split; congruence.
Qed.

Definition lw_step (s : wtiny) (o : wop) : res (wtiny * hout) :=
  match o with
  | WPut k v => do (s1, r) <- wput s k v; Ok (s1, OPut r)
  | WGetMut k w => do (s1, r) <- wget_mut s k w; Ok (s1, OVal r)
  | WPeek k => Ok (s, OVal (wpeek s k))
  | WPeekMut k w => Ok (fst (wpeek_mut s k w), OVal (snd (wpeek_mut s k w)))
  | WContains k => Ok (s, OBool (wcontains s k))
  | WRemove k => Ok (fst (wremove s k), OVal (snd (wremove s k)))
  | WPurge => Ok (wpurge s, OUnit)
  | WClone => Ok (wclone s, OUnit)
  end.

Theorem wtiny_step_refines h s ls o :
  RWx h s ls -> wt_inv ls ->
  exists h' s' ls' r, hw_step h s o = HOk (h', s', r) /\ lw_step ls o = Ok (ls', r) /\ RWx h' s' ls' /\ wt_inv ls'.
Proof.
  intros HR Hinv. pose proof Hinv as (_ & _ & _ & Hm & _). destruct o as [k v|k w|k|k w|k|k| |]; cbn [hw_step lw_step].
  - destruct (wput_ok ls k v Hinv) as (ls' & r & E & Hinv' & _).
    destruct (hw_put_refines h s ls k v ls' r HR Hm E) as (h' & s' & -> & HR'). rewrite E. cbn [hbind bind]. eauto 10.
  - destruct (wget_mut_ok ls k w Hinv) as (ls' & r & E & Hinv' & _).
    destruct (hw_get_mut_refines h s ls k w ls' r HR Hm E) as (h' & s' & -> & HR'). rewrite E. cbn [hbind bind]. eauto 10.
  - rewrite (hw_peek_refines h s ls k HR). cbn [hbind]. eauto 10.
  - destruct (hw_peek_mut_refines h s ls k w HR) as (h' & -> & HR'). cbn [hbind].
    destruct (wpeek_mut_ok ls k w Hinv) as (Hinv2 & _). eauto 10.
  - rewrite (hw_contains_refines h s ls k HR). cbn [hbind]. eauto 10.
  - destruct (hw_remove_refines h s ls k HR) as (h' & s' & -> & HR'). cbn [hbind].
    destruct (wremove_ok ls k Hinv) as (Hinv2 & _). eauto 10.
  - destruct (hw_purge_refines h s ls HR) as (h' & s' & -> & HR'). cbn [hbind].
    destruct (wpurge_ok ls Hinv) as (Hinv2 & _). eauto 10.
  - destruct (hw_clone_refines h s ls HR Hinv) as (h' & s' & -> & HR'). cbn [hbind].
    rewrite (RW_wclone h s ls HR Hinv) in *. eauto 10.
Qed.

Fixpoint lw_run (s : wtiny) (os : list wop) : res (wtiny * list hout) :=
  match os with
  | [] => Ok (s, [])
  | o :: rest => do (s1, r) <- lw_step s o; do (s2, rs) <- lw_run s1 rest; Ok (s2, r :: rs)
  end.

Lemma wtiny_run_refines : forall os h s ls, RWx h s ls -> wt_inv ls ->
            exists h1 s1 ls1 outs, hw_run h s os = HOk (h1, s1, outs) /\ lw_run ls os = Ok (ls1, outs) /\ RWx h1 s1 ls1.
Proof.
 induction os as [|o rest IH]; intros h s ls HR Hinv; [cbn; eauto 10|].
    cbn [hw_run lw_run].
    destruct (wtiny_step_refines h s ls o HR Hinv) as (h1 & s1 & ls1 & r & -> & -> & HR1 & Hinv1). cbn [hbind bind].
    destruct (IH h1 s1 ls1 HR1 Hinv1) as (h2 & s2 & ls2 & outs & -> & -> & HR2). cbn [hbind bind]. eauto 10.
Qed.

End WithOtherLists.

(** ** independence of a clone (C16): after [hw_clone] clone and original stand side by side in the heap; whatever
    history the clone goes through, the original is the same abstract cache on the same nodes *)
Theorem wtiny_clone_independent Fx h s ls os :
  RWx Fx h s ls -> wt_inv ls ->
  exists h1 s1, hw_clone h s = HOk (h1, s1) /\
  exists h2 s1' ls1 outs, hw_run h1 s1 os = HOk (h2, s1', outs) /\ lw_run ls os = Ok (ls1, outs) /\
  exists la' lb' lw', RWx ((hprob (hw_slru s1'), la') :: (hprot (hw_slru s1'), lb') :: (hw_lru s1', lw') :: Fx) h2 s ls.
Proof.
  intros HR Hinv. pose proof HR as (Et & Ek & lw & (la & lb & Hf & Ea & Eb & Ca & Cb) & (Elw & Clw)).
  pose proof Hinv as (_ & _ & Hlw & (_ & _ & Hla & Hlb & _) & _).
  assert (Lw : length lw <= hcap (hw_lru s)) by (rewrite Clw, <- entries_len, Elw; exact Hlw).
  assert (La : length la <= hcap (hprob (hw_slru s))) by (rewrite Ca, <- entries_len, Ea; exact Hla).
  assert (Lb : length lb <= hcap (hprot (hw_slru s))) by (rewrite Cb, <- entries_len, Eb; exact Hlb).
  set (A := (hprob (hw_slru s), la)) in *. set (B := (hprot (hw_slru s), lb)) in *. set (W := (hw_lru s, lw)) in *.
  unfold hw_clone.
  destruct (h_clone_in h _ (hw_lru s) lw Hf (or_intror (or_intror (or_introl eq_refl))) Lw)
    as (h1 & qw & lw1 & -> & Hf1 & Ew1 & Cw1 & _ & _ & _). cbn [hbind].
  destruct (hs_clone_ok h1 _ (hw_slru s) la lb Hf1 (or_intror (or_introl eq_refl)) (or_intror (or_intror (or_introl eq_refl))) La Lb)
    as (h2 & m & la1 & lb1 & -> & Hf2 & Ea1 & Eb1 & Ca1 & Cb1 & _). cbn [hbind].
  do 2 eexists. split; [reflexivity|].
  set (s1 := hw_with s (hw_tiny s) qw m).
  assert (HR1 : RWx (A :: B :: W :: Fx) h2 s1 ls).
  { subst s1. unfold RWx, hw_with. cbn [hw_tiny hw_kh hw_lru hw_slru]. split; [exact Et|]. split; [exact Ek|].
    exists lw1. split; [|split; congruence].
    exists la1, lb1. split; [|repeat split; congruence].
    eapply fam_perm; [exact Hf2|].
    (* B' :: A' :: W' :: rest  ~  A' :: B' :: W' :: rest *)
    apply perm_swap. }
  destruct (wtiny_run_refines (A :: B :: W :: Fx) os h2 s1 ls HR1 Hinv) as (h3 & s1' & ls1 & outs & E1 & E2 & HR1').
  exists h3, s1', ls1, outs. split; [exact E1|]. split; [exact E2|].
  destruct HR1' as (_ & _ & lw' & (la' & lb' & Hf3 & _) & _).
  exists la', lb', lw'. unfold RWx. split; [exact Et|]. split; [exact Ek|].
  exists lw. split; [|split; assumption].
  exists la, lb. split; [|repeat split; assumption].
  eapply fam_perm; [exact Hf3|].
  set (A' := (hprob (hw_slru s1'), la')). set (B' := (hprot (hw_slru s1'), lb')). set (W' := (hw_lru s1', lw')).
  change (Permutation ([A'; B'; W'] ++ [A; B; W] ++ Fx) ([A; B; W] ++ [A'; B'; W'] ++ Fx)).
  rewrite !app_assoc. apply Permutation_app_tail. apply Permutation_app_comm.
Qed.

(** the cache alone in its heap *)
Notation RW := (RWx []).

(** ** new, Drop, histories *)
Theorem hw_new_refines t kh wc pc fc :
  RW (fst (hw_new heap0 t kh wc pc fc)) (snd (hw_new heap0 t kh wc pc fc))
     (mkWTiny t (lru_new wc false) (slru_new pc fc) kh).
Proof.
  unfold hw_new, hs_new.
  destruct (fam_new heap0 [] pc fam_empty) as (F1 & C1 & _).
  destruct (hnew heap0 pc) as [h1 qa]. cbn [fst snd] in *.
  destruct (fam_new h1 [(qa, [])] fc F1) as (F2 & C2 & _).
  destruct (hnew h1 fc) as [h2 qb]. cbn [fst snd] in *.
  destruct (fam_new h2 [(qb, []); (qa, [])] wc F2) as (F3 & C3 & _).
  destruct (hnew h2 wc) as [h3 qw]. cbn [fst snd] in *.
  apply (rw_close []) with (la := []) (lb := []) (lw := []); cbn [hprob hprot prob prot slru_new lru_new]; auto;
    try (split; [reflexivity|cbn; congruence]).
  destruct F3 as [Hwf Hnd Hfl Htight]. constructor.
  - intros q l [E|[E|[E|[]]]]; apply Hwf; [right; right; now left|right; now left|now left].
  - eapply Permutation_NoDup; [|exact Hnd]. cbn [flat_map fp fst snd addrs map app].
    change [hhead qw; htail qw; hhead qb; htail qb; hhead qa; htail qa]
      with ([hhead qw; htail qw] ++ [hhead qb; htail qb] ++ [hhead qa; htail qa]).
    change [hhead qa; htail qa; hhead qb; htail qb; hhead qw; htail qw]
      with ([hhead qa; htail qa] ++ [hhead qb; htail qb] ++ [hhead qw; htail qw]).
    rewrite (app_assoc [hhead qw; htail qw]).
    etransitivity; [apply Permutation_app_comm|]. apply Permutation_app_head. apply Permutation_app_comm.
  - exact Hfl.
  - intros a Ha. apply Htight. intros Hc. apply Ha. cbn [flat_map fp fst snd addrs map app In] in *. tauto.
Qed.

Theorem hw_drop_ok h s ls : RW h s ls -> exists h', hw_drop h s = HOk h' /\ forall a, cells h' a = Free.
Proof.
  intros HR. destruct (rw_open [] h s ls HR) as (la & lb & lw & Hf & _).
  unfold hw_drop, hs_drop.
  destruct (fam_drop h [(hprob (hw_slru s), la); (hprot (hw_slru s), lb)] (hw_lru s) lw [] Hf) as (h1 & -> & Hf1 & _).
  cbn [hbind app] in *.
  destruct (fam_drop h1 [] (hprob (hw_slru s)) la [(hprot (hw_slru s), lb)] Hf1) as (h2 & -> & Hf2 & _). cbn [hbind app] in *.
  destruct (fam_drop h2 [] (hprot (hw_slru s)) lb [] Hf2) as (h3 & -> & Hf3 & _). cbn [app] in *.
  exists h3. split; [reflexivity|]. intros a. apply (fam_tight _ _ _ Hf3). intros [].
Qed.

Theorem wtiny_history_safe t kh wc pc fc os :
  wt_inv (mkWTiny t (lru_new wc false) (slru_new pc fc) kh) ->
  exists h s ls outs h',
    hw_run (fst (hw_new heap0 t kh wc pc fc)) (snd (hw_new heap0 t kh wc pc fc)) os = HOk (h, s, outs) /\
    lw_run (mkWTiny t (lru_new wc false) (slru_new pc fc) kh) os = Ok (ls, outs) /\ RW h s ls /\
    hw_drop h s = HOk h' /\ (forall a, cells h' a = Free).
Proof.
  intros Hinv0.
  pose proof (wtiny_run_refines []) as G.
  destruct (G os _ _ _ (hw_new_refines t kh wc pc fc) Hinv0) as (h & s & ls & outs & E1 & E2 & HR).
  destruct (hw_drop_ok h s ls HR) as (h' & Ed & Hall).
  exists h, s, ls, outs, h'. auto.
Qed.
