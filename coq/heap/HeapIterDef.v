(** * Layer H — definitions of the iterators of raw.rs and of [Clone for RawLRU] on the heap
    (theorems: HeapIter.v, HeapClone.v). *)
From VF Require Import Base Iter Heap.
From Coq Require Import List Arith.
Import ListNotations.
Local Open Scope nat_scope.

(** [len], the cursor that walks [next] from the head side, the cursor that walks [prev] from the tail side *)
Record hiter := mkHiter { hi_len : nat; hi_front : addr; hi_back : addr }.

(** [iter()] and friends: [len = map.len()], the cursors at [head.next] and [tail.prev] *)
Definition h_iter (h : heap) (q : hlru) : hres hiter :=
  hdo (_, _, _, f) <- hread h (hhead q);
  hdo (_, _, b, _) <- hread h (htail q);
  HOk (mkHiter (length (hidx q)) f b).

(** one [next] / [next_back]: which cursor it uses depends on the iterator family ([from_head]);
    a mutable iterator's caller may store [w] through the reference; the node's address is returned
    as well (it is what the reference points into) *)
Definition h_it_take (h : heap) (it : hiter) (from_head : bool) (w : option val)
  : hres (heap * hiter * option (addr * entry)) :=
  if Nat.eqb (hi_len it) 0 then HOk (h, it, None)
  else
    let a := if from_head then hi_front it else hi_back it in
    hdo (ok, ov, p, n) <- hread h a;
    match ok, ov with
    | Some k, Some v =>
      let h' := match w with Some w => hupd h a (Node ok (Some w) p n) | None => h end in
      let it' := if from_head then mkHiter (hi_len it - 1) n (hi_back it) else mkHiter (hi_len it - 1) (hi_front it) p in
      HOk (h', it', Some (a, (k, v)))
    | _, _ => HErr EUninit
    end.

(** a whole script of [next] / [next_back] calls *)
Fixpoint h_it_run (h : heap) (it : hiter) (lru_order : bool) (rs : list req)
  : hres (heap * hiter * list (option entry * nat) * list addr) :=
  match rs with
  | [] => HOk (h, it, [], [])
  | (d, w) :: rs' =>
    hdo (h1, it1, y) <- h_it_take h it (from_head lru_order d) w;
    hdo (h2, it2, ys, ads) <- h_it_run h1 it1 lru_order rs';
    HOk (h2, it2, (option_map snd y, hi_len it1) :: ys, match y with Some (a, _) => a :: ads | None => ads end)
  end.


(** the whole iterator script of the harness on one list (Iter.iter_script at layer L): [pre] on a fresh
    iterator, then a clone of the iterator is taken (the cloneable kinds); [pa] continues on the original,
    [pb] on the clone *)
Definition it_strip (kd : iter_kind) (r : req) : req := if ik_mut kd then r else (fst r, None).
Definition it_ro (r : req) : req := (fst r, None).

Definition h_iter_script (h : heap) (q : hlru) (kd : iter_kind) (pre pa pb : list req)
  : hres (heap * (list (option entry * nat) * list (option entry * nat) * list (option entry * nat))) :=
  hdo it0 <- h_iter h q;
  hdo (h1, it1, y0, a0) <- h_it_run h it0 (ik_lru kd) (map (it_strip kd) pre);
  hdo (h2, it2, ya, aa) <- h_it_run h1 it1 (ik_lru kd) (map (it_strip kd) pa);
  hdo (h3, it3, yb, ab) <- h_it_run h2 it1 (ik_lru kd) (map it_ro pb);
  HOk (h3, (y0, ya, yb)).

(** ** [Clone for RawLRU]: a new pair of sentinels, then one [put] per entry read through the [iter_lru]
    cursor of the original, least recent first *)
Fixpoint h_clone_loop (n : nat) (h : heap) (it : hiter) (q' : hlru) : hres (heap * hlru) :=
  match n with
  | O => HOk (h, q')
  | S n' =>
    hdo (h1, it1, y) <- h_it_take h it false None;
    match y with
    | None => HOk (h1, q')
    | Some (_, (k, v)) => hdo (h2, q2, r) <- h_put h1 q' k v; h_clone_loop n' h2 it1 q2
    end
  end.

Definition h_clone (h : heap) (q : hlru) : hres (heap * hlru) :=
  let hq := hnew h (hcap q) in
  hdo it <- h_iter (fst hq) q;
  h_clone_loop (hi_len it) (fst hq) it (snd hq).

(** [clone] followed by the drop of the original (what [x = x.clone()] does) *)
Definition h_clone_replace (h : heap) (q : hlru) : hres (heap * hlru) :=
  hdo (h1, q') <- h_clone h q;
  hdo h2 <- h_drop h1 q;
  HOk (h2, q').
