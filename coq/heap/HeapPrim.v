(** * Layer H — the crate-internal primitives of RawLRU that the composite caches are built from
    ([remove_and_return_ent], [remove_lru_in], [put_or_evict_nonnull], [put_nonnull], [update]):
    nodes leave a list without being freed and enter another one.  Each theorem has a frame clause,
    so that it composes over several lists in one heap (HeapMulti.v). *)
From VF Require Import Base Lru BaseFacts LruFacts Heap HeapFacts HeapOps.
From Coq Require Import List Arith Lia Permutation.
Import ListNotations.
Local Open Scope nat_scope.

(** a node that is in no list: allocated, initialised *)
Definition inflight (h : heap) (n : addr) (k : key) (v : val) : Prop :=
  n < fresh h /\ exists p x, cells h n = Node (Some k) (Some v) p x.

Theorem h_remove_ent_hit h q l1 a k v l2 :
  wf h q (l1 ++ (a, (k, v)) :: l2) ->
  exists h' q', h_remove_ent h q k = HOk (h', q', Some a) /\ wf h' q' (l1 ++ l2) /\ inflight h' a k v /\
                hhead q' = hhead q /\ htail q' = htail q /\ hcap q' = hcap q /\ fresh h' = fresh h /\
                (forall x, outside q (l1 ++ (a, (k, v)) :: l2) x -> cells h' x = cells h x).
Proof.
  intros Hwf. pose proof Hwf as (Hc & Hi & Hnd).
  unfold h_remove_ent. destruct (idx_remove_hit h q l1 a k v l2 Hwf) as [-> Hi1]. cbn [hbind].
  destruct (detach_chain h q l1 a (k, v) l2 Hc) as (h1 & -> & Hc1 & Ea & Ef1 & Hfr1). cbn [hbind].
  pose proof (seg_mid _ _ _ _ _ _ _ _ (ch_seg _ _ _ Hc)) as Ecell. rewrite <- Ea in Ecell.
  do 2 eexists. split; [reflexivity|].
  split; [|split; [|split; [reflexivity|split; [reflexivity|split; [reflexivity|split; [exact Ef1|]]]]]].
  - split; [eapply chain_descr; [| |exact Hc1]; reflexivity|]. split; [exact Hi1|]. eapply keys_remove_mid; eauto.
  - split; [|eauto]. rewrite Ef1. apply (ch_fresh _ _ _ Hc). right. right. rewrite addrs_app. apply in_or_app. right. now left.
  - intros x Hx. apply outside_split in Hx. destruct Hx as (X1 & X2 & X3 & X4). now apply Hfr1.
Qed.

Theorem h_remove_ent_miss h q l k :
  wf h q l -> Base.find k (entries l) = None -> h_remove_ent h q k = HOk (h, q, None).
Proof.
  intros Hwf Hf. unfold h_remove_ent, idx_remove. now rewrite (idx_find_miss h q l k Hwf Hf).
Qed.

Theorem h_remove_lru_in_some h q l a k v :
  wf h q (l ++ [(a, (k, v))]) ->
  exists h' q', h_remove_lru_in h q = HOk (h', q', Some a) /\ wf h' q' l /\ inflight h' a k v /\
                hhead q' = hhead q /\ htail q' = htail q /\ hcap q' = hcap q /\ fresh h' = fresh h /\
                (forall x, outside q (l ++ [(a, (k, v))]) x -> cells h' x = cells h x).
Proof.
  intros Hwf. pose proof Hwf as (Hc & Hi & Hnd).
  unfold h_remove_lru_in. rewrite (tail_prev_last h q l a (k, v) Hc). cbn [hbind].
  pose proof (ch_nodup _ _ _ Hc) as Hnd0. rewrite addrs_app in Hnd0. cbn [addrs map fst] in Hnd0.
  destruct (nodup_split_facts _ _ _ _ _ Hnd0) as (Hht & Hha & _).
  destruct (Nat.eqb_spec a (hhead q)); [congruence|].
  rewrite (key_at_chain h q _ a k v Hc) by (apply in_or_app; right; now left). cbn [hbind].
  destruct (idx_remove_hit h q l a k v [] Hwf) as [-> Hi1]. cbn [hbind]. rewrite app_nil_r in Hi1.
  destruct (detach_chain h q l a (k, v) [] Hc) as (h1 & -> & Hc1 & Ea & Ef1 & Hfr1). cbn [hbind].
  rewrite app_nil_r in Hc1, Hfr1.
  pose proof (seg_mid _ _ _ _ _ _ _ _ (ch_seg _ _ _ Hc)) as Ecell. rewrite <- Ea in Ecell.
  do 2 eexists. split; [reflexivity|].
  split; [|split; [|split; [reflexivity|split; [reflexivity|split; [reflexivity|split; [exact Ef1|]]]]]].
  - split; [eapply chain_descr; [| |exact Hc1]; reflexivity|]. split; [exact Hi1|].
    rewrite <- (app_nil_r l). eapply keys_remove_mid; eauto.
  - split; [|eauto]. rewrite Ef1. apply (ch_fresh _ _ _ Hc). right. right. rewrite addrs_app. apply in_or_app. right. now left.
  - intros x Hx. apply outside_split in Hx. destruct Hx as (X1 & X2 & X3 & X4). rewrite app_nil_r in X4. now apply Hfr1.
Qed.

Theorem h_remove_lru_in_none h q : wf h q [] -> h_remove_lru_in h q = HOk (h, q, None).
Proof.
  intros (Hc & _). unfold h_remove_lru_in. rewrite (tail_prev_empty h q Hc). cbn [hbind]. now rewrite Nat.eqb_refl.
Qed.

(** attaching an in-flight node at the front of a list that has room *)
Lemma attach_inflight h q l n k v :
  wf h q l -> ~ In n (hhead q :: htail q :: addrs l) -> inflight h n k v -> Base.find k (entries l) = None ->
  exists h', attach h q n = HOk h' /\ wf h' (idx_insert q n) ((n, (k, v)) :: l) /\ fresh h' = fresh h /\
             (forall x, outside q l x -> x <> n -> cells h' x = cells h x).
Proof.
  intros (Hc & Hi & Hnd) Hn (Hlt & p & x & Ecell) Hf.
  destruct (attach_chain h q l n k v _ _ Hc Hn Hlt Ecell) as (h' & E & Hc' & Ef & Hfr).
  exists h'. split; [exact E|]. split; [|split; [exact Ef|]].
  - split; [eapply chain_descr; [| |exact Hc']; reflexivity|].
    split; [now apply idx_ok_insert|now apply keys_cons_nodup].
  - intros y (Y1 & Y2 & Y3) Y4. now apply Hfr.
Qed.

Theorem h_put_or_evict_room h q l n k v :
  wf h q l -> ~ In n (hhead q :: htail q :: addrs l) -> inflight h n k v -> Base.find k (entries l) = None ->
  length l < hcap q ->
  exists h' q', h_put_or_evict_nonnull h q n = HOk (h', q', None) /\ wf h' q' ((n, (k, v)) :: l) /\
                hhead q' = hhead q /\ htail q' = htail q /\ hcap q' = hcap q /\ fresh h' = fresh h /\
                (forall x, outside q l x -> x <> n -> cells h' x = cells h x).
Proof.
  intros Hwf Hn Hfl Hf Hlen. unfold h_put_or_evict_nonnull.
  rewrite (idx_len q l (proj1 (proj2 Hwf))). destruct (Nat.leb_spec (hcap q) (length l)); [lia|].
  destruct (attach_inflight h q l n k v Hwf Hn Hfl Hf) as (h' & -> & Hwf' & Ef & Hfr). cbn [hbind].
  do 2 eexists. split; [reflexivity|]. split; [exact Hwf'|]. repeat split; auto.
Qed.

(** ... and of a full one: the least recently used node is unlinked and handed back, still allocated *)
Theorem h_put_or_evict_full h q l a ek ev n k v :
  wf h q (l ++ [(a, (ek, ev))]) -> ~ In n (hhead q :: htail q :: addrs (l ++ [(a, (ek, ev))])) ->
  inflight h n k v -> Base.find k (entries (l ++ [(a, (ek, ev))])) = None ->
  hcap q <= length (l ++ [(a, (ek, ev))]) ->
  exists h' q', h_put_or_evict_nonnull h q n = HOk (h', q', Some a) /\ wf h' q' ((n, (k, v)) :: l) /\
                inflight h' a ek ev /\
                hhead q' = hhead q /\ htail q' = htail q /\ hcap q' = hcap q /\ fresh h' = fresh h /\
                (forall x, outside q (l ++ [(a, (ek, ev))]) x -> x <> n -> cells h' x = cells h x).
Proof.
  intros Hwf Hn Hfl Hf Hlen. pose proof Hwf as (Hc & Hi & Hnd). unfold h_put_or_evict_nonnull.
  rewrite (idx_len q _ Hi). destruct (Nat.leb_spec (hcap q) (length (l ++ [(a, (ek, ev))]))); [|lia].
  rewrite (tail_prev_last h q l a (ek, ev) Hc). cbn [hbind].
  rewrite (key_at_chain h q _ a ek ev Hc) by (apply in_or_app; right; now left). cbn [hbind].
  destruct (idx_remove_hit h q l a ek ev [] Hwf) as [-> Hi1]. cbn [hbind]. rewrite app_nil_r in Hi1.
  destruct (detach_chain h q l a (ek, ev) [] Hc) as (h1 & -> & Hc1 & Ea & Ef1 & Hfr1). cbn [hbind].
  rewrite app_nil_r in Hc1, Hfr1.
  pose proof (seg_mid _ _ _ _ _ _ _ _ (ch_seg _ _ _ Hc)) as Ecell. rewrite <- Ea in Ecell.
  set (q1 := with_idx q (idx_remove_node (hidx q) a)) in *.
  assert (Hwf1 : wf h1 q1 l).
  { split; [eapply chain_descr; [| |exact Hc1]; reflexivity|]. split; [exact Hi1|].
    rewrite <- (app_nil_r l). eapply keys_remove_mid; eauto. }
  assert (Hn1 : ~ In n (hhead q1 :: htail q1 :: addrs l)).
  { intros Hin. apply Hn. cbn [In] in *. rewrite addrs_app, in_app_iff. subst q1. cbn [hhead htail with_idx] in Hin. tauto. }
  assert (Hna : n <> a).
  { intros ->. apply Hn. right. right. rewrite addrs_app. apply in_or_app. right. now left. }
  assert (Hfl1 : inflight h1 n k v).
  { destruct Hfl as (Hlt & p & x & En). split; [congruence|]. exists p, x. rewrite Hfr1; [exact En| | |].
    - intros E. apply Hn. left. auto.
    - intros E. apply Hn. right. left. auto.
    - intros Hin. apply Hn. right. right. rewrite addrs_app. apply in_or_app. now left. }
  assert (Hf1 : Base.find k (entries l) = None).
  { rewrite entries_app in Hf. apply find_none_notin in Hf. apply find_none_notin.
    intros Hin. apply Hf. rewrite keys_app. apply in_or_app. now left. }
  destruct (attach_inflight h1 q1 l n k v Hwf1 Hn1 Hfl1 Hf1) as (h2 & -> & Hwf2 & Ef2 & Hfr2). cbn [hbind].
  do 2 eexists. split; [reflexivity|]. split; [exact Hwf2|].
  split; [|split; [reflexivity|split; [reflexivity|split; [reflexivity|split; [congruence|]]]]].
  - split.
    + rewrite Ef2, Ef1. apply (ch_fresh _ _ _ Hc). right. right. rewrite addrs_app. apply in_or_app. right. now left.
    + pose proof (ch_nodup _ _ _ Hc) as Hnd0. rewrite addrs_app in Hnd0. cbn [addrs map fst] in Hnd0.
      destruct (nodup_split_facts _ _ _ _ _ Hnd0) as (Hht & Hha & Hta & Hh1 & Hh2 & Ht1 & Ht2 & Ha1 & Ha2 & _).
      do 2 eexists. rewrite Hfr2; [exact Ecell| |auto].
      subst q1. repeat split; cbn [hhead htail with_idx]; auto.
  - intros x Hx Hxn. pose proof Hx as Hx'. apply outside_split in Hx. destruct Hx as (X1 & X2 & X3 & X4). rewrite app_nil_r in X4.
    rewrite Hfr2; [now apply Hfr1| |exact Hxn]. subst q1. repeat split; cbn [hhead htail with_idx]; assumption.
Qed.
