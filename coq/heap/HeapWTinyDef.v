(** * Layer H — WTinyLFUCache (src/lfu/wtinylfu.rs) on the heap, definitions: a window RawLRU and a
    SegmentedCache in one heap; entries move between them by value through the public operations
    of the two (no raw-pointer code of its own); the TinyLFU estimator is plain data (Tiny.v). *)
From VF Require Import Base Lru Slru Tiny WTiny Heap HeapIterDef HeapSlruDef.
From Coq Require Import List Arith.
Import ListNotations.
Local Open Scope nat_scope.

Record hwtiny := mkHwtiny { hw_tiny : tinylfu; hw_kh : Z; hw_lru : hlru; hw_slru : hslru }.

Definition hw_with (s : hwtiny) (t : tinylfu) (l : hlru) (m : hslru) : hwtiny := mkHwtiny t (hw_kh s) l m.


Definition hw_new (h : heap) (t : tinylfu) (kh : Z) (wc pc fc : nat) : heap * hwtiny :=
  let '(h1, m) := hs_new h pc fc in
  let '(h2, qw) := hnew h1 wc in
  (h2, mkHwtiny t kh qw m).

(** a panic of the estimator arithmetic (C05 proves there is none) *)
Definition of_res {A} (r : res A) : hres A := match r with Ok a => HOk a | Panic _ => HErr EUnwrap end.

Definition hs_len (m : hslru) : nat := length (hidx (hprot m)) + length (hidx (hprob m)).
Definition hs_cap (m : hslru) : nat := hcap (hprot m) + hcap (hprob m).

Definition hw_admit (h : heap) (s : hwtiny) (l1 : hlru) (ck : key) (cv : val) : hres (heap * hwtiny * put_result) :=
  let m := hw_slru s in
  if Nat.ltb (hs_len m) (hs_cap m) then
    hdo (h1, m', r) <- hs_put h m ck cv; HOk (h1, hw_with s (hw_tiny s) l1 m', r)
  else
    hdo (_, o) <- h_peek_lru h (hprob m) None;
    match o with
    | None => hdo (h1, m', r) <- hs_put h m ck cv; HOk (h1, hw_with s (hw_tiny s) l1 m', r)
    | Some (vk, _) =>
      hdo lt <- of_res (tl_lt (hw_tiny s) (key_hash (hw_kh s) ck) (key_hash (hw_kh s) vk));
      if lt then HOk (h, hw_with s (hw_tiny s) l1 m, PEvicted ck cv)
      else hdo (h1, m', r) <- hs_put h m ck cv; HOk (h1, hw_with s (hw_tiny s) l1 m', r)
    end.

Definition hw_put (h : heap) (s : hwtiny) (k : key) (v : val) : hres (heap * hwtiny * put_result) :=
  hdo (h1, l1, r) <- h_remove h (hw_lru s) k;
  match r with
  | Some old =>
    let m := hw_slru s in
    hdo (h2, l2, m1) <-
      (if Nat.leb (hcap (hprot m)) (length (hidx (hprot m))) then
         hdo (h', p', o) <- h_remove_lru h1 (hprot m);
         match o with
         | Some (ek, ev) => hdo (h'', l2, _) <- h_put h' l1 ek ev; HOk (h'', l2, mkHslru (hprob m) p')
         | None => HErr EUnwrap
         end
       else HOk (h1, l1, m));
    hdo (h3, m2, _) <- hs_put_protected h2 m1 k v;
    HOk (h3, hw_with s (hw_tiny s) l2 m2, PUpdate old)
  | None =>
    hdo c <- hs_contains h1 (hw_slru s) k;
    if c then hdo (h2, m', r2) <- hs_put h1 (hw_slru s) k v; HOk (h2, hw_with s (hw_tiny s) l1 m', r2)
    else
      hdo (h2, l2, r2) <- h_put h1 l1 k v;
      match r2 with
      | PPut => HOk (h2, hw_with s (hw_tiny s) l2 (hw_slru s), PPut)
      | PUpdate o => HOk (h2, hw_with s (hw_tiny s) l2 (hw_slru s), PUpdate o)
      | PEvicted ck cv => hw_admit h2 s l2 ck cv
      | PEvictedAndUpdate _ _ _ => HOk (h2, hw_with s (hw_tiny s) l2 (hw_slru s), PPut)
      end
  end.

Definition hw_get_mut (h : heap) (s : hwtiny) (k : key) (w : option val) : hres (heap * hwtiny * option val) :=
  hdo t' <- of_res (tl_increment (tl_try_reset (hw_tiny s)) (key_hash (hw_kh s) k));
  hdo (h1, r) <- h_get_mut h (hw_lru s) k w;
  match r with
  | Some v => HOk (h1, hw_with s t' (hw_lru s) (hw_slru s), Some v)
  | None => hdo (h2, m', r2) <- hs_get_mut h1 (hw_slru s) k w; HOk (h2, hw_with s t' (hw_lru s) m', r2)
  end.

Definition hw_peek (h : heap) (s : hwtiny) (k : key) : hres (option val) :=
  hdo r <- h_peek h (hw_lru s) k;
  match r with Some v => HOk (Some v) | None => hs_peek h (hw_slru s) k end.

Definition hw_peek_mut (h : heap) (s : hwtiny) (k : key) (w : option val) : hres (heap * option val) :=
  hdo (h1, r) <- h_peek_mut h (hw_lru s) k w;
  match r with Some v => HOk (h1, Some v) | None => hs_peek_mut h1 (hw_slru s) k w end.

Definition hw_contains (h : heap) (s : hwtiny) (k : key) : hres bool :=
  hdo a <- h_contains h (hw_lru s) k;
  if a then HOk true else hs_contains h (hw_slru s) k.

Definition hw_remove (h : heap) (s : hwtiny) (k : key) : hres (heap * hwtiny * option val) :=
  hdo (h1, l1, r) <- h_remove h (hw_lru s) k;
  match r with
  | Some v => HOk (h1, hw_with s (hw_tiny s) l1 (hw_slru s), Some v)
  | None => hdo (h2, m', r2) <- hs_remove h1 (hw_slru s) k; HOk (h2, hw_with s (hw_tiny s) l1 m', r2)
  end.

Definition hw_purge (h : heap) (s : hwtiny) : hres (heap * hwtiny) :=
  hdo (h1, l1) <- h_purge h (hw_lru s);
  hdo (h2, m') <- hs_purge h1 (hw_slru s);
  HOk (h2, hw_with s (tl_clear (hw_tiny s)) l1 m').

Definition hw_drop (h : heap) (s : hwtiny) : hres heap :=
  hdo h1 <- h_drop h (hw_lru s); hs_drop h1 (hw_slru s).

(** [Clone for WTinyLFUCache]: the estimator (a value), the window, the main cache; then the original is dropped *)
Definition hw_clone (h : heap) (s : hwtiny) : hres (heap * hwtiny) :=
  hdo (h1, qw) <- h_clone h (hw_lru s);
  hdo (h2, m) <- hs_clone h1 (hw_slru s);
  HOk (h2, hw_with s (hw_tiny s) qw m).

Definition hw_clone_replace (h : heap) (s : hwtiny) : hres (heap * hwtiny) :=
  hdo (h2, s') <- hw_clone h s;
  hdo h3 <- hw_drop h2 s;
  HOk (h3, s').

Inductive wop :=
| WPut (k : key) (v : val) | WGetMut (k : key) (w : option val) | WPeek (k : key)
| WPeekMut (k : key) (w : option val) | WContains (k : key) | WRemove (k : key) | WPurge | WClone.

Definition hw_step (h : heap) (s : hwtiny) (o : wop) : hres (heap * hwtiny * hout) :=
  match o with
  | WPut k v => hdo (h1, s1, r) <- hw_put h s k v; HOk (h1, s1, OPut r)
  | WGetMut k w => hdo (h1, s1, r) <- hw_get_mut h s k w; HOk (h1, s1, OVal r)
  | WPeek k => hdo r <- hw_peek h s k; HOk (h, s, OVal r)
  | WPeekMut k w => hdo (h1, r) <- hw_peek_mut h s k w; HOk (h1, s, OVal r)
  | WContains k => hdo b <- hw_contains h s k; HOk (h, s, OBool b)
  | WRemove k => hdo (h1, s1, r) <- hw_remove h s k; HOk (h1, s1, OVal r)
  | WPurge => hdo (h1, s1) <- hw_purge h s; HOk (h1, s1, OUnit)
  | WClone => hdo (h1, s1) <- hw_clone_replace h s; HOk (h1, s1, OUnit)
  end.

Fixpoint hw_run (h : heap) (s : hwtiny) (os : list wop) : hres (heap * hwtiny * list hout) :=
  match os with
  | [] => HOk (h, s, [])
  | o :: rest =>
    hdo (h1, s1, r) <- hw_step h s o;
    hdo (h2, s2, rs) <- hw_run h1 s1 rest;
    HOk (h2, s2, r :: rs)
  end.
