(** * Layer F — the heap-level composite caches of C03 ARE programs over the primitives.

    [hs_step] (HeapSlruDef.v, tied to src/lru/segmented.rs at node identity by the kind-11 runs) is
    written over the heap-level primitives; here each of its operations is shown to be the run, with no
    fuse, of a program of [gop]s on the two lists — the program being chosen as the code chooses its
    branches.  With a fuse the same program is what the operation does up to the panic, and
    [gprog_safe] (FaultFamily.v) covers it: [slru_step_panic_safe]. *)
From VF Require Import Base Lru BaseFacts LruFacts Heap HeapFacts HeapOps HeapRun HeapPrim HeapFrame HeapMulti
  HeapIterDef HeapSlruDef Fault FaultFacts FaultErase FaultPrim FaultNone FaultFamily.
From Coq Require Import List Arith Lia Permutation.
Import ListNotations.
Local Open Scope nat_scope.

(** ** one action with no fuse *)
Lemma g_pub h qs fl i q o h' q' out :
  nth_error qs i = Some q -> hstep h q o = HOk (h', q', out) ->
  gstep None (mkG h qs fl) (GPub i o) = GOk None (mkG h' (set_nth i q' qs) fl).
Proof. intros En E. cbn [gstep gh gls gfl]. rewrite En, (fstep_erase _ _ _ _ _ _ E). reflexivity. Qed.

Lemma g_remove_ent h qs fl i q k h' q' r :
  nth_error qs i = Some q -> h_remove_ent h q k = HOk (h', q', r) ->
  gstep None (mkG h qs fl) (GRemoveEnt i k) =
  GOk None (mkG h' (set_nth i q' qs) (match r with Some n => n :: fl | None => fl end)).
Proof. intros En E. cbn [gstep gh gls gfl]. rewrite En, (f_remove_ent_erase _ _ _ _ E). reflexivity. Qed.

Lemma g_remove_lru_in h qs fl i q h' q' r :
  nth_error qs i = Some q -> h_remove_lru_in h q = HOk (h', q', r) ->
  gstep None (mkG h qs fl) (GRemoveLruIn i) =
  GOk None (mkG h' (set_nth i q' qs) (match r with Some n => n :: fl | None => fl end)).
Proof. intros En E. cbn [gstep gh gls gfl]. rewrite En, (f_remove_lru_in_erase _ _ _ E). reflexivity. Qed.

Lemma g_put_or_evict h qs fl i b q n h' q' r :
  nth_error qs i = Some q -> nth_error fl b = Some n -> h_put_or_evict_nonnull h q n = HOk (h', q', r) ->
  gstep None (mkG h qs fl) (GPutOrEvict i b) =
  GOk None (mkG h' (set_nth i q' qs) (match r with Some old => old :: del_nth b fl | None => del_nth b fl end)).
Proof. intros En Eb E. cbn [gstep gh gls gfl]. rewrite En, Eb, (f_put_or_evict_erase _ _ _ _ E). reflexivity. Qed.

Lemma g_put_nonnull h qs fl i b q n h' q' r :
  nth_error qs i = Some q -> nth_error fl b = Some n -> h_put_nonnull h q n = HOk (h', q', r) ->
  gstep None (mkG h qs fl) (GPutNonnull i b) = GOk None (mkG h' (set_nth i q' qs) (del_nth b fl)).
Proof. intros En Eb E. cbn [gstep gh gls gfl]. rewrite En, Eb, (f_put_nonnull_erase _ _ _ _ E). reflexivity. Qed.

Lemma g_update_key h qs fl i q k v n h' old :
  nth_error qs i = Some q -> idx_find h (hidx q) k = HOk (Some n) -> h_update h q n v = HOk (h', old) ->
  gstep None (mkG h qs fl) (GUpdateKey i k v) = GOk None (mkG h' qs fl).
Proof.
  intros En Ef E. cbn [gstep gh gls gfl]. rewrite En. unfold f_update_key.
  rewrite (f_find_erase _ _ _ _ Ef). cbn [fbind]. rewrite E. reflexivity.
Qed.

Lemma g_swap h qs fl b n v h' old :
  nth_error fl b = Some n -> h_swap_value h n v = HOk (h', old) ->
  gstep None (mkG h qs fl) (GSwap b v) = GOk None (mkG h' qs fl).
Proof. intros Eb E. cbn [gstep gh gls gfl]. rewrite Eb, E. reflexivity. Qed.

Lemma g_write_node h qs fl i q n w h' e :
  nth_error qs i = Some q -> In n (map snd (hidx q)) -> h_write h n w = HOk (h', e) ->
  gstep None (mkG h qs fl) (GWriteNode i n w) = GOk None (mkG h' qs fl).
Proof.
  intros En Hin E. cbn [gstep gh gls gfl]. rewrite En.
  assert (X : existsb (Nat.eqb n) (map snd (hidx q)) = true).
  { apply existsb_exists. exists n. split; [exact Hin|apply Nat.eqb_refl]. }
  rewrite X, E. reflexivity.
Qed.

Lemma put_or_evict_indexed h q n h' q' ev :
  h_put_or_evict_nonnull h q n = HOk (h', q', ev) -> In n (map snd (hidx q')).
Proof.
  unfold h_put_or_evict_nonnull. intros H. destruct (hcap q <=? length (hidx q)).
  - destruct (tail_prev h q) as [p|e]; cbn [hbind] in H; [|discriminate].
    destruct (key_at h p) as [k|e]; cbn [hbind] in H; [|discriminate].
    destruct (idx_remove h q k) as [[q1 o]|e]; cbn [hbind] in H; [|discriminate].
    destruct o as [old|]; [|discriminate].
    destruct (detach h old) as [h1|e]; cbn [hbind] in H; [|discriminate].
    destruct (attach h1 q1 n) as [h2|e]; cbn [hbind] in H; [|discriminate]. inversion H; subst. cbn. now left.
  - destruct (attach h q n) as [h1|e]; cbn [hbind] in H; [|discriminate]. inversion H; subst. cbn. now left.
Qed.

(** gluing programs *)
Lemma gprog_app p1 : forall p2 f s f1 s1,
  gprog f s p1 = GOk f1 s1 -> gprog f s (p1 ++ p2) = gprog f1 s1 p2.
Proof.
  induction p1 as [|o rest IH]; intros p2 f s f1 s1 H; cbn [gprog app] in *; [now inversion H|].
  destruct (gstep f s o) as [f2 s2|s2|e]; [now apply IH|discriminate|discriminate].
Qed.

Definition is_prog (s s' : gstate) : Prop :=
  exists p, Forall gop_ok p /\ gprog None s p = GOk None s'.

Lemma is_prog_refl s : is_prog s s.
Proof. exists []. split; [constructor|reflexivity]. Qed.

Lemma is_prog_trans s1 s2 s3 : is_prog s1 s2 -> is_prog s2 s3 -> is_prog s1 s3.
Proof.
  intros (p1 & O1 & E1) (p2 & O2 & E2). exists (p1 ++ p2). split; [apply Forall_app; auto|].
  now rewrite (gprog_app p1 p2 _ _ _ _ E1).
Qed.

Lemma is_prog_step s o s' : gop_ok o -> gstep None s o = GOk None s' -> is_prog s s'.
Proof. intros Ho E. exists [o]. split; [now repeat constructor|]. cbn [gprog]. now rewrite E. Qed.

Ltac pstep G := (eapply is_prog_step; [|exact G]; exact I).

(** ** SegmentedCache: list 0 is the probationary segment, list 1 the protected one *)
Section WithOtherLists.
Variable rest : list hlru.

Definition gs_of (h : heap) (s : hslru) : gstate := mkG h (hprob s :: hprot s :: rest) [].

Ltac hd H E := match type of H with
  | context [hbind ?r _] => destruct r as [?|?] eqn:E; cbn [hbind] in H; [|discriminate H]
  end.

Lemma hs_promote_prog h qa qb ent fl h' s' :
  hs_promote h qa qb ent = HOk (h', s') ->
  is_prog (mkG h (qa :: qb :: rest) (ent :: fl)) (mkG h' (hprob s' :: hprot s' :: rest) fl) /\ In ent (map snd (hidx (hprot s'))).
Proof.
  unfold hs_promote. intros H.
  destruct (h_put_or_evict_nonnull h qb ent) as [[[h1 qb'] ev]|e] eqn:E1; cbn [hbind] in H; [|discriminate].
  pose proof (put_or_evict_indexed _ _ _ _ _ _ E1) as Hidx.
  pose proof (g_put_or_evict h (qa :: qb :: rest) (ent :: fl) 1 0 qb ent h1 qb' ev eq_refl eq_refl E1) as G1.
  cbn [set_nth del_nth firstn skipn app] in G1.
  destruct ev as [old|].
  - destruct (h_put_nonnull h1 qa old) as [[[h2 qa'] e2]|e] eqn:E2; cbn [hbind] in H; [|discriminate]. inversion H; subst.
    split; [|exact Hidx]. eapply is_prog_trans; [pstep G1|].
    pstep (g_put_nonnull h1 (qa :: qb' :: rest) (old :: fl) 0 0 qa old h' qa' e2 eq_refl eq_refl E2).
  - inversion H; subst. split; [|exact Hidx]. pstep G1.
Qed.

Theorem hs_put_prog h s k v h' s' r :
  hs_put h s k v = HOk (h', s', r) -> is_prog (gs_of h s) (gs_of h' s').
Proof.
  unfold hs_put, gs_of. intros H. destruct s as [qa qb]. cbn [hprob hprot] in *.
  destruct (idx_find h (hidx qb) k) as [o|e] eqn:Ef; cbn [hbind] in H; [|discriminate].
  destruct o as [n|].
  - destruct (h_update h qb n v) as [[h1 old]|e] eqn:Eu; cbn [hbind] in H; [|discriminate]. inversion H; subst.
    pstep (g_update_key h (qa :: qb :: rest) [] 1 qb k v n h' old eq_refl Ef Eu).
  - destruct (h_contains h qa k) as [b|e] eqn:Ec; cbn [hbind] in H; [|discriminate].
    assert (P0 : is_prog (mkG h (qa :: qb :: rest) []) (mkG h (qa :: qb :: rest) [])) by apply is_prog_refl.
    destruct b.
    + destruct (h_remove_ent h qa k) as [[[h1 qa1] r1]|e] eqn:Er; cbn [hbind] in H; [|discriminate].
      pose proof (g_remove_ent h (qa :: qb :: rest) [] 0 qa k h1 qa1 r1 eq_refl Er) as G1. cbn [set_nth firstn skipn app] in G1.
      destruct r1 as [ent|].
      * destruct (h_swap_value h1 ent v) as [[h2 old]|e] eqn:Es; cbn [hbind] in H; [|discriminate].
        destruct (hs_promote h2 qa1 qb ent) as [[h3 s3]|e] eqn:Ep; cbn [hbind] in H; [|discriminate]. inversion H; subst.
        destruct (hs_promote_prog _ _ _ _ [] _ _ Ep) as (P3 & _).
        eapply is_prog_trans; [pstep G1|].
        eapply is_prog_trans; [pstep (g_swap h1 (qa1 :: qb :: rest) [ent] 0 ent v h2 old eq_refl Es)|].
        exact P3.
      * inversion H; subst. pstep G1.
    + destruct (h_put h qa k v) as [[[h1 qa1] r1]|e] eqn:Epu; cbn [hbind] in H; [|discriminate].
      assert (G : gstep None (mkG h (qa :: qb :: rest) []) (GPub 0 (HPut k v)) = GOk None (mkG h1 (qa1 :: qb :: rest) [])).
      { refine (g_pub h (qa :: qb :: rest) [] 0 qa (HPut k v) h1 qa1 (OPut r1) eq_refl _). cbn [hstep]. now rewrite Epu. }
      inversion H; subst. pstep G.
Qed.

Theorem hs_get_mut_prog h s k w h' s' r :
  hs_get_mut h s k w = HOk (h', s', r) -> is_prog (gs_of h s) (gs_of h' s').
Proof.
  unfold hs_get_mut, gs_of. intros H. destruct s as [qa qb]. cbn [hprob hprot] in *.
  destruct (h_get_mut h qb k w) as [[h1 r1]|e] eqn:E1; cbn [hbind] in H; [|discriminate].
  assert (G1 : gstep None (mkG h (qa :: qb :: rest) []) (GPub 1 (HGetMut k w)) = GOk None (mkG h1 (qa :: qb :: rest) [])).
  { refine (g_pub h (qa :: qb :: rest) [] 1 qb (HGetMut k w) h1 qb (OVal r1) eq_refl _). cbn [hstep]. now rewrite E1. }
  destruct r1 as [v1|]; [inversion H; subst; pstep G1|].
  destruct (h_peek h1 qa k) as [r2|e] eqn:E2; cbn [hbind] in H; [|discriminate].
  destruct r2 as [v0|]; [|inversion H; subst; pstep G1].
  unfold hs_move_to_protected in H. cbn [hprob hprot] in H.
  destruct (h_remove_ent h1 qa k) as [[[h2 qa1] r3]|e] eqn:E3; cbn [hbind] in H; [|discriminate].
  pose proof (g_remove_ent h1 (qa :: qb :: rest) [] 0 qa k h2 qa1 r3 eq_refl E3) as G3. cbn [set_nth firstn skipn app] in G3.
  destruct r3 as [ent|].
  - destruct (hs_promote h2 qa1 qb ent) as [[h3 s3]|e] eqn:Ep; cbn [hbind] in H; [|discriminate].
    destruct (h_write h3 ent w) as [[h4 e4]|e] eqn:Ew; cbn [hbind] in H; [|discriminate]. inversion H; subst.
    destruct (hs_promote_prog _ _ _ _ [] _ _ Ep) as (P3 & Hidx).
    eapply is_prog_trans; [pstep G1|].
    eapply is_prog_trans; [pstep G3|].
    eapply is_prog_trans; [exact P3|].
    pstep (g_write_node h3 (hprob s' :: hprot s' :: rest) [] 1 (hprot s') ent w h' e4 eq_refl Hidx Ew).
  - inversion H; subst. cbn [hprob hprot].
    eapply is_prog_trans; [pstep G1|]. pstep G3.
Qed.

(** a public operation of one of the two lists *)
Lemma slru_pub0 h qa qb o h' qa' out :
  hstep h qa o = HOk (h', qa', out) -> gop_ok (GPub 0 o) -> is_prog (mkG h (qa :: qb :: rest) []) (mkG h' (qa' :: qb :: rest) []).
Proof. intros E Ho. eapply is_prog_step; [exact Ho|]. exact (g_pub h (qa :: qb :: rest) [] 0 qa o h' qa' out eq_refl E). Qed.

Lemma slru_pub1 h qa qb o h' qb' out :
  hstep h qb o = HOk (h', qb', out) -> gop_ok (GPub 1 o) -> is_prog (mkG h (qa :: qb :: rest) []) (mkG h' (qa :: qb' :: rest) []).
Proof. intros E Ho. eapply is_prog_step; [exact Ho|]. exact (g_pub h (qa :: qb :: rest) [] 1 qb o h' qb' out eq_refl E). Qed.

Theorem hs_step_prog h s o h' s' out :
  o <> SClone -> hs_step h s o = HOk (h', s', out) -> is_prog (gs_of h s) (gs_of h' s').
Proof.
  intros Hno H. destruct o as [k v|k w|k|k w|k|k| |k v|]; cbn [hs_step] in H; [| | | | | | | |congruence].
  - destruct (hs_put h s k v) as [[[h1 s1] r]|e] eqn:E; cbn [hbind] in H; [|discriminate]. inversion H; subst.
    eapply hs_put_prog; eauto.
  - destruct (hs_get_mut h s k w) as [[[h1 s1] r]|e] eqn:E; cbn [hbind] in H; [|discriminate]. inversion H; subst.
    eapply hs_get_mut_prog; eauto.
  - (* peek *)
    destruct (hs_peek h s k) as [r|e] eqn:E; cbn [hbind] in H; [|discriminate]. inversion H; subst.
    unfold hs_peek in E. destruct s' as [qa qb]. unfold gs_of. cbn [hprob hprot] in *.
    destruct (h_peek h' qb k) as [r1|e] eqn:E1; cbn [hbind] in E; [|discriminate].
    assert (P1 : is_prog (mkG h' (qa :: qb :: rest) []) (mkG h' (qa :: qb :: rest) [])).
    { eapply (slru_pub1 h' qa qb (HPeek k)); [cbn [hstep]; rewrite E1; reflexivity|exact I]. }
    destruct r1; [exact P1|]. eapply is_prog_trans; [exact P1|].
    eapply (slru_pub0 h' qa qb (HPeek k)); [cbn [hstep]; rewrite E; reflexivity|exact I].
  - (* peek_mut *)
    destruct (hs_peek_mut h s k w) as [[h1 r]|e] eqn:E; cbn [hbind] in H; [|discriminate]. inversion H; subst.
    unfold hs_peek_mut in E. destruct s' as [qa qb]. unfold gs_of. cbn [hprob hprot] in *.
    destruct (h_peek_mut h qb k w) as [[h1 r1]|e] eqn:E1; cbn [hbind] in E; [|discriminate].
    assert (P1 : is_prog (mkG h (qa :: qb :: rest) []) (mkG h1 (qa :: qb :: rest) [])).
    { eapply (slru_pub1 h qa qb (HPeekMut k w)); [cbn [hstep]; rewrite E1; reflexivity|exact I]. }
    destruct r1; [inversion E; subst; exact P1|]. eapply is_prog_trans; [exact P1|].
    eapply (slru_pub0 h1 qa qb (HPeekMut k w)); [cbn [hstep]; rewrite E; reflexivity|exact I].
  - (* contains *)
    destruct (hs_contains h s k) as [b|e] eqn:E; cbn [hbind] in H; [|discriminate]. inversion H; subst.
    unfold hs_contains in E. destruct s' as [qa qb]. unfold gs_of. cbn [hprob hprot] in *.
    destruct (h_contains h' qb k) as [b1|e] eqn:E1; cbn [hbind] in E; [|discriminate].
    assert (P1 : is_prog (mkG h' (qa :: qb :: rest) []) (mkG h' (qa :: qb :: rest) [])).
    { eapply (slru_pub1 h' qa qb (HContains k)); [cbn [hstep]; rewrite E1; reflexivity|exact I]. }
    destruct b1; [exact P1|]. eapply is_prog_trans; [exact P1|].
    eapply (slru_pub0 h' qa qb (HContains k)); [cbn [hstep]; rewrite E; reflexivity|exact I].
  - (* remove *)
    destruct (hs_remove h s k) as [[[h1 s1] r]|e] eqn:E; cbn [hbind] in H; [|discriminate]. inversion H; subst.
    unfold hs_remove in E. destruct s as [qa qb]. unfold gs_of. cbn [hprob hprot] in *.
    destruct (h_remove h qa k) as [[[h1 qa1] r1]|e] eqn:E1; cbn [hbind] in E; [|discriminate].
    assert (P1 : is_prog (mkG h (qa :: qb :: rest) []) (mkG h1 (qa1 :: qb :: rest) [])).
    { eapply (slru_pub0 h qa qb (HRemove k)); [cbn [hstep]; rewrite E1; reflexivity|exact I]. }
    destruct r1; [inversion E; subst; exact P1|].
    destruct (h_remove h1 qb k) as [[[h2 qb1] r2]|e] eqn:E2; cbn [hbind] in E; [|discriminate]. inversion E; subst.
    eapply is_prog_trans; [exact P1|].
    eapply (slru_pub1 h1 qa1 qb (HRemove k)); [cbn [hstep]; rewrite E2; reflexivity|exact I].
  - (* purge *)
    destruct (hs_purge h s) as [[h1 s1]|e] eqn:E; cbn [hbind] in H; [|discriminate]. inversion H; subst.
    unfold hs_purge in E. destruct s as [qa qb]. unfold gs_of. cbn [hprob hprot] in *.
    destruct (h_purge h qa) as [[h1 qa1]|e] eqn:E1; cbn [hbind] in E; [|discriminate].
    destruct (h_purge h1 qb) as [[h2 qb1]|e] eqn:E2; cbn [hbind] in E; [|discriminate]. inversion E; subst.
    eapply is_prog_trans.
    + eapply (slru_pub0 h qa qb HPurge); [cbn [hstep]; rewrite E1; reflexivity|exact I].
    + eapply (slru_pub1 h1 qa1 qb HPurge); [cbn [hstep]; rewrite E2; reflexivity|exact I].
  - (* put_protected *)
    destruct (hs_put_protected h s k v) as [[[h1 s1] r]|e] eqn:E; cbn [hbind] in H; [|discriminate]. inversion H; subst.
    unfold hs_put_protected in E. destruct s as [qa qb]. unfold gs_of. cbn [hprob hprot] in *.
    destruct (h_remove h qa k) as [[[h1 qa1] r1]|e] eqn:E1; cbn [hbind] in E; [|discriminate].
    destruct (h_put h1 qb k v) as [[[h2 qb1] pr]|e] eqn:E2; cbn [hbind] in E; [|discriminate]. inversion E; subst.
    eapply is_prog_trans.
    + eapply (slru_pub0 h qa qb (HRemove k)); [cbn [hstep]; rewrite E1; reflexivity|exact I].
    + eapply (slru_pub1 h1 qa1 qb (HPut k v)); [cbn [hstep]; rewrite E2; reflexivity|exact I].
Qed.

End WithOtherLists.

(** the states of the heap-level SegmentedCache are states of the machine *)
Lemma slru_ginv h s la lb :
  fam h [(hprob s, la); (hprot s, lb)] [] -> 0 < hcap (hprob s) -> 0 < hcap (hprot s) -> ginv (gs_of [] h s).
Proof.
  intros [Hwf Hnd _ _] Ha Hb. exists [(hprob s, la); (hprot s, lb)], []. split; [|split; [reflexivity|split; [reflexivity|]]].
  - constructor; [|exact Hnd|intros ? ? ? []]. intros q l Hin. apply wf_wfw. now apply Hwf.
  - repeat constructor; assumption.
Qed.

(** every operation of the heap-level SegmentedCache except Clone is the run of a program over the
    primitives; run with any fuse that program ends or panics in a family and makes no memory error *)
Theorem slru_step_panic_safe h s la lb o h' s' out f :
  fam h [(hprob s, la); (hprot s, lb)] [] -> 0 < hcap (hprob s) -> 0 < hcap (hprot s) ->
  o <> SClone -> hs_step h s o = HOk (h', s', out) ->
  exists p, Forall gop_ok p /\ gprog None (gs_of [] h s) p = GOk None (gs_of [] h' s') /\ gsafe (gprog f (gs_of [] h s) p).
Proof.
  intros Hf Ha Hb Hno H. destruct (hs_step_prog [] h s o h' s' out Hno H) as (p & Hok & E).
  exists p. split; [exact Hok|]. split; [exact E|]. apply gprog_safe; [|exact Hok]. eapply slru_ginv; eauto.
Qed.

(** ** more actions with no fuse *)
Lemma g_alloc h qs fl k v h' n :
  halloc h (Some k) (Some v) = (h', n) -> gstep None (mkG h qs fl) (GAlloc k v) = GOk None (mkG h' qs (n :: fl)).
Proof. intros E. cbn [gstep gh gls gfl]. now rewrite E. Qed.

Lemma g_free h qs fl b n e h' :
  nth_error fl b = Some n -> take_kv h n = HOk e -> hfree h n = HOk h' ->
  gstep None (mkG h qs fl) (GFree b) = GOk None (mkG h' qs (del_nth b fl)).
Proof. intros Eb E1 E2. cbn [gstep gh gls gfl]. now rewrite Eb, E1, E2. Qed.

(** one more action of the program: [gs G] where [G : gstep None s o = GOk None s'] *)
Ltac gs G :=
  let X := fresh "X" in
  pose proof G as X; cbn [set_nth del_nth firstn skipn app nth_error] in X;
  (eapply is_prog_trans; [eapply is_prog_step; [|exact X]; exact I|]); clear X.

Ltac hstep_eq E := (cbn [hstep]; rewrite E; reflexivity).

(** ** TwoQueueCache: list 0 recent, list 1 frequent, list 2 ghost *)
From VF Require Import HeapTwoQDef.

Definition gq_of (h : heap) (s : htwoq) : gstate := mkG h [tq_r s; tq_f s; tq_g s] [].

Lemma ht_revive_prog h r f g ent fl v h' f' old :
  ht_revive h f ent v = HOk (h', f', old) -> is_prog (mkG h [r; f; g] (ent :: fl)) (mkG h' [r; f'; g] fl).
Proof.
  unfold ht_revive. intros H.
  destruct (h_swap_value h ent v) as [[h1 o1]|e] eqn:E1; cbn [hbind] in H; [|discriminate].
  destruct (h_put_nonnull h1 f ent) as [[[h2 f1] e2]|e] eqn:E2; cbn [hbind] in H; [|discriminate].
  gs (g_swap h [r; f; g] (ent :: fl) 0 ent v h1 o1 eq_refl E1).
  gs (g_put_nonnull h1 [r; f; g] (ent :: fl) 1 0 f ent h2 f1 e2 eq_refl eq_refl E2).
  inversion H; subst. apply is_prog_refl.
Qed.

Lemma ht_evict_resident_prog h r f g fl b h' r' f' a :
  ht_evict_resident h r f b = HOk (h', r', f', a) -> is_prog (mkG h [r; f; g] fl) (mkG h' [r'; f'; g] (a :: fl)).
Proof.
  unfold ht_evict_resident. intros H. destruct b.
  - destruct (h_remove_lru_in h r) as [[[h1 r1] o]|e] eqn:E1; cbn [hbind] in H; [|discriminate].
    gs (g_remove_lru_in h [r; f; g] fl 0 r h1 r1 o eq_refl E1).
    destruct o as [a1|]; [inversion H; subst; apply is_prog_refl|].
    destruct (h_remove_lru_in h1 f) as [[[h2 f1] o2]|e] eqn:E2; cbn [hbind] in H; [|discriminate].
    gs (g_remove_lru_in h1 [r1; f; g] fl 1 f h2 f1 o2 eq_refl E2).
    destruct o2 as [a2|]; [inversion H; subst; apply is_prog_refl|discriminate].
  - destruct (h_remove_lru_in h f) as [[[h1 f1] o]|e] eqn:E1; cbn [hbind] in H; [|discriminate].
    gs (g_remove_lru_in h [r; f; g] fl 1 f h1 f1 o eq_refl E1).
    destruct o as [a1|]; [inversion H; subst; apply is_prog_refl|].
    destruct (h_remove_lru_in h1 r) as [[[h2 r1] o2]|e] eqn:E2; cbn [hbind] in H; [|discriminate].
    gs (g_remove_lru_in h1 [r; f1; g] fl 0 r h2 r1 o2 eq_refl E2).
    destruct o2 as [a2|]; [inversion H; subst; apply is_prog_refl|discriminate].
Qed.

Theorem ht_put_prog h s k v h' s' r :
  ht_put h s k v = HOk (h', s', r) -> is_prog (gq_of h s) (gq_of h' s').
Proof.
  unfold ht_put, gq_of. intros H. destruct s as [size rsize qr qf qg]. cbn [tq_r tq_f tq_g tq_size tq_rsize tq_with] in *.
  destruct (idx_find h (hidx qf) k) as [o|e] eqn:Ef; cbn [hbind] in H; [|discriminate].
  destruct o as [n|].
  { destruct (h_update h qf n v) as [[h1 old]|e] eqn:Eu; cbn [hbind] in H; [|discriminate].
    gs (g_update_key h [qr; qf; qg] [] 1 qf k v n h1 old eq_refl Ef Eu). inversion H; subst. apply is_prog_refl. }
  destruct (h_remove_ent h qr k) as [[[h1 r1] o]|e] eqn:E1; cbn [hbind] in H; [|discriminate].
  gs (g_remove_ent h [qr; qf; qg] [] 0 qr k h1 r1 o eq_refl E1).
  destruct o as [ent|].
  { destruct (ht_revive h1 qf ent v) as [[[h2 f1] old]|e] eqn:E2; cbn [hbind] in H; [|discriminate]. inversion H; subst.
    cbn [tq_r tq_f tq_g]. exact (ht_revive_prog _ _ _ _ _ [] _ _ _ _ E2). }
  destruct (h_contains h1 qg k) as [b|e] eqn:Ec; cbn [hbind] in H; [|discriminate].
  gs (g_pub h1 [r1; qf; qg] [] 2 qg (HContains k) h1 qg (OBool b) eq_refl ltac:(hstep_eq Ec)).
  destruct b.
  - destruct (size <=? length (hidx qr) + length (hidx qf)).
    + destruct (ht_evict_resident h1 r1 qf (rsize <? length (hidx qr))) as [[[[h2 r2] f2] victim]|e] eqn:E2; cbn [hbind] in H; [|discriminate].
      eapply is_prog_trans; [exact (ht_evict_resident_prog _ _ _ qg [] _ _ _ _ _ E2)|].
      destruct (h_put_or_evict_nonnull h2 qg victim) as [[[h3 g1] rst]|e] eqn:E3; cbn [hbind] in H; [|discriminate].
      gs (g_put_or_evict h2 [r2; f2; qg] [victim] 2 0 qg victim h3 g1 rst eq_refl eq_refl E3).
      destruct (h_remove_ent h3 g1 k) as [[[h4 g2] o2]|e] eqn:E4; cbn [hbind] in H; [|discriminate].
      destruct o2 as [ent|].
      * destruct (ht_revive h4 f2 ent v) as [[[h5 f3] old]|e] eqn:E5; cbn [hbind] in H; [|discriminate].
        destruct rst as [e2|].
        -- gs (g_remove_ent h3 [r2; f2; g1] [e2] 2 g1 k h4 g2 (Some ent) eq_refl E4).
           eapply is_prog_trans; [exact (ht_revive_prog _ _ _ _ _ [e2] _ _ _ _ E5)|].
           destruct (take_kv h5 e2) as [[ek ev]|e] eqn:E6; cbn [hbind] in H; [|discriminate].
           destruct (hfree h5 e2) as [h6|e] eqn:E7; cbn [hbind] in H; [|discriminate].
           gs (g_free h5 [r2; f3; g2] [e2] 0 e2 (ek, ev) h6 eq_refl E6 E7). inversion H; subst. apply is_prog_refl.
        -- gs (g_remove_ent h3 [r2; f2; g1] [] 2 g1 k h4 g2 (Some ent) eq_refl E4).
           inversion H; subst. cbn [tq_r tq_f tq_g]. exact (ht_revive_prog _ _ _ _ _ [] _ _ _ _ E5).
      * destruct rst as [ent|].
        -- gs (g_remove_ent h3 [r2; f2; g1] [ent] 2 g1 k h4 g2 None eq_refl E4).
           destruct (ht_revive h4 f2 ent v) as [[[h5 f3] old]|e] eqn:E5; cbn [hbind] in H; [|discriminate]. inversion H; subst.
           cbn [tq_r tq_f tq_g]. exact (ht_revive_prog _ _ _ _ _ [] _ _ _ _ E5).
        -- gs (g_remove_ent h3 [r2; f2; g1] [] 2 g1 k h4 g2 None eq_refl E4).
           inversion H; subst. cbn [tq_r tq_f tq_g]. apply is_prog_refl.
    + destruct (h_remove_ent h1 qg k) as [[[h2 g1] o2]|e] eqn:E2; cbn [hbind] in H; [|discriminate].
      destruct o2 as [ent|]; [|discriminate].
      gs (g_remove_ent h1 [r1; qf; qg] [] 2 qg k h2 g1 (Some ent) eq_refl E2).
      destruct (ht_revive h2 qf ent v) as [[[h3 f1] old]|e] eqn:E3; cbn [hbind] in H; [|discriminate]. inversion H; subst.
      cbn [tq_r tq_f tq_g]. exact (ht_revive_prog _ _ _ _ _ [] _ _ _ _ E3).
  - destruct (halloc h1 (Some k) (Some v)) as [h2 bks] eqn:Ea.
    gs (g_alloc h1 [r1; qf; qg] [] k v h2 bks Ea).
    destruct (length (hidx qf) + length (hidx qr) <? size).
    + destruct (h_put_or_evict_nonnull h2 r1 bks) as [[[h3 r2] ev]|e] eqn:E3; cbn [hbind] in H; [|discriminate].
      gs (g_put_or_evict h2 [r1; qf; qg] [bks] 0 0 r1 bks h3 r2 ev eq_refl eq_refl E3).
      destruct ev as [e1|].
      * destruct (h_put_nonnull h3 qg e1) as [[[h4 g1] gev]|e] eqn:E4; cbn [hbind] in H; [|discriminate].
        gs (g_put_nonnull h3 [r2; qf; qg] [e1] 2 0 qg e1 h4 g1 gev eq_refl eq_refl E4). inversion H; subst. apply is_prog_refl.
      * inversion H; subst. cbn [tq_r tq_f tq_g]. apply is_prog_refl.
    + destruct (ht_evict_resident h2 r1 qf (rsize <=? length (hidx qr))) as [[[[h3 r2] f2] victim]|e] eqn:E3; cbn [hbind] in H; [|discriminate].
      eapply is_prog_trans; [exact (ht_evict_resident_prog _ _ _ qg [bks] _ _ _ _ _ E3)|].
      destruct (h_put_nonnull h3 r2 bks) as [[[h4 r3] e4]|e] eqn:E4; cbn [hbind] in H; [|discriminate].
      gs (g_put_nonnull h3 [r2; f2; qg] [victim; bks] 0 1 r2 bks h4 r3 e4 eq_refl eq_refl E4).
      destruct (h_put_nonnull h4 qg victim) as [[[h5 g1] gev]|e] eqn:E5; cbn [hbind] in H; [|discriminate].
      gs (g_put_nonnull h4 [r3; f2; qg] [victim] 2 0 qg victim h5 g1 gev eq_refl eq_refl E5). inversion H; subst. apply is_prog_refl.
Qed.

(** [move_to_frequent] drops the node the frequent list would push out ("will not reach"): in the
    model it stays in flight, i.e. leaks; the end state is given up to such nodes *)
Definition gq_fl (h : heap) (s : htwoq) (fl : list addr) : gstate := mkG h [tq_r s; tq_f s; tq_g s] fl.

Theorem ht_get_mut_prog h s k w h' s' r :
  ht_get_mut h s k w = HOk (h', s', r) -> exists fl, is_prog (gq_of h s) (gq_fl h' s' fl).
Proof.
  unfold ht_get_mut, gq_of, gq_fl. intros H. destruct s as [size rsize qr qf qg]. cbn [tq_r tq_f tq_g tq_size tq_rsize tq_with] in *.
  destruct (h_get_mut h qf k w) as [[h1 r1]|e] eqn:E1; cbn [hbind] in H; [|discriminate].
  pose proof (g_pub h [qr; qf; qg] [] 1 qf (HGetMut k w) h1 qf (OVal r1) eq_refl ltac:(hstep_eq E1)) as G1.
  cbn [set_nth firstn skipn app] in G1.
  destruct r1 as [v1|]; [inversion H; subst; exists []; pstep G1|].
  destruct (h_peek h1 qr k) as [r2|e] eqn:E2; cbn [hbind] in H; [|discriminate].
  destruct r2 as [v0|]; [|inversion H; subst; exists []; pstep G1].
  destruct (h_remove_ent h1 qr k) as [[[h2 r1] o]|e] eqn:E3; cbn [hbind] in H; [|discriminate].
  pose proof (g_remove_ent h1 [qr; qf; qg] [] 0 qr k h2 r1 o eq_refl E3) as G3. cbn [set_nth firstn skipn app] in G3.
  destruct o as [ent|].
  2:{ inversion H; subst. exists []. cbn [tq_r tq_f tq_g]. eapply is_prog_trans; [pstep G1|pstep G3]. }
  destruct (h_put_or_evict_nonnull h2 qf ent) as [[[h3 f1] ev]|e] eqn:E4; cbn [hbind] in H; [|discriminate].
  pose proof (put_or_evict_indexed _ _ _ _ _ _ E4) as Hidx.
  pose proof (g_put_or_evict h2 [r1; qf; qg] [ent] 1 0 qf ent h3 f1 ev eq_refl eq_refl E4) as G4.
  cbn [set_nth del_nth firstn skipn app] in G4.
  destruct (h_write h3 ent w) as [[h4 e4]|e] eqn:E5; cbn [hbind] in H; [|discriminate].
  exists (match ev with Some old => [old] | None => [] end).
  pose proof (g_write_node h3 [r1; f1; qg] (match ev with Some old => [old] | None => [] end) 1 f1 ent w h4 e4 eq_refl Hidx E5) as G5.
  inversion H; subst. cbn [tq_r tq_f tq_g].
  eapply is_prog_trans; [pstep G1|]. eapply is_prog_trans; [pstep G3|]. eapply is_prog_trans; [pstep G4|]. pstep G5.
Qed.

Lemma twoq_pub h r f g i q o h' q' out :
  nth_error [r; f; g] i = Some q -> hstep h q o = HOk (h', q', out) -> gop_ok (GPub i o) ->
  is_prog (mkG h [r; f; g] []) (mkG h' (set_nth i q' [r; f; g]) []).
Proof. intros En E Ho. eapply is_prog_step; [exact Ho|]. exact (g_pub h [r; f; g] [] i q o h' q' out En E). Qed.

Theorem ht_step_prog h s o h' s' out :
  (forall i kd pre pa pb, o <> QIter i kd pre pa pb) -> ht_step h s o = HOk (h', s', out) ->
  exists fl, is_prog (gq_of h s) (gq_fl h' s' fl).
Proof.
  intros Hno H. destruct o as [k v|k w|k|k w|k|k| |i kd pre pa pb]; cbn [ht_step] in H; [| | | | | | |exfalso; eapply Hno; reflexivity].
  - destruct (ht_put h s k v) as [[[h1 s1] r]|e] eqn:E; cbn [hbind] in H; [|discriminate]. inversion H; subst.
    exists []. eapply ht_put_prog; eauto.
  - destruct (ht_get_mut h s k w) as [[[h1 s1] r]|e] eqn:E; cbn [hbind] in H; [|discriminate]. inversion H; subst.
    eapply ht_get_mut_prog; eauto.
  - destruct (ht_peek h s k) as [r|e] eqn:E; cbn [hbind] in H; [|discriminate]. inversion H; subst. exists [].
    unfold ht_peek in E. destruct s' as [size rsize qr qf qg]. unfold gq_of, gq_fl. cbn [tq_r tq_f tq_g] in *.
    destruct (h_peek h' qf k) as [r1|e] eqn:E1; cbn [hbind] in E; [|discriminate].
    pose proof (twoq_pub h' qr qf qg 1 qf (HPeek k) h' qf (OVal r1) eq_refl ltac:(hstep_eq E1) I) as P1.
    destruct r1; [exact P1|]. eapply is_prog_trans; [exact P1|].
    exact (twoq_pub h' qr qf qg 0 qr (HPeek k) h' qr (OVal r) eq_refl ltac:(hstep_eq E) I).
  - destruct (ht_peek_mut h s k w) as [[h1 r]|e] eqn:E; cbn [hbind] in H; [|discriminate]. inversion H; subst. exists [].
    unfold ht_peek_mut in E. destruct s' as [size rsize qr qf qg]. unfold gq_of, gq_fl. cbn [tq_r tq_f tq_g] in *.
    destruct (h_peek_mut h qf k w) as [[h1 r1]|e] eqn:E1; cbn [hbind] in E; [|discriminate].
    pose proof (twoq_pub h qr qf qg 1 qf (HPeekMut k w) h1 qf (OVal r1) eq_refl ltac:(hstep_eq E1) I) as P1.
    destruct r1; [inversion E; subst; exact P1|]. eapply is_prog_trans; [exact P1|].
    exact (twoq_pub h1 qr qf qg 0 qr (HPeekMut k w) h' qr (OVal r) eq_refl ltac:(hstep_eq E) I).
  - destruct (ht_contains h s k) as [b|e] eqn:E; cbn [hbind] in H; [|discriminate]. inversion H; subst. exists [].
    unfold ht_contains in E. destruct s' as [size rsize qr qf qg]. unfold gq_of, gq_fl. cbn [tq_r tq_f tq_g] in *.
    destruct (h_contains h' qf k) as [b1|e] eqn:E1; cbn [hbind] in E; [|discriminate].
    pose proof (twoq_pub h' qr qf qg 1 qf (HContains k) h' qf (OBool b1) eq_refl ltac:(hstep_eq E1) I) as P1.
    destruct b1; [exact P1|]. eapply is_prog_trans; [exact P1|].
    exact (twoq_pub h' qr qf qg 0 qr (HContains k) h' qr (OBool b) eq_refl ltac:(hstep_eq E) I).
  - destruct (ht_remove h s k) as [[[h1 s1] r]|e] eqn:E; cbn [hbind] in H; [|discriminate]. inversion H; subst. exists [].
    unfold ht_remove in E. destruct s as [size rsize qr qf qg]. unfold gq_of, gq_fl. cbn [tq_r tq_f tq_g tq_with tq_size tq_rsize] in *.
    destruct (h_remove h qf k) as [[[h1 f1] r1]|e] eqn:E1; cbn [hbind] in E; [|discriminate].
    pose proof (twoq_pub h qr qf qg 1 qf (HRemove k) h1 f1 (OVal r1) eq_refl ltac:(hstep_eq E1) I) as P1.
    cbn [set_nth firstn skipn app] in P1.
    destruct r1; [inversion E; subst; exact P1|].
    destruct (h_remove h1 qr k) as [[[h2 r1] r2]|e] eqn:E2; cbn [hbind] in E; [|discriminate].
    pose proof (twoq_pub h1 qr f1 qg 0 qr (HRemove k) h2 r1 (OVal r2) eq_refl ltac:(hstep_eq E2) I) as P2.
    cbn [set_nth firstn skipn app] in P2.
    destruct r2; [inversion E; subst; eapply is_prog_trans; [exact P1|exact P2]|].
    destruct (h_remove h2 qg k) as [[[h3 g1] r3]|e] eqn:E3; cbn [hbind] in E; [|discriminate].
    pose proof (twoq_pub h2 r1 f1 qg 2 qg (HRemove k) h3 g1 (OVal r3) eq_refl ltac:(hstep_eq E3) I) as P3.
    cbn [set_nth firstn skipn app] in P3.
    inversion E; subst. eapply is_prog_trans; [exact P1|]. eapply is_prog_trans; [exact P2|exact P3].
  - destruct (ht_purge h s) as [[h1 s1]|e] eqn:E; cbn [hbind] in H; [|discriminate]. inversion H; subst. exists [].
    unfold ht_purge in E. destruct s as [size rsize qr qf qg]. unfold gq_of, gq_fl. cbn [tq_r tq_f tq_g tq_with tq_size tq_rsize] in *.
    destruct (h_purge h qr) as [[h1 r1]|e] eqn:E1; cbn [hbind] in E; [|discriminate].
    destruct (h_purge h1 qf) as [[h2 f1]|e] eqn:E2; cbn [hbind] in E; [|discriminate].
    destruct (h_purge h2 qg) as [[h3 g1]|e] eqn:E3; cbn [hbind] in E; [|discriminate].
    pose proof (twoq_pub h qr qf qg 0 qr HPurge h1 r1 OUnit eq_refl ltac:(hstep_eq E1) I) as P1.
    pose proof (twoq_pub h1 r1 qf qg 1 qf HPurge h2 f1 OUnit eq_refl ltac:(hstep_eq E2) I) as P2.
    pose proof (twoq_pub h2 r1 f1 qg 2 qg HPurge h3 g1 OUnit eq_refl ltac:(hstep_eq E3) I) as P3.
    cbn [set_nth firstn skipn app] in P1, P2, P3.
    inversion E; subst. eapply is_prog_trans; [exact P1|]. eapply is_prog_trans; [exact P2|exact P3].
Qed.

Lemma twoq_ginv h s lr lf lg :
  fam h [(tq_r s, lr); (tq_f s, lf); (tq_g s, lg)] [] ->
  0 < hcap (tq_r s) -> 0 < hcap (tq_f s) -> 0 < hcap (tq_g s) -> ginv (gq_of h s).
Proof.
  intros [Hwf Hnd _ _] Ha Hb Hc. exists [(tq_r s, lr); (tq_f s, lf); (tq_g s, lg)], [].
  split; [|split; [reflexivity|split; [reflexivity|]]].
  - constructor; [|exact Hnd|intros ? ? ? []]. intros q l Hin. apply wf_wfw. now apply Hwf.
  - repeat constructor; assumption.
Qed.

Theorem twoq_step_panic_safe h s lr lf lg o h' s' out f :
  fam h [(tq_r s, lr); (tq_f s, lf); (tq_g s, lg)] [] ->
  0 < hcap (tq_r s) -> 0 < hcap (tq_f s) -> 0 < hcap (tq_g s) ->
  (forall i kd pre pa pb, o <> QIter i kd pre pa pb) -> ht_step h s o = HOk (h', s', out) ->
  exists p fl, Forall gop_ok p /\ gprog None (gq_of h s) p = GOk None (gq_fl h' s' fl) /\ gsafe (gprog f (gq_of h s) p).
Proof.
  intros Hf Ha Hb Hc Hno H. destruct (ht_step_prog h s o h' s' out Hno H) as (fl & p & Hok & E).
  exists p, fl. split; [exact Hok|]. split; [exact E|]. apply gprog_safe; [|exact Hok]. eapply twoq_ginv; eauto.
Qed.

(** ** AdaptiveCache: list 0 recent (t1), 1 recent ghost (b1), 2 frequent (t2), 3 frequent ghost (b2) *)
From VF Require Import HeapArcDef.

Definition ga_fl (h : heap) (s : harc) (fl : list addr) : gstate := mkG h [ha_t1 s; ha_b1 s; ha_t2 s; ha_b2 s] fl.
Definition ga_of (h : heap) (s : harc) : gstate := ga_fl h s [].

Lemma ha_replace_prog h s b fl h' s' :
  ha_replace h s b = HOk (h', s') -> is_prog (ga_fl h s fl) (ga_fl h' s' fl).
Proof.
  unfold ha_replace, ga_fl. intros H. destruct s as [size p t1 b1 t2 b2]. cbn [ha_t1 ha_b1 ha_t2 ha_b2 ha_size ha_p] in *.
  destruct ((0 <? length (hidx t1)) && ((p <? length (hidx t1)) || (length (hidx t1) =? p) && b) || (length (hidx t2) =? 0)).
  - destruct (h_remove_lru_in h t1) as [[[h1 t1'] o]|e] eqn:E1; cbn [hbind] in H; [|discriminate].
    gs (g_remove_lru_in h [t1; b1; t2; b2] fl 0 t1 h1 t1' o eq_refl E1).
    destruct o as [ent|]; [|inversion H; subst; apply is_prog_refl].
    destruct (h_put_nonnull h1 b1 ent) as [[[h2 b1'] e2]|e] eqn:E2; cbn [hbind] in H; [|discriminate].
    gs (g_put_nonnull h1 [t1'; b1; t2; b2] (ent :: fl) 1 0 b1 ent h2 b1' e2 eq_refl eq_refl E2).
    inversion H; subst. apply is_prog_refl.
  - destruct (h_remove_lru_in h t2) as [[[h1 t2'] o]|e] eqn:E1; cbn [hbind] in H; [|discriminate].
    gs (g_remove_lru_in h [t1; b1; t2; b2] fl 2 t2 h1 t2' o eq_refl E1).
    destruct o as [ent|]; [|inversion H; subst; apply is_prog_refl].
    destruct (h_put_nonnull h1 b2 ent) as [[[h2 b2'] e2]|e] eqn:E2; cbn [hbind] in H; [|discriminate].
    gs (g_put_nonnull h1 [t1; b1; t2'; b2] (ent :: fl) 3 0 b2 ent h2 b2' e2 eq_refl eq_refl E2).
    inversion H; subst. apply is_prog_refl.
Qed.

Lemma ha_replace_opt_prog (c : bool) h s b fl h' s' :
  (if c then ha_replace h s b else HOk (h, s)) = HOk (h', s') -> is_prog (ga_fl h s fl) (ga_fl h' s' fl).
Proof. destruct c; [apply ha_replace_prog|intros H; inversion H; subst; apply is_prog_refl]. Qed.

Theorem ha_put_prog h s k v h' s' r :
  ha_put h s k v = HOk (h', s', r) -> is_prog (ga_of h s) (ga_of h' s').
Proof.
  unfold ha_put, ga_of. intros H. destruct s as [size p t1 b1 t2 b2]. unfold ga_fl at 1. cbn [ha_t1 ha_b1 ha_t2 ha_b2 ha_size ha_p] in *.
  destruct (h_remove_ent h t1 k) as [[[h1 t1'] o]|e] eqn:E1; cbn [hbind] in H; [|discriminate].
  gs (g_remove_ent h [t1; b1; t2; b2] [] 0 t1 k h1 t1' o eq_refl E1).
  destruct o as [ent|].
  { destruct (h_swap_value h1 ent v) as [[h2 old]|e] eqn:E2; cbn [hbind] in H; [|discriminate].
    gs (g_swap h1 [t1'; b1; t2; b2] [ent] 0 ent v h2 old eq_refl E2).
    destruct (h_put_nonnull h2 t2 ent) as [[[h3 t2'] e3]|e] eqn:E3; cbn [hbind] in H; [|discriminate].
    gs (g_put_nonnull h2 [t1'; b1; t2; b2] [ent] 2 0 t2 ent h3 t2' e3 eq_refl eq_refl E3).
    inversion H; subst. apply is_prog_refl. }
  destruct (idx_find h1 (hidx t2) k) as [r0|e] eqn:Ef; cbn [hbind] in H; [|discriminate].
  destruct r0 as [n|].
  { destruct (h_update h1 t2 n v) as [[h2 old]|e] eqn:Eu; cbn [hbind] in H; [|discriminate].
    gs (g_update_key h1 [t1'; b1; t2; b2] [] 2 t2 k v n h2 old eq_refl Ef Eu).
    (* the code returns [s] itself here: [t1'] is [t1] with the same index (the key was not in it) *)
    inversion H; subst. unfold ga_fl. cbn [ha_t1 ha_b1 ha_t2 ha_b2].
    unfold h_remove_ent, idx_remove in E1. destruct (idx_find h (hidx t1) k) as [[na|]|e]; cbn [hbind] in E1; try discriminate.
    - destruct (detach h na); cbn [hbind] in E1; discriminate.
    - inversion E1; subst. apply is_prog_refl. }
  destruct (h_contains h1 b1 k) as [c1|e] eqn:Ec1; cbn [hbind] in H; [|discriminate].
  gs (g_pub h1 [t1'; b1; t2; b2] [] 1 b1 (HContains k) h1 b1 (OBool c1) eq_refl ltac:(hstep_eq Ec1)).
  assert (Et1 : t1' = t1 /\ h1 = h).
  { unfold h_remove_ent, idx_remove in E1. destruct (idx_find h (hidx t1) k) as [[na|]|e]; cbn [hbind] in E1; try discriminate.
    - destruct (detach h na); cbn [hbind] in E1; discriminate.
    - inversion E1; auto. }
  destruct Et1 as [-> ->].
  destruct c1.
  - destruct (h_remove_ent h b1 k) as [[[h2 b1'] o2]|e] eqn:E2; cbn [hbind] in H; [|discriminate].
    destruct o2 as [ent|]; [|discriminate].
    gs (g_remove_ent h [t1; b1; t2; b2] [] 1 b1 k h2 b1' (Some ent) eq_refl E2).
    destruct (h_swap_value h2 ent v) as [[h3 old]|e] eqn:E3; cbn [hbind] in H; [|discriminate].
    gs (g_swap h2 [t1; b1'; t2; b2] [ent] 0 ent v h3 old eq_refl E3).
    match type of H with context [hbind ?R _] => destruct R as [[h4 s2]|e] eqn:E4; cbn [hbind] in H; [|discriminate] end.
    eapply is_prog_trans; [exact (ha_replace_opt_prog _ h3 (mkHarc size _ t1 b1' t2 b2) false [ent] h4 s2 E4)|].
    destruct (h_put_nonnull h4 (ha_t2 s2) ent) as [[[h5 t2'] e5]|e] eqn:E5; cbn [hbind] in H; [|discriminate].
    unfold ga_fl at 1.
    gs (g_put_nonnull h4 [ha_t1 s2; ha_b1 s2; ha_t2 s2; ha_b2 s2] [ent] 2 0 (ha_t2 s2) ent h5 t2' e5 eq_refl eq_refl E5).
    inversion H; subst. apply is_prog_refl.
  - destruct (h_contains h b2 k) as [c2|e] eqn:Ec2; cbn [hbind] in H; [|discriminate].
    gs (g_pub h [t1; b1; t2; b2] [] 3 b2 (HContains k) h b2 (OBool c2) eq_refl ltac:(hstep_eq Ec2)).
    destruct c2.
    + destruct (h_remove_ent h b2 k) as [[[h2 b2'] o2]|e] eqn:E2; cbn [hbind] in H; [|discriminate].
      destruct o2 as [ent|]; [|discriminate].
      gs (g_remove_ent h [t1; b1; t2; b2] [] 3 b2 k h2 b2' (Some ent) eq_refl E2).
      destruct (h_swap_value h2 ent v) as [[h3 old]|e] eqn:E3; cbn [hbind] in H; [|discriminate].
      gs (g_swap h2 [t1; b1; t2; b2'] [ent] 0 ent v h3 old eq_refl E3).
      match type of H with context [hbind ?R _] => destruct R as [[h4 s2]|e] eqn:E4; cbn [hbind] in H; [|discriminate] end.
      eapply is_prog_trans; [exact (ha_replace_opt_prog _ h3 (mkHarc size _ t1 b1 t2 b2') true [ent] h4 s2 E4)|].
      destruct (h_put_nonnull h4 (ha_t2 s2) ent) as [[[h5 t2'] e5]|e] eqn:E5; cbn [hbind] in H; [|discriminate].
      unfold ga_fl at 1.
      gs (g_put_nonnull h4 [ha_t1 s2; ha_b1 s2; ha_t2 s2; ha_b2 s2] [ent] 2 0 (ha_t2 s2) ent h5 t2' e5 eq_refl eq_refl E5).
      inversion H; subst. apply is_prog_refl.
    + match type of H with context [hbind ?R _] => destruct R as [[h2 s1]|e] eqn:E2; cbn [hbind] in H; [|discriminate] end.
      eapply is_prog_trans; [exact (ha_replace_opt_prog _ h (mkHarc size p t1 b1 t2 b2) false [] h2 s1 E2)|].
      unfold ga_fl at 1.
      match type of H with context [hbind ?R _] => destruct R as [[h3 b1']|e] eqn:E3; cbn [hbind] in H; [|discriminate] end.
      assert (P3 : is_prog (mkG h2 [ha_t1 s1; ha_b1 s1; ha_t2 s1; ha_b2 s1] []) (mkG h3 [ha_t1 s1; b1'; ha_t2 s1; ha_b2 s1] [])).
      { destruct (size - p <? length (hidx b1)).
        - destruct (h_remove_lru h2 (ha_b1 s1)) as [[[hh qq] rr]|e] eqn:E3'; cbn [hbind] in E3; [|discriminate]. inversion E3; subst.
          gs (g_pub h2 [ha_t1 s1; ha_b1 s1; ha_t2 s1; ha_b2 s1] [] 1 (ha_b1 s1) HRemoveLru h3 b1' (OEnt rr) eq_refl ltac:(hstep_eq E3')).
          apply is_prog_refl.
        - inversion E3; subst. apply is_prog_refl. }
      eapply is_prog_trans; [exact P3|].
      match type of H with context [hbind ?R _] => destruct R as [[h4 b2']|e] eqn:E4; cbn [hbind] in H; [|discriminate] end.
      assert (P4 : is_prog (mkG h3 [ha_t1 s1; b1'; ha_t2 s1; ha_b2 s1] []) (mkG h4 [ha_t1 s1; b1'; ha_t2 s1; b2'] [])).
      { destruct (p <? length (hidx b2)).
        - destruct (h_remove_lru h3 (ha_b2 s1)) as [[[hh qq] rr]|e] eqn:E4'; cbn [hbind] in E4; [|discriminate]. inversion E4; subst.
          gs (g_pub h3 [ha_t1 s1; b1'; ha_t2 s1; ha_b2 s1] [] 3 (ha_b2 s1) HRemoveLru h4 b2' (OEnt rr) eq_refl ltac:(hstep_eq E4')).
          apply is_prog_refl.
        - inversion E4; subst. apply is_prog_refl. }
      eapply is_prog_trans; [exact P4|].
      destruct (h_put h4 (ha_t1 s1) k v) as [[[h5 t1''] r1]|e] eqn:E5; cbn [hbind] in H; [|discriminate].
      gs (g_pub h4 [ha_t1 s1; b1'; ha_t2 s1; b2'] [] 0 (ha_t1 s1) (HPut k v) h5 t1'' (OPut r1) eq_refl ltac:(hstep_eq E5)).
      inversion H; subst. apply is_prog_refl.
Qed.

Lemma put_nonnull_indexed h q n h' q' ev :
  h_put_nonnull h q n = HOk (h', q', ev) -> In n (map snd (hidx q')).
Proof.
  unfold h_put_nonnull. intros H.
  destruct (h_put_or_evict_nonnull h q n) as [[[h1 q1] o]|e] eqn:E; cbn [hbind] in H; [|discriminate].
  pose proof (put_or_evict_indexed _ _ _ _ _ _ E) as Hi. destruct o as [old|]; [|inversion H; subst; exact Hi].
  destruct (take_kv h1 old); cbn [hbind] in H; [|discriminate].
  destruct (hfree h1 old); cbn [hbind] in H; [|discriminate]. inversion H; subst. exact Hi.
Qed.

Lemma arc_pub h t1 b1 t2 b2 i q o h' q' out :
  nth_error [t1; b1; t2; b2] i = Some q -> hstep h q o = HOk (h', q', out) -> gop_ok (GPub i o) ->
  is_prog (mkG h [t1; b1; t2; b2] []) (mkG h' (set_nth i q' [t1; b1; t2; b2]) []).
Proof. intros En E Ho. eapply is_prog_step; [exact Ho|]. exact (g_pub h [t1; b1; t2; b2] [] i q o h' q' out En E). Qed.

Theorem ha_get_mut_prog h s k w h' s' r :
  ha_get_mut h s k w = HOk (h', s', r) -> is_prog (ga_of h s) (ga_of h' s').
Proof.
  unfold ha_get_mut, ga_of, ga_fl. intros H. destruct s as [size p t1 b1 t2 b2]. cbn [ha_t1 ha_b1 ha_t2 ha_b2 ha_size ha_p] in *.
  destruct (h_peek h t1 k) as [r0|e] eqn:E0; cbn [hbind] in H; [|discriminate].
  gs (g_pub h [t1; b1; t2; b2] [] 0 t1 (HPeek k) h t1 (OVal r0) eq_refl ltac:(hstep_eq E0)).
  destruct r0 as [v0|].
  - destruct (h_remove_ent h t1 k) as [[[h1 t1'] o]|e] eqn:E1; cbn [hbind] in H; [|discriminate].
    gs (g_remove_ent h [t1; b1; t2; b2] [] 0 t1 k h1 t1' o eq_refl E1).
    destruct o as [ent|]; [|inversion H; subst; apply is_prog_refl].
    destruct (h_put_nonnull h1 t2 ent) as [[[h2 t2'] e2]|e] eqn:E2; cbn [hbind] in H; [|discriminate].
    pose proof (put_nonnull_indexed _ _ _ _ _ _ E2) as Hidx.
    gs (g_put_nonnull h1 [t1'; b1; t2; b2] [ent] 2 0 t2 ent h2 t2' e2 eq_refl eq_refl E2).
    destruct (h_write h2 ent w) as [[h3 e3]|e] eqn:E3; cbn [hbind] in H; [|discriminate].
    gs (g_write_node h2 [t1'; b1; t2'; b2] [] 2 t2' ent w h3 e3 eq_refl Hidx E3).
    inversion H; subst. apply is_prog_refl.
  - destruct (h_get_mut h t2 k w) as [[h1 r1]|e] eqn:E1; cbn [hbind] in H; [|discriminate].
    gs (g_pub h [t1; b1; t2; b2] [] 2 t2 (HGetMut k w) h1 t2 (OVal r1) eq_refl ltac:(hstep_eq E1)).
    inversion H; subst. apply is_prog_refl.
Qed.

Theorem ha_step_prog h s o h' s' out :
  (forall i kd pre pa pb, o <> AIter i kd pre pa pb) -> ha_step h s o = HOk (h', s', out) ->
  is_prog (ga_of h s) (ga_of h' s').
Proof.
  intros Hno H. destruct o as [k v|k w|k|k w|k|k| |i kd pre pa pb]; cbn [ha_step] in H; [| | | | | | |exfalso; eapply Hno; reflexivity].
  - destruct (ha_put h s k v) as [[[h1 s1] r]|e] eqn:E; cbn [hbind] in H; [|discriminate]. inversion H; subst.
    eapply ha_put_prog; eauto.
  - destruct (ha_get_mut h s k w) as [[[h1 s1] r]|e] eqn:E; cbn [hbind] in H; [|discriminate]. inversion H; subst.
    eapply ha_get_mut_prog; eauto.
  - destruct (ha_peek h s k) as [r|e] eqn:E; cbn [hbind] in H; [|discriminate]. inversion H; subst.
    unfold ha_peek in E. destruct s' as [size p t1 b1 t2 b2]. unfold ga_of, ga_fl. cbn [ha_t1 ha_b1 ha_t2 ha_b2] in *.
    destruct (h_peek h' t1 k) as [r1|e] eqn:E1; cbn [hbind] in E; [|discriminate].
    pose proof (arc_pub h' t1 b1 t2 b2 0 t1 (HPeek k) h' t1 (OVal r1) eq_refl ltac:(hstep_eq E1) I) as P1.
    destruct r1; [exact P1|]. eapply is_prog_trans; [exact P1|].
    exact (arc_pub h' t1 b1 t2 b2 2 t2 (HPeek k) h' t2 (OVal r) eq_refl ltac:(hstep_eq E) I).
  - destruct (ha_peek_mut h s k w) as [[h1 r]|e] eqn:E; cbn [hbind] in H; [|discriminate]. inversion H; subst.
    unfold ha_peek_mut in E. destruct s' as [size p t1 b1 t2 b2]. unfold ga_of, ga_fl. cbn [ha_t1 ha_b1 ha_t2 ha_b2] in *.
    destruct (h_peek_mut h t1 k w) as [[h1 r1]|e] eqn:E1; cbn [hbind] in E; [|discriminate].
    pose proof (arc_pub h t1 b1 t2 b2 0 t1 (HPeekMut k w) h1 t1 (OVal r1) eq_refl ltac:(hstep_eq E1) I) as P1.
    destruct r1; [inversion E; subst; exact P1|]. eapply is_prog_trans; [exact P1|].
    exact (arc_pub h1 t1 b1 t2 b2 2 t2 (HPeekMut k w) h' t2 (OVal r) eq_refl ltac:(hstep_eq E) I).
  - destruct (ha_contains h s k) as [b|e] eqn:E; cbn [hbind] in H; [|discriminate]. inversion H; subst.
    unfold ha_contains in E. destruct s' as [size p t1 b1 t2 b2]. unfold ga_of, ga_fl. cbn [ha_t1 ha_b1 ha_t2 ha_b2] in *.
    destruct (h_contains h' t1 k) as [c1|e] eqn:E1; cbn [hbind] in E; [|discriminate].
    pose proof (arc_pub h' t1 b1 t2 b2 0 t1 (HContains k) h' t1 (OBool c1) eq_refl ltac:(hstep_eq E1) I) as P1.
    destruct c1; [exact P1|]. eapply is_prog_trans; [exact P1|].
    exact (arc_pub h' t1 b1 t2 b2 2 t2 (HContains k) h' t2 (OBool b) eq_refl ltac:(hstep_eq E) I).
  - destruct (ha_remove h s k) as [[[h1 s1] r]|e] eqn:E; cbn [hbind] in H; [|discriminate]. inversion H; subst.
    unfold ha_remove in E. destruct s as [size p t1 b1 t2 b2]. unfold ga_of, ga_fl. cbn [ha_t1 ha_b1 ha_t2 ha_b2 ha_size ha_p] in *.
    destruct (h_remove h t1 k) as [[[h1 t1'] r1]|e] eqn:E1; cbn [hbind] in E; [|discriminate].
    pose proof (arc_pub h t1 b1 t2 b2 0 t1 (HRemove k) h1 t1' (OVal r1) eq_refl ltac:(hstep_eq E1) I) as P1.
    cbn [set_nth firstn skipn app] in P1.
    destruct r1; [inversion E; subst; exact P1|].
    destruct (h_remove h1 t2 k) as [[[h2 t2'] r2]|e] eqn:E2; cbn [hbind] in E; [|discriminate].
    pose proof (arc_pub h1 t1' b1 t2 b2 2 t2 (HRemove k) h2 t2' (OVal r2) eq_refl ltac:(hstep_eq E2) I) as P2.
    cbn [set_nth firstn skipn app] in P2.
    destruct r2; [inversion E; subst; eapply is_prog_trans; [exact P1|exact P2]|].
    destruct (h_remove h2 b1 k) as [[[h3 b1'] r3]|e] eqn:E3; cbn [hbind] in E; [|discriminate].
    pose proof (arc_pub h2 t1' b1 t2' b2 1 b1 (HRemove k) h3 b1' (OVal r3) eq_refl ltac:(hstep_eq E3) I) as P3.
    cbn [set_nth firstn skipn app] in P3.
    destruct r3; [inversion E; subst; eapply is_prog_trans; [exact P1|]; eapply is_prog_trans; [exact P2|exact P3]|].
    destruct (h_remove h3 b2 k) as [[[h4 b2'] r4]|e] eqn:E4; cbn [hbind] in E; [|discriminate].
    pose proof (arc_pub h3 t1' b1' t2' b2 3 b2 (HRemove k) h4 b2' (OVal r4) eq_refl ltac:(hstep_eq E4) I) as P4.
    cbn [set_nth firstn skipn app] in P4.
    inversion E; subst. eapply is_prog_trans; [exact P1|]. eapply is_prog_trans; [exact P2|]. eapply is_prog_trans; [exact P3|exact P4].
  - destruct (ha_purge h s) as [[h1 s1]|e] eqn:E; cbn [hbind] in H; [|discriminate]. inversion H; subst.
    unfold ha_purge in E. destruct s as [size p t1 b1 t2 b2]. unfold ga_of, ga_fl. cbn [ha_t1 ha_b1 ha_t2 ha_b2 ha_size ha_p] in *.
    destruct (h_purge h t1) as [[h1 q1]|e] eqn:E1; cbn [hbind] in E; [|discriminate].
    destruct (h_purge h1 b1) as [[h2 q2]|e] eqn:E2; cbn [hbind] in E; [|discriminate].
    destruct (h_purge h2 t2) as [[h3 q3]|e] eqn:E3; cbn [hbind] in E; [|discriminate].
    destruct (h_purge h3 b2) as [[h4 q4]|e] eqn:E4; cbn [hbind] in E; [|discriminate].
    pose proof (arc_pub h t1 b1 t2 b2 0 t1 HPurge h1 q1 OUnit eq_refl ltac:(hstep_eq E1) I) as P1.
    pose proof (arc_pub h1 q1 b1 t2 b2 1 b1 HPurge h2 q2 OUnit eq_refl ltac:(hstep_eq E2) I) as P2.
    pose proof (arc_pub h2 q1 q2 t2 b2 2 t2 HPurge h3 q3 OUnit eq_refl ltac:(hstep_eq E3) I) as P3.
    pose proof (arc_pub h3 q1 q2 q3 b2 3 b2 HPurge h4 q4 OUnit eq_refl ltac:(hstep_eq E4) I) as P4.
    cbn [set_nth firstn skipn app] in P1, P2, P3, P4.
    inversion E; subst. eapply is_prog_trans; [exact P1|]. eapply is_prog_trans; [exact P2|]. eapply is_prog_trans; [exact P3|exact P4].
Qed.

Lemma arc_ginv h s l1 l2 l3 l4 :
  fam h [(ha_t1 s, l1); (ha_b1 s, l2); (ha_t2 s, l3); (ha_b2 s, l4)] [] ->
  0 < hcap (ha_t1 s) -> 0 < hcap (ha_b1 s) -> 0 < hcap (ha_t2 s) -> 0 < hcap (ha_b2 s) -> ginv (ga_of h s).
Proof.
  intros [Hwf Hnd _ _] Ha Hb Hc Hd. exists [(ha_t1 s, l1); (ha_b1 s, l2); (ha_t2 s, l3); (ha_b2 s, l4)], [].
  split; [|split; [reflexivity|split; [reflexivity|]]].
  - constructor; [|exact Hnd|intros ? ? ? []]. intros q l Hin. apply wf_wfw. now apply Hwf.
  - repeat constructor; assumption.
Qed.

Theorem arc_step_panic_safe h s l1 l2 l3 l4 o h' s' out f :
  fam h [(ha_t1 s, l1); (ha_b1 s, l2); (ha_t2 s, l3); (ha_b2 s, l4)] [] ->
  0 < hcap (ha_t1 s) -> 0 < hcap (ha_b1 s) -> 0 < hcap (ha_t2 s) -> 0 < hcap (ha_b2 s) ->
  (forall i kd pre pa pb, o <> AIter i kd pre pa pb) -> ha_step h s o = HOk (h', s', out) ->
  exists p, Forall gop_ok p /\ gprog None (ga_of h s) p = GOk None (ga_of h' s') /\ gsafe (gprog f (ga_of h s) p).
Proof.
  intros Hf Ha Hb Hc Hd Hno H. destruct (ha_step_prog h s o h' s' out Hno H) as (p & Hok & E).
  exists p. split; [exact Hok|]. split; [exact E|]. apply gprog_safe; [|exact Hok]. eapply arc_ginv; eauto.
Qed.

(** ** WTinyLFUCache: lists 0 and 1 are the main cache's probationary and protected segments, list 2 the window.
    It has no raw-pointer code of its own: every step is a public operation of the window or an
    operation of the SegmentedCache; the estimator is plain data. *)
From VF Require Import Tiny WTiny HeapWTinyDef.

Definition gw_of (h : heap) (s : hwtiny) : gstate :=
  mkG h (hprob (hw_slru s) :: hprot (hw_slru s) :: [hw_lru s]) [].

Lemma gw_gs h s : gw_of h s = gs_of [hw_lru s] h (hw_slru s).
Proof. reflexivity. Qed.

Lemma win_pub h qa qb lw o h' lw' out :
  hstep h lw o = HOk (h', lw', out) -> gop_ok (GPub 2 o) ->
  is_prog (mkG h (qa :: qb :: [lw]) []) (mkG h' (qa :: qb :: [lw']) []).
Proof. intros E Ho. eapply is_prog_step; [exact Ho|]. exact (g_pub h [qa; qb; lw] [] 2 lw o h' lw' out eq_refl E). Qed.

Lemma slru_sub lw h m o h' m' out :
  o <> SClone -> hs_step h m o = HOk (h', m', out) ->
  is_prog (mkG h (hprob m :: hprot m :: [lw]) []) (mkG h' (hprob m' :: hprot m' :: [lw]) []).
Proof. intros Hno E. exact (hs_step_prog [lw] h m o h' m' out Hno E). Qed.

Lemma h_write_none h n h1 e : h_write h n None = HOk (h1, e) -> h1 = h.
Proof.
  unfold h_write. destruct (hread h n) as [[[[k ov] p] x]|e0]; cbn [hbind]; [|discriminate].
  destruct k, ov; intros H; inversion H; reflexivity.
Qed.

Lemma h_peek_lru_none h q h1 o : h_peek_lru h q None = HOk (h1, o) -> h1 = h.
Proof.
  unfold h_peek_lru. destruct (Nat.eqb (length (hidx q)) 0); [intros H; now inversion H|].
  destruct (tail_prev h q) as [n|e]; cbn [hbind]; [|discriminate].
  destruct (h_write h n None) as [[h2 e2]|e] eqn:E; cbn [hbind]; [|discriminate].
  intros H. inversion H; subst. eapply h_write_none; eauto.
Qed.

Ltac sl_put E := (eapply slru_sub; [discriminate|cbn [hs_step]; rewrite E; reflexivity]).

Lemma hw_admit_prog h s l1 ck cv h' s' r :
  hw_admit h s l1 ck cv = HOk (h', s', r) ->
  is_prog (mkG h (hprob (hw_slru s) :: hprot (hw_slru s) :: [l1]) []) (gw_of h' s').
Proof.
  unfold hw_admit, gw_of. intros H. destruct s as [t kh lw m]. cbn [hw_slru hw_tiny hw_kh hw_lru hw_with] in *.
  assert (Pput : forall h2 m2 r2, hs_put h m ck cv = HOk (h2, m2, r2) ->
                 is_prog (mkG h (hprob m :: hprot m :: [l1]) []) (mkG h2 (hprob m2 :: hprot m2 :: [l1]) [])).
  { intros h2 m2 r2 E. apply (slru_sub l1 h m (SPut ck cv) h2 m2 (OPut r2)); [discriminate|]. cbn [hs_step]. now rewrite E. }
  destruct (Nat.ltb (hs_len m) (hs_cap m)).
  - destruct (hs_put h m ck cv) as [[[h1 m'] r1]|e] eqn:E; cbn [hbind] in H; [|discriminate]. inversion H; subst.
    cbn [hw_slru hw_lru]. eapply Pput; eauto.
  - destruct (h_peek_lru h (hprob m) None) as [[hx o]|e] eqn:E0; cbn [hbind] in H; [|discriminate].
    pose proof (h_peek_lru_none _ _ _ _ E0) as ->.
    gs (g_pub h [hprob m; hprot m; l1] [] 0 (hprob m) (HPeekLru None) h (hprob m) (OEnt o) eq_refl ltac:(hstep_eq E0)).
    destruct o as [[vk vv]|].
    + match type of H with context [hbind ?R _] => destruct R as [lt|e] eqn:Elt; cbn [hbind] in H; [|discriminate] end.
      destruct lt; [inversion H; subst; cbn [hw_slru hw_lru]; apply is_prog_refl|].
      destruct (hs_put h m ck cv) as [[[h1 m'] r1]|e] eqn:E; cbn [hbind] in H; [|discriminate]. inversion H; subst.
      cbn [hw_slru hw_lru]. eapply Pput; eauto.
    + destruct (hs_put h m ck cv) as [[[h1 m'] r1]|e] eqn:E; cbn [hbind] in H; [|discriminate]. inversion H; subst.
      cbn [hw_slru hw_lru]. eapply Pput; eauto.
Qed.

Theorem hw_put_prog h s k v h' s' r :
  hw_put h s k v = HOk (h', s', r) -> is_prog (gw_of h s) (gw_of h' s').
Proof.
  unfold hw_put, gw_of. intros H. destruct s as [t kh lw m]. cbn [hw_slru hw_tiny hw_kh hw_lru hw_with] in *.
  destruct (h_remove h lw k) as [[[h1 l1] r1]|e] eqn:E1; cbn [hbind] in H; [|discriminate].
  eapply is_prog_trans; [exact (win_pub h (hprob m) (hprot m) lw (HRemove k) h1 l1 (OVal r1) ltac:(hstep_eq E1) I)|].
  destruct r1 as [old|].
  - (* the key was in the window: it goes to the protected segment, whose LRU entry (if full) takes its place *)
    match type of H with context [hbind ?R _] => destruct R as [[[h2 l2] m1]|e] eqn:E2; cbn [hbind] in H; [|discriminate] end.
    assert (P2 : is_prog (mkG h1 (hprob m :: hprot m :: [l1]) []) (mkG h2 (hprob m1 :: hprot m1 :: [l2]) [])).
    { destruct (Nat.leb (hcap (hprot m)) (length (hidx (hprot m)))).
      - destruct (h_remove_lru h1 (hprot m)) as [[[hh p'] o]|e] eqn:E3; cbn [hbind] in E2; [|discriminate].
        destruct o as [[ek ev]|]; [|discriminate].
        destruct (h_put hh l1 ek ev) as [[[hh2 l2'] r2]|e] eqn:E4; cbn [hbind] in E2; [|discriminate]. inversion E2; subst.
        cbn [hprob hprot].
        gs (g_pub h1 [hprob m; hprot m; l1] [] 1 (hprot m) HRemoveLru hh p' (OEnt (Some (ek, ev))) eq_refl ltac:(hstep_eq E3)).
        gs (g_pub hh [hprob m; p'; l1] [] 2 l1 (HPut ek ev) h2 l2 (OPut r2) eq_refl ltac:(hstep_eq E4)).
        apply is_prog_refl.
      - inversion E2; subst. apply is_prog_refl. }
    eapply is_prog_trans; [exact P2|].
    destruct (hs_put_protected h2 m1 k v) as [[[h3 m2] r3]|e] eqn:E5; cbn [hbind] in H; [|discriminate]. inversion H; subst.
    cbn [hw_slru hw_lru]. apply (slru_sub l2 h2 m1 (SPutProtected k v) h' m2 (OPut r3)); [discriminate|].
    cbn [hs_step]. now rewrite E5.
  - destruct (hs_contains h1 m k) as [c|e] eqn:Ec; cbn [hbind] in H; [|discriminate].
    eapply is_prog_trans.
    { apply (slru_sub l1 h1 m (SContains k) h1 m (OBool c)); [discriminate|]. cbn [hs_step]. now rewrite Ec. }
    destruct c.
    + destruct (hs_put h1 m k v) as [[[h2 m'] r2]|e] eqn:E2; cbn [hbind] in H; [|discriminate]. inversion H; subst.
      cbn [hw_slru hw_lru]. apply (slru_sub l1 h1 m (SPut k v) h' m' (OPut r)); [discriminate|]. cbn [hs_step]. now rewrite E2.
    + destruct (h_put h1 l1 k v) as [[[h2 l2] r2]|e] eqn:E2; cbn [hbind] in H; [|discriminate].
      eapply is_prog_trans; [exact (win_pub h1 (hprob m) (hprot m) l1 (HPut k v) h2 l2 (OPut r2) ltac:(hstep_eq E2) I)|].
      destruct r2 as [ | o | ck cv | ? ? ? ]; try (inversion H; subst; cbn [hw_slru hw_lru]; apply is_prog_refl).
      exact (hw_admit_prog h2 (mkHwtiny t kh lw m) l2 ck cv h' s' r H).
Qed.

Theorem hw_step_prog h s o h' s' out :
  o <> WClone -> hw_step h s o = HOk (h', s', out) -> is_prog (gw_of h s) (gw_of h' s').
Proof.
  intros Hno H. destruct o as [k v|k w|k|k w|k|k| |]; cbn [hw_step] in H; [| | | | | | |congruence].
  - destruct (hw_put h s k v) as [[[h1 s1] r]|e] eqn:E; cbn [hbind] in H; [|discriminate]. inversion H; subst.
    eapply hw_put_prog; eauto.
  - (* get / get_mut: the estimator records the access (plain data), then the window, then the main cache *)
    destruct (hw_get_mut h s k w) as [[[h1 s1] r]|e] eqn:E; cbn [hbind] in H; [|discriminate]. inversion H; subst.
    unfold hw_get_mut in E. destruct s as [t kh lw m]. unfold gw_of. cbn [hw_slru hw_tiny hw_kh hw_lru hw_with] in *.
    match type of E with context [hbind ?R _] => destruct R as [t'|e] eqn:Et; cbn [hbind] in E; [|discriminate] end.
    destruct (h_get_mut h lw k w) as [[h1 r1]|e] eqn:E1; cbn [hbind] in E; [|discriminate].
    eapply is_prog_trans; [exact (win_pub h (hprob m) (hprot m) lw (HGetMut k w) h1 lw (OVal r1) ltac:(hstep_eq E1) I)|].
    destruct r1 as [v1|]; [inversion E; subst; cbn [hw_slru hw_lru]; apply is_prog_refl|].
    destruct (hs_get_mut h1 m k w) as [[[h2 m'] r2]|e] eqn:E2; cbn [hbind] in E; [|discriminate]. inversion E; subst.
    cbn [hw_slru hw_lru]. apply (slru_sub lw h1 m (SGetMut k w) h' m' (OVal r)); [discriminate|]. cbn [hs_step]. now rewrite E2.
  - destruct (hw_peek h s k) as [r|e] eqn:E; cbn [hbind] in H; [|discriminate]. inversion H; subst.
    unfold hw_peek in E. destruct s' as [t kh lw m]. unfold gw_of. cbn [hw_slru hw_lru] in *.
    destruct (h_peek h' lw k) as [r1|e] eqn:E1; cbn [hbind] in E; [|discriminate].
    eapply is_prog_trans; [exact (win_pub h' (hprob m) (hprot m) lw (HPeek k) h' lw (OVal r1) ltac:(hstep_eq E1) I)|].
    destruct r1; [apply is_prog_refl|].
    apply (slru_sub lw h' m (SPeek k) h' m (OVal r)); [discriminate|]. cbn [hs_step]. now rewrite E.
  - destruct (hw_peek_mut h s k w) as [[h1 r]|e] eqn:E; cbn [hbind] in H; [|discriminate]. inversion H; subst.
    unfold hw_peek_mut in E. destruct s' as [t kh lw m]. unfold gw_of. cbn [hw_slru hw_lru] in *.
    destruct (h_peek_mut h lw k w) as [[h1 r1]|e] eqn:E1; cbn [hbind] in E; [|discriminate].
    eapply is_prog_trans; [exact (win_pub h (hprob m) (hprot m) lw (HPeekMut k w) h1 lw (OVal r1) ltac:(hstep_eq E1) I)|].
    destruct r1; [inversion E; subst; apply is_prog_refl|].
    apply (slru_sub lw h1 m (SPeekMut k w) h' m (OVal r)); [discriminate|]. cbn [hs_step]. now rewrite E.
  - destruct (hw_contains h s k) as [b|e] eqn:E; cbn [hbind] in H; [|discriminate]. inversion H; subst.
    unfold hw_contains in E. destruct s' as [t kh lw m]. unfold gw_of. cbn [hw_slru hw_lru] in *.
    destruct (h_contains h' lw k) as [c1|e] eqn:E1; cbn [hbind] in E; [|discriminate].
    eapply is_prog_trans; [exact (win_pub h' (hprob m) (hprot m) lw (HContains k) h' lw (OBool c1) ltac:(hstep_eq E1) I)|].
    destruct c1; [apply is_prog_refl|].
    apply (slru_sub lw h' m (SContains k) h' m (OBool b)); [discriminate|]. cbn [hs_step]. now rewrite E.
  - destruct (hw_remove h s k) as [[[h1 s1] r]|e] eqn:E; cbn [hbind] in H; [|discriminate]. inversion H; subst.
    unfold hw_remove in E. destruct s as [t kh lw m]. unfold gw_of. cbn [hw_slru hw_tiny hw_kh hw_lru hw_with] in *.
    destruct (h_remove h lw k) as [[[h1 l1] r1]|e] eqn:E1; cbn [hbind] in E; [|discriminate].
    eapply is_prog_trans; [exact (win_pub h (hprob m) (hprot m) lw (HRemove k) h1 l1 (OVal r1) ltac:(hstep_eq E1) I)|].
    destruct r1; [inversion E; subst; cbn [hw_slru hw_lru]; apply is_prog_refl|].
    destruct (hs_remove h1 m k) as [[[h2 m'] r2]|e] eqn:E2; cbn [hbind] in E; [|discriminate]. inversion E; subst.
    cbn [hw_slru hw_lru]. apply (slru_sub l1 h1 m (SRemove k) h' m' (OVal r)); [discriminate|]. cbn [hs_step]. now rewrite E2.
  - destruct (hw_purge h s) as [[h1 s1]|e] eqn:E; cbn [hbind] in H; [|discriminate]. inversion H; subst.
    unfold hw_purge in E. destruct s as [t kh lw m]. unfold gw_of. cbn [hw_slru hw_tiny hw_kh hw_lru hw_with] in *.
    destruct (h_purge h lw) as [[h1 l1]|e] eqn:E1; cbn [hbind] in E; [|discriminate].
    eapply is_prog_trans; [exact (win_pub h (hprob m) (hprot m) lw HPurge h1 l1 OUnit ltac:(hstep_eq E1) I)|].
    destruct (hs_purge h1 m) as [[h2 m']|e] eqn:E2; cbn [hbind] in E; [|discriminate]. inversion E; subst.
    cbn [hw_slru hw_lru]. apply (slru_sub l1 h1 m SPurge h' m' OUnit); [discriminate|]. cbn [hs_step]. now rewrite E2.
Qed.

Lemma wtiny_ginv h s la lb lw :
  fam h [(hprob (hw_slru s), la); (hprot (hw_slru s), lb); (hw_lru s, lw)] [] ->
  (0 < hcap (hprob (hw_slru s)))%nat -> (0 < hcap (hprot (hw_slru s)))%nat -> (0 < hcap (hw_lru s))%nat -> ginv (gw_of h s).
Proof.
  intros [Hwf Hnd _ _] Ha Hb Hc. exists [(hprob (hw_slru s), la); (hprot (hw_slru s), lb); (hw_lru s, lw)], [].
  split; [|split; [reflexivity|split; [reflexivity|]]].
  - constructor; [|exact Hnd|intros ? ? ? []]. intros q l Hin. apply wf_wfw. now apply Hwf.
  - repeat constructor; assumption.
Qed.

Theorem wtiny_step_panic_safe h s la lb lw o h' s' out f :
  fam h [(hprob (hw_slru s), la); (hprot (hw_slru s), lb); (hw_lru s, lw)] [] ->
  (0 < hcap (hprob (hw_slru s)))%nat -> (0 < hcap (hprot (hw_slru s)))%nat -> (0 < hcap (hw_lru s))%nat ->
  o <> WClone -> hw_step h s o = HOk (h', s', out) ->
  exists p, Forall gop_ok p /\ gprog None (gw_of h s) p = GOk None (gw_of h' s') /\ gsafe (gprog f (gw_of h s) p).
Proof.
  intros Hf Ha Hb Hc Hno H. destruct (hw_step_prog h s o h' s' out Hno H) as (p & Hok & E).
  exists p. split; [exact Hok|]. split; [exact E|]. apply gprog_safe; [|exact Hok]. eapply wtiny_ginv; eauto.
Qed.

(** ** Clone and Drop as programs.  [Clone for RawLRU] is [new] followed, for every entry read through
    the LRU-side cursor of the original, by [Clone] of the key, [Clone] of the value (user code) and a
    [put] into the new list; the composite caches clone their lists one after the other. *)
Lemma g_tick s c : gstep None s (GTick c) = GOk None s.
Proof. reflexivity. Qed.

Lemma g_new h qs fl c : gstep None (mkG h qs fl) (GNew c) = GOk None (mkG (fst (hnew h c)) (qs ++ [snd (hnew h c)]) fl).
Proof. cbn [gstep gh gls gfl]. now destruct (hnew h c). Qed.

Lemma f_drop_nodes_erase (i : list (addr * addr)) : forall h q h',
  h_drop_nodes h i = HOk h' -> f_drop_nodes None h q i = FOk (None, h').
Proof.
  induction i as [|[ka na] rest IH]; intros h q h' H; cbn [h_drop_nodes f_drop_nodes] in *; [now inversion H|].
  destruct (take_kv h na) as [e|e]; cbn [hbind] in H; [|discriminate]. cbn [lift fbind].
  destruct (hfree h na) as [h1|e1]; cbn [hbind] in H; [|discriminate]. cbn [lift fbind tick]. now apply IH.
Qed.

Lemma f_drop_erase h q h' : h_drop h q = HOk h' -> f_drop None h q = FOk h'.
Proof.
  unfold h_drop, f_drop. intros H.
  destruct (h_drop_nodes h (hidx q)) as [h1|e] eqn:E; cbn [hbind] in H; [|discriminate].
  rewrite (f_drop_nodes_erase _ _ q _ E). cbn [fbind].
  destruct (hfree h1 (hhead q)) as [h2|e]; cbn [hbind] in H; [|discriminate]. cbn [lift fbind].
  rewrite H. reflexivity.
Qed.

Lemma g_drop h qs fl i q h' :
  nth_error qs i = Some q -> h_drop h q = HOk h' -> gstep None (mkG h qs fl) (GDrop i) = GOk None (mkG h' (del_nth i qs) fl).
Proof. intros En E. cbn [gstep gh gls gfl]. now rewrite En, (f_drop_erase _ _ _ E). Qed.

Lemma h_it_take_none h it b h1 it1 y : h_it_take h it b None = HOk (h1, it1, y) -> h1 = h.
Proof.
  unfold h_it_take. destruct (Nat.eqb (hi_len it) 0); [intros H; now inversion H|].
  destruct (hread h _) as [[[[ok ov] p] n]|e]; cbn [hbind]; [|discriminate].
  destruct ok, ov; intros H; inversion H; reflexivity.
Qed.

Lemma nth_last {A} (l : list A) x : nth_error (l ++ [x]) (length l) = Some x.
Proof. rewrite nth_error_app2 by lia. now rewrite Nat.sub_diag. Qed.

Lemma set_nth_last {A} (l : list A) x y : FaultPrim.set_nth (length l) y (l ++ [x]) = l ++ [y].
Proof. now apply set_nth_mid. Qed.

Lemma clone_loop_prog qs fl : forall n h it q' h' q'',
  h_clone_loop n h it q' = HOk (h', q'') -> is_prog (mkG h (qs ++ [q']) fl) (mkG h' (qs ++ [q'']) fl).
Proof.
  induction n as [|n IH]; intros h it q' h' q'' H; cbn [h_clone_loop] in H; [inversion H; subst; apply is_prog_refl|].
  destruct (h_it_take h it false None) as [[[h1 it1] y]|e] eqn:E1; cbn [hbind] in H; [|discriminate].
  pose proof (h_it_take_none _ _ _ _ _ _ E1) as ->.
  destruct y as [[a [k v]]|]; [|inversion H; subst; apply is_prog_refl].
  destruct (h_put h q' k v) as [[[h2 q2] r]|e] eqn:E2; cbn [hbind] in H; [|discriminate].
  eapply is_prog_trans; [pstep (g_tick (mkG h (qs ++ [q']) fl) TClone)|].
  eapply is_prog_trans; [pstep (g_tick (mkG h (qs ++ [q']) fl) TClone)|].
  pose proof (g_pub h (qs ++ [q']) fl (length qs) q' (HPut k v) h2 q2 (OPut r) (nth_last qs q') ltac:(hstep_eq E2)) as G.
  rewrite set_nth_last in G.
  eapply is_prog_trans; [pstep G|]. eapply IH; eauto.
Qed.

Lemma h_clone_prog qs fl h q h' q' :
  (0 < hcap q)%nat -> h_clone h q = HOk (h', q') -> is_prog (mkG h qs fl) (mkG h' (qs ++ [q']) fl).
Proof.
  intros Hc H. unfold h_clone in H. cbv zeta in H.
  destruct (h_iter (fst (hnew h (hcap q))) q) as [it|e]; cbn [hbind] in H; [|discriminate].
  eapply is_prog_trans; [eapply is_prog_step; [|exact (g_new h qs fl (hcap q))]; exact Hc|].
  eapply clone_loop_prog; eauto.
Qed.

(** [x = x.clone()] for a RawLRU alone: clone, then the original is dropped *)
Theorem h_clone_replace_prog h q h' q' :
  (0 < hcap q)%nat -> h_clone_replace h q = HOk (h', q') -> is_prog (mkG h [q] []) (mkG h' [q'] []).
Proof.
  intros Hc H. unfold h_clone_replace in H.
  destruct (h_clone h q) as [[h1 q1]|e] eqn:E1; cbn [hbind] in H; [|discriminate].
  destruct (h_drop h1 q) as [h2|e] eqn:E2; cbn [hbind] in H; [|discriminate]. inversion H; subst.
  eapply is_prog_trans; [exact (h_clone_prog [q] [] h q h1 q' Hc E1)|].
  pstep (g_drop h1 ([q] ++ [q']) [] 0 q h' eq_refl E2).
Qed.

Definition sop_is_clone (o : sop) : bool := match o with SClone => true | _ => false end.

Theorem hs_clone_replace_prog h s h' s' :
  (0 < hcap (hprob s))%nat -> (0 < hcap (hprot s))%nat ->
  hs_clone_replace h s = HOk (h', s') -> is_prog (gs_of [] h s) (gs_of [] h' s').
Proof.
  intros Ha Hb H. unfold hs_clone_replace, hs_clone, hs_drop in H. destruct s as [qa qb]. unfold gs_of. cbn [hprob hprot] in *.
  destruct (h_clone h qa) as [[h1 qa']|e] eqn:E1; cbn [hbind] in H; [|discriminate].
  destruct (h_clone h1 qb) as [[h2 qb']|e] eqn:E2; cbn [hbind] in H; [|discriminate].
  destruct (h_drop h2 qa) as [h3|e] eqn:E3; cbn [hbind] in H; [|discriminate].
  destruct (h_drop h3 qb) as [h4|e] eqn:E4; cbn [hbind] in H; [|discriminate]. inversion H; subst. cbn [hprob hprot].
  eapply is_prog_trans; [exact (h_clone_prog [qa; qb] [] h qa h1 qa' Ha E1)|].
  eapply is_prog_trans; [exact (h_clone_prog ([qa; qb] ++ [qa']) [] h1 qb h2 qb' Hb E2)|].
  eapply is_prog_trans; [pstep (g_drop h2 (([qa; qb] ++ [qa']) ++ [qb']) [] 0 qa h3 eq_refl E3)|].
  pstep (g_drop h3 [qb; qa'; qb'] [] 0 qb h' eq_refl E4).
Qed.

(** every operation of the heap-level SegmentedCache, Clone included *)
Theorem hs_step_prog_all h s o h' s' out :
  (0 < hcap (hprob s))%nat -> (0 < hcap (hprot s))%nat ->
  hs_step h s o = HOk (h', s', out) -> is_prog (gs_of [] h s) (gs_of [] h' s').
Proof.
  intros Ha Hb H. destruct (sop_is_clone o) eqn:Eo.
  - destruct o; try discriminate. cbn [hs_step] in H.
    destruct (hs_clone_replace h s) as [[h1 s1]|e] eqn:E; cbn [hbind] in H; [|discriminate]. inversion H; subst.
    eapply hs_clone_replace_prog; eauto.
  - eapply hs_step_prog; [|exact H]. intros ->. discriminate.
Qed.

(** [Clone for WTinyLFUCache]: the window, then the two segments of the main cache; then the original is
    dropped.  The machine keeps its lists by position, so the clone's lists come out in the order
    they were made: window first. *)
Theorem hw_clone_replace_prog h s h' s' :
  (0 < hcap (hprob (hw_slru s)))%nat -> (0 < hcap (hprot (hw_slru s)))%nat -> (0 < hcap (hw_lru s))%nat ->
  hw_clone_replace h s = HOk (h', s') ->
  is_prog (gw_of h s) (mkG h' [hw_lru s'; hprob (hw_slru s'); hprot (hw_slru s')] []).
Proof.
  intros Ha Hb Hc H. unfold hw_clone_replace, hw_clone, hs_clone, hw_drop, hs_drop in H.
  destruct s as [t kh lw [qa qb]]. unfold gw_of. cbn [hw_slru hw_lru hw_tiny hw_kh hw_with hprob hprot] in *.
  destruct (h_clone h lw) as [[h1 lw']|e] eqn:E1; cbn [hbind] in H; [|discriminate].
  destruct (h_clone h1 qa) as [[h2 qa']|e] eqn:E2; cbn [hbind] in H; [|discriminate].
  destruct (h_clone h2 qb) as [[h3 qb']|e] eqn:E3; cbn [hbind] in H; [|discriminate].
  destruct (h_drop h3 lw) as [h4|e] eqn:E4; cbn [hbind] in H; [|discriminate].
  destruct (h_drop h4 qa) as [h5|e] eqn:E5; cbn [hbind] in H; [|discriminate].
  destruct (h_drop h5 qb) as [h6|e] eqn:E6; cbn [hbind] in H; [|discriminate]. inversion H; subst.
  cbn [hw_slru hw_lru hprob hprot].
  eapply is_prog_trans; [exact (h_clone_prog [qa; qb; lw] [] h lw h1 lw' Hc E1)|].
  eapply is_prog_trans; [exact (h_clone_prog ([qa; qb; lw] ++ [lw']) [] h1 qa h2 qa' Ha E2)|].
  eapply is_prog_trans; [exact (h_clone_prog (([qa; qb; lw] ++ [lw']) ++ [qa']) [] h2 qb h3 qb' Hb E3)|].
  eapply is_prog_trans; [pstep (g_drop h3 ((([qa; qb; lw] ++ [lw']) ++ [qa']) ++ [qb']) [] 2 lw h4 eq_refl E4)|].
  eapply is_prog_trans; [pstep (g_drop h4 [qa; qb; lw'; qa'; qb'] [] 0 qa h5 eq_refl E5)|].
  pstep (g_drop h5 [qb; lw'; qa'; qb'] [] 0 qb h' eq_refl E6).
Qed.

Definition wop_is_clone (o : wop) : bool := match o with WClone => true | _ => false end.

Theorem hw_step_prog_all h s o h' s' out :
  (0 < hcap (hprob (hw_slru s)))%nat -> (0 < hcap (hprot (hw_slru s)))%nat -> (0 < hcap (hw_lru s))%nat ->
  hw_step h s o = HOk (h', s', out) ->
  exists qs, Permutation qs (gls (gw_of h' s')) /\ is_prog (gw_of h s) (mkG h' qs []).
Proof.
  intros Ha Hb Hc H. destruct (wop_is_clone o) eqn:Eo.
  - destruct o; try discriminate. cbn [hw_step] in H.
    destruct (hw_clone_replace h s) as [[h1 s1]|e] eqn:E; cbn [hbind] in H; [|discriminate]. inversion H; subst.
    exists [hw_lru s'; hprob (hw_slru s'); hprot (hw_slru s')]. split; [|eapply hw_clone_replace_prog; eauto].
    unfold gw_of. cbn [gls]. apply (Permutation_cons_append [hprob (hw_slru s'); hprot (hw_slru s')] (hw_lru s')).
  - exists (gls (gw_of h' s')). split; [apply Permutation_refl|]. eapply hw_step_prog; [|exact H]. intros ->. discriminate.
Qed.

(** ** the final statements, Clone included *)
Theorem slru_step_panic_safe_all h s la lb o h' s' out f :
  fam h [(hprob s, la); (hprot s, lb)] [] -> (0 < hcap (hprob s))%nat -> (0 < hcap (hprot s))%nat ->
  hs_step h s o = HOk (h', s', out) ->
  exists p, Forall gop_ok p /\ gprog None (gs_of [] h s) p = GOk None (gs_of [] h' s') /\ gsafe (gprog f (gs_of [] h s) p).
Proof.
  intros Hf Ha Hb H. destruct (hs_step_prog_all h s o h' s' out Ha Hb H) as (p & Hok & E).
  exists p. split; [exact Hok|]. split; [exact E|]. apply gprog_safe; [|exact Hok]. eapply slru_ginv; eauto.
Qed.

Theorem wtiny_step_panic_safe_all h s la lb lw o h' s' out f :
  fam h [(hprob (hw_slru s), la); (hprot (hw_slru s), lb); (hw_lru s, lw)] [] ->
  (0 < hcap (hprob (hw_slru s)))%nat -> (0 < hcap (hprot (hw_slru s)))%nat -> (0 < hcap (hw_lru s))%nat ->
  hw_step h s o = HOk (h', s', out) ->
  exists p qs, Forall gop_ok p /\ Permutation qs (gls (gw_of h' s')) /\
               gprog None (gw_of h s) p = GOk None (mkG h' qs []) /\ gsafe (gprog f (gw_of h s) p).
Proof.
  intros Hf Ha Hb Hc H. destruct (hw_step_prog_all h s o h' s' out Ha Hb Hc H) as (qs & Hperm & p & Hok & E).
  exists p, qs. split; [exact Hok|]. split; [exact Hperm|]. split; [exact E|]. apply gprog_safe; [|exact Hok]. eapply wtiny_ginv; eauto.
Qed.

Theorem rawlru_clone_panic_safe h q l h' q' f :
  wf h q l -> (forall a, outside q l a -> cells h a = Free) -> (0 < hcap q)%nat -> h_clone_replace h q = HOk (h', q') ->
  exists p, Forall gop_ok p /\ gprog None (mkG h [q] []) p = GOk None (mkG h' [q'] []) /\ gsafe (gprog f (mkG h [q] []) p).
Proof.
  intros Hwf _ Hc H. destruct (h_clone_replace_prog h q h' q' Hc H) as (p & Hok & E).
  exists p. split; [exact Hok|]. split; [exact E|]. apply gprog_safe; [|exact Hok].
  exists [(q, l)], []. split; [|split; [reflexivity|split; [reflexivity|repeat constructor; exact Hc]]].
  constructor; [|rewrite app_nil_r; cbn [flat_map]; rewrite app_nil_r; exact (wf_nodup _ _ _ Hwf)|intros ? ? ? []].
  intros q0 l0 [E0|[]]. inversion E0; subst. now apply wf_wfw.
Qed.

(** ** user code called by the composite caches themselves (the KeyHasher of W-TinyLFU, the drop of a pair a
    primitive handed back, ...) may sit between any two actions: adding ticks anywhere to a program
    changes nothing without a fuse, and the result is still a program the family theorem covers *)
Inductive with_ticks : list gop -> list gop -> Prop :=
| wt_nil : with_ticks [] []
| wt_keep o p p' : with_ticks p p' -> with_ticks (o :: p) (o :: p')
| wt_tick c p p' : with_ticks p p' -> with_ticks p (GTick c :: p').

Lemma with_ticks_run p p' : with_ticks p p' -> forall s s', gprog None s p = GOk None s' -> gprog None s p' = GOk None s'.
Proof.
  induction 1 as [|o p p' _ IH|c p p' _ IH]; intros s s' H; [exact H| |].
  - cbn [gprog] in *. destruct (gstep None s o) as [f1 s1|s1|e] eqn:E; try discriminate.
    pose proof (gstep_none _ _ _ _ E) as ->. now apply IH.
  - cbn [gprog gstep]. now apply IH.
Qed.

Lemma with_ticks_ok p p' : with_ticks p p' -> Forall gop_ok p -> Forall gop_ok p'.
Proof.
  induction 1 as [|o p p' _ IH|c p p' _ IH]; intros H; [constructor| |].
  - inversion H; subst. constructor; auto.
  - constructor; [exact I|auto].
Qed.

(** so: whatever program an operation is, with user code of the composite cache called between any
    of its actions, every fuse is survived *)
Theorem prog_with_ticks_safe s s' p p' f :
  ginv s -> Forall gop_ok p -> gprog None s p = GOk None s' -> with_ticks p p' ->
  gprog None s p' = GOk None s' /\ gsafe (gprog f s p').
Proof.
  intros Hi Hok E Hw. split; [eapply with_ticks_run; eauto|]. apply gprog_safe; [exact Hi|eapply with_ticks_ok; eauto].
Qed.

(** ** end to end, SegmentedCache: any history of operations from [new], then one more operation during
    which any call into user code panics, then any programs over the primitives (what the cache's
    code does in a state the heap-level model no longer describes), panics and drops included *)
From VF Require Import Slru SlruFacts HeapSlru.

Theorem slru_history_panic_safe pc fc os o f ps :
  (1 <= pc)%nat -> (1 <= fc)%nat -> Forall (fun fp => Forall gop_ok (snd fp)) ps ->
  exists h s outs,
    hs_run (fst (hs_new heap0 pc fc)) (snd (hs_new heap0 pc fc)) os = HOk (h, s, outs) /\
    ginv (gs_of [] h s) /\
    forall h' s' out, hs_step h s o = HOk (h', s', out) ->
      exists p, Forall gop_ok p /\ gprog None (gs_of [] h s) p = GOk None (gs_of [] h' s') /\
        match gprog f (gs_of [] h s) p with
        | GOk _ s1 | GPanic s1 => exists s2, grun s1 ps = Some s2 /\ ginv s2
        | GErr _ => False
        end.
Proof.
  intros H1 H2 Hps.
  destruct (slru_run_refines_gen [] os _ _ _ (hs_new_refines pc fc) (slru_new_inv pc fc H1 H2))
    as (h & s & ls & outs & E1 & _ & (la & lb & Hf & _ & _ & Ca & Cb) & (Ia & Ib & _)).
  assert (Ha : (0 < hcap (hprob s))%nat) by lia. assert (Hb : (0 < hcap (hprot s))%nat) by lia.
  exists h, s, outs. split; [exact E1|]. split; [eapply slru_ginv; eauto|].
  intros h' s' out Hs.
  destruct (slru_step_panic_safe_all h s la lb o h' s' out f Hf Ha Hb Hs) as (p & Hok & E & Hsafe).
  exists p. split; [exact Hok|]. split; [exact E|].
  destruct (gprog f (gs_of [] h s) p) as [f1 s1|s1|e]; [apply grun_safe; assumption|apply grun_safe; assumption|exact Hsafe].
Qed.

(** ** the same, end to end, for TwoQueueCache, AdaptiveCache and WTinyLFUCache *)
From VF Require Import TwoQ Arc TwoQFacts ArcFacts WTinyFacts HeapRefine HeapTwoQ HeapArc HeapWTiny.

Lemma twoq_run_inv : forall os h s ls, RQ h s ls -> twoq_inv ls -> Forall qop_ok os ->
  exists h1 s1 ls1 outs, ht_run h s os = HOk (h1, s1, outs) /\ RQ h1 s1 ls1 /\ twoq_inv ls1.
Proof.
  induction os as [|o rest IH]; intros h s ls HR Hinv Hok; [cbn; eauto 10|].
  cbn [ht_run]. inversion Hok as [|? ? Ho Hrest]; subst.
  destruct (twoq_step_refines h s ls o HR Hinv Ho) as (h1 & s1 & ls1 & r & -> & _ & HR1 & Hinv1). cbn [hbind].
  destruct (IH h1 s1 ls1 HR1 Hinv1 Hrest) as (h2 & s2 & ls2 & outs & -> & HR2 & Hinv2). cbn [hbind]. eauto 10.
Qed.

Definition after_prog (f : fuse) (s : gstate) (p : list gop) (ps : list (fuse * list gop)) : Prop :=
  match gprog f s p with
  | GOk _ s1 | GPanic s1 => exists s2, grun s1 ps = Some s2 /\ ginv s2
  | GErr _ => False
  end.

Lemma after_prog_safe f s p ps :
  ginv s -> Forall gop_ok p -> Forall (fun fp => Forall gop_ok (snd fp)) ps -> after_prog f s p ps.
Proof.
  intros Hi Hok Hps. unfold after_prog. pose proof (gprog_safe p f s Hi Hok) as H.
  destruct (gprog f s p) as [f1 s1|s1|e]; [apply grun_safe; assumption|apply grun_safe; assumption|exact H].
Qed.

Theorem twoq_history_panic_safe size rs es os o f ps :
  (1 <= size)%nat -> (1 <= es)%nat -> Forall qop_ok os -> (forall i kd pre pa pb, o <> QIter i kd pre pa pb) ->
  Forall (fun fp => Forall gop_ok (snd fp)) ps ->
  exists h s outs,
    ht_run (fst (ht_new heap0 size rs es)) (snd (ht_new heap0 size rs es)) os = HOk (h, s, outs) /\
    ginv (gq_of h s) /\
    forall h' s' out, ht_step h s o = HOk (h', s', out) ->
      exists p fl, Forall gop_ok p /\ gprog None (gq_of h s) p = GOk None (gq_fl h' s' fl) /\ after_prog f (gq_of h s) p ps.
Proof.
  intros H1 H2 Hos Hno Hps.
  destruct (twoq_run_inv os _ _ _ (ht_new_refines size rs es) (twoq_new_inv size rs es H1 H2) Hos)
    as (h & s & ls & outs & E1 & (lr & lf & lg & Hf & (_ & Cr) & (_ & Cf) & (_ & Cg) & _) & (I1 & I2 & I3 & I4 & _)).
  assert (Gi : ginv (gq_of h s)) by (eapply twoq_ginv; eauto; lia).
  exists h, s, outs. split; [exact E1|]. split; [exact Gi|].
  intros h' s' out Hs. destruct (ht_step_prog h s o h' s' out Hno Hs) as (fl & p & Hok & E).
  exists p, fl. split; [exact Hok|]. split; [exact E|]. now apply after_prog_safe.
Qed.

Lemma arc_run_inv : forall os h s ls, RA h s ls [] -> arc_inv ls -> Forall aop_ok os ->
  exists h1 s1 ls1 outs, ha_run h s os = HOk (h1, s1, outs) /\ RA h1 s1 ls1 [] /\ arc_inv ls1.
Proof.
  induction os as [|o rest IH]; intros h s ls HR Hinv Hok; [cbn; eauto 10|].
  cbn [ha_run]. inversion Hok as [|? ? Ho Hrest]; subst.
  destruct (arc_step_refines h s ls o HR Hinv Ho) as (h1 & s1 & ls1 & r & -> & _ & HR1 & Hinv1). cbn [hbind].
  destruct (IH h1 s1 ls1 HR1 Hinv1 Hrest) as (h2 & s2 & ls2 & outs & -> & HR2 & Hinv2). cbn [hbind]. eauto 10.
Qed.

Theorem arc_history_panic_safe size os o f ps :
  (1 <= size)%nat -> Forall aop_ok os -> (forall i kd pre pa pb, o <> AIter i kd pre pa pb) ->
  Forall (fun fp => Forall gop_ok (snd fp)) ps ->
  exists h s outs,
    ha_run (fst (ha_new heap0 size)) (snd (ha_new heap0 size)) os = HOk (h, s, outs) /\
    ginv (ga_of h s) /\
    forall h' s' out, ha_step h s o = HOk (h', s', out) ->
      exists p, Forall gop_ok p /\ gprog None (ga_of h s) p = GOk None (ga_of h' s') /\ after_prog f (ga_of h s) p ps.
Proof.
  intros H1 Hos Hno Hps.
  destruct (arc_run_inv os _ _ _ (ha_new_refines size) (arc_new_inv size H1) Hos)
    as (h & s & ls & outs & E1 & (l1 & g1 & l2 & g2 & Hf & (_ & C1) & (_ & C2) & (_ & C3) & (_ & C4) & _) & (I1 & I2 & I3 & I4 & I5 & _)).
  assert (Gi : ginv (ga_of h s)) by (eapply arc_ginv; eauto; lia).
  exists h, s, outs. split; [exact E1|]. split; [exact Gi|].
  intros h' s' out Hs. destruct (ha_step_prog h s o h' s' out Hno Hs) as (p & Hok & E).
  exists p. split; [exact Hok|]. split; [exact E|]. now apply after_prog_safe.
Qed.

Lemma wtiny_run_inv : forall os h s ls, RW h s ls -> wt_inv ls ->
  exists h1 s1 ls1 outs, hw_run h s os = HOk (h1, s1, outs) /\ RW h1 s1 ls1 /\ wt_inv ls1.
Proof.
  induction os as [|o rest IH]; intros h s ls HR Hinv; [cbn; eauto 10|].
  cbn [hw_run].
  destruct (wtiny_step_refines [] h s ls o HR Hinv) as (h1 & s1 & ls1 & r & -> & _ & HR1 & Hinv1). cbn [hbind].
  destruct (IH h1 s1 ls1 HR1 Hinv1) as (h2 & s2 & ls2 & outs & -> & HR2 & Hinv2). cbn [hbind]. eauto 10.
Qed.

Theorem wtiny_history_panic_safe t kh wc pc fc os o f ps :
  wt_inv (mkWTiny t (lru_new wc false) (slru_new pc fc) kh) ->
  Forall (fun fp => Forall gop_ok (snd fp)) ps ->
  exists h s outs,
    hw_run (fst (hw_new heap0 t kh wc pc fc)) (snd (hw_new heap0 t kh wc pc fc)) os = HOk (h, s, outs) /\
    ginv (gw_of h s) /\
    forall h' s' out, hw_step h s o = HOk (h', s', out) ->
      exists p qs, Forall gop_ok p /\ Permutation qs (gls (gw_of h' s')) /\
                   gprog None (gw_of h s) p = GOk None (mkG h' qs []) /\ after_prog f (gw_of h s) p ps.
Proof.
  intros Hinv0 Hps.
  destruct (wtiny_run_inv os _ _ _ (hw_new_refines t kh wc pc fc) Hinv0)
    as (h & s & ls & outs & E1 & (_ & _ & lw & (la & lb & Hf & _ & _ & Ca & Cb) & (_ & Cw)) & (_ & Iw & _ & (Ia & Ib & _) & _)).
  assert (Ha : (0 < hcap (hprob (hw_slru s)))%nat) by lia. assert (Hb : (0 < hcap (hprot (hw_slru s)))%nat) by lia.
  assert (Hc : (0 < hcap (hw_lru s))%nat) by lia.
  assert (Gi : ginv (gw_of h s)) by (eapply wtiny_ginv; eauto).
  exists h, s, outs. split; [exact E1|]. split; [exact Gi|].
  intros h' s' out Hs. destruct (hw_step_prog_all h s o h' s' out Ha Hb Hc Hs) as (qs & Hperm & p & Hok & E).
  exists p, qs. split; [exact Hok|]. split; [exact Hperm|]. split; [exact E|]. now apply after_prog_safe.
Qed.
