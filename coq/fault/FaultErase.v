(** * Layer F — with no fuse the fault machine IS the heap machine, operation by operation. *)
From VF Require Import Base Lru BaseFacts LruFacts Heap HeapFacts HeapOps HeapRun Fault FaultFacts.
From Coq Require Import List Arith Lia.
Import ListNotations.
Local Open Scope nat_scope.

Lemma f_find_erase h q k r : idx_find h (hidx q) k = HOk r -> f_find None h q k = FOk (None, r).
Proof. intros H. unfold f_find. rewrite tick_find_none. cbn [fbind]. rewrite H. reflexivity. Qed.

Lemma f_purge_loop_erase : forall fuel h q acc h' q',
  h_purge_loop fuel h q = HOk (h', q') -> exists acc', f_purge_loop fuel None h q acc = FOk (None, h', q', acc').
Proof.
  induction fuel as [|fuel IH]; intros h q acc h' q' H; cbn [h_purge_loop f_purge_loop] in *; [discriminate|].
  destruct (h_remove_lru h q) as [[[h1 q1] r]|e] eqn:E; cbn [hbind] in H; [|discriminate].
  rewrite (f_remove_lru_erase h q _ _ _ E). cbn [fbind].
  destruct r as [e|]; [|inversion H; subst; eauto]. cbn [tick fbind]. now apply IH.
Qed.

Lemma f_resize_loop_erase c : forall fuel h q acc h' q',
  h_resize_loop fuel h q c = HOk (h', q') -> exists acc', f_resize_loop fuel None h q c acc = FOk (None, h', q', acc').
Proof.
  induction fuel as [|fuel IH]; intros h q acc h' q' H; cbn [h_resize_loop f_resize_loop] in *; [inversion H; subst; eauto|].
  destruct (c <? length (hidx q)); [|inversion H; subst; eauto].
  destruct (h_remove_lru h q) as [[[h1 q1] r]|e] eqn:E; cbn [hbind] in H; [|discriminate].
  rewrite (f_remove_lru_erase h q _ _ _ E). cbn [fbind].
  destruct r as [e|]; cbn [tick fbind]; now apply IH.
Qed.

Theorem fstep_erase h q o h' q' out :
  hstep h q o = HOk (h', q', out) -> fstep None h q o = FOk (None, h', q', out).
Proof.
  destruct o as [k v|k w|k|k| | |c|k w|k|w|w|w|k v w|k v]; cbn [hstep fstep]; intros H.
  - destruct (h_put h q k v) as [[[h1 q1] r]|e] eqn:E; cbn [hbind] in H; [|discriminate]. inversion H; subst.
    now rewrite (f_put_erase _ _ _ _ _ _ _ E).
  - destruct (h_get_mut h q k w) as [[h1 r]|e] eqn:E; cbn [hbind] in H; [|discriminate]. inversion H; subst.
    now rewrite (f_get_mut_erase _ _ _ _ _ _ E).
  - unfold h_peek in H. unfold f_peek.
    destruct (idx_find h (hidx q) k) as [r|e] eqn:E; cbn [hbind] in H; [|discriminate].
    rewrite (f_find_erase _ _ _ _ E). cbn [fbind]. destruct r as [n|]; [|inversion H; reflexivity].
    destruct (hread h n) as [[[[kk ov] p] x]|e]; cbn [hbind] in H; [|discriminate]. cbn [lift fbind].
    destruct ov; [inversion H; reflexivity|discriminate].
  - destruct (h_remove h q k) as [[[h1 q1] r]|e] eqn:E; cbn [hbind] in H; [|discriminate]. inversion H; subst.
    now rewrite (f_remove_erase _ _ _ _ _ _ E).
  - destruct (h_remove_lru h q) as [[[h1 q1] r]|e] eqn:E; cbn [hbind] in H; [|discriminate]. inversion H; subst.
    now rewrite (f_remove_lru_erase _ _ _ _ _ E).
  - destruct (h_purge h q) as [[h1 q1]|e] eqn:E; cbn [hbind] in H; [|discriminate]. inversion H; subst.
    unfold h_purge in E. unfold f_purge. destruct (f_purge_loop_erase _ _ _ [] _ _ E) as (acc' & ->). reflexivity.
  - destruct (h_resize h q c) as [[h1 q1]|e] eqn:E; cbn [hbind] in H; [|discriminate]. inversion H; subst.
    unfold h_resize in E. unfold f_resize. destruct (c =? hcap q); [inversion E; reflexivity|].
    destruct (h_resize_loop (length (hidx q)) h q c) as [[h2 q2]|e] eqn:E2; cbn [hbind] in E; [|discriminate]. inversion E; subst.
    destruct (f_resize_loop_erase c _ _ _ [] _ _ E2) as (acc' & ->). reflexivity.
  - unfold h_peek_mut in H. unfold f_peek_mut.
    destruct (idx_find h (hidx q) k) as [r|e] eqn:E; cbn [hbind] in H; [|discriminate].
    rewrite (f_find_erase _ _ _ _ E). cbn [fbind]. destruct r as [n|]; [|inversion H; reflexivity].
    destruct (h_write h n w) as [[h1 e]|e]; cbn [hbind] in H; [|discriminate]. cbn [lift fbind]. inversion H; reflexivity.
  - unfold h_contains in H. unfold f_contains.
    destruct (idx_find h (hidx q) k) as [r|e] eqn:E; cbn [hbind] in H; [|discriminate].
    rewrite (f_find_erase _ _ _ _ E). cbn [fbind]. inversion H; reflexivity.
  - unfold f_nouser. destruct (h_get_lru h q w) as [[h1 r]|e]; cbn [hbind] in H; [|discriminate]. inversion H; reflexivity.
  - unfold f_nouser. destruct (h_peek_lru h q w) as [[h1 r]|e]; cbn [hbind] in H; [|discriminate]. inversion H; reflexivity.
  - unfold f_nouser. destruct (h_peek_mru h q w) as [[h1 r]|e]; cbn [hbind] in H; [|discriminate]. inversion H; reflexivity.
  - unfold h_peek_mut_or_put, h_peek_mut in H. unfold f_peek_mut_or_put.
    destruct (idx_find h (hidx q) k) as [r|e] eqn:E; cbn [hbind] in H; [|discriminate].
    rewrite (f_find_erase _ _ _ _ E). cbn [fbind]. destruct r as [n|].
    + destruct (h_write h n w) as [[h1 e]|e]; cbn [hbind] in H; [|discriminate]. cbn [tick lift fbind]. inversion H; reflexivity.
    + cbn [hbind] in H. destruct (h_put h q k v) as [[[h2 q2] pr]|e] eqn:E2; cbn [hbind] in H; [|discriminate].
      rewrite (f_put_erase _ _ _ _ _ _ _ E2). cbn [fbind]. inversion H; reflexivity.
  - unfold h_contains_or_put, h_contains in H. unfold f_contains_or_put, f_contains.
    destruct (idx_find h (hidx q) k) as [r|e] eqn:E; cbn [hbind] in H; [|discriminate].
    rewrite (f_find_erase _ _ _ _ E). cbn [fbind]. destruct r as [n|]; cbn [tick fbind].
    + inversion H; reflexivity.
    + destruct (h_put h q k v) as [[[h2 q2] pr]|e] eqn:E2; cbn [hbind] in H; [|discriminate].
      rewrite (f_put_erase _ _ _ _ _ _ _ E2). cbn [fbind]. inversion H; reflexivity.
Qed.
